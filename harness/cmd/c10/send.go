package main

import (
	"bytes"
	"context"
	"encoding/hex"
	"encoding/json"
	"fmt"
	"io"
	"net/http"
	"net/http/httptest"
	"net/url"
	"strings"
	"sync"
	"time"

	"github.com/ipfs/go-cid"
	"github.com/ipni/go-libipni/announce"
	"github.com/ipni/go-libipni/announce/gossiptopic"
	"github.com/ipni/go-libipni/announce/httpsender"
	"github.com/ipni/go-libipni/announce/message"
	"github.com/ipni/go-libipni/announce/p2psender"
	"github.com/libp2p/go-libp2p"
	pubsub "github.com/libp2p/go-libp2p-pubsub"
	"github.com/libp2p/go-libp2p/core/crypto"
	"github.com/libp2p/go-libp2p/core/host"
	"github.com/libp2p/go-libp2p/core/peer"
	"github.com/multiformats/go-multiaddr"
	"github.com/multiformats/go-varint"

	"verif/harness/vlib"
)

// ---------------------------------------------------------------------------
// addresses with a class known by construction

type addrDef struct {
	B     []byte
	Class string // known | unknown | invalid
	Text  string
}

type rngReader struct{ r *vlib.Rand }

func (x rngReader) Read(b []byte) (int, error) {
	copy(b, x.r.Bytes(len(b)))
	return len(b), nil
}

func genPeer(r *vlib.Rand) peer.ID {
	_, pub, err := crypto.GenerateEd25519Key(rngReader{r})
	if err != nil {
		panic(err)
	}
	id, err := peer.IDFromPublicKey(pub)
	if err != nil {
		panic(err)
	}
	return id
}

func genKnownAddr(r *vlib.Rand, other peer.ID) addrDef {
	ip := fmt.Sprintf("%d.%d.%d.%d", 1+r.Intn(223), r.Intn(256), r.Intn(256), 1+r.Intn(254))
	port := 1 + r.Intn(65535)
	var s string
	switch r.Intn(9) {
	case 0:
		s = fmt.Sprintf("/ip4/%s/tcp/%d", ip, port)
	case 1:
		s = fmt.Sprintf("/ip4/%s/tcp/%d/http", ip, port)
	case 2:
		s = fmt.Sprintf("/dns4/host%d.example.com/tcp/443/https", r.Intn(1000))
	case 3:
		s = fmt.Sprintf("/ip6/2001:db8::%x/tcp/%d", r.Intn(65536), port)
	case 4:
		s = fmt.Sprintf("/ip4/%s/udp/%d/quic-v1", ip, port)
	case 5:
		s = fmt.Sprintf("/dns/x%d.example.org/tcp/80/http/http-path/ipni%%2Fv1", r.Intn(100))
	case 6:
		s = fmt.Sprintf("/ip4/%s/tcp/%d/p2p/%s", ip, port, other) // already names a peer
	case 7:
		s = fmt.Sprintf("/dnsaddr/boot%d.example.net", r.Intn(100))
	default:
		s = fmt.Sprintf("/ip4/%s/tcp/%d/ws", ip, port)
	}
	a, err := multiaddr.NewMultiaddr(s)
	if err != nil {
		panic(s + ": " + err.Error())
	}
	return addrDef{B: a.Bytes(), Class: "known", Text: s}
}

func genUnknownAddr(r *vlib.Rand, other peer.ID) addrDef {
	code := []uint64{9999, 0, 7777777, 1<<31 - 1, 2, 300}[r.Intn(6)] // any code of go-multiaddr's 32-bit code space that names no protocol
	b := append(varint.ToUvarint(code), r.Bytes(r.Intn(12))...)
	if r.Intn(2) == 0 { // a known prefix followed by an unknown protocol
		b = append(genKnownAddr(r, other).B, b...)
	}
	return addrDef{B: b, Class: "unknown", Text: fmt.Sprintf("<code %d>", code)}
}

func genInvalidAddr(r *vlib.Rand) addrDef {
	var b []byte
	switch r.Intn(7) {
	case 6:
		b = append(varint.ToUvarint(1<<40), r.Bytes(r.Intn(4))...) // beyond go-multiaddr's 32-bit code space: malformed, not unknown
	case 0:
		b = []byte{}
	case 1:
		b = []byte{0x04, 1, 2} // ip4 with 2 of 4 bytes
	case 2:
		b = []byte{0x06} // tcp without port
	case 3:
		b = []byte{0x04, 1, 2, 3, 4, 0x06, 0x1f} // tcp with half a port
	case 4:
		b = []byte{0x36, 0x20, 'a'} // dns4 declaring 32 bytes, 1 present
	default:
		b = []byte{0x80} // varint that never ends
	}
	return addrDef{B: b, Class: "invalid", Text: "<invalid>"}
}

func libClass(b []byte) string {
	_, err := multiaddr.NewMultiaddrBytes(b)
	switch {
	case err == nil:
		return "known"
	case strings.Contains(err.Error(), "no protocol with code"):
		return "unknown"
	}
	return "invalid"
}

// ---------------------------------------------------------------------------

type httpCase struct {
	Peer    string   `json:"peer"`
	Extra   string   `json:"cfg_extra"` // hex, sender option
	JSON    bool     `json:"json"`
	TwoURLs bool     `json:"two_urls"`
	Msg     MsgDesc  `json:"msg"`
	Classes []string `json:"classes"`
}

type capture struct {
	mu     sync.Mutex
	bodies [][]byte
	ctypes []string
}

func (cp *capture) handler(w http.ResponseWriter, r *http.Request) {
	b, _ := io.ReadAll(r.Body)
	cp.mu.Lock()
	cp.bodies = append(cp.bodies, b)
	cp.ctypes = append(cp.ctypes, r.Header.Get("Content-Type"))
	cp.mu.Unlock()
	w.WriteHeader(http.StatusNoContent)
}

func (cp *capture) take() ([][]byte, []string) {
	cp.mu.Lock()
	defer cp.mu.Unlock()
	b, t := cp.bodies, cp.ctypes
	cp.bodies, cp.ctypes = nil, nil
	return b, t
}

type httpEnv struct {
	srv1, srv2 *httptest.Server
	cap1, cap2 *capture
}

func newHTTPEnv() *httpEnv {
	e := &httpEnv{cap1: &capture{}, cap2: &capture{}}
	e.srv1 = httptest.NewServer(http.HandlerFunc(e.cap1.handler))
	e.srv2 = httptest.NewServer(http.HandlerFunc(e.cap2.handler))
	return e
}

func (e *httpEnv) close() { e.srv1.Close(); e.srv2.Close() }

func p2pComponent(id peer.ID) []byte {
	cm, err := multiaddr.NewComponent("p2p", id.String())
	if err != nil {
		panic(err)
	}
	return cm.Bytes()
}

// runHTTP sends hc through the real sender and returns the posted body (nil, err on failure)
func (e *httpEnv) runHTTP(hc httpCase) (body []byte, sendErr error, problem string) {
	id, err := peer.Decode(hc.Peer)
	if err != nil {
		panic(err)
	}
	m, err := hc.Msg.toGo()
	if err != nil {
		panic(err)
	}
	u1, _ := url.Parse(e.srv1.URL)
	urls := []*url.URL{u1}
	if hc.TwoURLs {
		u2, _ := url.Parse(e.srv2.URL + "/other")
		urls = append(urls, u2)
	}
	ex, _ := hex.DecodeString(hc.Extra)
	s, err := httpsender.New(urls, id, httpsender.WithExtraData(ex), httpsender.WithTimeout(10*time.Second))
	if err != nil {
		panic(err)
	}
	defer s.Close()
	ctx, cancel := context.WithTimeout(context.Background(), 15*time.Second)
	defer cancel()
	func() {
		defer func() {
			if r := recover(); r != nil {
				problem = fmt.Sprintf("sender-panic: %v", r)
			}
		}()
		if hc.JSON {
			sendErr = s.SendJson(ctx, m)
		} else {
			sendErr = s.Send(ctx, m)
		}
	}()
	b1, t1 := e.cap1.take()
	b2, _ := e.cap2.take()
	if problem != "" {
		return nil, sendErr, problem
	}
	if sendErr != nil {
		if len(b1)+len(b2) != 0 {
			problem = "send-error-but-posted"
		}
		return nil, sendErr, problem
	}
	if len(b1) != 1 {
		return nil, nil, fmt.Sprintf("posted-%d-requests", len(b1))
	}
	want := "application/octet-stream"
	if hc.JSON {
		want = "application/json"
	}
	if t1[0] != want {
		problem = "content-type-" + t1[0]
	}
	if hc.TwoURLs && (len(b2) != 1 || !bytes.Equal(b1[0], b2[0])) {
		problem = "second-url-got-different-body"
	}
	return b1[0], nil, problem
}

// httpOracle: what the property says the receiver must decode.
func httpOracle(hc httpCase, body []byte) string {
	id, _ := peer.Decode(hc.Peer)
	m, _ := hc.Msg.toGo()
	var got message.Message
	if hc.JSON {
		if err := json.Unmarshal(body, &got); err != nil {
			return "receiver-json-decode-error"
		}
	} else {
		d := runDec(body)
		if d.Panicked != "" || d.Err != nil || d.Rest != 0 {
			return "receiver-cbor-decode-error"
		}
		got = d.Msg
	}
	p2p := p2pComponent(id)
	var wantAddrs [][]byte
	for i, a := range m.Addrs {
		if hc.Classes[i] == "known" {
			wantAddrs = append(wantAddrs, append(append([]byte{}, a...), p2p...))
		}
	}
	want := message.Message{Cid: m.Cid, Addrs: wantAddrs, ExtraData: m.ExtraData, OrigPeer: m.OrigPeer}
	if ex, _ := hex.DecodeString(hc.Extra); len(ex) != 0 {
		want.ExtraData = ex
	}
	if !sameMsg(want, got) {
		// when no address has a known protocol the sender communicates the bare publisher ID
		alt := want
		alt.Addrs = [][]byte{p2p}
		if !(len(m.Addrs) > 0 && len(wantAddrs) == 0 && sameMsg(alt, got)) {
			return "receiver-decodes-different-message"
		}
	}
	// the receiver can read the publisher ID off every address
	addrs, err := got.GetAddrs()
	if err != nil {
		return "receiver-getaddrs-error"
	}
	for _, a := range addrs {
		_, last := multiaddr.SplitLast(a)
		if last == nil || last.Protocol().Code != multiaddr.P_P2P || last.Value() != id.String() {
			return "receiver-address-without-publisher-id"
		}
	}
	return ""
}

func coqClass(s string) string {
	switch s {
	case "known":
		return "AKnown"
	case "unknown":
		return "AUnknown"
	}
	return "AInvalid"
}

// httpFailure: the direct oracles of one sender run; "" when they hold
func (e *httpEnv) httpFailure(hc httpCase) (string, string) {
	m, _ := hc.Msg.toGo()
	body, sendErr, problem := e.runHTTP(hc)
	if problem != "" {
		return "http-sender:" + problem, problem
	}
	nu, ni := 0, 0
	for _, cl := range hc.Classes {
		switch cl {
		case "unknown":
			nu++
		case "invalid":
			ni++
		}
	}
	enc := runEnc(&m)
	if sendErr != nil && ni == 0 && enc.Err == nil && m.Cid.Defined() {
		// nothing invalid, within caps: an unknown protocol must not fail the message
		if nu > 0 {
			return "unknown-protocol-fails-message", sendErr.Error()
		}
		return "http-send-fails", sendErr.Error()
	}
	if sendErr == nil {
		if f := httpOracle(hc, body); f != "" {
			return "http-wire:" + f, f
		}
	}
	return "", ""
}

func (e *httpEnv) shrinkHTTP(hc httpCase) httpCase {
	kind, _ := e.httpFailure(hc)
	try := func(c httpCase) bool {
		if k, _ := e.httpFailure(c); k == kind {
			hc = c
			return true
		}
		return false
	}
	for i := 0; i < len(hc.Msg.Addrs); i++ {
		c := hc
		c.Msg.Addrs = append(append([]*string{}, hc.Msg.Addrs[:i]...), hc.Msg.Addrs[i+1:]...)
		c.Classes = append(append([]string{}, hc.Classes[:i]...), hc.Classes[i+1:]...)
		if try(c) {
			i--
		}
	}
	for _, f := range []func(*httpCase){
		func(c *httpCase) { c.Extra = "" }, func(c *httpCase) { c.TwoURLs = false }, func(c *httpCase) { c.JSON = false },
		func(c *httpCase) { c.Msg.Extra = nil }, func(c *httpCase) { c.Msg.Orig = "" },
	} {
		c := hc
		f(&c)
		try(c)
	}
	m, err := hc.Msg.toGo()
	if err == nil && m.Cid.Defined() {
		sm := shrinkMsg(m, func(x message.Message) string {
			c := hc
			d := descOf(x)
			d.Addrs, d.AddrsNil = hc.Msg.Addrs, hc.Msg.AddrsNil
			c.Msg = d
			if k, _ := e.httpFailure(c); k == kind {
				return "same"
			}
			return ""
		})
		d := descOf(sm)
		d.Addrs, d.AddrsNil = hc.Msg.Addrs, hc.Msg.AddrsNil
		c := hc
		c.Msg = d
		try(c)
	}
	return hc
}

func httpSig(hc httpCase) string {
	m, _ := hc.Msg.toGo()
	nk, nu, ni := 0, 0, 0
	for _, cl := range hc.Classes {
		switch cl {
		case "known":
			nk++
		case "unknown":
			nu++
		default:
			ni++
		}
	}
	return fmt.Sprintf("known=%d,unknown=%d,invalid=%d,json=%v,%s", nk, nu, ni, hc.JSON, msgSummary(m))
}

func (c *ctx) emitHTTP(e *httpEnv, hc httpCase, sample bool) {
	c.Eval()
	id, _ := peer.Decode(hc.Peer)
	m, _ := hc.Msg.toGo()
	body, sendErr, _ := e.runHTTP(hc)
	nu, ni := 0, 0
	for _, cl := range hc.Classes {
		switch cl {
		case "unknown":
			nu++
		case "invalid":
			ni++
		}
	}
	sig := httpSig(hc)
	if kind, detail := e.httpFailure(hc); kind != "" {
		c.fails[kind]++
		if c.fails[kind] <= 2 {
			sh := e.shrinkHTTP(hc)
			c.Fail(kind+":"+httpSig(sh), detail, replay{Kind: "http", HTTP: &sh})
		}
	}
	c.Count(fmt.Sprintf("http:json=%v", hc.JSON))
	if nu > 0 {
		c.Count("http:with-unknown-protocol-address")
	}
	if ni > 0 {
		c.Count("http:with-invalid-address")
	}
	if sendErr != nil {
		c.Count("http-outcome:err")
	} else {
		c.Count("http-outcome:ok")
	}
	if hc.JSON {
		return // the JSON text layer is not modelled; oracles only
	}
	ex, _ := hex.DecodeString(hc.Extra)
	it := make([]string, len(m.Addrs))
	for i, a := range m.Addrs {
		it[i] = fmt.Sprintf("(%s, %s)", coqBytes(a), coqClass(hc.Classes[i]))
	}
	cm := fmt.Sprintf("(CMsg %s %s %s %s)", coqOptCid(m.Cid), vlib.CoqList(it), coqOptBytes(m.ExtraData), coqBytes([]byte(m.OrigPeer)))
	cfg := fmt.Sprintf("(SCfg %s %s)", coqBytes(p2pComponent(id)), coqBytes(ex))
	var obs string
	if sendErr != nil {
		obs = obsErr("bytes", 0)
	} else {
		obs = obsOk("bytes", coqBytes(body))
		c.Nontrivial("http:" + sig)
	}
	c.Case("http", fmt.Sprintf("(%s, %s, %s)", cfg, cm, obs), replay{Kind: "http", HTTP: &hc})
	if sample {
		c.Sample(map[string]interface{}{"kind": "http", "case": hc, "posted": hx(body)})
	}
}

func (c *ctx) genHTTPCase(r *vlib.Rand, peers []peer.ID) httpCase {
	id := peers[r.Intn(len(peers))]
	other := peers[r.Intn(len(peers))]
	var m message.Message
	m.Cid, _ = genCid(r)
	if r.Intn(25) == 0 {
		m.Cid = mustCast(rawCidV1(0x55, 0x12, r.Bytes(32)))
	}
	var classes []string
	n := r.Intn(6)
	if r.Intn(10) == 0 {
		n = 0
	}
	for i := 0; i < n; i++ {
		var a addrDef
		switch k := r.Intn(20); {
		case k < 13:
			a = genKnownAddr(r, other)
		case k < 19:
			a = genUnknownAddr(r, other)
		default:
			a = genInvalidAddr(r)
		}
		m.Addrs = append(m.Addrs, a.B)
		classes = append(classes, a.Class)
	}
	if n == 0 && r.Bool() {
		m.Addrs = [][]byte{}
	}
	m.ExtraData = genBytes(r, 200)
	m.OrigPeer = []string{"", "", samplePeers[0]}[r.Intn(3)]
	hc := httpCase{Peer: id.String(), JSON: r.Intn(4) == 0, TwoURLs: r.Intn(10) == 0, Msg: descOf(m), Classes: classes}
	if r.Intn(3) == 0 {
		hc.Extra = hx(r.Bytes(1 + r.Intn(30)))
	}
	return hc
}

func (c *ctx) httpCases() {
	r := c.Rng.Fork("http")
	peers := []peer.ID{genPeer(r), genPeer(r), genPeer(r)}
	e := newHTTPEnv()
	defer e.close()
	// the classes the generator intends are the classes the real parser assigns
	nbad := 0
	for i := 0; i < 300 && nbad < 3; i++ {
		for _, a := range []addrDef{genKnownAddr(r, peers[0]), genUnknownAddr(r, peers[1]), genInvalidAddr(r)} {
			if got := libClass(a.B); got != a.Class {
				nbad++
				k := "harness-address-class"
				if a.Class == "unknown" {
					k = "unknown-protocol-not-recognised"
				}
				c.Fail(fmt.Sprintf("%s:%s:%s", k, hx(a.B), got), fmt.Sprintf("address %x (%s) meant as %s is classified %s by go-multiaddr + GetAddrs' rule", a.B, a.Text, a.Class, got), hx(a.B))
			}
		}
	}
	n := c.Pick(260, 3000)
	for i := 0; i < n; i++ {
		hc := c.genHTTPCase(r, peers)
		c.emitHTTP(e, hc, i == 3)
	}
	c.announceSendCases(e, r.Fork("asend"), peers)
	c.httpBursts(r.Fork("bursts"), peers)
	// hand-made: only unknown protocols; only invalid; undefined CID; an address already carrying the id
	base := mustCast(rawCidV1(0x55, 0x12, r.Bytes(32)))
	u := genUnknownAddr(r, peers[0])
	k := genKnownAddr(r, peers[0])
	for _, x := range []struct {
		addrs []addrDef
		undef bool
	}{
		{[]addrDef{u}, false}, {[]addrDef{u, genUnknownAddr(r, peers[0])}, false}, {[]addrDef{genInvalidAddr(r)}, false},
		{[]addrDef{k, u, k}, false}, {[]addrDef{u, k}, false}, {[]addrDef{k}, true}, {nil, false},
	} {
		m := message.Message{Cid: base}
		if x.undef {
			m.Cid = cid.Undef
		}
		var cl []string
		for _, a := range x.addrs {
			m.Addrs = append(m.Addrs, a.B)
			cl = append(cl, a.Class)
		}
		c.emitHTTP(e, httpCase{Peer: peers[0].String(), Msg: descOf(m), Classes: cl}, false)
	}
}

// announce.Send (announce/sender.go) with an httpsender: builds the message itself
func (c *ctx) announceSendCases(e *httpEnv, r *vlib.Rand, peers []peer.ID) {
	c.Family("asend", []string{reqLibs, reqModel}, "asend_case_ok", 200)
	u1, _ := url.Parse(e.srv1.URL)
	n := c.Pick(30, 300)
	for i := 0; i < n; i++ {
		id := peers[r.Intn(len(peers))]
		ex := []byte(nil)
		if r.Intn(3) == 0 {
			ex = r.Bytes(1 + r.Intn(20))
		}
		s, err := httpsender.New([]*url.URL{u1}, id, httpsender.WithExtraData(ex))
		if err != nil {
			panic(err)
		}
		x, _ := genCid(r)
		if x.ByteLen() > 400 { // the CID cap is the business of the enc/http families
			x = mustCast(rawCidV1(0x55, 0x12, r.Bytes(32)))
		}
		if i%10 == 9 {
			x = cid.Undef
		}
		var maddrs []multiaddr.Multiaddr
		var raw [][]byte
		for k := r.Intn(4); k > 0; k-- {
			a := genKnownAddr(r, peers[0])
			ma, err := multiaddr.NewMultiaddrBytes(a.B)
			if err != nil {
				panic(err)
			}
			maddrs = append(maddrs, ma)
			raw = append(raw, a.B)
		}
		ctx, cancel := context.WithTimeout(context.Background(), 15*time.Second)
		var sendErr error
		if i%7 == 3 {
			sendErr = announce.Send(ctx, x, maddrs, nil, s) // a nil sender is skipped
		} else {
			sendErr = announce.Send(ctx, x, maddrs, s)
		}
		cancel()
		s.Close()
		bodies, _ := e.cap1.take()
		c.Eval()
		c.Count("announce.Send")
		var obs string
		switch {
		case sendErr != nil:
			obs = "(Some " + obsErr("bytes", 0) + ")"
		case len(bodies) == 0:
			obs = "None"
			if x.Defined() {
				c.Fail("announce-send-posted-nothing", "announce.Send returned nil without posting", nil)
			}
		default:
			obs = "(Some " + obsOk("bytes", coqBytes(bodies[0])) + ")"
			// direct oracle: the receiver decodes the CID and every address + /p2p/<id>
			d := runDec(bodies[0])
			want := message.Message{Cid: x, ExtraData: ex}
			for _, a := range raw {
				want.Addrs = append(want.Addrs, append(append([]byte{}, a...), p2pComponent(id)...))
			}
			if d.Err != nil || d.Panicked != "" || !sameMsg(want, d.Msg) {
				c.fails["announce-send"]++
				if c.fails["announce-send"] <= 2 {
					c.Fail(fmt.Sprintf("announce-send:receiver-decodes-different-message:addrs=%d,cid-bytelen=%d", len(raw), x.ByteLen()), fmt.Sprint(d.Err), nil)
				}
			}
			c.Nontrivial(fmt.Sprintf("asend:%d:%s", len(raw), hx(bodies[0][:min(len(bodies[0]), 40)])))
		}
		it := make([]string, len(raw))
		for k, a := range raw {
			it[k] = coqBytes(a)
		}
		cfg := fmt.Sprintf("(SCfg %s %s)", coqBytes(p2pComponent(id)), coqBytes(ex))
		c.Case("asend", fmt.Sprintf("(%s, %s, %s, %s)", cfg, coqOptCid(x), vlib.CoqList(it), obs), map[string]interface{}{"cid": hx(x.Bytes()), "addrs": len(raw)})
	}
}

func (c *ctx) httpReplay(hc *httpCase) {
	e := newHTTPEnv()
	defer e.close()
	body, err, problem := e.runHTTP(*hc)
	fmt.Printf("  httpsender: err=%v problem=%q posted=%s\n", err, problem, hx(body))
	c.emitHTTP(e, *hc, true)
}

// ---------------------------------------------------------------------------
// p2psender over loopback libp2p hosts

func newHost() host.Host {
	h, err := libp2p.New(libp2p.ListenAddrStrings("/ip4/127.0.0.1/tcp/0"), libp2p.DisableRelay())
	if err != nil {
		panic(err)
	}
	return h
}

func (c *ctx) p2pCases() {
	r := c.Rng.Fork("p2p")
	defer func() {
		if x := recover(); x != nil {
			c.Note(fmt.Sprintf("p2psender run skipped: %v", x))
		}
	}()
	topicName := "/verif/c10/announce"
	h1, h2 := newHost(), newHost()
	defer h1.Close()
	defer h2.Close()
	t1, cancel1, err := gossiptopic.MakeTopic(h1, topicName)
	if err != nil {
		panic(err)
	}
	defer cancel1()
	t2, cancel2, err := gossiptopic.MakeTopic(h2, topicName)
	if err != nil {
		panic(err)
	}
	defer cancel2()
	sub2, err := t2.Subscribe()
	if err != nil {
		panic(err)
	}
	ctx, cancel := context.WithTimeout(context.Background(), 60*time.Second)
	defer cancel()
	if err := h1.Connect(ctx, peer.AddrInfo{ID: h2.ID(), Addrs: h2.Addrs()}); err != nil {
		panic(err)
	}
	for i := 0; i < 200 && len(t1.ListPeers()) == 0; i++ {
		time.Sleep(25 * time.Millisecond)
	}
	if len(t1.ListPeers()) == 0 {
		panic("pubsub peers did not meet")
	}
	n := c.Pick(40, 400)
	for _, exd := range [][]byte{nil, r.Bytes(9)} {
		s, err := p2psender.New(nil, "", p2psender.WithTopic(t1), p2psender.WithExtraData(exd))
		if err != nil {
			panic(err)
		}
		for i := 0; i < n/2; i++ {
			m, _ := genMsg(r)
			if m.Cid.ByteLen() > 400 { // keep clear of the CID cap here; covered by the enc family
				m.Cid = mustCast(rawCidV1(0x55, 0x12, r.Bytes(32)))
			}
			c.Eval()
			c.Count("p2p:sent")
			sctx, scancel := context.WithTimeout(ctx, 10*time.Second)
			sendErr := s.Send(sctx, m)
			var data []byte
			if sendErr == nil {
				pm, err := sub2.Next(sctx)
				if err != nil {
					scancel()
					c.fails["p2p-not-delivered"]++
					if c.fails["p2p-not-delivered"] <= 2 {
						c.Fail("p2p-not-delivered:"+msgSummary(m), err.Error(), replay{Kind: "roundtrip", Msg: ptr(descOf(m))})
					}
					continue
				}
				data = pm.Data
			}
			scancel()
			want := m
			if len(exd) != 0 {
				want.ExtraData = exd
			}
			var obs string
			if sendErr != nil {
				obs = obsErr("bytes", 0)
			} else {
				obs = obsOk("bytes", coqBytes(data))
				// what the announce receiver does with it (receiver.go): decode from a bytes.Buffer
				var got message.Message
				if err := got.UnmarshalCBOR(bytes.NewBuffer(data)); err != nil || !sameMsg(want, got) {
					c.fails["p2p-wire"]++
					if c.fails["p2p-wire"] <= 2 {
						c.Fail(fmt.Sprintf("p2p-wire:receiver-decodes-different-message:cfg-extra=%d,%s", len(exd), msgSummary(m)),
							fmt.Sprintf("decode error %v; sent %s, receiver decoded %s", err, msgSummary(want), msgSummary(got)), replay{Kind: "roundtrip", Msg: ptr(descOf(m))})
					}
				}
				c.Nontrivial("p2p:" + msgSummary(m))
			}
			cfg := fmt.Sprintf("(SCfg [] %s)", coqBytes(exd))
			c.Case("p2p", fmt.Sprintf("(%s, %s, %s)", cfg, coqMsg(m), obs), replay{Kind: "roundtrip", Msg: ptr(descOf(m))})
		}
	}
	_ = pubsub.DefaultMaxMessageSize
	c.receiverSizes(r, ctx, h1, t1, h2, t2)
	c.sendBursts(r, ctx, t1, sub2)
}

// receiverSizes: p2psender -> pubsub -> a real announce.Receiver as the decoder, for message
// sizes across the encoder's caps (below the pubsub limit of 1 MiB): what the consumer of the
// receiver gets is the CID and the addresses that were sent, whatever the size.
func (c *ctx) receiverSizes(r *vlib.Rand, ctx context.Context, h1 host.Host, t1 *pubsub.Topic, h2 host.Host, t2 *pubsub.Topic) {
	rc, err := announce.NewReceiver(h2, "", announce.WithTopic(t2))
	if err != nil {
		panic(err)
	}
	defer rc.Close()
	other := genPeer(r)
	type shape struct{ extra, addrs int }
	shapes := []shape{{0, 0}, {100, 1}, {4000, 2}, {4096, 0}, {5000, 3}, {65536, 1}, {900 << 10, 2}, {0, 300}, {10, 2000}, {5000, 40}}
	for _, sh := range shapes {
		for _, withOrig := range []bool{false, true} {
			if withOrig && sh.extra > 70000 {
				continue
			}
			m := message.Message{Cid: mustCast(rawCidV1(0x55, 0x12, r.Bytes(32)))}
			var wantAddrs [][]byte
			for k := 0; k < sh.addrs; k++ {
				a := genKnownAddr(r, other)
				if strings.Contains(a.Text, "/p2p/") {
					a = genKnownAddr(r, other)
				}
				m.Addrs = append(m.Addrs, a.B)
				wantAddrs = append(wantAddrs, a.B)
			}
			exd := patterned(r, sh.extra)
			wantPeer := h1.ID()
			if withOrig {
				m.OrigPeer = samplePeers[0]
				wantPeer, _ = peer.Decode(samplePeers[0])
			}
			s, err := p2psender.New(nil, "", p2psender.WithTopic(t1), p2psender.WithExtraData(exd))
			if err != nil {
				panic(err)
			}
			c.Eval()
			c.Count("p2p:to-real-receiver")
			enc := runEnc(&message.Message{Cid: m.Cid, Addrs: m.Addrs, ExtraData: exd, OrigPeer: m.OrigPeer})
			sig := fmt.Sprintf("extra=%d,addrs=%d,orig=%v", sh.extra, sh.addrs, withOrig)
			if err := s.Send(ctx, m); err != nil {
				c.failOnce("p2p-receiver-send", "p2p-to-receiver:send-error:"+sig, err.Error(), burstReplay)
				continue
			}
			nctx, ncancel := context.WithTimeout(ctx, 4*time.Second)
			a, err := rc.Next(nctx)
			ncancel()
			if err != nil {
				c.failOnce("p2p-receiver-lost", "p2p-to-receiver:not-delivered:"+sig,
					fmt.Sprintf("a message of %d bytes (within the encoder's caps, below the pubsub limit) sent by p2psender was not delivered by the receiver: %v", len(enc.Bytes), err), burstReplay)
				continue
			}
			ok := a.Cid == m.Cid && a.PeerID == wantPeer && len(a.Addrs) == len(wantAddrs)
			for k := 0; ok && k < len(wantAddrs); k++ {
				ok = bytes.Equal(a.Addrs[k].Bytes(), wantAddrs[k])
			}
			if !ok {
				c.failOnce("p2p-receiver-differs", "p2p-to-receiver:differs:"+sig, "the receiver delivered a different announcement than was sent", burstReplay)
			} else {
				c.Nontrivial("p2p-receiver:" + sig)
			}
		}
	}
}

// replays of the burst scenarios re-run all of them (they are seeded and take ~2 s)
var burstReplay = replay{Kind: "burst"}

// burstMsg: small distinct messages of different lengths (a shorter one after a longer one
// is what a reused encode buffer would corrupt)
func burstMsg(r *vlib.Rand, i int) message.Message {
	m := message.Message{Cid: mustCast(rawCidV1(0x55, 0x12, r.Bytes(32)))}
	for k := 0; k < (5-i)%4; k++ {
		m.Addrs = append(m.Addrs, r.Bytes(8+r.Intn(20)))
	}
	m.ExtraData = r.Bytes(40 - 7*i + r.Intn(5))
	if i%2 == 0 {
		m.OrigPeer = samplePeers[i%len(samplePeers)]
	}
	return m
}

// sendBursts: k = 2..5 Send calls of DIFFERENT messages on ONE sender before anything is
// consumed; then everything is read: the i-th message received must be the i-th sent.
func (c *ctx) sendBursts(r *vlib.Rand, ctx context.Context, t1 *pubsub.Topic, sub2 *pubsub.Subscription) {
	// drain what the remote subscriber still has
	for {
		dctx, dcancel := context.WithTimeout(ctx, 100*time.Millisecond)
		_, err := sub2.Next(dctx)
		dcancel()
		if err != nil {
			break
		}
	}
	sub1, err := t1.Subscribe() // a subscriber on the sender's own host sees the very slices Publish was given
	if err != nil {
		panic(err)
	}
	defer sub1.Cancel()
	s, err := p2psender.New(nil, "", p2psender.WithTopic(t1))
	if err != nil {
		panic(err)
	}
	rounds := c.Pick(3, 20)
	for round := 0; round < rounds; round++ {
		for k := 2; k <= 5; k++ {
			var want [][]byte
			for i := 0; i < k; i++ {
				m := burstMsg(r, i)
				want = append(want, runEnc(&m).Bytes)
				if err := s.Send(ctx, m); err != nil {
					panic(err)
				}
			}
			c.Eval()
			c.Count("burst:p2psender")
			// local subscriber: in order
			for i := 0; i < k; i++ {
				rctx, rcancel := context.WithTimeout(ctx, 3*time.Second)
				pm, err := sub1.Next(rctx)
				rcancel()
				if err != nil {
					c.failOnce("burst-p2p", "p2p-burst:local-subscriber-lost-a-message", fmt.Sprintf("message %d of %d: %v", i+1, k, err), burstReplay)
					break
				}
				if !bytes.Equal(pm.Data, want[i]) {
					which := "garbage"
					for j := range want {
						if bytes.Equal(pm.Data, want[j]) {
							which = fmt.Sprintf("the content of message %d", j+1)
						}
					}
					var got message.Message
					derr := got.UnmarshalCBOR(bytes.NewBuffer(pm.Data))
					c.failOnce("burst-p2p", "p2p-burst:message-altered-by-a-later-send",
						fmt.Sprintf("%d Send calls on one p2psender before anything was consumed: the subscriber on the topic got %s for message %d (decode: %v)", k, which, i+1, derr), burstReplay)
					break
				}
			}
			// remote subscriber: all k, any order (a message altered after signing is rejected there)
			seen := map[int]bool{}
			for i := 0; i < k; i++ {
				rctx, rcancel := context.WithTimeout(ctx, 3*time.Second)
				pm, err := sub2.Next(rctx)
				rcancel()
				if err != nil {
					c.failOnce("burst-p2p-remote", "p2p-burst:remote-subscriber-lost-a-message", fmt.Sprintf("%d messages sent back to back, the remote subscriber got %d: %v", k, i, err), burstReplay)
					break
				}
				for j := range want {
					if bytes.Equal(pm.Data, want[j]) {
						seen[j] = true
					}
				}
			}
			if len(seen) == k {
				c.Nontrivial(fmt.Sprintf("burst:p2p:%d:%d", k, round))
			}
		}
	}
	c.fanOut(r, ctx, t1, sub1, s)
	// the remote subscriber got the fan-out too
	for {
		dctx, dcancel := context.WithTimeout(ctx, 100*time.Millisecond)
		_, err := sub2.Next(dctx)
		dcancel()
		if err != nil {
			break
		}
	}
}

// fanOut: announce.Send over two http senders and a p2psender, three announcements back
// to back, nothing consumed in between: every sink gets the i-th announcement i-th.
func (c *ctx) fanOut(r *vlib.Rand, ctx context.Context, t1 *pubsub.Topic, sub1 *pubsub.Subscription, ps *p2psender.Sender) {
	var mu sync.Mutex
	bodies := map[string][][]byte{}
	srv := httptest.NewServer(http.HandlerFunc(func(w http.ResponseWriter, rq *http.Request) {
		b, _ := io.ReadAll(rq.Body)
		mu.Lock()
		bodies[rq.URL.Path] = append(bodies[rq.URL.Path], b)
		mu.Unlock()
		w.WriteHeader(http.StatusNoContent)
	}))
	defer srv.Close()
	id := genPeer(r)
	ua, _ := url.Parse(srv.URL + "/a")
	ub, _ := url.Parse(srv.URL + "/b")
	ha, err := httpsender.New([]*url.URL{ua}, id)
	if err != nil {
		panic(err)
	}
	hb, err := httpsender.New([]*url.URL{ub}, id)
	if err != nil {
		panic(err)
	}
	defer ha.Close()
	defer hb.Close()
	p2p := p2pComponent(id)
	var wantHTTP, wantP2P [][]byte
	for i := 0; i < 3; i++ {
		x := mustCast(rawCidV1(0x55, 0x12, r.Bytes(32)))
		var maddrs []multiaddr.Multiaddr
		var withID, plain [][]byte
		for k := 0; k < 3-i; k++ {
			a := genKnownAddr(r, id)
			ma, _ := multiaddr.NewMultiaddrBytes(a.B)
			maddrs = append(maddrs, ma)
			plain = append(plain, a.B)
			withID = append(withID, append(append([]byte{}, a.B...), p2p...))
		}
		mh := message.Message{Cid: x, Addrs: withID}
		mp := message.Message{Cid: x, Addrs: plain}
		wantHTTP = append(wantHTTP, runEnc(&mh).Bytes)
		wantP2P = append(wantP2P, runEnc(&mp).Bytes)
		if err := announce.Send(ctx, x, maddrs, ha, ps, hb); err != nil {
			c.failOnce("fanout", "announce-send-fanout:error", err.Error(), burstReplay)
			return
		}
	}
	c.Eval()
	c.Count("burst:announce.Send-fan-out")
	for _, path := range []string{"/a", "/b"} {
		got := bodies[path]
		for i := range wantHTTP {
			if i >= len(got) || !bytes.Equal(got[i], wantHTTP[i]) {
				c.failOnce("fanout", "announce-send-fanout:http-sink-differs", fmt.Sprintf("announce.Send over several senders: http sink %s did not get announcement %d as sent", path, i+1), burstReplay)
				break
			}
		}
	}
	for i := range wantP2P {
		rctx, rcancel := context.WithTimeout(ctx, 3*time.Second)
		pm, err := sub1.Next(rctx)
		rcancel()
		if err != nil || !bytes.Equal(pm.Data, wantP2P[i]) {
			c.failOnce("fanout", "announce-send-fanout:pubsub-sink-differs", fmt.Sprintf("announce.Send over several senders: the topic subscriber did not get announcement %d as sent (%v)", i+1, err), burstReplay)
			break
		}
	}
	c.Nontrivial("fanout")
}

// httpBursts: k concurrent Send calls of different messages on one httpsender against a
// server that reads slowly; every body must be exactly one of the messages, each once.
// Then announce.Send fans one announcement out over two http senders and a p2psender.
func (c *ctx) httpBursts(r *vlib.Rand, peers []peer.ID) {
	var mu sync.Mutex
	var bodies [][]byte
	srv := httptest.NewServer(http.HandlerFunc(func(w http.ResponseWriter, rq *http.Request) {
		time.Sleep(25 * time.Millisecond) // the body is still being produced / queued on the client side
		b, _ := io.ReadAll(rq.Body)
		mu.Lock()
		bodies = append(bodies, b)
		mu.Unlock()
		w.WriteHeader(http.StatusNoContent)
	}))
	defer srv.Close()
	u, _ := url.Parse(srv.URL)
	s, err := httpsender.New([]*url.URL{u}, peers[0])
	if err != nil {
		panic(err)
	}
	defer s.Close()
	for round := 0; round < c.Pick(3, 20); round++ {
		for k := 2; k <= 5; k++ {
			bodies = nil
			var want [][]byte
			var wg sync.WaitGroup
			errs := make([]error, k)
			for i := 0; i < k; i++ {
				m := burstMsg(r, i)
				m.Addrs = nil // addresses would need to be multiaddrs here
				want = append(want, runEnc(&m).Bytes)
				wg.Add(1)
				go func(i int, m message.Message) {
					defer wg.Done()
					errs[i] = s.Send(context.Background(), m)
				}(i, m)
			}
			wg.Wait()
			c.Eval()
			c.Count("burst:httpsender")
			matched := map[int]int{}
			for _, b := range bodies {
				for j := range want {
					if bytes.Equal(b, want[j]) {
						matched[j]++
					}
				}
			}
			ok := len(bodies) == k && len(matched) == k
			for _, e := range errs {
				if e != nil {
					ok = false
				}
			}
			if !ok {
				c.failOnce("burst-http", "http-burst:concurrent-sends:bodies-differ", fmt.Sprintf("%d concurrent Send calls on one httpsender: server got %d bodies, %d of the %d messages intact (errors %v)", k, len(bodies), len(matched), k, errs), burstReplay)
			} else {
				c.Nontrivial(fmt.Sprintf("burst:http:%d:%d", k, round))
			}
		}
	}
}
