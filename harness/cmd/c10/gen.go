package main

import (
	"encoding/binary"

	"github.com/ipfs/go-cid"
	"github.com/ipni/go-libipni/announce/message"
	"github.com/libp2p/go-libp2p/core/crypto"
	"github.com/libp2p/go-libp2p/core/peer"
	cbg "github.com/whyrusleeping/cbor-gen"

	"verif/harness/vlib"
)

// ---------------------------------------------------------------------------
// structured messages

var codecs = []uint64{0x55, 0x70, 0x71, 0x0129, 0x0200, 0x300000, 1 << 40, 1<<63 - 1}

func genCid(r *vlib.Rand) (cid.Cid, string) {
	switch k := r.Intn(100); {
	case k < 30:
		return mustCast(append([]byte{0x12, 0x20}, r.Bytes(32)...)), "v0"
	case k < 60:
		return mustCast(rawCidV1(codecs[r.Intn(3)], 0x12, r.Bytes(32))), "v1-sha256"
	case k < 68:
		return mustCast(rawCidV1(codecs[r.Intn(len(codecs))], 0x13, r.Bytes(64))), "v1-sha512"
	case k < 76:
		return mustCast(rawCidV1(codecs[r.Intn(len(codecs))], 0xb220, r.Bytes(32))), "v1-blake2b"
	case k < 84:
		return mustCast(rawCidV1(0x55, 0, r.Bytes(r.Intn(48)))), "v1-identity"
	case k < 90:
		// unknown hash code, arbitrary digest length (also 0 and lengths needing a 2-byte varint)
		return mustCast(rawCidV1(codecs[r.Intn(len(codecs))], []uint64{0x9999, 1<<63 - 1, 0x12}[r.Intn(3)], patterned(r, []int{0, 1, 20, 127, 128, 200}[r.Intn(6)]))), "v1-odd"
	case k < 96:
		// around the decoder's 512-byte cap on the CID byte string
		return mustCast(rawCidV1(0x55, 0, patterned(r, 490+r.Intn(40)))), "v1-identity-near-cap"
	default:
		return mustCast(rawCidV1(0x55, 0, patterned(r, 530+r.Intn(400)))), "v1-identity-long"
	}
}

// patterned returns n bytes: everything random when short, otherwise a random head,
// a run of one byte and a random tail (keeps the Coq case files small; the code under
// test looks at lengths and heads, never at payload content).
func patterned(r *vlib.Rand, n int) []byte {
	if n <= 48 {
		b := r.Bytes(n)
		if b == nil {
			b = []byte{}
		}
		return b
	}
	head := r.Bytes(1 + r.Intn(12))
	tail := r.Bytes(r.Intn(6))
	fill := byte(r.Intn(256))
	b := append([]byte{}, head...)
	for len(b) < n-len(tail) {
		b = append(b, fill)
	}
	return append(b, tail...)
}

func genBytes(r *vlib.Rand, max int) []byte {
	switch r.Intn(12) {
	case 0:
		return nil
	case 1:
		return []byte{}
	}
	n := r.Intn(max + 1)
	if r.Intn(3) > 0 { // skew small
		n = r.Intn(min(max, 40) + 1)
	}
	if r.Intn(10) == 0 {
		// lengths at the head-size boundaries
		n = min(max, []int{23, 24, 255, 256, 300}[r.Intn(5)])
	}
	return patterned(r, n)
}

var samplePeers = []string{
	"12D3KooWBckWLKiYoUX4k3HTrbrSe4DD5SPNTKgP6vKTva1NaRkJ",
	"QmYyQSo1c1Ym7orWxLYvCrM2EmxFTANf8wXmmE7DWjhx5N",
	"12D3KooWQ9j3Ur5V9U63Vi6ved72TcA3sv34k74W3wpW5rwNvDc3",
}

// peer ID strings of every key type: Ed25519 (52 characters, above), secp256k1 (53),
// ECDSA and RSA (hashed: 46)
func init() {
	rd := rngReader{vlib.NewRand(20260101)}
	for _, kt := range []int{crypto.Secp256k1, crypto.ECDSA, crypto.RSA} {
		_, pub, err := crypto.GenerateKeyPairWithReader(kt, 2048, rd)
		if err != nil {
			panic(err)
		}
		id, err := peer.IDFromPublicKey(pub)
		if err != nil {
			panic(err)
		}
		samplePeers = append(samplePeers, id.String())
	}
}

func genOrig(r *vlib.Rand) string {
	switch k := r.Intn(10); {
	case k < 4:
		return ""
	case k < 8:
		return samplePeers[r.Intn(len(samplePeers))]
	case k < 9:
		return string(r.Bytes(1 + r.Intn(60))) // any bytes: a Go string need not be UTF-8
	default:
		return string(patterned(r, []int{23, 24, 255, 256, 1000}[r.Intn(5)]))
	}
}

func genMsg(r *vlib.Rand) (message.Message, string) {
	var m message.Message
	var kind string
	m.Cid, kind = genCid(r)
	switch r.Intn(8) {
	case 0: // nil
	case 1:
		m.Addrs = [][]byte{}
	default:
		n := r.Intn(41)
		if r.Intn(3) > 0 {
			n = r.Intn(5)
		}
		if r.Intn(12) == 0 {
			n = []int{23, 24, 40}[r.Intn(3)]
		}
		m.Addrs = make([][]byte, n)
		for i := range m.Addrs {
			m.Addrs[i] = genBytes(r, 300)
		}
	}
	m.ExtraData = genBytes(r, 5000)
	m.OrigPeer = genOrig(r)
	return m, kind
}

// cap-boundary messages: lengths exactly at and one past every encoder cap
func boundaryMsgs(r *vlib.Rand, thorough bool) []message.Message {
	c := mustCast(rawCidV1(0x55, 0x12, r.Bytes(32)))
	var out []message.Message
	for _, n := range []int{cbg.MaxLength - 1, cbg.MaxLength, cbg.MaxLength + 1} {
		out = append(out, message.Message{Cid: c, Addrs: make([][]byte, n)})
		out = append(out, message.Message{Cid: c, OrigPeer: string(make([]byte, n))})
	}
	// the byte-string caps are not the array cap: lengths around MaxLength must pass
	for _, n := range []int{cbg.MaxLength, cbg.MaxLength + 1, 70000} {
		out = append(out, message.Message{Cid: c, ExtraData: make([]byte, n)})
		out = append(out, message.Message{Cid: c, Addrs: [][]byte{make([]byte, n), {2}}})
	}
	{
		for _, n := range []int{cbg.ByteArrayMaxLen, cbg.ByteArrayMaxLen + 1} {
			out = append(out, message.Message{Cid: c, ExtraData: make([]byte, n)})
			out = append(out, message.Message{Cid: c, Addrs: [][]byte{{1}, make([]byte, n)}})
		}
	}
	// the CID cap of the decoder (512 including the multibase prefix)
	for _, n := range []int{505, 506, 507, 508} {
		out = append(out, message.Message{Cid: mustCast(rawCidV1(0x55, 0, make([]byte, n)))})
	}
	out = append(out, message.Message{}) // undefined CID
	out = append(out, message.Message{Addrs: [][]byte{{1}}, OrigPeer: "x"})
	return out
}

// ---------------------------------------------------------------------------
// malformed stream

func head(maj byte, v uint64) []byte { return cbg.CborEncodeMajorType(maj, v) }

// longHead encodes v with additional-information `info` (24..27) regardless of
// minimality, or a reserved info value (28..31) with no argument.
func longHead(maj byte, info byte, v uint64) []byte {
	b := []byte{maj<<5 | info}
	switch info {
	case 24:
		b = append(b, byte(v))
	case 25:
		b = binary.BigEndian.AppendUint16(b, uint16(v))
	case 26:
		b = binary.BigEndian.AppendUint32(b, uint32(v))
	case 27:
		b = binary.BigEndian.AppendUint64(b, v)
	}
	return b
}

// item boundaries of a valid encoding: offsets and lengths of every head
type headPos struct {
	Off, Len int
	Maj      byte
	Val      uint64
	What     string
}

func readHeadAt(b []byte, off int) (headPos, int) {
	first := b[off]
	maj, low := first>>5, first&0x1f
	switch {
	case low < 24:
		return headPos{Off: off, Len: 1, Maj: maj, Val: uint64(low)}, off + 1
	case low == 24:
		return headPos{Off: off, Len: 2, Maj: maj, Val: uint64(b[off+1])}, off + 2
	case low == 25:
		return headPos{Off: off, Len: 3, Maj: maj, Val: uint64(binary.BigEndian.Uint16(b[off+1:]))}, off + 3
	case low == 26:
		return headPos{Off: off, Len: 5, Maj: maj, Val: uint64(binary.BigEndian.Uint32(b[off+1:]))}, off + 5
	default:
		return headPos{Off: off, Len: 9, Maj: maj, Val: binary.BigEndian.Uint64(b[off+1:])}, off + 9
	}
}

// headsOf walks a VALID message encoding and lists its heads.
func headsOf(b []byte) (hs []headPos) {
	defer func() {
		if recover() != nil { // not a well-formed encoding (a broken encoder): no head-level mutants
			hs = nil
		}
	}()
	add := func(h headPos, what string) { h.What = what; hs = append(hs, h) }
	h, off := readHeadAt(b, 0)
	add(h, "fields")
	nf := h.Val
	h, off = readHeadAt(b, off)
	add(h, "tag")
	h, off = readHeadAt(b, off)
	add(h, "cidbytes")
	off += int(h.Val)
	h, off = readHeadAt(b, off)
	add(h, "addrs")
	n := int(h.Val)
	for i := 0; i < n; i++ {
		h, off = readHeadAt(b, off)
		add(h, "addr")
		off += int(h.Val)
	}
	h, off = readHeadAt(b, off)
	add(h, "extra")
	off += int(h.Val)
	if nf == 4 {
		h, off = readHeadAt(b, off)
		add(h, "orig")
	}
	return hs
}

func splice(b []byte, off, n int, repl []byte) []byte {
	out := make([]byte, 0, len(b)-n+len(repl))
	out = append(out, b[:off]...)
	out = append(out, repl...)
	return append(out, b[off+n:]...)
}

type mutant struct {
	Kind string
	B    []byte
}

// mutants derives the malformed stream from one valid encoding.
func mutants(r *vlib.Rand, b []byte, allTrunc bool) []mutant {
	var out []mutant
	add := func(k string, x []byte) { out = append(out, mutant{k, x}) }
	// truncations
	if allTrunc {
		for i := 0; i < len(b); i++ {
			add("truncate", b[:i])
		}
	} else {
		for k := 0; k < 6; k++ {
			add("truncate", b[:r.Intn(len(b))])
		}
		add("truncate", b[:len(b)-1])
	}
	hs := headsOf(b)
	// truncation right after / inside every head
	for _, h := range hs {
		add("truncate-at-head", b[:h.Off])
		add("truncate-at-head", b[:h.Off+h.Len])
		if h.Len > 1 {
			add("truncate-in-head", b[:h.Off+1])
		}
	}
	// bit flips
	nf := 8
	if allTrunc {
		nf = 24
	}
	for k := 0; k < nf; k++ {
		x := append([]byte{}, b...)
		i := r.Intn(len(x))
		if k%2 == 0 && len(hs) > 0 { // half of them on head bytes
			h := hs[r.Intn(len(hs))]
			i = h.Off + r.Intn(h.Len)
		}
		x[i] ^= 1 << uint(r.Intn(8))
		add("bitflip", x)
	}
	// per head: hostile values, non-canonical forms, wrong majors, reserved info
	for _, h := range hs {
		if !allTrunc && r.Intn(3) != 0 && h.What == "addr" {
			continue
		}
		for _, v := range []uint64{1 << 32, 1 << 63, 1<<64 - 1, cbg.MaxLength, cbg.MaxLength + 1, cbg.ByteArrayMaxLen, cbg.ByteArrayMaxLen + 1, 512, 513} {
			if (h.What == "tag" || h.What == "fields") && v > 1<<32 {
				continue
			}
			add("hostile-"+h.What, splice(b, h.Off, h.Len, head(h.Maj, v)))
		}
		// same value, longer head
		for info := byte(24); info <= 27; info++ {
			if l := longHead(h.Maj, info, h.Val); len(l) > h.Len {
				add("noncanonical", splice(b, h.Off, h.Len, l))
			}
		}
		for info := byte(28); info <= 31; info++ {
			add("reserved-info", splice(b, h.Off, h.Len, longHead(h.Maj, info, 0)))
		}
		for maj := byte(0); maj < 8; maj++ {
			if maj != h.Maj && (allTrunc || r.Intn(3) == 0) {
				add("wrong-major-"+h.What, splice(b, h.Off, h.Len, head(maj, h.Val)))
			}
		}
		if h.What == "fields" {
			for _, v := range []uint64{0, 2, 5, 23, 24} {
				add("field-count", splice(b, h.Off, h.Len, head(h.Maj, v)))
			}
			// 3 <-> 4 fields without changing the body
			add("field-count-3-4", splice(b, h.Off, h.Len, head(h.Maj, 7-h.Val)))
		}
		if h.What == "tag" {
			for _, v := range []uint64{0, 41, 43, 24} {
				add("tag-value", splice(b, h.Off, h.Len, head(h.Maj, v)))
			}
		}
		if h.What == "cidbytes" {
			x := append([]byte{}, b...)
			x[h.Off+h.Len] = 1 // multibase prefix
			add("cid-multibase", x)
			// CID byte string of 0 and 1 bytes
			add("cid-empty", splice(b, h.Off, h.Len+int(h.Val), head(2, 0)))
			add("cid-one-byte", splice(b, h.Off, h.Len+int(h.Val), append(head(2, 1), 0)))
			// length one more / one less than the CID (trailing byte / short multihash)
			add("cid-len+1", splice(b, h.Off, h.Len, head(2, h.Val+1)))
			add("cid-len-1", splice(b, h.Off, h.Len, head(2, h.Val-1)))
			// non-minimal varint inside the CID
			if b[h.Off+h.Len+1] == 1 {
				add("cid-varint-nonminimal", splice(splice(b, h.Off+h.Len+1, 1, []byte{0x81, 0x00}), h.Off, h.Len, head(2, h.Val+1)))
			}
		}
	}
	// trailing bytes
	add("trailing", append(append([]byte{}, b...), r.Bytes(1+r.Intn(8))...))
	add("trailing", append(append([]byte{}, b...), b...))
	// 4 fields with an empty origin string appended to a 3-field body
	if b[0] == 0x83 {
		x := append([]byte{0x84}, b[1:]...)
		add("four-fields-empty-origin", append(x, 0x60))
		add("four-fields-missing-origin", x)
		add("four-fields-origin-bytes", append(append([]byte{}, x...), 0x41, 0x41))
	}
	return out
}

// fixed hostile inputs not derived from a valid encoding
func fixedMalformed(r *vlib.Rand) []mutant {
	c := mustCast(rawCidV1(0x55, 0x12, r.Bytes(32)))
	cidItem := append(append(head(6, 42), head(2, uint64(c.ByteLen()+1))...), append([]byte{0}, c.Bytes()...)...)
	pre := append([]byte{0x83}, cidItem...)
	var out []mutant
	add := func(k string, x []byte) { out = append(out, mutant{k, x}) }
	add("empty", nil)
	add("null", []byte{0xf6})
	for i := 0; i < 256; i++ {
		add("one-byte", []byte{byte(i)})
	}
	// MaxLength addresses declared, none present: the slice-header array is allocated
	add("hostile-alloc", append(append([]byte{}, pre...), head(4, cbg.MaxLength)...))
	// ... then one address declaring the byte cap with nothing behind it
	add("hostile-alloc", append(append(append([]byte{}, pre...), head(4, cbg.MaxLength)...), head(2, cbg.ByteArrayMaxLen)...))
	add("hostile-alloc", append(append(append([]byte{}, pre...), head(4, 1)...), head(2, cbg.ByteArrayMaxLen)...))
	add("hostile-alloc", append(append(append([]byte{}, pre...), head(4, 0)...), head(2, cbg.ByteArrayMaxLen)...))
	add("hostile-alloc", append(append(append(append([]byte{0x84}, cidItem...), head(4, 0)...), head(2, 0)...), head(3, cbg.MaxLength)...))
	add("hostile-alloc", append(append(append(append([]byte{0x84}, cidItem...), head(4, 0)...), head(2, 0)...), head(3, cbg.MaxLength+1)...))
	for _, v := range []uint64{1 << 32, 1 << 63, 1<<64 - 1} {
		add("hostile-alloc", append(append([]byte{}, pre...), head(4, v)...))
		add("hostile-alloc", append(append(append([]byte{}, pre...), head(4, 1)...), head(2, v)...))
		add("hostile-alloc", append(append(append([]byte{}, pre...), head(4, 0)...), head(2, v)...))
		add("hostile-alloc", append([]byte{0x83, 0xd8, 0x2a}, head(2, v)...))
		add("hostile-alloc", head(4, v))
	}
	for i := 0; i < 40; i++ {
		add("random", r.Bytes(1+r.Intn(60)))
	}
	for i := 0; i < 40; i++ { // random bytes after a valid prefix
		add("random-after-cid", append(append([]byte{}, pre...), r.Bytes(r.Intn(30))...))
	}
	return out
}

func min(a, b int) int {
	if a < b {
		return a
	}
	return b
}
