// c08: one sync at a time per publisher; the latest announcement is never lost.
//
// A real dagsync.Subscriber (announce receiver, nil libp2p host, real ipnisync publishers
// behind httptest servers) is driven one goroutine at a time through the verifYield hooks
// by harness/schedrv: every schedule is a list of decisions (publish, announce, start an
// explicit sync, RemoveHandler, let thread t run to its next yield point, with or without
// a failing sync).  Directed schedules reproduce the candidate defects of the design;
// seeded random schedules cover arrival orders of announcement bursts relative to the
// start and end of syncs for 1..4 publishers and caps {0,1,2,k-1,k}.  Each run is checked
// by direct oracles from the property text and written as a Coq case: the trace of model
// labels with the yield point seen after each, replayed in coq/model/C08_AnnounceQueue.v
// (trace_case_ok).
package main

import (
	"fmt"
	"os"
	"strconv"
	"time"

	"verif/harness/schedrv"
	"verif/harness/vlib"
)

type replay struct {
	Name      string             `json:"name"`
	Cfg       schedrv.Config     `json:"cfg"`
	Decisions []schedrv.Decision `json:"decisions"`
}

type scenario struct {
	name string
	cfg  schedrv.Config
	run  func(r *schedrv.Run)
	// nontrivial: what the schedule exercises
	what string
}

func pubN(r *schedrv.Run, p, n int) {
	for i := 0; i < n; i++ {
		r.Do(schedrv.Decision{K: "pub", P: p})
	}
}

// announce and let the watcher queue it; returns the tid of the goroutine it spawned (-1: replaced a pending one)
func announce(r *schedrv.Run, p, c int) int {
	before := r.LastThread()
	r.Do(schedrv.Decision{K: "ann", P: p, C: c})
	r.RunToEnd(0)
	if r.LastThread() != before {
		return r.LastThread()
	}
	return -1
}

func explicit(r *schedrv.Run, p int) int {
	r.Do(schedrv.Decision{K: "exp", P: p})
	return r.LastThread()
}

var scenarios = []scenario{
	{name: "two-explicit-same-stop", cfg: schedrv.Config{NPub: 1, ChainLen: 4},
		what: "two SyncAdChain calls of one publisher, the second started before the first entered handler.handle",
		run: func(r *schedrv.Run) {
			pubN(r, 0, 3)
			a := explicit(r, 0)
			b := explicit(r, 0)
			r.RunToEnd(a)
			r.RunToEnd(b)
			r.Drain(nil)
		}},
	{name: "explicit-overtakes-announce-read", cfg: schedrv.Config{NPub: 1, ChainLen: 4},
		what: "an announce-triggered sync has read the latest sync; an explicit sync of the same publisher completes before it takes the sync lock",
		run: func(r *schedrv.Run) {
			pubN(r, 0, 2)
			g := announce(r, 0, 2)
			r.RunUntil(g, schedrv.YLatestRead)
			e := explicit(r, 0)
			r.RunToEnd(e)
			r.RunToEnd(g)
			r.Drain(nil)
		}},
	{name: "remove-busy-handler", cfg: schedrv.Config{NPub: 1, ChainLen: 4},
		what: "RemoveHandler while an announce-triggered sync is inside handler.handle, then a new announcement",
		run: func(r *schedrv.Run) {
			pubN(r, 0, 1)
			g := announce(r, 0, 1)
			r.RunUntil(g, schedrv.YHandleLocked)
			r.Do(schedrv.Decision{K: "rm", P: 0})
			pubN(r, 0, 1)
			g2 := announce(r, 0, 2)
			if g2 >= 0 {
				r.RunUntilOrTry(g2, schedrv.YHandleLocked)
			}
			r.RunToEnd(g)
			r.Drain(nil)
		}},
	{name: "remove-handler-with-pending", cfg: schedrv.Config{NPub: 1, ChainLen: 4},
		what: "RemoveHandler while an announcement is pending and its goroutine has not started, then a new announcement",
		run: func(r *schedrv.Run) {
			pubN(r, 0, 1)
			g := announce(r, 0, 1)
			r.Do(schedrv.Decision{K: "rm", P: 0})
			pubN(r, 0, 1)
			g2 := announce(r, 0, 2)
			if g2 >= 0 {
				r.RunUntilOrTry(g2, schedrv.YHandleLocked)
			}
			r.RunUntil(g, schedrv.YHandleLocked)
			if g2 >= 0 {
				r.RunToEnd(g2)
			}
			r.Drain(nil)
		}},
	{name: "idle-cleaner-busy-handler", cfg: schedrv.Config{NPub: 1, ChainLen: 4, IdleTTL: 40},
		what: "a sync outlasts IdleHandlerTTL (40 ms) inside handler.handle, then a new announcement",
		run: func(r *schedrv.Run) {
			pubN(r, 0, 1)
			g := announce(r, 0, 1)
			r.RunUntil(g, schedrv.YHandleLocked)
			r.Do(schedrv.Decision{K: "sleep", P: 0, Ms: 150})
			pubN(r, 0, 1)
			g2 := announce(r, 0, 2)
			if g2 >= 0 {
				r.RunUntilOrTry(g2, schedrv.YHandleLocked)
			}
			r.RunToEnd(g)
			r.Drain(nil)
		}},
	{name: "stale-announce-after-explicit", cfg: schedrv.Config{NPub: 1, ChainLen: 5},
		what: "an announcement of head 3 is pending while an explicit sync reaches head 4; then head 4 is announced",
		run: func(r *schedrv.Run) {
			pubN(r, 0, 3)
			g := announce(r, 0, 3)
			pubN(r, 0, 1)
			e := explicit(r, 0)
			r.RunToEnd(e)
			r.RunToEnd(g)
			g2 := announce(r, 0, 4)
			r.RunToEnd(g2)
			r.Drain(nil)
		}},
	{name: "entries-sync-during-ad-sync", cfg: schedrv.Config{NPub: 1, ChainLen: 4},
		what: "SyncEntries (own ScopedBlockHook) of a publisher starts while an explicit SyncAdChain of the same publisher is inside handler.handle",
		run: func(r *schedrv.Run) {
			pubN(r, 0, 2)
			a := explicit(r, 0)
			r.RunUntil(a, schedrv.YHandleLocked)
			r.Do(schedrv.Decision{K: "ent", P: 0})
			r.RunToEnd(a)
			r.Drain(nil)
		}},
	{name: "ad-syncs-during-entries-sync", cfg: schedrv.Config{NPub: 1, ChainLen: 4},
		what: "an announce-triggered and an explicit ad-chain sync of a publisher start while a SyncEntries of the same publisher is inside handler.handle (between two of its hook calls)",
		run: func(r *schedrv.Run) {
			pubN(r, 0, 2)
			r.Do(schedrv.Decision{K: "ent", P: 0})
			e := r.LastThread()
			r.RunUntil(e, schedrv.YHook)
			g := announce(r, 0, 2)
			if g >= 0 {
				r.RunUntilOrTry(g, schedrv.YHandleLocked)
			}
			explicit(r, 0)
			r.RunToEnd(e)
			r.Drain(nil)
		}},
	{name: "stalled-publisher-then-reannounce", cfg: schedrv.Config{NPub: 1, ChainLen: 4, HTTPms: 700},
		what: "the publisher accepts the block request of an announce-triggered sync and never answers (HTTP timeout 0.7 s); afterwards the same head is announced again",
		run: func(r *schedrv.Run) {
			pubN(r, 0, 2)
			g := announce(r, 0, 2)
			r.RunUntil(g, schedrv.YHandleLocked)
			r.Do(schedrv.Decision{K: "go", T: g, Fail: true, Stall: true})
			r.RunToEnd(g)
			g2 := announce(r, 0, 2)
			if g2 >= 0 {
				r.RunToEnd(g2)
			}
			r.Drain(nil)
		}},
	{name: "stalled-publisher-others-continue", cfg: schedrv.Config{NPub: 2, Cap: 2, ChainLen: 4, HTTPms: 700},
		what: "one publisher stalls during its announce-triggered sync while another publisher's sync is running; then the first publishes and announces a newer head",
		run: func(r *schedrv.Run) {
			pubN(r, 0, 1)
			pubN(r, 1, 2)
			g0 := announce(r, 0, 1)
			g1 := announce(r, 1, 2)
			r.RunUntil(g0, schedrv.YHandleLocked)
			r.RunUntil(g1, schedrv.YHandleLocked)
			r.Do(schedrv.Decision{K: "go", T: g0, Fail: true, Stall: true})
			r.RunToEnd(g1)
			r.RunToEnd(g0)
			pubN(r, 0, 1)
			g2 := announce(r, 0, 2)
			if g2 >= 0 {
				r.RunToEnd(g2)
			}
			r.Drain(nil)
		}},
	{name: "close-while-limit-reached", cfg: schedrv.Config{NPub: 3, Cap: 1, ChainLen: 3},
		what: "MaxAsyncConcurrency 1: publisher 0's announce-triggered sync is held inside its block hook, publisher 1's goroutine waits for the semaphore, an explicit sync of publisher 2 is held inside handler.handle, then Subscriber.Close() is called: it waits for the explicit sync and publisher 1's sync must not start",
		run: func(r *schedrv.Run) {
			for p := 0; p < 3; p++ {
				pubN(r, p, 2)
			}
			ga := announce(r, 0, 2)
			r.RunUntil(ga, schedrv.YHook)
			gb := announce(r, 1, 2)
			r.RunUntilOrTry(gb, schedrv.YAsyncSem)
			c := explicit(r, 2)
			r.RunUntil(c, schedrv.YHandleLocked)
			r.Do(schedrv.Decision{K: "close"})
			r.RunToEnd(ga)
			r.Drain(nil)
		}},
	{name: "close-while-limit-two-reached", cfg: schedrv.Config{NPub: 4, Cap: 2, ChainLen: 3},
		what: "the same with MaxAsyncConcurrency 2: two syncs running, a third publisher queued, an explicit sync held, Close() called",
		run: func(r *schedrv.Run) {
			for p := 0; p < 4; p++ {
				pubN(r, p, 1)
			}
			g0 := announce(r, 0, 1)
			g1 := announce(r, 1, 1)
			r.RunUntil(g0, schedrv.YHandleLocked)
			r.RunUntil(g1, schedrv.YHook)
			g2 := announce(r, 2, 1)
			r.RunUntilOrTry(g2, schedrv.YAsyncSem)
			c := explicit(r, 3)
			r.RunUntil(c, schedrv.YStopRead)
			r.Do(schedrv.Decision{K: "close"})
			r.RunToEnd(g1)
			r.Drain(nil)
		}},
	{name: "first-sync-depth-then-burst", cfg: schedrv.Config{NPub: 1, ChainLen: 6, FirstDepth: 1},
		what: "FirstSyncDepth(1): the first sync (head 1) is within it; then three announcements arrive while a sync is running and the coalesced sync spans two new advertisements",
		run: func(r *schedrv.Run) {
			pubN(r, 0, 1)
			g := announce(r, 0, 1)
			r.RunToEnd(g)
			pubN(r, 0, 1)
			g2 := announce(r, 0, 2)
			r.RunUntil(g2, schedrv.YHandleLocked)
			pubN(r, 0, 1)
			announce(r, 0, 3)
			pubN(r, 0, 1)
			announce(r, 0, 4)
			r.Drain(nil)
		}},
	{name: "first-sync-depth-two-then-long-gap", cfg: schedrv.Config{NPub: 2, ChainLen: 6, FirstDepth: 2},
		what: "FirstSyncDepth(2): first syncs of two publishers (heads 2 and 1), then publisher 0 announces a head four advertisements further and publisher 1 is synced explicitly three further",
		run: func(r *schedrv.Run) {
			pubN(r, 0, 2)
			pubN(r, 1, 1)
			g := announce(r, 0, 2)
			r.RunToEnd(g)
			e := explicit(r, 1)
			r.RunToEnd(e)
			pubN(r, 0, 4)
			pubN(r, 1, 3)
			g2 := announce(r, 0, 6)
			r.RunToEnd(g2)
			e2 := explicit(r, 1)
			r.RunToEnd(e2)
			r.Drain(nil)
		}},
	{name: "relayed-then-announced", cfg: schedrv.Config{NPub: 1, ChainLen: 4, Filter: true},
		what: "a peer the allow filter rejects announces the publisher's head first, then the publisher announces the same head",
		run: func(r *schedrv.Run) {
			pubN(r, 0, 2)
			r.Do(schedrv.Decision{K: "relay", P: 0, C: 2})
			g := announce(r, 0, 2)
			if g >= 0 {
				r.RunToEnd(g)
			}
			r.Drain(nil)
		}},
	{name: "policy-flip-then-reannounce", cfg: schedrv.Config{NPub: 2, ChainLen: 4, Filter: true},
		what: "a head is announced while the policy rejects its publisher, the policy changes, the head is announced again",
		run: func(r *schedrv.Run) {
			pubN(r, 0, 1)
			pubN(r, 1, 1)
			r.Do(schedrv.Decision{K: "deny", P: 0})
			r.Do(schedrv.Decision{K: "rej", P: 0, C: 1})
			g1 := announce(r, 1, 1)
			r.Do(schedrv.Decision{K: "allow", P: 0})
			g0 := announce(r, 0, 1)
			if g0 >= 0 {
				r.RunToEnd(g0)
			}
			if g1 >= 0 {
				r.RunToEnd(g1)
			}
			r.Drain(nil)
		}},
	{name: "rejected-burst-during-sync", cfg: schedrv.Config{NPub: 1, ChainLen: 5, Filter: true},
		what: "while a sync is inside handler.handle rejected announcements of newer heads arrive, then the publisher announces the newest",
		run: func(r *schedrv.Run) {
			pubN(r, 0, 1)
			g := announce(r, 0, 1)
			r.RunUntil(g, schedrv.YHandleLocked)
			pubN(r, 0, 1)
			r.Do(schedrv.Decision{K: "relay", P: 0, C: 2})
			pubN(r, 0, 1)
			r.Do(schedrv.Decision{K: "deny", P: 0})
			r.Do(schedrv.Decision{K: "rej", P: 0, C: 3})
			r.Do(schedrv.Decision{K: "allow", P: 0})
			announce(r, 0, 3)
			r.Drain(nil)
		}},
	{name: "burst-coalesced", cfg: schedrv.Config{NPub: 1, ChainLen: 6},
		what: "three announcements arrive while a sync is inside handler.handle: one goroutine waits, the middle announcements are replaced",
		run: func(r *schedrv.Run) {
			pubN(r, 0, 1)
			g := announce(r, 0, 1)
			r.RunUntil(g, schedrv.YHandleLocked)
			for c := 2; c <= 4; c++ {
				pubN(r, 0, 1)
				announce(r, 0, c)
			}
			r.Drain(nil)
		}},
	{name: "failed-sync-then-newer-head", cfg: schedrv.Config{NPub: 1, ChainLen: 6},
		what: "the sync for an announcement fails (error event), a newer head is announced and synced",
		run: func(r *schedrv.Run) {
			pubN(r, 0, 2)
			g := announce(r, 0, 2)
			r.RunUntil(g, schedrv.YHandleLocked)
			r.Do(schedrv.Decision{K: "go", T: g, Fail: true})
			r.RunToEnd(g)
			pubN(r, 0, 1)
			g2 := announce(r, 0, 3)
			r.RunToEnd(g2)
			r.Drain(nil)
		}},
	{name: "cap-one-three-publishers", cfg: schedrv.Config{NPub: 3, Cap: 1, ChainLen: 3},
		what: "three publishers announce at once with MaxAsyncConcurrency 1",
		run: func(r *schedrv.Run) {
			var gs []int
			for p := 0; p < 3; p++ {
				pubN(r, p, 2)
				gs = append(gs, announce(r, p, 2))
			}
			for _, g := range gs {
				r.RunUntil(g, schedrv.YAsyncLocked)
			}
			r.RunUntil(gs[1], schedrv.YHandleLocked)
			// the other two run into the full semaphore and wait there
			r.Do(schedrv.Decision{K: "try", T: gs[0]})
			r.Do(schedrv.Decision{K: "try", T: gs[2]})
			r.Drain(nil)
		}},
	{name: "explicit-waits-for-announce-sync", cfg: schedrv.Config{NPub: 2, Cap: 2, ChainLen: 4},
		what: "explicit syncs of two publishers start while announce-triggered syncs of the same publishers are inside handler.handle",
		run: func(r *schedrv.Run) {
			var gs []int
			for p := 0; p < 2; p++ {
				pubN(r, p, 2)
				gs = append(gs, announce(r, p, 2))
			}
			for _, g := range gs {
				r.RunUntil(g, schedrv.YHandleLocked)
			}
			pubN(r, 0, 1)
			e0 := explicit(r, 0)
			e1 := explicit(r, 1)
			r.Drain(nil)
			_, _ = e0, e1
		}},
}

type genCfg struct {
	anns, exps, rms int
	rejs, flips     int
	ents            int
	closeAt         int // step at which Subscriber.Close() is called (0: never)
	failPct         int
}

// one seeded random schedule
func randomRun(rng *vlib.Rand, cfg schedrv.Config, g genCfg) *schedrv.Run {
	r := schedrv.NewRun(cfg)
	lastAnn := make([]int, cfg.NPub)
	denied := make([]bool, cfg.NPub)
	reann := map[[2]int]int{}
	closed := false
	// every publisher starts with one advertisement
	for p := 0; p < cfg.NPub; p++ {
		r.Do(schedrv.Decision{K: "pub", P: p})
	}
	for step := 0; step < 3000 && !r.Aborted; step++ {
		runnable := r.Runnable()
		type opt struct {
			d schedrv.Decision
			w int
		}
		var opts []opt
		for _, t := range runnable {
			d := schedrv.Decision{K: "go", T: t}
			if r.M.Threads[t].PC == schedrv.PHandle && rng.Intn(100) < g.failPct {
				d.Fail = true
			}
			opts = append(opts, opt{d, 12})
		}
		if g.closeAt > 0 && step >= g.closeAt && !closed {
			closed = true
			g.exps, g.ents = 0, 0 // a SyncAdChain / SyncEntries that starts now is refused
			r.Do(schedrv.Decision{K: "close"})
			continue
		}
		for _, t := range r.Waiting() {
			opts = append(opts, opt{schedrv.Decision{K: "try", T: t}, 5})
		}
		if g.anns > 0 {
			for p := 0; p < cfg.NPub; p++ {
				// with FirstSyncDepth(d) a publisher's first sync stays within d advertisements
				if r.M.Pubhead[p] < cfg.ChainLen && (cfg.FirstDepth == 0 || r.M.Latest[p] != 0 || r.M.Pubhead[p] < cfg.FirstDepth) {
					opts = append(opts, opt{schedrv.Decision{K: "pub", P: p}, 6})
				}
				if cfg.Filter {
					if denied[p] {
						opts = append(opts, opt{schedrv.Decision{K: "allow", P: p}, 6})
						if g.rejs > 0 {
							opts = append(opts, opt{schedrv.Decision{K: "rej", P: p, C: 1 + rng.Intn(r.M.Pubhead[p])}, 6})
						}
					} else if g.flips > 0 {
						opts = append(opts, opt{schedrv.Decision{K: "deny", P: p}, 2})
					}
					if g.rejs > 0 {
						// mostly the head that is about to be announced
						c := r.M.Pubhead[p]
						if rng.Intn(3) == 0 {
							c = 1 + rng.Intn(r.M.Pubhead[p])
						}
						opts = append(opts, opt{schedrv.Decision{K: "relay", P: p, C: c}, 5})
					}
				}
				if r.CanAnnounce() && lastAnn[p] < r.M.Pubhead[p] && !denied[p] {
					c := r.M.Pubhead[p]
					if c-lastAnn[p] > 1 && rng.Intn(4) == 0 {
						c = lastAnn[p] + 1 + rng.Intn(c-lastAnn[p]-1)
					}
					opts = append(opts, opt{schedrv.Decision{K: "ann", P: p, C: c}, 14})
				}
			}
		}
		if g.exps > 0 {
			for p := 0; p < cfg.NPub; p++ {
				opts = append(opts, opt{schedrv.Decision{K: "exp", P: p}, 3})
			}
		}
		if g.ents > 0 {
			for p := 0; p < cfg.NPub; p++ {
				opts = append(opts, opt{schedrv.Decision{K: "ent", P: p}, 3})
			}
		}
		// a head whose announce-triggered sync failed may be announced again (the failure
		// un-caches it in the receiver)
		if r.CanAnnounce() {
			for p := 0; p < cfg.NPub; p++ {
				c := lastAnn[p]
				nerr := 0
				for _, ev := range r.M.Events {
					if ev.Err && ev.Pub == p && ev.Head == c {
						nerr++
					}
				}
				// the error event is sent after the CID was un-cached
				if c > 0 && nerr > reann[[2]int{p, c}] && !denied[p] && r.M.LastTaken[p] == c && r.M.Latest[p] != c {
					opts = append(opts, opt{schedrv.Decision{K: "ann", P: p, C: c}, 8})
				}
			}
		}
		if g.rms > 0 {
			for p := 0; p < cfg.NPub; p++ {
				opts = append(opts, opt{schedrv.Decision{K: "rm", P: p}, 2})
			}
		}
		if len(opts) == 0 {
			break
		}
		total := 0
		for _, o := range opts {
			total += o.w
		}
		k := rng.Intn(total)
		var d schedrv.Decision
		for _, o := range opts {
			if k < o.w {
				d = o.d
				break
			}
			k -= o.w
		}
		switch d.K {
		case "rej", "relay":
			g.rejs--
		case "deny":
			g.flips--
			denied[d.P] = true
		case "allow":
			denied[d.P] = false
		case "ent":
			g.ents--
		case "ann":
			if d.C == lastAnn[d.P] {
				reann[[2]int{d.P, d.C}]++
			} else {
				g.anns--
			}
			lastAnn[d.P] = d.C
		case "exp":
			g.exps--
		case "rm":
			g.rms--
		}
		r.Do(d)
	}
	r.Drain(rng)
	r.Finish()
	return r
}

func report(c *vlib.Ctx, name string, r *schedrv.Run, what string) {
	c.Eval()
	rp := replay{Name: name, Cfg: r.Cfg, Decisions: r.Decisions}
	// one failure per run: the first oracle that fails (the later ones are its consequences
	// and are appended to the description); a scheduler failure (watchdog, yield mismatch)
	// only when no oracle explains the run
	var kinds []string
	var descs []string
	for _, v := range r.Oracles() {
		kinds = append(kinds, v.Kind)
		descs = append(descs, v.Desc)
		c.Count("oracle:" + v.Kind)
	}
	for _, f := range r.Failures {
		kinds = append(kinds, f.Kind)
		descs = append(descs, f.Desc)
		c.Count("failure:" + f.Kind)
	}
	if len(kinds) > 0 {
		desc := fmt.Sprintf("%s [%s]: %s", name, what, descs[0])
		if len(kinds) > 1 {
			desc += fmt.Sprintf(" (also: %v)", kinds[1:])
		}
		c.Fail(name+":"+kinds[0], desc+"; schedule "+schedrv.DecisionsSig(r.Decisions), rp)
	}
	if !r.Aborted {
		c.Case("trace", r.CoqCase(), rp)
	} else {
		c.Count("aborted")
	}
	// distribution
	c.Count(fmt.Sprintf("npub:%d", r.Cfg.NPub))
	c.Count(fmt.Sprintf("cap:%d", r.Cfg.Cap))
	if r.M.Nexp {
		c.Count("kind:mixed-explicit")
	} else {
		c.Count("kind:announce-only")
	}
	if r.M.Regress {
		c.Count("kind:stale-announce")
	}
	if len(r.Removed) > 0 {
		c.Count("kind:handler-removed")
	}
	for _, d := range r.Decisions {
		if d.K == "close" {
			c.Count("kind:with-close")
		}
		if d.K == "ent" {
			c.Count("entries-syncs")
		}
		if d.K == "go" && d.Stall {
			c.Count("stalled-requests")
		}
	}
	if r.Cfg.Cap > 0 && r.Cfg.CapFirst {
		c.Count("kind:limit-option-first")
	}
	if r.Cfg.FirstDepth > 0 {
		c.Count("kind:first-sync-depth")
	}
	if r.Cfg.Filter {
		c.Count("kind:allow-filter")
		for _, d := range r.Decisions {
			if d.K == "rej" || d.K == "relay" {
				c.Count("rejected-announcements")
			}
		}
	}
	nerr, nrepl := 0, 0
	for _, e := range r.M.Events {
		if e.Err {
			nerr++
		}
	}
	for p := 0; p < r.Cfg.NPub; p++ {
		taken := 0
		for _, th := range r.M.Threads {
			if th.Kind == schedrv.KAsync && th.Pub == p {
				taken++
			}
		}
		if n := len(r.AnnOrder[p]) - taken; n > 0 {
			nrepl += n
		}
	}
	if nerr > 0 {
		c.Count("kind:with-failed-sync")
	}
	if nrepl > 0 {
		c.Count("kind:announcement-replaced")
	}
	c.CountN("steps", len(r.Trace))
	// non-trivial: at least one announcement was replaced while pending, or a goroutine
	// had to wait for a lock / the semaphore, or syncs of >= 2 publishers overlapped
	if nrepl > 0 || r.EverBlocked > 0 || r.MaxOpen > 1 {
		c.Nontrivial(schedrv.DecisionsSig(r.Decisions))
	}
	c.CountN("blocked-waits", r.EverBlocked)
}

func main() {
	c := vlib.Init("C08")
	defer c.Finish()
	// trace_both_ok = trace_case_ok (the trace is a run of the C08 model with the observed yield
	// points, hook log, events, latest) && trace_c01_ok (each finished session's observed hook
	// calls are what C01's handler.handle model computes for its head and stop, segmented or not)
	c.Family("trace", []string{"From Model Require Import C08_AnnounceQueue Compose_C08_C01."}, "trace_both_ok", 25)
	c.Res.Rule = "a case = one schedule (list of decisions: publish / announce / explicit sync / RemoveHandler / run thread t to its next yield point, optionally with a failing sync) executed on the real Subscriber one goroutine at a time; non-trivial = an announcement was replaced while pending, or a goroutine waited for asyncMutex / syncMutex / the semaphore, or syncs of two publishers were open at once"
	c.Res.Exhaustive = false

	t0 := time.Now()
	v := schedrv.Probe()
	c.Note(fmt.Sprintf("source variant detected by probing: lockfix=%v reffix=%v (probe %.1fs)", v.LockFix, v.RefFix, time.Since(t0).Seconds()))

	if c.Replay != "" {
		var rp replay
		if err := c.LoadReplay(&rp); err != nil {
			panic(err)
		}
		rp.Cfg.V = v
		if n, _ := strconv.Atoi(os.Getenv("C08_REPEAT")); n > 0 {
			// stress a replay: how often does it fail?
			bad := 0
			for i := 0; i < n; i++ {
				r := schedrv.NewRun(rp.Cfg)
				r.Replay(rp.Decisions)
				r.Finish()
				if len(r.Failures) > 0 || len(r.Oracles()) > 0 {
					bad++
					fmt.Printf("repeat %d: %v %v\n", i, r.Failures, r.Oracles())
				}
			}
			fmt.Printf("repeat: %d of %d runs failed\n", bad, n)
		}
		r := schedrv.NewRun(rp.Cfg)
		r.Replay(rp.Decisions)
		r.Finish()
		fmt.Printf("replay %s: cfg=%+v\n  schedule: %s\n", rp.Name, rp.Cfg, schedrv.DecisionsSig(rp.Decisions))
		for _, e := range r.Raw {
			fmt.Printf("  thread %d (goroutine %d) %s pub=%d ad=%d\n", e.Tid, e.Goid, e.Point, e.Pub, e.Ad)
		}
		fmt.Printf("  latest=%v events=%v quiescent=%v\n", r.ObsLatest, r.ObsEvents, r.ObsQuiescent)
		for _, f := range r.Failures {
			fmt.Println("RUN-FAIL:", f.Kind, f.Desc)
		}
		for _, o := range r.Oracles() {
			fmt.Println("ORACLE-FAIL:", o.Kind, o.Desc)
		}
		report(c, "replay", r, rp.Name)
		return
	}

	// every schedule with a concurrency limit is also run with MaxAsyncConcurrency given BEFORE
	// RecvAnnounce in the option list
	all := append([]scenario{}, scenarios...)
	for _, sc := range scenarios {
		if sc.cfg.Cap > 0 {
			sc2 := sc
			sc2.name += "/limit-option-first"
			sc2.cfg.CapFirst = true
			sc2.what += " (MaxAsyncConcurrency passed before RecvAnnounce)"
			all = append(all, sc2)
		}
	}
	for _, sc := range all {
		cfg := sc.cfg
		cfg.V = v
		r := schedrv.NewRun(cfg)
		sc.run(r)
		r.Finish()
		report(c, sc.name, r, sc.what)
		c.Sample(map[string]interface{}{"scenario": sc.name, "schedule": schedrv.DecisionsSig(r.Decisions),
			"latest": r.ObsLatest, "events": r.ObsEvents})
	}

	// seeded random schedules
	budget := time.Duration(c.Pick(35, 420)) * time.Second
	maxRuns := c.Pick(620, 12000)
	rng := c.Rng.Fork("sched")
	start := time.Now()
	n := 0
	for ; n < maxRuns && time.Since(start) < budget; n++ {
		npub := 1 + rng.Intn(4)
		caps := []int{0, 1, 2, npub - 1, npub}
		cp := caps[rng.Intn(len(caps))]
		if cp < 0 {
			cp = 0
		}
		cfg := schedrv.Config{NPub: npub, Cap: cp, ChainLen: 6, V: v, Filter: rng.Intn(4) == 0}
		g := genCfg{anns: 2 + rng.Intn(3*npub+2), failPct: 15}
		if cfg.Filter {
			g.rejs, g.flips = 2+rng.Intn(5), 1+rng.Intn(3)
		}
		// option order: MaxAsyncConcurrency before / after RecvAnnounce
		cfg.CapFirst = rng.Intn(2) == 0
		firstDepth := 0
		if rng.Intn(4) == 0 {
			// FirstSyncDepth 1 or 2, no failing syncs (a failed first sync would make the next
			// one the first again), more announcements so that coalesced syncs span several ads
			firstDepth = 1 + rng.Intn(2)
			g.anns += 3
		}
		if rng.Intn(3) == 0 {
			g.ents = 1 + rng.Intn(2)
		}
		if rng.Intn(5) == 0 {
			// a Close() in the middle, with the limit at 1 or 2 and more publishers than slots
			cfg.Cap = 1 + rng.Intn(2)
			if cfg.NPub <= cfg.Cap {
				cfg.NPub = cfg.Cap + 1 + rng.Intn(2)
			}
			g.closeAt = 8 + rng.Intn(40)
		}
		switch rng.Intn(4) {
		case 0: // announce-only
		case 1:
			g.exps = 1 + rng.Intn(3)
		case 2:
			g.exps = rng.Intn(3)
			g.rms = 1 + rng.Intn(2)
		case 3:
			g.exps = 1 + rng.Intn(2)
			g.failPct = 35
		}
		if firstDepth > 0 {
			cfg.FirstDepth = firstDepth
			g.failPct = 0
		}
		r := randomRun(rng, cfg, g)
		report(c, "sched", r, fmt.Sprintf("seeded random schedule #%d", n))
		if len(r.Failures) > 0 && r.Aborted {
			c.Count("random-aborted")
		}
	}
	// free-running rounds: real concurrency, seeded delays at the yield points, oracles only
	frng := c.Rng.Fork("free")
	fbudget := time.Duration(c.Pick(8, 120)) * time.Second
	fstart := time.Now()
	nfree := 0
	for ; nfree < c.Pick(60, 1500) && time.Since(fstart) < fbudget; nfree++ {
		npub := 1 + frng.Intn(4)
		caps := []int{0, 1, 2, npub - 1, npub}
		cp := caps[frng.Intn(len(caps))]
		if cp < 0 {
			cp = 0
		}
		cfg := schedrv.Config{NPub: npub, Cap: cp, ChainLen: 6, V: v}
		nexp, nrm := 0, 0
		switch frng.Intn(3) {
		case 1:
			nexp = 1 + frng.Intn(3)
		case 2:
			nexp = frng.Intn(3)
			nrm = 1 + frng.Intn(2)
		}
		fr := schedrv.FreeRun(frng, cfg, 3+frng.Intn(3*npub+3), nexp, nrm)
		c.Eval()
		c.Count("free-rounds")
		c.CountN("free-hook-calls", fr.Hooks)
		c.CountN("free-events", fr.Events)
		if fr.Overlap2 {
			c.Count("free:two-publishers-at-once")
			c.Nontrivial("free:" + schedrv.DecisionsSig(fr.Script))
		}
		if len(fr.Violations) > 0 {
			vv := fr.Violations[0]
			desc := fmt.Sprintf("free-running round #%d (cfg %+v): %s", nfree, cfg, vv.Desc)
			if len(fr.Violations) > 1 {
				desc += fmt.Sprintf(" (also: %d more)", len(fr.Violations)-1)
			}
			c.Fail("free:"+vv.Kind, desc+"; requests "+schedrv.DecisionsSig(fr.Script),
				map[string]interface{}{"name": "free", "cfg": cfg, "decisions": fr.Script, "note": "free-running round: timing dependent, replay re-issues the requests"})
			for _, x := range fr.Violations {
				c.Count("free-oracle:" + x.Kind)
			}
		}
	}
	c.Note(fmt.Sprintf("%d directed + %d random schedules + %d free-running rounds in %.1fs", len(all), n, nfree, time.Since(t0).Seconds()))
	if os.Getenv("C08_VERBOSE") != "" {
		fmt.Println(c.Res.Notes)
	}
}
