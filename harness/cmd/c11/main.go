// c11: metadata encoding is canonical, round-trips for any protocol set, and is safe.
//
// Encode side: every sequence (= every multiset in every construction order) of
// length 1..3 (quick) / 1..4 (thorough) over a 12-symbol protocol alphabet, sampled
// sequences of length 4..6 with wider payloads, and a sweep of unknown payload lengths
// 0..300, are built with the real constructors, passed to metadata.Default.New,
// marshalled, unmarshalled, queried with Get/Protocols/Validate.  Decode side: valid
// encodings, every truncation, bit flips, byte edits, unsorted concatenations, hostile
// and malformed length prefixes, non-minimal re-spellings of every varint, hand-written non-canonical DAG-CBOR, and random bytes up
// to 1 KiB go through UnmarshalBinary in a memory-limited worker process.  The direct
// oracles are taken from the property text; every case is also written out for the Coq
// model (model/C11_Metadata.v) with what the implementation did.
package main

import (
	"encoding/hex"
	"fmt"
	"os"
	"runtime/debug"
	"sort"
	"strings"

	"github.com/ipni/go-libipni/metadata"

	"verif/harness/vlib"
)

// coqPrelude is written at the top of every case file: the model, and the unpackers for
// byte strings and numbers written as primitive-integer literals (B len [w1; w2; ..]:
// seven bytes per word, big-endian inside a word, the last word holding the remaining
// len mod 7 bytes).  coqc reads such literals about ten times faster than string or N
// literals.  Keeping these definitions here keeps Coq's Uint63 library (and the axioms
// it declares) out of the dependency cone of the theorems.
var coqPrelude = []string{
	"From Model Require Import C11_Metadata.",
	"From Lib Require Import Bytes.",
	"From Coq Require Import Uint63.",
	"Definition N_of_int (w : int) : N := Z.to_N (Uint63.to_Z w).",
	"Definition nat_of_int (w : int) : nat := Z.to_nat (Uint63.to_Z w).",
	"Fixpoint bytes_le (k : nat) (n : N) : bytes := match k with O => [] | S k' => N.land n 255%N :: bytes_le k' (N.shiftr n 8%N) end.",
	"Fixpoint unpack (len : nat) (ws : list int) : bytes := match ws with [] => [] | w :: r => let k := Nat.min len 7%nat in rev_append (bytes_le k (N_of_int w)) (unpack (len - k)%nat r) end.",
	"Definition B (len : int) (ws : list int) : bytes := unpack (nat_of_int len) ws.",
	"Definition U (code : int) (raw : bytes) : proto := PUnknown (N_of_int code) raw.",
	"Definition EncCaseI (ins : list proto) (m : obs bytes) (d : obs (list proto)) (ids : list int) (gets : list (int * option int)) (valid : bool) : enc_case := EncCase ins m d (map N_of_int ids) (map (fun g => (N_of_int (fst g), option_map nat_of_int (snd g))) gets) valid.",
	"Definition DecCaseI (b : bytes) (d : obs (list proto)) (alloc : int) : dec_case := DecCase b d (N_of_int alloc).",
	"Definition HeldCaseI (held : list proto) (m : obs bytes) (d : obs (list proto)) (after : list int) : held_case := HeldCase held m d (map N_of_int after).",
	"Definition PDecCaseI (k : pkind) (rf : bool) (b : bytes) (d : obs (list proto)) (n : int) : pdec_case := PDecCase k rf b d (nat_of_int n).",
}

type Replay struct {
	Mode   string        `json:"mode,omitempty"`  // alias: seq | conc
	Metas  [][]PSpec     `json:"metas,omitempty"` // alias: the metadata values of the history
	Kind   string        `json:"kind"`            // enc | dec | alias | proto | proto-roundtrip | equal | misc
	Specs  []PSpec       `json:"specs,omitempty"`
	Specs2 []PSpec       `json:"specs2,omitempty"` // equal: the other metadata
	PKind  string        `json:"pkind,omitempty"`  // proto: bitswap | gateway | gs | unknown
	Entry  string        `json:"entry,omitempty"`  // proto: U | R | B
	Ad     *AdScenario   `json:"ad,omitempty"`     // adwrap
	Held   *HeldScenario `json:"held,omitempty"`   // held
	Hex    string        `json:"hex,omitempty"`
	What   string        `json:"what,omitempty"`
}

type runner struct {
	c        *vlib.Ctx
	w        *worker
	perClass map[string]int
	rawDec   map[string][]rawFail      // failing decoder inputs by class, not yet shrunk
	fails    map[string][]vlib.Failure // by class, in discovery order
	classes  []string
}

func (r *runner) record(class, sig, desc string, rp Replay) {
	if _, ok := r.fails[class]; !ok {
		r.classes = append(r.classes, class)
	}
	for _, f := range r.fails[class] {
		if f.Signature == sig {
			return
		}
	}
	r.fails[class] = append(r.fails[class], vlib.Failure{Signature: sig, Desc: desc, Replay: rp})
}

// flush reports the collected failures round-robin over the classes, so that the first
// few reported violations are of different kinds (the driver prints the first five).
// classes that correspond to the defects found so far come first
var classPriority = []string{"enc:roundtrip-count", "enc:roundtrip-err-unexpected-content", "dec:panic", "dec:reencode-unsorted",
	"dec:reencode-graphsync-noncanonical", "dec:alloc", "dec:alloc-graphsync", "enc:roundtrip-panic"}

func classRank(c string) int {
	for i, p := range classPriority {
		if c == p || strings.HasPrefix(c, p) && p != "dec:alloc" {
			return i
		}
	}
	return len(classPriority)
}

func (r *runner) flush() {
	r.shrinkPending()
	sort.Slice(r.classes, func(i, j int) bool {
		a, b := classRank(r.classes[i]), classRank(r.classes[j])
		if a != b {
			return a < b
		}
		return r.classes[i] < r.classes[j]
	})
	for i := 0; ; i++ {
		any := false
		for _, cl := range r.classes {
			if i < len(r.fails[cl]) {
				f := r.fails[cl][i]
				r.c.Fail(f.Signature, f.Desc, f.Replay)
				any = true
			}
		}
		if !any {
			return
		}
	}
}

const maxShrunkPerClass = 4

// ---------------------------------------------------------------------------

func (r *runner) encOnce(specs []PSpec) (EncObs, string, string) {
	return runEncode(specs, r.w)
}

func (r *runner) doEnc(kind string, specs []PSpec) {
	c := r.c
	if r.w.hangs > 25 {
		c.Count("skipped-after-repeated-hangs")
		return
	}
	o, fail, desc := r.encOnce(specs)
	c.Eval()
	c.Count("enc:" + kind)
	c.Count(fmt.Sprintf("enc:size=%d", len(specs)))
	varlen := 0
	for _, s := range specs {
		if s.K == "gs" || s.K == "unknown" {
			varlen++
		}
	}
	if len(specs) >= 2 && varlen >= 1 {
		c.Nontrivial("e" + specSig(specs))
	}
	c.Case("enc", o.coq(specs), Replay{Kind: "enc", Specs: specs})
	if len(c.Res.Samples) < 3 {
		c.Sample(map[string]interface{}{"kind": "enc", "protocols": specSig(specs), "marshal": hex.EncodeToString(o.bytes), "decode": o.dec.out})
	}
	if fail == "" {
		return
	}
	class := fail
	c.Count("fail:enc:" + class)
	if r.perClass["enc:"+class] >= maxShrunkPerClass {
		return
	}
	r.perClass["enc:"+class]++
	sh, d := r.shrinkEnc(specs, class, desc)
	r.record("enc:"+class, "enc:"+class+":"+specSig(sh), d, Replay{Kind: "enc", Specs: sh, What: d})
}

func simpler(s PSpec) []PSpec {
	var out []PSpec
	if s.K != "bitswap" {
		out = append(out, PSpec{K: "bitswap"})
	}
	if s.K == "unknown" && len(s.Body) > 0 {
		out = append(out, PSpec{K: "unknown", Code: s.Code})
	}
	if s.K == "gs" && (s.VD || s.FR) {
		out = append(out, PSpec{K: "gs", Cid: s.Cid})
	}
	if s.K == "gs" && s.Cid != hex.EncodeToString(cidIdent0) {
		out = append(out, PSpec{K: "gs", Cid: hex.EncodeToString(cidIdent0), VD: s.VD, FR: s.FR})
	}
	if s.K == "unknown" && s.Code != 0x12 {
		out = append(out, PSpec{K: "unknown", Code: 0x12, Body: s.Body})
	}
	return out
}

func (r *runner) shrinkEnc(specs []PSpec, class, desc string) ([]PSpec, string) {
	for changed := true; changed; {
		changed = false
		for i := 0; i < len(specs) && !changed; i++ {
			cand := append(append([]PSpec{}, specs[:i]...), specs[i+1:]...)
			if len(cand) > 0 {
				if _, f, d := r.encOnce(cand); f == class {
					specs, desc, changed = cand, d, true
				}
			}
		}
		for i := 0; i < len(specs) && !changed; i++ {
			for _, s := range simpler(specs[i]) {
				cand := append([]PSpec{}, specs...)
				cand[i] = s
				if _, f, d := r.encOnce(cand); f == class {
					specs, desc, changed = cand, d, true
					break
				}
			}
		}
	}
	return specs, desc
}

// ---------------------------------------------------------------------------

func (r *runner) doDec(kind string, b []byte) {
	c := r.c
	if r.w.hangs > 25 {
		c.Count("skipped-after-repeated-hangs")
		return
	}
	if len(b) > 1024 {
		b = b[:1024]
	}
	o := r.w.decode(b)
	c.Eval()
	c.Count("dec:" + kind)
	c.Count("dec-outcome:" + o.out)
	if o.out == "ok" && len(o.protos) >= 2 || o.out == "err" && len(b) >= 3 {
		c.Nontrivial("d" + hex.EncodeToString(b))
	}
	c.Case("dec", coqWCase(b, o), Replay{Kind: "dec", Hex: hex.EncodeToString(b), What: kind + " -> " + o.out + " " + o.msg})
	f, d := wOracle(b, o)
	if f == "" {
		return
	}
	c.Count("fail:dec:" + f)
	// shrinking is postponed to the end of the run: the shortest failing inputs of each
	// class are shrunk and reported (a failure found on a long input first would otherwise
	// hide the short replay a later generator produces)
	if len(r.rawDec[f]) < 4000 {
		r.rawDec[f] = append(r.rawDec[f], rawFail{append([]byte{}, b...), d})
	}
}

type rawFail struct {
	b    []byte
	desc string
}

func (r *runner) shrinkPending() {
	classes := make([]string, 0, len(r.rawDec))
	for cl := range r.rawDec {
		classes = append(classes, cl)
	}
	sort.Strings(classes)
	for _, cl := range classes {
		l := r.rawDec[cl]
		sort.SliceStable(l, func(i, j int) bool { return len(l[i].b) < len(l[j].b) })
		seen := map[string]bool{}
		for _, rf := range l {
			if len(seen) >= maxShrunkPerClass || r.w.hangs > 25 {
				break
			}
			sb, sd := r.shrinkDec(rf.b, cl, rf.desc)
			h := hex.EncodeToString(sb)
			if seen[h] {
				continue
			}
			seen[h] = true
			r.record("dec:"+cl, "dec:"+cl+":"+h, sd, Replay{Kind: "dec", Hex: h, What: sd})
		}
	}
}

func (r *runner) shrinkDec(b []byte, class, desc string) ([]byte, string) {
	try := func(cand []byte) bool {
		if f, d := wOracle(cand, r.w.decode(cand)); f == class {
			b, desc = cand, d
			return true
		}
		return false
	}
	budget := 3000
	if r.w.hangs > 0 {
		budget = 40
	}
	for changed := true; changed && budget > 0; {
		changed = false
		for chunk := len(b) / 2; chunk >= 1 && !changed; chunk /= 2 {
			for i := 0; i+chunk <= len(b) && budget > 0; i += chunk {
				budget--
				cand := append(append([]byte{}, b[:i]...), b[i+chunk:]...)
				if try(cand) {
					changed = true
					break
				}
			}
		}
	}
	// length-coupled edits: lower one byte by one and delete one later byte
	for changed := true; changed && budget > 0 && len(b) <= 48; {
		changed = false
		for i := 0; i < len(b) && !changed; i++ {
			if b[i]&0x7f == 0 {
				continue
			}
			for k := len(b) - 1; k > i && budget > 0; k-- {
				budget--
				cand := append([]byte{}, b[:k]...)
				cand = append(cand, b[k+1:]...)
				cand[i]--
				if try(cand) {
					changed = true
					break
				}
			}
		}
	}
	return b, desc
}

// ---------------------------------------------------------------------------

func main() {
	if len(os.Args) > 1 && os.Args[1] == "-c11worker" {
		workerMain()
		return
	}
	debug.SetMemoryLimit(2 << 30)
	limitOwnMemory(8 << 30)
	c := vlib.Init("C11")
	defer c.Finish()
	req := coqPrelude
	c.Family("enc", req, "enc_case_ok", 300)
	c.Family("dec", req, "dec_case_ok", 400)
	c.Family("lim", req, "lim_case_ok", 50)
	c.Family("pdec", req, "pdec_case_ok", 500)
	c.Family("eq", req, "eq_case_ok", 300)
	c.Family("held", req, "held_case_ok", 400)
	c.Family("adwrap", append(append([]string{}, coqPrelude...), "From Model Require Import Compose_C05_C13 Compose_C11_C05."), "adwrap_case_ok", 150)
	adPoolInit(c.Seed)
	r := &runner{c: c, w: &worker{}, perClass: map[string]int{}, fails: map[string][]vlib.Failure{}, rawDec: map[string][]rawFail{}}
	defer r.w.stop()
	defer r.flush()
	c.Res.Rule = "enc: EXHAUSTIVE over every sequence of length 1..3 (quick) / 1..4 (thorough) of a 12-symbol alphabet {bitswap, gateway, graphsync-filecoin x 4 piece CIDs/flag settings, 6 unknown codes below/between/above the known IDs with payloads 0..128}; SAMPLED: sequences of length 4..6 with random payloads 0..300 B and 9 piece CIDs, unknown payload length sweep 0..300 and 1000..1024, metadata.HTTPV1() combinations, 13..40 protocols with distinct IDs; non-trivial = at least 2 protocols one of which has a variable-length encoding. dec: valid encodings, all their truncations, bit flips, byte edits, all ordered pairs and random trains concatenated as given, hostile/boundary/malformed length prefixes, every varint of valid encodings (protocol code, unknown size, gateway length, the varints inside a CIDv1) re-spelled non-minimally with 1..3 and up-to-10-byte padding, padded size varints in front of payloads overlapping a well-formed protocol sequence at every alignment, hand-written non-canonical DAG-CBOR, random bytes <= 1 KiB; non-trivial = accepted with >= 2 protocols, or rejected input of >= 3 bytes. alias (direct oracle only, no Coq cases): histories of 2..4 different metadata values marshalled in turn with every returned slice kept and re-checked, input buffers overwritten after decoding, Get/Protocols results re-checked after later activity, plus concurrent rounds. pdec: every protocol's UnmarshalBinary / ReadFrom(bytes.Reader) / ReadFrom(bytes.Buffer) called directly on its own encoding (round trip), on every other protocol's encoding, with trailing bytes, truncated, bit-flipped, on malformed/non-minimal varints, hostile sizes, the DAG-CBOR variants and random bytes. eq: Metadata.Equal on all ordered pairs of 27 metadata values (equal, unequal, reordered duplicates, different lengths, an Unknown carrying a known protocol's ID and bytes, values that cannot be marshalled) and sampled perturbations. misc (oracle only): WithProtocol (registered custom protocol round-trips and is retrievable; unregistered code = Unknown; parent context unchanged; override of a built-in code; twice-derived context), ErrInvalidMetadata.Error, unmarshalable values ctor (oracle only): metadata.HTTPV1 and the struct-literal protocols as independent values (decode into / overwrite one, the others and fresh ones still encode as before) and HTTPV1 as a WithProtocol factory in kept-results histories. held: every way a value comes to hold its protocols (New in every order; then Swap; sort.Reverse; the caller reordering the slice it gave to New; reuse after a failed or truncated UnmarshalBinary; Default and a WithProtocol-derived context) -- the Coq case carries the protocols in the order HELD at marshal time. adwrap (composition C11 x C05 x C13): real metadata put into a real schema.Advertisement, signed with a real key (2 ed25519, 1 secp256k1), stored as DAG-CBOR (and DAG-JSON, oracle only), loaded with BytesToAdvertisement, VerifySignature, metadata.UnmarshalBinary of the Metadata field; untouched, and after changing the metadata bytes post-signing (other protocols, appended protocol, reversed order, every non-minimal varint re-spelling, bit flip, truncation, empty, garbage, one flipped bit inside the block) with and without re-signing. lim: largest graphsync link the DAG-CBOR budget admits"
	c.Res.Exhaustive = false
	c.Note(fmt.Sprintf("metadata.MaxMetadataSize = %d", metadata.MaxMetadataSize))

	if c.Replay != "" {
		var rp Replay
		if err := c.LoadReplay(&rp); err != nil {
			panic(err)
		}
		switch rp.Kind {
		case "enc":
			o, fail, desc := r.encOnce(rp.Specs)
			fmt.Printf("replay enc: protocols=%s\n  marshal: %s %x\n  unmarshal(marshal): %s %s -> %s\n  Protocols()=%x\n", specSig(rp.Specs), o.marshal.out, o.bytes, o.dec.out, o.dec.msg, kinds(o.dec.protos), o.ids)
			c.Case("enc", o.coq(rp.Specs), rp)
			c.Eval()
			if fail != "" {
				fmt.Println("ORACLE-FAIL:", fail, "::", desc)
				c.Fail("enc:"+fail+":"+specSig(rp.Specs), desc, rp)
			} else {
				fmt.Println("oracles hold on this input")
			}
		case "proto":
			b := mustHex(rp.Hex)
			o := r.protoOnce(rp.PKind, rp.Entry, b)
			fmt.Printf("replay proto: %s.%s input=%x\n  result: %s %s -> %s, %d bytes read, allocated %d\n  re-encoding: %s %x\n", rp.PKind, rp.Entry, b, o.out, o.msg, kinds(o.protos), o.n, o.alloc, o.reOut, o.re)
			c.Eval()
			if cl, d := protoOracle(rp.PKind, rp.Entry, b, o); cl != "" {
				fmt.Println("ORACLE-FAIL:", cl, "::", d)
				c.Fail("proto:"+cl+":"+rp.PKind+"."+rp.Entry+":"+rp.Hex, d, rp)
			} else {
				fmt.Println("oracles hold on this input")
			}
		case "ctor":
			fmt.Println("replay ctor: exported constructors as values and as WithProtocol factories")
			r.doCtor()
		case "held":
			rep, perr := r.heldOnce(*rp.Held)
			fmt.Printf("replay held: %s\n  held at marshal time: %d protocols, prepare error %q\n  MarshalBinary: %s %s\n  Protocols() afterwards: %x\n  UnmarshalBinary of that: %s %s\n  %s\n", rp.Held.sig(), len(rep.Held), rep.PrepErr, rep.MarshalOut, rep.Hex, rep.After, rep.DecOut, rep.DecMsg, perr)
			r.doHeld(*rp.Held)
		case "adwrap":
			fmt.Printf("replay adwrap: %s\n", rp.Ad.sig())
			r.doAdwrap(*rp.Ad)
		case "proto-roundtrip":
			fmt.Printf("replay proto round trip: %s (encoding %s), entry points U/R/B on a fresh value of its type\n", specSig(rp.Specs), rp.Hex)
			for _, e := range []string{"U", "R", "B"} {
				o := r.protoOnce(rp.PKind, e, mustHex(rp.Hex))
				fmt.Printf("  %s.%s: %s %s -> %s (%d bytes read)\n", rp.PKind, e, o.out, o.msg, kinds(o.protos), o.n)
			}
			r.protoRoundTrip(rp.Specs[0])
		case "equal":
			r.doEqual("replay", rp.Specs, rp.Specs2)
			fmt.Printf("replay equal: %s = %s\n", specSig(rp.Specs), specSig(rp.Specs2))
		case "misc":
			r.doMisc()
			fmt.Println("replay misc battery (WithProtocol, Error, unmarshalable values)")
		case "alias":
			class, desc, obs := r.aliasOnce(rp.Mode, rp.Metas)
			fmt.Printf("replay alias (%s): metadata values = %s\n  observations: %s\n", rp.Mode, metasSig(rp.Metas), obs)
			c.Eval()
			if class != "" {
				fmt.Println("ORACLE-FAIL:", class, "::", desc)
				c.Fail("alias:"+rp.Mode+":"+class+":"+metasSig(rp.Metas), desc, rp)
			} else {
				fmt.Println("oracles hold on this history")
			}
		case "dec":
			b := mustHex(rp.Hex)
			o := r.w.decode(b)
			fmt.Printf("replay dec: input=%x (%d bytes)\n  UnmarshalBinary: %s %s -> %s\n  allocated %d bytes (bound %d)\n  re-encoding: %s %x\n", b, len(b), o.out, o.msg, kinds(o.protos), o.alloc, allocBound(len(b)), o.reOut, o.re)
			c.Case("dec", coqWCase(b, o), rp)
			c.Eval()
			if f, d := wOracle(b, o); f != "" {
				fmt.Println("ORACLE-FAIL:", f, "::", d)
				c.Fail("dec:"+f+":"+rp.Hex, d, rp)
			} else {
				fmt.Println("oracles hold on this input")
			}
		default:
			panic("unknown replay kind " + rp.Kind)
		}
		return
	}

	al := alphabet()

	// ---- encode side -------------------------------------------------------
	maxLen := c.Pick(3, 4)
	for k := 1; k <= maxLen; k++ {
		sequences(len(al), k, func(w []int) { r.doEnc("enumerated", pickSpecs(al, w)) })
	}
	c.Res.Exhaustive = true // over the stated alphabet and lengths; the sampled streams below are not
	rs := c.Rng.Fork("enc-sampled")
	for i, n := 0, c.Pick(300, 4000); i < n; i++ {
		k := 4 + rs.Intn(3)
		if c.Thorough() {
			k = 5 + rs.Intn(2)
		}
		specs := make([]PSpec, k)
		for j := range specs {
			specs[j] = randomSpec(rs, al)
		}
		r.doEnc("sampled", specs)
	}
	// unknown payload lengths 0..300 (and the size-limit boundary), alone and between neighbours
	rl := c.Rng.Fork("enc-lengths")
	codes := []uint64{0x12, 0x0302, 0x0905, 0x0915, 0x0921, 1 << 40}
	lengths := []int{}
	for l := 0; l <= 300; l++ {
		lengths = append(lengths, l)
	}
	lengths = append(lengths, 1000, 1019, 1020, 1021, 1023, 1024)
	for i, l := range lengths {
		u := unk(codes[i%len(codes)], rl.Bytes(l))
		specs := []PSpec{u}
		switch i % 3 {
		case 1:
			specs = []PSpec{al[rl.Intn(len(al))], u}
		case 2:
			specs = []PSpec{al[rl.Intn(len(al))], u, al[rl.Intn(len(al))]}
		}
		r.doEnc("length-sweep", specs)
	}
	// every piece CID x every flag setting, alone and followed by a protocol
	for _, cb := range [][]byte{cidV1Raw, cidV0, cidCommP, cidIdent3, cidIdent0, cidIdent18, cidIdent19, cidIdent249, cidIdent250} {
		for f := 0; f < 4; f++ {
			g := gs(cb, f&1 == 1, f&2 == 2)
			r.doEnc("graphsync", []PSpec{g})
			r.doEnc("graphsync", []PSpec{g, {K: "gateway"}})
			r.doEnc("graphsync", []PSpec{{K: "bitswap"}, g, unk(0x0911, []byte{1, 2, 3})})
		}
	}

	// the library's own constructor of an "unknown" protocol
	h := PSpec{K: "httpv1"}
	for _, specs := range [][]PSpec{{h}, {h, {K: "bitswap"}}, {{K: "bitswap"}, h}, {{K: "gateway"}, h, {K: "bitswap"}}, {gs(cidV0, true, false), h},
		{h, unk(0x12, []byte{1}), al[2]}, {h, h}, {unk(0x01e0, []byte{7}), h}, {unk(0x01e1, nil), h, unk(0x01df, nil)}} {
		r.doEnc("httpv1", specs)
	}

	// many protocols (13..40: beyond the insertion-sort range of sort.Sort), pairwise
	// distinct IDs so that the sorted arrangement is unique
	rm := c.Rng.Fork("enc-many")
	for i, n := 0, c.Pick(40, 400); i < n; i++ {
		k := 13 + rm.Intn(28)
		used := map[uint64]bool{idBitswap: true, idGateway: true, idGS: true}
		specs := []PSpec{{K: "bitswap"}, {K: "gateway"}, gs(cidIdent3, rm.Bool(), rm.Bool())}
		for len(specs) < k {
			code := uint64(rm.Intn(6000))
			if rm.Intn(8) == 0 {
				code = rm.Uint64() >> 1
			}
			if used[code] {
				continue
			}
			used[code] = true
			specs = append(specs, unk(code, rm.Bytes(rm.Intn(12))))
		}
		for j := len(specs) - 1; j > 0; j-- {
			q := rm.Intn(j + 1)
			specs[j], specs[q] = specs[q], specs[j]
		}
		r.doEnc("many-distinct", specs)
	}

	// ---- exported constructors as values and as factories (oracle only) -----
	r.doCtor()

	// ---- every way a value comes to hold its protocols ---------------------
	r.heldAll(al)

	// ---- per-protocol entry points -----------------------------------------
	rp2 := c.Rng.Fork("proto")
	protoSpecs := append([]PSpec{}, al...)
	protoSpecs = append(protoSpecs, PSpec{K: "httpv1"}, unk(0x12, []byte{1}), unk(1<<63-1, nil), unk(0x0302, seqBytes(1024, 1)))
	for _, cb := range [][]byte{cidV0, cidCommP, cidIdent0, cidIdent18, cidIdent19, cidIdent249, cidIdent250} {
		protoSpecs = append(protoSpecs, gs(cb, rp2.Bool(), rp2.Bool()))
	}
	for i := 0; i < c.Pick(20, 300); i++ {
		protoSpecs = append(protoSpecs, randomSpec(rp2, al))
	}
	var ownEnc [][]byte
	for _, s := range protoSpecs {
		r.protoRoundTrip(s)
		ownEnc = append(ownEnc, mustEnc(s.build()))
	}
	// every decoder on every protocol's encoding (own and foreign), with trailing bytes,
	// truncated, and with one byte changed
	for i, e := range ownEnc {
		if i >= 19+c.Pick(4, 60) {
			break
		}
		for _, kind := range pkinds {
			for _, entry := range []string{"U", "R", "B"} {
				r.doProto("any-encoding", kind, entry, e)
				r.doProto("trailing", kind, entry, cat(e, []byte{0x00}))
				r.doProto("trailing", kind, entry, cat(e, []byte{0x80, 0x12}))
				if len(e) > 1 {
					r.doProto("truncated", kind, entry, e[:len(e)-1])
					r.doProto("truncated", kind, entry, e[:1+rp2.Intn(len(e)-1)])
				}
				m := append([]byte{}, e...)
				m[rp2.Intn(len(m))] ^= 1 << rp2.Intn(8)
				r.doProto("bitflip", kind, entry, m)
			}
		}
	}
	for _, kind := range pkinds {
		for _, entry := range []string{"U", "R", "B"} {
			r.doProto("empty", kind, entry, nil)
			for _, x := range [][]byte{{0x80}, {0x80, 0x12, 0x00}, {0xa0, 0x12}, {0xa0, 0x12, 0x01}, {0x90, 0x12}, {0x12}, {0x12, 0x00}, {0x12, 0x01}, {0x00, 0x00}, {0xe0, 0x03, 0x00}} {
				r.doProto("fixed", kind, entry, x)
			}
			for _, mv := range malformedVarints() {
				r.doProto("malformed-varint", kind, entry, mv)
				r.doProto("malformed-varint", kind, entry, cat([]byte{0x12}, mv, []byte{1, 2}))
			}
		}
	}
	for _, entry := range []string{"U", "R", "B"} {
		for _, sz := range hostileSizes() {
			r.doProto("hostile-size", "unknown", entry, cat(uv(0x12), uv(sz), []byte{1, 2}))
			r.doProto("hostile-size", "unknown", entry, cat(uv(idBitswap), uv(sz)))
		}
		for _, v := range gsVariants() {
			if entry == "U" || strings.Contains(v.kind, "len") || strings.Contains(v.kind, "order") || strings.Contains(v.kind, "head") || strings.Contains(v.kind, "cid") {
				r.doProto(v.kind, "gs", entry, cat([]byte{0x90, 0x12}, v.b))
			}
		}
		for _, pad := range []int{1, 2, 9} {
			r.doProto("nonminimal", "unknown", entry, paddedSizeWithTail(0x30, pad, []byte{0xaa}, []byte{0x80, 0x12}, pad))
			r.doProto("nonminimal", "unknown", entry, cat(respell(0x30, pad), []byte{0x01, 0x07}))
			r.doProto("nonminimal", "gs", entry, cat(respell(idGS, pad), gsPayload(cidIdent3, true, true)))
			r.doProto("nonminimal", "bitswap", entry, respell(idBitswap, pad))
			r.doProto("nonminimal", "gateway", entry, cat(respell(idGateway, pad), []byte{0}))
			r.doProto("nonminimal", "gateway", entry, cat(uv(idGateway), respell(0, pad)))
		}
	}
	for i, n := 0, c.Pick(300, 5000); i < n; i++ {
		kind := pkinds[i%4]
		entry := []string{"U", "R", "B"}[(i/4)%3]
		var b []byte
		switch i % 3 {
		case 0:
			b = rp2.Bytes(rp2.Intn(40))
		case 1:
			ids := [][]byte{{0x80, 0x12}, {0x90, 0x12}, {0xa0, 0x12}, {0x12}}
			b = cat(ids[rp2.Intn(4)], rp2.Bytes(rp2.Intn(24)))
		default:
			l := rp2.Intn(30)
			b = cat(uv(uint64(rp2.Intn(5000))), uv(uint64(l+rp2.Intn(3)-1)&0x3ff), rp2.Bytes(l))
		}
		r.doProto("random", kind, entry, b)
	}

	// ---- Metadata.Equal ----------------------------------------------------
	gA, gB := gs(cidV1Raw, false, false), gs(cidV0, true, false)
	eqSets := [][]PSpec{{}, {al[0]}, {al[1]}, {al[0], al[1]}, {al[1], al[0]}, {gA}, {gB}, {gA, gB}, {gB, gA}, {al[0], gA, al[7]}, {al[7], gA, al[0]},
		{al[0], gA, al[7], al[1]}, {al[7]}, {unk(0x0302, []byte("hellp"))}, {unk(0x0303, []byte("hello"))}, {al[0], al[0]}, {gA, gA},
		{{K: "unknown-raw", Code: idBitswap, Body: "8012"}},        // an Unknown that carries bitswap's ID and bytes
		{{K: "unknown-raw", Code: idBitswap, Body: "8012"}, al[1]}, // ... next to the gateway
		{{K: "unknown-raw", Code: idBitswap + 1, Body: "8012"}},    // same bytes, another ID
		{{K: "unknown-raw", Code: idGateway, Body: "a01201"}},      // the gateway's ID, other bytes
		{{K: "unknown-raw", Code: 0x0302, Body: ""}}, {{K: "httpv1"}}, {{K: "unknown-raw", Code: 0x01e0, Body: "e00300"}},
		{{K: "gs-undef"}}, {{K: "gs-undef"}, al[0]}, {{K: "gs-undef", VD: true}}}
	for i := range eqSets {
		for j := range eqSets {
			r.doEqual("pairs", eqSets[i], eqSets[j])
		}
	}
	for i, n := 0, c.Pick(60, 1500); i < n; i++ {
		a := make([]PSpec, 1+rp2.Intn(4))
		for q := range a {
			a[q] = randomSpec(rp2, al)
		}
		b := append([]PSpec{}, a...)
		switch rp2.Intn(5) {
		case 0: // shuffled construction order
			for q := len(b) - 1; q > 0; q-- {
				z := rp2.Intn(q + 1)
				b[q], b[z] = b[z], b[q]
			}
		case 1: // one protocol replaced
			b[rp2.Intn(len(b))] = randomSpec(rp2, al)
		case 2: // one more
			b = append(b, randomSpec(rp2, al))
		case 3: // one fewer
			b = b[:len(b)-1]
		}
		r.doEqual("sampled", a, b)
	}

	// ---- WithProtocol, ErrInvalidMetadata, values that cannot be marshalled ---
	r.doMisc()

	// ---- metadata inside signed advertisements (composition C11 x C05 x C13) ---
	r.adwrapAll(al)

	// ---- aliasing / history axis (oracle only) ------------------------------
	ra := c.Rng.Fork("alias")
	pool := [][]PSpec{{al[0]}, {al[1]}, {al[5]}, {al[7]}, {al[0], al[1]}, {al[6], al[0]}, {al[7], al[2], al[1]},
		{al[8]}, {al[0], al[5], al[10], al[11]}, {al[9], al[3]}, {{K: "httpv1"}, al[0]}, {al[11]}}
	for i := range pool {
		for j := range pool {
			if i != j {
				r.doAlias("seq", [][]PSpec{pool[i], pool[j]})
			}
		}
	}
	for i, n := 0, c.Pick(120, 1500); i < n; i++ {
		k := 3 + ra.Intn(2)
		perm := make([]int, len(pool))
		for j := range perm {
			perm[j] = j
		}
		for j := len(perm) - 1; j > 0; j-- {
			q := ra.Intn(j + 1)
			perm[j], perm[q] = perm[q], perm[j]
		}
		metas := make([][]PSpec, k)
		for j := range metas {
			metas[j] = pool[perm[j]]
			if ra.Intn(4) == 0 { // a value outside the pool
				sp := make([]PSpec, 1+ra.Intn(4))
				for q := range sp {
					sp[q] = randomSpec(ra, al)
				}
				metas[j] = sp
			}
		}
		r.doAlias("seq", metas)
	}
	for i, n := 0, c.Pick(6, 40); i < n; i++ {
		k := 4 + ra.Intn(5)
		metas := make([][]PSpec, k)
		for j := range metas {
			metas[j] = pool[(i*5+j*7)%len(pool)]
		}
		r.doAlias("conc", metas)
	}

	// ---- decode side -------------------------------------------------------
	rd := c.Rng.Fork("dec")
	marshalOf := func(specs []PSpec) []byte {
		var out []byte
		for _, s := range stableSorted(specs) {
			e, err := s.build().MarshalBinary()
			if err != nil {
				panic(err)
			}
			out = append(out, e...)
		}
		return out
	}
	// base encodings
	var bases [][]byte
	for _, s := range al {
		bases = append(bases, marshalOf([]PSpec{s}))
	}
	for i, n := 0, c.Pick(14, 60); i < n; i++ {
		k := 2 + rd.Intn(3)
		specs := make([]PSpec, k)
		for j := range specs {
			specs[j] = al[rd.Intn(len(al))]
		}
		bases = append(bases, marshalOf(specs))
	}
	for _, b := range bases {
		r.doDec("valid", b)
		for n := 0; n < len(b); n++ {
			r.doDec("truncated", b[:n])
		}
		nflip := len(b) * 8
		for j := 0; j < nflip && j < c.Pick(48, 160); j++ {
			bit := j
			if nflip > c.Pick(48, 160) {
				bit = rd.Intn(nflip)
			}
			m := append([]byte{}, b...)
			m[bit/8] ^= 1 << (bit % 8)
			r.doDec("bitflip", m)
		}
		for j := 0; j < 4; j++ {
			m := append([]byte{}, b...)
			p := rd.Intn(len(m) + 1)
			switch j {
			case 0: // delete one byte
				if p < len(m) {
					m = append(m[:p], m[p+1:]...)
				}
			case 1: // insert one byte
				m = append(m[:p], append([]byte{byte(rd.Intn(256))}, m[p:]...)...)
			case 2: // append garbage
				m = append(m, rd.Bytes(1+rd.Intn(4))...)
			case 3: // append a valid protocol regardless of order
				m = append(m, bases[rd.Intn(len(al))]...)
			}
			r.doDec("edited", m)
		}
	}
	// all ordered pairs, concatenated as given (sorted, equal and unsorted)
	for i := range al {
		for j := range al {
			r.doDec("pair-as-given", cat(bases[i], bases[j]))
		}
	}
	for i := 0; i < c.Pick(100, 1500); i++ {
		k := 3 + rd.Intn(4)
		var b []byte
		for j := 0; j < k; j++ {
			b = append(b, bases[rd.Intn(len(al))]...)
		}
		r.doDec("concat-as-given", b)
	}
	// hostile and boundary length prefixes
	for _, code := range []uint64{0x12, 0x0905, 1<<63 - 1} {
		for _, sz := range hostileSizes() {
			for _, avail := range []int{0, 1, 2, 1000} {
				body := seqBytes(avail, 0x30)
				if uint64(avail) > sz {
					body = body[:sz]
				}
				r.doDec("hostile-size", cat(uv(code), uv(sz), body))
				if avail == 1 {
					r.doDec("hostile-size", cat([]byte{0x80, 0x12}, uv(code), uv(sz), body))
				}
			}
		}
	}
	for _, mv := range malformedVarints() {
		r.doDec("malformed-varint", mv)                                  // as protocol code
		r.doDec("malformed-varint", cat([]byte{0x12}, mv))               // as size
		r.doDec("malformed-varint", cat([]byte{0x12}, mv, []byte{1, 2})) // as size, bytes following
		r.doDec("malformed-varint", cat([]byte{0x80, 0x12}, mv))         // after a valid protocol
		r.doDec("malformed-varint", cat([]byte{0x90, 0x12}, mv))         // where CBOR is expected
	}
	// every varint of a valid encoding, written non-minimally, one at a time
	nmSets := [][]PSpec{{al[0]}, {al[1]}, {al[2]}, {al[5]}, {al[6]}, {al[7]}, {al[8]}, {al[9]}, {al[11]},
		{al[0], al[1]}, {al[7], al[0], al[1]}, {al[6], al[5], al[10]}, {al[0], al[2], al[9], al[1], al[11]},
		{unk(0x30, []byte{0xaa, 0xbb, 0x80, 0x12}), al[0]}, {unk(0x0921, []byte{0xa0, 0x12, 0x00}), al[11]}}
	for i, n := 0, c.Pick(6, 60); i < n; i++ {
		k := 2 + rd.Intn(4)
		specs := make([]PSpec, k)
		for j := range specs {
			specs[j] = randomSpec(rd, al)
		}
		nmSets = append(nmSets, specs)
	}
	for _, specs := range nmSets {
		for _, v := range respelledEncodings(specs) {
			r.doDec(v.kind, v.b)
		}
	}
	// a padded size varint in front of a payload whose end overlaps a well-formed protocol
	// sequence, at every alignment
	tails := [][]byte{
		{0x80, 0x12},                         // bitswap
		{0xa0, 0x12, 0x00},                   // gateway
		{0x80, 0x12, 0xa0, 0x12, 0x00},       // bitswap, gateway
		{0x80, 0x12, 0x80, 0x12},             // bitswap twice
		bases[5],                             // graphsync-filecoin with a 7-byte CID
		cat(bases[0], bases[5], bases[1]),    // bitswap, graphsync, gateway
		cat(uv(0x0921), uv(2), []byte{7, 8}), // a small unknown above the gateway
		cat(bases[10], bases[11]),            // two unknowns
	}
	for _, code := range []uint64{0x12, 0x30, 0x0302} {
		for _, pad := range []int{1, 2, 3, 8, 9} {
			for _, pl := range []int{0, 2, 5} {
				prefix := seqBytes(pl, 0xaa)
				for _, tail := range tails {
					for j := 0; j <= len(tail); j++ {
						if j > 6 && j != len(tail) {
							continue
						}
						b := paddedSizeWithTail(code, pad, prefix, tail, j)
						r.doDec("nonminimal:size-with-tail", b)
						if pl == 2 && j == pad {
							r.doDec("nonminimal:size-with-tail", cat([]byte{0x05, 0x00}, b)) // after another protocol
						}
					}
				}
			}
		}
	}
	r.doDec("fixed", []byte{0xa0, 0x12})       // gateway without its length byte
	r.doDec("fixed", []byte{0xa0, 0x12, 0x01}) // gateway with a non-zero length
	r.doDec("fixed", []byte{0xa0, 0x12, 0x00, 0x00})
	r.doDec("fixed", []byte{0x80, 0x12, 0x00}) // code 0 with no size
	r.doDec("fixed", []byte{0x00, 0x00})       // code 0, size 0
	r.doDec("fixed", []byte{0x00, 0x00, 0x00, 0x00})
	// graphsync-filecoin CBOR variants, alone and followed by the gateway
	for _, v := range gsVariants() {
		r.doDec(v.kind, cat([]byte{0x90, 0x12}, v.b))
		r.doDec(v.kind+"+gateway", cat([]byte{0x90, 0x12}, v.b, []byte{0xa0, 0x12, 0x00}))
	}
	// random bytes
	for i, n := 0, c.Pick(500, 8000); i < n; i++ {
		var b []byte
		switch i % 5 {
		case 0: // pure noise, any length up to 1 KiB
			b = rd.Bytes(rd.Intn(1025))
		case 1: // short noise
			b = rd.Bytes(rd.Intn(12))
		case 2: // a known ID followed by noise
			ids := [][]byte{{0x80, 0x12}, {0x90, 0x12}, {0xa0, 0x12}}
			b = cat(ids[rd.Intn(3)], rd.Bytes(rd.Intn(64)))
		case 3: // a train of code/size/payload records with small inconsistencies
			for j, k := 0, 1+rd.Intn(6); j < k; j++ {
				l := rd.Intn(40)
				decl := l
				if rd.Intn(4) == 0 {
					decl += rd.Intn(3) - 1
					if decl < 0 {
						decl = 0
					}
				}
				padc, pads := 0, 0
				if rd.Intn(6) == 0 {
					padc = 1 + rd.Intn(3)
				}
				if rd.Intn(3) == 0 {
					pads = 1 + rd.Intn(3)
				}
				b = cat(b, respell(uint64(rd.Intn(5000)), padc), respell(uint64(decl), pads), rd.Bytes(l))
			}
		case 4: // graphsync prefix, CBOR-looking noise
			b = cat([]byte{0x90, 0x12, 0xa3, 0x68}, []byte("PieceCID"), []byte{0xd8, 0x2a}, rd.Bytes(rd.Intn(48)))
		}
		r.doDec("random", b)
	}

	// ---- model constants tied to the implementation -------------------------
	r.limits()

	if r.w.deaths > 0 {
		c.Note(fmt.Sprintf("decoder worker process aborted %d time(s)", r.w.deaths))
	}
	var fails []string
	for k, v := range c.Res.Distribution {
		if strings.HasPrefix(k, "fail:") {
			fails = append(fails, fmt.Sprintf("%s=%d", k, v))
		}
	}
	if len(fails) > 0 {
		c.Note("direct-oracle failures by class: " + strings.Join(fails, " "))
	}
}
