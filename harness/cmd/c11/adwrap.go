package main

// Family adwrap (composition C11 x C05 x C13): metadata travels inside advertisements.
//
//   real metadata.Metadata  --MarshalBinary-->  Advertisement.Metadata
//   real schema.Advertisement, Sign()ed with a real libp2p key
//   --> DAG-CBOR block (link system, typed prototype)  [and DAG-JSON, oracle only]
//   --> schema.BytesToAdvertisement --> VerifySignature --> metadata.UnmarshalBinary(ad.Metadata)
//
// Direct oracles: (a) untouched: the signature verifies with the signing key and the decoded
// metadata is Equal to the original with every protocol retrievable; (b) any change of the
// metadata bytes after signing (other protocols, the same protocols spelled differently,
// garbage, a flipped byte on the wire) is rejected by VerifySignature -- the signature
// covers the bytes.  Every case is written out for the composed model
// (model/Compose_C11_C05.v, adwrap_case_ok): the block the real encoder wrote, the tables
// of what sha256 / peer.Decode / UnmarshalEnvelope + key.Verify made of its parts, the
// observed VerifySignature verdict and the observed result of the whole pipeline.
// The advertisement side runs in this process (schema package); every
// metadata.UnmarshalBinary call goes to the worker.

import (
	"bytes"
	"crypto/sha256"
	"encoding/hex"
	"fmt"

	"github.com/ipfs/go-cid"
	"github.com/ipld/go-ipld-prime"
	cidlink "github.com/ipld/go-ipld-prime/linking/cid"
	"github.com/ipld/go-ipld-prime/storage/memstore"
	"github.com/ipni/go-libipni/ingest/schema"
	"github.com/ipni/go-libipni/metadata"
	"github.com/libp2p/go-libp2p/core/peer"
	"github.com/libp2p/go-libp2p/core/record"
	recpb "github.com/libp2p/go-libp2p/core/record/pb"
	"github.com/multiformats/go-multicodec"
	"github.com/multiformats/go-multihash"
	"github.com/multiformats/go-varint"
	"google.golang.org/protobuf/proto"

	"verif/harness/keypool"
	"verif/harness/vlib"
)

// AdScenario is the replayable description of one adwrap case.
type AdScenario struct {
	Specs   []PSpec `json:"specs"`          // the metadata put into the advertisement
	Signer  int     `json:"signer"`         // pool index of the signing key
	Prov    int     `json:"prov"`           // pool index of the identity named as Provider
	Prev    bool    `json:"prev,omitempty"` // with a PreviousID link
	IsRm    bool    `json:"rm,omitempty"`
	Mut     string  `json:"mut,omitempty"`     // mutation applied AFTER signing ("" = none)
	MutHex  string  `json:"muthex,omitempty"`  // replacement metadata bytes for Mut == "replace"
	Resign  bool    `json:"resign,omitempty"`  // sign again after the mutation (control)
	WireBit int     `json:"wirebit,omitempty"` // Mut == "wirebit": bit of the metadata inside the block
}

func (s AdScenario) sig() string {
	m := s.Mut
	if m == "" {
		m = "none"
	}
	if s.Resign {
		m += "+resign"
	}
	return fmt.Sprintf("%s:signer%d,prov%d:%s", m, s.Signer, s.Prov, specSig(s.Specs))
}

var adPool *keypool.Pool

func adPoolInit(seed uint64) {
	r := vlib.NewRand(seed).Fork("c11-adwrap-keys")
	adPool = keypool.New(r, 0)
	for _, t := range []string{"ed25519", "ed25519", "secp256k1"} {
		k, err := keypool.Gen(r.Fork(fmt.Sprintf("k%d", len(adPool.Ids))), t)
		if err != nil {
			panic(err)
		}
		adPool.Add(t, k)
	}
}

func sumSha(b []byte) []byte { d := sha256.Sum256(b); return d[:] }

func blockCid(block []byte, codec uint64) cid.Cid {
	m, err := multihash.Sum(block, multihash.SHA2_256, -1)
	if err != nil {
		panic(err)
	}
	return cid.NewCidV1(codec, m)
}

// storeAd writes the advertisement through a link system with the given codec and
// returns the block.
func storeAd(ad *schema.Advertisement, codec uint64) (block []byte, err error) {
	defer func() {
		if p := recover(); p != nil {
			err = fmt.Errorf("panic: %v", p)
		}
	}()
	lsys := cidlink.DefaultLinkSystem()
	store := &memstore.Store{}
	lsys.SetReadStorage(store)
	lsys.SetWriteStorage(store)
	node, err := ad.ToNode()
	if err != nil {
		return nil, err
	}
	lp := cidlink.LinkPrototype{Prefix: cid.Prefix{Version: 1, Codec: codec, MhType: multihash.SHA2_256, MhLength: -1}}
	if _, err = lsys.Store(ipld.LinkContext{}, lp, node); err != nil {
		return nil, err
	}
	for _, b := range store.Bag {
		block = b
	}
	return block, nil
}

type adVerdict struct {
	kind   string // ok | err | panic
	signer int
	msg    string
}

func adVerify(ad *schema.Advertisement) (v adVerdict) {
	defer func() {
		if p := recover(); p != nil {
			v = adVerdict{kind: "panic", msg: fmt.Sprint(p)}
		}
	}()
	id, err := ad.VerifySignature()
	if err != nil {
		return adVerdict{kind: "err", msg: err.Error()}
	}
	return adVerdict{kind: "ok", signer: adPool.IDIndex(id)}
}

// receive: what a receiver does with a block.
type adReceived struct {
	loadErr string
	ad      schema.Advertisement
	verdict adVerdict
	md      WObs // metadata.UnmarshalBinary(ad.Metadata), done by the worker
}

func (r *runner) receive(block []byte, codec uint64) (out adReceived) {
	func() {
		defer func() {
			if p := recover(); p != nil {
				out.loadErr = fmt.Sprintf("panic: %v", p)
			}
		}()
		a, err := schema.BytesToAdvertisement(blockCid(block, codec), block)
		if err != nil {
			out.loadErr = err.Error()
			return
		}
		out.ad = a
	}()
	if out.loadErr != "" {
		return
	}
	out.verdict = adVerify(&out.ad)
	out.md = r.w.decode(out.ad.Metadata)
	return
}

// tables for the composed model ------------------------------------------------

func linkBytesOf(l ipld.Link) []byte {
	if l == nil {
		return nil
	}
	if cl, ok := l.(cidlink.Link); ok {
		return cl.Cid.Bytes()
	}
	return nil
}

func adRaw(ad *schema.Advertisement) []byte {
	var b bytes.Buffer
	b.Write(linkBytesOf(ad.PreviousID))
	b.Write(linkBytesOf(ad.Entries))
	b.WriteString(ad.Provider)
	for _, a := range ad.Addresses {
		b.WriteString(a)
	}
	b.Write(ad.Metadata)
	if ad.IsRm {
		b.WriteByte(1)
	} else {
		b.WriteByte(0)
	}
	return b.Bytes()
}

func unsignedBytes(domain string, ty, pl []byte) []byte {
	var out []byte
	for _, f := range [][]byte{[]byte(domain), ty, pl} {
		out = append(out, varint.ToUvarint(uint64(len(f)))...)
		out = append(out, f...)
	}
	return out
}

func coqEnvTable(ad *schema.Advertisement) string {
	b := ad.Signature
	view := "None"
	if e, err := record.UnmarshalEnvelope(b); err == nil {
		var pe recpb.Envelope
		var sig []byte
		if proto.Unmarshal(b, &pe) == nil {
			sig = pe.Signature
		}
		ok, verr := e.PublicKey.Verify(unsignedBytes("indexer", e.PayloadType, e.RawPayload), sig)
		sg := "(A.SdJunk 0)"
		if verr == nil && ok {
			sg = "(A.SdSelf " + cb([]byte("indexer")) + ")"
		}
		view = fmt.Sprintf("(Some (A.WEnv %d %s %s %s))", adPool.KeyIndex(e.PublicKey), cb(e.PayloadType), cb(e.RawPayload), sg)
	}
	return "[(" + cb(b) + ", " + view + ")]"
}

func coqIDTable(ad *schema.Advertisement) string {
	id, err := peer.Decode(ad.Provider)
	if err != nil {
		return "[]"
	}
	return fmt.Sprintf("[(%s, %d)]", cb([]byte(ad.Provider)), adPool.IDIndex(id))
}

func coqHashTableOf(ad *schema.Advertisement) string {
	if ad.Entries == nil {
		return "[]"
	}
	raw := adRaw(ad)
	return "[(" + cb(raw) + ", " + cb(sumSha(raw)) + ")]"
}

func coqRes(kind string, okTerm string) string {
	switch kind {
	case "ok":
		return "(Ok " + okTerm + ")"
	case "err":
		return "(Err 0)"
	}
	return "(Panic 0)"
}

// one scenario --------------------------------------------------------------------

func (r *runner) buildAd(sc AdScenario) (ad *schema.Advertisement, mdBytes []byte, err error) {
	defer func() {
		if p := recover(); p != nil {
			err = fmt.Errorf("panic: %v", p)
		}
	}()
	m := newMetaX(sc.Specs)
	mdBytes, err = m.MarshalBinary()
	if err != nil {
		return nil, nil, err
	}
	entries := cidlink.Link{Cid: blockCid([]byte("entries of "+specSig(sc.Specs)), uint64(multicodec.DagCbor))}
	ad = &schema.Advertisement{
		Provider:  adPool.Ids[sc.Prov].ID.String(),
		Addresses: []string{"/ip4/127.0.0.1/tcp/9999", "/dns4/example.org/tcp/443/https"},
		Entries:   entries,
		ContextID: []byte("ctx-" + fmt.Sprint(len(sc.Specs))),
		Metadata:  append([]byte{}, mdBytes...),
		IsRm:      sc.IsRm,
	}
	if sc.Prev {
		ad.PreviousID = cidlink.Link{Cid: blockCid([]byte("previous"), uint64(multicodec.DagCbor))}
	}
	if err = ad.Sign(adPool.Ids[sc.Signer].Priv); err != nil {
		return nil, nil, err
	}
	return ad, mdBytes, nil
}

func (r *runner) doAdwrap(sc AdScenario) {
	c := r.c
	if r.w.hangs > 25 {
		return
	}
	fail := func(class, desc string) {
		c.Count("fail:adwrap:" + class)
		if r.perClass["adwrap:"+class] < 3 {
			r.perClass["adwrap:"+class]++
			r.record("adwrap:"+class, "adwrap:"+class+":"+sc.sig(), desc, Replay{Kind: "adwrap", Ad: &sc, What: desc})
		}
	}
	ad, mdBytes, err := r.buildAd(sc)
	c.Eval()
	c.Count("adwrap:" + map[bool]string{true: "untouched", false: "mutated"}[sc.Mut == ""])
	if sc.Mut != "" {
		c.Count("adwrap-mutation:" + sc.Mut + map[bool]string{true: "+resign", false: ""}[sc.Resign])
	}
	if err != nil {
		fail("build", "building and signing the advertisement failed: "+err.Error())
		return
	}
	block0, err := storeAd(ad, cid.DagCBOR)
	if err != nil {
		fail("store", "dag-cbor store of the signed advertisement failed: "+err.Error())
		return
	}
	block := block0
	// mutation after signing
	changed := false
	switch sc.Mut {
	case "":
	case "wirebit":
		i := bytes.Index(block0, mdBytes)
		if i < 0 || len(mdBytes) == 0 {
			fail("wire", "the metadata bytes are not found verbatim in the DAG-CBOR block")
			return
		}
		block = append([]byte{}, block0...)
		bit := sc.WireBit % (len(mdBytes) * 8)
		block[i+bit/8] ^= 1 << (bit % 8)
		changed = true
	default:
		nm := mustHex(sc.MutHex)
		changed = !bytes.Equal(nm, ad.Metadata)
		ad.Metadata = nm
		if sc.Resign {
			if err := ad.Sign(adPool.Ids[sc.Signer].Priv); err != nil {
				fail("build", "re-signing failed: "+err.Error())
				return
			}
		}
		if block, err = storeAd(ad, cid.DagCBOR); err != nil {
			fail("store", "dag-cbor store of the mutated advertisement failed: "+err.Error())
			return
		}
	}
	rc := r.receive(block, cid.DagCBOR)
	if rc.loadErr != "" {
		if sc.Mut != "wirebit" {
			fail("load", "BytesToAdvertisement rejects the block the encoder wrote: "+rc.loadErr)
		}
		// a flipped bit may break nothing but the metadata: still a case for the model
	}
	// Coq case
	var pipeline string
	switch {
	case rc.loadErr != "":
		pipeline = "(Err 0)"
	case rc.verdict.kind != "ok":
		pipeline = coqRes(rc.verdict.kind, "")
	case rc.md.out != "ok":
		pipeline = coqRes(rc.md.out, "")
	default:
		pipeline = fmt.Sprintf("(Ok (%d, %s))", rc.verdict.signer, coqProtos(rc.md.protos))
	}
	if rc.loadErr == "" {
		term := fmt.Sprintf("(ADC (WC %s %s %s %s %s) %s)", coqHashTableOf(&rc.ad), coqIDTable(&rc.ad), coqEnvTable(&rc.ad), cb(block),
			coqRes(rc.verdict.kind, fmt.Sprint(rc.verdict.signer)), pipeline)
		c.Case("adwrap", term, Replay{Kind: "adwrap", Ad: &sc})
		c.Nontrivial("w" + sc.sig())
	} else {
		term := fmt.Sprintf("(ADC (WC [] [] [] %s (Err 0)) (Err 0))", cb(block))
		c.Case("adwrap", term, Replay{Kind: "adwrap", Ad: &sc})
	}
	c.Count("adwrap-pipeline:" + map[bool]string{true: "accepted", false: "rejected"}[pipeline[1] == 'O'])

	// ---- direct oracles ----
	if rc.loadErr != "" {
		return
	}
	if rc.verdict.kind == "panic" || rc.md.out == "panic" {
		fail("panic", "the receiver's pipeline panicked: "+rc.verdict.msg+" "+rc.md.msg)
		return
	}
	untouched := sc.Mut == "" || !changed
	if untouched || sc.Resign {
		// (a) signed as it stands: the signature verifies, with the signing key
		if rc.verdict.kind != "ok" || rc.verdict.signer != sc.Signer {
			fail("verify", fmt.Sprintf("an advertisement signed with key %d and carried over DAG-CBOR verifies as %s %d %s", sc.Signer, rc.verdict.kind, rc.verdict.signer, rc.verdict.msg))
		}
		if !bytes.Equal(rc.ad.Metadata, ad.Metadata) {
			fail("carry", fmt.Sprintf("the metadata bytes changed on the DAG-CBOR round trip: %x -> %x", ad.Metadata, rc.ad.Metadata))
		}
	}
	if untouched {
		want := make([]OProto, 0, len(sc.Specs))
		for _, p := range newMetaXSorted(sc.Specs) {
			want = append(want, observe(p))
		}
		switch {
		case rc.md.out != "ok":
			fail("decode", "the metadata of a received, verified advertisement does not decode: "+rc.md.msg)
		case !oprotosEqual(rc.md.protos, want):
			fail("decode", fmt.Sprintf("the metadata decoded from the received advertisement is [%s], the original [%s]", kinds(rc.md.protos), kinds(want)))
		case !bytes.Equal(rc.md.re, mdBytes):
			fail("decode", "the metadata decoded from the received advertisement re-encodes differently")
		}
		// Equal / Get on a value decoded in this process: the worker has accepted these bytes
		if rc.md.out == "ok" {
			d := metadata.Default.New()
			orig := newMetaX(sc.Specs)
			if err := d.UnmarshalBinary(append([]byte{}, rc.ad.Metadata...)); err != nil || !orig.Equal(d) || !d.Equal(orig) {
				fail("decode", "the metadata decoded from the received advertisement is not Equal to the original")
			}
			for _, p := range want {
				if g := d.Get(multicodec.Code(idOf(p))); g == nil || uint64(g.ID()) != idOf(p) {
					fail("decode", fmt.Sprintf("Get(%#x) on the metadata of the received advertisement", idOf(p)))
				}
			}
		}
		if (rc.ad.Validate() == nil) != (len(rc.ad.Metadata) <= schema.MaxMetadataLen) {
			fail("validate", "Validate does not decide by MaxMetadataLen")
		}
		// the same over DAG-JSON
		if bj, err := storeAd(ad, cid.DagJSON); err != nil {
			fail("store", "dag-json store failed: "+err.Error())
		} else if rj := r.receive(bj, cid.DagJSON); rj.loadErr != "" || rj.verdict.kind != "ok" || rj.verdict.signer != sc.Signer || !bytes.Equal(rj.ad.Metadata, mdBytes) {
			fail("json", fmt.Sprintf("over DAG-JSON: load %q, verdict %s %d, metadata %x", rj.loadErr, rj.verdict.kind, rj.verdict.signer, rj.ad.Metadata))
		}
	}
	if changed && !sc.Resign {
		// (b) the signature covers the metadata bytes
		if rc.verdict.kind == "ok" {
			fail("tamper-accepted", fmt.Sprintf("metadata bytes changed after signing (%s: %x -> %x) and VerifySignature still accepts (signer %d); C11 reads the new bytes as: %s [%s]",
				sc.Mut, mdBytes, rc.ad.Metadata, rc.verdict.signer, rc.md.out, kinds(rc.md.protos)))
		}
		if bytes.Equal(block, block0) {
			fail("tamper-same-block", "an advertisement with changed metadata bytes has the same DAG-CBOR block")
		}
		if sc.Mut != "wirebit" {
			if bj, err := storeAd(ad, cid.DagJSON); err == nil {
				if rj := r.receive(bj, cid.DagJSON); rj.loadErr == "" && rj.verdict.kind == "ok" {
					fail("tamper-accepted", "over DAG-JSON the changed metadata bytes are accepted by VerifySignature")
				}
			}
		}
	}
}

// generation -----------------------------------------------------------------------

func (r *runner) adwrapAll(al []PSpec) {
	c := r.c
	rg := c.Rng.Fork("adwrap")
	encOf := func(specs []PSpec) []byte {
		var out []byte
		for _, p := range newMetaXSorted(specs) {
			out = append(out, mustEnc(p)...)
		}
		return out
	}
	sets := [][]PSpec{{al[0]}, {al[1]}, {al[2]}, {al[5]}, {al[7]}, {al[0], al[1]}, {al[1], al[0], al[3]}, {al[6], al[0], al[10]},
		{al[0], al[2], al[9], al[1], al[11]}, {{K: "httpv1"}, al[0]}, {al[0], al[0]}, {al[8], al[4]},
		{unk(0x0302, seqBytes(900, 3))}, {unk(0x0302, seqBytes(1024, 5)), al[1]}} // the last one is longer than MaxMetadataLen
	for i, n := 0, c.Pick(10, 150); i < n; i++ {
		sp := make([]PSpec, 1+rg.Intn(5))
		for q := range sp {
			sp[q] = randomSpec(rg, al)
		}
		sets = append(sets, sp)
	}
	for i, specs := range sets {
		base := AdScenario{Specs: specs, Signer: i % 3, Prov: (i / 3) % 3, Prev: i%2 == 1, IsRm: i%5 == 4}
		r.doAdwrap(base)
		m := encOf(specs)
		mut := func(name string, nm []byte) {
			sc := base
			sc.Mut, sc.MutHex = name, hex.EncodeToString(nm)
			r.doAdwrap(sc)
		}
		// other protocols
		mut("replace-other-metadata", encOf([]PSpec{al[(i+1)%len(al)], al[(i+4)%len(al)]}))
		mut("replace-append-protocol", append(append([]byte{}, m...), mustEnc(unk(1<<62+9, []byte{1}).build())...))
		// the same protocols spelled differently
		if sorted := newMetaXSorted(specs); len(sorted) >= 2 {
			var rev []byte
			for q := len(sorted) - 1; q >= 0; q-- {
				rev = append(rev, mustEnc(sorted[q])...)
			}
			mut("respell-reversed-order", rev)
		}
		for _, v := range respelledEncodings(specs) {
			if rg.Intn(6) == 0 || i < 4 {
				mut("respell-"+v.kind, v.b)
			}
		}
		// damage
		if len(m) > 0 {
			fl := append([]byte{}, m...)
			fl[rg.Intn(len(fl))] ^= 1 << rg.Intn(8)
			mut("bitflip", fl)
			mut("truncated", m[:len(m)-1])
			sc := base
			sc.Mut, sc.WireBit = "wirebit", rg.Intn(len(m)*8)
			r.doAdwrap(sc)
		}
		mut("empty", nil)
		mut("garbage", rg.Bytes(1+rg.Intn(40)))
		// control: signed AFTER the change -- the signature is fine, C11 decides alone
		for _, ctl := range [][]byte{m[:len(m)/2], append(append([]byte{}, m...), 0x80)} {
			sc := base
			sc.Mut, sc.MutHex, sc.Resign = "replace-then-sign", hex.EncodeToString(ctl), true
			r.doAdwrap(sc)
		}
	}
}
