package main

// "Any construction order" as the property means it: every way the exported API lets a
// Metadata value come to hold its protocols, not only the argument order of New.
//
//   new            ctx.New(protocols in the given order)
//   swap           ... then Swap(i, j) (Metadata is a sort.Interface) for a list of pairs
//   reverse        ... then sort.Sort(sort.Reverse(&m))
//   argslice       ps := []Protocol{..}; m := ctx.New(ps...); then the CALLER reorders ps
//                  (New keeps the slice it was given)
//   failed-decode  m := ctx.New(); m.UnmarshalBinary(the encodings concatenated in the given
//                  order) -- rejected when that order is not ascending, but the value keeps
//                  the protocols it appended -- then the value is used again
//   failed-decode-truncated  the same with the last protocol cut short
//
// in the Default context and in a context derived with WithProtocol.  Whatever order the
// value HOLDS its protocols in at that moment, MarshalBinary must be the concatenation of
// their encodings in ascending ID order, decode back to metadata Equal to New(the held
// protocols), and leave the value sorted.  The Coq case passes the protocols in the order
// the Go value holds them when MarshalBinary is called (read by reflection), so the
// model's `marshal` (which sorts) is compared with what the real MarshalBinary wrote.
// Everything runs inside the worker.

import (
	"bytes"
	"encoding/hex"
	"encoding/json"
	"fmt"
	"sort"
	"strings"

	"github.com/ipni/go-libipni/metadata"
	"github.com/multiformats/go-multicodec"

	"verif/harness/vlib"
)

type HeldScenario struct {
	Specs   []PSpec  `json:"specs"`
	Route   string   `json:"route"`
	Swaps   [][2]int `json:"swaps,omitempty"`
	Derived bool     `json:"derived,omitempty"`
}

func (s HeldScenario) sig() string {
	sw := ""
	for _, p := range s.Swaps {
		sw += fmt.Sprintf("(%d,%d)", p[0], p[1])
	}
	ctx := ""
	if s.Derived {
		ctx = ":derived-context"
	}
	return fmt.Sprintf("%s%s%s:%s", s.Route, sw, ctx, specSig(s.Specs))
}

type heldReply struct {
	Held       []wProto `json:"held"`        // protocols in the order held when MarshalBinary is called
	PrepErr    string   `json:"prep_err"`    // error of the preparing UnmarshalBinary (failed-decode routes)
	MarshalOut string   `json:"marshal_out"` // ok | err
	MarshalMsg string   `json:"marshal_msg"`
	Hex        string   `json:"hex"`
	After      []uint64 `json:"after"`   // Protocols() after MarshalBinary
	DecOut     string   `json:"dec_out"` // UnmarshalBinary(marshalled bytes) in a fresh value of the same context
	DecMsg     string   `json:"dec_msg"`
	Dec        []wProto `json:"dec"`
	EqualRef   bool     `json:"equal_ref"` // decoded.Equal(ctx.New(held protocols)) both ways
	Again      string   `json:"again"`     // second MarshalBinary of the same value
}

func toW(o OProto) wProto {
	return wProto{K: o.K, Cid: hex.EncodeToString(o.Cid), VD: o.VD, FR: o.FR, Code: o.Code, Raw: hex.EncodeToString(o.Raw)}
}

func fromW(p wProto) OProto {
	o := OProto{K: p.K, Cid: mustHex(p.Cid), VD: p.VD, FR: p.FR, Code: p.Code, Raw: mustHex(p.Raw)}
	if len(o.Cid) == 0 {
		o.Cid = nil
	}
	if len(o.Raw) == 0 {
		o.Raw = nil
	}
	return o
}

func heldServe(line string) wReply {
	var sc HeldScenario
	if err := json.Unmarshal([]byte(line), &sc); err != nil {
		return wReply{Out: "panic", Msg: "harness: bad held request"}
	}
	var rep heldReply
	r := guarded(func() error {
		ctx := metadata.Default
		if sc.Derived {
			ctx = metadata.Default.WithProtocol(multicodec.Code(0x0930), func() metadata.Protocol { return &customProto{code: 0x0930} })
		}
		ps := make([]metadata.Protocol, len(sc.Specs))
		for i, s := range sc.Specs {
			ps[i] = s.build()
		}
		var m metadata.Metadata
		inRange := func(p [2]int, n int) bool { return p[0] >= 0 && p[1] >= 0 && p[0] < n && p[1] < n }
		switch sc.Route {
		case "new":
			m = ctx.New(append([]metadata.Protocol{}, ps...)...)
		case "swap":
			m = ctx.New(append([]metadata.Protocol{}, ps...)...)
			for _, p := range sc.Swaps {
				if inRange(p, m.Len()) {
					m.Swap(p[0], p[1])
				}
			}
		case "reverse":
			m = ctx.New(append([]metadata.Protocol{}, ps...)...)
			sort.Sort(sort.Reverse(&m))
		case "argslice":
			m = ctx.New(ps...)
			for _, p := range sc.Swaps {
				if inRange(p, len(ps)) {
					ps[p[0]], ps[p[1]] = ps[p[1]], ps[p[0]]
				}
			}
		case "failed-decode", "failed-decode-truncated":
			var in []byte
			for _, p := range ps {
				in = append(in, mustEnc(p)...)
			}
			if sc.Route == "failed-decode-truncated" && len(in) > 0 {
				in = in[:len(in)-1]
			}
			m = ctx.New()
			if err := m.UnmarshalBinary(in); err != nil {
				rep.PrepErr = err.Error()
			}
		default:
			panic("harness: unknown held route " + sc.Route)
		}
		held := protocolsOf(&m)
		ref := make([]metadata.Protocol, len(held))
		for i, p := range held {
			rep.Held = append(rep.Held, toW(observe(p)))
			ref[i] = p
		}
		b, err := m.MarshalBinary()
		if err != nil {
			rep.MarshalOut, rep.MarshalMsg = "err", err.Error()
			return nil
		}
		rep.MarshalOut, rep.Hex = "ok", hex.EncodeToString(b)
		for _, c := range m.Protocols() {
			rep.After = append(rep.After, uint64(c))
		}
		b2, err := m.MarshalBinary()
		rep.Again = hex.EncodeToString(b2)
		if err != nil {
			rep.Again = "error: " + err.Error()
		}
		d := ctx.New()
		if err := d.UnmarshalBinary(append([]byte{}, b...)); err != nil {
			rep.DecOut, rep.DecMsg = "err", err.Error()
			return nil
		}
		rep.DecOut = "ok"
		for _, p := range protocolsOf(&d) {
			rep.Dec = append(rep.Dec, toW(observe(p)))
		}
		refm := ctx.New(ref...)
		rep.EqualRef = refm.Equal(d) && d.Equal(refm)
		return nil
	})
	if r.out != "ok" {
		return wReply{Out: "panic", Msg: r.msg}
	}
	js, _ := json.Marshal(rep)
	return wReply{Out: "ok", Msg: string(js)}
}

func (r *runner) heldOnce(sc HeldScenario) (heldReply, string) {
	js, _ := json.Marshal(sc)
	o := r.w.request("H" + string(js))
	if o.out != "ok" {
		return heldReply{}, "the history panicked / aborted / hung: " + o.msg
	}
	var rep heldReply
	if err := json.Unmarshal([]byte(o.msg), &rep); err != nil {
		panic("harness: bad held reply")
	}
	return rep, ""
}

// heldOracle: class and description of the first violated clause.
func heldOracle(rep heldReply) (string, string) {
	held := make([]OProto, len(rep.Held))
	for i, p := range rep.Held {
		held[i] = fromW(p)
	}
	if rep.MarshalOut != "ok" {
		return "marshal-err", "MarshalBinary failed: " + rep.MarshalMsg
	}
	// the concatenation of the held protocols' encodings in ascending ID order
	sorted := append([]OProto{}, held...)
	sort.SliceStable(sorted, func(i, j int) bool { return idOf(sorted[i]) < idOf(sorted[j]) })
	var want []byte
	for _, p := range sorted {
		want = append(want, oprotoEnc(p)...)
	}
	got := mustHex(rep.Hex)
	if !bytes.Equal(got, want) {
		// any order among equal IDs satisfies the property
		if !sameUpToEqualIDs(got, sorted) {
			return "not-sorted-concat", fmt.Sprintf("the value held [%s]; MarshalBinary = %x, the concatenation in ascending ID order is %x", kindsIDs(held), got, want)
		}
	}
	if rep.Again != rep.Hex {
		return "marshal-unstable", fmt.Sprintf("a second MarshalBinary of the same value gives %s, the first gave %s", rep.Again, rep.Hex)
	}
	for i := 1; i < len(rep.After); i++ {
		if rep.After[i-1] > rep.After[i] {
			return "not-sorted-after-marshal", fmt.Sprintf("after MarshalBinary, Protocols() = %x", rep.After)
		}
	}
	if len(held) == 0 {
		return "", ""
	}
	if rep.DecOut != "ok" {
		return "own-encoding-rejected", fmt.Sprintf("the value held [%s]; UnmarshalBinary rejects what MarshalBinary wrote (%x): %s", kindsIDs(held), got, rep.DecMsg)
	}
	dec := make([]OProto, len(rep.Dec))
	for i, p := range rep.Dec {
		dec[i] = fromW(p)
	}
	if len(dec) != len(held) || !rep.EqualRef {
		return "roundtrip-differs", fmt.Sprintf("the value held [%s]; its encoding decodes to [%s], not Equal to New(the same protocols)", kindsIDs(held), kindsIDs(dec))
	}
	return "", ""
}

func oprotoEnc(p OProto) []byte {
	switch p.K {
	case "bitswap":
		return []byte{0x80, 0x12}
	case "gateway":
		return []byte{0xa0, 0x12, 0x00}
	case "gs":
		return cat([]byte{0x90, 0x12}, gsPayload(p.Cid, p.VD, p.FR))
	}
	return p.Raw
}

func sameUpToEqualIDs(got []byte, sorted []OProto) bool {
	// try to consume `got` by picking, at each step, any unused protocol of the smallest
	// remaining ID whose encoding is a prefix
	used := make([]bool, len(sorted))
	for n := 0; n < len(sorted); n++ {
		minID, found := uint64(0), false
		for i, p := range sorted {
			if !used[i] && (!found || idOf(p) < minID) {
				minID, found = idOf(p), true
			}
		}
		ok := false
		for i, p := range sorted {
			if !used[i] && idOf(p) == minID && bytes.HasPrefix(got, oprotoEnc(p)) {
				used[i], ok = true, true
				got = got[len(oprotoEnc(p)):]
				break
			}
		}
		if !ok {
			return false
		}
	}
	return len(got) == 0
}

func kindsIDs(ps []OProto) string {
	k := make([]string, len(ps))
	for i, p := range ps {
		k[i] = fmt.Sprintf("%s#%x", p.K, idOf(p))
	}
	return strings.Join(k, ",")
}

func (r *runner) doHeld(sc HeldScenario) {
	c := r.c
	if r.w.hangs > 25 {
		return
	}
	rep, perr := r.heldOnce(sc)
	c.Eval()
	c.Count("held:" + sc.Route + map[bool]string{true: ":derived", false: ""}[sc.Derived])
	rp := Replay{Kind: "held", Held: &sc}
	if perr != "" {
		c.Count("fail:held:panic")
		if r.perClass["held:panic"] < 2 {
			r.perClass["held:panic"]++
			r.record("held:panic", "held:panic:"+sc.sig(), perr, rp)
		}
		return
	}
	held := make([]OProto, len(rep.Held))
	sortedAlready := true
	for i, p := range rep.Held {
		held[i] = fromW(p)
		if i > 0 && idOf(held[i-1]) > idOf(held[i]) {
			sortedAlready = false
		}
	}
	if !sortedAlready {
		c.Count("held-out-of-order-at-marshal")
		c.Nontrivial("h" + sc.sig())
	}
	if rep.PrepErr != "" {
		c.Count("held-after-failed-decode")
	}
	dec := make([]OProto, len(rep.Dec))
	for i, p := range rep.Dec {
		dec[i] = fromW(p)
	}
	after := make([]string, len(rep.After))
	for i, x := range rep.After {
		after[i] = ci(x)
	}
	// Coq: marshal(held order) must be what MarshalBinary wrote, etc. (an empty value
	// marshals to nothing and is not decodable: the model says the same)
	c.Case("held", fmt.Sprintf("(HeldCaseI %s %s %s %s)", coqProtos(held), coqObs(rep.MarshalOut, cb(mustHex(rep.Hex))),
		coqObs(map[string]string{"ok": "ok", "err": "err", "": "err"}[rep.DecOut], coqProtos(dec)), vlib.CoqList(after)), rp)
	cl, d := heldOracle(rep)
	if cl == "" {
		return
	}
	c.Count("fail:held:" + cl)
	key := "held:" + cl + ":" + sc.Route
	if r.perClass[key] >= 1 || r.perClass["held:"+cl] >= 4 {
		return
	}
	r.perClass[key]++
	r.perClass["held:"+cl]++
	// shrink: fewer protocols, simpler protocols, fewer swaps
	same := func(cand HeldScenario) bool {
		rp2, e := r.heldOnce(cand)
		if e != "" {
			return false
		}
		c2, d2 := heldOracle(rp2)
		if c2 == cl {
			d = d2
			return true
		}
		return false
	}
	for changed := true; changed; {
		changed = false
		for i := 0; i < len(sc.Specs) && !changed && len(sc.Specs) > 1; i++ {
			cand := sc
			cand.Specs = append(append([]PSpec{}, sc.Specs[:i]...), sc.Specs[i+1:]...)
			cand.Swaps = nil
			for _, p := range sc.Swaps {
				q := p
				for k := 0; k < 2; k++ {
					if q[k] > i {
						q[k]--
					} else if q[k] == i {
						q[k] = -1
					}
				}
				if q[0] >= 0 && q[1] >= 0 {
					cand.Swaps = append(cand.Swaps, q)
				}
			}
			if same(cand) {
				sc, changed = cand, true
			}
		}
		for i := 0; i < len(sc.Swaps) && !changed; i++ {
			cand := sc
			cand.Swaps = append(append([][2]int{}, sc.Swaps[:i]...), sc.Swaps[i+1:]...)
			if same(cand) {
				sc, changed = cand, true
			}
		}
		for i := 0; i < len(sc.Specs) && !changed; i++ {
			for _, s := range simpler(sc.Specs[i]) {
				cand := sc
				cand.Specs = append([]PSpec{}, sc.Specs...)
				cand.Specs[i] = s
				if same(cand) {
					sc, changed = cand, true
					break
				}
			}
		}
	}
	final := sc
	r.record("held:"+cl, "held:"+cl+":"+final.sig(), d, Replay{Kind: "held", Held: &final, What: d})
}

func (r *runner) heldAll(al []PSpec) {
	c := r.c
	rg := c.Rng.Fork("held")
	for _, derived := range []bool{false, true} {
		// every ordered pair and (Default context) triple of the alphabet's distinct-ID part,
		// through every route
		base := []PSpec{al[0], al[1], al[2], al[7], al[9], al[11]}
		var seqs [][]PSpec
		for i := range base {
			for j := range base {
				seqs = append(seqs, []PSpec{base[i], base[j]})
			}
		}
		if !derived {
			sequences(4, 3, func(w []int) { seqs = append(seqs, []PSpec{base[w[0]], base[w[1]], base[w[2]]}) })
		}
		for i, n := 0, c.Pick(20, 400); i < n; i++ {
			sp := make([]PSpec, 2+rg.Intn(5))
			for q := range sp {
				sp[q] = randomSpec(rg, al)
			}
			seqs = append(seqs, sp)
		}
		for _, specs := range seqs {
			n := len(specs)
			r.doHeld(HeldScenario{Specs: specs, Route: "new", Derived: derived})
			r.doHeld(HeldScenario{Specs: specs, Route: "reverse", Derived: derived})
			r.doHeld(HeldScenario{Specs: specs, Route: "failed-decode", Derived: derived})
			r.doHeld(HeldScenario{Specs: specs, Route: "failed-decode-truncated", Derived: derived})
			// all single swaps for short values, random swap sequences otherwise
			var swapSets [][][2]int
			if n <= 3 {
				for a := 0; a < n; a++ {
					for b := a + 1; b < n; b++ {
						swapSets = append(swapSets, [][2]int{{a, b}})
					}
				}
			}
			for k := 0; k < 2; k++ {
				var s [][2]int
				for q, m := 0, 1+rg.Intn(3); q < m; q++ {
					s = append(s, [2]int{rg.Intn(n), rg.Intn(n)})
				}
				swapSets = append(swapSets, s)
			}
			for _, s := range swapSets {
				r.doHeld(HeldScenario{Specs: specs, Route: "swap", Swaps: s, Derived: derived})
				r.doHeld(HeldScenario{Specs: specs, Route: "argslice", Swaps: s, Derived: derived})
			}
		}
	}
}
