package main

// Exported constructors of Protocol values (metadata.HTTPV1 is the only exported function
// that returns one; the other protocols are struct literals) used the two ways a caller can:
// as values handed to New, and as factories registered with WithProtocol.  Oracle only
// (values of the functional Coq model cannot be shared):
//
//   - constructor results are independent: decoding into / overwriting one HTTPV1() value
//     leaves every other HTTPV1() value, earlier or later, encoding to e0 03 00;
//   - kept-results histories with the constructor as factory: decode A, keep it; decode B;
//     A still holds its protocols and re-encodes to its bytes; input that carries the
//     protocol twice decodes to two different values and re-encodes to itself.
//
// Runs inside the worker.

import (
	"bytes"
	"fmt"

	"github.com/ipni/go-libipni/metadata"
	"github.com/multiformats/go-multicodec"
)

type namedCtor struct {
	name string
	code multicodec.Code
	f    func() metadata.Protocol
}

func exportedCtors() []namedCtor {
	return []namedCtor{
		{"HTTPV1", multicodec.Http, metadata.HTTPV1},
		// the struct-literal protocols, for comparison
		{"&Bitswap{}", multicodec.TransportBitswap, func() metadata.Protocol { return &metadata.Bitswap{} }},
		{"&IpfsGatewayHttp{}", multicodec.TransportIpfsGatewayHttp, func() metadata.Protocol { return &metadata.IpfsGatewayHttp{} }},
	}
}

// part 1: constructor results are independent; part 2: the constructor as a factory.
func ctorBattery(part int) (class, desc string) {
	for _, ct := range exportedCtors() {
		want := mustEnc(ct.f())
		enc := func(p metadata.Protocol) []byte { b, _ := p.MarshalBinary(); return append([]byte{}, b...) }
		check := func(when string, ps ...metadata.Protocol) (string, string) {
			for i, p := range ps {
				if p.ID() != ct.code || !bytes.Equal(enc(p), want) {
					return "constructor-results-shared", fmt.Sprintf("%s: %s value #%d of %s() has ID %#x and encodes to %x, not %x", when, map[bool]string{true: "an earlier", false: "a fresh"}[i < len(ps)-1], i, ct.name, uint64(p.ID()), enc(p), want)
				}
			}
			m := metadata.Default.New(ct.f(), &metadata.Bitswap{})
			b, err := m.MarshalBinary()
			ref := metadata.Default.New(&metadata.Bitswap{})
			rb, _ := ref.MarshalBinary()
			var exp []byte
			if ct.code < multicodec.TransportBitswap {
				exp = cat(want, rb)
			} else if ct.code == multicodec.TransportBitswap {
				exp = cat(want, rb)
			} else {
				exp = cat(rb, want)
			}
			if err != nil || !bytes.Equal(b, exp) {
				return "constructor-results-shared", fmt.Sprintf("%s: Default.New(%s(), Bitswap) marshals to %x, not %x", when, ct.name, b, exp)
			}
			return "", ""
		}
		a, b := ct.f(), ct.f()
		if c, d := check("freshly constructed", a, b); c != "" {
			return c, d
		}
		if part == 1 {
			// decode something else into one of them (Unknown takes any code; the fixed ones
			// reject it and must stay what they are)
			other := unknownRaw(0x0302, []byte("xyz"))
			_ = a.UnmarshalBinary(append([]byte{}, other...))
			if c, d := check(fmt.Sprintf("after UnmarshalBinary(%x) into one %s() value", other, ct.name), b, ct.f()); c != "" {
				return c, d
			}
			a2 := ct.f()
			_, _ = a2.ReadFrom(bytes.NewReader(unknownRaw(0x12, []byte{1, 2, 3, 4, 5})))
			if c, d := check("after ReadFrom into one "+ct.name+"() value", b, ct.f()); c != "" {
				return c, d
			}
			// the caller overwrites the fields of a value it was given
			if u, ok := ct.f().(*metadata.Unknown); ok {
				for i := range u.Payload {
					u.Payload[i] ^= 0xff
				}
				u.Code = 0x7777
				if c, d := check("after overwriting the fields of one "+ct.name+"() value", b, ct.f()); c != "" {
					return c, d
				}
			}
			continue
		}

		// ---- the constructor as factory ----
		if ct.name != "HTTPV1" {
			continue // the built-in codes have built-in factories (alias axis covers them)
		}
		ctx := metadata.Default.WithProtocol(ct.code, ct.f)
		inA := cat(unknownRaw(uint64(ct.code), []byte("one")), []byte{0x80, 0x12})
		inB := cat(unknownRaw(uint64(ct.code), []byte("two!")), []byte{0xa0, 0x12, 0x00})
		inAB := cat(unknownRaw(uint64(ct.code), []byte("one")), unknownRaw(uint64(ct.code), []byte("two!")))
		type kept struct {
			in   []byte
			m    metadata.Metadata
			snap []OProto
			got  metadata.Protocol
		}
		var keep []kept
		for round, in := range [][]byte{inA, inB, inAB, inA} {
			d := ctx.New()
			if err := d.UnmarshalBinary(append([]byte{}, in...)); err != nil {
				return "factory-decode", fmt.Sprintf("with %s registered as factory, %x does not decode: %v", ct.name, in, err)
			}
			k := kept{in: in, m: d, got: d.Get(ct.code)}
			for _, p := range protocolsOf(&k.m) {
				k.snap = append(k.snap, observe(p))
			}
			keep = append(keep, k)
			for i := range keep {
				kk := &keep[i]
				var now []OProto
				for _, p := range protocolsOf(&kk.m) {
					now = append(now, observe(p))
				}
				re, err := kk.m.MarshalBinary()
				when := fmt.Sprintf("with %s registered as factory, after decoding input #%d (%x)", ct.name, round, in)
				if !oprotosEqual(now, kk.snap) {
					return "factory-results-shared", fmt.Sprintf("%s the metadata decoded earlier from %x changed", when, kk.in)
				}
				if err != nil || !bytes.Equal(re, kk.in) {
					return "factory-results-shared", fmt.Sprintf("%s the metadata decoded from %x re-encodes to %x", when, kk.in, re)
				}
				if kk.got == nil || !observe(kk.got).equal(kk.snap[0]) {
					return "factory-results-shared", fmt.Sprintf("%s the protocol Get returned for the metadata decoded from %x changed", when, kk.in)
				}
			}
		}
		// and a fresh constructor value is still what it should be
		if c, d := check("after using "+ct.name+" as a WithProtocol factory", ct.f()); c != "" {
			return c, d
		}
	}
	return "", ""
}

func ctorServe(part int) wReply {
	var class, desc string
	r := guarded(func() error { class, desc = ctorBattery(part); return nil })
	if r.out != "ok" {
		return wReply{Out: "panic", Msg: r.msg}
	}
	if class != "" {
		return wReply{Out: "err", Msg: class + "\x00" + desc}
	}
	return wReply{Out: "ok"}
}

func (r *runner) doCtor() {
	c := r.c
	// the two parts in fresh workers: a failing part may leave shared state disturbed
	for part := 1; part <= 2; part++ {
		r.w.stop()
		o := r.w.request(fmt.Sprintf("C%d", part))
		c.Eval()
		c.Count("ctor:constructors-as-values-and-factories")
		switch o.out {
		case "ok":
		case "panic":
			r.record("ctor:panic", "ctor:panic", "constructor battery panicked: "+o.msg, Replay{Kind: "ctor"})
		default:
			i := bytes.IndexByte([]byte(o.msg), 0)
			cl, d := o.msg, o.msg
			if i >= 0 {
				cl, d = o.msg[:i], o.msg[i+1:]
			}
			c.Count("fail:ctor:" + cl)
			r.record("ctor:"+cl, "ctor:"+cl+":HTTPV1", d, Replay{Kind: "ctor", What: d})
		}
		r.w.stop() // leave no disturbed package state behind for the following requests
	}
}
