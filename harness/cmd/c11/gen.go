package main

// Case generators: the protocol alphabet, the multiset enumeration, and the
// malformed decoder stream.

import (
	"encoding/hex"

	"github.com/multiformats/go-varint"

	"verif/harness/vlib"
)

func seqBytes(n int, start byte) []byte {
	b := make([]byte, n)
	for i := range b {
		b[i] = start + byte(i*7)
	}
	return b
}

// piece CIDs (raw bytes)
var (
	cidV1Raw    = append([]byte{0x01, 0x55, 0x12, 0x20}, seqBytes(32, 0x11)...)                   // CIDv1 raw sha2-256
	cidV0       = append([]byte{0x12, 0x20}, seqBytes(32, 0x5a)...)                               // CIDv0
	cidCommP    = append([]byte{0x01, 0x81, 0xe2, 0x03, 0x92, 0x20, 0x20}, seqBytes(32, 0xc3)...) // fil-commitment-unsealed / sha2-256-trunc254-padded
	cidIdent3   = []byte{0x01, 0x55, 0x00, 0x03, 0xaa, 0xbb, 0xcc}                                // identity multihash, 3 bytes
	cidIdent0   = []byte{0x01, 0x55, 0x00, 0x00}                                                  // identity multihash, empty digest
	cidIdent18  = append([]byte{0x01, 0x55, 0x00, 18}, seqBytes(18, 1)...)                        // 22 bytes -> bytes head 0x57
	cidIdent19  = append([]byte{0x01, 0x55, 0x00, 19}, seqBytes(19, 2)...)                        // 23 bytes -> head 0x58 0x18
	cidIdent250 = append([]byte{0x01, 0x55, 0x00, 0xfa, 0x01}, seqBytes(250, 3)...)               // 255 bytes -> head 0x59 0x0100
	cidIdent249 = append([]byte{0x01, 0x55, 0x00, 0xf9, 0x01}, seqBytes(249, 4)...)               // 254 bytes -> head 0x58 0xff
)

func gs(c []byte, vd, fr bool) PSpec {
	return PSpec{K: "gs", Cid: hex.EncodeToString(c), VD: vd, FR: fr}
}
func unk(code uint64, body []byte) PSpec {
	return PSpec{K: "unknown", Code: code, Body: hex.EncodeToString(body)}
}

// the alphabet the multisets are drawn from (12 symbols): both fixed protocols,
// graphsync-filecoin with four piece CIDs and all four flag settings, unknown codes
// below, between and above the known ones.
func alphabet() []PSpec {
	return []PSpec{
		{K: "bitswap"},
		{K: "gateway"},
		gs(cidV1Raw, false, false),
		gs(cidV0, true, false),
		gs(cidCommP, false, true),
		gs(cidIdent3, true, true),
		unk(0x12, nil),                   // below, one-byte code, empty payload
		unk(0x0302, []byte("hello")),     // below (the code the repository's test uses)
		unk(0x0905, seqBytes(127, 9)),    // between bitswap and graphsync, longest one-byte size
		unk(0x0915, seqBytes(128, 0x40)), // between graphsync and gateway, shortest two-byte size
		unk(0x0921, seqBytes(40, 0x80)),  // just above the gateway
		unk(1<<62+5, []byte{0xff}),       // nine-byte code
	}
}

// sequences enumerates all words of length k over n symbols.
func sequences(n, k int, f func([]int)) {
	w := make([]int, k)
	var rec func(i int)
	rec = func(i int) {
		if i == k {
			f(append([]int{}, w...))
			return
		}
		for s := 0; s < n; s++ {
			w[i] = s
			rec(i + 1)
		}
	}
	rec(0)
}

func pickSpecs(al []PSpec, w []int) []PSpec {
	s := make([]PSpec, len(w))
	for i, x := range w {
		s[i] = al[x]
	}
	return s
}

func randomSpec(r *vlib.Rand, al []PSpec) PSpec {
	switch r.Intn(10) {
	case 0, 1, 2, 3, 4, 5:
		return al[r.Intn(len(al))]
	case 6:
		cids := [][]byte{cidV1Raw, cidV0, cidCommP, cidIdent3, cidIdent0, cidIdent18, cidIdent19, cidIdent249, cidIdent250}
		return gs(cids[r.Intn(len(cids))], r.Bool(), r.Bool())
	default:
		codes := []uint64{0, 1, 0x7f, 0x80, 0x0302, 0x08ff, 0x0901, 0x090f, 0x0911, 0x091f, 0x0921, 0x3fff, 0x4000, 1 << 32, 1<<63 - 1}
		return unk(codes[r.Intn(len(codes))], r.Bytes(r.Intn(301)))
	}
}

// ---------------------------------------------------------------------------
// malformed decoder inputs

type decInput struct {
	kind string
	b    []byte
}

func cat(parts ...[]byte) []byte {
	var o []byte
	for _, p := range parts {
		o = append(o, p...)
	}
	return o
}

func uv(x uint64) []byte { return varint.ToUvarint(x) }

func cborKey(s string) []byte { return append([]byte{0x60 + byte(len(s))}, s...) }

func cborLink(c []byte) []byte {
	n := len(c) + 1
	var h []byte
	switch {
	case n < 24:
		h = []byte{0x40 + byte(n)}
	case n < 256:
		h = []byte{0x58, byte(n)}
	default:
		h = []byte{0x59, byte(n >> 8), byte(n)}
	}
	return cat([]byte{0xd8, 0x2a}, h, []byte{0}, c)
}

func cborBool(b bool) []byte {
	if b {
		return []byte{0xf5}
	}
	return []byte{0xf4}
}

// graphsync-filecoin encodings that are NOT what the encoder writes, next to some
// that are.  Every one of them is prefixed with the protocol ID by the caller.
func gsVariants() []decInput {
	c := cidV1Raw
	kP, kV, kF := cborKey("PieceCID"), cborKey("VerifiedDeal"), cborKey("FastRetrieval")
	eP, eV, eF := cat(kP, cborLink(c)), cat(kV, cborBool(true)), cat(kF, cborBool(false))
	m3 := []byte{0xa3}
	v := []decInput{
		{"gs:canonical", cat(m3, eP, eV, eF)},
		{"gs:order-PFV", cat(m3, eP, eF, eV)},
		{"gs:order-VPF", cat(m3, eV, eP, eF)},
		{"gs:order-VFP", cat(m3, eV, eF, eP)},
		{"gs:order-FPV", cat(m3, eF, eP, eV)},
		{"gs:order-FVP", cat(m3, eF, eV, eP)},
		{"gs:map-head-b803", cat([]byte{0xb8, 0x03}, eP, eV, eF)},
		{"gs:map-head-b90003", cat([]byte{0xb9, 0, 3}, eP, eV, eF)},
		{"gs:map-indefinite", cat([]byte{0xbf}, eP, eV, eF, []byte{0xff})},
		{"gs:map-indefinite-nobreak", cat([]byte{0xbf}, eP, eV, eF)},
		{"gs:key-head-7808", cat(m3, []byte{0x78, 8}, []byte("PieceCID"), cborLink(c), eV, eF)},
		{"gs:key-indefinite", cat(m3, []byte{0x7f, 0x64}, []byte("Piec"), []byte{0x64}, []byte("eCID"), []byte{0xff}, cborLink(c), eV, eF)},
		{"gs:bytes-head-5900", cat(m3, kP, []byte{0xd8, 0x2a, 0x59, 0, byte(len(c) + 1), 0}, c, eV, eF)},
		{"gs:bytes-indefinite", cat(m3, kP, []byte{0xd8, 0x2a, 0x5f, 0x41, 0x00}, []byte{0x58, byte(len(c))}, c, []byte{0xff}, eV, eF)},
		{"gs:tag-head-d9002a", cat(m3, kP, []byte{0xd9, 0, 0x2a, 0x58, byte(len(c) + 1), 0}, c, eV, eF)},
		{"gs:tag-43", cat(m3, kP, []byte{0xd8, 0x2b, 0x58, byte(len(c) + 1), 0}, c, eV, eF)},
		{"gs:double-tag", cat(m3, kP, []byte{0xd8, 0x2a, 0xd8, 0x2a, 0x58, byte(len(c) + 1), 0}, c, eV, eF)},
		{"gs:no-tag", cat(m3, kP, []byte{0x58, byte(len(c) + 1), 0}, c, eV, eF)},
		{"gs:multibase-01", cat(m3, kP, []byte{0xd8, 0x2a, 0x58, byte(len(c) + 1), 1}, c, eV, eF)},
		{"gs:link-empty", cat(m3, kP, []byte{0xd8, 0x2a, 0x40}, eV, eF)},
		{"gs:link-only-multibase", cat(m3, kP, []byte{0xd8, 0x2a, 0x41, 0}, eV, eF)},
		{"gs:extra-key", cat([]byte{0xa4}, eP, eV, eF, cborKey("X"), cborBool(true))},
		{"gs:extra-key-first", cat([]byte{0xa4}, cborKey("X"), cborBool(true), eP, eV, eF)},
		{"gs:missing-FastRetrieval", cat([]byte{0xa2}, eP, eV)},
		{"gs:missing-PieceCID", cat([]byte{0xa2}, eV, eF)},
		{"gs:empty-map", []byte{0xa0}},
		{"gs:duplicate-key", cat([]byte{0xa4}, eP, eV, eV, eF)},
		{"gs:duplicate-key-a3", cat(m3, eP, eV, eV)},
		{"gs:declared-2-has-3", cat([]byte{0xa2}, eP, eV, eF)},
		{"gs:declared-4-has-3", cat([]byte{0xa4}, eP, eV, eF)},
		{"gs:bool-as-int", cat(m3, eP, kV, []byte{0x01}, eF)},
		{"gs:bool-as-null", cat(m3, eP, kV, []byte{0xf6}, eF)},
		{"gs:bool-as-undefined", cat(m3, eP, kV, []byte{0xf7}, eF)},
		{"gs:bool-simple-f8", cat(m3, eP, kV, []byte{0xf8, 0x15}, eF)},
		{"gs:bool-as-float", cat(m3, eP, kV, []byte{0xf9, 0x3c, 0x00}, eF)},
		{"gs:key-bytes", cat(m3, []byte{0x48}, []byte("PieceCID"), cborLink(c), eV, eF)},
		{"gs:key-lowercase", cat(m3, cborKey("piececid"), cborLink(c), eV, eF)},
		{"gs:list-instead-of-map", cat([]byte{0x83}, cborLink(c), cborBool(true), cborBool(false))},
		{"gs:int-instead-of-map", []byte{0x03}},
		{"gs:null", []byte{0xf6}},
		{"gs:nothing", nil},
		{"gs:cid-version-2", cat(m3, kP, cborLink(cat([]byte{0x02}, c[1:])), eV, eF)},
		{"gs:cid-version-0-varint", cat(m3, kP, cborLink(cat([]byte{0x00}, c[1:])), eV, eF)},
		{"gs:cid-digest-short", cat(m3, kP, cborLink(c[:len(c)-1]), eV, eF)},
		{"gs:cid-digest-long", cat(m3, kP, cborLink(cat(c, []byte{0})), eV, eF)},
		{"gs:cid-v0-33", cat(m3, kP, cborLink(cidV0[:33]), eV, eF)},
		{"gs:cid-v0-35", cat(m3, kP, cborLink(cat(cidV0, []byte{1})), eV, eF)},
		{"gs:cid-v0-ok", cat(m3, kP, cborLink(cidV0), eV, eF)},
		{"gs:cid-1220-only", cat(m3, kP, cborLink([]byte{0x12, 0x20}), eV, eF)},
		{"gs:cid-codec-nonminimal", cat(m3, kP, cborLink(cat([]byte{0x01, 0xd5, 0x00, 0x12, 0x20}, c[4:])), eV, eF)},
		{"gs:cid-mhlen-nonminimal", cat(m3, kP, cborLink(cat([]byte{0x01, 0x55, 0x12, 0xa0, 0x00}, c[4:])), eV, eF)},
		{"gs:cid-only-version", cat(m3, kP, cborLink([]byte{0x01}), eV, eF)},
		{"gs:cid-no-multihash", cat(m3, kP, cborLink([]byte{0x01, 0x55}), eV, eF)},
		{"gs:cid-mh-one-byte", cat(m3, kP, cborLink([]byte{0x01, 0x55, 0x00}), eV, eF)},
		{"gs:cid-ident-empty", cat(m3, kP, cborLink(cidIdent0), eV, eF)},
		{"gs:cid-mh-code-9byte", cat(m3, kP, cborLink(cat([]byte{0x01, 0x55, 0xff, 0xff, 0xff, 0xff, 0xff, 0xff, 0xff, 0xff, 0x7f, 0x01, 0x09})), eV, eF)},
		{"gs:cid-mh-code-overflow", cat(m3, kP, cborLink(cat([]byte{0x01, 0x55, 0xff, 0xff, 0xff, 0xff, 0xff, 0xff, 0xff, 0xff, 0xff, 0x01, 0x01, 0x09})), eV, eF)},
		{"gs:cid-mh-len-huge", cat(m3, kP, cborLink(cat([]byte{0x01, 0x55, 0x00, 0xff, 0xff, 0xff, 0xff, 0x0f, 0x09})), eV, eF)},
		// hostile lengths
		{"gs:bytes-len-32MiB", cat(m3, kP, []byte{0xd8, 0x2a, 0x5a, 0x02, 0, 0, 0})},
		{"gs:bytes-len-32MiB+1", cat(m3, kP, []byte{0xd8, 0x2a, 0x5a, 0x02, 0, 0, 1})},
		{"gs:bytes-len-1MiB", cat(m3, kP, []byte{0xd8, 0x2a, 0x5a, 0x00, 0x10, 0, 0})},
		{"gs:bytes-len-2^64-1", cat(m3, kP, []byte{0xd8, 0x2a, 0x5b, 0xff, 0xff, 0xff, 0xff, 0xff, 0xff, 0xff, 0xff})},
		{"gs:bytes-len-2^63-1", cat(m3, kP, []byte{0xd8, 0x2a, 0x5b, 0x7f, 0xff, 0xff, 0xff, 0xff, 0xff, 0xff, 0xff})},
		{"gs:key-len-32MiB", cat(m3, []byte{0x7a, 0x02, 0, 0, 0})},
		{"gs:key-len-16MiB", cat(m3, []byte{0x7a, 0x01, 0, 0, 0})},
		{"gs:map-len-2^63-1", []byte{0xbb, 0x7f, 0xff, 0xff, 0xff, 0xff, 0xff, 0xff, 0xff}},
		{"gs:map-len-2^64-1", []byte{0xbb, 0xff, 0xff, 0xff, 0xff, 0xff, 0xff, 0xff, 0xff}},
		{"gs:map-len-2^32-1", []byte{0xba, 0xff, 0xff, 0xff, 0xff}},
		{"gs:map-len-11M", []byte{0xba, 0x00, 0xb0, 0x00, 0x00}},
		{"gs:bytes-indef-hostile-chunk", cat(m3, kP, []byte{0xd8, 0x2a, 0x5f, 0x5a, 0x02, 0, 0, 0})},
		{"gs:nested-tags", cat(m3, kP, []byte{0xd8, 0x2a, 0xd8, 0x2a, 0xd8, 0x2a, 0x41, 0})},
		{"gs:reserved-info-1c", cat(m3, kP, []byte{0xd8, 0x2a, 0x5c})},
		{"gs:major7-ff-break-alone", []byte{0xff}},
	}
	// the encoder's own output for the other CIDs and flags
	for _, c := range [][]byte{cidV0, cidCommP, cidIdent3, cidIdent0, cidIdent18, cidIdent19, cidIdent249, cidIdent250} {
		v = append(v, decInput{"gs:canonical", cat(m3, kP, cborLink(c), kV, cborBool(false), kF, cborBool(true))})
	}
	// minimal-head boundary: 23-byte link written with the one-byte-length head and so on
	v = append(v,
		decInput{"gs:bytes-head-5817", cat(m3, kP, []byte{0xd8, 0x2a, 0x58, 23, 0}, cidIdent18, eV, eF)},
		decInput{"gs:bytes-head-5900ff", cat(m3, kP, []byte{0xd8, 0x2a, 0x59, 0, 255, 0}, cidIdent249, eV, eF)},
		decInput{"gs:bytes-head-5a", cat(m3, kP, []byte{0xd8, 0x2a, 0x5a, 0, 0, 1, 0, 0}, cidIdent250, eV, eF)},
		decInput{"gs:bytes-head-5b", cat(m3, kP, []byte{0xd8, 0x2a, 0x5b, 0, 0, 0, 0, 0, 0, 1, 0, 0}, cidIdent250, eV, eF)},
	)
	return v
}

// hostile and boundary length prefixes for unknown protocols
func hostileSizes() []uint64 {
	return []uint64{0, 1, 2, 23, 127, 128, 300, 1023, 1024, 1025, 4096, 65535, 65536, 1 << 20, 1 << 24, 1 << 26, 1<<26 + 1,
		1 << 28, 1 << 31, 1<<32 - 1, 1 << 32, 1 << 36, 1 << 40, 1 << 47, 1 << 48, 1<<48 + 1, 1 << 56, 1 << 62, 1<<63 - 21, 1<<63 - 20, 1<<63 - 3, 1<<63 - 2, 1<<63 - 1}
}

func malformedVarints() [][]byte {
	ff := func(n int, last byte) []byte {
		b := make([]byte, n)
		for i := range b {
			b[i] = 0xff
		}
		b[n-1] = last
		return b
	}
	return [][]byte{
		{0x80, 0x00},       // non-minimal 0
		{0x81, 0x00},       // non-minimal 1
		{0x80, 0x80, 0x00}, // non-minimal
		{0x80},             // underflow
		{0xff, 0xff},       // underflow
		ff(9, 0x7f),        // 2^63-1, the largest accepted
		ff(9, 0xff),        // continuation in the ninth byte: overflow
		ff(10, 0x01),       // ten bytes: overflow
		ff(10, 0x00),
		ff(11, 0x01),
	}
}

// ---------------------------------------------------------------------------
// non-minimal spellings of varints

// respell writes v as a varint with `pad` superfluous bytes: the minimal bytes with the
// continuation bit set on the last one, pad-1 bytes 0x80, and a final 0x00.  pad = 0 gives
// the minimal form.  go-varint rejects every pad > 0 ("not minimally encoded", or
// overflow beyond nine bytes); encoding/binary's reader accepts them up to ten bytes.
func respell(v uint64, pad int) []byte {
	b := append([]byte{}, varint.ToUvarint(v)...)
	if pad == 0 {
		return b
	}
	b[len(b)-1] |= 0x80
	for i := 1; i < pad; i++ {
		b = append(b, 0x80)
	}
	return append(b, 0x00)
}

// padsFor returns the paddings tried for a varint whose minimal form has n bytes: 1..3,
// and the ones that make it nine and ten bytes long.
func padsFor(n int) []int {
	p := []int{1, 2, 3}
	if 9-n > 3 {
		p = append(p, 9-n)
	}
	if 10-n > 3 {
		p = append(p, 10-n)
	}
	return p
}

// cidRespelled returns the CID bytes with its i-th varint (version, codec, multihash code,
// multihash length) written with `pad` superfluous bytes; nil for CIDv0 or when there is
// no such varint.
func cidRespelled(c []byte, i, pad int) []byte {
	if len(c) == 34 && c[0] == 0x12 && c[1] == 0x20 {
		return nil
	}
	off := 0
	for k := 0; k < 4; k++ {
		v, n, err := varint.FromUvarint(c[off:])
		if err != nil {
			return nil
		}
		if k == i {
			return cat(c[:off], respell(v, pad), c[off+n:])
		}
		off += n
	}
	return nil
}

func gsPayload(c []byte, vd, fr bool) []byte {
	return cat([]byte{0xa3}, cborKey("PieceCID"), cborLink(c), cborKey("VerifiedDeal"), cborBool(vd), cborKey("FastRetrieval"), cborBool(fr))
}

// respelledEncodings: the encoding of `specs` (in ascending ID order) with exactly one
// varint written non-minimally -- every varint position in turn: each protocol's code,
// an unknown protocol's size, the gateway's payload length, and the four varints inside a
// CIDv1 piece CID (the CBOR byte-string length is adjusted, so that only the varint is
// at fault).
func respelledEncodings(specs []PSpec) []decInput {
	sorted := stableSorted(specs)
	enc := make([][]byte, len(sorted))
	for i, s := range sorted {
		e, err := s.build().MarshalBinary()
		if err != nil {
			panic(err)
		}
		enc[i] = e
	}
	var out []decInput
	with := func(i int, repl []byte, kind string) {
		parts := append([][]byte{}, enc...)
		parts[i] = repl
		out = append(out, decInput{kind, cat(parts...)})
	}
	for i, s := range sorted {
		idb := varint.ToUvarint(s.id())
		rest := enc[i][len(idb):]
		for _, p := range padsFor(len(idb)) {
			with(i, cat(respell(s.id(), p), rest), "nonminimal:code")
		}
		switch s.K {
		case "gateway":
			for _, p := range padsFor(1) {
				with(i, cat(idb, respell(0, p)), "nonminimal:gateway-length")
			}
		case "unknown":
			body := mustHex(s.Body)
			for _, p := range padsFor(len(varint.ToUvarint(uint64(len(body))))) {
				with(i, cat(idb, respell(uint64(len(body)), p), body), "nonminimal:unknown-size")
			}
		case "gs":
			c := mustHex(s.Cid)
			for k := 0; k < 4; k++ {
				for _, p := range []int{1, 2, 3} {
					if rc := cidRespelled(c, k, p); rc != nil {
						with(i, cat(idb, gsPayload(rc, s.VD, s.FR)), "nonminimal:cid-varint")
					}
				}
			}
		}
	}
	return out
}

// paddedSizeWithTail: an unknown protocol whose size varint carries `pad` superfluous
// bytes, and whose declared payload ends j bytes into `tail`, where `tail` is itself a
// well-formed, sorted protocol sequence.  A reader that accepts the padded varint but
// counts the bytes of the minimal spelling resumes `pad` bytes early; with j == pad that is
// exactly at the start of `tail`, which then parses as further protocols.
func paddedSizeWithTail(code uint64, pad int, prefix, tail []byte, j int) []byte {
	size := uint64(len(prefix) + j)
	return cat(uv(code), respell(size, pad), prefix, tail)
}
