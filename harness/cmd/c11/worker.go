package main

// The decoder is run on hostile inputs in a worker process (this same binary started
// with "-c11worker"): a hostile length prefix on an unguarded decoder makes the Go
// runtime abort with "fatal error: out of memory", which recover() cannot catch.  The
// worker limits its own address space, decodes one input per request line and answers
// with one JSON line; when it dies the parent records the abort for the input it was
// working on and starts a new worker.

import (
	"bufio"
	"bytes"
	"encoding/hex"
	"encoding/json"
	"fmt"
	"io"
	"os"
	"os/exec"
	"runtime/debug"
	"strconv"
	"strings"
	"syscall"
	"time"
)

type wProto struct {
	K    string `json:"k"`
	Cid  string `json:"cid,omitempty"`
	VD   bool   `json:"vd,omitempty"`
	FR   bool   `json:"fr,omitempty"`
	Code uint64 `json:"code,omitempty"`
	Raw  string `json:"raw,omitempty"`
}

type wReply struct {
	Out      string   `json:"out"`
	Msg      string   `json:"msg"`
	Alloc    uint64   `json:"alloc"`
	Protos   []wProto `json:"protos"`
	ReOut    string   `json:"re_out"`
	ReMsg    string   `json:"re_msg"`
	ReHex    string   `json:"re_hex"`
	Validate string   `json:"validate"`
	N        int64    `json:"n"` // per-protocol ReadFrom: bytes it reports as read
}

const workerAddressSpace = 3 << 30

func workerMain() {
	limitOwnMemory(workerAddressSpace)
	debug.SetMemoryLimit(1 << 30)
	in := bufio.NewReaderSize(os.Stdin, 1<<16)
	out := bufio.NewWriter(os.Stdout)
	for {
		line, err := in.ReadString('\n')
		if err != nil {
			return
		}
		if strings.HasPrefix(line, "A") {
			js, _ := json.Marshal(aliasServe(strings.TrimSpace(line[1:])))
			out.Write(js)
			out.WriteByte('\n')
			out.Flush()
			continue
		}
		if c := line[0]; c == 'P' || c == 'Q' || c == 'M' || c == 'H' || c == 'C' {
			var rep wReply
			switch c {
			case 'P':
				rep = protoServe(strings.TrimSpace(line[1:]))
			case 'Q':
				rep = equalServe(strings.TrimSpace(line[1:]))
			case 'H':
				rep = heldServe(strings.TrimSpace(line[1:]))
			case 'C':
				rep = ctorServe(int(line[1] - '0'))
			default:
				rep = miscServe()
			}
			js, _ := json.Marshal(rep)
			out.Write(js)
			out.WriteByte('\n')
			out.Flush()
			continue
		}
		if strings.HasPrefix(line, "L") {
			n, _ := strconv.Atoi(strings.TrimSpace(line[1:]))
			r := limitProbe(n)
			js, _ := json.Marshal(wReply{Out: r.out, Msg: r.msg, Alloc: r.alloc})
			out.Write(js)
			out.WriteByte('\n')
			out.Flush()
			continue
		}
		b, err := hex.DecodeString(strings.TrimSpace(line))
		if err != nil {
			fmt.Fprintln(os.Stderr, "worker: bad request")
			os.Exit(3)
		}
		d := decodeReal(b)
		rep := wReply{Out: d.out, Msg: d.msg, Alloc: d.alloc}
		for _, p := range d.protos {
			rep.Protos = append(rep.Protos, wProto{K: p.K, Cid: hex.EncodeToString(p.Cid), VD: p.VD, FR: p.FR, Code: p.Code, Raw: hex.EncodeToString(p.Raw)})
		}
		if d.out == "ok" {
			var re []byte
			r := guarded(func() (err error) { re, err = d.m.MarshalBinary(); return })
			rep.ReOut, rep.ReMsg, rep.ReHex = r.out, r.msg, hex.EncodeToString(re)
			if err := d.m.Validate(); err != nil {
				rep.Validate = err.Error()
			}
		}
		js, _ := json.Marshal(rep)
		out.Write(js)
		out.WriteByte('\n')
		out.Flush()
	}
}

type worker struct {
	cmd    *exec.Cmd
	stdin  io.WriteCloser
	stdout *bufio.Reader
	stderr *bytes.Buffer
	deaths int
	hangs  int
}

func (w *worker) timeout() time.Duration {
	if w.hangs > 0 {
		return time.Second
	}
	return workerTimeout
}

func (w *worker) start() {
	w.cmd = exec.Command(os.Args[0], "-c11worker")
	var err error
	w.stdin, err = w.cmd.StdinPipe()
	if err != nil {
		panic(err)
	}
	so, err := w.cmd.StdoutPipe()
	if err != nil {
		panic(err)
	}
	w.stdout = bufio.NewReaderSize(so, 1<<20)
	w.stderr = &bytes.Buffer{}
	w.cmd.Stderr = w.stderr
	if err := w.cmd.Start(); err != nil {
		panic(err)
	}
}

func (w *worker) stop() {
	if w.cmd != nil {
		w.stdin.Close()
		w.cmd.Wait()
		w.cmd = nil
	}
}

// WObs is the parent's view of one decode done by the worker.
type WObs struct {
	out      string
	msg      string
	alloc    uint64
	protos   []OProto
	reOut    string
	reMsg    string
	re       []byte
	validate string
	n        int64
}

// a decode that does not answer within this time is a hang (the decode loop can spin
// when a reader reports zero bytes consumed)
const workerTimeout = 10 * time.Second

func (w *worker) decode(b []byte) WObs { return w.request(hex.EncodeToString(b)) }

// request sends one request line (hex input, or "L<n>" for the limit probe).
func (w *worker) request(req string) WObs {
	if w.cmd == nil {
		w.start()
	}
	type ans struct {
		line string
		err  error
	}
	ch := make(chan ans, 1)
	go func(stdin io.Writer, stdout *bufio.Reader) {
		_, err := io.WriteString(stdin, req+"\n")
		var line string
		if err == nil {
			line, err = stdout.ReadString('\n')
		}
		ch <- ans{line, err}
	}(w.stdin, w.stdout)
	var a ans
	hung := false
	select {
	case a = <-ch:
	case <-time.After(w.timeout()):
		hung = true
		w.hangs++
		w.cmd.Process.Kill()
		a = <-ch
	}
	line, err := a.line, a.err
	if err != nil || hung {
		// the worker died on this input
		w.stdin.Close()
		w.cmd.Wait()
		msg := w.stderr.String()
		if i := strings.Index(msg, "\n"); i > 0 {
			msg = msg[:i]
		}
		w.cmd = nil
		w.deaths++
		if w.deaths > 2000 {
			panic("harness: decoder worker keeps dying: " + msg)
		}
		if hung {
			return WObs{out: "panic", msg: "did not return (killed by the watchdog)"}
		}
		return WObs{out: "panic", msg: "process aborted: " + msg}
	}
	var rep wReply
	if err := json.Unmarshal([]byte(line), &rep); err != nil {
		panic("harness: bad worker reply: " + err.Error())
	}
	o := WObs{out: rep.Out, msg: rep.Msg, alloc: rep.Alloc, reOut: rep.ReOut, reMsg: rep.ReMsg, re: mustHex(rep.ReHex), validate: rep.Validate, n: rep.N}
	for _, p := range rep.Protos {
		o.protos = append(o.protos, OProto{K: p.K, Cid: mustHex(p.Cid), VD: p.VD, FR: p.FR, Code: p.Code, Raw: mustHex(p.Raw)})
	}
	if len(o.protos) > 0 {
		for i := range o.protos {
			if len(o.protos[i].Cid) == 0 {
				o.protos[i].Cid = nil
			}
			if len(o.protos[i].Raw) == 0 {
				o.protos[i].Raw = nil
			}
		}
	}
	return o
}

// wOracle: the decoder half of the property applied to what the worker observed.
func wOracle(b []byte, o WObs) (string, string) {
	if o.out == "panic" {
		return "panic", "UnmarshalBinary panicked: " + o.msg
	}
	if o.alloc > allocBound(len(b)) {
		cl := "alloc"
		if bytes.HasPrefix(b, []byte{0x90, 0x12}) {
			cl = "alloc-graphsync"
		}
		return cl, fmt.Sprintf("UnmarshalBinary allocated %d bytes for %d input bytes (bound %d)", o.alloc, len(b), allocBound(len(b)))
	}
	if o.out == "ok" {
		if o.reOut != "ok" {
			return "reencode", "decoded metadata does not marshal: " + o.reOut + " " + o.reMsg
		}
		if !bytes.Equal(o.re, b) {
			cl := "reencode-differs"
			for i, p := range o.protos {
				if i > 0 && idOf(o.protos[i-1]) > idOf(p) {
					cl = "reencode-unsorted"
				}
			}
			for _, p := range o.protos {
				if p.K == "gs" {
					e, err := (PSpec{K: "gs", Cid: hex.EncodeToString(p.Cid), VD: p.VD, FR: p.FR}).build().MarshalBinary()
					if err != nil || !bytes.Contains(b, e) {
						cl = "reencode-graphsync-noncanonical"
					}
				}
			}
			return cl, fmt.Sprintf("decoded metadata re-encodes to %x, input was %x", o.re, b)
		}
		if o.validate != "" {
			return "reencode", "decoded metadata does not validate: " + o.validate
		}
	}
	return "", ""
}

func coqWCase(b []byte, o WObs) string {
	return fmt.Sprintf("(DecCaseI %s %s %s)", cb(b), coqObs(o.out, coqProtos(o.protos)), ci(o.alloc))
}

func idOf(p OProto) uint64 {
	switch p.K {
	case "bitswap":
		return idBitswap
	case "gateway":
		return idGateway
	case "gs":
		return idGS
	}
	return p.Code
}

// limitOwnMemory bounds the address space of the calling process, so that a defect of
// the code under test cannot exhaust the machine through the harness.
func limitOwnMemory(bytes uint64) {
	lim := syscall.Rlimit{Cur: bytes, Max: bytes}
	_ = syscall.Setrlimit(syscall.RLIMIT_AS, &lim)
}
