package main

// Entry points of the package other than Metadata.{Marshal,Unmarshal}Binary:
//
//   - the per-protocol UnmarshalBinary and ReadFrom of Bitswap, IpfsGatewayHttp,
//     GraphsyncFilecoinV1 and Unknown, on their own encodings and on arbitrary bytes (same
//     clauses as Metadata.UnmarshalBinary: error, or a value that re-encodes to the bytes
//     consumed; never panics; bounded allocation) -- with Coq cases against
//     proto_unmarshal / proto_read of the model;
//   - Metadata.Equal ("decoding it returns metadata EQUAL to the original") on equal,
//     unequal, reordered, different-length sets and on an Unknown that carries the bytes of
//     a known protocol -- Coq cases against `equal`;
//   - MetadataContext.WithProtocol: a registered custom code decodes like a known protocol,
//     an unregistered one like Unknown, the parent context is not changed (oracle only);
//   - ErrInvalidMetadata.Error, and protocols that cannot be marshalled (oracle only).
//
// Everything that decodes runs inside the worker process.

import (
	"bytes"
	"encoding/hex"
	"encoding/json"
	"errors"
	"fmt"
	"io"
	"strings"

	"github.com/ipfs/go-cid"
	"github.com/ipni/go-libipni/metadata"
	"github.com/multiformats/go-multicodec"
	"github.com/multiformats/go-varint"

	"verif/harness/vlib"
)

// ---------------------------------------------------------------------------
// per-protocol decoders (worker side)

var pkinds = []string{"bitswap", "gateway", "gs", "unknown"}

func freshProto(kind string) metadata.Protocol {
	switch kind {
	case "bitswap":
		return &metadata.Bitswap{}
	case "gateway":
		return &metadata.IpfsGatewayHttp{}
	case "gs":
		return &metadata.GraphsyncFilecoinV1{}
	}
	return &metadata.Unknown{}
}

// protoServe: request "<kind> <entry> <hex>", entry = U (UnmarshalBinary), R (ReadFrom a
// bytes.Reader) or B (ReadFrom a bytes.Buffer).
func protoServe(line string) wReply {
	f := strings.Fields(line)
	if len(f) < 2 {
		return wReply{Out: "panic", Msg: "harness: bad proto request"}
	}
	var b []byte
	if len(f) > 2 {
		b = mustHex(f[2])
	}
	p := freshProto(f[0])
	var n int64 = -1
	in := append([]byte{}, b...)
	r := guarded(func() (err error) {
		switch f[1] {
		case "U":
			return p.UnmarshalBinary(in)
		case "R":
			n, err = p.ReadFrom(bytes.NewReader(in))
		default:
			n, err = p.ReadFrom(bytes.NewBuffer(in))
		}
		return err
	})
	rep := wReply{Out: r.out, Msg: r.msg, Alloc: r.alloc, N: n}
	if r.out == "ok" {
		o := observe(p)
		rep.Protos = []wProto{{K: o.K, Cid: hex.EncodeToString(o.Cid), VD: o.VD, FR: o.FR, Code: o.Code, Raw: hex.EncodeToString(o.Raw)}}
		var re []byte
		rr := guarded(func() (err error) { re, err = p.MarshalBinary(); return })
		rep.ReOut, rep.ReMsg, rep.ReHex = rr.out, rr.msg, hex.EncodeToString(re)
	}
	return rep
}

// ---------------------------------------------------------------------------
// per-protocol decoders (parent side)

func (r *runner) protoOnce(kind, entry string, b []byte) WObs {
	return r.w.request("P" + kind + " " + entry + " " + hex.EncodeToString(b))
}

// protoOracle: the decoder clauses of the property for one protocol's own decoder.
func protoOracle(kind, entry string, b []byte, o WObs) (class, desc string) {
	name := kind + "." + map[string]string{"U": "UnmarshalBinary", "R": "ReadFrom(bytes.Reader)", "B": "ReadFrom(bytes.Buffer)"}[entry]
	if o.out == "panic" {
		return "proto-panic", name + " panicked: " + o.msg
	}
	if o.alloc > allocBound(len(b)) {
		cl := "proto-alloc"
		if kind == "gs" && bytes.HasPrefix(b, []byte{0x90, 0x12}) {
			cl = "alloc-graphsync" // the listed third-party finding, reached through this entry point
		}
		return cl, fmt.Sprintf("%s allocated %d bytes for %d input bytes (bound %d)", name, o.alloc, len(b), allocBound(len(b)))
	}
	if entry != "U" && (o.n < 0 && o.out == "ok" || o.n > int64(len(b))) {
		return "proto-count", fmt.Sprintf("%s reports %d bytes read of %d", name, o.n, len(b))
	}
	if o.out != "ok" {
		return "", ""
	}
	if o.reOut != "ok" {
		return "proto-reencode", name + " returned a value that does not marshal: " + o.reMsg
	}
	consumed := b
	if entry != "U" {
		consumed = b[:o.n]
	} else if kind == "unknown" && len(o.re) <= len(b) {
		// Unknown.UnmarshalBinary does not report or check how much it consumed: what it
		// read is the prefix it re-encodes to (trailing bytes are an observation)
		consumed = b[:len(o.re)]
	}
	if !bytes.Equal(o.re, consumed) {
		return "proto-reencode", fmt.Sprintf("%s accepted %x but the value re-encodes to %x (consumed %x)", name, b, o.re, consumed)
	}
	if wantID := map[string]uint64{"bitswap": idBitswap, "gateway": idGateway, "gs": idGS}[kind]; kind != "unknown" && idOf(o.protos[0]) != wantID {
		return "proto-reencode", name + " returned a value of another protocol"
	}
	return "", ""
}

func coqKind(kind string) string {
	return map[string]string{"bitswap": "KBitswap", "gateway": "KGateway", "gs": "KGraphsync", "unknown": "KUnknown"}[kind]
}

func (r *runner) doProto(what, kind, entry string, b []byte) {
	c := r.c
	if r.w.hangs > 25 {
		return
	}
	o := r.protoOnce(kind, entry, b)
	c.Eval()
	c.Count("proto:" + what)
	c.Count("proto-entry:" + kind + "." + entry + ":" + o.out)
	if len(b) >= 2 {
		c.Nontrivial("p" + kind + entry + hex.EncodeToString(b))
	}
	if o.out == "ok" && entry == "U" && kind == "unknown" && len(o.re) < len(b) {
		c.Count("obs-unknown-unmarshalbinary-ignores-trailing-bytes")
	}
	n := o.n
	if n < 0 {
		n = 0
	}
	// Coq: both ReadFrom variants are the same function of the model
	e := "false"
	if entry != "U" {
		e = "true"
	}
	c.Case("pdec", fmt.Sprintf("(PDecCaseI %s %s %s %s %s)", coqKind(kind), e, cb(b), coqObs(o.out, coqProtos(o.protos)), ci(uint64(n))),
		Replay{Kind: "proto", PKind: kind, Entry: entry, Hex: hex.EncodeToString(b), What: what + " -> " + o.out + " " + o.msg})
	cl, d := protoOracle(kind, entry, b, o)
	if cl == "" {
		return
	}
	c.Count("fail:proto:" + cl)
	if cl == "alloc-graphsync" {
		// same defect, same signature family as through Metadata.UnmarshalBinary
		if r.perClass["proto:"+cl] < 2 {
			r.perClass["proto:"+cl]++
			r.record("dec:"+cl, "dec:"+cl+":"+hex.EncodeToString(b), d, Replay{Kind: "proto", PKind: kind, Entry: entry, Hex: hex.EncodeToString(b), What: d})
		}
		return
	}
	key := "proto:" + cl + ":" + kind + "." + entry
	if r.perClass[key] >= 2 {
		return
	}
	r.perClass[key]++
	// shrink by dropping bytes
	for changed := true; changed; {
		changed = false
		for i := 0; i < len(b); i++ {
			cand := append(append([]byte{}, b[:i]...), b[i+1:]...)
			if c2, d2 := protoOracle(kind, entry, cand, r.protoOnce(kind, entry, cand)); c2 == cl {
				b, d, changed = cand, d2, true
				break
			}
		}
	}
	r.record("proto:"+cl, "proto:"+cl+":"+kind+"."+entry+":"+hex.EncodeToString(b), d, Replay{Kind: "proto", PKind: kind, Entry: entry, Hex: hex.EncodeToString(b), What: d})
}

// protoRoundTrip: UnmarshalBinary(MarshalBinary(p)) == p on a fresh value of p's own type.
func (r *runner) protoRoundTrip(s PSpec) {
	c := r.c
	kind := s.K
	if kind == "httpv1" {
		kind = "unknown"
	}
	want := s.oproto()
	enc, err := s.build().MarshalBinary()
	if err != nil {
		panic(err)
	}
	for _, entry := range []string{"U", "R", "B"} {
		o := r.protoOnce(kind, entry, enc)
		c.Eval()
		c.Count("proto:roundtrip")
		c.Case("pdec", fmt.Sprintf("(PDecCaseI %s %s %s %s %s)", coqKind(kind), vlib.CoqBool(entry != "U"), cb(enc), coqObs(o.out, coqProtos(o.protos)), ci(uint64(max64(o.n, 0)))),
			Replay{Kind: "proto", PKind: kind, Entry: entry, Hex: hex.EncodeToString(enc), What: "roundtrip " + s.short()})
		var fail string
		switch {
		case o.out != "ok":
			fail = fmt.Sprintf("%s.%s of the protocol's own encoding %x failed: %s %s", kind, entry, enc, o.out, o.msg)
		case !o.protos[0].equal(want):
			fail = fmt.Sprintf("%s.%s of the protocol's own encoding %x returned a different value", kind, entry, enc)
		case entry != "U" && o.n != int64(len(enc)):
			fail = fmt.Sprintf("%s.%s of the protocol's own encoding (%d bytes) reports %d bytes read", kind, entry, len(enc), o.n)
		}
		if fail != "" {
			c.Count("fail:proto:roundtrip")
			key := "proto:roundtrip:" + kind + "." + entry
			if r.perClass[key] < 2 {
				r.perClass[key]++
				r.record("proto:roundtrip", "proto:roundtrip:"+kind+"."+entry+":"+s.short(), fail, Replay{Kind: "proto-roundtrip", Specs: []PSpec{s}, PKind: kind, Entry: entry, Hex: hex.EncodeToString(enc), What: fail})
			}
		}
	}
}

func max64(a, b int64) int64 {
	if a > b {
		return a
	}
	return b
}

// ---------------------------------------------------------------------------
// Equal

type eqReq struct {
	A, B []PSpec
}

// buildX is build extended with values only the Equal / marshal-error cases use.
func buildX(s PSpec) metadata.Protocol {
	switch s.K {
	case "gs-undef": // a graphsync-filecoin value without a piece CID: cannot be marshalled
		return &metadata.GraphsyncFilecoinV1{PieceCID: cid.Undef, VerifiedDeal: s.VD}
	case "unknown-raw": // Unknown{Code, Payload} with an arbitrary payload
		return &metadata.Unknown{Code: multicodec.Code(s.Code), Payload: mustHex(s.Body)}
	}
	return s.build()
}

func newMetaX(specs []PSpec) metadata.Metadata {
	ps := make([]metadata.Protocol, len(specs))
	for i, s := range specs {
		ps[i] = buildX(s)
	}
	return metadata.Default.New(ps...)
}

func equalServe(line string) wReply {
	var rq eqReq
	if err := json.Unmarshal([]byte(line), &rq); err != nil {
		return wReply{Out: "panic", Msg: "harness: bad equal request"}
	}
	var ab, ba, aa, bb bool
	var ea, eb error
	r := guarded(func() error {
		a, b := newMetaX(rq.A), newMetaX(rq.B)
		ab, ba, aa, bb = a.Equal(b), b.Equal(a), a.Equal(a), b.Equal(b)
		_, ea = a.MarshalBinary()
		_, eb = b.MarshalBinary()
		return nil
	})
	if r.out != "ok" {
		return wReply{Out: "panic", Msg: r.msg}
	}
	return wReply{Out: "ok", Msg: fmt.Sprintf("%v %v %v %v %v %v", ab, ba, aa, bb, ea == nil, eb == nil)}
}

func specCoq(s PSpec) (string, bool) {
	switch s.K {
	case "gs-undef":
		return "", false
	case "unknown-raw":
		return OProto{K: "unknown", Code: s.Code, Raw: mustHex(s.Body)}.coq(), true
	}
	return s.oproto().coq(), true
}

func (r *runner) doEqual(what string, a, b []PSpec) {
	c := r.c
	js, _ := json.Marshal(eqReq{a, b})
	o := r.w.request("Q" + string(js))
	c.Eval()
	c.Count("equal:" + what)
	rp := Replay{Kind: "equal", Specs: a, Specs2: b, What: what}
	if o.out != "ok" {
		r.record("equal:panic", "equal:panic:"+specSig(a)+" = "+specSig(b), "Equal panicked: "+o.msg, rp)
		return
	}
	var ab, ba, aa, bb, ma, mb bool
	fmt.Sscanf(o.msg, "%t %t %t %t %t %t", &ab, &ba, &aa, &bb, &ma, &mb)
	c.Count(fmt.Sprintf("equal-result:%v", ab))
	// expected from the property's notion of equality: the same protocols in the same
	// order, protocol = (ID, encoding); a value that has no encoding equals nothing
	type ie struct {
		id  uint64
		enc string
		ok  bool
	}
	view := func(specs []PSpec) []ie {
		m := newMetaXSorted(specs)
		out := make([]ie, len(m))
		for i, p := range m {
			e, err := p.MarshalBinary()
			out[i] = ie{uint64(p.ID()), string(e), err == nil}
		}
		return out
	}
	va, vb := view(a), view(b)
	want := len(va) == len(vb)
	for i := 0; want && i < len(va); i++ {
		want = va[i].ok && vb[i].ok && va[i] == vb[i]
	}
	fail := ""
	switch {
	case ab != want:
		fail = fmt.Sprintf("Equal = %v, but the two metadata %s the same (ID, encoding) sequence", ab, map[bool]string{true: "have", false: "do not have"}[want])
	case ab != ba:
		fail = "Equal is not symmetric"
	case ma && !aa || mb && !bb:
		fail = "a metadata that marshals is not Equal to itself"
	}
	if !ma && !aa || !mb && !bb {
		c.Count("obs-equal-false-on-itself-when-a-protocol-cannot-be-marshalled")
	}
	// Coq case when every value is expressible in the model
	okA, okB := true, true
	ta, tb := make([]string, len(a)), make([]string, len(b))
	for i, s := range a {
		ta[i], okA = specCoq(s)
		if !okA {
			break
		}
	}
	for i, s := range b {
		tb[i], okB = specCoq(s)
		if !okB {
			break
		}
	}
	if okA && okB {
		c.Case("eq", fmt.Sprintf("(EqCase %s %s %s)", vlib.CoqList(ta), vlib.CoqList(tb), vlib.CoqBool(ab)), rp)
	}
	if fail != "" {
		c.Count("fail:equal")
		if r.perClass["equal"] < 3 {
			r.perClass["equal"]++
			r.record("equal", "equal:"+specSig(a)+" = "+specSig(b), fail, rp)
		}
	}
}

// newMetaXSorted: the protocols in the order New arranges them (stable by ID), computed
// by the harness.
func newMetaXSorted(specs []PSpec) []metadata.Protocol {
	ps := make([]metadata.Protocol, len(specs))
	for i, s := range specs {
		ps[i] = buildX(s)
	}
	for i := 1; i < len(ps); i++ {
		for j := i; j > 0 && ps[j].ID() < ps[j-1].ID(); j-- {
			ps[j], ps[j-1] = ps[j-1], ps[j]
		}
	}
	return ps
}

// ---------------------------------------------------------------------------
// WithProtocol: a custom protocol "varint code, four bytes"

type customProto struct {
	code multicodec.Code
	tag  [4]byte
}

func (p *customProto) ID() multicodec.Code { return p.code }
func (p *customProto) MarshalBinary() ([]byte, error) {
	return append(varint.ToUvarint(uint64(p.code)), p.tag[:]...), nil
}
func (p *customProto) UnmarshalBinary(data []byte) error {
	n, err := p.ReadFrom(bytes.NewReader(data))
	if err == nil && n != int64(len(data)) {
		return errors.New("trailing bytes")
	}
	return err
}
func (p *customProto) ReadFrom(r io.Reader) (int64, error) {
	var n int64
	br := byteReader{r, &n}
	v, err := varint.ReadUvarint(br)
	if err != nil {
		return n, err
	}
	if multicodec.Code(v) != p.code {
		return n, fmt.Errorf("not code %#x", uint64(p.code))
	}
	k, err := io.ReadFull(r, p.tag[:])
	return n + int64(k), err
}

type byteReader struct {
	r io.Reader
	n *int64
}

func (b byteReader) ReadByte() (byte, error) {
	var x [1]byte
	k, err := b.r.Read(x[:])
	*b.n += int64(k)
	if k == 1 {
		err = nil
	}
	return x[0], err
}

// withProtocolBattery returns "" or "class\x00description".
func withProtocolBattery() (class, desc string, defaultInputs [][]byte) {
	const codeHi, codeLo = multicodec.Code(0x0930), multicodec.Code(0x0301)
	mk := func(code multicodec.Code) func() metadata.Protocol {
		return func() metadata.Protocol { return &customProto{code: code} }
	}
	fail := func(c, d string) (string, string, [][]byte) { return c, d, defaultInputs }
	ctx1 := metadata.Default.WithProtocol(codeHi, mk(codeHi))
	ctx2 := ctx1.WithProtocol(codeLo, mk(codeLo))
	ctxOver := metadata.Default.WithProtocol(multicodec.TransportBitswap, mk(multicodec.TransportBitswap))

	cHi := &customProto{code: codeHi, tag: [4]byte{1, 2, 3, 4}}
	cLo := &customProto{code: codeLo, tag: [4]byte{0x80, 0x12, 0xff, 0}}
	gsV := gs(cidIdent3, true, false).build()
	un := unk(0x0921, []byte{9, 9}).build()
	sets := [][]metadata.Protocol{{cHi}, {cHi, &metadata.Bitswap{}}, {&metadata.IpfsGatewayHttp{}, cHi, gsV, &metadata.Bitswap{}, un}, {cLo, cHi, &metadata.Bitswap{}}, {cLo}}
	for si, set := range sets {
		ctx := ctx2
		if si < 3 {
			ctx = ctx1
		}
		m := ctx.New(append([]metadata.Protocol{}, set...)...)
		enc, err := m.MarshalBinary()
		if err != nil {
			return fail("withprotocol-marshal", err.Error())
		}
		// the property's clauses for a registered protocol: concatenation in ascending ID
		// order, round trip, Get
		var want []byte
		sorted := append([]metadata.Protocol{}, set...)
		for i := 1; i < len(sorted); i++ {
			for j := i; j > 0 && sorted[j].ID() < sorted[j-1].ID(); j-- {
				sorted[j], sorted[j-1] = sorted[j-1], sorted[j]
			}
		}
		for _, p := range sorted {
			e, _ := p.MarshalBinary()
			want = append(want, e...)
		}
		if !bytes.Equal(enc, want) {
			return fail("withprotocol-concat", fmt.Sprintf("set %d: MarshalBinary = %x, concatenation in ascending ID order = %x", si, enc, want))
		}
		d := ctx.New()
		if err := d.UnmarshalBinary(enc); err != nil {
			return fail("withprotocol-roundtrip", fmt.Sprintf("set %d: metadata with a registered custom protocol does not decode in its context: %v", si, err))
		}
		if !m.Equal(d) || !d.Equal(m) {
			return fail("withprotocol-roundtrip", fmt.Sprintf("set %d: decoded metadata is not Equal to the original", si))
		}
		re, err := d.MarshalBinary()
		if err != nil || !bytes.Equal(re, enc) {
			return fail("withprotocol-roundtrip", fmt.Sprintf("set %d: decoded metadata re-encodes to %x, not %x", si, re, enc))
		}
		for _, p := range set {
			g := d.Get(p.ID())
			if g == nil || g.ID() != p.ID() {
				return fail("withprotocol-get", fmt.Sprintf("set %d: Get(%#x) on the decoded metadata", si, uint64(p.ID())))
			}
			if cp, ok := p.(*customProto); ok {
				gc, ok2 := g.(*customProto)
				if !ok2 || gc.tag != cp.tag {
					return fail("withprotocol-get", fmt.Sprintf("set %d: Get(%#x) is not the registered custom protocol with its payload (%T)", si, uint64(p.ID()), g))
				}
			}
		}
		// the same bytes in a context that does not know the code: treated like Unknown
		// (checked by the caller through the ordinary decoder cases), and the parent
		// contexts must not have learnt the code
		defaultInputs = append(defaultInputs, enc)
		dd := metadata.Default.New()
		if err := dd.UnmarshalBinary(enc); err == nil {
			for _, p := range protocolsOf(&dd) {
				if _, isCustom := p.(*customProto); isCustom {
					return fail("withprotocol-leaks", "the Default context decodes a code registered only in a derived context as the custom protocol")
				}
			}
		}
	}
	// unknown layout under a registered-elsewhere code: Default and ctx1 give Unknown for codeLo
	uLo := unknownRaw(uint64(codeLo), []byte{5, 6, 7})
	for name, ctx := range map[string]metadata.MetadataContext{"Default": metadata.Default, "ctx1": ctx1} {
		d := ctx.New()
		if err := d.UnmarshalBinary(uLo); err != nil {
			return fail("withprotocol-unregistered", name+": a code that is not registered in this context does not decode like Unknown: "+err.Error())
		}
		if _, ok := d.Get(codeLo).(*metadata.Unknown); !ok {
			return fail("withprotocol-unregistered", name+": a code that is not registered in this context is not an Unknown")
		}
	}
	// ctx2 knows both codes, and still the built-in ones
	d := ctx2.New()
	all := cat(mustEnc(cLo), []byte{0x80, 0x12}, mustEnc(gsV), []byte{0xa0, 0x12, 0x00}, mustEnc(cHi))
	if err := d.UnmarshalBinary(all); err != nil {
		return fail("withprotocol-derived", "a twice-derived context does not decode built-in and both registered protocols: "+err.Error())
	}
	ps := protocolsOf(&d)
	if len(ps) != 5 {
		return fail("withprotocol-derived", fmt.Sprintf("a twice-derived context decoded %d protocols of 5", len(ps)))
	}
	if _, ok := ps[0].(*customProto); !ok {
		return fail("withprotocol-derived", "the first registration is lost in the twice-derived context")
	}
	if _, ok := ps[1].(*metadata.Bitswap); !ok {
		return fail("withprotocol-derived", "built-in bitswap is lost in a derived context")
	}
	if _, ok := ps[2].(*metadata.GraphsyncFilecoinV1); !ok {
		return fail("withprotocol-derived", "built-in graphsync-filecoin is lost in a derived context")
	}
	if _, ok := ps[4].(*customProto); !ok {
		return fail("withprotocol-derived", "the second registration is missing")
	}
	// overriding a built-in code in a derived context only
	ob := cat([]byte{0x80, 0x12}, []byte{7, 7, 7, 7})
	d = ctxOver.New()
	if err := d.UnmarshalBinary(ob); err != nil {
		return fail("withprotocol-override", "a context that re-registers the bitswap code does not use the registered protocol: "+err.Error())
	}
	if _, ok := d.Get(multicodec.TransportBitswap).(*customProto); !ok {
		return fail("withprotocol-override", "a context that re-registers the bitswap code still decodes Bitswap")
	}
	d = metadata.Default.New()
	if err := d.UnmarshalBinary([]byte{0x80, 0x12}); err != nil {
		return fail("withprotocol-leaks", "Default no longer decodes bitswap after a derived context re-registered its code: "+err.Error())
	}
	if _, ok := d.Get(multicodec.TransportBitswap).(*metadata.Bitswap); !ok {
		return fail("withprotocol-leaks", "Default decodes the bitswap code as the protocol a derived context registered")
	}
	defaultInputs = append(defaultInputs, ob, all)
	// hostile input in a derived context: truncated custom protocol
	for cut := 0; cut < 6; cut++ {
		d = ctx1.New()
		in := mustEnc(cHi)[:cut]
		if err := d.UnmarshalBinary(in); err == nil && cut > 0 {
			return fail("withprotocol-truncated", fmt.Sprintf("a truncated registered protocol (%x) decodes without error", in))
		}
	}
	return "", "", defaultInputs
}

func mustEnc(p metadata.Protocol) []byte {
	b, err := p.MarshalBinary()
	if err != nil {
		panic(err)
	}
	return b
}

func miscServe() wReply {
	var class, desc string
	var inputs [][]byte
	r := guarded(func() error {
		// ErrInvalidMetadata
		e := metadata.ErrInvalidMetadata{Message: "x y"}
		if e.Error() != "invalid metadata: x y" || !strings.Contains(error(e).Error(), "x y") {
			class, desc = "error-text", "ErrInvalidMetadata.Error() = "+e.Error()
			return nil
		}
		// a protocol that cannot be marshalled makes MarshalBinary fail, not panic
		m := metadata.Default.New(&metadata.Bitswap{}, &metadata.GraphsyncFilecoinV1{})
		if b, err := m.MarshalBinary(); err == nil {
			class, desc = "marshal-undefined-cid", fmt.Sprintf("metadata with a graphsync-filecoin value without piece CID marshals to %x", b)
			return nil
		}
		if _, err := (&metadata.GraphsyncFilecoinV1{}).MarshalBinary(); err == nil {
			class, desc = "marshal-undefined-cid", "graphsync-filecoin without piece CID marshals"
			return nil
		}
		class, desc, inputs = withProtocolBattery()
		return nil
	})
	if r.out != "ok" {
		return wReply{Out: "panic", Msg: r.msg}
	}
	if class != "" {
		return wReply{Out: "err", Msg: class + "\x00" + desc}
	}
	hx := make([]string, len(inputs))
	for i, b := range inputs {
		hx[i] = hex.EncodeToString(b)
	}
	return wReply{Out: "ok", Msg: strings.Join(hx, ",")}
}

func (r *runner) doMisc() {
	c := r.c
	o := r.w.request("M")
	c.Eval()
	c.Count("misc:withprotocol+error+unmarshalable")
	switch o.out {
	case "ok":
		// the encodings made with registered custom protocols, decoded by Default: ordinary
		// decoder cases (model: unknown codes)
		for _, h := range strings.Split(o.msg, ",") {
			if h != "" {
				r.doDec("withprotocol-bytes-in-default-context", mustHex(h))
			}
		}
	case "panic":
		r.record("misc:panic", "misc:panic", "WithProtocol / Error / unmarshalable battery panicked: "+o.msg, Replay{Kind: "misc"})
	default:
		parts := strings.SplitN(o.msg, "\x00", 2)
		r.w.stop()
		r.record("misc:"+parts[0], "misc:"+parts[0], parts[len(parts)-1], Replay{Kind: "misc", What: parts[len(parts)-1]})
	}
}
