package main

// Driving the real metadata package: building protocols from specs, running
// Marshal/Unmarshal/Get/Protocols/Validate under recover() with an allocation
// meter, canonicalising what was observed, and printing it as Coq terms.

import (
	"bytes"
	"encoding/hex"
	"fmt"
	"reflect"
	"runtime"
	"sort"
	"strings"
	"unsafe"

	"github.com/ipfs/go-cid"
	"github.com/ipni/go-libipni/metadata"
	"github.com/multiformats/go-multicodec"
	"github.com/multiformats/go-varint"

	"verif/harness/vlib"
)

const (
	idBitswap = uint64(multicodec.TransportBitswap)
	idGS      = uint64(multicodec.TransportGraphsyncFilecoinv1)
	idGateway = uint64(multicodec.TransportIpfsGatewayHttp)
)

// PSpec is the JSON-able description of one protocol the harness constructs.
type PSpec struct {
	K    string `json:"k"`              // bitswap | gateway | gs | unknown | httpv1 (= metadata.HTTPV1())
	Cid  string `json:"cid,omitempty"`  // gs: hex of the piece CID bytes
	VD   bool   `json:"vd,omitempty"`   // gs: VerifiedDeal
	FR   bool   `json:"fr,omitempty"`   // gs: FastRetrieval
	Code uint64 `json:"code,omitempty"` // unknown: protocol code
	Body string `json:"body,omitempty"` // unknown: hex of the payload after code and size
}

func (s PSpec) id() uint64 {
	switch s.K {
	case "bitswap":
		return idBitswap
	case "gateway":
		return idGateway
	case "gs":
		return idGS
	case "httpv1":
		return uint64(multicodec.Http)
	}
	return s.Code
}

func (s PSpec) short() string {
	switch s.K {
	case "gs":
		return fmt.Sprintf("gs(%d,%v,%v)", len(s.Cid)/2, s.VD, s.FR)
	case "unknown":
		return fmt.Sprintf("u%x/%d", s.Code, len(s.Body)/2)
	case "unknown-raw":
		return fmt.Sprintf("Unknown{%#x,%s}", s.Code, s.Body)
	}
	return s.K
}

func unknownRaw(code uint64, body []byte) []byte {
	raw := append([]byte{}, varint.ToUvarint(code)...)
	raw = append(raw, varint.ToUvarint(uint64(len(body)))...)
	return append(raw, body...)
}

func mustHex(s string) []byte {
	b, err := hex.DecodeString(s)
	if err != nil {
		panic(err)
	}
	return b
}

// build constructs the real protocol value.
func (s PSpec) build() metadata.Protocol {
	switch s.K {
	case "bitswap":
		return &metadata.Bitswap{}
	case "gateway":
		return &metadata.IpfsGatewayHttp{}
	case "gs":
		c, err := cid.Cast(mustHex(s.Cid))
		if err != nil {
			panic("harness: bad cid in spec: " + err.Error())
		}
		return &metadata.GraphsyncFilecoinV1{PieceCID: c, VerifiedDeal: s.VD, FastRetrieval: s.FR}
	case "unknown":
		return &metadata.Unknown{Code: multicodec.Code(s.Code), Payload: unknownRaw(s.Code, mustHex(s.Body))}
	case "httpv1":
		return metadata.HTTPV1()
	}
	panic("harness: unknown spec kind " + s.K)
}

// OProto is a canonical view of a protocol value of the implementation.
type OProto struct {
	K    string
	Cid  []byte
	VD   bool
	FR   bool
	Code uint64
	Raw  []byte
}

func (s PSpec) oproto() OProto {
	switch s.K {
	case "gs":
		return OProto{K: "gs", Cid: mustHex(s.Cid), VD: s.VD, FR: s.FR}
	case "unknown":
		return OProto{K: "unknown", Code: s.Code, Raw: unknownRaw(s.Code, mustHex(s.Body))}
	case "httpv1":
		return observe(metadata.HTTPV1()) // whatever the library's constructor gives
	}
	return OProto{K: s.K}
}

func observe(p metadata.Protocol) OProto {
	switch t := p.(type) {
	case *metadata.Bitswap:
		return OProto{K: "bitswap"}
	case metadata.Bitswap:
		return OProto{K: "bitswap"}
	case *metadata.IpfsGatewayHttp:
		return OProto{K: "gateway"}
	case metadata.IpfsGatewayHttp:
		return OProto{K: "gateway"}
	case *metadata.GraphsyncFilecoinV1:
		return OProto{K: "gs", Cid: t.PieceCID.Bytes(), VD: t.VerifiedDeal, FR: t.FastRetrieval}
	case *metadata.Unknown:
		return OProto{K: "unknown", Code: uint64(t.Code), Raw: append([]byte{}, t.Payload...)}
	}
	panic(fmt.Sprintf("harness: unexpected protocol type %T", p))
}

func (o OProto) equal(p OProto) bool {
	return o.K == p.K && bytes.Equal(o.Cid, p.Cid) && o.VD == p.VD && o.FR == p.FR && o.Code == p.Code && bytes.Equal(o.Raw, p.Raw)
}

func (o OProto) coq() string {
	switch o.K {
	case "bitswap":
		return "PBitswap"
	case "gateway":
		return "PGateway"
	case "gs":
		return fmt.Sprintf("(PGraphsync %s %s %s)", cb(o.Cid), vlib.CoqBool(o.VD), vlib.CoqBool(o.FR))
	}
	return fmt.Sprintf("(U %s %s)", ci(o.Code), cb(o.Raw))
}

func coqProtos(ps []OProto) string {
	it := make([]string, len(ps))
	for i, p := range ps {
		it[i] = p.coq()
	}
	return vlib.CoqList(it)
}

func oprotosEqual(a, b []OProto) bool {
	if len(a) != len(b) {
		return false
	}
	for i := range a {
		if !a[i].equal(b[i]) {
			return false
		}
	}
	return true
}

// protocolsOf reads the unexported protocol list of a Metadata value (the API has
// Get (first match only) and Protocols (ids only), which cannot show a second
// protocol of the same ID).  No hook in /repo is needed for this.
func protocolsOf(m *metadata.Metadata) []metadata.Protocol {
	f := reflect.ValueOf(m).Elem().FieldByName("protocols")
	if !f.IsValid() {
		panic("harness: metadata.Metadata has no field 'protocols' any more")
	}
	return *(*[]metadata.Protocol)(unsafe.Pointer(f.UnsafeAddr()))
}

// ---------------------------------------------------------------------------
// guarded calls

type callRes struct {
	out   string // ok | err | panic
	msg   string
	alloc uint64 // bytes allocated during the call (runtime TotalAlloc delta)
}

func guarded(f func() error) (r callRes) {
	var m0, m1 runtime.MemStats
	runtime.ReadMemStats(&m0)
	func() {
		defer func() {
			if x := recover(); x != nil {
				r.out = "panic"
				r.msg = fmt.Sprint(x)
			}
		}()
		if err := f(); err != nil {
			r.out = "err"
			r.msg = err.Error()
		} else {
			r.out = "ok"
		}
	}()
	runtime.ReadMemStats(&m1)
	r.alloc = m1.TotalAlloc - m0.TotalAlloc
	return
}

func coqObs(out string, okTerm string) string {
	switch out {
	case "ok":
		return "(OOk " + okTerm + ")"
	case "err":
		return "OErr"
	}
	return "OPanic"
}

// DecObs is what UnmarshalBinary did on one input.
type DecObs struct {
	callRes
	protos []OProto
	m      *metadata.Metadata
}

func decodeReal(b []byte) DecObs {
	m := metadata.Default.New()
	in := append([]byte{}, b...) // the decoder must not be able to disturb our copy
	r := guarded(func() error { return m.UnmarshalBinary(in) })
	d := DecObs{callRes: r, m: &m}
	if r.out == "ok" {
		for _, p := range protocolsOf(&m) {
			d.protos = append(d.protos, observe(p))
		}
	}
	return d
}

// allocation bound of the property for a decoder input of n bytes, as checked on
// the implementation: proportional to the input plus a constant for the fixed
// machinery (builders, buffers, error values).
// (A valid graphsync-filecoin protocol of ~50 bytes costs ~9.5 KB in the ipld-prime
// builder machinery, hence the factor.)
func allocBound(n int) uint64 { return 256*uint64(n) + 64*1024 }

// ---------------------------------------------------------------------------
// encode side

type EncObs struct {
	marshal    callRes
	bytes      []byte
	dec        WObs
	ids        []uint64
	gets       []getObs
	validateOK bool
}

type getObs struct {
	id  uint64
	idx int // index into the input list of the protocol returned, -1 for nil, -2 for a foreign value
}

func stableSorted(specs []PSpec) []PSpec {
	s := append([]PSpec{}, specs...)
	sort.SliceStable(s, func(i, j int) bool { return s[i].id() < s[j].id() })
	return s
}

var probeIDs = []uint64{0, 0x55, idBitswap, idBitswap + 1, idGS, idGateway, idGateway + 1, 1 << 40}

func runEncode(specs []PSpec, w *worker) (EncObs, string, string) {
	var o EncObs
	built := make([]metadata.Protocol, len(specs))
	var m metadata.Metadata
	r := guarded(func() error {
		for i, s := range specs {
			built[i] = s.build()
		}
		m = metadata.Default.New(append([]metadata.Protocol{}, built...)...)
		return nil
	})
	if r.out != "ok" {
		o.marshal = r
		return o, "new-panic", "Default.New panicked: " + r.msg
	}
	// The arrangement New produced: must be the given protocols, each once, in ascending ID
	// order (the property leaves the order among equal IDs open; the Coq model fixes it
	// to construction order, which is what an insertion sort gives).
	var fail, desc string
	setFail := func(f, d string) {
		if fail == "" {
			fail, desc = f, d
		}
	}
	var arranged []OProto
	var want []byte
	ra := guarded(func() error {
		arr := protocolsOf(&m)
		usedIdx := make([]bool, len(built))
		for i, p := range arr {
			op := observe(p)
			arranged = append(arranged, op)
			if i > 0 && idOf(arranged[i-1]) > idOf(op) {
				setFail("concat", fmt.Sprintf("New did not arrange the protocols in ascending ID order: %#x before %#x", idOf(arranged[i-1]), idOf(op)))
			}
			found := false
			for j := range specs {
				if !usedIdx[j] && specs[j].oproto().equal(op) {
					usedIdx[j], found = true, true
					break
				}
			}
			if !found {
				setFail("concat", fmt.Sprintf("New holds a protocol that was not given (or twice): %v", op.K))
			}
			// the protocol encodings, taken one by one (property text: "the concatenation
			// of the protocol encodings in ascending protocol-ID order")
			e, err := p.MarshalBinary()
			if err != nil {
				return err
			}
			want = append(want, e...)
		}
		if len(arr) != len(specs) {
			setFail("concat", fmt.Sprintf("New holds %d protocols, %d were given", len(arr), len(specs)))
		}
		return nil
	})
	if ra.out == "panic" {
		return o, "marshal-panic", "a protocol's MarshalBinary panicked: " + ra.msg
	}
	if ra.out == "err" {
		return o, "marshal-err", "a protocol does not marshal: " + ra.msg
	}
	// Get / Protocols / Validate on the constructed value
	ids := map[uint64]bool{}
	for _, s := range specs {
		ids[s.id()] = true
	}
	probe := append([]uint64{}, probeIDs...)
	for id := range ids {
		probe = append(probe, id)
	}
	sort.Slice(probe, func(i, j int) bool { return probe[i] < probe[j] })
	rg := guarded(func() error {
		var last uint64 = 1<<64 - 1
		for _, id := range probe {
			if id == last {
				continue
			}
			last = id
			p := m.Get(multicodec.Code(id))
			g := getObs{id: id, idx: -1}
			if p != nil {
				g.idx = -2
				for i := range built {
					if reflect.ValueOf(built[i]).Pointer() == reflect.ValueOf(p).Pointer() && reflect.TypeOf(built[i]) == reflect.TypeOf(p) && observe(built[i]).equal(observe(p)) {
						// several zero-size values may share an address; equal content is what matters
						g.idx = i
						break
					}
				}
			}
			o.gets = append(o.gets, g)
			// direct oracle: every protocol can be retrieved by its ID
			if ids[id] {
				if p == nil {
					setFail("get", fmt.Sprintf("Get(%#x) returned nil although a protocol with that ID was given", id))
				} else if uint64(p.ID()) != id {
					setFail("get", fmt.Sprintf("Get(%#x) returned a protocol with ID %#x", id, uint64(p.ID())))
				} else {
					// a protocol that was constructed with that ID
					ok := false
					for _, s := range specs {
						if s.id() == id && observe(p).equal(s.oproto()) {
							ok = true
						}
					}
					if !ok {
						setFail("get", fmt.Sprintf("Get(%#x) returned a protocol that was not given", id))
					}
				}
			} else if p != nil {
				setFail("get", fmt.Sprintf("Get(%#x) returned a protocol although none with that ID was given", id))
			}
		}
		for _, c := range m.Protocols() {
			o.ids = append(o.ids, uint64(c))
		}
		o.validateOK = m.Validate() == nil
		return nil
	})
	if rg.out != "ok" {
		return o, "get-panic", "Get/Protocols/Validate panicked: " + rg.msg
	}
	wantIDs := make([]uint64, len(arranged))
	for i, p := range arranged {
		wantIDs[i] = idOf(p)
	}
	if fmt.Sprint(wantIDs) != fmt.Sprint(o.ids) {
		setFail("protocols", fmt.Sprintf("Protocols() = %v, want ascending IDs %v", o.ids, wantIDs))
	}
	if !o.validateOK && len(specs) > 0 {
		setFail("validate", "Validate() fails on freshly constructed metadata")
	}

	o.marshal = guarded(func() (err error) { o.bytes, err = m.MarshalBinary(); return })
	if o.marshal.out == "panic" {
		return o, "marshal-panic", "MarshalBinary panicked: " + o.marshal.msg
	}
	if o.marshal.out == "err" {
		return o, "marshal-err", "MarshalBinary failed: " + o.marshal.msg
	}
	if !bytes.Equal(o.bytes, want) {
		setFail("concat", fmt.Sprintf("MarshalBinary = %x, concatenation in ascending ID order = %x", o.bytes, want))
	}
	o.dec = w.decode(o.bytes)
	switch o.dec.out {
	case "panic":
		setFail("roundtrip-panic", "UnmarshalBinary(MarshalBinary(m)) panicked: "+o.dec.msg)
	case "err":
		setFail("roundtrip-err-"+slug(o.dec.msg), "UnmarshalBinary(MarshalBinary(m)) failed: "+o.dec.msg)
	default:
		wantP := arranged
		if !oprotosEqual(wantP, o.dec.protos) {
			cl := "roundtrip-differs"
			if len(wantP) != len(o.dec.protos) {
				cl = "roundtrip-count"
			}
			setFail(cl, fmt.Sprintf("UnmarshalBinary(MarshalBinary(m)) returned %d protocols [%s], the original has %d [%s]", len(o.dec.protos), kinds(o.dec.protos), len(specs), kinds(wantP)))
		} else {
			// the worker survived this input, so it is safe to decode it in this process
			d := decodeReal(o.bytes)
			if d.out != "ok" || !m.Equal(*d.m) {
				setFail("roundtrip-differs", "decoded metadata is not Equal to the original")
			} else {
				for id := range ids {
					if p := d.m.Get(multicodec.Code(id)); p == nil || uint64(p.ID()) != id {
						setFail("roundtrip-get", fmt.Sprintf("decoded metadata: Get(%#x) does not return a protocol with that ID", id))
					}
				}
			}
		}
	}
	if f, dsc := wOracle(o.bytes, o.dec); f != "" && o.dec.out != "err" {
		setFail("roundtrip-"+f, dsc)
	}
	return o, fail, desc
}

func kinds(ps []OProto) string {
	k := make([]string, len(ps))
	for i, p := range ps {
		k[i] = p.K
	}
	return strings.Join(k, ",")
}

func specSig(specs []PSpec) string {
	k := make([]string, len(specs))
	for i, s := range specs {
		k[i] = s.short()
	}
	return strings.Join(k, "|")
}

func (o EncObs) coq(specs []PSpec) string {
	in := make([]OProto, len(specs))
	for i, s := range specs {
		in[i] = s.oproto()
	}
	gets := make([]string, len(o.gets))
	for i, g := range o.gets {
		idx := "None"
		if g.idx >= 0 {
			idx = fmt.Sprintf("(Some %s)", ci(uint64(g.idx)))
		} else if g.idx == -2 {
			idx = "(Some 999999%uint63)"
		}
		gets[i] = fmt.Sprintf("(%s,%s)", ci(g.id), idx)
	}
	ids := make([]string, len(o.ids))
	for i, x := range o.ids {
		ids[i] = ci(x)
	}
	return fmt.Sprintf("(EncCaseI %s %s %s %s %s %s)", coqProtos(in),
		coqObs(o.marshal.out, cb(o.bytes)),
		coqObs(o.dec.out, coqProtos(o.dec.protos)),
		vlib.CoqList(ids), vlib.CoqList(gets), vlib.CoqBool(o.validateOK))
}

// limits ties two constants of the model to the implementation without writing
// megabyte literals: the largest link (multibase byte + CID) the DAG-CBOR decoder's
// allocation budget lets through inside graphsync-filecoin metadata.
const gsLinkMax = 10485701

// limitProbe runs inside the worker: graphsync-filecoin round trip with a link of n bytes.
func limitProbe(n int) callRes {
	// identity-multihash CID whose bytes have length n-1
	l := n - 1 - 3 - 4
	c := cat([]byte{0x01, 0x55, 0x00}, varint.ToUvarint(uint64(l)), make([]byte, l))
	if len(c) != n-1 {
		panic("harness: limits: cid length")
	}
	g := &metadata.GraphsyncFilecoinV1{}
	pc, err := cid.Cast(c)
	if err != nil {
		panic(err)
	}
	g.PieceCID = pc
	return guarded(func() (err error) {
		enc, err := g.MarshalBinary()
		if err != nil {
			return err
		}
		m := metadata.Default.New()
		if err := m.UnmarshalBinary(enc); err != nil {
			return err
		}
		re, err := m.MarshalBinary()
		if err != nil {
			return err
		}
		if !bytes.Equal(re, enc) {
			return fmt.Errorf("re-encoding differs")
		}
		return nil
	})
}

func (r *runner) limits() {
	for _, n := range []int{gsLinkMax - 1, gsLinkMax, gsLinkMax + 1, gsLinkMax + 2} {
		res := r.w.request(fmt.Sprintf("L%d", n))
		r.c.Eval()
		r.c.Count("lim:gs-link-length")
		if res.out == "panic" {
			r.c.Fail(fmt.Sprintf("lim:panic:gs-link-%d", n), "graphsync-filecoin round trip with a large CID panicked: "+res.msg, Replay{Kind: "lim", What: fmt.Sprint(n)})
		}
		r.c.Case("lim", fmt.Sprintf("(LimGsLink %d %s)", n, vlib.CoqBool(res.out == "ok")), Replay{Kind: "lim", What: fmt.Sprintf("gs link length %d -> %s %s", n, res.out, res.msg)})
	}
}

// cb prints a byte string for the case files: (B len [w1; w2; ...]) with seven bytes
// per primitive-integer literal (see coqPrelude in main.go).
func cb(b []byte) string {
	var sb strings.Builder
	fmt.Fprintf(&sb, "(B %s [", ci(uint64(len(b))))
	for i := 0; i < len(b); i += 7 {
		j := i + 7
		if j > len(b) {
			j = len(b)
		}
		var w uint64
		for _, x := range b[i:j] {
			w = w<<8 | uint64(x)
		}
		if i > 0 {
			sb.WriteString(";")
		}
		sb.WriteString(ci(w))
	}
	sb.WriteString("])")
	return sb.String()
}

// ci prints a number below 2^63 as a primitive-integer literal.
func ci(x uint64) string {
	if x >= 1<<63 {
		panic("harness: number does not fit a 63-bit literal")
	}
	return fmt.Sprintf("0x%x%%uint63", x)
}

// slug keeps the letters of the first words of an error message (no numbers, so that
// it names the kind of error and not the instance).
func slug(s string) string {
	var b strings.Builder
	for _, r := range s {
		switch {
		case r >= 'a' && r <= 'z' || r >= 'A' && r <= 'Z':
			b.WriteRune(r)
		case r == ' ' && b.Len() > 0 && !strings.HasSuffix(b.String(), "-"):
			b.WriteByte('-')
		}
		if b.Len() >= 48 {
			break
		}
	}
	return strings.TrimSuffix(b.String(), "-")
}
