package main

// Aliasing / history axis (oracle only: the functional Coq model cannot alias).
//
// The property speaks of values: "the binary encoding is …", "decoding it returns metadata
// equal to the original".  A byte slice handed out by MarshalBinary, or protocols handed
// out by UnmarshalBinary/Get, must therefore keep their value while the package is used
// for OTHER metadata.  A history encodes 2..4 different metadata values in turn, KEEPS
// every returned slice without copying, and afterwards checks each kept slice against a
// copy taken at the time and against its own metadata; it does the same for the buffers
// handed in to UnmarshalBinary (encoding.BinaryUnmarshaler: "UnmarshalBinary must copy the
// data if it wishes to retain the data after returning") and for Get/Protocols results.
// A concurrent variant has several goroutines marshal different values, each checking its
// own results.  Histories run inside the worker process.

import (
	"bytes"
	"encoding/json"
	"fmt"
	"runtime"
	"sort"
	"strings"
	"sync"
	"unsafe"

	"github.com/ipni/go-libipni/metadata"
	"github.com/multiformats/go-multicodec"
)

type aliasReq struct {
	Mode  string    `json:"mode"` // seq | conc
	Metas [][]PSpec `json:"metas"`
}

func observeAll(m *metadata.Metadata) []OProto {
	var out []OProto
	for _, p := range protocolsOf(m) {
		out = append(out, observe(p))
	}
	return out
}

func newMeta(specs []PSpec) metadata.Metadata {
	ps := make([]metadata.Protocol, len(specs))
	for i, s := range specs {
		ps[i] = s.build()
	}
	return metadata.Default.New(ps...)
}

func flip(b []byte) {
	for i := range b {
		b[i] ^= 0xff
	}
}

// aliasHistory returns (class, description) of the first violated check, or "", "".
// Classes starting with "obs-" are observations (counted, not failures).
func aliasHistory(metas [][]PSpec) (class, desc string, obs []string) {
	n := len(metas)
	ms := make([]metadata.Metadata, n)
	arranged := make([][]OProto, n)
	for i, specs := range metas {
		ms[i] = newMeta(specs)
		arranged[i] = observeAll(&ms[i])
	}
	kept := make([][]byte, n)   // as returned, never copied
	copies := make([][]byte, n) // copied immediately
	checkKept := func(upto int, when string) (string, string) {
		for j := 0; j <= upto; j++ {
			if !bytes.Equal(kept[j], copies[j]) {
				return "marshal-result-overwritten", fmt.Sprintf("the slice MarshalBinary returned for metadata #%d was %x; %s it reads %x", j, copies[j], when, kept[j])
			}
		}
		return "", ""
	}
	// 1. encode each in turn, keep the slices
	for i := range ms {
		b, err := ms[i].MarshalBinary()
		if err != nil {
			return "marshal-err", err.Error(), obs
		}
		kept[i] = b
		copies[i] = append([]byte{}, b...)
		if c, d := checkKept(i, fmt.Sprintf("after MarshalBinary of metadata #%d", i)); c != "" {
			return c, d, obs
		}
	}
	// encode them again (other order), the first results must still stand
	for i := n - 1; i >= 0; i-- {
		b, err := ms[i].MarshalBinary()
		if err != nil || !bytes.Equal(b, copies[i]) {
			return "marshal-unstable", fmt.Sprintf("second MarshalBinary of metadata #%d returned %x, first %x", i, b, copies[i]), obs
		}
		if c, d := checkKept(n-1, fmt.Sprintf("after a second MarshalBinary of metadata #%d", i)); c != "" {
			return c, d, obs
		}
	}
	// 2. every kept slice still decodes to its own metadata; keep the decoded values and
	// what Get returned, they are checked again after more activity
	decoded := make([]metadata.Metadata, n)
	inputs := make([][]byte, n)
	type got struct {
		p    metadata.Protocol
		snap OProto
	}
	var gets []got
	for i := range ms {
		if len(kept[i]) == 0 {
			continue
		}
		decoded[i] = metadata.Default.New()
		inputs[i] = append([]byte{}, copies[i]...)
		if err := decoded[i].UnmarshalBinary(kept[i]); err != nil {
			return "kept-result-undecodable", fmt.Sprintf("the slice kept from MarshalBinary of metadata #%d (%x at the time) no longer decodes: %v", i, copies[i], err), obs
		}
		if !oprotosEqual(observeAll(&decoded[i]), arranged[i]) {
			return "kept-result-decodes-differently", fmt.Sprintf("the slice kept from MarshalBinary of metadata #%d decodes to [%s], the metadata is [%s]", i, kinds(observeAll(&decoded[i])), kinds(arranged[i])), obs
		}
		for _, p := range arranged[i] {
			id := idOf(p)
			for _, m := range []*metadata.Metadata{&ms[i], &decoded[i]} {
				if g := m.Get(multicodec.Code(id)); g != nil {
					gets = append(gets, got{g, observe(g)})
				}
			}
		}
		if c, d := checkKept(n-1, fmt.Sprintf("after UnmarshalBinary of the slice of metadata #%d", i)); c != "" {
			return c, d, obs
		}
	}
	// 3. buffers handed IN: decode a private copy, then scribble over it
	decoded2 := make([]metadata.Metadata, n)
	for i := range ms {
		if len(copies[i]) == 0 {
			continue
		}
		decoded2[i] = metadata.Default.New()
		if err := decoded2[i].UnmarshalBinary(inputs[i]); err != nil {
			return "unmarshal-err", err.Error(), obs
		}
		before := observeAll(&decoded2[i])
		flip(inputs[i])
		after := observeAll(&decoded2[i])
		if !oprotosEqual(before, after) {
			return "unmarshal-retains-input", fmt.Sprintf("metadata decoded from %x changed from [%s] when the caller overwrote its input buffer", copies[i], kinds(before)), obs
		}
		re, err := decoded2[i].MarshalBinary()
		if err != nil || !bytes.Equal(re, copies[i]) {
			return "unmarshal-retains-input", fmt.Sprintf("metadata decoded from %x re-encodes to %x after the caller overwrote its input buffer", copies[i], re), obs
		}
	}
	// 4. scribble over what MarshalBinary returned: the metadata itself must not change
	for i := range ms {
		b, _ := ms[i].MarshalBinary()
		flip(b)
		changed := !oprotosEqual(observeAll(&ms[i]), arranged[i])
		flip(b) // put it back: if it does alias shared state, leave that state intact
		if changed {
			return "marshal-result-aliases-metadata", fmt.Sprintf("overwriting the slice MarshalBinary returned for metadata #%d changed the metadata", i), obs
		}
		flip(b)
		b2, err := ms[i].MarshalBinary()
		b2c := append([]byte{}, b2...)
		flip(b)
		if err != nil || !bytes.Equal(b2c, copies[i]) {
			return "marshal-result-aliases-metadata", fmt.Sprintf("after the caller overwrote the slice MarshalBinary returned, metadata #%d encodes to %x instead of %x", i, b2c, copies[i]), obs
		}
	}
	// Protocols(): a fresh slice every time
	for i := range ms {
		ids := ms[i].Protocols()
		for k := range ids {
			ids[k] = 0
		}
		for k, c := range ms[i].Protocols() {
			if uint64(c) != idOf(arranged[i][k]) {
				return "protocols-result-aliases-metadata", fmt.Sprintf("overwriting the slice Protocols() returned changed Protocols() of metadata #%d", i), obs
			}
		}
	}
	// 5. everything handed out earlier still has its value
	for i := range ms {
		if len(copies[i]) == 0 {
			continue
		}
		if !oprotosEqual(observeAll(&decoded[i]), arranged[i]) {
			return "decoded-metadata-changed", fmt.Sprintf("metadata decoded from %x changed while other metadata was encoded and decoded", copies[i]), obs
		}
	}
	for _, g := range gets {
		if !observe(g.p).equal(g.snap) {
			return "get-result-changed", fmt.Sprintf("a protocol returned by Get (%s, ID %#x) changed while other metadata was encoded and decoded", g.snap.K, idOf(g.snap)), obs
		}
	}
	// observations about the protocol-level MarshalBinary (never written to here: doing so
	// would corrupt package-level state)
	seen := map[string]bool{}
	for i := range ms {
		for _, p := range protocolsOf(&ms[i]) {
			a, _ := p.MarshalBinary()
			b, _ := p.MarshalBinary()
			if len(a) > 0 && len(b) > 0 && unsafe.Pointer(&a[0]) == unsafe.Pointer(&b[0]) {
				k := "obs-protocol-marshal-returns-internal-storage:" + observe(p).K
				if !seen[k] {
					seen[k] = true
					obs = append(obs, k)
				}
			}
		}
	}
	sort.Strings(obs)
	return "", "", obs
}

// aliasConcurrent: one goroutine per metadata value, each marshalling its own value many
// times and checking its own results (immediately, after yielding, and by decoding).
func aliasConcurrent(metas [][]PSpec) (class, desc string) {
	n := len(metas)
	want := make([][]byte, n)
	arranged := make([][]OProto, n)
	for i, specs := range metas {
		m := newMeta(specs)
		b, err := m.MarshalBinary()
		if err != nil {
			return "marshal-err", err.Error()
		}
		want[i] = append([]byte{}, b...)
		arranged[i] = observeAll(&m)
	}
	var mu sync.Mutex
	fail := func(c, d string) {
		mu.Lock()
		if class == "" {
			class, desc = c, d
		}
		mu.Unlock()
	}
	var wg sync.WaitGroup
	start := make(chan struct{})
	for g := 0; g < n; g++ {
		wg.Add(1)
		go func(g int) {
			defer wg.Done()
			defer func() {
				if x := recover(); x != nil {
					fail("concurrent-panic", fmt.Sprint(x))
				}
			}()
			m := newMeta(metas[g])
			<-start
			var keep [][]byte
			for it := 0; it < 300; it++ {
				b, err := m.MarshalBinary()
				if err != nil {
					fail("marshal-err", err.Error())
					return
				}
				keep = append(keep, b)
				if len(keep) > 4 {
					keep = keep[1:]
				}
				runtime.Gosched()
				for _, k := range keep {
					if !bytes.Equal(k, want[g]) {
						fail("concurrent-marshal-result-overwritten", fmt.Sprintf("goroutine %d: a slice MarshalBinary returned for its metadata (%x) reads %x while other goroutines marshal other metadata", g, want[g], k))
						return
					}
				}
				if it%16 == 0 && len(b) > 0 {
					d := metadata.Default.New()
					if err := d.UnmarshalBinary(b); err != nil || !oprotosEqual(observeAll(&d), arranged[g]) {
						fail("concurrent-roundtrip", fmt.Sprintf("goroutine %d: its own encoding no longer decodes to its metadata (%v)", g, err))
						return
					}
				}
			}
		}(g)
	}
	close(start)
	wg.Wait()
	return
}

func aliasServe(line string) wReply {
	var rq aliasReq
	if err := json.Unmarshal([]byte(line), &rq); err != nil {
		return wReply{Out: "panic", Msg: "harness: bad alias request: " + err.Error()}
	}
	var class, desc string
	var obs []string
	r := guarded(func() error {
		if rq.Mode == "conc" {
			class, desc = aliasConcurrent(rq.Metas)
		} else {
			class, desc, obs = aliasHistory(rq.Metas)
		}
		return nil
	})
	if r.out == "panic" {
		return wReply{Out: "panic", Msg: r.msg}
	}
	if class != "" {
		return wReply{Out: "err", Msg: class + "\x00" + desc}
	}
	return wReply{Out: "ok", Msg: strings.Join(obs, ",")}
}

// ---------------------------------------------------------------------------
// parent side

func metasSig(metas [][]PSpec) string {
	p := make([]string, len(metas))
	for i, m := range metas {
		p[i] = specSig(m)
	}
	return strings.Join(p, " ; ")
}

func (r *runner) aliasOnce(mode string, metas [][]PSpec) (class, desc, obs string) {
	js, _ := json.Marshal(aliasReq{Mode: mode, Metas: metas})
	o := r.w.request("A" + string(js))
	switch o.out {
	case "ok":
		return "", "", o.msg
	case "panic":
		return "panic", "the history panicked / aborted / hung: " + o.msg, ""
	}
	r.w.stop() // a failed history may have left shared state of the package disturbed
	parts := strings.SplitN(o.msg, "\x00", 2)
	if len(parts) == 2 {
		return parts[0], parts[1], ""
	}
	return "failed", o.msg, ""
}

func (r *runner) doAlias(mode string, metas [][]PSpec) {
	c := r.c
	if r.w.hangs > 25 {
		return
	}
	class, desc, obs := r.aliasOnce(mode, metas)
	c.Eval()
	c.Count("alias:" + mode)
	c.Count(fmt.Sprintf("alias:%s:metadata-values=%d", mode, len(metas)))
	c.Nontrivial("a" + mode + metasSig(metas))
	for _, o := range strings.Split(obs, ",") {
		if o != "" {
			c.Count(o)
		}
	}
	if class == "" {
		return
	}
	c.Count("fail:alias:" + class)
	if r.perClass["alias:"+class] >= 2 {
		return
	}
	r.perClass["alias:"+class]++
	// shrink: fewer metadata values, fewer and simpler protocols
	same := func(cand [][]PSpec) bool {
		for tries := 0; tries < 1+2*btoi(mode == "conc"); tries++ {
			if cl, d, _ := r.aliasOnce(mode, cand); cl == class {
				desc = d
				return true
			}
		}
		return false
	}
	for changed := true; changed; {
		changed = false
		for i := 0; i < len(metas) && !changed && len(metas) > 2; i++ {
			cand := append(append([][]PSpec{}, metas[:i]...), metas[i+1:]...)
			if same(cand) {
				metas, changed = cand, true
			}
		}
		for i := 0; i < len(metas) && !changed; i++ {
			for k := 0; k < len(metas[i]) && !changed && len(metas[i]) > 1; k++ {
				cand := append([][]PSpec{}, metas...)
				cand[i] = append(append([]PSpec{}, metas[i][:k]...), metas[i][k+1:]...)
				if same(cand) {
					metas, changed = cand, true
				}
			}
			for k := 0; k < len(metas[i]) && !changed; k++ {
				for _, s := range simpler(metas[i][k]) {
					cand := append([][]PSpec{}, metas...)
					cand[i] = append([]PSpec{}, metas[i]...)
					cand[i][k] = s
					if same(cand) {
						metas, changed = cand, true
						break
					}
				}
			}
		}
	}
	r.record("alias:"+class, "alias:"+mode+":"+class+":"+metasSig(metas), desc, Replay{Kind: "alias", Mode: mode, Metas: metas, What: desc})
}

func btoi(b bool) int {
	if b {
		return 1
	}
	return 0
}
