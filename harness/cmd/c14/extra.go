package main

import (
	"context"
	"fmt"
	"time"

	cidlink "github.com/ipld/go-ipld-prime/linking/cid"
	"github.com/ipni/go-libipni/dagsync"

	"verif/harness/subdrv"
	"verif/harness/vlib"
)

// runOrder: two explicit syncs A, B of one publisher.  A is held right after handle
// returned (yield sync:handled) until B has sent its event; B is started once A's handle
// is in its deferred function (yield handle:unlocking), with a newer head published.
// The property: events of a publisher appear in the order in which its syncs completed,
// and the latest-sync value is that of the last completed sync.
func runOrder(sc Scenario) (res Result) {
	res.Sc = sc
	t0 := time.Now()
	p := subdrv.NewPub(0, sc.Seed)
	defer p.Close()
	advA, advB := sc.Rounds[0][0].Adv, sc.Rounds[1][0].Adv
	p.Extend(advA + advB)
	hA, hB := advA-1, advA+advB-1
	pubs := []*subdrv.Pub{p}
	w := subdrv.NewWorld(pubs)
	sched := subdrv.NewSched(pubs, sc.Rules, vlib.NewRand(sc.Seed), 0)
	sched.Install()
	defer sched.Uninstall()
	closed := false
	defer func() {
		if !closed {
			subdrv.Call(watchdog, func() { w.Sub.Close() })
		}
	}()

	l := &liveListener{spec: ListenerSpec{Kind: "fast", RegRound: -1, CanRound: -1}, done: make(chan struct{}), start: make(chan struct{})}
	l.ch, l.cancel = w.Sub.OnSyncFinished()
	go l.reader()

	p.SetHead(hA)
	doneA := make(chan error, 1)
	go func() {
		_, err := w.Sub.SyncAdChain(context.Background(), p.Info())
		doneA <- err
	}()
	if !sched.WaitFor("handle:unlocking", 0, 1, watchdog) {
		res.fail("order:setup", "first sync never completed its handle")
		return
	}
	p.SetHead(hB)
	doneB := make(chan error, 1)
	go func() {
		var err error
		if sc.Rounds[1][0].Kind == "announce" {
			err = w.Sub.Announce(context.Background(), p.Chain[hB], p.Info())
		} else {
			_, err = w.Sub.SyncAdChain(context.Background(), p.Info())
		}
		doneB <- err
	}()
	for _, ch := range []chan error{doneA, doneB} {
		select {
		case err := <-ch:
			if err != nil {
				res.fail("order:sync-error", "sync failed: "+err.Error())
			}
		case <-time.After(2 * watchdog):
			res.fail("sync:blocked", "a concurrent explicit sync of the same publisher did not return")
		}
	}
	// both events
	deadline := time.Now().Add(watchdog)
	for {
		l.mu.Lock()
		n := len(l.recv)
		l.mu.Unlock()
		if n >= 2 || time.Now().After(deadline) {
			break
		}
		time.Sleep(200 * time.Microsecond)
	}
	latest := -1
	if lk := w.Sub.GetLatestSync(p.ID); lk != nil {
		latest = p.Index(lk.(cidlink.Link).Cid)
	}
	subdrv.Call(watchdog, func() { w.Sub.Close() })
	closed = true
	close(l.start)
	select {
	case <-l.done:
	case <-time.After(watchdog):
		res.fail("listener:not-closed:fast", "listener channel not closed by Close")
	}
	l.mu.Lock()
	for _, e := range l.recv {
		ci := p.Index(e.Cid)
		sid := -1
		if ci == hA {
			sid = 0
		} else if ci == hB {
			sid = 1
		}
		res.Fwd = append(res.Fwd, Ev{Sid: sid, Async: sid == 1 && sc.Rounds[1][0].Kind == "announce", Pub: 0, Cid: ci, Cnt: e.Count, Err: e.Err != nil})
	}
	closedL := l.closed
	l.mu.Unlock()
	res.Listeners = []ObsListener{{Spec: l.spec, Recv: res.Fwd, Closed: closedL}}
	// completion order: A's handle finished before B was started
	res.DoneOrder = map[int][]int{0: {0, 1}}
	var sent []int
	for _, e := range res.Fwd {
		sent = append(sent, e.Sid)
	}
	res.SentOrder = map[int][]int{0: sent}
	if len(sent) != 2 {
		res.fail(fmt.Sprintf("event:count-%d", len(sent)), fmt.Sprintf("two updating syncs, %d notifications", len(sent)))
	} else if sent[0] != 0 || sent[1] != 1 {
		res.fail("order:explicit-"+sc.Rounds[1][0].Kind+":same-publisher:events-BA-completion-AB",
			fmt.Sprintf("publisher 0: sync A (to #%d) completed before sync B (to #%d) started its handle, but B's notification was delivered first: %s", hA, hB, evs(res.Fwd)))
	}
	if latest != hB {
		res.fail("order:explicit-"+sc.Rounds[1][0].Kind+":same-publisher:latest-regressed",
			fmt.Sprintf("publisher 0: after syncs to #%d then #%d completed in that order, GetLatestSync is #%d", hA, hB, latest))
	}
	res.DurMs = float64(time.Since(t0).Microseconds()) / 1000
	return res
}

// runTiming: the same N sequential syncs with and without three listeners that never read.
// A stalled listener must not delay syncs or the other listener, and must still find every
// notification, in order, followed by the close, when it finally reads.
func runTiming(sc Scenario) (res Result) {
	res.Sc = sc
	n := 60
	if sc.Rounds != nil && len(sc.Rounds) > 0 && len(sc.Rounds[0]) > 0 && sc.Rounds[0][0].Adv > 0 {
		n = sc.Rounds[0][0].Adv
	}
	run := func(stalled int) (total time.Duration, maxLat time.Duration, r Result) {
		p := subdrv.NewPub(0, sc.Seed+uint64(stalled))
		defer p.Close()
		p.Extend(n)
		pubs := []*subdrv.Pub{p}
		w := subdrv.NewWorld(pubs)
		sched := subdrv.NewSched(pubs, nil, nil, 0)
		sched.Install()
		defer sched.Uninstall()
		ref := &liveListener{spec: ListenerSpec{Kind: "fast", RegRound: -1, CanRound: -1}, done: make(chan struct{}), start: make(chan struct{})}
		ref.ch, ref.cancel = w.Sub.OnSyncFinished()
		got := make(chan dagsync.SyncFinished, n+1)
		go func() {
			defer close(ref.done)
			for ev := range ref.ch {
				ref.mu.Lock()
				ref.recv = append(ref.recv, ev)
				ref.mu.Unlock()
				got <- ev
			}
			ref.mu.Lock()
			ref.closed = true
			ref.mu.Unlock()
		}()
		var st []*liveListener
		for i := 0; i < stalled; i++ {
			l := &liveListener{spec: ListenerSpec{Kind: "stalled", RegRound: -1, CanRound: -1}, done: make(chan struct{}), start: make(chan struct{})}
			l.ch, l.cancel = w.Sub.OnSyncFinished()
			go l.reader()
			st = append(st, l)
		}
		for i := 0; i < n; i++ {
			p.SetHead(i)
			t0 := time.Now()
			ok, _ := subdrv.Call(watchdog, func() { _, _ = w.Sub.SyncAdChain(context.Background(), p.Info()) })
			total += time.Since(t0)
			if !ok {
				r.fail("timing:sync-blocked", fmt.Sprintf("sync %d of %d did not return within %v with %d stalled listeners", i, n, watchdog, stalled))
				break
			}
			t1 := time.Now()
			select {
			case <-got:
			case <-time.After(watchdog):
				r.fail("timing:reader-blocked", fmt.Sprintf("the reading listener did not get notification %d within %v with %d stalled listeners", i, watchdog, stalled))
			}
			if d := time.Since(t1); d > maxLat {
				maxLat = d
			}
		}
		subdrv.Call(watchdog, func() { w.Sub.Close() })
		for _, l := range append([]*liveListener{ref}, st...) {
			close(l.start)
			select {
			case <-l.done:
			case <-time.After(watchdog):
				r.fail("listener:not-closed:"+l.spec.Kind, "listener channel not closed after Close")
			}
		}
		conv := func(l *liveListener) []Ev {
			var out []Ev
			l.mu.Lock()
			defer l.mu.Unlock()
			for _, e := range l.recv {
				ci := p.Index(e.Cid)
				out = append(out, Ev{Sid: ci, Pub: 0, Cid: ci, Cnt: e.Count, Err: e.Err != nil})
			}
			return out
		}
		r.Fwd = conv(ref)
		for _, l := range st {
			o := ObsListener{Spec: l.spec, Recv: conv(l), Closed: l.closed}
			r.Listeners = append(r.Listeners, o)
			if len(o.Recv) != n || !windowOK(r.Fwd, o) {
				r.fail("timing:stalled-listener-lost-events", fmt.Sprintf("a listener that read only after Close found %d of %d notifications", len(o.Recv), n))
			}
		}
		return
	}
	t0 := time.Now()
	base, latBase, rb := run(0)
	with, latWith, rw := run(3)
	res.Fwd, res.Listeners = rw.Fwd, rw.Listeners
	res.Failures = append(rb.Failures, rw.Failures...)
	res.Sigs = append(rb.Sigs, rw.Sigs...)
	if with > 3*base+150*time.Millisecond {
		res.fail("timing:stalled-listener-delays-syncs", fmt.Sprintf("%d syncs took %v with three listeners that do not read, %v without", n, with, base))
	}
	if latWith > 10*latBase+300*time.Millisecond {
		res.fail("timing:stalled-listener-delays-reader", fmt.Sprintf("the reading listener waited up to %v for a notification with three stalled listeners, %v without", latWith, latBase))
	}
	res.DurMs = float64(time.Since(t0).Microseconds()) / 1000
	res.Sc.Rounds = [][]Action{{{Pub: 0, Kind: "explicit", Adv: n}}}
	return res
}
