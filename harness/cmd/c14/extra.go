package main

import (
	"context"
	"fmt"
	"time"

	"github.com/ipfs/go-cid"
	cidlink "github.com/ipld/go-ipld-prime/linking/cid"
	"github.com/ipni/go-libipni/dagsync"

	"verif/harness/subdrv"
	"verif/harness/vlib"
)

// runOrder: two explicit syncs A, B of one publisher.  A is held right after handle
// returned (yield sync:handled) until B has sent its event; B is started once A's handle
// is in its deferred function (yield handle:unlocking), with a newer head published.
// The property: events of a publisher appear in the order in which its syncs completed,
// and the latest-sync value is that of the last completed sync.
func runOrder(sc Scenario) (res Result) {
	res.Sc = sc
	t0 := time.Now()
	p := subdrv.NewPub(0, sc.Seed)
	defer p.Close()
	advA, advB := sc.Rounds[0][0].Adv, sc.Rounds[1][0].Adv
	p.Extend(advA + advB)
	hA, hB := advA-1, advA+advB-1
	pubs := []*subdrv.Pub{p}
	w := subdrv.NewWorld(pubs)
	sched := subdrv.NewSched(pubs, sc.Rules, vlib.NewRand(sc.Seed), 0)
	sched.Install()
	defer sched.Uninstall()
	closed := false
	defer func() {
		if !closed {
			subdrv.Call(watchdog, func() { w.Sub.Close() })
		}
	}()

	l := &liveListener{spec: ListenerSpec{Kind: "fast", RegRound: -1, CanRound: -1}, done: make(chan struct{}), start: make(chan struct{})}
	l.ch, l.cancel = w.Sub.OnSyncFinished()
	go l.reader()

	p.SetHead(hA)
	doneA := make(chan error, 1)
	go func() {
		_, err := w.Sub.SyncAdChain(context.Background(), p.Info())
		doneA <- err
	}()
	if !sched.WaitFor("handle:unlocking", 0, 1, watchdog) {
		res.fail("order:setup", "first sync never completed its handle")
		return
	}
	p.SetHead(hB)
	doneB := make(chan error, 1)
	go func() {
		var err error
		if sc.Rounds[1][0].Kind == "announce" {
			err = w.Sub.Announce(context.Background(), p.Chain[hB], p.Info())
		} else {
			_, err = w.Sub.SyncAdChain(context.Background(), p.Info())
		}
		doneB <- err
	}()
	for _, ch := range []chan error{doneA, doneB} {
		select {
		case err := <-ch:
			if err != nil {
				res.fail("order:sync-error", "sync failed: "+err.Error())
			}
		case <-subdrv.After(2 * watchdog):
			res.fail("sync:blocked", "a concurrent explicit sync of the same publisher did not return")
		}
	}
	// both events
	deadline := subdrv.NewDeadline(watchdog)
	for {
		l.mu.Lock()
		n := len(l.recv)
		l.mu.Unlock()
		if n >= 2 || deadline.Expired() {
			break
		}
		time.Sleep(200 * time.Microsecond)
	}
	latest := -1
	if lk := w.Sub.GetLatestSync(p.ID); lk != nil {
		latest = p.Index(lk.(cidlink.Link).Cid)
	}
	subdrv.Call(watchdog, func() { w.Sub.Close() })
	closed = true
	close(l.start)
	select {
	case <-l.done:
	case <-subdrv.After(watchdog):
		res.fail("listener:not-closed:fast", "listener channel not closed by Close")
	}
	l.mu.Lock()
	for _, e := range l.recv {
		ci := p.Index(e.Cid)
		sid := -1
		if ci == hA {
			sid = 0
		} else if ci == hB {
			sid = 1
		}
		res.Fwd = append(res.Fwd, Ev{Sid: sid, Async: sid == 1 && sc.Rounds[1][0].Kind == "announce", Pub: 0, Cid: ci, Cnt: e.Count, Err: e.Err != nil})
	}
	closedL := l.closed
	l.mu.Unlock()
	res.Listeners = []ObsListener{{Spec: l.spec, Recv: res.Fwd, Closed: closedL}}
	// completion order: A's handle finished before B was started
	res.DoneOrder = map[int][]int{0: {0, 1}}
	var sent []int
	for _, e := range res.Fwd {
		sent = append(sent, e.Sid)
	}
	res.SentOrder = map[int][]int{0: sent}
	if len(sent) != 2 {
		res.fail(fmt.Sprintf("event:count-%d", len(sent)), fmt.Sprintf("two updating syncs, %d notifications", len(sent)))
	} else if sent[0] != 0 || sent[1] != 1 {
		res.fail("order:explicit-"+sc.Rounds[1][0].Kind+":same-publisher:events-BA-completion-AB",
			fmt.Sprintf("publisher 0: sync A (to #%d) completed before sync B (to #%d) started its handle, but B's notification was delivered first: %s", hA, hB, evs(res.Fwd)))
	}
	if latest != hB {
		res.fail("order:explicit-"+sc.Rounds[1][0].Kind+":same-publisher:latest-regressed",
			fmt.Sprintf("publisher 0: after syncs to #%d then #%d completed in that order, GetLatestSync is #%d", hA, hB, latest))
	}
	res.DurMs = float64(time.Since(t0).Microseconds()) / 1000
	return res
}

// runTiming: the same N sequential syncs with and without three listeners that never read.
// A stalled listener must not delay syncs or the other listener, and must still find every
// notification, in order, followed by the close, when it finally reads.
func runTiming(sc Scenario) (res Result) {
	res.Sc = sc
	n := 60
	if sc.Rounds != nil && len(sc.Rounds) > 0 && len(sc.Rounds[0]) > 0 && sc.Rounds[0][0].Adv > 0 {
		n = sc.Rounds[0][0].Adv
	}
	run := func(stalled int) (total time.Duration, maxLat time.Duration, r Result) {
		p := subdrv.NewPub(0, sc.Seed+uint64(stalled))
		defer p.Close()
		p.Extend(n)
		pubs := []*subdrv.Pub{p}
		w := subdrv.NewWorld(pubs)
		sched := subdrv.NewSched(pubs, nil, nil, 0)
		sched.Install()
		defer sched.Uninstall()
		ref := &liveListener{spec: ListenerSpec{Kind: "fast", RegRound: -1, CanRound: -1}, done: make(chan struct{}), start: make(chan struct{})}
		ref.ch, ref.cancel = w.Sub.OnSyncFinished()
		got := make(chan dagsync.SyncFinished, n+1)
		go func() {
			defer close(ref.done)
			for ev := range ref.ch {
				ref.mu.Lock()
				ref.recv = append(ref.recv, ev)
				ref.mu.Unlock()
				got <- ev
			}
			ref.mu.Lock()
			ref.closed = true
			ref.mu.Unlock()
		}()
		var st []*liveListener
		for i := 0; i < stalled; i++ {
			l := &liveListener{spec: ListenerSpec{Kind: "stalled", RegRound: -1, CanRound: -1}, done: make(chan struct{}), start: make(chan struct{})}
			l.ch, l.cancel = w.Sub.OnSyncFinished()
			go l.reader()
			st = append(st, l)
		}
		for i := 0; i < n; i++ {
			p.SetHead(i)
			t0 := subdrv.RespNow()
			ok, _ := subdrv.Call(watchdog, func() { _, _ = w.Sub.SyncAdChain(context.Background(), p.Info()) })
			total += subdrv.RespNow() - t0
			if !ok {
				r.fail("timing:sync-blocked", fmt.Sprintf("sync %d of %d did not return within %v with %d stalled listeners", i, n, watchdog, stalled))
				break
			}
			t1 := subdrv.RespNow()
			select {
			case <-got:
			case <-subdrv.After(watchdog):
				r.fail("timing:reader-blocked", fmt.Sprintf("the reading listener did not get notification %d within %v with %d stalled listeners", i, watchdog, stalled))
			}
			if d := subdrv.RespNow() - t1; d > maxLat {
				maxLat = d
			}
		}
		subdrv.Call(watchdog, func() { w.Sub.Close() })
		for _, l := range append([]*liveListener{ref}, st...) {
			close(l.start)
			select {
			case <-l.done:
			case <-subdrv.After(watchdog):
				r.fail("listener:not-closed:"+l.spec.Kind, "listener channel not closed after Close")
			}
		}
		conv := func(l *liveListener) []Ev {
			var out []Ev
			l.mu.Lock()
			defer l.mu.Unlock()
			for _, e := range l.recv {
				ci := p.Index(e.Cid)
				out = append(out, Ev{Sid: ci, Pub: 0, Cid: ci, Cnt: e.Count, Err: e.Err != nil})
			}
			return out
		}
		r.Fwd = conv(ref)
		for _, l := range st {
			o := ObsListener{Spec: l.spec, Recv: conv(l), Closed: l.closed}
			r.Listeners = append(r.Listeners, o)
			if len(o.Recv) != n || !windowOK(r.Fwd, o) {
				r.fail("timing:stalled-listener-lost-events", fmt.Sprintf("a listener that read only after Close found %d of %d notifications", len(o.Recv), n))
			}
		}
		return
	}
	t0 := time.Now()
	base, latBase, rb := run(0)
	with, latWith, rw := run(3)
	res.Fwd, res.Listeners = rw.Fwd, rw.Listeners
	res.Failures = append(rb.Failures, rw.Failures...)
	res.Sigs = append(rb.Sigs, rw.Sigs...)
	if with > 3*base+150*time.Millisecond {
		res.fail("timing:stalled-listener-delays-syncs", fmt.Sprintf("%d syncs took %v with three listeners that do not read, %v without", n, with, base))
	}
	if latWith > 10*latBase+300*time.Millisecond {
		res.fail("timing:stalled-listener-delays-reader", fmt.Sprintf("the reading listener waited up to %v for a notification with three stalled listeners, %v without", latWith, latBase))
	}
	res.DurMs = float64(time.Since(t0).Microseconds()) / 1000
	res.Sc.Rounds = [][]Action{{{Pub: 0, Kind: "explicit", Adv: n}}}
	return res
}

// runBacklog: n completed one-block syncs of one publisher (explicit and announce-triggered in
// turn) with a listener that reads at once, one that does not read until it has been
// cancelled, one that does not read until Close, and one that reads one notification every
// ten syncs.  Each must receive every notification between its registration and its
// cancel / the close, in order, no gap, then find the channel closed: a bounded or lossy
// per-listener queue shows as soon as n exceeds its size.
func runBacklog(sc Scenario) (res Result) {
	res.Sc = sc
	t0 := time.Now()
	n := sc.Rounds[0][0].Adv
	p := subdrv.NewPub(0, sc.Seed)
	defer p.Close()
	p.Extend(n + 1)
	pubs := []*subdrv.Pub{p}
	w := subdrv.NewWorld(pubs)
	sched := subdrv.NewSched(pubs, nil, nil, 0)
	sched.Install()
	defer sched.Uninstall()
	closed := false
	defer func() {
		if !closed {
			subdrv.Call(watchdog, func() { w.Sub.Close() })
		}
	}()
	mk := func(kind string) *liveListener {
		l := &liveListener{spec: ListenerSpec{Kind: kind, RegRound: -1, CanRound: -1}, done: make(chan struct{}), start: make(chan struct{})}
		l.ch, l.cancel = w.Sub.OnSyncFinished()
		return l
	}
	ref := mk("fast")
	go ref.reader()
	cancelled := mk("stalled") // drained after its cancel
	go cancelled.reader()
	tillClose := mk("stalled") // drained after Close
	go tillClose.reader()
	sparse := mk("sparse") // one read every ten syncs, the rest after Close
	sparseGot := 0
	var sparseRecv []dagsync.SyncFinished

	p.SetHead(0)
	if _, err := w.Sub.SyncAdChain(context.Background(), p.Info()); err != nil {
		res.fail("backlog:setup", err.Error())
		return
	}
	for i := 1; i <= n-1; i++ {
		p.SetHead(i)
		if i%2 == 0 {
			if err := w.Sub.Announce(context.Background(), p.Chain[i], p.Info()); err != nil {
				res.fail("backlog:announce", err.Error())
				return
			}
		} else {
			ok, _ := subdrv.Call(watchdog, func() { _, _ = w.Sub.SyncAdChain(context.Background(), p.Info()) })
			if !ok {
				res.fail("backlog:sync-blocked", fmt.Sprintf("sync %d of %d did not return with stalled listeners %d notifications behind", i, n, i))
				return
			}
		}
		deadline := subdrv.NewDeadline(watchdog)
		for {
			ref.mu.Lock()
			got := len(ref.recv)
			ref.mu.Unlock()
			if got >= i+1 {
				break
			}
			if deadline.Expired() {
				res.fail("backlog:reader-blocked", fmt.Sprintf("the reading listener did not get notification %d of %d", i+1, n))
				return
			}
			time.Sleep(50 * time.Microsecond)
		}
		if i%10 == 0 {
			select {
			case ev := <-sparse.ch:
				sparseRecv = append(sparseRecv, ev)
				sparseGot++
			case <-subdrv.After(watchdog):
				res.fail("backlog:sparse-reader-blocked", "a listener with queued notifications could not read one")
				return
			}
		}
	}
	conv := func(evs []dagsync.SyncFinished) []Ev {
		var out []Ev
		for _, e := range evs {
			ci := p.Index(e.Cid)
			out = append(out, Ev{Sid: ci, Async: ci > 0 && ci%2 == 0, Pub: 0, Cid: ci, Cnt: e.Count, Err: e.Err != nil})
		}
		return out
	}
	drain := func(l *liveListener, what string) []Ev {
		close(l.start)
		select {
		case <-l.done:
		case <-subdrv.After(2 * watchdog):
			res.fail("listener:not-closed:"+what, fmt.Sprintf("the channel of the listener drained after %s was not closed", what))
		}
		l.mu.Lock()
		defer l.mu.Unlock()
		return conv(l.recv)
	}
	// cancel one stalled listener with its whole backlog queued, then let it read
	if ok, _ := subdrv.Call(watchdog, func() { cancelled.cancel() }); !ok {
		res.fail("backlog:cancel-blocked", fmt.Sprintf("the cancel func of a listener %d notifications behind did not return within %v", n, watchdog))
		return
	}
	cRecv := drain(cancelled, "cancel")
	if ok, _ := subdrv.Call(watchdog, func() { w.Sub.Close() }); !ok {
		res.fail("close:blocked", fmt.Sprintf("Close did not return within %v with listeners %d notifications behind", watchdog, n))
		closed = true
		return
	}
	closed = true
	tRecv := drain(tillClose, "close")
sparseLoop:
	for {
		select {
		case ev, open := <-sparse.ch:
			if !open {
				break sparseLoop
			}
			sparseRecv = append(sparseRecv, ev)
		case <-subdrv.After(2 * watchdog):
			res.fail("listener:not-closed:sparse", "the channel of the listener reading every tenth sync was not closed by Close")
			break sparseLoop
		}
	}
	close(ref.start)
	select {
	case <-ref.done:
	case <-subdrv.After(watchdog):
	}
	ref.mu.Lock()
	res.Fwd = conv(ref.recv)
	ref.mu.Unlock()
	for _, x := range []struct {
		what string
		recv []Ev
		can  []int
	}{{"cancel", cRecv, []int{n, n}}, {"close", tRecv, nil}, {"sparse-reads", conv(sparseRecv), nil}} {
		o := ObsListener{Spec: ListenerSpec{Kind: "stalled", RegRound: -1, CanRound: -1}, Cancel: x.can, Recv: x.recv, Closed: true}
		res.Listeners = append(res.Listeners, o)
		if len(x.recv) != n || !windowOK(res.Fwd, o) {
			res.fail(fmt.Sprintf("backlog:%s:lost-%d-of-%d", x.what, n-len(x.recv), n),
				fmt.Sprintf("a listener that was %d notifications behind (read after %s) received %d of the %d notifications queued for it; first received: %s", n, x.what, len(x.recv), n, evs(firstN(x.recv, 3))))
		}
	}
	if len(res.Fwd) != n {
		res.fail("backlog:events", fmt.Sprintf("%d syncs, the reading listener got %d notifications", n, len(res.Fwd)))
	}
	res.DurMs = float64(time.Since(t0).Microseconds()) / 1000
	return res
}

func firstN(l []Ev, k int) []Ev {
	if len(l) > k {
		return l[:k]
	}
	return l
}

// runEntriesOverlap: an entries sync (SyncEntries) and an advertisement-chain sync of the same
// publisher overlap.  Whichever is started first is held right inside handle (yield
// handle:locked) until the other has entered handle too, or 200 ms: with the per-publisher
// sync lock the second cannot enter, the hold expires and the syncs run one after the other;
// without it they share the publisher's block-hook slot.  The notification of the ad sync
// must carry the block count of that sync alone.
func runEntriesOverlap(sc Scenario) (res Result) {
	res.Sc = sc
	t0 := time.Now()
	variant := sc.Rounds[0][0].Kind // entries-first | ad-first
	p := subdrv.NewPub(0, sc.Seed)
	defer p.Close()
	p.Extend(4)
	ents := p.ExtendEntries(3)
	pubs := []*subdrv.Pub{p}
	w := subdrv.NewWorld(pubs)
	rules := []subdrv.Rule{{Point: "handle:locked", Peer: 0, Nth: 1, Until: "handle:locked", UntilPeer: 0, UntilNth: 2, MaxMs: 200}}
	sched := subdrv.NewSched(pubs, rules, nil, 0)
	sched.Install()
	defer sched.Uninstall()
	closed := false
	defer func() {
		if !closed {
			subdrv.Call(watchdog, func() { w.Sub.Close() })
		}
	}()
	l := &liveListener{spec: ListenerSpec{Kind: "fast", RegRound: -1, CanRound: -1}, done: make(chan struct{}), start: make(chan struct{})}
	l.ch, l.cancel = w.Sub.OnSyncFinished()
	go l.reader()
	const head = 2
	p.SetHead(head)
	entDone, adDone := make(chan error, 1), make(chan error, 1)
	runEnt := func() { entDone <- w.Sub.SyncEntries(context.Background(), p.Info(), ents[0]) }
	runAd := func() { _, err := w.Sub.SyncAdChain(context.Background(), p.Info()); adDone <- err }
	if variant == "entries-first" {
		go runEnt()
	} else {
		go runAd()
	}
	if !sched.WaitFor("handle:locked", 0, 1, watchdog) {
		res.fail("overlap:setup", "the first sync never entered handle")
		return
	}
	if variant == "entries-first" {
		go runAd()
	} else {
		go runEnt()
	}
	for _, ch := range []chan error{entDone, adDone} {
		select {
		case err := <-ch:
			if err != nil {
				res.fail("overlap:sync-error", "sync failed: "+err.Error())
			}
		case <-subdrv.After(2 * watchdog):
			res.fail("sync:blocked", "overlapping entries / ad syncs of one publisher did not both return")
		}
	}
	deadline := subdrv.NewDeadline(watchdog)
	for {
		l.mu.Lock()
		n := len(l.recv)
		l.mu.Unlock()
		if n >= 1 || deadline.Expired() {
			break
		}
		time.Sleep(200 * time.Microsecond)
	}
	subdrv.Call(watchdog, func() { w.Sub.Close() })
	closed = true
	close(l.start)
	select {
	case <-l.done:
	case <-subdrv.After(watchdog):
		res.fail("listener:not-closed:fast", "listener channel not closed by Close")
	}
	l.mu.Lock()
	for _, e := range l.recv {
		res.Fwd = append(res.Fwd, Ev{Sid: 0, Pub: 0, Cid: p.Index(e.Cid), Cnt: e.Count, Err: e.Err != nil})
	}
	l.mu.Unlock()
	res.Listeners = []ObsListener{{Spec: l.spec, Recv: res.Fwd, Closed: true}}
	want := head + 1
	if len(res.Fwd) != 1 {
		res.fail(fmt.Sprintf("event:count-%d", len(res.Fwd)), fmt.Sprintf("one updating sync, %d notifications", len(res.Fwd)))
	} else {
		res.Events = append(res.Events, EvCheck{Ev: res.Fwd[0], Sid: 0, Async: false, Pub: 0, Cid: head, Blocks: want})
		if e := res.Fwd[0]; e.Cnt != want || e.Cid != head {
			res.fail(fmt.Sprintf("count:entries-overlap:%s:got-%d-want-%d", variant, e.Cnt, want),
				fmt.Sprintf("an entries sync and an advertisement sync (to #%d, %d blocks) of one publisher overlapped (%s): the advertisement sync's notification says cid #%d, count %d", head, want, variant, e.Cid, e.Cnt))
		}
	}
	res.DurMs = float64(time.Since(t0).Microseconds()) / 1000
	return res
}

// runCloseDuringSync: n listeners; a first sync completes normally; a second one is held after
// handle returned (yield sync:handled or event:latest-set) until doClose has closed s.closing,
// while Close is called.  Close lets the explicit sync finish, so its notification is sent
// while the subscriber is closing: every listener must still receive both notifications,
// in order, exactly once, and then find its channel closed.
func runCloseDuringSync(sc Scenario) (res Result) {
	res.Sc = sc
	t0 := time.Now()
	point := sc.Rounds[0][0].Kind // the yield point to hold at
	p := subdrv.NewPub(0, sc.Seed)
	defer p.Close()
	p.Extend(4)
	pubs := []*subdrv.Pub{p}
	w := subdrv.NewWorld(pubs)
	rules := []subdrv.Rule{{Point: point, Peer: 0, Nth: 2, Until: "close:closing-closed", UntilPeer: -1, UntilNth: 1, MaxMs: 1000}}
	sched := subdrv.NewSched(pubs, rules, nil, 0)
	sched.Install()
	defer sched.Uninstall()
	closed := false
	defer func() {
		if !closed {
			subdrv.Call(watchdog, func() { w.Sub.Close() })
		}
	}()
	var ls []*liveListener
	for _, spec := range sc.Listeners {
		l := &liveListener{spec: spec, done: make(chan struct{}), start: make(chan struct{})}
		l.ch, l.cancel = w.Sub.OnSyncFinished()
		go l.reader()
		ls = append(ls, l)
	}
	p.SetHead(1)
	if _, err := w.Sub.SyncAdChain(context.Background(), p.Info()); err != nil {
		res.fail("closing:setup", err.Error())
		return
	}
	p.SetHead(3)
	syncDone := make(chan error, 1)
	go func() { _, err := w.Sub.SyncAdChain(context.Background(), p.Info()); syncDone <- err }()
	if !sched.WaitFor(point, 0, 2, watchdog) {
		res.fail("closing:setup", "the second sync never reached "+point)
		return
	}
	ok, _ := subdrv.Call(2*watchdog, func() { w.Sub.Close() })
	closed = true
	if !ok {
		res.fail("close:blocked", "Close did not return")
	}
	select {
	case err := <-syncDone:
		if err != nil {
			res.fail("closing:sync-error", "an explicit sync running when Close started failed: "+err.Error())
		}
	case <-subdrv.After(watchdog):
		res.fail("sync:blocked", "the explicit sync did not return")
	}
	want := []Ev{{Sid: 0, Pub: 0, Cid: 1, Cnt: 2}, {Sid: 1, Pub: 0, Cid: 3, Cnt: 2}}
	res.Fwd = want // what the property demands; every listener is compared with it
	lost := 0
	for i, l := range ls {
		close(l.start)
		select {
		case <-l.done:
		case <-subdrv.After(watchdog):
			res.fail("listener:not-closed:"+l.spec.Kind, fmt.Sprintf("listener %d: channel not closed by Close", i))
		}
		l.mu.Lock()
		var recv []Ev
		for _, e := range l.recv {
			ci := p.Index(e.Cid)
			recv = append(recv, Ev{Sid: ci / 2, Pub: 0, Cid: ci, Cnt: e.Count, Err: e.Err != nil})
		}
		o := ObsListener{Spec: l.spec, Recv: recv, Closed: l.closed}
		l.mu.Unlock()
		res.Listeners = append(res.Listeners, o)
		if !windowOK(want, o) {
			lost++
		}
	}
	if lost > 0 {
		res.fail(fmt.Sprintf("closing:event-lost:%s:%d-listeners", point, len(ls)),
			fmt.Sprintf("an explicit sync was at %s when Close signalled closing and then completed: %d of the %d listeners registered before did not receive exactly its notification after the earlier one (e.g. %s)", point, lost, len(ls), evs(firstBad(want, res.Listeners))))
	}
	res.DurMs = float64(time.Since(t0).Microseconds()) / 1000
	return res
}

func firstBad(want []Ev, ls []ObsListener) []Ev {
	for _, l := range ls {
		if !windowOK(want, l) {
			return l.Recv
		}
	}
	return nil
}

// runCloseDuringAsync: an announce-triggered sync is in flight when Close starts - held in the
// middle of its fetch by the publisher (point "gate:block": Close cancels it) or at a yield
// point of the async path (released once Close has signalled closing: it completes or is
// cancelled).  Whatever its fate, it is a sync that ran: every listener registered before must
// receive exactly one notification for it (the result or the error), after the earlier
// notification and before its channel is closed.
func runCloseDuringAsync(sc Scenario) (res Result) {
	res.Sc = sc
	t0 := time.Now()
	point := sc.Rounds[0][0].Kind
	p := subdrv.NewPub(0, sc.Seed)
	defer p.Close()
	p.Extend(4)
	pubs := []*subdrv.Pub{p}
	var sched *subdrv.Sched
	p.SetGate(func(_ *subdrv.Pub, kind string, c cid.Cid) int {
		if point == "gate:block" && kind == "block" && p.Index(c) == 2 {
			// the head block (#3) has been fetched; hold the next one until Close has
			// cancelled the sync and waited for it (or give up after a while)
			sched.Signal("gate:block", 0)
			sched.WaitFor("close:async-waited", -1, 1, 1500*time.Millisecond)
		}
		return 0
	})
	w := subdrv.NewWorld(pubs)
	var rules []subdrv.Rule
	nth := 1
	if point != "gate:block" {
		if point == "handle:locked" || point == "handle:unlocking" || point == "event:latest-set" {
			nth = 2 // the explicit sync of the setup passes these first
		}
		rules = []subdrv.Rule{{Point: point, Peer: 0, Nth: nth, Until: "close:closing-closed", UntilPeer: -1, UntilNth: 1, MaxMs: 1000}}
	}
	sched = subdrv.NewSched(pubs, rules, nil, 0)
	sched.Install()
	defer sched.Uninstall()
	closed := false
	defer func() {
		if !closed {
			subdrv.Call(watchdog, func() { w.Sub.Close() })
		}
	}()
	var ls []*liveListener
	for _, spec := range sc.Listeners {
		l := &liveListener{spec: spec, done: make(chan struct{}), start: make(chan struct{})}
		l.ch, l.cancel = w.Sub.OnSyncFinished()
		go l.reader()
		ls = append(ls, l)
	}
	p.SetHead(1)
	if _, err := w.Sub.SyncAdChain(context.Background(), p.Info()); err != nil {
		res.fail("closing:setup", err.Error())
		return
	}
	p.SetHead(3)
	if err := w.Sub.Announce(context.Background(), p.Chain[3], p.Info()); err != nil {
		res.fail("closing:setup", "Announce: "+err.Error())
		return
	}
	if !sched.WaitFor(point, 0, nth, watchdog) {
		res.fail("closing:setup", "the announce-triggered sync never reached "+point)
		return
	}
	ok, _ := subdrv.Call(2*watchdog, func() { w.Sub.Close() })
	closed = true
	if !ok {
		res.fail("close:blocked", "Close did not return")
	}
	var obs []ObsListener
	sawErr, sawOk := false, false
	for i, l := range ls {
		close(l.start)
		select {
		case <-l.done:
		case <-subdrv.After(watchdog):
			res.fail("listener:not-closed:"+l.spec.Kind, fmt.Sprintf("listener %d: channel not closed by Close", i))
		}
		l.mu.Lock()
		var recv []Ev
		for _, e := range l.recv {
			ci := p.Index(e.Cid)
			ev := Ev{Sid: ci / 2, Pub: 0, Cid: ci, Cnt: e.Count, Err: e.Err != nil, Async: ci == 3}
			if ci == 3 {
				if ev.Err {
					sawErr = true
				} else {
					sawOk = true
				}
			}
			recv = append(recv, ev)
		}
		o := ObsListener{Spec: l.spec, Recv: recv, Closed: l.closed}
		l.mu.Unlock()
		obs = append(obs, o)
	}
	res.Listeners = obs
	// the one notification owed for the in-flight sync: its result, or its error if Close cancelled it
	second := Ev{Sid: 1, Async: true, Pub: 0, Cid: 3, Cnt: 2}
	if sawErr {
		second = Ev{Sid: 1, Async: true, Pub: 0, Cid: 3, Err: true}
	}
	want := []Ev{{Sid: 0, Pub: 0, Cid: 1, Cnt: 2}, second}
	res.Fwd = want
	if sawErr && sawOk {
		res.fail("closing-async:two-fates:"+point, "some listeners received a result and others an error for the same announce-triggered sync")
	}
	lost := 0
	for _, o := range obs {
		if !windowOK(want, o) {
			lost++
		}
	}
	if lost > 0 {
		res.fail(fmt.Sprintf("closing-async:event-lost:%s:%d-listeners", point, len(ls)),
			fmt.Sprintf("an announce-triggered sync was in flight (at %s) when Close started: %d of the %d listeners registered before did not receive exactly one notification for it (result or error) after the earlier one and before their channel closed (e.g. %s)", point, lost, len(ls), evs(firstBad(want, obs))))
	}
	res.DurMs = float64(time.Since(t0).Microseconds()) / 1000
	return res
}
