// c14: every sync notification reaches every registered listener once, in order.
//
// Scenarios drive a real dagsync.Subscriber (HTTP publishers, explicit syncs and direct
// announcements, listeners that read fast, slowly or not at all, registration and
// cancellation racing with delivery at the verif yield points, Close), apply direct oracles
// taken from the property text, and write what was observed (the global forward order and
// every listener's received sequence with its registration / cancellation windows) as Coq
// cases for the acceptor valid_delivery of model/C14_Events.v.
package main

import (
	"context"
	"encoding/json"
	"fmt"
	"os"
	"os/exec"
	"path/filepath"
	"sort"
	"strings"
	"sync"
	"time"

	"github.com/ipfs/go-cid"
	logging "github.com/ipfs/go-log/v2"
	cidlink "github.com/ipld/go-ipld-prime/linking/cid"
	"github.com/ipni/go-libipni/dagsync"

	"verif/harness/subdrv"
	"verif/harness/vlib"
)

// ---- scenario description (also the replay format) -------------------------------

type ListenerSpec struct {
	Kind     string `json:"kind"`      // fast | slow | stalled
	RegRound int    `json:"reg_round"` // registered concurrently with the actions of this round (-1: before everything)
	CanRound int    `json:"can_round"` // cancelled concurrently with the actions of this round (-1: never; closed by Close)
}

type Action struct {
	Pub  int    `json:"pub"`
	Kind string `json:"kind"` // explicit | announce | explicit-head | none
	Fail bool   `json:"fail"` // the publisher fails the head block request
	Adv  int    `json:"adv"`  // how many advertisements the head advances by
	// per-call options of an explicit sync (0 = not given)
	Depth int `json:"depth,omitempty"` // ScopedDepthLimit
	Seg   int `json:"seg,omitempty"`   // ScopedSegmentDepthLimit
	// more per-call options of an explicit sync
	Resync   bool `json:"resync,omitempty"`    // WithAdsResync(true): do not stop at the latest sync
	StopBack int  `json:"stop_back,omitempty"` // WithStopAdCid(the ad this many below the head); 0 = not given
	// a failing sync fails at the block this many below the head (0 = the head block): that
	// many blocks have been fetched when it fails
	FailAfter int `json:"fail_after,omitempty"`
}

type Scenario struct {
	Kind      string         `json:"kind"` // random | order | timing
	Seed      uint64         `json:"seed"`
	NPubs     int            `json:"npubs"`
	Rounds    [][]Action     `json:"rounds"`
	Listeners []ListenerSpec `json:"listeners"`
	Rules     []subdrv.Rule  `json:"rules"`
	Random    int            `json:"random"` // perturb about one in Random yield points (0 = never)
	MaxAsync  int            `json:"max_async"`
	// Subscriber options that change how a sync walks the chain and counts blocks (0 = not given)
	SegDepth   int `json:"seg_depth,omitempty"`   // SegmentDepthLimit
	AdsDepth   int `json:"ads_depth,omitempty"`   // AdsDepthLimit
	FirstDepth int `json:"first_depth,omitempty"` // FirstSyncDepth
}

// blocksOwed is the number of advertisements a sync of a publisher whose head is #head
// and whose latest sync is #latest (-1: none) fetches under the scenario's options: the
// new ones, cut at the depth limit that applies to this sync.
//
// Table of what SyncAdChain does (read off /repo HEAD, see design-notes/C14.md): without
// WithHeadAdCid a completed sync sets the latest sync to the head and sends one notification,
// whatever the other options; the walk goes from the head down to the stop link - the ad of
// WithStopAdCid if given, else none under WithAdsResync, else the latest sync - and is cut at
// the depth limit - ScopedDepthLimit if given, else FirstSyncDepth if there is no stop link,
// else AdsDepthLimit.
func (sc *Scenario) blocksOwed(a *action, latest int) int {
	n := a.head - latest
	noStop := latest < 0
	if a.Kind == "explicit" {
		if a.StopBack > 0 {
			n, noStop = a.StopBack, false
		} else if a.Resync {
			n, noStop = a.head+1, true
		}
	}
	limit := sc.AdsDepth
	if a.Kind == "explicit" && a.Depth != 0 {
		limit = a.Depth
	} else if noStop && sc.FirstDepth != 0 {
		limit = sc.FirstDepth
	}
	if limit > 0 && n > limit {
		n = limit
	}
	return n
}

type Ev struct {
	Sid   int  `json:"sid"`
	Async bool `json:"async"`
	Pub   int  `json:"pub"`
	Cid   int  `json:"cid"` // index in the publisher's chain
	Cnt   int  `json:"cnt"`
	Err   bool `json:"err"`
}

type ObsListener struct {
	Spec   ListenerSpec `json:"spec"`
	Lo     int          `json:"lo"`
	Hi     int          `json:"hi"`
	Cancel []int        `json:"cancel"` // nil or [lo, hi]
	Recv   []Ev         `json:"recv"`
	Closed bool         `json:"closed"`
}

// EvCheck: a notification with the sync it belongs to (family "event")
type EvCheck struct {
	Ev     Ev   `json:"ev"`
	Sid    int  `json:"sid"`
	Async  bool `json:"async"`
	Pub    int  `json:"pub"`
	Cid    int  `json:"cid"`
	Blocks int  `json:"blocks"`
}

type Result struct {
	Sc        Scenario      `json:"scenario"`
	Events    []EvCheck     `json:"events,omitempty"`
	Fwd       []Ev          `json:"fwd"`
	Listeners []ObsListener `json:"listeners"`
	DoneOrder map[int][]int `json:"done_order"` // per publisher: sync ids in order of completion (event-producing only)
	SentOrder map[int][]int `json:"sent_order"`
	Failures  []string      `json:"failures"`
	Sigs      []string      `json:"sigs"`
	DurMs     float64       `json:"dur_ms"`
}

func (r *Result) fail(sig, msg string) {
	r.Sigs = append(r.Sigs, sig)
	r.Failures = append(r.Failures, msg)
}

// ---- running one scenario ----------------------------------------------------------

type action struct {
	Action
	sid      int
	head     int  // chain index announced / synced to
	expEvent bool // an event is owed
	expErr   bool
	expCnt   int
	retCid   cid.Cid
	retErr   error
}

type liveListener struct {
	spec   ListenerSpec
	ch     <-chan dagsync.SyncFinished
	cancel context.CancelFunc
	lo, hi int
	can    []int
	mu     sync.Mutex
	recv   []dagsync.SyncFinished
	closed bool
	done   chan struct{} // reader finished (saw close)
	start  chan struct{} // stalled readers wait for this
}

const watchdog = 2 * time.Second

func (l *liveListener) reader() {
	defer close(l.done)
	if l.spec.Kind == "stalled" {
		<-l.start
	}
	for ev := range l.ch {
		l.mu.Lock()
		l.recv = append(l.recv, ev)
		l.mu.Unlock()
		if l.spec.Kind == "slow" {
			time.Sleep(300 * time.Microsecond)
		}
	}
	l.mu.Lock()
	l.closed = true
	l.mu.Unlock()
}

func runScenario(sc Scenario) (res Result) {
	res.Sc = sc
	t0 := time.Now()
	rng := vlib.NewRand(sc.Seed)
	pubs := make([]*subdrv.Pub, sc.NPubs)
	for i := range pubs {
		pubs[i] = subdrv.NewPub(i, sc.Seed)
		defer pubs[i].Close()
	}
	// lay out the chains: every action of publisher p gets its own head
	heads := make([]int, sc.NPubs) // next head index per publisher
	var acts [][]*action
	sid := 0
	for _, round := range sc.Rounds {
		var ra []*action
		for _, a := range round {
			if a.Kind == "none" {
				continue
			}
			adv := a.Adv
			if adv < 1 {
				adv = 1
			}
			heads[a.Pub] += adv
			if a.StopBack > heads[a.Pub]-1 {
				a.StopBack = heads[a.Pub] - 1 // the first ad of the chain at the lowest
			}
			ra = append(ra, &action{Action: a, sid: sid, head: heads[a.Pub] - 1})
			sid++
		}
		acts = append(acts, ra)
	}
	for i, p := range pubs {
		p.Extend(heads[i] + 1)
	}
	// which block requests fail: the head block of a failing action, while its round lasts
	var failMu sync.Mutex
	failCid := map[cid.Cid]bool{}
	gate := func(p *subdrv.Pub, kind string, c cid.Cid) int {
		if kind != "block" {
			return 0
		}
		failMu.Lock()
		defer failMu.Unlock()
		if failCid[c] {
			return 500
		}
		return 0
	}
	for _, p := range pubs {
		p.SetGate(gate)
	}

	var opts []dagsync.Option
	if sc.MaxAsync > 0 {
		opts = append(opts, dagsync.MaxAsyncConcurrency(sc.MaxAsync))
	}
	if sc.SegDepth != 0 {
		opts = append(opts, dagsync.SegmentDepthLimit(int64(sc.SegDepth)))
	}
	if sc.AdsDepth != 0 {
		opts = append(opts, dagsync.AdsDepthLimit(int64(sc.AdsDepth)))
	}
	if sc.FirstDepth != 0 {
		opts = append(opts, dagsync.FirstSyncDepth(int64(sc.FirstDepth)))
	}
	w := subdrv.NewWorld(pubs, opts...)
	sched := subdrv.NewSched(pubs, sc.Rules, rng.Fork("sched"), sc.Random)
	sched.Install()
	defer sched.Uninstall()
	closedSub := false
	defer func() {
		if !closedSub {
			subdrv.Call(watchdog, func() { w.Sub.Close() })
		}
	}()

	fwdCount := func() int { return sched.Count("dist:forward", -1) }

	// reference listener: registered before anything happens, read at once
	ref := &liveListener{spec: ListenerSpec{Kind: "fast", RegRound: -1, CanRound: -1}, done: make(chan struct{}), start: make(chan struct{})}
	var latestViolations []string
	var lvMu sync.Mutex
	if ok, pn := subdrv.Call(watchdog, func() { ref.ch, ref.cancel = w.Sub.OnSyncFinished() }); !ok || pn != nil {
		res.fail("register:blocked", fmt.Sprintf("OnSyncFinished on a fresh subscriber did not return (panic=%v)", pn))
		return
	}
	go func() {
		defer close(ref.done)
		for ev := range ref.ch {
			ref.mu.Lock()
			ref.recv = append(ref.recv, ev)
			ref.mu.Unlock()
			if ev.Err == nil {
				// the latest-sync value was stored before the event was sent
				l := w.Sub.GetLatestSync(ev.PeerID)
				pi := w.PeerIdx(ev.PeerID)
				if l == nil {
					lvMu.Lock()
					latestViolations = append(latestViolations, fmt.Sprintf("event for publisher %d cid #%d received while GetLatestSync is nil", pi, pubs[pi].Index(ev.Cid)))
					lvMu.Unlock()
				}
			}
		}
		ref.mu.Lock()
		ref.closed = true
		ref.mu.Unlock()
	}()

	var lls []*liveListener
	for _, ls := range sc.Listeners {
		lls = append(lls, &liveListener{spec: ls, done: make(chan struct{}), start: make(chan struct{})})
	}
	register := func(l *liveListener) {
		l.lo = fwdCount()
		ok, pn := subdrv.Call(watchdog, func() { l.ch, l.cancel = w.Sub.OnSyncFinished() })
		l.hi = fwdCount()
		if !ok || pn != nil {
			res.fail("register:blocked", fmt.Sprintf("OnSyncFinished did not return within %v while the subscriber was open (panic=%v)", watchdog, pn))
			return
		}
		go l.reader()
	}
	cancelL := func(l *liveListener) {
		if l.cancel == nil {
			return
		}
		lo := fwdCount()
		ok, pn := subdrv.Call(watchdog, func() { l.cancel() })
		hi := fwdCount()
		l.can = []int{lo, hi}
		if !ok || pn != nil {
			res.fail("cancel:blocked", fmt.Sprintf("cancel func did not return within %v (panic=%v)", watchdog, pn))
		}
	}
	for _, l := range lls {
		if l.spec.RegRound < 0 {
			register(l)
		}
	}

	expected := 0 // events owed so far
	latestIdx := make([]int, sc.NPubs)
	for i := range latestIdx {
		latestIdx[i] = -1
	}
	for ri, ra := range acts {
		var wg sync.WaitGroup
		jit := rng.Fork(fmt.Sprint("round", ri))
		for _, l := range lls {
			if l.spec.RegRound == ri {
				l := l
				d := time.Duration(jit.Intn(3000)) * time.Microsecond
				wg.Add(1)
				go func() { defer wg.Done(); time.Sleep(d); register(l) }()
			}
		}
		for _, l := range lls {
			if l.spec.CanRound == ri && l.spec.RegRound < ri {
				l := l
				d := time.Duration(jit.Intn(3000)) * time.Microsecond
				wg.Add(1)
				go func() { defer wg.Done(); time.Sleep(d); cancelL(l) }()
			}
		}
		for _, a := range ra {
			a := a
			p := pubs[a.Pub]
			p.SetHead(a.head)
			// what the property owes for this action
			switch a.Kind {
			case "explicit":
				a.expEvent = !a.Fail
				a.expCnt = sc.blocksOwed(a, latestIdx[a.Pub])
			case "explicit-head":
				a.expEvent = false
			case "announce":
				a.expEvent = true
				a.expErr = a.Fail
				a.expCnt = sc.blocksOwed(a, latestIdx[a.Pub])
			}
			if a.Fail {
				// the block that fails: FailAfter below the head, within what this sync walks
				k := a.FailAfter
				if owed := sc.blocksOwed(a, latestIdx[a.Pub]); k > owed-1 {
					k = owed - 1
				}
				if k < 0 {
					k = 0
				}
				failMu.Lock()
				failCid[p.Chain[a.head-k]] = true
				failMu.Unlock()
			}
			if a.expEvent {
				expected++
				if !a.expErr {
					latestIdx[a.Pub] = a.head
				}
			}
			d := time.Duration(jit.Intn(1500)) * time.Microsecond
			wg.Add(1)
			go func() {
				defer wg.Done()
				time.Sleep(d)
				ok, pn := subdrv.Call(2*watchdog, func() {
					ctx, cancel := context.WithTimeout(context.Background(), 3*watchdog/2)
					defer cancel()
					switch a.Kind {
					case "explicit":
						var so []dagsync.SyncOption
						if a.Depth != 0 {
							so = append(so, dagsync.ScopedDepthLimit(int64(a.Depth)))
						}
						if a.Seg != 0 {
							so = append(so, dagsync.ScopedSegmentDepthLimit(int64(a.Seg)))
						}
						if a.Resync {
							so = append(so, dagsync.WithAdsResync(true))
						}
						if a.StopBack > 0 {
							so = append(so, dagsync.WithStopAdCid(p.Chain[a.head-a.StopBack]))
						}
						a.retCid, a.retErr = w.Sub.SyncAdChain(ctx, p.Info(), so...)
					case "explicit-head":
						a.retCid, a.retErr = w.Sub.SyncAdChain(ctx, p.Info(), dagsync.WithHeadAdCid(p.Chain[a.head]))
					case "announce":
						a.retErr = w.Sub.Announce(ctx, p.Chain[a.head], p.Info())
					}
				})
				if !ok || pn != nil {
					res.fail("sync:blocked", fmt.Sprintf("%s of publisher %d did not return (panic=%v)", a.Kind, a.Pub, pn))
				}
			}()
		}
		wg.Wait()
		// the round is over when every owed event has reached the reference listener
		deadline := subdrv.NewDeadline(2 * watchdog)
		for {
			ref.mu.Lock()
			n := len(ref.recv)
			ref.mu.Unlock()
			if n >= expected {
				break
			}
			if deadline.Expired() {
				res.fail("event:missing", fmt.Sprintf("round %d: %d notifications owed, the listener registered from the start received %d", ri, expected, n))
				break
			}
			time.Sleep(100 * time.Microsecond)
		}
		failMu.Lock()
		for k := range failCid {
			delete(failCid, k)
		}
		failMu.Unlock()
		if len(res.Failures) > 0 {
			break // something hung or went missing: do not pile more rounds on top
		}
	}
	_ = failCid
	// cancellations scheduled after the last round
	for _, l := range lls {
		if l.spec.CanRound >= len(acts) && l.cancel != nil {
			cancelL(l)
		}
	}
	// close; every listener channel must then deliver what is queued and be closed
	ok, pn := subdrv.Call(watchdog, func() { w.Sub.Close() })
	closedSub = true
	if !ok || pn != nil {
		res.fail("close:blocked", fmt.Sprintf("Close did not return within %v (panic=%v)", watchdog, pn))
	}
	all := append([]*liveListener{ref}, lls...)
	for _, l := range all {
		if l.ch == nil {
			continue
		}
		close(l.start)
		select {
		case <-l.done:
		case <-subdrv.After(watchdog):
			res.fail("listener:not-closed:"+l.spec.Kind, fmt.Sprintf("a %s listener's channel was not closed within %v of Close / its cancel", l.spec.Kind, watchdog))
		}
	}

	// ---- collect ----
	sidOf := map[[2]int]*action{}
	for _, ra := range acts {
		for _, a := range ra {
			sidOf[[2]int{a.Pub, a.head}] = a
		}
	}
	conv := func(evs []dagsync.SyncFinished) []Ev {
		var out []Ev
		for _, e := range evs {
			pi := w.PeerIdx(e.PeerID)
			ci := -1
			if pi >= 0 {
				ci = pubs[pi].Index(e.Cid)
			}
			ev := Ev{Sid: -1, Pub: pi, Cid: ci, Cnt: e.Count, Err: e.Err != nil}
			if a := sidOf[[2]int{pi, ci}]; a != nil {
				ev.Sid = a.sid
				ev.Async = a.Kind == "announce"
			}
			out = append(out, ev)
		}
		return out
	}
	ref.mu.Lock()
	res.Fwd = conv(ref.recv)
	if !ref.closed {
		res.fail("listener:not-closed:reference", "the listener registered from the start was not closed by Close")
	}
	ref.mu.Unlock()
	for _, l := range lls {
		if l.ch == nil {
			continue
		}
		l.mu.Lock()
		res.Listeners = append(res.Listeners, ObsListener{Spec: l.spec, Lo: l.lo, Hi: l.hi, Cancel: l.can, Recv: conv(l.recv), Closed: l.closed})
		l.mu.Unlock()
	}

	// ---- direct oracles (from the property text, independent of the Coq model) ----
	// (1) the events = the events owed, each exactly once, with publisher, CID, count
	seen := map[int]int{}
	for _, e := range res.Fwd {
		a := sidOf[[2]int{e.Pub, e.Cid}]
		if a == nil || !a.expEvent {
			res.fail("event:unexpected", fmt.Sprintf("notification {pub %d cid #%d count %d err %v} belongs to no sync that owes one", e.Pub, e.Cid, e.Cnt, e.Err))
			continue
		}
		seen[a.sid]++
		if !e.Err && !a.expErr {
			res.Events = append(res.Events, EvCheck{Ev: e, Sid: a.sid, Async: a.Kind == "announce", Pub: a.Pub, Cid: a.head, Blocks: a.expCnt})
		}
		if e.Err != a.expErr {
			res.fail("event:wrong-kind", fmt.Sprintf("sync %d (%s pub %d fail=%v): notification has err=%v", a.sid, a.Kind, a.Pub, a.Fail, e.Err))
		} else if !e.Err && e.Cnt != a.expCnt {
			res.fail("event:wrong-count", fmt.Sprintf("sync %d (%s pub %d to #%d): notification count %d, blocks synced %d", a.sid, a.Kind, a.Pub, a.head, e.Cnt, a.expCnt))
		}
	}
	for _, ra := range acts {
		for _, a := range ra {
			if a.expEvent && seen[a.sid] != 1 {
				res.fail(fmt.Sprintf("event:count-%d", seen[a.sid]), fmt.Sprintf("sync %d (%s pub %d fail=%v) produced %d notifications, want 1", a.sid, a.Kind, a.Pub, a.Fail, seen[a.sid]))
			}
			switch a.Kind {
			case "explicit", "explicit-head":
				if a.Fail && a.retErr == nil {
					res.fail("sync:no-error", fmt.Sprintf("sync %d: publisher failed the head block but SyncAdChain returned no error", a.sid))
				}
				if !a.Fail && a.retErr != nil {
					res.fail("sync:error", fmt.Sprintf("sync %d: SyncAdChain failed: %v", a.sid, a.retErr))
				}
			case "announce":
				if a.retErr != nil {
					res.fail("announce:error", fmt.Sprintf("sync %d: Announce failed: %v", a.sid, a.retErr))
				}
			}
		}
	}
	// (2) the order the distributor forwarded in (yield hook) is the order the reference listener read
	var hookPeers []int
	res.DoneOrder, res.SentOrder = map[int][]int{}, map[int][]int{}
	for _, r := range sched.Snapshot() {
		if r.Name == "dist:forward" {
			hookPeers = append(hookPeers, r.Peer)
		}
	}
	if len(hookPeers) != len(res.Fwd) {
		res.fail("forward:count", fmt.Sprintf("distributor forwarded %d events, the listener registered from the start read %d", len(hookPeers), len(res.Fwd)))
	} else {
		for i := range hookPeers {
			if hookPeers[i] != res.Fwd[i].Pub {
				res.fail("forward:order", fmt.Sprintf("forward #%d was for publisher %d, the listener read one of publisher %d there", i, hookPeers[i], res.Fwd[i].Pub))
				break
			}
		}
	}
	// (3) every listener: closed, and a gap-free duplicate-free in-order window of the forward order
	for i, l := range res.Listeners {
		if !l.Closed {
			continue // reported above
		}
		if !windowOK(res.Fwd, l) {
			res.fail("listener:window:"+l.Spec.Kind, fmt.Sprintf("listener %d (%s, registered in [%d,%d], cancel %v) read %s which is not the forward order %s between its registration and its cancellation/close", i, l.Spec.Kind, l.Lo, l.Hi, l.Cancel, evs(l.Recv), evs(res.Fwd)))
		}
	}
	// (4) latest stored before the event
	for _, m := range latestViolations {
		res.fail("latest:not-set-before-event", m)
	}
	// (5) per publisher: events in order of completion.  A publisher has one sync per round
	// and rounds do not overlap, so its syncs complete in round order.
	for p := range pubs {
		var sent, done []int
		for _, e := range res.Fwd {
			if e.Pub == p {
				sent = append(sent, e.Sid)
			}
		}
		for _, ra := range acts {
			for _, a := range ra {
				if a.Pub == p && a.expEvent {
					done = append(done, a.sid)
				}
			}
		}
		res.SentOrder[p], res.DoneOrder[p] = sent, done
		if fmt.Sprint(sent) != fmt.Sprint(done) && len(sent) == len(done) {
			res.fail("order:rounds", fmt.Sprintf("publisher %d: syncs completed in the order %v, their notifications were delivered in the order %v", p, done, sent))
		}
	}
	// final latest-sync: that of the last event-producing successful sync per publisher
	for p := range pubs {
		l := w.Sub.GetLatestSync(pubs[p].ID)
		got := -1
		if l != nil {
			got = pubs[p].Index(l.(cidlink.Link).Cid)
		}
		if got != latestIdx[p] {
			res.fail("latest:final", fmt.Sprintf("publisher %d: latest sync is #%d at the end, the last completed updating sync was to #%d", p, got, latestIdx[p]))
		}
	}
	res.DurMs = float64(time.Since(t0).Microseconds()) / 1000
	return res
}

func evs(l []Ev) string {
	var b strings.Builder
	b.WriteString("[")
	for i, e := range l {
		if i > 0 {
			b.WriteString(" ")
		}
		fmt.Fprintf(&b, "%d:%d", e.Pub, e.Cid)
		if e.Err {
			b.WriteString("!")
		}
	}
	b.WriteString("]")
	return b.String()
}

func evEq(a, b Ev) bool { return a == b }

// windowOK: Go twin of the property: received == fwd[a:b] for some a in [Lo,Hi], b in the
// cancel window or the end.
func windowOK(fwd []Ev, l ObsListener) bool {
	blo, bhi := len(fwd), len(fwd)
	if l.Cancel != nil {
		blo, bhi = l.Cancel[0], l.Cancel[1]
	}
	for a := l.Lo; a <= l.Hi && a <= len(fwd); a++ {
		for b := blo; b <= bhi && b <= len(fwd); b++ {
			lo, hi := a, b
			if hi < lo {
				hi = lo
			}
			if hi-lo != len(l.Recv) {
				continue
			}
			ok := true
			for i := range l.Recv {
				if !evEq(l.Recv[i], fwd[lo+i]) {
					ok = false
					break
				}
			}
			if ok {
				return true
			}
		}
	}
	return false
}

// ---- Coq printers ------------------------------------------------------------------

func coqEv(e Ev) string {
	sid, pub, c := e.Sid, e.Pub, e.Cid
	if sid < 0 {
		sid = 9999
	}
	if pub < 0 {
		pub = 9999
	}
	if c < 0 {
		c = 9999
	}
	return fmt.Sprintf("{| e_sid := %d%%nat; e_async := %s; e_pub := %d; e_cid := %d; e_cnt := %d; e_err := %s |}",
		sid, vlib.CoqBool(e.Async), pub, c, e.Cnt, vlib.CoqBool(e.Err))
}

func coqEvs(l []Ev) string {
	it := make([]string, len(l))
	for i, e := range l {
		it[i] = coqEv(e)
	}
	return vlib.CoqList(it)
}

func coqCase(r Result) string {
	var ls []string
	for _, l := range r.Listeners {
		can := "None"
		if l.Cancel != nil {
			can = fmt.Sprintf("(Some (%d%%nat, %d%%nat))", l.Cancel[0], l.Cancel[1])
		}
		ls = append(ls, fmt.Sprintf("{| o_lo := %d%%nat; o_hi := %d%%nat; o_cancel := %s; o_recv := %s; o_closed := %s |}",
			l.Lo, l.Hi, can, coqEvs(l.Recv), vlib.CoqBool(l.Closed)))
	}
	return "(" + coqEvs(r.Fwd) + ", " + vlib.CoqList(ls) + ")"
}

// ---- scenario generation -------------------------------------------------------------

func genRandom(rng *vlib.Rand, seed uint64) Scenario {
	sc := Scenario{Kind: "random", Seed: seed, NPubs: 1 + rng.Intn(3), Random: 2 + rng.Intn(4)}
	nr := 2 + rng.Intn(3)
	for r := 0; r < nr; r++ {
		var round []Action
		for p := 0; p < sc.NPubs; p++ {
			a := Action{Pub: p, Adv: 1 + rng.Intn(3)}
			switch rng.Intn(10) {
			case 0:
				a.Kind = "none"
			case 1, 2, 3:
				a.Kind = "explicit"
			case 4:
				a.Kind = "explicit"
				a.Fail = true
			case 5, 6, 7:
				a.Kind = "announce"
			case 8:
				a.Kind = "announce"
				a.Fail = true
			case 9:
				a.Kind = "explicit-head"
			}
			round = append(round, a)
		}
		sc.Rounds = append(sc.Rounds, round)
	}
	nl := 1 + rng.Intn(4)
	kinds := []string{"fast", "slow", "stalled"}
	for i := 0; i < nl; i++ {
		ls := ListenerSpec{Kind: kinds[rng.Intn(3)], RegRound: rng.Intn(nr+1) - 1, CanRound: -1}
		if rng.Intn(2) == 0 {
			ls.CanRound = ls.RegRound + 1 + rng.Intn(nr-ls.RegRound)
		}
		sc.Listeners = append(sc.Listeners, ls)
	}
	if rng.Intn(4) == 0 {
		sc.MaxAsync = 1
	}
	// about half of the scenarios run under options that change how the chain is walked
	// and counted; those grow their chains by up to 7
	if rng.Intn(2) == 0 {
		sc.SegDepth = rng.Intn(4) // 0..3
		sc.AdsDepth = []int{0, 0, 0, 2, 3, 5}[rng.Intn(6)]
		sc.FirstDepth = []int{0, 0, 1, 2, 4}[rng.Intn(5)]
		for _, round := range sc.Rounds {
			for i := range round {
				round[i].Adv = 1 + rng.Intn(7)
				if round[i].Kind == "explicit" && rng.Intn(4) == 0 {
					round[i].Depth = 1 + rng.Intn(4)
				}
				if round[i].Kind == "explicit" && rng.Intn(4) == 0 {
					round[i].Seg = 1 + rng.Intn(3)
				}
				if round[i].Kind == "explicit" && rng.Intn(4) == 0 {
					round[i].Resync = true
				}
				if round[i].Kind == "explicit" && rng.Intn(4) == 0 {
					round[i].StopBack = 1 + rng.Intn(9)
				}
				if round[i].Fail {
					round[i].FailAfter = rng.Intn(round[i].Adv)
				}
			}
		}
	}
	return sc
}

// syncs that fail after some blocks, each followed by a successful sync of the same publisher
// at the same addresses (the handler keeps its Syncer): the successful one reports its own blocks
func genFailThenOK(seed uint64, seg int) Scenario {
	sc := Scenario{Kind: "fail-then-ok", Seed: seed, NPubs: 1, SegDepth: seg,
		Listeners: []ListenerSpec{{Kind: "fast", RegRound: -1, CanRound: -1}}}
	sc.Rounds = [][]Action{
		{{Pub: 0, Kind: "explicit", Adv: 2}},
		{{Pub: 0, Kind: "explicit", Adv: 4, Fail: true, FailAfter: 2}},
		{{Pub: 0, Kind: "explicit", Adv: 1}},
		{{Pub: 0, Kind: "announce", Adv: 3, Fail: true, FailAfter: 1}},
		{{Pub: 0, Kind: "announce", Adv: 2}},
		{{Pub: 0, Kind: "explicit", Adv: 5, Fail: true, FailAfter: 4}},
		{{Pub: 0, Kind: "announce", Adv: 1}},
		{{Pub: 0, Kind: "announce", Adv: 4, Fail: true, FailAfter: 3}},
		{{Pub: 0, Kind: "explicit", Adv: 2}},
	}
	return sc
}

// explicit syncs under per-call options: resync, stop ad, scoped depth / segment depth, and
// their combinations, interleaved with plain and announce-triggered syncs
func genPerCall(seed uint64, seg, ads, first int) Scenario {
	sc := Scenario{Kind: "per-call", Seed: seed, NPubs: 1, SegDepth: seg, AdsDepth: ads, FirstDepth: first,
		Listeners: []ListenerSpec{{Kind: "fast", RegRound: -1, CanRound: -1}, {Kind: "stalled", RegRound: -1, CanRound: -1}}}
	sc.Rounds = [][]Action{
		{{Pub: 0, Kind: "explicit", Adv: 4, Resync: true}},
		{{Pub: 0, Kind: "explicit", Adv: 2}},
		{{Pub: 0, Kind: "explicit", Adv: 2, Resync: true}},
		{{Pub: 0, Kind: "explicit", Adv: 2, StopBack: 4}},
		{{Pub: 0, Kind: "announce", Adv: 1}},
		{{Pub: 0, Kind: "explicit", Adv: 1, StopBack: 1, Resync: true}},
		{{Pub: 0, Kind: "explicit", Adv: 1, Resync: true, Depth: 2}},
		{{Pub: 0, Kind: "explicit-head", Adv: 1}},
		{{Pub: 0, Kind: "explicit", Adv: 1, StopBack: 6, Depth: 4, Seg: 1}},
		{{Pub: 0, Kind: "explicit", Adv: 1, Resync: true, Seg: 2}},
		{{Pub: 0, Kind: "announce", Adv: 2}},
	}
	return sc
}

// one publisher whose chain grows by 1..7 advertisements per sync, under the given options
func genOptions(seed uint64, kind string, seg, ads, first int) Scenario {
	sc := Scenario{Kind: "options", Seed: seed, NPubs: 1, SegDepth: seg, AdsDepth: ads, FirstDepth: first,
		Listeners: []ListenerSpec{{Kind: "fast", RegRound: -1, CanRound: -1}}}
	for adv := 1; adv <= 7; adv++ {
		k := kind
		if kind == "mixed" {
			k = []string{"explicit", "announce"}[adv%2]
		}
		sc.Rounds = append(sc.Rounds, []Action{{Pub: 0, Kind: k, Adv: adv}})
	}
	return sc
}

// two explicit syncs of one publisher, the first held after handle returned until the
// second has sent its event (possible only while the event is sent outside the sync lock)
func genOrder(seed uint64, second string) Scenario {
	return Scenario{Kind: "order", Seed: seed, NPubs: 1,
		Listeners: []ListenerSpec{{Kind: "fast", RegRound: -1, CanRound: -1}},
		Rules:     []subdrv.Rule{{Point: "sync:handled", Peer: 0, Nth: 1, Until: "event:sent", UntilPeer: 0, UntilNth: 1, MaxMs: 250}},
		Rounds:    [][]Action{{{Pub: 0, Kind: "explicit", Adv: 2}}, {{Pub: 0, Kind: second, Adv: 2}}},
	}
}

func main() {
	logging.SetAllLoggers(logging.LevelFatal)
	if os.Getenv("VERIF_C14_CHILD") != "" {
		childMain()
		return
	}
	c := vlib.Init("C14")
	defer c.Finish()
	c.Family("delivery", []string{"From Model Require Import C14_Events."}, "valid_delivery", 250)
	c.Family("order", []string{"From Model Require Import C14_Events."}, "valid_order", 400)
	c.Family("event", []string{"From Model Require Import C14_Events."}, "valid_event", 400)
	c.Res.Rule = "seeded scenarios on a real Subscriber: 1..3 HTTP publishers, 2..4 rounds of concurrent explicit syncs / direct announcements / failing syncs, 1..4 listeners (fast, slow, stalled) registered and cancelled concurrently with delivery, yield points perturbed at random (seeded), then Close and drain; plus targeted schedules (two concurrent explicit syncs of one publisher with the first held before its event) and a stalled-listener timing comparison; non-trivial = at least two events and a listener registered or cancelled during delivery, or a stalled listener with queued events"

	if c.Replay != "" {
		var sc Scenario
		if err := c.LoadReplay(&sc); err != nil {
			panic(err)
		}
		var r Result
		if sc.Kind == "order" {
			r = runOrder(sc)
		} else if sc.Kind == "timing" {
			r = runTiming(sc)
		} else if sc.Kind == "backlog" {
			r = runBacklog(sc)
		} else if sc.Kind == "entries-overlap" {
			r = runEntriesOverlap(sc)
		} else if sc.Kind == "close-during-sync" {
			r = runCloseDuringSync(sc)
		} else if sc.Kind == "close-during-async" {
			r = runCloseDuringAsync(sc)
		} else {
			r = runScenario(sc)
		}
		js, _ := json.MarshalIndent(r, "", " ")
		fmt.Println(string(js))
		for i, f := range r.Failures {
			fmt.Println("ORACLE-FAIL:", r.Sigs[i], f)
			c.Fail("replay:"+r.Sigs[i], f, sc)
		}
		c.Case("delivery", coqCase(r), sc)
		c.Eval()
		return
	}

	// targeted schedules first
	for _, second := range []string{"explicit", "announce"} {
		sc := genOrder(c.Seed, second)
		r := runOrder(sc)
		record(c, r)
	}
	// timing
	{
		sc := Scenario{Kind: "timing", Seed: c.Seed, NPubs: 1}
		r := runTiming(sc)
		record(c, r)
	}
	// an entries sync overlapping an advertisement sync of the same publisher
	for _, v := range []string{"entries-first", "ad-first"} {
		sc := Scenario{Kind: "entries-overlap", Seed: c.Seed, NPubs: 1, Rounds: [][]Action{{{Pub: 0, Kind: v}}}}
		record(c, runEntriesOverlap(sc))
	}
	// a sync that completes while Close is in progress, many listeners
	for i, pt := range []string{"sync:handled", "event:latest-set", "handle:unlocking"} {
		sc := Scenario{Kind: "close-during-sync", Seed: c.Seed, NPubs: 1, Rounds: [][]Action{{{Pub: 0, Kind: pt}}}}
		for k := 0; k < 8+4*i; k++ {
			kind := "fast"
			if k%3 == 1 {
				kind = "stalled"
			} else if k%3 == 2 {
				kind = "slow"
			}
			sc.Listeners = append(sc.Listeners, ListenerSpec{Kind: kind, RegRound: -1, CanRound: -1})
		}
		record(c, runCloseDuringSync(sc))
	}
	// an announce-triggered sync in flight when Close starts
	for i, pt := range []string{"gate:block", "handle:locked", "async:handled", "event:latest-set", "async:taken"} {
		sc := Scenario{Kind: "close-during-async", Seed: c.Seed, NPubs: 1, Rounds: [][]Action{{{Pub: 0, Kind: pt}}}}
		for k := 0; k < 6+3*i; k++ {
			sc.Listeners = append(sc.Listeners, ListenerSpec{Kind: []string{"fast", "stalled", "slow"}[k%3], RegRound: -1, CanRound: -1})
		}
		record(c, runCloseDuringAsync(sc))
	}
	// every option that changes how blocks are walked and counted, chains growing by 1..7
	for seg := 1; seg <= 3; seg++ {
		for _, kind := range []string{"explicit", "announce"} {
			record(c, runScenario(genOptions(c.Seed, kind, seg, 0, 0)))
		}
	}
	for _, o := range [][3]int{{0, 2, 0}, {2, 5, 0}, {0, 0, 1}, {2, 0, 3}, {1, 2, 1}, {3, 3, 2}} {
		record(c, runScenario(genOptions(c.Seed, "mixed", o[0], o[1], o[2])))
	}
	// failing part-way, then succeeding; per-call options of explicit syncs
	for _, seg := range []int{0, 2} {
		record(c, runScenario(genFailThenOK(c.Seed, seg)))
	}
	for _, o := range [][3]int{{0, 0, 0}, {2, 0, 0}, {0, 3, 0}, {0, 0, 2}, {1, 3, 2}} {
		record(c, runScenario(genPerCall(c.Seed, o[0], o[1], o[2])))
	}
	// long backlogs, around typical buffer sizes
	sizes := []int{63, 64, 65, 128, 129, 300}
	if c.Thorough() {
		sizes = append(sizes, 257, 1000)
	}
	for _, n := range sizes {
		sc := Scenario{Kind: "backlog", Seed: c.Seed, NPubs: 1, Rounds: [][]Action{{{Pub: 0, Kind: "explicit", Adv: n}}}}
		record(c, runBacklog(sc))
	}
	// random scenarios, spread over child processes (the yield hook is process-global)
	n := c.Pick(3000, 30000)
	workers := 12
	results := runChildren(c, n, workers)
	for _, r := range results {
		record(c, r)
	}
}

func record(c *vlib.Ctx, r Result) {
	c.Eval()
	c.Count("scenario:" + r.Sc.Kind)
	if r.Sc.SegDepth != 0 {
		c.Count(fmt.Sprint("opt:segment-depth=", r.Sc.SegDepth))
	}
	if r.Sc.AdsDepth != 0 {
		c.Count("opt:ads-depth-limit")
	}
	if r.Sc.FirstDepth != 0 {
		c.Count("opt:first-sync-depth")
	}
	for _, round := range r.Sc.Rounds {
		for _, a := range round {
			if a.Depth != 0 {
				c.Count("opt:scoped-depth")
			}
			if a.Seg != 0 {
				c.Count("opt:scoped-segment-depth")
			}
			if a.Resync {
				c.Count("opt:resync")
			}
			if a.StopBack != 0 {
				c.Count("opt:stop-ad")
			}
			if a.Fail && a.FailAfter > 0 {
				c.Count("sync:fails-part-way")
			}
		}
	}
	c.CountN("events", len(r.Fwd))
	nontriv := false
	for _, l := range r.Listeners {
		c.Count("listener:" + l.Spec.Kind)
		if l.Cancel != nil {
			c.Count("listener:cancelled")
		}
		if len(r.Fwd) >= 2 && (l.Hi > 0 || l.Cancel != nil) {
			nontriv = true
		}
		if l.Spec.Kind == "stalled" && len(l.Recv) > 0 {
			nontriv = true
		}
	}
	for _, e := range r.Fwd {
		if e.Err {
			c.Count("event:error")
		} else if e.Async {
			c.Count("event:async")
		} else {
			c.Count("event:explicit")
		}
	}
	if nontriv {
		js, _ := json.Marshal(struct {
			F []Ev
			L []ObsListener
		}{r.Fwd, r.Listeners})
		c.Nontrivial(string(js))
	}
	if r.Sc.Kind == "random" && len(r.Listeners) >= 3 {
		c.Sample(r)
	}
	if r.Sc.Kind != "timing" {
		c.Case("delivery", coqCase(r), r.Sc)
	}
	for _, ec := range r.Events {
		kind := fmt.Sprintf("(KExp %d %d true)", ec.Pub, ec.Cid)
		if ec.Async {
			kind = fmt.Sprintf("(KAsync %d %d)", ec.Pub, ec.Cid)
		}
		c.Case("event", fmt.Sprintf("(%s, (%d%%nat, %s, %d))", coqEv(ec.Ev), ec.Sid, kind, ec.Blocks), r.Sc)
	}
	pubsSorted := make([]int, 0, len(r.DoneOrder))
	for p := range r.DoneOrder {
		pubsSorted = append(pubsSorted, p)
	}
	sort.Ints(pubsSorted)
	for _, p := range pubsSorted {
		if len(r.DoneOrder[p]) == 0 && len(r.SentOrder[p]) == 0 {
			continue
		}
		c.Case("order", "("+natList(r.DoneOrder[p])+", "+natList(r.SentOrder[p])+")", r.Sc)
	}
	for i, f := range r.Failures {
		c.Count("oracle-fail:" + r.Sigs[i])
		sig := r.Sigs[i]
		if r.Sc.Kind == "random" {
			sig = "random:" + sig
		}
		c.Fail(sig, f, r.Sc)
	}
}

func natList(l []int) string {
	it := make([]string, len(l))
	for i, x := range l {
		it[i] = fmt.Sprintf("%d%%nat", x)
	}
	return vlib.CoqList(it)
}

// ---- child processes ---------------------------------------------------------------------

func runChildren(c *vlib.Ctx, n, workers int) []Result {
	exe, err := os.Executable()
	if err != nil {
		panic(err)
	}
	var wg sync.WaitGroup
	outs := make([][]Result, workers)
	for w := 0; w < workers; w++ {
		w := w
		wg.Add(1)
		go func() {
			defer wg.Done()
			out := filepath.Join(c.Out, fmt.Sprintf("child-%d.json", w))
			cmd := exec.Command(exe)
			cmd.Env = append(os.Environ(), fmt.Sprintf("VERIF_C14_CHILD=%d/%d/%d/%d/%s", w, workers, n, c.Seed, out))
			cmd.Stderr = os.Stderr
			if err := cmd.Run(); err != nil {
				outs[w] = []Result{{Sc: Scenario{Kind: "random"}, Failures: []string{"child process failed: " + err.Error()}, Sigs: []string{"child:crash"}}}
				return
			}
			b, err := os.ReadFile(out)
			if err != nil {
				panic(err)
			}
			var rs []Result
			if err := json.Unmarshal(b, &rs); err != nil {
				panic(err)
			}
			outs[w] = rs
			os.Remove(out)
		}()
	}
	wg.Wait()
	var all []Result
	for _, o := range outs {
		all = append(all, o...)
	}
	return all
}

func childMain() {
	var w, workers, n int
	var seed uint64
	var out string
	parts := strings.SplitN(os.Getenv("VERIF_C14_CHILD"), "/", 5)
	fmt.Sscan(parts[0], &w)
	fmt.Sscan(parts[1], &workers)
	fmt.Sscan(parts[2], &n)
	fmt.Sscan(parts[3], &seed)
	out = parts[4]
	base := vlib.NewRand(seed).Fork("random-scenarios")
	var rs []Result
	failed := 0
	for i := 0; i < n; i++ {
		s := base.Uint64()
		if i%workers != w {
			continue
		}
		sc := genRandom(vlib.NewRand(s), s)
		r := runScenario(sc)
		rs = append(rs, r)
		if len(r.Failures) > 0 {
			failed++
			if failed >= 3 {
				break // enough replays; a hung implementation makes every further scenario slow
			}
		}
	}
	js, _ := json.Marshal(rs)
	if err := os.WriteFile(out, js, 0o644); err != nil {
		panic(err)
	}
}
