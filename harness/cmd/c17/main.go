// c17: GetResults expands extended providers per the IPNI rules, for any record.
//
// Records are built from small descriptions (chain-level set, contextual sets, metadata
// kinds relative to the looked-up metadata, list-length mismatches), delivered to a real
// pcache.ProviderCache by a scripted source (directly, or as JSON through pcache's own
// HTTP source), and looked up with GetResults under recover().  A specification function
// written here in Go from the property text is the direct oracle; every case is also
// written out for the Coq model (model of the code + spec_results).
package main

import (
	"bytes"
	"context"
	"encoding/json"
	"fmt"
	"net/http"
	"net/http/httptest"
	"runtime"
	"sort"
	"strings"
	"sync"

	"github.com/ipni/go-libipni/find/model"
	"github.com/ipni/go-libipni/pcache"
	"github.com/libp2p/go-libp2p/core/peer"

	"verif/harness/pcdrv"
	"verif/harness/vlib"
)

// ---------------------------------------------------------------------------
// case descriptions

// metadata kinds of an extended provider entry
const (
	mdNil   = 0 // absent (nil)
	mdEmpty = 1 // empty, not nil
	mdSame  = 2 // the same bytes as the looked-up metadata
	mdDiffA = 3
	mdDiffB = 4
)

type Set struct {
	Provs []int `json:"provs"` // provider index per entry; 0 = the looked-up provider itself
	Mds   []int `json:"mds"`   // metadata kind per metadata-list entry (independent length)
}

type CtxSet struct {
	ID       int  `json:"id"` // context ID number (0 = the empty context ID)
	Override bool `json:"override"`
	Set
}

type Rec struct {
	NoExt bool     `json:"no_ext,omitempty"` // ExtendedProviders == nil
	Chain Set      `json:"chain"`
	Ctxs  []CtxSet `json:"ctxs,omitempty"`
}

type Case struct {
	Rec     Rec    `json:"rec"`
	Unknown bool   `json:"unknown,omitempty"` // no source knows the provider
	Ctx     int    `json:"ctx"`               // looked-up context ID number
	Md      int    `json:"md"`                // looked-up metadata: 0 nil, 1 empty, 2 non-empty
	Path    string `json:"path"`              // preload | miss | http-preload | http-miss
	// hand-written JSON bodies (malformed stream): served instead of the encoded record
	RawName string `json:"raw_name,omitempty"`
	RawList string `json:"raw_list,omitempty"` // body of GET /providers
	RawOne  string `json:"raw_one,omitempty"`  // body of GET /providers/<pid>
}

func ctxName(i int) []byte {
	if i == 0 {
		return nil
	}
	return []byte(fmt.Sprintf("c%d", i))
}

func lookupMd(k int) []byte {
	switch k {
	case 0:
		return nil
	case 1:
		return []byte{}
	}
	return []byte{0x07, 0x01}
}

func mdBytes(kind int, looked []byte) []byte {
	switch kind {
	case mdNil:
		return nil
	case mdEmpty:
		return []byte{}
	case mdSame:
		return append([]byte{}, looked...)
	case mdDiffA:
		return []byte{0x08}
	}
	return []byte{0x09, 0x02}
}

func buildInfo(cs Case) *model.ProviderInfo {
	looked := lookupMd(cs.Md)
	tag := 0
	info := &model.ProviderInfo{AddrInfo: pcdrv.AddrInfo(0, tag), LastAdvertisementTime: "2024-01-01T00:00:00Z"}
	if cs.Rec.NoExt {
		return info
	}
	mk := func(s Set) ([]peer.AddrInfo, [][]byte) {
		var ps []peer.AddrInfo
		var ms [][]byte
		for _, p := range s.Provs {
			tag++
			ps = append(ps, pcdrv.AddrInfo(p, tag))
		}
		for _, k := range s.Mds {
			ms = append(ms, mdBytes(k, looked))
		}
		return ps, ms
	}
	xp := &model.ExtendedProviders{}
	xp.Providers, xp.Metadatas = mk(cs.Rec.Chain)
	for _, c := range cs.Rec.Ctxs {
		cx := model.ContextualExtendedProviders{Override: c.Override, ContextID: string(ctxName(c.ID))}
		cx.Providers, cx.Metadatas = mk(c.Set)
		xp.Contextual = append(xp.Contextual, cx)
	}
	info.ExtendedProviders = xp
	return info
}

// ---------------------------------------------------------------------------
// sources

type recSource struct {
	info *model.ProviderInfo // nil: provider unknown
}

func (s *recSource) Fetch(ctx context.Context, pid peer.ID) (*model.ProviderInfo, error) {
	if s.info != nil && s.info.AddrInfo.ID == pid {
		return s.info, nil
	}
	return nil, nil
}
func (s *recSource) FetchAll(ctx context.Context) ([]*model.ProviderInfo, error) {
	if s.info == nil {
		return nil, nil
	}
	return []*model.ProviderInfo{s.info}, nil
}
func (s *recSource) String() string { return "scripted" }

// tapSource remembers what the wrapped (HTTP) source handed to the cache.
type tapSource struct {
	inner pcache.ProviderSource
	got   *model.ProviderInfo
}

func (s *tapSource) Fetch(ctx context.Context, pid peer.ID) (*model.ProviderInfo, error) {
	pi, err := s.inner.Fetch(ctx, pid)
	if pi != nil {
		s.got = pi
	}
	return pi, err
}
func (s *tapSource) FetchAll(ctx context.Context) ([]*model.ProviderInfo, error) {
	pis, err := s.inner.FetchAll(ctx)
	for _, pi := range pis {
		if pi != nil {
			s.got = pi
		}
	}
	return pis, err
}
func (s *tapSource) String() string { return "tap(" + s.inner.String() + ")" }

// one HTTP server for the whole run; the body to serve is selected by a header-free
// path prefix registered per request key
type jsonServer struct {
	srv  *httptest.Server
	mu   sync.Mutex
	list map[string][]byte     // key -> body of GET /providers
	one  map[string][]byte     // key -> body of GET /providers/<pid>
	live map[string]*seqSource // key -> a source whose current record is encoded on every request
}

func newJSONServer() *jsonServer {
	js := &jsonServer{list: map[string][]byte{}, one: map[string][]byte{}, live: map[string]*seqSource{}}
	js.srv = httptest.NewServer(http.HandlerFunc(func(w http.ResponseWriter, r *http.Request) {
		key := r.Header.Get("X-Verif-Key")
		if k := r.URL.Query().Get("key"); k != "" {
			key = k
		}
		js.mu.Lock()
		l, one := js.list[key], js.one[key]
		lv := js.live[key]
		js.mu.Unlock()
		if lv != nil {
			if pi := lv.cur(); pi != nil {
				one, _ = json.Marshal(pi)
				l, _ = json.Marshal([]*model.ProviderInfo{pi})
			}
		}
		w.Header().Set("Content-Type", "application/json")
		if strings.HasSuffix(r.URL.Path, "/providers") {
			if l == nil {
				l = []byte("[]")
			}
			w.Write(l)
			return
		}
		if one == nil {
			http.Error(w, "not found", http.StatusNotFound)
			return
		}
		w.Write(one)
	}))
	return js
}

// ---------------------------------------------------------------------------
// observation

type Item struct {
	Ctx   []byte `json:"ctx"`
	Md    []byte `json:"md"`
	MdNil bool   `json:"md_nil"`
	ID    int    `json:"id"`
	Tag   int    `json:"tag"`
}

type Obs struct {
	Kind   string `json:"kind"` // ok | err | panic
	Items  []Item `json:"items,omitempty"`
	Detail string `json:"detail,omitempty"`
}

var theServer *jsonServer
var keyCounter int
var keyMu sync.Mutex

// run delivers the record to a fresh real cache and calls GetResults.  It returns what
// happened and the record exactly as the cache received it.
func run(cs Case) (obs Obs, got *model.ProviderInfo) {
	var rawList, rawOne []byte
	if cs.RawName != "" {
		rawList, rawOne = []byte(cs.RawList), []byte(cs.RawOne)
	}
	var src pcache.ProviderSource
	var tap *tapSource
	info := (*model.ProviderInfo)(nil)
	if !cs.Unknown {
		info = buildInfo(cs)
	}
	if strings.HasPrefix(cs.Path, "http") {
		keyMu.Lock()
		keyCounter++
		key := fmt.Sprint(keyCounter)
		keyMu.Unlock()
		l, one := rawList, rawOne
		if l == nil && one == nil && info != nil {
			var err error
			l, err = json.Marshal([]*model.ProviderInfo{info})
			if err != nil {
				panic(err)
			}
			one, err = json.Marshal(info)
			if err != nil {
				panic(err)
			}
		}
		theServer.mu.Lock()
		theServer.list[key], theServer.one[key] = l, one
		theServer.mu.Unlock()
		defer func() {
			theServer.mu.Lock()
			delete(theServer.list, key)
			delete(theServer.one, key)
			theServer.mu.Unlock()
		}()
		hs, err := pcache.NewHTTPSource(theServer.srv.URL, nil)
		if err != nil {
			panic(err)
		}
		hs.(interface{ AddHeader(string, string) }).AddHeader("X-Verif-Key", key)
		tap = &tapSource{inner: hs}
		src = tap
	} else {
		src = &recSource{info: info}
		got = info
	}
	defer func() {
		if tap != nil {
			got = tap.got
		}
		if r := recover(); r != nil {
			obs = Obs{Kind: "panic", Detail: fmt.Sprint(r)}
		}
	}()
	opts := []pcache.Option{pcache.WithSource(src), pcache.WithRefreshInterval(0)}
	if strings.HasSuffix(cs.Path, "miss") {
		opts = append(opts, pcache.WithPreload(false))
	}
	pc, err := pcache.New(opts...)
	if err != nil {
		return Obs{Kind: "err", Detail: "new: " + err.Error()}, got
	}
	res, err := pc.GetResults(context.Background(), pcdrv.Peer(0), ctxName(cs.Ctx), lookupMd(cs.Md))
	if err != nil {
		return Obs{Kind: "err", Detail: err.Error()}, got
	}
	obs.Kind = "ok"
	for _, r := range res {
		it := Item{Ctx: r.ContextID, Md: r.Metadata, MdNil: r.Metadata == nil, ID: -1, Tag: -1}
		if r.Provider != nil {
			it.ID = pcdrv.PeerIndex(r.Provider.ID)
			it.Tag = pcdrv.AddrTag(r.Provider.Addrs)
		}
		obs.Items = append(obs.Items, it)
	}
	return obs, got
}

// ---------------------------------------------------------------------------
// the specification, written from the property text (independent of the Coq model):
//
//	the provider itself; then each context-level extended provider registered for that
//	context ID; then, unless that context overrides them, each chain-level extended
//	provider; the provider's own entry is skipped where it adds no new metadata; the
//	looked-up metadata is substituted where an extended provider has none of its own
//	(absent or empty).  Lists of different lengths: results or an error, never a panic.
func specResults(info *model.ProviderInfo, pid peer.ID, ctxID, md []byte) []Item {
	item := func(ai peer.AddrInfo, m []byte) Item {
		return Item{Ctx: ctxID, Md: m, MdNil: m == nil, ID: pcdrv.PeerIndex(ai.ID), Tag: pcdrv.AddrTag(ai.Addrs)}
	}
	out := []Item{item(info.AddrInfo, md)}
	xp := info.ExtendedProviders
	if xp == nil {
		return out
	}
	set := func(provs []peer.AddrInfo, mds [][]byte) {
		for i, p := range provs {
			var own []byte // metadata of its own: present and not empty
			if i < len(mds) && len(mds[i]) > 0 {
				own = mds[i]
			}
			if p.ID == pid && (own == nil || bytes.Equal(own, md)) {
				continue // the provider's own entry adding no new metadata
			}
			if own == nil {
				out = append(out, item(p, md))
			} else {
				out = append(out, item(p, own))
			}
		}
	}
	var reg *model.ContextualExtendedProviders
	for i := range xp.Contextual {
		if xp.Contextual[i].ContextID == string(ctxID) {
			reg = &xp.Contextual[i] // a later registration replaces an earlier one
		}
	}
	if reg != nil {
		set(reg.Providers, reg.Metadatas)
		if reg.Override {
			return out
		}
	}
	set(xp.Providers, xp.Metadatas)
	return out
}

func itemsEqual(a, b []Item) bool {
	if len(a) != len(b) {
		return false
	}
	for i := range a {
		// nil and empty metadata / context ID in a result are the same thing to a consumer
		if !bytes.Equal(a[i].Ctx, b[i].Ctx) || !bytes.Equal(a[i].Md, b[i].Md) ||
			a[i].ID != b[i].ID || a[i].Tag != b[i].Tag {
			return false
		}
	}
	return true
}

// oracle returns a failure class ("" = fine) and a description
func oracle(cs Case, obs Obs, got *model.ProviderInfo) (string, string) {
	if obs.Kind == "panic" {
		return "panic", "GetResults panicked: " + obs.Detail
	}
	if obs.Kind == "err" {
		// results or an error are both allowed by the property for malformed records;
		// the scripted sources never fail, so an error here is unexpected
		return "error", "unexpected error: " + obs.Detail
	}
	if got == nil {
		if len(obs.Items) != 0 {
			return "mismatch", "results for a provider no source knows"
		}
		return "", ""
	}
	want := specResults(got, pcdrv.Peer(0), ctxName(cs.Ctx), lookupMd(cs.Md))
	if !itemsEqual(want, obs.Items) {
		w, _ := json.Marshal(want)
		g, _ := json.Marshal(obs.Items)
		return "mismatch", fmt.Sprintf("GetResults returned %s, the property text gives %s", g, w)
	}
	return "", ""
}

// ---------------------------------------------------------------------------
// Coq printing (from the record as the cache received it)

func coqMd(m []byte) string {
	if m == nil {
		return "None"
	}
	if len(m) == 0 {
		return "(Some [])"
	}
	return "(Some " + vlib.CoqBytes(m) + ")"
}

func coqBytes(b []byte) string {
	if len(b) == 0 {
		return "[]"
	}
	return vlib.CoqBytes(b)
}

func coqAI(ai peer.AddrInfo) string {
	return fmt.Sprintf("AI %d %d", pcdrv.PeerIndex(ai.ID), pcdrv.AddrTag(ai.Addrs))
}

func coqSet(ps []peer.AddrInfo, ms [][]byte) (string, string) {
	a := make([]string, len(ps))
	for i, p := range ps {
		a[i] = coqAI(p)
	}
	b := make([]string, len(ms))
	for i, m := range ms {
		b[i] = coqMd(m)
	}
	return vlib.CoqList(a), vlib.CoqList(b)
}

func coqRecord(info *model.ProviderInfo) string {
	if info == nil {
		return "None"
	}
	ext := "None"
	if xp := info.ExtendedProviders; xp != nil {
		ps, ms := coqSet(xp.Providers, xp.Metadatas)
		cs := make([]string, len(xp.Contextual))
		for i, c := range xp.Contextual {
			cp, cm := coqSet(c.Providers, c.Metadatas)
			cs[i] = fmt.Sprintf("CX %s %s %s %s", coqBytes([]byte(c.ContextID)), vlib.CoqBool(c.Override), cp, cm)
		}
		ext = fmt.Sprintf("(Some (XP %s %s %s))", ps, ms, vlib.CoqList(cs))
	}
	return fmt.Sprintf("(Some (REC (%s) %s))", coqAI(info.AddrInfo), ext)
}

func coqObs(o Obs) string {
	switch o.Kind {
	case "panic":
		return "(Panic 0)"
	case "err":
		return "(Err 0)"
	}
	it := make([]string, len(o.Items))
	for i, x := range o.Items {
		it[i] = fmt.Sprintf("PR %s %s (AI %d %d)", coqBytes(x.Ctx), coqMd(x.Md), x.ID, x.Tag)
	}
	return "(Ok " + vlib.CoqList(it) + ")"
}

func coqCase(cs Case, obs Obs, got *model.ProviderInfo) string {
	return fmt.Sprintf("GRC %s 0 %s %s %s", coqRecord(got), coqBytes(ctxName(cs.Ctx)), coqMd(lookupMd(cs.Md)), coqObs(obs))
}

// representable in the model: every provider index and tag known
func representable(obs Obs, got *model.ProviderInfo) bool {
	for _, it := range obs.Items {
		if it.ID < 0 || it.Tag < 0 {
			return false
		}
	}
	return true
}

// ---------------------------------------------------------------------------
// enumeration

func enumSets(maxN int) []Set {
	var out []Set
	for n := 0; n <= maxN; n++ {
		var provs [][]int
		var gp func(p []int)
		gp = func(p []int) {
			if len(p) == n {
				provs = append(provs, append([]int{}, p...))
				return
			}
			for id := 0; id < 2; id++ {
				gp(append(p, id))
			}
		}
		gp(nil)
		lens := map[int]bool{0: true, n: true, n + 1: true}
		if n > 0 {
			lens[n-1] = true
		}
		var ls []int
		for l := range lens {
			ls = append(ls, l)
		}
		sort.Ints(ls)
		for _, p := range provs {
			for _, l := range ls {
				var gm func(m []int)
				gm = func(m []int) {
					if len(m) == l {
						out = append(out, Set{Provs: p, Mds: append([]int{}, m...)})
						return
					}
					for k := 0; k < 4; k++ {
						gm(append(m, k))
					}
				}
				gm(nil)
			}
		}
	}
	return out
}

func randSet(r *vlib.Rand, maxN int) Set {
	n := r.Intn(maxN + 1)
	s := Set{}
	for i := 0; i < n; i++ {
		id := r.Intn(4)
		if r.Intn(3) == 0 {
			id = 0
		}
		s.Provs = append(s.Provs, id)
	}
	l := n
	switch r.Intn(5) {
	case 0:
		l = r.Intn(n + 1)
	case 1:
		l = n + 1 + r.Intn(2)
	}
	for i := 0; i < l; i++ {
		s.Mds = append(s.Mds, r.Intn(5))
	}
	return s
}

func randCase(r *vlib.Rand, maxN int) Case {
	cs := Case{Path: "preload", Md: r.Intn(3), Ctx: r.Intn(3)}
	if r.Intn(3) > 0 {
		cs.Md = 2
	}
	if r.Intn(25) == 0 {
		cs.Rec.NoExt = true
		return cs
	}
	cs.Rec.Chain = randSet(r, maxN)
	nc := r.Intn(4)
	for i := 0; i < nc; i++ {
		cs.Rec.Ctxs = append(cs.Rec.Ctxs, CtxSet{ID: r.Intn(3), Override: r.Bool(), Set: randSet(r, maxN)})
	}
	return cs
}

// ---------------------------------------------------------------------------
// shrinking

func cloneCase(c Case) Case {
	b, _ := json.Marshal(c)
	var d Case
	json.Unmarshal(b, &d)
	return d
}

func cut(s []int, i int) []int { return append(append([]int{}, s[:i]...), s[i+1:]...) }

func candidates(c Case) []Case {
	var out []Case
	add := func(f func(d *Case)) {
		d := cloneCase(c)
		f(&d)
		out = append(out, d)
	}
	for j := range c.Rec.Ctxs {
		j := j
		add(func(d *Case) { d.Rec.Ctxs = append(d.Rec.Ctxs[:j], d.Rec.Ctxs[j+1:]...) })
	}
	sets := func(d *Case) []*Set {
		l := []*Set{&d.Rec.Chain}
		for j := range d.Rec.Ctxs {
			l = append(l, &d.Rec.Ctxs[j].Set)
		}
		return l
	}
	for si, s := range sets(&c) {
		si := si
		for k := range s.Provs {
			k := k
			add(func(d *Case) { t := sets(d)[si]; t.Provs = cut(t.Provs, k) })
		}
		for k := range s.Mds {
			k := k
			add(func(d *Case) { t := sets(d)[si]; t.Mds = cut(t.Mds, k) })
		}
		for k, v := range s.Mds {
			k := k
			if v != mdNil {
				add(func(d *Case) { sets(d)[si].Mds[k] = mdNil })
			}
			if v > mdEmpty {
				add(func(d *Case) { sets(d)[si].Mds[k] = mdEmpty })
			}
		}
		for k, v := range s.Provs {
			k := k
			if v != 1 {
				add(func(d *Case) { sets(d)[si].Provs[k] = 1 })
			}
		}
	}
	for j, cx := range c.Rec.Ctxs {
		j := j
		if cx.Override {
			add(func(d *Case) { d.Rec.Ctxs[j].Override = false })
		}
	}
	if c.Md != 0 {
		add(func(d *Case) { d.Md = 0 })
	}
	if c.Md == 1 {
		add(func(d *Case) { d.Md = 2 })
	}
	if c.RawName != "" {
		return nil
	}
	if c.Path != "preload" {
		add(func(d *Case) { d.Path = "preload" })
	}
	return out
}

func failClass(c Case) (string, string, Obs, *model.ProviderInfo) {
	obs, got := run(c)
	cl, msg := oracle(c, obs, got)
	return cl, msg, obs, got
}

func shrink(c Case, class string) (Case, string) {
	_, msg, _, _ := failClass(c)
	for changed := true; changed; {
		changed = false
		for _, d := range candidates(c) {
			if cl, m, _, _ := failClass(d); cl == class {
				c, msg, changed = d, m, true
				break
			}
		}
	}
	return c, msg
}

func setSig(s Set) string {
	return strings.ReplaceAll(fmt.Sprint(s.Provs)+"/"+fmt.Sprint(s.Mds), " ", ",")
}

func caseSig(class string, c Case) string {
	if c.RawName != "" {
		return "rawjson:" + class + ":" + c.RawName
	}
	s := class + ":chain=" + setSig(c.Rec.Chain)
	for _, cx := range c.Rec.Ctxs {
		s += fmt.Sprintf(":ctx%d(ovr=%v)=%s", cx.ID, cx.Override, setSig(cx.Set))
	}
	if c.Rec.NoExt {
		s += ":noext"
	}
	return s + fmt.Sprintf(":lookup(ctx=%d,md=%d):%s", c.Ctx, c.Md, c.Path)
}

// ---------------------------------------------------------------------------
// two-step histories: what GetResults expands is the record delivered LAST, alone

// seqSource reports whatever record it currently holds (a fresh copy on every call)
type seqSource struct {
	mu   sync.Mutex
	info *model.ProviderInfo
}

func (s *seqSource) cur() *model.ProviderInfo {
	s.mu.Lock()
	defer s.mu.Unlock()
	if s.info == nil {
		return nil
	}
	b, _ := json.Marshal(s.info)
	var c model.ProviderInfo
	if err := json.Unmarshal(b, &c); err != nil {
		panic(err)
	}
	return &c
}
func (s *seqSource) Fetch(ctx context.Context, pid peer.ID) (*model.ProviderInfo, error) {
	if pi := s.cur(); pi != nil && pi.AddrInfo.ID == pid {
		return pi, nil
	}
	return nil, nil
}
func (s *seqSource) FetchAll(ctx context.Context) ([]*model.ProviderInfo, error) {
	if pi := s.cur(); pi != nil {
		return []*model.ProviderInfo{pi}, nil
	}
	return nil, nil
}
func (s *seqSource) String() string { return "sequence" }

type HistCase struct {
	V1   Case   `json:"v1"`   // the older record (advertisement time 1)
	V2   Case   `json:"v2"`   // the newer record (advertisement time 2); its Ctx / Md are the lookup
	Mode string `json:"mode"` // refresh: v1 cached and looked up, then v2 reported and refreshed
	//                           miss: two sources, the first has v1, the second v2; one lookup misses
}

func timedInfo(cs Case, md int, t string, tagBase int) *model.ProviderInfo {
	cs.Md = md
	pi := buildInfo(cs)
	pi.LastAdvertisementTime = t
	// distinct addresses per version, so that results name the version they came from
	shift := func(ai *peer.AddrInfo) { ai.Addrs = pcdrv.Addr(pcdrv.AddrTag(ai.Addrs) + tagBase) }
	shift(&pi.AddrInfo)
	if xp := pi.ExtendedProviders; xp != nil {
		for i := range xp.Providers {
			shift(&xp.Providers[i])
		}
		for j := range xp.Contextual {
			for i := range xp.Contextual[j].Providers {
				shift(&xp.Contextual[j].Providers[i])
			}
		}
	}
	return pi
}

func observe(res []model.ProviderResult, err error) Obs {
	if err != nil {
		return Obs{Kind: "err", Detail: err.Error()}
	}
	o := Obs{Kind: "ok"}
	for _, r := range res {
		it := Item{Ctx: r.ContextID, Md: r.Metadata, MdNil: r.Metadata == nil, ID: -1, Tag: -1}
		if r.Provider != nil {
			it.ID = pcdrv.PeerIndex(r.Provider.ID)
			it.Tag = pcdrv.AddrTag(r.Provider.Addrs)
		}
		o.Items = append(o.Items, it)
	}
	return o
}

// runHistory returns what the LAST lookup did, the record it must be the expansion of
// (v2 as delivered), and a failure description ("" = fine)
func runHistory(h HistCase) (obs Obs, v2 *model.ProviderInfo, msg string) {
	defer func() {
		if r := recover(); r != nil {
			obs, msg = Obs{Kind: "panic", Detail: fmt.Sprint(r)}, "GetResults panicked: "+fmt.Sprint(r)
		}
	}()
	ctxID, md := ctxName(h.V2.Ctx), lookupMd(h.V2.Md)
	i1 := timedInfo(h.V1, h.V2.Md, "2024-01-01T00:00:01Z", 0)
	i2 := timedInfo(h.V2, h.V2.Md, "2024-01-01T00:00:02Z", 1000)
	var pc *pcache.ProviderCache
	var err error
	if h.Mode == "miss" {
		// "not every source reports extended providers": the older record first
		pc, err = pcache.New(pcache.WithSource(&seqSource{info: i1}, &seqSource{info: i2}), pcache.WithPreload(false), pcache.WithRefreshInterval(0))
		if err != nil {
			panic(err)
		}
	} else {
		src := &seqSource{info: i1}
		var psrc pcache.ProviderSource = src
		if h.Mode == "http-refresh" {
			// the same through pcache's own HTTP source: the server answers with the
			// JSON of whatever record the source currently holds
			keyMu.Lock()
			keyCounter++
			key := fmt.Sprint("h", keyCounter)
			keyMu.Unlock()
			theServer.mu.Lock()
			theServer.live[key] = src
			theServer.mu.Unlock()
			defer func() {
				theServer.mu.Lock()
				delete(theServer.live, key)
				theServer.mu.Unlock()
			}()
			hs, e := pcache.NewHTTPSource(theServer.srv.URL, nil)
			if e != nil {
				panic(e)
			}
			hs.(interface{ AddHeader(string, string) }).AddHeader("X-Verif-Key", key)
			psrc = hs
		}
		pc, err = pcache.New(pcache.WithSource(psrc), pcache.WithRefreshInterval(0))
		if err != nil {
			panic(err)
		}
		o1 := observe(pc.GetResults(context.Background(), pcdrv.Peer(0), ctxID, md))
		if want := specResults(i1, pcdrv.Peer(0), ctxID, md); o1.Kind != "ok" || !itemsEqual(want, o1.Items) {
			return o1, i1, "the first lookup (record v1 alone) is not the expansion of v1"
		}
		src.mu.Lock()
		src.info = i2
		src.mu.Unlock()
		if e := pc.Refresh(context.Background()); e != nil {
			return Obs{Kind: "err", Detail: e.Error()}, i2, "Refresh failed: " + e.Error()
		}
	}
	obs = observe(pc.GetResults(context.Background(), pcdrv.Peer(0), ctxID, md))
	want := specResults(i2, pcdrv.Peer(0), ctxID, md)
	if obs.Kind != "ok" || !itemsEqual(want, obs.Items) {
		w, _ := json.Marshal(want)
		g, _ := json.Marshal(obs)
		return obs, i2, fmt.Sprintf("after the newer record v2 was delivered (%s), GetResults returned %s; the expansion of v2 alone is %s", h.Mode, g, w)
	}
	return obs, i2, ""
}

func histSig(h HistCase) string {
	return "history:" + h.Mode + ":v1{" + caseSig("", h.V1) + "}:v2{" + caseSig("", h.V2) + "}"
}

// ---------------------------------------------------------------------------
// call histories: several lookups on one cache

type callLookup struct {
	ctx int
	md  []byte
}

var callLookups = []callLookup{{1, []byte{0x07, 0x01}}, {1, []byte{0x09, 0x09}}, {1, nil}, {2, []byte{0x0a}}, {1, []byte{0x07, 0x01}}}

type callFail struct{ sig, msg string }

func callHistory(cs Case) (all []Obs, pristine *model.ProviderInfo, fails []callFail) {
	info := buildInfo(cs)
	pristine = buildInfo(cs) // a second, untouched copy of the same record
	before, _ := json.Marshal(info)
	pc, err := pcache.New(pcache.WithSource(&recSource{info: info}), pcache.WithRefreshInterval(0))
	if err != nil {
		panic(err)
	}
	for k, lk := range callLookups {
		obs := func() (o Obs) {
			defer func() {
				if r := recover(); r != nil {
					o = Obs{Kind: "panic", Detail: fmt.Sprint(r)}
				}
			}()
			return observe(pc.GetResults(context.Background(), pcdrv.Peer(0), ctxName(lk.ctx), lk.md))
		}()
		all = append(all, obs)
		want := specResults(pristine, pcdrv.Peer(0), ctxName(lk.ctx), lk.md)
		if obs.Kind != "ok" || !itemsEqual(want, obs.Items) {
			w, _ := json.Marshal(want)
			g, _ := json.Marshal(obs)
			fails = append(fails, callFail{fmt.Sprintf("calls:lookup-depends-on-earlier-lookups:%s:lookup#%d", caseSig("", cs), k),
				fmt.Sprintf("lookup #%d (context c%d, metadata %x) on a cache that had answered %d earlier lookups with other arguments returned %s; the expansion of the record for these arguments is %s", k, lk.ctx, lk.md, k, g, w)})
		}
	}
	if after, _ := json.Marshal(info); string(after) != string(before) {
		fails = append(fails, callFail{"calls:source-record-modified:" + caseSig("", cs),
			fmt.Sprintf("the record the source handed to the cache was modified by GetResults: %s became %s", before, after)})
	}
	return all, pristine, fails
}

// ---------------------------------------------------------------------------
// heterogeneous lists through pcache's own HTTP source: several providers per /providers
// listing, with / without chain-level and contextual extended providers, in every order;
// EVERY provider's expansion is compared with what the server served for THAT provider

// listShapes: 0 none, 1 empty ExtendedProviders, 2 chain-level only, 3 contextual only,
// 4 both, 5 chain-level with an own entry and short metadata
func listRecord(pid, shape, pos int) *model.ProviderInfo {
	tag := 100*(pos+1) + 10*shape
	pi := &model.ProviderInfo{AddrInfo: pcdrv.AddrInfo(pid, tag), LastAdvertisementTime: "2024-01-01T00:00:01Z"}
	chain := func() ([]peer.AddrInfo, [][]byte) {
		return []peer.AddrInfo{pcdrv.AddrInfo(10+pid, tag+1), pcdrv.AddrInfo(pid, tag+2)}, [][]byte{{0x08, byte(pid)}, {0x09, byte(shape)}}
	}
	ctxs := func() []model.ContextualExtendedProviders {
		return []model.ContextualExtendedProviders{{ContextID: "c1", Override: pid%2 == 0,
			Providers: []peer.AddrInfo{pcdrv.AddrInfo(20+pid, tag+3)}, Metadatas: [][]byte{{0x0a, byte(pid)}}}}
	}
	switch shape {
	case 1:
		pi.ExtendedProviders = &model.ExtendedProviders{}
	case 2:
		xp := &model.ExtendedProviders{}
		xp.Providers, xp.Metadatas = chain()
		pi.ExtendedProviders = xp
	case 3:
		pi.ExtendedProviders = &model.ExtendedProviders{Contextual: ctxs()}
	case 4:
		xp := &model.ExtendedProviders{Contextual: ctxs()}
		xp.Providers, xp.Metadatas = chain()
		pi.ExtendedProviders = xp
	case 5:
		xp := &model.ExtendedProviders{}
		xp.Providers, _ = chain()
		xp.Metadatas = [][]byte{nil}
		pi.ExtendedProviders = xp
	}
	return pi
}

type ListCase struct {
	Shapes []int `json:"shapes"` // shape of the record of provider i, in listing order
}

type listFail struct{ sig, msg string }

// runList serves the listing, lets a fresh cache preload it through the HTTP source and
// looks every provider up; it returns per provider the observation and the served record
func runList(lc ListCase) (obs []Obs, served []*model.ProviderInfo, fails []listFail) {
	for i, sh := range lc.Shapes {
		served = append(served, listRecord(i, sh, i))
	}
	body, err := json.Marshal(served)
	if err != nil {
		panic(err)
	}
	keyMu.Lock()
	keyCounter++
	key := fmt.Sprint("l", keyCounter)
	keyMu.Unlock()
	theServer.mu.Lock()
	theServer.list[key] = body
	theServer.mu.Unlock()
	defer func() {
		theServer.mu.Lock()
		delete(theServer.list, key)
		theServer.mu.Unlock()
	}()
	hs, err := pcache.NewHTTPSource(theServer.srv.URL, nil)
	if err != nil {
		panic(err)
	}
	hs.(interface{ AddHeader(string, string) }).AddHeader("X-Verif-Key", key)
	pc, err := pcache.New(pcache.WithSource(hs), pcache.WithRefreshInterval(0))
	if err != nil {
		panic(err)
	}
	ctxID, md := ctxName(1), []byte{0x07, 0x01}
	for i := range served {
		o := func() (o Obs) {
			defer func() {
				if r := recover(); r != nil {
					o = Obs{Kind: "panic", Detail: fmt.Sprint(r)}
				}
			}()
			return observe(pc.GetResults(context.Background(), pcdrv.Peer(i), ctxID, md))
		}()
		obs = append(obs, o)
		want := specResults(served[i], pcdrv.Peer(i), ctxID, md)
		if o.Kind != "ok" || !itemsEqual(want, o.Items) {
			w, _ := json.Marshal(want)
			g, _ := json.Marshal(o)
			fails = append(fails, listFail{fmt.Sprintf("list:expansion-not-of-the-served-record:shapes=%v:provider#%d", lc.Shapes, i),
				fmt.Sprintf("the server's /providers listing has providers with extended-provider shapes %v (0 none, 1 empty, 2 chain-level, 3 contextual, 4 both, 5 chain-level with short metadata); GetResults for provider #%d returned %s; the expansion of the record served for THAT provider is %s", lc.Shapes, i, g, w)})
		}
		// the cached record itself must be the served one
		if pi, _ := pc.Get(context.Background(), pcdrv.Peer(i)); pi != nil {
			a, _ := json.Marshal(pi)
			b, _ := json.Marshal(served[i])
			var c1 model.ProviderInfo
			json.Unmarshal(b, &c1)
			b, _ = json.Marshal(&c1)
			if string(a) != string(b) {
				fails = append(fails, listFail{fmt.Sprintf("list:cached-record-not-as-served:shapes=%v:provider#%d", lc.Shapes, i),
					fmt.Sprintf("listing shapes %v: the record cached for provider #%d is %s; the server served %s", lc.Shapes, i, a, b)})
			}
		}
	}
	return obs, served, fails
}

// ---------------------------------------------------------------------------
// the real find client (find/client DHashClient) over an in-memory dhstore and a provider
// cache fed from a /providers endpoint: one Find whose answer has several value keys, some
// of the SAME provider under different context IDs / metadata; every returned result is
// compared with the expansion of that provider's served record for THAT value key's
// context ID and metadata; afterwards the cached records must be as served

type FindCase struct {
	Shapes []int    `json:"shapes"` // shape of provider i's record (listRecord)
	Keys   [][3]int `json:"keys"`   // value keys in dhstore order: provider, context ID number, metadata number
}

var findMds = [][]byte{{0x07, 0x01}, {0x09, 0x09}, {0x0b}}

type findFail struct{ sig, msg string }

func runFind(fc FindCase) (per [][]Item, want [][]Item, served []*model.ProviderInfo, fails []findFail) {
	for i, sh := range fc.Shapes {
		pi := listRecord(i, sh, i)
		// an address listed twice, as providers occasionally advertise
		pi.AddrInfo.Addrs = append(append(pcdrv.Addr(pcdrv.AddrTag(pi.AddrInfo.Addrs)), pi.AddrInfo.Addrs...), pcdrv.Addr(900+i)...)
		served = append(served, pi)
	}
	body, _ := json.Marshal(served)
	keyMu.Lock()
	keyCounter++
	key := fmt.Sprint("f", keyCounter)
	keyMu.Unlock()
	theServer.mu.Lock()
	theServer.list[key] = body
	theServer.mu.Unlock()
	defer func() {
		theServer.mu.Lock()
		delete(theServer.list, key)
		theServer.mu.Unlock()
	}()
	dh := pcdrv.NewMemDH()
	mh := pcdrv.TestMultihash(1)
	for _, k := range fc.Keys {
		dh.Put(mh, pcdrv.Peer(k[0]), ctxName(k[1]), findMds[k[2]])
	}
	// the client builds its own provider cache from the URL: the key travels in the path
	cl := pcdrv.NewFindClient(dh, theServer.srv.URL+"/?key="+key)
	sig := fmt.Sprintf("shapes=%v:keys=%v", fc.Shapes, fc.Keys)
	for round := 0; round < 2; round++ {
		resp, err := cl.Find(context.Background(), mh)
		if err != nil {
			fails = append(fails, findFail{"find:error:" + sig, "Find failed: " + err.Error()})
			return
		}
		var got []model.ProviderResult
		for _, mr := range resp.MultihashResults {
			got = append(got, mr.ProviderResults...)
		}
		pos := 0
		per, want = nil, nil
		for ki, k := range fc.Keys {
			w := specResults(served[k[0]], pcdrv.Peer(k[0]), ctxName(k[1]), findMds[k[2]])
			end := pos + len(w)
			if end > len(got) {
				end = len(got)
			}
			o := observe(got[pos:end], nil)
			pos = end
			per, want = append(per, o.Items), append(want, w)
			if !itemsEqual(w, o.Items) {
				wj, _ := json.Marshal(w)
				gj, _ := json.Marshal(o.Items)
				fails = append(fails, findFail{fmt.Sprintf("find:result-not-the-expansion-for-its-value-key:%s:key#%d:round%d", sig, ki, round),
					fmt.Sprintf("Find (round %d) over value keys %v (provider, context, metadata): the results for value key #%d (provider %d, context c%d, metadata %x) are %s; the expansion of that provider's record for THAT context ID and metadata is %s", round, fc.Keys, ki, k[0], k[1], findMds[k[2]], gj, wj)})
			}
		}
		if pos != len(got) {
			fails = append(fails, findFail{"find:extra-results:" + sig, fmt.Sprintf("Find returned %d results, the value keys expand to %d", len(got), pos)})
		}
		// consumers of the results must not have changed the cached records
		for i := range served {
			pi, _ := cl.PCache().Get(context.Background(), pcdrv.Peer(i))
			if pi == nil {
				continue
			}
			a, _ := json.Marshal(pi)
			b, _ := json.Marshal(served[i])
			var c1 model.ProviderInfo
			json.Unmarshal(b, &c1)
			b, _ = json.Marshal(&c1)
			if string(a) != string(b) {
				fails = append(fails, findFail{fmt.Sprintf("find:cached-record-changed-by-find:%s:provider#%d", sig, i),
					fmt.Sprintf("after Find number %d the record cached for provider #%d is %s; the server served %s (a consumer of the results wrote into the cached record)", round+1, i, a, b)})
			}
		}
	}
	return
}

// ---------------------------------------------------------------------------

type failRec struct {
	idx   int
	class string
	c     Case
}

func nontrivialKey(c Case, got *model.ProviderInfo) string {
	if got == nil || got.ExtendedProviders == nil {
		return ""
	}
	xp := got.ExtendedProviders
	n := len(xp.Providers)
	for _, cx := range xp.Contextual {
		n += len(cx.Providers)
	}
	if n == 0 {
		return ""
	}
	b, _ := json.Marshal(c)
	return string(b)
}

func main() {
	c := vlib.Init("C17")
	defer c.Finish()
	c.Family("getresults", []string{"From Model Require Import C17_GetResults."}, "get_results_case_ok", 450)
	theServer = newJSONServer()
	defer theServer.srv.Close()

	emit := func(cs Case, obs Obs, got *model.ProviderInfo) {
		if !representable(obs, got) {
			c.Count("not-representable")
			return
		}
		c.Case("getresults", coqCase(cs, obs, got), cs)
	}

	if c.Replay != "" {
		var fr struct {
			Find *FindCase `json:"find"`
		}
		if err := c.LoadReplay(&fr); err == nil && fr.Find != nil {
			per, _, _, fails := runFind(*fr.Find)
			fmt.Printf("replay: Find over shapes %v, value keys %v\n", fr.Find.Shapes, fr.Find.Keys)
			for ki, it := range per {
				b, _ := json.Marshal(it)
				fmt.Printf("  value key #%d: %s\n", ki, b)
			}
			c.Eval()
			for _, f := range fails {
				fmt.Println("ORACLE-FAIL:", f.msg)
				c.Fail(f.sig, f.msg, map[string]interface{}{"find": fr.Find})
			}
			return
		}
		var lr struct {
			List *ListCase `json:"list"`
		}
		if err := c.LoadReplay(&lr); err == nil && lr.List != nil {
			obs, served, fails := runList(*lr.List)
			fmt.Printf("replay: /providers listing with shapes %v\n", lr.List.Shapes)
			for i, o := range obs {
				ob, _ := json.Marshal(o)
				fmt.Printf("  provider #%d: %s\n", i, ob)
				c.Eval()
				if representable(o, served[i]) {
					c.Case("getresults", fmt.Sprintf("GRC %s %d %s %s %s", coqRecord(served[i]), i, coqBytes(ctxName(1)), coqMd([]byte{0x07, 0x01}), coqObs(o)), map[string]interface{}{"list": lr.List, "provider": i})
				}
			}
			for _, f := range fails {
				fmt.Println("ORACLE-FAIL:", f.msg)
				c.Fail(f.sig, f.msg, map[string]interface{}{"list": lr.List})
			}
			return
		}
		var cr struct {
			Calls *Case `json:"calls"`
		}
		if err := c.LoadReplay(&cr); err == nil && cr.Calls != nil {
			obs, pristine, fails := callHistory(*cr.Calls)
			b, _ := json.Marshal(cr.Calls)
			fmt.Printf("replay: call history on record %s\n", b)
			for k, o := range obs {
				ob, _ := json.Marshal(o)
				fmt.Printf("  lookup #%d (context c%d, metadata %x): %s\n", k, callLookups[k].ctx, callLookups[k].md, ob)
				c.Eval()
				if representable(o, pristine) {
					c.Case("getresults", fmt.Sprintf("GRC %s 0 %s %s %s", coqRecord(pristine), coqBytes(ctxName(callLookups[k].ctx)), coqMd(callLookups[k].md), coqObs(o)), map[string]interface{}{"calls": cr.Calls, "lookup": k})
				}
			}
			for _, f := range fails {
				fmt.Println("ORACLE-FAIL:", f.msg)
				c.Fail(f.sig, f.msg, map[string]interface{}{"calls": cr.Calls})
			}
			return
		}
		var hr struct {
			History *HistCase `json:"history"`
		}
		if err := c.LoadReplay(&hr); err == nil && hr.History != nil {
			h := *hr.History
			obs, v2, msg := runHistory(h)
			b, _ := json.Marshal(h)
			o, _ := json.Marshal(obs)
			fmt.Printf("replay: history=%s\n  last lookup observed=%s\n", b, o)
			c.Eval()
			if msg != "" {
				fmt.Println("ORACLE-FAIL:", msg)
				c.Fail(histSig(h), msg, map[string]interface{}{"history": h})
			}
			if representable(obs, v2) {
				c.Case("getresults", fmt.Sprintf("GRC %s 0 %s %s %s", coqRecord(v2), coqBytes(ctxName(h.V2.Ctx)), coqMd(lookupMd(h.V2.Md)), coqObs(obs)), map[string]interface{}{"history": h})
			}
			return
		}
		var cs Case
		if err := c.LoadReplay(&cs); err != nil {
			panic(err)
		}
		var obs Obs
		var got *model.ProviderInfo
		obs, got = run(cs)
		b, _ := json.Marshal(cs)
		o, _ := json.Marshal(obs)
		fmt.Printf("replay: case=%s\n  observed=%s\n", b, o)
		if got != nil {
			w, _ := json.Marshal(specResults(got, pcdrv.Peer(0), ctxName(cs.Ctx), lookupMd(cs.Md)))
			fmt.Printf("  property text gives=%s\n", w)
		}
		c.Eval()
		if cl, msg := oracle(cs, obs, got); cl != "" {
			fmt.Println("ORACLE-FAIL:", msg)
			c.Fail(caseSig(cl, cs), msg, cs)
		}
		emit(cs, obs, got)
		return
	}

	var fails []failRec
	var failMu sync.Mutex
	noteFail := func(idx int, class string, cs Case) {
		failMu.Lock()
		fails = append(fails, failRec{idx, class, cs})
		failMu.Unlock()
	}
	var distMu sync.Mutex
	account := func(cs Case, obs Obs, got *model.ProviderInfo) {
		distMu.Lock()
		defer distMu.Unlock()
		c.Eval()
		c.Count("path:" + cs.Path)
		c.Count("outcome:" + obs.Kind)
		c.Count(fmt.Sprintf("lookup-md:%d", cs.Md))
		if k := nontrivialKey(cs, got); k != "" {
			c.Nontrivial(k)
		}
		if got != nil && got.ExtendedProviders != nil {
			xp := got.ExtendedProviders
			if len(xp.Providers) != len(xp.Metadatas) {
				c.Count("chain-length-mismatch")
			}
			for _, cx := range xp.Contextual {
				if len(cx.Providers) != len(cx.Metadatas) {
					c.Count("contextual-length-mismatch")
				}
				if cx.Override {
					c.Count("override-set")
				}
			}
		}
	}

	sets := enumSets(2)
	c.CountN("sets-per-list(<=2 entries)", len(sets))
	chainRep := Set{Provs: []int{1}, Mds: []int{mdDiffA}}

	// ---- stream 1: one list exhaustive, written out for Coq too
	idx := 0
	for _, s := range sets {
		for md := 0; md < 3; md++ {
			cs := Case{Rec: Rec{Chain: s}, Ctx: 1, Md: md, Path: "preload"}
			obs, got := run(cs)
			account(cs, obs, got)
			emit(cs, obs, got)
			if cl, _ := oracle(cs, obs, got); cl != "" {
				noteFail(idx, cl, cs)
			}
			idx++
			if idx%401 == 7 {
				c.Sample(map[string]interface{}{"case": cs, "observed": obs})
			}
		}
	}
	for _, s := range sets {
		for _, ovr := range []bool{false, true} {
			for md := 0; md < 3; md++ {
				cs := Case{Rec: Rec{Chain: chainRep, Ctxs: []CtxSet{{ID: 1, Override: ovr, Set: s}}}, Ctx: 1, Md: md, Path: "preload"}
				obs, got := run(cs)
				account(cs, obs, got)
				emit(cs, obs, got)
				if cl, _ := oracle(cs, obs, got); cl != "" {
					noteFail(idx, cl, cs)
				}
				idx++
				if idx%401 == 7 {
					c.Sample(map[string]interface{}{"case": cs, "observed": obs})
				}
			}
		}
	}

	// ---- stream 2: the full product chain x contextual x override x looked-up metadata,
	// direct oracle on every element, a seeded sample written out for Coq
	type prodCase struct {
		i  int
		cs Case
	}
	stride := c.Pick(1, 1)
	total := len(sets) * len(sets) * 2 * 3
	sampleEvery := total / c.Pick(900, 20000)
	if sampleEvery < 1 {
		sampleEvery = 1
	}
	srng := c.Rng.Fork("product-sample")
	sampleOff := srng.Intn(sampleEvery)
	type emitted struct {
		i   int
		cs  Case
		obs Obs
		got *model.ProviderInfo
	}
	var emits []emitted
	var emMu sync.Mutex
	jobs := make(chan prodCase, 1024)
	var wg sync.WaitGroup
	nw := runtime.NumCPU()
	if nw > 16 {
		nw = 16
	}
	var evals, nontriv int64
	lenMis := map[string]int{}
	for w := 0; w < nw; w++ {
		wg.Add(1)
		go func() {
			defer wg.Done()
			le, ln := 0, 0
			lm := map[string]int{}
			for j := range jobs {
				obs, got := run(j.cs)
				le++
				if len(j.cs.Rec.Chain.Provs)+len(j.cs.Rec.Ctxs[0].Provs) > 0 {
					ln++
				}
				lm["outcome:"+obs.Kind]++
				if cl, _ := oracle(j.cs, obs, got); cl != "" {
					noteFail(1000000+j.i, cl, j.cs)
				}
				if j.i%sampleEvery == sampleOff {
					emMu.Lock()
					emits = append(emits, emitted{j.i, j.cs, obs, got})
					emMu.Unlock()
				}
			}
			emMu.Lock()
			evals += int64(le)
			nontriv += int64(ln)
			for k, v := range lm {
				lenMis[k] += v
			}
			emMu.Unlock()
		}()
	}
	pi := 0
	for _, ch := range sets {
		for _, cx := range sets {
			for _, ovr := range []bool{false, true} {
				for md := 0; md < 3; md++ {
					if pi%stride == 0 {
						jobs <- prodCase{pi, Case{Rec: Rec{Chain: ch, Ctxs: []CtxSet{{ID: 1, Override: ovr, Set: cx}}}, Ctx: 1, Md: md, Path: "preload"}}
					}
					pi++
				}
			}
		}
	}
	close(jobs)
	wg.Wait()
	c.Res.Evaluations += int(evals)
	c.Res.DistinctNontrivial += int(nontriv)
	c.CountN("product-cases(oracle only)", int(evals))
	for k, v := range lenMis {
		c.CountN(k, v)
	}
	sort.Slice(emits, func(a, b int) bool { return emits[a].i < emits[b].i })
	for _, e := range emits {
		emit(e.cs, e.obs, e.got)
		c.Count("product-cases-written-for-coq")
	}

	// ---- stream 3: larger seeded records (several contextual sets, duplicate and
	// non-matching context IDs, up to 6 entries per list), all four delivery paths
	lrng := c.Rng.Fork("large")
	paths := []string{"preload", "preload", "miss", "http-preload", "http-miss"}
	for i := 0; i < c.Pick(1300, 20000); i++ {
		cs := randCase(lrng, 2+lrng.Intn(5))
		cs.Path = paths[lrng.Intn(len(paths))]
		obs, got := run(cs)
		account(cs, obs, got)
		emit(cs, obs, got)
		if cl, _ := oracle(cs, obs, got); cl != "" {
			noteFail(2000000+i, cl, cs)
		}
		if strings.HasPrefix(cs.Path, "http") && got != nil && got.ExtendedProviders != nil {
			// what JSON delivery did to nil / empty
			count := func(ms [][]byte) {
				for _, m := range ms {
					if m == nil {
						c.Count("json-delivered-md:nil")
					} else if len(m) == 0 {
						c.Count("json-delivered-md:empty-non-nil")
					} else {
						c.Count("json-delivered-md:non-empty")
					}
				}
			}
			count(got.ExtendedProviders.Metadatas)
			for _, cx := range got.ExtendedProviders.Contextual {
				count(cx.Metadatas)
			}
		}
		if i%211 == 3 {
			c.Sample(map[string]interface{}{"case": cs, "observed": obs})
		}
	}

	// ---- stream 4: unknown provider
	for _, p := range []string{"preload", "miss", "http-preload", "http-miss"} {
		for md := 0; md < 3; md++ {
			cs := Case{Unknown: true, Ctx: 1, Md: md, Path: p}
			obs, got := run(cs)
			account(cs, obs, got)
			emit(cs, obs, got)
			if cl, _ := oracle(cs, obs, got); cl != "" {
				noteFail(3000000, cl, cs)
			}
		}
	}

	// ---- stream 5: hand-written JSON bodies a remote indexer may send (malformed stream)
	main58 := pcdrv.Peer(0).String()
	other58 := pcdrv.Peer(1).String()
	type rawFail struct {
		class, msg string
		cs         Case
	}
	var rawFails []rawFail
	rawBodies := []struct{ name, body string }{
		{"chain-providers-without-metadatas", `{"AddrInfo":{"ID":"` + main58 + `","Addrs":["/ip4/10.0.0.0/tcp/3000"]},"ExtendedProviders":{"Providers":[{"ID":"` + other58 + `","Addrs":["/ip4/10.0.0.1/tcp/3000"]}]}}`},
		{"chain-metadatas-null", `{"AddrInfo":{"ID":"` + main58 + `","Addrs":["/ip4/10.0.0.0/tcp/3000"]},"ExtendedProviders":{"Providers":[{"ID":"` + other58 + `","Addrs":["/ip4/10.0.0.1/tcp/3000"]}],"Metadatas":null}}`},
		{"contextual-without-metadatas", `{"AddrInfo":{"ID":"` + main58 + `","Addrs":["/ip4/10.0.0.0/tcp/3000"]},"ExtendedProviders":{"Contextual":[{"ContextID":"c1","Override":true,"Providers":[{"ID":"` + other58 + `","Addrs":["/ip4/10.0.0.1/tcp/3000"]}]}]}}`},
		{"contextual-metadata-empty-string", `{"AddrInfo":{"ID":"` + main58 + `","Addrs":["/ip4/10.0.0.0/tcp/3000"]},"ExtendedProviders":{"Contextual":[{"ContextID":"c1","Providers":[{"ID":"` + other58 + `","Addrs":["/ip4/10.0.0.1/tcp/3000"]}],"Metadatas":[""]}]}}`},
		{"contextual-metadata-null", `{"AddrInfo":{"ID":"` + main58 + `","Addrs":["/ip4/10.0.0.0/tcp/3000"]},"ExtendedProviders":{"Contextual":[{"ContextID":"c1","Providers":[{"ID":"` + other58 + `","Addrs":["/ip4/10.0.0.1/tcp/3000"]}],"Metadatas":[null]}]}}`},
		{"extended-providers-empty-object", `{"AddrInfo":{"ID":"` + main58 + `","Addrs":["/ip4/10.0.0.0/tcp/3000"]},"ExtendedProviders":{}}`},
		{"extended-providers-null", `{"AddrInfo":{"ID":"` + main58 + `","Addrs":["/ip4/10.0.0.0/tcp/3000"]},"ExtendedProviders":null}`},
		{"null-record", `null`},
		{"surplus-metadatas", `{"AddrInfo":{"ID":"` + main58 + `","Addrs":["/ip4/10.0.0.0/tcp/3000"]},"ExtendedProviders":{"Metadatas":["CA==","CQI="]}}`},
	}
	for _, rb := range rawBodies {
		for _, p := range []string{"http-preload", "http-miss"} {
			cs := Case{Ctx: 1, Md: 2, Path: p, RawName: rb.name, RawList: "[" + rb.body + "]", RawOne: rb.body}
			obs, got := run(cs)
			account(cs, obs, got)
			c.Count("rawjson:" + rb.name + ":" + obs.Kind)
			emit(cs, obs, got)
			if cl, msg := oracle(cs, obs, got); cl != "" {
				// not shrinkable through the description: reported under the body's name
				rawFails = append(rawFails, rawFail{cl, msg, cs})
			}
		}
	}

	// ---- stream 6: two-step histories for one provider.  v1 (with extended providers) is
	// cached and looked up; a strictly newer v2 (none / empty / other ones) is reported and
	// the cache refreshed -- or both arrive in one miss from two sources; GetResults must
	// then be the expansion of v2 ALONE.
	v1s := []Rec{
		{Chain: Set{Provs: []int{1}, Mds: []int{mdDiffA}}},
		{Chain: Set{Provs: []int{1, 0}, Mds: []int{mdNil, mdDiffB}}, Ctxs: []CtxSet{{ID: 1, Override: false, Set: Set{Provs: []int{2}, Mds: []int{mdDiffA}}}}},
		{Ctxs: []CtxSet{{ID: 1, Override: true, Set: Set{Provs: []int{3, 1}, Mds: []int{mdEmpty, mdDiffA}}}}},
	}
	v2s := []Rec{
		{NoExt: true},
		{},
		{Chain: Set{Provs: []int{2}, Mds: []int{mdDiffB}}},
		{Ctxs: []CtxSet{{ID: 1, Override: false, Set: Set{Provs: []int{1}, Mds: []int{mdNil}}}}},
		{Chain: Set{Provs: []int{3}, Mds: []int{}}, Ctxs: []CtxSet{{ID: 2, Override: true, Set: Set{Provs: []int{1}, Mds: []int{mdDiffA}}}}},
	}
	var histFails []HistCase
	for _, mode := range []string{"refresh", "miss", "http-refresh"} {
		for _, r1 := range v1s {
			for _, r2 := range v2s {
				for md := 0; md < 3; md++ {
					h := HistCase{V1: Case{Rec: r1, Ctx: 1, Md: md, Path: "preload"}, V2: Case{Rec: r2, Ctx: 1, Md: md, Path: "preload"}, Mode: mode}
					obs, v2, msg := runHistory(h)
					c.Eval()
					c.Count("history:" + mode)
					c.Count("history-outcome:" + obs.Kind)
					c.Nontrivial(histSig(h))
					if representable(obs, v2) {
						c.Case("getresults", fmt.Sprintf("GRC %s 0 %s %s %s", coqRecord(v2), coqBytes(ctxName(h.V2.Ctx)), coqMd(lookupMd(h.V2.Md)), coqObs(obs)),
							map[string]interface{}{"history": h})
					}
					if msg != "" {
						c.Count("history-failed")
						histFails = append(histFails, h)
					}
				}
			}
		}
	}
	// the first failing history of each mode (the enumeration goes from small to large)
	seenMode := map[string]bool{}
	for _, h := range histFails {
		if seenMode[h.Mode] {
			continue
		}
		seenMode[h.Mode] = true
		_, _, msg := runHistory(h)
		c.Fail(histSig(h), msg, map[string]interface{}{"history": h})
	}

	// ---- stream 7: call histories.  Several lookups on ONE cache for the same provider with
	// different looked-up metadata and context IDs; every answer is compared with the
	// expansion of the record for that lookup's arguments (a lookup must leave nothing
	// behind), and the source's record must be as it was before the lookups.
	callFails := 0
	callKinds := map[string]int{}
	for si, st := range sets {
		for variant := 0; variant < 2; variant++ {
			if variant == 1 && si%3 != 0 {
				continue
			}
			cs := Case{Rec: Rec{Chain: st}, Ctx: 1, Md: 2, Path: "preload"}
			if variant == 1 {
				cs = Case{Rec: Rec{Chain: chainRep, Ctxs: []CtxSet{{ID: 1, Override: si%2 == 0, Set: st}, {ID: 2, Override: false, Set: Set{Provs: []int{0, 1}, Mds: []int{mdNil}}}}}, Ctx: 1, Md: 2, Path: "preload"}
			}
			obs, pristine, fails := callHistory(cs)
			for k, o := range obs {
				c.Eval()
				c.Count("call-history-lookups")
				if representable(o, pristine) {
					c.Case("getresults", fmt.Sprintf("GRC %s 0 %s %s %s", coqRecord(pristine), coqBytes(ctxName(callLookups[k].ctx)), coqMd(callLookups[k].md), coqObs(o)),
						map[string]interface{}{"calls": cs, "lookup": k})
				}
			}
			for _, f := range fails {
				callFails++
				kind := strings.SplitN(f.sig, ":", 3)[1]
				if callKinds[kind] < 1 {
					callKinds[kind]++
					c.Fail(f.sig, f.msg, map[string]interface{}{"calls": cs})
				}
			}
		}
	}
	c.CountN("call-history-failures", callFails)

	// ---- stream 8: heterogeneous /providers listings through pcache's own HTTP source
	var listCases []ListCase
	for a := 0; a < 6; a++ {
		for b := 0; b < 6; b++ {
			listCases = append(listCases, ListCase{Shapes: []int{a, b}})
			for cc := 0; cc < 6; cc += 2 {
				listCases = append(listCases, ListCase{Shapes: []int{a, b, (a + cc) % 6}})
			}
		}
	}
	listKinds := map[string]int{}
	for _, lc := range listCases {
		obs, served, fails := runList(lc)
		for i, o := range obs {
			c.Eval()
			c.Count("http-list-lookups")
			if representable(o, served[i]) {
				c.Case("getresults", fmt.Sprintf("GRC %s %d %s %s %s", coqRecord(served[i]), i, coqBytes(ctxName(1)), coqMd([]byte{0x07, 0x01}), coqObs(o)),
					map[string]interface{}{"list": lc, "provider": i})
			}
		}
		for _, f := range fails {
			c.Count("http-list-failures")
			kind := strings.SplitN(f.sig, ":", 3)[1]
			if listKinds[kind] < 1 {
				listKinds[kind]++
				c.Fail(f.sig, f.msg, map[string]interface{}{"list": lc})
			}
		}
	}

	// ---- stream 9: the real find client over these records
	findKinds := map[string]int{}
	for a := 0; a < 6; a++ {
		for b := 0; b < 6; b += 1 {
			fc := FindCase{Shapes: []int{a, b}, Keys: [][3]int{{0, 1, 0}, {0, 2, 1}, {1, 1, 0}, {0, 3, 2}, {1, 2, 1}}}
			per, want, served, fails := runFind(fc)
			for ki := range per {
				c.Eval()
				c.Count("find-value-keys")
				k := fc.Keys[ki]
				o := Obs{Kind: "ok", Items: per[ki]}
				_ = want
				if representable(o, served[k[0]]) {
					c.Case("getresults", fmt.Sprintf("GRC %s %d %s %s %s", coqRecord(served[k[0]]), k[0], coqBytes(ctxName(k[1])), coqMd(findMds[k[2]]), coqObs(o)),
						map[string]interface{}{"find": fc, "key": ki})
				}
			}
			for _, f := range fails {
				c.Count("find-failures")
				kind := strings.SplitN(f.sig, ":", 3)[1]
				if findKinds[kind] < 1 {
					findKinds[kind]++
					c.Fail(f.sig, f.msg, map[string]interface{}{"find": fc})
				}
			}
		}
	}

	// ---- failures: one shrunk representative per class first (the driver prints the
	// first five), then the null record, then representatives that need the contextual
	// loop, then the remaining hand-written bodies
	sort.Slice(fails, func(a, b int) bool { return fails[a].idx < fails[b].idx })
	for _, f := range fails {
		c.Count("oracle-failed:" + f.class)
	}
	seenClass := map[string]bool{}
	for _, f := range fails {
		if seenClass[f.class] {
			continue
		}
		seenClass[f.class] = true
		sc, msg := shrink(f.c, f.class)
		c.Fail(caseSig(f.class, sc), msg, sc)
	}
	for _, rf := range rawFails {
		if rf.cs.RawName == "null-record" {
			c.Fail(caseSig(rf.class, rf.cs), rf.msg, rf.cs)
		}
	}
	// a defect in the contextual loop only must not hide behind chain-level reports
	seenCtx := map[string]bool{}
	for _, f := range fails {
		if len(f.c.Rec.Ctxs) == 0 || seenCtx[f.class] {
			continue
		}
		chainOnly := cloneCase(f.c)
		chainOnly.Rec.Ctxs = nil
		if cl, _, _, _ := failClass(chainOnly); cl == f.class {
			continue
		}
		seenCtx[f.class] = true
		sc, msg := shrink(f.c, f.class)
		c.Fail(caseSig(f.class, sc), msg, sc)
	}
	for _, rf := range rawFails {
		c.Fail(caseSig(rf.class, rf.cs), rf.msg, rf.cs)
	}

	c.Res.Exhaustive = true
	c.Res.Rule = fmt.Sprintf("records with <=2 entries per list: providers in {the looked-up provider, another}, metadata list of length {0, n-1, n, n+1} over {nil, empty, = looked-up, different}; one list exhaustive (%d sets) x looked-up metadata {nil, empty, non-empty} with the other list fixed (chain-level; contextual x override) — all written for Coq; the full product chain x contextual x override x looked-up metadata (%d records) through the direct oracle with a seeded sample written for Coq; seeded larger records (<=6 entries per list, 0..3 contextual sets incl. duplicate / non-matching context IDs) over four delivery paths (FetchAll at preload, Fetch on a miss, each also as JSON through pcache's HTTP source); hand-written JSON bodies; unknown provider; two-step histories for one provider (v1 with extended providers cached and looked up, then a strictly newer v2 without / with other ones reported and refreshed, or both delivered to one miss by two sources): GetResults must be the expansion of v2 alone; call histories (5 lookups with different metadata / context IDs on one cache per record, each compared with the expansion for its own arguments, the source's record compared before/after); heterogeneous /providers listings (2-3 providers with none / empty / chain-level / contextual / both / short-metadata extended providers in every order) through pcache's HTTP source, every provider looked up and its cached record compared with what was served for it. Non-trivial = the record has at least one extended provider entry", len(sets), total)
}
