// c02: only bytes that hash to the requested CID are ever stored or reported.
//
// A fault-injecting wrapper (syncdrv.Rewriter) sits in front of a real ipnisync.Publisher;
// a real dagsync.Subscriber syncs advertisement / entries chains whose CIDs use several
// multihash functions and digest lengths.  For every request position of a sync the
// response is replaced by: a single bit flip, a truncation, appended bytes, the empty body,
// a 4 MiB body, the body of another block of the chain, or a non-200 status.  After every
// run EVERY key/value of the destination datastore is audited with multihash.Sum (the
// direct oracle, independent of the model), and the run is written out symbolically
// (Good i | Other j | Corrupt k) for the Coq model (family "fetch").
package main

import (
	"bytes"
	"context"
	"crypto/sha256"
	"crypto/sha512"
	"encoding/json"
	"errors"
	"fmt"
	"runtime/debug"
	"sort"
	"strconv"
	"strings"

	"github.com/ipfs/go-cid"
	logging "github.com/ipfs/go-log/v2"
	cidlink "github.com/ipld/go-ipld-prime/linking/cid"
	"github.com/ipni/go-libipni/dagsync"
	ic "github.com/libp2p/go-libp2p/core/crypto"
	"github.com/multiformats/go-multihash"

	"verif/harness/syncdrv"
	"verif/harness/vlib"
)

type rngReader struct{ r *vlib.Rand }

func (r rngReader) Read(p []byte) (int, error) {
	copy(p, r.r.Bytes(len(p)))
	return len(p), nil
}

// ---------------------------------------------------------------------------
// scenario description (replay format)

type Fault struct {
	Pos  int    `json:"pos"`  // index of the block request within the sync
	Kind string `json:"kind"` // flip | trunc | append | empty | big | other | status | cut
	Arg  int    `json:"arg"`  // bit index / length / byte count / block rank / status code / bytes delivered before the connection is closed
}

type SyncJ struct {
	T      string  `json:"t"` // ad | entries | one
	Head   int     `json:"head"`
	Stop   int     `json:"stop,omitempty"`
	Depth  int64   `json:"depth,omitempty"`
	Seg    int64   `json:"seg,omitempty"`
	Faults []Fault `json:"faults,omitempty"`
}

type PreJ struct {
	Rank    int  `json:"rank"`
	Corrupt bool `json:"corrupt,omitempty"` // stored under the block's key with other bytes
}

type Scn struct {
	Kind    string `json:"kind"`
	Hash    string `json:"hash"`
	Ads     int    `json:"ads"`                // advertisement chain: ranks 1..Ads (Ads = newest)
	Chunk   int    `json:"chunks"`             // then an entries chain: ranks Ads+1..Ads+Chunk (last = first chunk)
	Raw     int    `json:"raw,omitempty"`      // then raw-codec leaf blocks: ranks Ads+Chunk+1.. (served by the test server itself)
	BigRaw  []int  `json:"big_raw,omitempty"`  // then raw-codec blocks of exactly these sizes
	BigNode []int  `json:"big_node,omitempty"` // then dag-json blocks whose encoding is exactly these sizes
	// then, per entry, a FORGED block: an advertisement body B (PreviousID = the newest genuine
	// ad) announced under a CID naming this hash function with the digest SHA2-256(B); and
	// after all of them, per entry, a genuine sha2-256 ad whose PreviousID is the forged CID.
	// "code:0x<hex>/<len>" names ANY multihash code (registered with the subscriber's
	// go-multihash or not) with a plausible <len>-byte digest derived from the body
	Forge   []string `json:"forge,omitempty"`
	Trusted bool     `json:"trusted,omitempty"` // the destination link system has TrustedStorage = true
	Pre     []PreJ   `json:"pre,omitempty"`
	Syncs   []SyncJ  `json:"syncs"`
}

// hash functions a forged CID may name (digest length 32)
var forgeCodes = map[string]uint64{
	"sha2-512/32":  multihash.SHA2_512,
	"sha2-512-256": 0x1015,
	"sha3-256":     multihash.SHA3_256,
	"blake2b-256":  multihash.BLAKE2B_MIN + 31,
	"blake3":       multihash.BLAKE3,
	"dbl-sha2-256": multihash.DBL_SHA2_256,
	"identity":     multihash.IDENTITY,
}

var hashKinds = map[string][2]int64{
	"sha2-256":    {multihash.SHA2_256, -1},
	"sha2-256/16": {multihash.SHA2_256, 16},
	"sha2-256/20": {multihash.SHA2_256, 20},
	"sha2-512":    {multihash.SHA2_512, -1},
	"blake2b-256": {multihash.BLAKE2B_MIN + 31, -1},
	"identity":    {multihash.IDENTITY, -1},
}

type builtWorld struct {
	w   *syncdrv.World
	srv *syncdrv.Server
}

var (
	worlds = map[string]*builtWorld{}
	pubKey ic.PrivKey
)

func getWorld(sc Scn) *builtWorld {
	key := fmt.Sprintf("%s|%d|%d|%d|%v|%v|%v", sc.Hash, sc.Ads, sc.Chunk, sc.Raw, sc.BigRaw, sc.BigNode, sc.Forge)
	if bw, ok := worlds[key]; ok {
		return bw
	}
	hk, ok := hashKinds[sc.Hash]
	if !ok {
		panic("hash kind " + sc.Hash)
	}
	w := syncdrv.NewWorld("c02-" + sc.Hash)
	w.Proto = cidlink.LinkPrototype{Prefix: cid.Prefix{Version: 1, Codec: cid.DagJSON, MhType: uint64(hk[0]), MhLength: int(hk[1])}}
	w.AdChain(sc.Ads, cid.Undef)
	w.ChunkChain(sc.Chunk)
	for i := 0; i < sc.Raw; i++ {
		w.AddRaw([]byte(fmt.Sprintf("raw leaf %d of the %s world: 0123456789abcdefghijklmnopqrstuvwxyz", i, sc.Hash)))
	}
	for i, size := range sc.BigRaw {
		data := make([]byte, size)
		x := uint32(12345 + i)
		for j := range data {
			x = x*1664525 + 1013904223
			data[j] = byte(x >> 24)
		}
		w.AddRaw(data)
	}
	for _, size := range sc.BigNode {
		w.AddPadded(size)
	}
	var forged []cid.Cid
	for i, name := range sc.Forge {
		body := w.AdBytes(w.CidOf(sc.Ads), fmt.Sprintf("%s-%d", name, i))
		if code, dlen, ok := parseCodeName(name); ok {
			forged = append(forged, w.AddForged(body, cid.DagJSON, code, plausibleDigest(body, dlen)))
			continue
		}
		code, ok := forgeCodes[name]
		if !ok {
			panic("forge " + name)
		}
		d := sha256.Sum256(body)
		forged = append(forged, w.AddForged(body, cid.DagJSON, code, d[:]))
	}
	for _, f := range forged {
		w.AddAd(f, cid.Undef)
	}
	bw := &builtWorld{w: w, srv: syncdrv.NewServer(w, pubKey)}
	worlds[key] = bw
	return bw
}

// ---------------------------------------------------------------------------

// "code:0x1012/20" -> (0x1012, 20)
func parseCodeName(name string) (uint64, int, bool) {
	if !strings.HasPrefix(name, "code:0x") {
		return 0, 0, false
	}
	parts := strings.SplitN(strings.TrimPrefix(name, "code:0x"), "/", 2)
	if len(parts) != 2 {
		panic("forge " + name)
	}
	code, err1 := strconv.ParseUint(parts[0], 16, 64)
	dlen, err2 := strconv.Atoi(parts[1])
	if err1 != nil || err2 != nil {
		panic("forge " + name)
	}
	return code, dlen, true
}

// what a digest of the body could look like: SHA2-256 (<= 32 bytes) or SHA2-512 of it
func plausibleDigest(body []byte, n int) []byte {
	if n <= 32 {
		d := sha256.Sum256(body)
		return d[:n]
	}
	d := sha512.Sum512(body)
	return d[:n]
}

// the property text's "bytes that hash to the CID" presupposes that the hash the CID names
// can be computed: verifiable = go-multihash (the registry the subscriber's link systems
// and fetchBlock use) has the function.  Judged by the harness, not by the code under test.
func verifiable(c cid.Cid) bool {
	_, err := multihash.GetHasher(c.Prefix().MhType)
	return err == nil
}

// some block whose CID is not verifiable is the head or can be reached from it over links
func reachesUnverifiable(w *syncdrv.World, head int) bool {
	seen := map[int]bool{}
	var visit func(r int) bool
	visit = func(r int) bool {
		if r == 0 || r == syncdrv.ForeignRank || seen[r] {
			return false
		}
		seen[r] = true
		if !verifiable(w.CidOf(r)) {
			return true
		}
		for _, e := range w.Blocks[r-1].Edges {
			if visit(e.To) {
				return true
			}
		}
		return false
	}
	return visit(head)
}

func hashesTo(body []byte, c cid.Cid) bool {
	p := c.Prefix()
	sum, err := multihash.Sum(body, p.MhType, p.MhLength)
	return err == nil && bytes.Equal(sum, c.Hash())
}

type answer struct {
	req     int // rank requested
	content int // 0 = no 200 answer; rank j = the bytes of block j; >= 1000 corrupt
	good    bool
}

type syncObs struct {
	snapshot map[string][]byte // the destination store right after this sync
	allowed  map[string]bool   // keys pre-stored, or requested by this or an earlier sync and answered with bytes that hash to them
	ok       bool
	err      string
	panic    string
	hooks    []int
	answers  []answer
}

type reported map[string]bool

var once = reported{}

func failOnce(c *vlib.Ctx, category, sig, desc string, replay interface{}) {
	c.Count("oracle-fail:" + category)
	if once[category] {
		return
	}
	once[category] = true
	c.Fail(sig, desc, replay)
}

func applyFault(f Fault, w *syncdrv.World, status int, body []byte) (int, []byte) {
	switch f.Kind {
	case "flip":
		if len(body) == 0 {
			return status, body
		}
		b := append([]byte{}, body...)
		bit := f.Arg % (len(b) * 8)
		b[bit/8] ^= 1 << (bit % 8)
		return status, b
	case "trunc":
		n := f.Arg
		if n > len(body) {
			n = len(body)
		}
		return status, body[:n]
	case "append":
		return status, append(append([]byte{}, body...), bytes.Repeat([]byte{' '}, f.Arg)...)
	case "empty":
		return status, nil
	case "big":
		return status, bytes.Repeat([]byte{'x'}, 4<<20)
	case "other":
		return status, w.Blocks[f.Arg-1].Raw
	case "status":
		return f.Arg, body
	case "cut":
		return status, body // the connection is cut by the server's Cutter
	}
	panic("fault kind " + f.Kind)
}

func runScn(c *vlib.Ctx, sc Scn, verbose bool) {
	sc.Kind = "fetch"
	bw := getWorld(sc)
	w, srv := bw.w, bw.srv
	sub := syncdrv.NewSubTrusted("nominate", sc.Trusted)
	corruptPre := map[string][]byte{}
	var initial [][2]int
	for _, p := range sc.Pre {
		b := w.Blocks[p.Rank-1]
		val := b.Raw
		content := p.Rank
		if p.Corrupt {
			val = append([]byte("corrupt:"), b.Raw...)
			corruptPre[syncdrv.DSKey(b.Cid).String()] = val
			content = 3000 + p.Rank
		}
		if err := sub.DS.Put(context.Background(), syncdrv.DSKey(b.Cid), val); err != nil {
			panic(err)
		}
		initial = append(initial, [2]int{p.Rank, content})
	}
	corruptN := 0
	var obs []syncObs
	allowed := map[string]bool{}
	for _, p := range sc.Pre {
		allowed[syncdrv.DSKey(w.Blocks[p.Rank-1].Cid).String()] = true
	}
	for _, sy := range sc.Syncs {
		var so syncObs
		srv.Pub.SetRoot(w.CidOf(sy.Head))
		srv.Reset(nil, func(idx int, rc cid.Cid, status int, body []byte) (int, []byte) {
			for _, f := range sy.Faults {
				if f.Pos == idx {
					status, body = applyFault(f, w, status, body)
				}
			}
			a := answer{req: w.RankOf(rc)}
			cutHere := false
			for _, f := range sy.Faults {
				if f.Pos == idx && f.Kind == "cut" && f.Arg < len(body) {
					cutHere = true
				}
			}
			if status == 200 && !cutHere {
				switch {
				case hashesTo(body, rc):
					a.content, a.good = a.req, true
					allowed[syncdrv.DSKey(rc).String()] = true
					if a.req != syncdrv.ForeignRank && !bytes.Equal(body, w.Blocks[a.req-1].Raw) {
						a.content = -1 // other bytes with the same digest: a real collision
					}
				default:
					a.content = 0
					for _, b := range w.Blocks {
						if !b.Forged && bytes.Equal(b.Raw, body) {
							a.content = b.Rank
						}
					}
					if a.content == 0 {
						corruptN++
						a.content = 1000 + corruptN
					}
				}
			}
			so.answers = append(so.answers, a)
			return status, body
		})
		srv.SetCutter(func(idx int, rc cid.Cid) int {
			for _, f := range sy.Faults {
				if f.Pos == idx && f.Kind == "cut" {
					return f.Arg
				}
			}
			return -1
		})
		err, pan := syncdrv.Call(func(ctx context.Context) error {
			var so []dagsync.SyncOption
			if sy.Depth != 0 {
				so = append(so, dagsync.ScopedDepthLimit(sy.Depth))
			}
			switch sy.T {
			case "ad":
				so = append(so, dagsync.WithAdsResync(true))
				if sy.Stop != 0 {
					so = append(so, dagsync.WithStopAdCid(w.CidOf(sy.Stop)))
				}
				if sy.Seg != 0 {
					so = append(so, dagsync.ScopedSegmentDepthLimit(sy.Seg))
				}
				_, err := sub.S.SyncAdChain(ctx, srv.AddrInfo(), so...)
				return err
			case "entries":
				return sub.S.SyncEntries(ctx, srv.AddrInfo(), w.CidOf(sy.Head), so...)
			case "one":
				return sub.S.SyncOneEntry(ctx, srv.AddrInfo(), w.CidOf(sy.Head))
			}
			panic("sync type " + sy.T)
		})
		if errors.Is(err, syncdrv.ErrCallTimeout) {
			// the sync neither returned nor honoured its context: reported, and the scenario is
			// abandoned (the subscriber may be stuck inside the call; it is not closed)
			srv.Reset(nil, nil)
			failOnce(c, "sync-timeout", fmt.Sprintf("sync-does-not-return:%s:%s", sc.Hash, faultSig(sc)),
				fmt.Sprintf("sync %d did not return within %v (its context expired after 20 s)", len(obs), syncdrv.CallBound), sc)
			c.Eval()
			return
		}
		so.ok = err == nil && pan == ""
		so.panic = pan
		if err != nil {
			so.err = err.Error()
		}
		for _, h := range sub.TakeHooks() {
			so.hooks = append(so.hooks, w.RankOf(h.Cid))
		}
		srv.TakeLog()
		so.snapshot = sub.StoreEntries()
		so.allowed = map[string]bool{}
		for k := range allowed {
			so.allowed[k] = true
		}
		obs = append(obs, so)
		c.Eval()
	}
	sub.Close()
	srv.Reset(nil, nil)

	// ---- the audit: every key/value of the destination store, after every sync ----
	audit := func(entries map[string][]byte, allowed map[string]bool) [][2]int {
		var out [][2]int
		for k, v := range entries {
			if !allowed[k] {
				failOnce(c, "unrequested-stored", fmt.Sprintf("unrequested-block-stored:%s:%s", sc.Hash, faultSig(sc)),
					fmt.Sprintf("the destination store holds %d bytes under the key %s, which was neither there before the run nor requested by any sync of this subscriber and answered with bytes that hash to it: the publisher put a block of its choosing into the store", len(v), k), sc)
			}
			kc, err := cid.Decode(strings.TrimPrefix(k, "/"))
			if err != nil {
				failOnce(c, "audit-key", "audit:unparsable-key:"+k, "the destination store holds a key that is not a CID", sc)
				continue
			}
			rank := w.RankOf(kc)
			content := 2000 + rank
			if rank != syncdrv.ForeignRank && bytes.Equal(v, w.Blocks[rank-1].Raw) {
				content = rank
			}
			if pre, ok := corruptPre[k]; ok && bytes.Equal(pre, v) {
				content = 3000 + rank // untouched corrupt entry that was there before the run
			} else if !verifiable(kc) {
				failOnce(c, "unverifiable-stored", fmt.Sprintf("unverifiable-block-stored:%s:%s", forgeSig(sc), faultSig(sc)),
					fmt.Sprintf("the destination store holds %d bytes under block %d's CID %s, which names multihash code 0x%x: no implementation of that function is available, so no digest was computed, yet the bytes were committed", len(v), rank, kc, kc.Prefix().MhType), sc)
			} else if !hashesTo(v, kc) {
				failOnce(c, "audit", fmt.Sprintf("audit:stored-bytes-do-not-hash-to-key:%s:%s", sc.Hash, faultSig(sc)),
					fmt.Sprintf("the destination store holds %d bytes under block %d's CID that do not hash to it", len(v), rank), sc)
			}
			out = append(out, [2]int{rank, content})
		}
		sort.Slice(out, func(i, j int) bool { return out[i][0] < out[j][0] })
		return out
	}
	var final [][2]int
	for _, so := range obs {
		final = audit(so.snapshot, so.allowed)
	}

	// ---- per sync oracles ----
	for i, so := range obs {
		sy := sc.Syncs[i]
		entries := so.snapshot
		if so.panic != "" {
			failOnce(c, "panic", "panic:sync:"+so.panic, "the sync panicked: "+so.panic, sc)
		}
		bad := -1
		for j, a := range so.answers {
			if a.content == -1 {
				c.Count("observation:real-digest-collision")
			}
			// a bad answer counts unless the implementation asked for the same block again
			// later in this sync and that answer was good (it may make as many requests as
			// it likes; the audit of the store is what judges the outcome)
			repaired := false
			for _, later := range so.answers[j+1:] {
				if later.req == a.req && later.good {
					repaired = true
				}
			}
			if !a.good && !repaired && bad < 0 {
				bad = j
			}
		}
		for _, h := range so.hooks {
			if h != syncdrv.ForeignRank && !verifiable(w.CidOf(h)) {
				failOnce(c, "unverifiable-hooked", fmt.Sprintf("unverifiable-block-hooked:%s:%s", forgeSig(sc), faultSig(sc)),
					fmt.Sprintf("block %d, whose CID names multihash code 0x%x (not available: no digest can be computed), was handed to the block hook", h, w.CidOf(h).Prefix().MhType), sc)
			}
			v, ok := entries[syncdrv.DSKey(w.CidOf(h)).String()]
			if !ok || !hashesTo(v, w.CidOf(h)) {
				failOnce(c, "hook-unsound", fmt.Sprintf("hook:block-not-stored-soundly:%s:%s", sc.Hash, faultSig(sc)),
					fmt.Sprintf("block %d was handed to the hook but the store does not hold bytes that hash to it", h), sc)
			}
		}
		for j, a := range so.answers {
			if a.req != syncdrv.ForeignRank && !verifiable(w.CidOf(a.req)) {
				c.Count("observation:unverifiable-cid-requested")
				if so.ok {
					failOnce(c, "unverifiable-accepted", fmt.Sprintf("unverifiable-block-accepted:%s:%s", forgeSig(sc), faultSig(sc)),
						fmt.Sprintf("request %d asked for block %d, whose CID names multihash code 0x%x (not available), and the sync succeeded although the digest of the answer cannot have been computed", j, a.req, w.CidOf(a.req).Prefix().MhType), sc)
				}
			}
		}
		switch {
		case bad >= 0 && so.ok:
			failOnce(c, "bad-accepted", fmt.Sprintf("bad-body-accepted:%s:%s", sc.Hash, faultSig(sc)),
				fmt.Sprintf("request %d (block %d) was answered with a body that does not hash to the CID, but the sync succeeded", bad, so.answers[bad].req), sc)
		case bad >= 0:
			if bad != len(so.answers)-1 {
				failOnce(c, "bad-continued", fmt.Sprintf("bad-body-sync-continued:%s:%s", sc.Hash, faultSig(sc)), "the sync went on requesting blocks after a bad body", sc)
			}
			if sy.Seg <= 0 && len(so.hooks) != 0 {
				failOnce(c, "bad-hooks", fmt.Sprintf("bad-body-hook-called:%s:%s", sc.Hash, faultSig(sc)), "the hook was called in an unsegmented sync that failed", sc)
			}
			req := so.answers[bad].req
			if v, ok := entries[syncdrv.DSKey(w.CidOf(req)).String()]; ok {
				if _, wasPre := corruptPre[syncdrv.DSKey(w.CidOf(req)).String()]; !wasPre || !bytes.Equal(v, corruptPre[syncdrv.DSKey(w.CidOf(req)).String()]) {
					failOnce(c, "bad-committed", fmt.Sprintf("bad-body-committed:%s:%s", sc.Hash, faultSig(sc)),
						fmt.Sprintf("something was committed under block %d's CID although its fetch failed", req), sc)
				}
			}
		case !so.ok && reachesUnverifiable(w, sy.Head):
			// the walk may have met a CID whose hash function is not available: it has to
			// fail there; whether it met one (stop, depth limit) the model decides
			c.Count("sync:failed-with-unverifiable-cid-in-reach")
		case !so.ok:
			failOnce(c, "good-failed", fmt.Sprintf("all-good-but-failed:%s:%s", sc.Hash, faultSig(sc)), "every answer hashed to its CID but the sync failed: "+so.err, sc)
		}
		c.Count("sync:" + map[bool]string{true: "ok", false: "error"}[so.ok])
		for _, f := range sy.Faults {
			if f.Pos < len(so.answers) {
				c.Count("fault:" + f.Kind)
				c.Nontrivial(fmt.Sprintf("%s|%d|%d|%d|%v|%v", sc.Hash, sc.Ads, sc.Chunk, i, f, sy))
			}
		}
	}
	c.Count("hash:" + sc.Hash)
	if verbose {
		for i, so := range obs {
			fmt.Printf("sync %d %+v: ok=%v err=%q hooks=%v\n", i, sc.Syncs[i], so.ok, so.err, so.hooks)
			for j, a := range so.answers {
				fmt.Printf("   request %d: block %d answered with content %d (hashes to the CID: %v)\n", j, a.req, a.content, a.good)
			}
		}
		fmt.Printf("destination store (block, content): %v\n", final)
	}

	// ---- the Coq case ----
	var blocks []string
	for _, b := range w.Blocks {
		var es []string
		for _, e := range b.Edges {
			k := map[string]string{"prev": "EPrev", "next": "ENext", "other": "EOther"}[e.Kind]
			es = append(es, fmt.Sprintf("(%s, %d)", k, e.To))
		}
		blocks = append(blocks, fmt.Sprintf("(%d, %s)", b.Rank, vlib.CoqList(es)))
	}
	pairs := func(ps [][2]int) string {
		var it []string
		for _, p := range ps {
			it = append(it, fmt.Sprintf("(%d, %d)", p[0], p[1]))
		}
		return vlib.CoqList(it)
	}
	ints := func(xs []int) string {
		var it []string
		for _, x := range xs {
			it = append(it, fmt.Sprint(x))
		}
		return vlib.CoqList(it)
	}
	var unver []int
	for _, b := range w.Blocks {
		if !verifiable(b.Cid) {
			unver = append(unver, b.Rank)
		}
	}
	if len(unver) > 0 {
		c.Count("world:with-unverifiable-cids")
	}
	var syncs []string
	for i, so := range obs {
		sy := sc.Syncs[i]
		view, stop, lim := "VPrev", "None", "None"
		if sy.T == "entries" {
			view = "VNext"
		}
		if sy.T == "one" {
			view, lim = "VAll", "(Some 0%nat)"
		}
		if sy.Stop != 0 {
			stop = fmt.Sprintf("(Some %d)", sy.Stop)
		}
		if sy.Depth >= 1 && sy.T != "one" {
			lim = fmt.Sprintf("(Some %d%%nat)", sy.Depth)
		}
		segdl := sy.Seg
		if segdl == 0 || sy.T != "ad" {
			segdl = -1
		}
		var script, reqs []string
		for _, a := range so.answers {
			reqs = append(reqs, fmt.Sprint(a.req))
			switch {
			case a.content == 0:
				script = append(script, "None")
			case a.content == -1:
				script = append(script, fmt.Sprintf("(Some %d)", a.req))
			default:
				script = append(script, fmt.Sprintf("(Some %d)", a.content))
			}
		}
		syncs = append(syncs, fmt.Sprintf("(FSYNC %s %s %s %s HNominate %d, %s, (%s, %s, %s))", view, stop, lim, vlib.CoqZ(segdl), sy.Head,
			vlib.CoqList(script), vlib.CoqBool(so.ok), ints(so.hooks), vlib.CoqList(reqs)))
	}
	c.Case("fetch", fmt.Sprintf("((%s, %s, %s, %s, %s) : fcase)", vlib.CoqList(blocks), ints(unver), pairs(initial), vlib.CoqList(syncs), pairs(final)), sc)
	if len(sc.Syncs[0].Faults) > 0 && sc.Ads >= 3 {
		c.Sample(map[string]interface{}{"input": sc, "ok": obs[0].ok, "error": obs[0].err, "hooks": obs[0].hooks, "store": final})
	}
}

func forgeSig(sc Scn) string {
	return "forge=" + strings.Join(sc.Forge, ",") + fmt.Sprintf(":trusted=%v", sc.Trusted)
}

func faultSig(sc Scn) string {
	js, _ := json.Marshal(sc.Syncs)
	return fmt.Sprintf("ads=%d:chunks=%d:pre=%v:%s", sc.Ads, sc.Chunk, sc.Pre, js)
}

func main() {
	debug.SetMemoryLimit(3 << 30)
	logging.SetAllLoggers(logging.LevelFatal)
	c := vlib.Init("C02")
	defer c.Finish()
	var err error
	pubKey, _, err = ic.GenerateEd25519Key(rngReader{vlib.NewRand(4243)})
	if err != nil {
		panic(err)
	}
	c.Family("fetch", []string{"From Model Require Import C01_ChainSync C02_FetchVerify."}, "fcase_ok", 250)
	defer func() {
		for _, bw := range worlds {
			bw.srv.Close()
		}
	}()
	if c.Replay != "" {
		var sc Scn
		if err := c.LoadReplay(&sc); err != nil {
			panic(err)
		}
		fmt.Printf("replay kind=%s\n", sc.Kind)
		runScn(c, sc, true)
		return
	}
	c.Res.Exhaustive = false
	c.Res.Rule = "advertisement chains of length 1..4 (sha2-256) and 3 (sha2-256 truncated to 16 / 20, sha2-512, blake2b-256, identity), entries chains of length 2: at every request position of the sync, unsegmented and with segment size 1 / 2: 16 (quick) single-bit flips spread over the body, truncation at sampled lengths (every length for the entry chunks), 1 / 3 / 100 appended bytes, the empty body, a 4 MiB body, blocks whose genuine size is exactly 4 MiB - 1 / 4 MiB / 4 MiB + 1 (raw-codec and dag-json) served exactly, with 1 / 4096 appended bytes and cut by one byte, the body of every other block, status 404 / 500 / 204, a 200 answer cut in mid-body (full Content-Length, k bytes, connection closed; k = 0, 1, half, len-1) followed by good answers to any repeated request and by a clean second sync, on dag-json chains and on raw-codec leaf blocks; the same lie patterns with the destination link system's TrustedStorage = true; chains mixing hash functions: a sha2-256 advertisement linking a FORGED CID that names sha2-512/32, sha2-512-256, sha3-256, blake2b-256, blake3, dbl-sha2-256 or a 32-byte identity multihash with the digest SHA2-256(body), within one walk, across syncs of one subscriber, and with the forged CID fetched first; CIDs naming multihash codes the subscriber has no implementation of (0x1012, 0xb401, 0x7777, 0x300001, 0x1100, 0xd4, 0x1053, 0xb3e0 as far as multihash.GetHasher refuses them; digests of 20 / 32 / 64 bytes) and available functions with an over-long digest, linked from a genuine sha2-256 advertisement or asked for directly, trusted and untrusted, segment size off / 1, depth 1 / 2, served as is, flipped, substituted, empty or 404; two faults in one sync; after every sync every key of the destination store was pre-stored or requested by a sync of this subscriber and answered with bytes that hash to it; pre-stored sound and corrupt entries; sequences of failing and succeeding syncs on one subscriber. non-trivial = a fault that was actually delivered"
	gen(c)
}
