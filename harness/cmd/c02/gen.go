package main

import (
	"bytes"
	"fmt"

	"github.com/multiformats/go-multihash"

	"verif/harness/vlib"
)

func faultsFor(c *vlib.Ctx, r *vlib.Rand, bodyLen int, nblocks int, self int, rich bool) []Fault {
	var fs []Fault
	nflip := c.Pick(16, 64)
	if !rich {
		nflip = 3
	}
	for i := 0; i < nflip; i++ {
		bit := (i * bodyLen * 8) / nflip
		if i%2 == 1 {
			bit = r.Intn(bodyLen * 8)
		}
		fs = append(fs, Fault{Kind: "flip", Arg: bit})
	}
	lens := []int{0, 1, 2, bodyLen / 2, bodyLen - 2, bodyLen - 1}
	if rich {
		for i := 0; i < c.Pick(12, 60); i++ {
			lens = append(lens, r.Intn(bodyLen))
		}
	}
	for _, l := range lens {
		if l >= 0 && l < bodyLen {
			fs = append(fs, Fault{Kind: "trunc", Arg: l})
		}
	}
	for _, n := range []int{1, 3, 100} {
		fs = append(fs, Fault{Kind: "append", Arg: n})
	}
	fs = append(fs, Fault{Kind: "empty"})
	for j := 1; j <= nblocks; j++ {
		if j != self {
			fs = append(fs, Fault{Kind: "other", Arg: j})
		}
	}
	for _, st := range []int{404, 500, 204} {
		fs = append(fs, Fault{Kind: "status", Arg: st})
	}
	return fs
}

func gen(c *vlib.Ctx) {
	r := c.Rng.Fork("c02")
	// a sync with no fault at all, per hash kind, with and without segmentation
	for h := range hashKinds {
		for _, seg := range []int64{0, 1} {
			runScn(c, Scn{Hash: h, Ads: 3, Syncs: []SyncJ{{T: "ad", Head: 3, Seg: seg}}}, false)
		}
	}
	// sha2-256: chains 1..4, every request position, the rich fault list
	for n := 1; n <= c.Pick(4, 5); n++ {
		sc0 := Scn{Hash: "sha2-256", Ads: n}
		bw := getWorld(sc0)
		for pos := 0; pos < n; pos++ {
			self := n - pos // the block requested at position pos
			for i, f := range faultsFor(c, r, len(bw.w.Blocks[self-1].Raw), n, self, true) {
				f.Pos = pos
				seg := []int64{0, 1, 2}[i%3]
				runScn(c, Scn{Hash: "sha2-256", Ads: n, Syncs: []SyncJ{{T: "ad", Head: n, Seg: seg, Faults: []Fault{f}}}}, false)
			}
		}
	}
	// the other hash functions / digest lengths
	for _, h := range []string{"sha2-256/16", "sha2-256/20", "sha2-512", "blake2b-256", "identity"} {
		n := 3
		bw := getWorld(Scn{Hash: h, Ads: n})
		for pos := 0; pos < n; pos++ {
			self := n - pos
			for i, f := range faultsFor(c, r, len(bw.w.Blocks[self-1].Raw), n, self, c.Thorough()) {
				f.Pos = pos
				runScn(c, Scn{Hash: h, Ads: n, Syncs: []SyncJ{{T: "ad", Head: n, Seg: int64(i % 2), Faults: []Fault{f}}}}, false)
			}
		}
	}
	// entry chunks are small: truncation at EVERY length, a flip of EVERY bit of one chunk
	{
		sc0 := Scn{Hash: "sha2-256", Ads: 0, Chunk: 2}
		bw := getWorld(sc0)
		for pos := 0; pos < 2; pos++ {
			self := 2 - pos
			l := len(bw.w.Blocks[self-1].Raw)
			for k := 0; k < l; k++ {
				runScn(c, Scn{Hash: "sha2-256", Chunk: 2, Syncs: []SyncJ{{T: "entries", Head: 2, Faults: []Fault{{Pos: pos, Kind: "trunc", Arg: k}}}}}, false)
			}
			step := c.Pick(8, 1)
			for bit := 0; bit < l*8; bit += step {
				runScn(c, Scn{Hash: "sha2-256", Chunk: 2, Syncs: []SyncJ{{T: "entries", Head: 2, Faults: []Fault{{Pos: pos, Kind: "flip", Arg: bit}}}}}, false)
			}
		}
	}
	// a 200 answer cut in mid-body, at every request position; any retry of the block is
	// answered well; then a clean second sync on the same subscriber
	for _, h := range []string{"sha2-256", "sha2-256/16", "sha2-512", "identity"} {
		for n := 1; n <= 3; n++ {
			if h != "sha2-256" && n != 2 {
				continue
			}
			bw := getWorld(Scn{Hash: h, Ads: n, Chunk: 2, Raw: 1})
			for pos := 0; pos < n; pos++ {
				l := len(bw.w.Blocks[n-pos-1].Raw)
				for i, k := range []int{0, 1, l / 2, l - 1} {
					runScn(c, Scn{Hash: h, Ads: n, Chunk: 2, Raw: 1, Syncs: []SyncJ{
						{T: "ad", Head: n, Seg: int64(i % 3), Faults: []Fault{{Pos: pos, Kind: "cut", Arg: k}}},
						{T: "ad", Head: n}}}, false)
				}
			}
			// entry chunks (dag-json) and the raw-codec leaf
			raw := n + 3
			lr := len(bw.w.Blocks[raw-1].Raw)
			for _, k := range []int{0, 1, 7, lr / 2, lr - 1} {
				runScn(c, Scn{Hash: h, Ads: n, Chunk: 2, Raw: 1, Syncs: []SyncJ{
					{T: "one", Head: raw, Faults: []Fault{{Pos: 0, Kind: "cut", Arg: k}}},
					{T: "one", Head: raw}}}, false)
				runScn(c, Scn{Hash: h, Ads: n, Chunk: 2, Raw: 1, Syncs: []SyncJ{
					{T: "entries", Head: raw, Faults: []Fault{{Pos: 0, Kind: "cut", Arg: k}}},
					{T: "entries", Head: raw},
					{T: "entries", Head: n + 2, Faults: []Fault{{Pos: 1, Kind: "cut", Arg: k}}},
					{T: "entries", Head: n + 2}}}, false)
			}
			// other faults on the raw leaf
			for _, f := range []Fault{{Kind: "flip", Arg: 3}, {Kind: "trunc", Arg: lr - 1}, {Kind: "append", Arg: 1}, {Kind: "other", Arg: 1}, {Kind: "empty"}} {
				runScn(c, Scn{Hash: h, Ads: n, Chunk: 2, Raw: 1, Syncs: []SyncJ{{T: "one", Head: raw, Faults: []Fault{f}}, {T: "one", Head: raw}}}, false)
			}
		}
	}
	// blocks whose genuine size sits at a 4 MiB boundary (a size cap, a buffer size): served
	// exactly, with bytes appended, and one byte short; then a clean second sync
	{
		const capSize = 4 << 20
		sizes := []int{capSize - 1, capSize, capSize + 1}
		base := Scn{Hash: "sha2-256", BigRaw: sizes, BigNode: sizes}
		for rank := 1; rank <= 6; rank++ {
			size := sizes[(rank-1)%3]
			for _, fs := range [][]Fault{nil, {{Kind: "append", Arg: 1}}, {{Kind: "append", Arg: 4096}}, {{Kind: "trunc", Arg: size - 1}}} {
				sc := base
				sc.Syncs = []SyncJ{{T: "one", Head: rank, Faults: fs}, {T: "one", Head: rank}}
				runScn(c, sc, false)
			}
		}
	}
	// the lie patterns again with TrustedStorage = true on the destination link system (the
	// library's own tests configure it so): the fetch path must verify all the same
	for _, h := range []string{"sha2-256", "sha2-256/16", "identity"} {
		n := 3
		bw := getWorld(Scn{Hash: h, Ads: n, Raw: 1})
		for pos := 0; pos < n; pos++ {
			self := n - pos
			for i, f := range faultsFor(c, r, len(bw.w.Blocks[self-1].Raw), n, self, false) {
				f.Pos = pos
				runScn(c, Scn{Hash: h, Ads: n, Raw: 1, Trusted: true, Syncs: []SyncJ{{T: "ad", Head: n, Seg: int64(i % 3), Faults: []Fault{f}}, {T: "ad", Head: n}}}, false)
			}
		}
		for _, f := range []Fault{{Kind: "flip", Arg: 5}, {Kind: "append", Arg: 1}, {Kind: "other", Arg: 1}, {Kind: "trunc", Arg: 10}} {
			runScn(c, Scn{Hash: h, Ads: n, Raw: 1, Trusted: true, Syncs: []SyncJ{{T: "one", Head: n + 1, Faults: []Fault{f}}, {T: "one", Head: n + 1}}}, false)
		}
	}
	// hash functions mixed within one walk and across syncs of one subscriber: a forged CID
	// names another function but carries SHA2-256(body) as its digest
	{
		var names []string
		for _, nm := range []string{"sha2-512/32", "sha2-512-256", "sha3-256", "blake2b-256", "blake3", "dbl-sha2-256", "identity"} {
			if _, err := multihash.Sum(bytes.Repeat([]byte{'x'}, 32), forgeCodes[nm], 32); err != nil {
				c.Count("forge:function-not-available:" + nm)
				continue
			}
			names = append(names, nm)
		}
		const ads = 2
		base := Scn{Hash: "sha2-256", Ads: ads, Forge: names}
		for i := range names {
			forged, link := ads+1+i, ads+len(names)+1+i
			for _, trusted := range []bool{false, true} {
				for _, seg := range []int64{0, 1} {
					sc := base
					sc.Trusted = trusted
					// one walk: sha2-256 head -> forged -> genuine chain; then the genuine chain alone
					sc.Syncs = []SyncJ{{T: "ad", Head: link, Seg: seg}, {T: "ad", Head: ads, Seg: seg}}
					runScn(c, sc, false)
				}
				// across syncs of one subscriber: a sha2-256 block first, then the forged one
				sc := base
				sc.Trusted = trusted
				sc.Syncs = []SyncJ{{T: "one", Head: ads}, {T: "one", Head: forged}, {T: "ad", Head: link}}
				runScn(c, sc, false)
				// control: the forged CID is the first block this subscriber ever fetches
				sc.Syncs = []SyncJ{{T: "one", Head: forged}, {T: "one", Head: ads}, {T: "ad", Head: link}, {T: "ad", Head: ads}}
				runScn(c, sc, false)
			}
		}
	}
	// CIDs naming hash functions the subscriber has NO implementation of (multihash.GetHasher
	// fails): a genuine sha2-256 advertisement links to one, or it is asked for directly; the
	// publisher serves "the block" (a well-formed advertisement body, a plausible digest of
	// 20 / 32 / 64 bytes in the CID), other bytes, or nothing.  A digest that cannot be
	// computed has not matched: never stored, never hooked, the sync reaching it fails
	{
		var names []string
		lens := []int{20, 32, 64}
		for i, code := range []uint64{0x1012, 0xb401, 0x7777, 0x300001, 0x1100, 0xd4, 0x1053, 0xb3e0} {
			if _, err := multihash.GetHasher(code); err == nil {
				c.Count(fmt.Sprintf("unregistered:function-is-available:0x%x", code))
				continue
			}
			names = append(names, fmt.Sprintf("code:0x%x/%d", code, lens[i%3]))
			if i < 2 {
				names = append(names, fmt.Sprintf("code:0x%x/%d", code, lens[(i+1)%3]), fmt.Sprintf("code:0x%x/%d", code, lens[(i+2)%3]))
			}
		}
		// and, for contrast, available functions with a digest LONGER than they produce: the
		// digest can be computed and cannot be equal (requested, rejected)
		names = append(names, "code:0x12/64", "code:0x1b/48")
		const ads = 2
		for i, name := range names {
			// a world of its own per CID: ads 1..2, the unverifiable block 3, the linking ad 4
			base := Scn{Hash: "sha2-256", Ads: ads, Forge: []string{name}}
			forged, link := ads+1, ads+2
			for _, trusted := range []bool{false, true} {
				run := func(syncs ...SyncJ) {
					sc := base
					sc.Trusted = trusted
					sc.Syncs = syncs
					runScn(c, sc, false)
				}
				for _, seg := range []int64{0, 1} {
					// one walk: sha2-256 head -> unverifiable CID (-> genuine chain); then the genuine chain alone
					run(SyncJ{T: "ad", Head: link, Seg: seg}, SyncJ{T: "ad", Head: ads, Seg: seg})
				}
				// asked for directly, after and before any other block
				run(SyncJ{T: "one", Head: ads}, SyncJ{T: "one", Head: forged}, SyncJ{T: "ad", Head: link})
				run(SyncJ{T: "one", Head: forged}, SyncJ{T: "one", Head: ads}, SyncJ{T: "ad", Head: link}, SyncJ{T: "ad", Head: ads})
				if i >= 6 && i%3 != 0 {
					continue
				}
				// the walk stops short of it (depth 1) / reaches it (depth 2)
				run(SyncJ{T: "ad", Head: link, Depth: 1}, SyncJ{T: "ad", Head: link, Depth: 2}, SyncJ{T: "ad", Head: link, Depth: 1})
				// whatever the publisher answers for it, should it be asked: other bytes, another block, nothing, 404
				for _, f := range []Fault{{Kind: "flip", Arg: 9}, {Kind: "other", Arg: 1}, {Kind: "empty"}, {Kind: "status", Arg: 404}} {
					f.Pos = 1
					run(SyncJ{T: "ad", Head: link, Seg: int64(i % 2), Faults: []Fault{f}}, SyncJ{T: "ad", Head: ads})
					f.Pos = 0
					run(SyncJ{T: "one", Head: forged, Faults: []Fault{f}})
				}
			}
		}
	}
	// oversized bodies
	for _, h := range []string{"sha2-256", "identity"} {
		for pos := 0; pos < 2; pos++ {
			runScn(c, Scn{Hash: h, Ads: 2, Syncs: []SyncJ{{T: "ad", Head: 2, Faults: []Fault{{Pos: pos, Kind: "big"}}}}}, false)
		}
	}
	// stops, depth limits and pre-stored entries (sound and corrupt) around the fault
	for _, h := range []string{"sha2-256", "sha2-256/16"} {
		for pos := 0; pos < 3; pos++ {
			for _, pre := range [][]PreJ{{{Rank: 4}}, {{Rank: 2}}, {{Rank: 3, Corrupt: true}}, {{Rank: 1, Corrupt: true}, {Rank: 4, Corrupt: true}}} {
				for _, f := range []Fault{{Kind: "flip", Arg: 77}, {Kind: "other", Arg: 1}, {Kind: "status", Arg: 500}} {
					f.Pos = pos
					runScn(c, Scn{Hash: h, Ads: 4, Pre: pre, Syncs: []SyncJ{{T: "ad", Head: 4, Stop: pos % 2, Depth: int64(pos), Seg: int64(pos % 3), Faults: []Fault{f}}}}, false)
				}
			}
		}
	}
	// sequences on one subscriber: fail, retry clean, sync again; two faults in one sync
	for _, h := range []string{"sha2-256", "sha2-512", "identity"} {
		for pos := 0; pos < 3; pos++ {
			for _, seg := range []int64{0, 1} {
				runScn(c, Scn{Hash: h, Ads: 3, Chunk: 2, Syncs: []SyncJ{
					{T: "ad", Head: 3, Seg: seg, Faults: []Fault{{Pos: pos, Kind: "flip", Arg: 9}}},
					{T: "entries", Head: 5, Faults: []Fault{{Pos: 1, Kind: "other", Arg: 1}}},
					{T: "ad", Head: 3, Seg: seg},
					{T: "entries", Head: 5},
					{T: "ad", Head: 3, Faults: []Fault{{Pos: 0, Kind: "empty"}}},
				}}, false)
				runScn(c, Scn{Hash: h, Ads: 3, Syncs: []SyncJ{{T: "ad", Head: 3, Seg: seg, Faults: []Fault{
					{Pos: pos, Kind: "append", Arg: 1}, {Pos: 2, Kind: "trunc", Arg: 5}}}}}, false)
			}
		}
	}
	// seeded mixtures
	kinds := []string{"sha2-256", "sha2-256/16", "sha2-256/20", "sha2-512", "blake2b-256", "identity"}
	for i := 0; i < c.Pick(150, 3000); i++ {
		h := kinds[r.Intn(len(kinds))]
		n := 1 + r.Intn(4)
		bw := getWorld(Scn{Hash: h, Ads: n})
		pos := r.Intn(n)
		fs := faultsFor(c, r, len(bw.w.Blocks[n-pos-1].Raw), n, n-pos, false)
		f := fs[r.Intn(len(fs))]
		f.Pos = pos
		var pre []PreJ
		if r.Intn(3) == 0 {
			pre = append(pre, PreJ{Rank: 1 + r.Intn(n), Corrupt: r.Bool()})
		}
		runScn(c, Scn{Hash: h, Ads: n, Pre: pre, Syncs: []SyncJ{{T: "ad", Head: n, Seg: int64(r.Intn(3)), Depth: int64(r.Intn(n + 2)), Faults: []Fault{f}}}}, false)
	}
}
