package main

import (
	"fmt"

	fd "verif/harness/faultdrv"
	"verif/harness/vlib"
)

const ruleText = "A case is a history of syncs of one publisher on one fresh Subscriber, each sync with its own per-request fault script; after every sync: result, events, latest-sync, store keys, request log (address, with/without IPNI path, resource), hook calls. " +
	"Worlds: plain (external HTTP server, no libp2p-HTTP discovery) with address lists [a], [a,b], [a,dead], [dead,a], [b,a]; legacy (serves no IPNI path) [a], [a,b]; p2phttp (libp2phttp over HTTP through a reverse proxy, discovery) [a], [a,b]; stream (two loopback libp2p hosts) [a], [a,b]. " +
	"single: every fault kind (500, 404, 403, closed connection, TCP reset / stream reset, corrupt body, truncated body, stalled header, stalled body, context cancellation) at EVERY request index of the sync, for heads 1..4, explicit and announce-triggered, segment depth off/1/2, also with a stop position inside the chain and a pre-stored block; followed by a fault-free retry of the same head (and for a subset a third sync in the other mode). " +
	"pair-same / pair-seq: two faults in one sync, or in two consecutive syncs, then the retry (thorough: all pairs for heads <= 3, pairs that include a stalled response 1 in 12; quick: a seeded sample). hook: FailSync at every hook call index. disc: the discovery request fails. addrchange: the address list changes between syncs (syncer re-creation, sorted-address quirk). random: seeded histories of 3..6 syncs mixing everything. " +
	"queued: a second, newer head is announced while the stalled sync of the first runs (it is the pending message when that sync fails), the script runs on into the queued sync, then both heads are announced again on a healthy publisher. " +
	"hook: FailSync at every hook call index, with the harness's hook and with the library's own MakeGeneralBlockHook (callback failing at call j), segment depth off/1/2/3. " +
	"cancel: the caller's context cancelled at every position of the walk of an explicit sync: before the call, inside request k (single family), between the answer to request k and the next request, from the block hook at every call j with segment depth off/1/2/3, also with a pre-stored block and a stop inside the chain. trusted: TrustedStorage link system with bodies corrupted so that they still decode (and other body faults) at every request. " +
	"opts: Subscriber options around failures: MaxAsyncConcurrency(1|2) with as many and more failed announce-triggered syncs (request faults, hook failures) as there are slots, then healthy announcements (each must be processed) and an explicit sync; no BlockHook; StrictAdsSelector(false); announce.WithFilterIPs (the sync client cannot be made). " +
	"both: fault-free explicit syncs (heads 1..4, every latest-sync position, every pre-stored subset, segment off/1/2/3) whose observed request log, hook order, store and latest-sync are checked against C04's model AND C01's sync_ad_chain in one Coq checker (both_case_ok). " +
	"non-trivial = some sync of the history failed AND a later successful sync had to send requests"

type wcfg struct {
	kind  string
	alive []bool
	addrs []int
	name  string
}

var worldCfgs = []wcfg{
	{"plain", []bool{true, true, true}, []int{0}, "one"},
	{"plain", []bool{true, true, true}, []int{0, 1}, "two"},
	{"plain", []bool{true, false, true}, []int{0, 1}, "alive+dead"},
	{"plain", []bool{false, true, true}, []int{0, 1}, "dead+alive"},
	{"plain", []bool{true, true, true}, []int{1, 0}, "two-unsorted"},
	{"legacy", []bool{true, true, true}, []int{0}, "one"},
	{"legacy", []bool{true, true, true}, []int{0, 1}, "two"},
	{"p2phttp", []bool{true, true}, []int{0}, "one"},
	{"p2phttp", []bool{true, true}, []int{0, 1}, "two"},
	{"stream", []bool{true, true}, []int{0}, "one"},
	{"stream", []bool{true, true}, []int{0, 1}, "two"},
}

func faultKinds(kind, mode string) []fd.Fault {
	fs := []fd.Fault{{K: "status", N: 500}, {K: "notfound"}, {K: "forbidden"}, {K: "transport"}, {K: "corrupt"}, {K: "corruptp"}, {K: "truncated"}, {K: "stallhdr"}, {K: "stallbody"}}
	if kind == "stream" {
		fs = append(fs, fd.Fault{K: "reset"})
	} else {
		fs = append(fs, fd.Fault{K: "tcpreset"})
		if mode == "explicit" {
			fs = append(fs, fd.Fault{K: "cancel"})
		}
	}
	return fs
}

func contains(xs []int, x int) bool {
	for _, y := range xs {
		if x == y {
			return true
		}
	}
	return false
}

// nreq: requests of the fault-free sync (a legacy server costs one more: the no-path retry)
func nreq(kind, mode string, head int, cfg fd.Config) int {
	n := 0
	lo := 0
	if cfg.Latest0 < head {
		lo = cfg.Latest0
	}
	for p := head; p > lo; p-- {
		if !contains(cfg.Pre, p) {
			n++
		}
	}
	if mode == "explicit" {
		n++
	}
	if kind == "legacy" {
		n++
	}
	return n
}

func script(at int, f fd.Fault) []fd.Fault {
	s := make([]fd.Fault, at+1)
	for i := range s {
		s[i] = fd.Fault{K: "ok"}
	}
	s[at] = f
	return s
}

func script2(i int, f fd.Fault, j int, g fd.Fault) []fd.Fault {
	s := script(j, g)
	s[i] = f
	return s
}

func mkop(mode string, addrs []int, head int, faults []fd.Fault) fd.Op {
	return fd.Op{Mode: mode, Addrs: addrs, Head: head, Faults: faults, HookFail: -1}
}

func other(mode string) string {
	if mode == "explicit" {
		return "announce"
	}
	return "explicit"
}

func generate(c *vlib.Ctx) []*Hist {
	var hs []*Hist
	add := func(h *Hist) { hs = append(hs, h) }
	modes := []string{"explicit", "announce"}
	thorough := c.Thorough()
	maxHead := 4

	// ---- single faults, exhaustive
	for head := 1; head <= maxHead; head++ {
		for _, seg := range []int{0, 1, 2} {
			if seg >= head && seg > 1 {
				continue // same as unsegmented
			}
			for _, wc := range worldCfgs {
				if !thorough && head == 4 && (seg == 1 || !(wc.name == "one" || wc.name == "two" || wc.name == "alive+dead")) {
					continue // quick: the longest chain on the main configurations only
				}
				cfgs := []fd.Config{{Seg: seg}}
				if head == 3 && (wc.name == "one" || thorough) || head > 3 && thorough {
					cfgs = append(cfgs, fd.Config{Seg: seg, Latest0: 1}, fd.Config{Seg: seg, Pre: []int{head - 1}})
				}
				for _, cfg := range cfgs {
					for _, mode := range modes {
						n := nreq(wc.kind, mode, head, cfg)
						for _, f := range faultKinds(wc.kind, mode) {
							if !thorough && f.K == "corruptp" && wc.name != "one" {
								continue // quick: the parseable corruption on the one-address worlds (and the trusted family)
							}
							if !thorough && (f.K == "stallhdr" || f.K == "stallbody") && (head == 4 || (head == 3 && (seg != 0 || cfg.Latest0 != 0 || len(cfg.Pre) != 0))) {
								continue // stalls cost the client timeout each; thorough does them all
							}
							for at := 0; at < n; at++ {
								h := &Hist{Fam: "single", Kind: wc.kind, Alive: wc.alive, Cfg: cfg, Retry: 1, Class: f.String(),
									Ops: []fd.Op{mkop(mode, wc.addrs, head, script(at, f)), mkop(mode, wc.addrs, head, nil)}}
								if (at+head+seg)%3 == 0 {
									h.Ops = append(h.Ops, mkop(other(mode), wc.addrs, head, nil))
								}
								add(h)
							}
						}
					}
				}
			}
		}
	}

	// ---- hook failure at every hook call
	for head := 1; head <= maxHead; head++ {
		for _, seg := range []int{0, 1, 2, 3} {
			for _, wc := range worldCfgs {
				if wc.name != "one" && !(wc.kind == "plain" && wc.name == "two") {
					continue
				}
				for _, mode := range modes {
					for k := 0; k < head; k++ {
						a := mkop(mode, wc.addrs, head, nil)
						a.HookFail = k
						add(&Hist{Fam: "hook", Kind: wc.kind, Alive: wc.alive, Cfg: fd.Config{Seg: seg}, Retry: 1, Class: "hookfail",
							Ops: []fd.Op{a, mkop(mode, wc.addrs, head, nil), mkop(other(mode), wc.addrs, head, nil)}})
					}
				}
			}
		}
	}

	// ---- the same with the library's OWN hook (dagsync.MakeGeneralBlockHook, whose callback
	// fails at call j): every j, segments of 1, 2, 3 blocks (a failure on a block that is not
	// the last of its segment must still fail the sync) and segmentation off
	for head := 1; head <= 4; head++ {
		for _, seg := range []int{0, 1, 2, 3} {
			for _, wc := range worldCfgs {
				if wc.name != "one" && !(wc.kind == "plain" && wc.name == "two") {
					continue
				}
				for _, mode := range modes {
					for k := 0; k < head; k++ {
						a := mkop(mode, wc.addrs, head, nil)
						a.HookFail = k
						ops := []fd.Op{a, mkop(mode, wc.addrs, head, nil)}
						if (k+seg)%2 == 0 {
							ops = append(ops, mkop(other(mode), wc.addrs, head, nil))
						}
						add(&Hist{Fam: "hook", Kind: wc.kind, Alive: wc.alive, Cfg: fd.Config{Seg: seg, GeneralHook: true}, Retry: 1, Class: "generalhook+hookfail", Ops: ops})
					}
				}
			}
		}
	}
	// ... and request faults under the library's hook (it also drives the segment loop)
	for _, wc := range worldCfgs {
		if wc.name != "one" {
			continue
		}
		for _, seg := range []int{2, 3} {
			for _, mode := range modes {
				head := 4
				cfg := fd.Config{Seg: seg, GeneralHook: true}
				for _, f := range []fd.Fault{{K: "status", N: 500}, {K: "transport"}} {
					for at := 0; at < nreq(wc.kind, mode, head, cfg); at++ {
						add(&Hist{Fam: "hook", Kind: wc.kind, Alive: wc.alive, Cfg: cfg, Retry: 1, Class: "generalhook+" + f.String(),
							Ops: []fd.Op{mkop(mode, wc.addrs, head, script(at, f)), mkop(mode, wc.addrs, head, nil)}})
					}
				}
			}
		}
	}

	// ---- discovery failure (first contact)
	for _, wc := range worldCfgs {
		if wc.kind != "p2phttp" && wc.kind != "stream" {
			continue
		}
		for head := 1; head <= 3; head++ {
			for _, seg := range []int{0, 1} {
				for _, mode := range modes {
					a := mkop(mode, wc.addrs, head, nil)
					a.DiscFail = true
					add(&Hist{Fam: "disc", Kind: wc.kind, Alive: wc.alive, Cfg: fd.Config{Seg: seg}, Retry: 1, Class: "discfail",
						Ops: []fd.Op{a, mkop(mode, wc.addrs, head, nil), mkop(other(mode), wc.addrs, head, nil)}})
					// discovery fails, then (plain-HTTP fallback on p2phttp) a fault in the sync
					for _, f := range []fd.Fault{{K: "notfound"}, {K: "transport"}, {K: "status", N: 500}} {
						for at := 0; at < nreq(wc.kind, mode, head, fd.Config{}); at++ {
							b := mkop(mode, wc.addrs, head, script(at, f))
							b.DiscFail = true
							add(&Hist{Fam: "disc", Kind: wc.kind, Alive: wc.alive, Cfg: fd.Config{Seg: seg}, Retry: 2, Class: "discfail+" + f.String(),
								Ops: []fd.Op{b, mkop(mode, wc.addrs, head, script(at, f)), mkop(mode, wc.addrs, head, nil)}})
						}
					}
				}
			}
		}
	}

	// ---- the address list changes between syncs
	type ac struct {
		kind  string
		alive []bool
		seq   [][]int
	}
	for _, a := range []ac{
		{"plain", []bool{true, true, true}, [][]int{{0}, {0, 1}, {0, 1}}},
		{"plain", []bool{true, true, true}, [][]int{{0, 1}, {1, 0}, {1, 0}}},
		{"plain", []bool{true, true, true}, [][]int{{1, 0}, {2, 1}, {2, 1}}},
		{"plain", []bool{true, true, true}, [][]int{{2, 1}, {2, 0}, {0}}},
		{"plain", []bool{true, false, true}, [][]int{{0, 1}, {1, 0}, {0, 1}}},
		{"plain", []bool{true, false, true}, [][]int{{0, 1}, {2, 1}, {1, 2}}},
		{"plain", []bool{true, true, true}, [][]int{{0}, {1}, {0}}},
		{"legacy", []bool{true, true, true}, [][]int{{0}, {0, 1}, {0, 1}}},
		{"legacy", []bool{true, true, true}, [][]int{{1, 0}, {0}, {0}}},
		{"p2phttp", []bool{true, true}, [][]int{{0}, {0, 1}, {0, 1}}},
		{"p2phttp", []bool{true, true}, [][]int{{1, 0}, {0, 1}, {1}}},
		{"p2phttp", []bool{true, true}, [][]int{{0, 1}, {1}, {0, 1}}},
		{"stream", []bool{true, true}, [][]int{{0}, {0, 1}, {1, 0}}},
		{"stream", []bool{true, true}, [][]int{{1, 0}, {0}, {0}}},
	} {
		for _, mode := range modes {
			for head := 2; head <= 3; head++ {
				for _, f := range []fd.Fault{{K: "notfound"}, {K: "transport"}, {K: "corrupt"}} {
					for at := 0; at < nreq(a.kind, mode, head, fd.Config{}); at++ {
						add(&Hist{Fam: "addrchange", Kind: a.kind, Alive: a.alive, Cfg: fd.Config{}, Retry: 2, Class: "addrchange+" + f.String(),
							Ops: []fd.Op{mkop(mode, a.seq[0], head, script(at, f)), mkop(mode, a.seq[1], head, script(at, f)), mkop(mode, a.seq[2], head, nil)}})
					}
				}
			}
		}
	}

	// ---- libp2phttp publisher whose first address is dead: compared with the model only
	// (the libp2p HTTP client binds to the first HTTP address; see design-notes)
	for _, mode := range modes {
		for _, seq := range [][][]int{{{0, 1}, {0, 1}}, {{1}, {0, 1}}, {{1}, {0, 1}, {1, 0}}} {
			var ops []fd.Op
			for _, ad := range seq {
				ops = append(ops, mkop(mode, ad, 2, nil))
			}
			add(&Hist{Fam: "deadfirst", Kind: "p2phttp", Alive: []bool{false, true}, Cfg: fd.Config{}, Retry: -1, Class: "deadfirst", Ops: ops})
			ops2 := append([]fd.Op(nil), ops...)
			ops2[0].Faults = script(1, fd.Fault{K: "transport"})
			add(&Hist{Fam: "deadfirst", Kind: "p2phttp", Alive: []bool{false, true}, Cfg: fd.Config{}, Retry: -1, Class: "deadfirst", Ops: ops2})
		}
	}

	// ---- fault-free explicit syncs checked against BOTH models (C04's and C01's) in one
	// Coq checker: every latest-sync position, every pre-stored subset, segment off/1/2/3
	for head := 1; head <= 4; head++ {
		for _, wc := range worldCfgs {
			if wc.name != "one" || (head == 4 && wc.kind != "plain") {
				continue
			}
			for latest := 0; latest <= head; latest++ {
				for sub := 0; sub < 1<<head; sub++ {
					var pre []int
					for b := 0; b < head; b++ {
						if sub&(1<<b) != 0 {
							pre = append(pre, b+1)
						}
					}
					for _, seg := range []int{0, 1, 2, 3} {
						add(&Hist{Fam: "both", Kind: wc.kind, Alive: wc.alive, Cfg: fd.Config{Seg: seg, Latest0: latest, Pre: pre}, Retry: -1, Class: "fault-free",
							Ops: []fd.Op{mkop("explicit", wc.addrs, head, nil)}})
					}
				}
			}
		}
	}

	// ---- a second, newer announcement is queued while the (stalled, failing) sync of the
	// first one runs, so it is the handler's pending message when that sync fails; the fault
	// script runs on into the queued sync; then the publisher is healthy and BOTH heads are
	// announced again: each announcement whose sync failed must be processed
	for _, wc := range worldCfgs {
		if !(wc.name == "one" || (wc.kind == "plain" && (wc.name == "two" || wc.name == "alive+dead"))) {
			continue
		}
		for hx := 1; hx <= 2; hx++ {
			hy := hx + 1
			for _, seg := range []int{0, 1} {
				if seg == 1 && wc.kind != "plain" && wc.kind != "stream" {
					continue
				}
				for _, first := range []string{"stallhdr", "stallbody"} {
					if first == "stallbody" && !(wc.kind == "plain" && wc.name == "one") {
						continue
					}
					var scripts [][]fd.Fault
					// the queued sync is not faulted / is faulted at its request j
					scripts = append(scripts, []fd.Fault{{K: first}})
					kinds := []fd.Fault{{K: "status", N: 500}, {K: "notfound"}, {K: "transport"}, {K: "corrupt"}}
					if !thorough && !(wc.kind == "plain" && wc.name == "one") {
						kinds = kinds[:1]
						if wc.kind == "plain" || wc.kind == "stream" {
							kinds = []fd.Fault{{K: "status", N: 500}, {K: "transport"}}
						}
					}
					for _, f := range kinds {
						for j := 0; j < hy+1; j++ {
							// the first sync consumes 1 element (2 with a second address to fail
							// over to, 3 on a legacy server): pad generously with ok
							for _, pad := range []int{0, 1} {
								sc := []fd.Fault{{K: first}}
								for q := 0; q < pad+j; q++ {
									sc = append(sc, fd.Fault{K: "ok"})
								}
								sc = append(sc, f)
								if (j+pad+hx+seg)%2 == 0 || thorough {
									scripts = append(scripts, sc)
								}
							}
						}
					}
					for _, sc := range scripts {
						a := fd.Op{Mode: "announce2", Addrs: wc.addrs, Head: hx, Head2: hy, Faults: sc, HookFail: -1}
						cl := "queued+" + first
						if len(sc) > 1 {
							cl += "+" + sc[len(sc)-1].String()
						}
						add(&Hist{Fam: "queued", Kind: wc.kind, Alive: wc.alive, Cfg: fd.Config{Seg: seg}, Retry: -1, Class: cl,
							Ops: []fd.Op{a, mkop("announce", wc.addrs, hx, nil), mkop("announce", wc.addrs, hy, nil), mkop("explicit", wc.addrs, hy, nil)}})
					}
				}
			}
		}
	}

	// ---- Subscriber options that change the control flow around failures
	// (a) MaxAsyncConcurrency(n): n (and more) failed announce-triggered syncs, then healthy
	//     announcements: each must be processed (a failed sync gives its slot back)
	for _, wc := range worldCfgs {
		if wc.name != "one" && !(wc.kind == "plain" && wc.name == "alive+dead") {
			continue
		}
		for _, n := range []int{1, 2} {
			for _, seg := range []int{0, 1} {
				for head := 1; head <= 2; head++ {
					fks := []fd.Fault{{K: "status", N: 500}, {K: "transport"}, {K: "corrupt"}, {K: "notfound"}}
					if !thorough && wc.kind != "plain" {
						fks = fks[:2]
					}
					for fi, f := range fks {
						for at := 0; at < head; at++ {
							if !thorough && (at+fi+seg+n)%2 == 1 {
								continue
							}
							var ops []fd.Op
							for q := 0; q < n; q++ {
								ops = append(ops, mkop("announce", wc.addrs, head, script(at, f)))
							}
							ops = append(ops, mkop("announce", wc.addrs, head, nil))
							// one more failure and recovery with the newer head
							ops = append(ops, mkop("announce", wc.addrs, head+1, script(0, f)), mkop("announce", wc.addrs, head+1, nil))
							if fi == 0 && at == 0 && seg == 0 {
								ops = append(ops, mkop("explicit", wc.addrs, head+1, nil))
							}
							add(&Hist{Fam: "opts", Kind: wc.kind, Alive: wc.alive, Cfg: fd.Config{Seg: seg, MaxAsync: n}, Retry: n, Class: fmt.Sprintf("maxasync%d+%s", n, f.String()),
								Ops: ops})
						}
					}
					if seg == 1 {
						// hook failures take the same exit
						var ops []fd.Op
						for q := 0; q < n; q++ {
							a := mkop("announce", wc.addrs, head, nil)
							a.HookFail = 0
							ops = append(ops, a)
						}
						ops = append(ops, mkop("announce", wc.addrs, head, nil))
						add(&Hist{Fam: "opts", Kind: wc.kind, Alive: wc.alive, Cfg: fd.Config{Seg: seg, MaxAsync: n}, Retry: n, Class: fmt.Sprintf("maxasync%d+hookfail", n), Ops: ops})
					}
				}
			}
		}
	}
	// (b) no BlockHook (segmentation silently off, nothing for FailSync to act on), the
	//     non-strict advertisement selector, both with a concurrency limit as well
	for _, wc := range worldCfgs {
		if wc.name != "one" {
			continue
		}
		for _, cfg := range []fd.Config{{NoHook: true}, {NoHook: true, Seg: 2, MaxAsync: 1}, {NonStrict: true}, {NonStrict: true, Seg: 1, MaxAsync: 2}} {
			for _, mode := range modes {
				head := 2
				n := nreq(wc.kind, mode, head, cfg)
				fks := []fd.Fault{{K: "status", N: 500}, {K: "notfound"}, {K: "transport"}, {K: "corrupt"}}
				for _, f := range fks {
					for at := 0; at < n; at++ {
						add(&Hist{Fam: "opts", Kind: wc.kind, Alive: wc.alive, Cfg: cfg, Retry: 1, Class: "options+" + f.String(),
							Ops: []fd.Op{mkop(mode, wc.addrs, head, script(at, f)), mkop(mode, wc.addrs, head, nil), mkop(other(mode), wc.addrs, head, nil)}})
					}
				}
			}
		}
	}
	// (c) announce.WithFilterIPs: the loopback addresses are dropped from the announcement,
	//     the sync client cannot be made (stream world: a libp2p host without addresses for the
	//     publisher): failure before the first request, twice
	for head := 1; head <= 2; head++ {
		for _, n := range []int{0, 1} {
			add(&Hist{Fam: "opts", Kind: "stream", Alive: []bool{true, true}, Cfg: fd.Config{FilterIPs: true, MaxAsync: n}, Retry: -1, Class: "filterips",
				Ops: []fd.Op{mkop("announce", []int{0}, head, nil), mkop("announce", []int{0}, head, nil), mkop("announce", []int{0, 1}, head, nil)}})
		}
	}

	// ---- cancellation of the caller's context at every position of the walk (explicit syncs,
	// HTTP transports): before the sync is called; between the answer to block request k and
	// the next request (okcancel: when the block is committed); from the block hook at call j
	// (after the segment of block j, before the next one) - segment depth off/1/2/3.  Inside
	// request k: the "cancel" fault of the single family.
	for _, wc := range worldCfgs {
		if !(wc.name == "one" && wc.kind != "stream" || wc.kind == "plain" && (wc.name == "two" || wc.name == "alive+dead")) {
			continue
		}
		for head := 1; head <= 4; head++ {
			for _, seg := range []int{0, 1, 2, 3} {
				cfgs := []fd.Config{{Seg: seg}}
				if head >= 3 && wc.kind == "plain" && wc.name == "one" {
					cfgs = append(cfgs, fd.Config{Seg: seg, Pre: []int{head - 1}}, fd.Config{Seg: seg, Latest0: 1})
				}
				for _, cfg := range cfgs {
					mk := func(o fd.Op, class string) {
						ops := []fd.Op{o, mkop("explicit", wc.addrs, head, nil)}
						if (head+seg)%2 == 0 {
							ops = append(ops, mkop("announce", wc.addrs, head, nil))
						}
						add(&Hist{Fam: "cancel", Kind: wc.kind, Alive: wc.alive, Cfg: cfg, Retry: 1, Class: class, Ops: ops})
					}
					if seg <= 1 && len(cfg.Pre) == 0 && cfg.Latest0 == 0 {
						o := mkop("explicit", wc.addrs, head, nil)
						o.PreCancel = true
						mk(o, "precancel")
					}
					for j := 0; j < head; j++ {
						o := mkop("explicit", wc.addrs, head, nil)
						o.HookCancelAt = j + 1
						mk(o, "hookcancel")
					}
					if wc.kind != "legacy" {
						n := nreq(wc.kind, "explicit", head, cfg)
						for at := 1; at < n; at++ {
							mk(mkop("explicit", wc.addrs, head, script(at, fd.Fault{K: "okcancel"})), "okcancel")
						}
					}
				}
			}
		}
	}

	// ---- a subscriber whose link system trusts its storage (TrustedStorage = true: nothing is
	// hashed on load), and bodies corrupted so that they still decode
	for _, wc := range worldCfgs {
		if wc.name != "one" {
			continue
		}
		for head := 1; head <= 3; head++ {
			for _, seg := range []int{0, 1} {
				for _, mode := range modes {
					cfg := fd.Config{Seg: seg, Trusted: true}
					n := nreq(wc.kind, mode, head, cfg)
					tf := []fd.Fault{{K: "corruptp"}, {K: "corrupt"}, {K: "truncated"}, {K: "status", N: 500}}
					if !thorough {
						tf = tf[:2]
					}
					for _, f := range tf {
						for at := 0; at < n; at++ {
							add(&Hist{Fam: "trusted", Kind: wc.kind, Alive: wc.alive, Cfg: cfg, Retry: 1, Class: "trusted+" + f.String(),
								Ops: []fd.Op{mkop(mode, wc.addrs, head, script(at, f)), mkop(mode, wc.addrs, head, nil), mkop(other(mode), wc.addrs, head, nil)}})
						}
					}
				}
			}
		}
	}

	// ---- pairs
	rp := c.Rng.Fork("pairs")
	pairHeads := 3
	for head := 1; head <= pairHeads; head++ {
		for _, seg := range []int{0, 1} {
			for _, wc := range worldCfgs {
				for _, mode := range modes {
					var fks []fd.Fault
					for _, f := range faultKinds(wc.kind, mode) {
						if f.K != "corruptp" {
							fks = append(fks, f)
						}
					}
					n := nreq(wc.kind, mode, head, fd.Config{})
					for _, f := range fks {
						for _, g := range fks {
							stall := 0
							for _, x := range []fd.Fault{f, g} {
								if x.K == "stallhdr" || x.K == "stallbody" {
									stall++
								}
							}
							for i := 0; i < n; i++ {
								for j := 0; j <= n+1; j++ {
									// quick: a seeded sample, thinner where stalls make it slow;
									// thorough: every pair, except that pairs with a stall (each
									// stall costs the client timeout) are a 1-in-12 sample
									den := 40
									if stall > 0 {
										den = 400
									}
									if thorough {
										den = 1
										if stall > 0 {
											den = 12
										}
									}
									if den > 1 && rp.Intn(den) != 0 {
										continue
									}
									cfg := fd.Config{Seg: seg}
									if j > i {
										add(&Hist{Fam: "pair-same", Kind: wc.kind, Alive: wc.alive, Cfg: cfg, Retry: 1, Class: f.String() + "+" + g.String(),
											Ops: []fd.Op{mkop(mode, wc.addrs, head, script2(i, f, j, g)), mkop(mode, wc.addrs, head, nil)}})
									}
									if j < n {
										add(&Hist{Fam: "pair-seq", Kind: wc.kind, Alive: wc.alive, Cfg: cfg, Retry: 2, Class: f.String() + ";" + g.String(),
											Ops: []fd.Op{mkop(mode, wc.addrs, head, script(i, f)), mkop(mode, wc.addrs, head, script(j, g)), mkop(mode, wc.addrs, head, nil)}})
									}
								}
							}
						}
					}
				}
			}
		}
	}

	// ---- random histories
	rr := c.Rng.Fork("random")
	nrand := c.Pick(300, 6000)
	for k := 0; k < nrand; k++ {
		wc := worldCfgs[rr.Intn(len(worldCfgs))]
		head := 1 + rr.Intn(4)
		cfg := fd.Config{Seg: []int{0, 0, 1, 2, 3}[rr.Intn(5)]}
		if head >= 2 && rr.Intn(4) == 0 {
			cfg.Latest0 = 1 + rr.Intn(head-1)
		}
		if head >= 2 && rr.Intn(4) == 0 {
			cfg.Pre = []int{1 + rr.Intn(head)}
		}
		nops := 2 + rr.Intn(4)
		h := &Hist{Fam: "random", Kind: wc.kind, Alive: wc.alive, Cfg: cfg, Class: "random"}
		menus := [][]int{wc.addrs}
		if len(wc.addrs) == 2 {
			menus = append(menus, []int{wc.addrs[1], wc.addrs[0]}, []int{wc.addrs[0]})
		}
		for i := 0; i < nops; i++ {
			mode := modes[rr.Intn(2)]
			addrs := menus[0]
			if rr.Intn(5) == 0 {
				addrs = menus[rr.Intn(len(menus))]
			}
			if wc.kind == "p2phttp" || wc.kind == "plain" {
				// keep an alive address first for p2phttp, and some alive address for plain
				ok := false
				for q, a := range addrs {
					if wc.alive[a] && (wc.kind == "plain" || q == 0) {
						ok = true
					}
				}
				if !ok {
					addrs = menus[0]
				}
			}
			op := mkop(mode, addrs, head, nil)
			fks := faultKinds(wc.kind, mode)
			nf := rr.Intn(3)
			if nf > 0 {
				n := nreq(wc.kind, mode, head, cfg) + 2
				op.Faults = make([]fd.Fault, n)
				for q := range op.Faults {
					op.Faults[q] = fd.Fault{K: "ok"}
				}
				for q := 0; q < nf; q++ {
					f := fks[rr.Intn(len(fks))]
					if (f.K == "stallhdr" || f.K == "stallbody") && rr.Intn(3) != 0 {
						f = fd.Fault{K: "status", N: 400 + rr.Intn(150)}
						if f.N == 403 || f.N == 404 {
							f.N = 410
						}
					}
					op.Faults[rr.Intn(n)] = f
				}
			}
			if rr.Intn(6) == 0 {
				op.HookFail = rr.Intn(head)
			}
			if (wc.kind == "p2phttp" || wc.kind == "stream") && rr.Intn(6) == 0 {
				op.DiscFail = true
			}
			h.Ops = append(h.Ops, op)
		}
		// the fault-free retry
		last := h.Ops[len(h.Ops)-1]
		h.Ops = append(h.Ops, mkop(modes[rr.Intn(2)], last.Addrs, head, nil))
		h.Retry = len(h.Ops) - 1
		add(h)
	}
	_ = fmt.Sprint
	return hs
}
