// c04: a failed sync changes nothing durable and does not impair later syncs.
//
// Real code driven: dagsync.Subscriber (SyncAdChain, Announce + OnSyncFinished), its
// per-publisher ipnisync.Syncer (fetch: address failover, retry on stream reset, no-path
// retry), the announce duplicate filter — against real ipnisync publishers behind the fault
// layer of harness/faultdrv (external-server plain HTTP, legacy no-path server, libp2phttp
// over HTTP with discovery, libp2phttp over libp2p streams).
//
// A case is a whole history on one fresh subscriber: a list of syncs, each with its fault
// script, and after each sync what was observed (result, events, latest-sync, store,
// request log, hook calls).  Coq replays the history on the model (hist_case_ok).
//
// Direct oracles (Go only, from the property text): oracle.go.
package main

import (
	"encoding/json"
	"fmt"
	"os"
	"runtime"
	"runtime/debug"
	"sort"
	"strings"
	"sync"
	"time"

	logging "github.com/ipfs/go-log/v2"

	fd "verif/harness/faultdrv"
	"verif/harness/vlib"
)

// Hist is one history: the unit of generation, of replay and of a Coq case.
type Hist struct {
	Fam   string    `json:"family"`
	Kind  string    `json:"world"` // plain | legacy | p2phttp | stream
	Alive []bool    `json:"alive"`
	Cfg   fd.Config `json:"cfg"`
	Ops   []fd.Op   `json:"ops"`
	// Retry is the index of the op that is the fault-free retry the property speaks of
	// (-1: none; the history is compared with the model only).
	Retry int    `json:"retry"`
	Class string `json:"class"` // what the history exercises (fault kind etc.)
}

type Outcome struct {
	Obs      []fd.Obs `json:"obs"`
	Eff      []fd.Op  `json:"eff,omitempty"` // the syncs that happened (an announce2 op is two)
	Late     []fd.Ev  `json:"late,omitempty"`
	Unstable bool     `json:"unstable,omitempty"`
	Why      string   `json:"why,omitempty"` // what made the timing suspicious
	// scheduling probe of the worker process during the (last attempt of the) history: a
	// goroutine sleeps 2 ms over and over and records by how much each sleep overshoots
	ProbeMaxMs  float64 `json:"probe_max_ms,omitempty"`
	ProbeN      int     `json:"probe_n,omitempty"`
	ProbeOver10 int     `json:"probe_over10,omitempty"` // samples that overshot by more than 10 ms
	Suspicious bool   `json:"suspicious,omitempty"`
	MustExit bool     `json:"must_exit,omitempty"` // a sync never returned: the worker cannot go on with this process
	Crash    string   `json:"crash,omitempty"` // the worker process died while running this history: panic text
	Hung     bool     `json:"hung,omitempty"`
	Tries    int      `json:"tries,omitempty"`
}

const chainLen = 5

type worker struct {
	worlds map[string]*fd.World
	seed   string
}

func (wk *worker) world(kind string) *fd.World {
	if w, ok := wk.worlds[kind]; ok {
		return w
	}
	w := fd.NewWorld(kind, chainLen, []byte(wk.seed+"/"+kind))
	wk.worlds[kind] = w
	return w
}

func (wk *worker) close() {
	for _, w := range wk.worlds {
		w.Close()
	}
}

func (wk *worker) runOnce(h *Hist) Outcome {
	w := wk.world(h.Kind)
	ops := make([]fd.Op, len(h.Ops))
	for i, o := range h.Ops {
		o.Alive = h.Alive
		ops[i] = o
	}
	eff, obs, late := w.History(h.Cfg, ops)
	out := Outcome{Obs: obs, Late: late, Eff: eff, MustExit: w.MustExit}
	for len(out.Eff) > len(out.Obs) {
		out.Eff = out.Eff[:len(out.Obs)]
	}
	annOK := map[int]bool{} // heads whose announce-triggered sync succeeded: later announces are duplicates
	for oi, o := range obs {
		// A client timeout that fires on a request that was not made to stall (machine
		// load) changes what the code under test sees.  It costs the whole client timeout,
		// so it shows in the duration of the sync: such a history is run again.
		stalls := 0
		for _, e := range o.Log {
			if e.F == "stallhdr" || e.F == "stallbody" {
				stalls++
			}
		}
		ct := int(fd.ClientTimeout / time.Millisecond)
		budget := stalls*ct + ct*85/100
		if o.Slow {
			out.Unstable, out.Why = true, "an un-faulted upstream answer took more than a third of the client timeout"
		} else if o.Result != "noevent" && o.Millis > budget {
			out.Unstable, out.Why = true, fmt.Sprintf("sync %d took %d ms, its %d stall(s) explain %d ms", oi, o.Millis, stalls, stalls*ct)
		}
		// a success notification that did not arrive after an explicit sync returned nil:
		// late or missing; run again with longer waits to tell
		if eff[oi].Mode == "explicit" && o.Result == "ok" && o.Cid != o.Latest0 && len(o.Events) == 0 {
			out.Suspicious = true
		}
		if o.Result == "hung" {
			out.Suspicious = true
		}
		// Disturbances that leave no trace in the duration or in the scheduling probe:
		// (1) a sync failed although nothing the harness injected explains a failure (a
		//     connection that could not be made, a request lost before it reached the fault
		//     layer ..): run again; a defect of the code is deterministic and stays, a
		//     disturbance goes away
		if opFailed(eff[oi], o) && !explained(h, eff[oi], o) {
			out.Suspicious = true
			if out.Why == "" {
				out.Why = fmt.Sprintf("sync %d failed and no injected fault explains it: %s", oi, firstLine(o.Err, o.Events))
			}
		}
		// (2) the error text names the environment, not the publisher
		if envError(o.Err) || envErrorEv(o.Events) {
			out.Unstable, out.Why = true, "the operating system refused a connection: "+firstLine(o.Err, o.Events)
		}
		// (3) the same resource was fetched twice successfully in one sync: something below
		//     the code under test sent a request again
		if dupAnswered(o) {
			out.Unstable, out.Why = true, fmt.Sprintf("sync %d: a resource was answered twice", oi)
		}
		// No notification for an announcement of a head that is not synced: either a
		// defect or a notification that came too late; run again to tell them apart.
		if o.Result == "noevent" && o.Latest0 != eff[oi].Head && !annOK[eff[oi].Head] {
			out.Suspicious = true
		}
		if eff[oi].Mode != "explicit" {
			for _, e := range o.Events {
				if !e.Err {
					annOK[e.Cid] = true
				}
			}
		}
	}
	return out
}

// ProbeLimitMs: a history during which the worker process was kept from running for longer
// than this (sleep overshoot) is not trusted: the 200 ms client timeout and the "nothing
// happened" looks are wall-clock decisions.
const ProbeLimitMs = 25

// run repeats a history whose timing was suspicious, each time with longer waits.
func (wk *worker) run(j *job) Outcome {
	var out Outcome
	if j.TimeoutMs > 0 {
		fd.ClientTimeout = time.Duration(j.TimeoutMs) * time.Millisecond
	}
	tries := j.Tries
	if tries == 0 {
		tries = 3
	}
	for try := 1; try <= tries; try++ {
		fd.WaitScale = j.Scale + try - 1
		if fd.WaitScale < 1 {
			fd.WaitScale = 1
		}
		theProbe.reset()
		out = wk.runOnce(j.H)
		out.Tries = try
		out.ProbeMaxMs, out.ProbeN, out.ProbeOver10 = theProbe.window()
		if out.ProbeMaxMs > ProbeLimitMs && !out.Unstable {
			out.Unstable, out.Why = true, fmt.Sprintf("the worker process was kept from running for %.0f ms during the history", out.ProbeMaxMs)
		}
		if out.MustExit || (!out.Unstable && !(out.Suspicious && try < tries)) {
			break
		}
	}
	return out
}

type probeSum struct {
	n, over10 int
	max       float64
	hist      int // histories
	histOver  int // histories whose window maximum exceeded ProbeLimitMs
}

func (p *probeSum) add(o Outcome) {
	p.n += o.ProbeN
	p.over10 += o.ProbeOver10
	if o.ProbeMaxMs > p.max {
		p.max = o.ProbeMaxMs
	}
	p.hist++
	if o.ProbeMaxMs > ProbeLimitMs {
		p.histOver++
	}
}

func (p *probeSum) String() string {
	pct := 0.0
	if p.n > 0 {
		pct = 100 * float64(p.over10) / float64(p.n)
	}
	return fmt.Sprintf("%d sleep samples, %.2f%% overshot by > 10 ms, worst %.0f ms, %d of %d histories saw > %d ms", p.n, pct, p.max, p.histOver, p.hist, ProbeLimitMs)
}

// loaded: the machine kept the workers from running often enough to explain timing trouble
func (p *probeSum) loaded() bool {
	return p.n == 0 || float64(p.over10) > 0.005*float64(p.n) || p.histOver*50 > p.hist
}

type runStats struct {
	first, second   probeSum
	rerun, reached  int
	secondPassTimeS float64
}

// runAll: first pass on nw workers; histories whose timing stayed suspicious are run again
// at the end on 2 workers with a 3 times longer client timeout (so that the margins are 3
// times wider) and longer waits, within a time budget.
func runAll(seed uint64, hs []*Hist, nw int, budget time.Duration) ([]Outcome, *runStats) {
	outs := make([]Outcome, len(hs))
	st := &runStats{}
	pass := func(idx []int, nw int, mk func(h *Hist) *job, deadline time.Time, sum *probeSum) int {
		var wg sync.WaitGroup
		var mu sync.Mutex
		done := 0
		next := make(chan int, len(idx))
		for _, i := range idx {
			next <- i
		}
		close(next)
		for k := 0; k < nw; k++ {
			wg.Add(1)
			go func(k int) {
				defer wg.Done()
				wk := newProcWorker(fmt.Sprintf("c04-%d-%d", seed, k))
				defer wk.stop()
				for i := range next {
					if !deadline.IsZero() && time.Now().After(deadline) {
						continue
					}
					o := wk.runJob(mk(hs[i]))
					mu.Lock()
					outs[i] = o
					sum.add(o)
					done++
					mu.Unlock()
				}
			}(k)
		}
		wg.Wait()
		return done
	}
	all := make([]int, len(hs))
	for i := range hs {
		all[i] = i
	}
	pass(all, nw, func(h *Hist) *job { return &job{H: h, Scale: 1} }, time.Time{}, &st.first)
	var again []int
	for i, o := range outs {
		if o.Unstable && o.Crash == "" {
			again = append(again, i)
		}
	}
	st.rerun = len(again)
	if len(again) > 0 {
		t0 := time.Now()
		st.reached = pass(again, 2, func(h *Hist) *job { return &job{H: h, Scale: 3, TimeoutMs: 600, Tries: 2} }, t0.Add(budget), &st.second)
		st.secondPassTimeS = time.Since(t0).Seconds()
	}
	return outs, st
}

func modelFx() (np, rot, ann bool) {
	switch v := os.Getenv("VERIF_C04_MODEL"); v {
	case "", "fixed":
		return true, true, true
	case "v0":
		return false, false, false
	default:
		if len(v) == 3 {
			return v[0] == '1', v[1] == '1', v[2] == '1'
		}
		panic("VERIF_C04_MODEL: fixed | v0 | three bits nopath,rotate,announce")
	}
}

func main() {
	debug.SetMemoryLimit(3 << 30)
	if seed := os.Getenv(workerEnv); seed != "" {
		workerMain(seed)
		return
	}
	_ = logging.SetLogLevel("*", "fatal")
	c := vlib.Init("C04")
	defer c.Finish()
	c.Family("hist", []string{"From Model Require Import C04_SyncFailure."}, "hist_case_ok", 250)
	c.Family("both", []string{"From Coq Require Import ZArith.", "From Model Require Import C04_SyncFailure Compose_C04_C01."}, "both_case_ok", 250)

	if c.Replay != "" {
		var h Hist
		if err := c.LoadReplay(&h); err != nil {
			panic(err)
		}
		wk := newProcWorker("replay")
		defer wk.stop()
		out := wk.runJob(&job{H: &h, Scale: 2, Tries: 3})
		if out.Crash != "" {
			fmt.Printf("THE WORKER PROCESS DIED running this history:\n%s\n", out.Crash)
			c.Eval()
			c.Fail(signature(crashName(out), &h), crashDesc(&h, out, true), h)
			return
		}
		for i, o := range out.Obs {
			b, _ := json.Marshal(o)
			ob, _ := json.Marshal(out.Eff[i])
			fmt.Printf("op %d %s\n  -> %s\n", i, ob, b)
		}
		refs := &refCache{wk: wk, m: map[string]refVal{}}
		fails := oracle(&h, out, refs)
		for _, f := range fails {
			fmt.Printf("ORACLE FAILS: %s: %s\n", f.name, f.desc)
			c.Fail(signature(f.name, &h), f.desc, h)
		}
		if len(fails) == 0 {
			fmt.Println("all direct oracles hold on this history")
		}
		c.Eval()
		c.Case("hist", coqCase(&h, out), h)
		return
	}

	t0 := time.Now()
	hs := generate(c)
	if v := os.Getenv("VERIF_C04_ONLY"); v != "" { // debugging aid: one family only
		var keep []*Hist
		for _, h := range hs {
			if h.Fam == v {
				keep = append(keep, h)
			}
		}
		hs = keep
	}
	nw := runtime.NumCPU()
	if nw > 12 {
		nw = 12
	}
	outs, rst := runAll(c.Seed, hs, nw, time.Duration(c.Pick(25, 180))*time.Second)
	tRun := time.Since(t0)

	// direct oracles; one report per class, the first (smallest) history of the class
	refWk := newProcWorker(fmt.Sprintf("c04-%d-ref", c.Seed))
	defer refWk.stop()
	refs := &refCache{wk: refWk, m: map[string]refVal{}}
	reported := map[string]bool{}
	groups := map[string][]vlib.Failure{}
	var groupOrder []string
	unstable := 0
	var quietOverrun []int
	for i, h := range hs {
		out := outs[i]
		c.Eval()
		c.Count("world:" + h.Kind)
		c.Count("family:" + h.Fam)
		c.Count("class:" + h.Class)
		c.Count(fmt.Sprintf("seg:%d", h.Cfg.Seg))
		for _, o := range h.Ops {
			c.Count("mode:" + o.Mode)
			c.Count(fmt.Sprintf("addrs:%d", len(o.Addrs)))
		}
		if out.Crash != "" {
			// the process running this history died: a violation in itself
			c.Count("crashed")
			cl := "crash:" + h.Kind + ":" + h.Class
			if reported[cl] || len(groups["crash:"+h.Kind]) >= 3 {
				c.Count("oracle-failures-not-reported(same class)")
				continue
			}
			reported[cl] = true
			h2, rep := shrinkCrash(h)
			if out.Hung && !rep {
				// no answer once, fine twice in fresh processes: a starved machine, not a hang
				c.Count("not-explored:hang-not-reproduced")
				continue
			}
			g := "crash:" + h.Kind
			if _, ok := groups[g]; !ok {
				groupOrder = append([]string{g}, groupOrder...)
			}
			groups[g] = append(groups[g], vlib.Failure{Signature: signature(crashName(out), h2), Desc: crashDesc(h2, out, rep), Replay: h2})
			continue
		}
		if out.Unstable {
			unstable++
			c.Count("not-explored:timing")
			if out.ProbeMaxMs <= 10 {
				// the probe saw nothing, yet the history overran: the code, not the machine?
				quietOverrun = append(quietOverrun, i)
			}
			continue
		}
		failedOps, refetched := 0, 0
		for j, o := range out.Obs {
			if opFailed(out.Eff[j], o) {
				if os.Getenv("VERIF_C04_DIAG") != "" && noInjected(o) && out.Eff[j].HookFail < 0 && !out.Eff[j].DiscFail {
					b, _ := json.Marshal(o)
					fmt.Fprintf(os.Stderr, "DIAG %s op %d tries %d: %s\n", signature("x", h), j, out.Tries, b)
				}
				failedOps++
			} else {
				refetched += len(o.Log)
			}
		}
		if failedOps > 0 && refetched > 0 {
			c.Nontrivial(histKey(h))
		}
		for _, f := range oracle(h, out, refs) {
			cl := f.name + ":" + h.Kind + ":" + h.Class
			if reported[cl] {
				c.Count("oracle-failures-not-reported(same class)")
				continue
			}
			reported[cl] = true
			h2 := h
			if h.Fam == "random" {
				h2 = shrink(refWk, refs, h, f.name)
			}
			g := f.name + ":" + h.Kind + ":" + causeOf(h.Class)
			if _, ok := groups[g]; !ok {
				groupOrder = append(groupOrder, g)
			}
			groups[g] = append(groups[g], vlib.Failure{Signature: signature(f.name, h2), Desc: f.desc, Replay: h2})
		}
		if h.Fam == "both" {
			c.Case("both", coqBoth(h, out), h)
			c.Nontrivial(histKey(h))
		} else {
			c.Case("hist", coqCase(h, out), h)
		}
		if i%997 == 0 {
			c.Sample(map[string]interface{}{"history": h, "observed": out.Obs})
		}
	}
	// report round-robin over (oracle, world, kind of cause), so that the first few
	// violations printed are of different kinds
	for round := 0; ; round++ {
		any := false
		for _, g := range groupOrder {
			if round < len(groups[g]) {
				f := groups[g][round]
				c.Fail(f.Signature, f.Desc, f.Replay)
				any = true
			}
		}
		if !any {
			break
		}
	}
	// Histories whose timing could not be trusted are not explored: a loaded machine is not
	// a violation.  Only when the scheduling probe says the workers ran undisturbed and
	// histories still overran their time (again in the final pass on 2 workers with 3 times
	// wider margins) is that reported, with the slowest such history as the replay.
	c.Note(fmt.Sprintf("timing: first pass (%d workers): %s; %d histories run again at the end on 2 workers (client timeout 600 ms, longer waits; %d reached in %.1fs): %s; %d stayed suspicious and are not explored",
		nw, rst.first.String(), rst.rerun, rst.reached, rst.secondPassTimeS, rst.second.String(), unstable))
	if n := len(quietOverrun); n > 5 && n*100 > len(hs) && !rst.second.loaded() {
		worst := quietOverrun[0]
		for _, i := range quietOverrun {
			if sumMillis(outs[i]) > sumMillis(outs[worst]) {
				worst = i
			}
		}
		c.Fail(signature("timing-overrun", hs[worst]),
			fmt.Sprintf("%d of %d histories overran their time budget in every attempt although the worker processes ran undisturbed (%s); slowest: %s (%s)",
				n, len(hs), rst.second.String(), histKey(hs[worst]), outs[worst].Why), hs[worst])
	}
	c.Note(fmt.Sprintf("harness: %d histories in %.1fs on %d workers; client timeout %v; model variant %q", len(hs), tRun.Seconds(), nw, fd.ClientTimeout, os.Getenv("VERIF_C04_MODEL")))
	c.Res.Exhaustive = true
	c.Res.Rule = ruleText
}

func histKey(h *Hist) string {
	var b strings.Builder
	fmt.Fprintf(&b, "%s/%v/%d/%d/%v", h.Kind, h.Alive, h.Cfg.Seg, h.Cfg.Latest0, h.Cfg.Pre)
	for _, o := range h.Ops {
		fmt.Fprintf(&b, "|%s", opText(o))
	}
	return b.String()
}

func opText(o fd.Op) string {
	m := "E"
	if o.Mode == "announce" {
		m = "A"
	}
	if o.Mode == "announce2" {
		m = fmt.Sprintf("A2<h%d>", o.Head2) // head2 announced while the sync of head is running
	}
	var fs []string
	for _, f := range o.Faults {
		fs = append(fs, f.String())
	}
	s := fmt.Sprintf("%s%vh%d(%s)", m, o.Addrs, o.Head, strings.Join(fs, ","))
	if o.DiscFail {
		s += "+discfail"
	}
	if o.HookFail >= 0 {
		s += fmt.Sprintf("+hookfail@%d", o.HookFail)
	}
	if o.HookCancelAt > 0 {
		s += fmt.Sprintf("+hookcancel@%d", o.HookCancelAt-1)
	}
	if o.PreCancel {
		s += "+precancel"
	}
	return strings.ReplaceAll(s, " ", ",")
}

func signature(name string, h *Hist) string {
	al := ""
	for _, a := range h.Alive {
		if a {
			al += "1"
		} else {
			al += "0"
		}
	}
	var ops []string
	for _, o := range h.Ops {
		ops = append(ops, opText(o))
	}
	s := fmt.Sprintf("%s:%s:alive=%s:seg%d", name, h.Kind, al, h.Cfg.Seg)
	if h.Cfg.MaxAsync != 0 {
		s += fmt.Sprintf(":maxasync%d", h.Cfg.MaxAsync)
	}
	if h.Cfg.NoHook {
		s += ":nohook"
	}
	if h.Cfg.NonStrict {
		s += ":nonstrict"
	}
	if h.Cfg.FilterIPs {
		s += ":filterips"
	}
	if h.Cfg.Trusted {
		s += ":trustedstorage"
	}
	if h.Cfg.GeneralHook {
		s += ":generalhook"
	}
	if h.Cfg.Latest0 != 0 {
		s += fmt.Sprintf(":latest%d", h.Cfg.Latest0)
	}
	if len(h.Cfg.Pre) != 0 {
		s += strings.ReplaceAll(fmt.Sprintf(":pre%v", h.Cfg.Pre), " ", ",")
	}
	return s + ":" + strings.Join(ops, ";")
}

// ---------------------------------------------------------------------------
// Coq printing

func coqNatList(xs []int) string {
	it := make([]string, len(xs))
	for i, x := range xs {
		it[i] = vlib.CoqNat(x)
	}
	return vlib.CoqList(it)
}

func coqFault(f fd.Fault, kind string) string {
	switch f.K {
	case "ok":
		return "FOk"
	case "status":
		return fmt.Sprintf("(FStatus %d)", f.N)
	case "notfound":
		return "FNotFound"
	case "forbidden":
		return "FForbidden"
	case "reset":
		if kind == "stream" {
			return "FReset"
		}
		return "FTransport" // a closed TCP connection is not a libp2p stream reset
	case "transport", "tcpreset":
		return "FTransport"
	case "corrupt", "corruptp":
		return "FCorrupt" // a body that does not hash to the CID, parseable or not
	case "okcancel":
		return "FOkCancel"
	case "truncated":
		return "FTruncated"
	case "stallhdr":
		return "FStallHdr"
	case "stallbody":
		return "FStallBody"
	case "cancel":
		return "FCtxCancel"
	}
	panic("fault " + f.K)
}

func coqOp(o fd.Op, kind string) string {
	m := "Explicit"
	if o.Mode == "announce" {
		m = "Announce"
	}
	fs := make([]string, len(o.Faults))
	for i, f := range o.Faults {
		fs[i] = coqFault(f, kind)
	}
	hf := "None"
	if o.HookFail >= 0 {
		hf = "(Some (HFail " + vlib.CoqNat(o.HookFail) + "))"
	} else if o.HookCancelAt > 0 {
		hf = "(Some (HCancel " + vlib.CoqNat(o.HookCancelAt-1) + "))"
	}
	return fmt.Sprintf("(Build_op %s %s %s %s %s %s %s)", m, coqNatList(o.Addrs), vlib.CoqNat(o.Head), vlib.CoqList(fs), vlib.CoqBool(o.DiscFail), hf, vlib.CoqBool(o.PreCancel))
}

func coqObs(op fd.Op, o fd.Obs) string {
	var res string
	switch o.Result {
	case "ok":
		res = "(SeenOk " + vlib.CoqNat(o.Cid) + ")"
	case "err":
		res = "SeenErr"
	case "event":
		res = "SeenEvent"
	case "noevent":
		res = "SeenNone"
	default:
		res = "SeenErr" // panic etc.: reported by the oracle
	}
	evs := make([]string, len(o.Events))
	for i, e := range o.Events {
		if e.Err {
			evs[i] = fmt.Sprintf("(EvErr %s %s)", vlib.CoqNat(e.Cid), vlib.CoqNat(e.Count))
		} else {
			evs[i] = fmt.Sprintf("(EvOk %s %s)", vlib.CoqNat(e.Cid), vlib.CoqNat(e.Count))
		}
	}
	lg := make([]string, len(o.Log))
	for i, e := range o.Log {
		r := "Head"
		if e.Rsrc > 0 {
			r = "(Blk " + vlib.CoqNat(e.Rsrc) + ")"
		} else if e.Rsrc < 0 {
			r = "(Blk 0%nat)"
		}
		lg[i] = fmt.Sprintf("(%s, %s, %s, %s)", vlib.CoqNat(e.Addr), vlib.CoqBool(e.NoPath), r, vlib.CoqBool(e.F != "dead"))
	}
	lat := o.Latest
	if lat < 0 {
		lat = 999
	}
	return fmt.Sprintf("(Build_seen_obs %s %s %s %s %s %s %s)", res, vlib.CoqList(evs), vlib.CoqNat(lat), coqNatList(o.Store), vlib.CoqList(lg), coqNatList(o.Hooks), vlib.CoqBool(o.Partial))
}

func coqCase(h *Hist, out Outcome) string {
	np, rot, ann := modelFx()
	kind := map[string]string{"plain": "KPlain", "legacy": "KPlain", "p2phttp": "KP2PHttp", "stream": "KStream"}[h.Kind]
	al := make([]string, len(h.Alive))
	for i, a := range h.Alive {
		al[i] = vlib.CoqBool(a)
	}
	hist := make([]string, len(out.Eff))
	for i := range out.Eff {
		op := out.Eff[i]
		if h.Cfg.FilterIPs && op.Mode == "announce" {
			op.Addrs = nil // the receiver drops the (loopback) addresses from the announcement
		}
		hist[i] = "(" + coqOp(op, h.Kind) + ", " + coqObs(op, out.Obs[i]) + ")"
	}
	pre := append([]int(nil), h.Cfg.Pre...)
	sort.Ints(pre)
	return fmt.Sprintf("(Build_hcase (Build_fixes %s %s %s true) (Build_world %s %s %s) %s %s %s %s %s %s)",
		vlib.CoqBool(np), vlib.CoqBool(rot), vlib.CoqBool(ann),
		kind, vlib.CoqBool(h.Kind == "legacy"), vlib.CoqList(al),
		vlib.CoqNat(h.Cfg.Seg), coqNatList(pre), vlib.CoqNat(h.Cfg.Latest0), vlib.CoqList(hist),
		vlib.CoqNat(h.Cfg.MaxAsync), vlib.CoqBool(h.Cfg.NoHook))
}

func noInjected(o fd.Obs) bool {
	for _, e := range o.Log {
		if e.F != "ok" && e.F != "dead" {
			return false
		}
	}
	return true
}

// causeOf: a coarse label of what a history's faults are, used only to order the report
func causeOf(class string) string {
	has := func(x string) bool { return strings.Contains(class, x) }
	switch {
	case has("discfail"):
		return "discovery"
	case has("notfound") || has("forbidden"):
		return "404/403"
	case has("transport") || has("tcpreset") || has("stallhdr") || has("cancel") || has("reset"):
		return "failed-request"
	case has("hookfail"):
		return "hook"
	}
	return "other"
}

// coqBoth: the same observation in the form both models are checked against
func coqBoth(h *Hist, out Outcome) string {
	o := out.Obs[0]
	var reqs []int
	for _, e := range o.Log {
		if e.Rsrc > 0 && e.F == "ok" && e.NoPath == (h.Kind == "legacy") {
			reqs = append(reqs, e.Rsrc)
		}
	}
	segdl := "(-1)%Z"
	if h.Cfg.Seg > 0 {
		segdl = fmt.Sprintf("%d%%Z", h.Cfg.Seg)
	}
	lat := o.Latest
	if lat < 0 {
		lat = 999
	}
	return fmt.Sprintf("(Build_both_case %s %s %s %s %s %s %s %s)", coqCase(h, out), vlib.CoqNat(chainLen), segdl,
		vlib.CoqNat(h.Ops[0].Head), coqNatList(reqs), coqNatList(o.Hooks), coqNatList(o.Store), vlib.CoqNat(lat))
}

func crashName(out Outcome) string {
	if out.Hung {
		return "hang"
	}
	return "crash"
}

func crashDesc(h *Hist, out Outcome, reproduced bool) string {
	what := "the process running the subscriber DIED during this history (a panic in a goroutine of the library cannot be recovered by the caller)"
	if out.Hung {
		what = "the subscriber did not come back from this history"
	}
	rep := "reproduced in a fresh process and shrunk"
	if !reproduced {
		rep = "NOT reproduced when run alone in a fresh process (history as it ran)"
	}
	return fmt.Sprintf("%s; %s: %s\n%s", what, rep, histKey(h), out.Crash)
}

func sumMillis(o Outcome) int {
	n := 0
	for _, x := range o.Obs {
		n += x.Millis
	}
	return n
}

// explained: did the harness inject anything into this sync that can make it fail
func explained(h *Hist, op fd.Op, o fd.Obs) bool {
	if op.HookFail >= 0 || op.DiscFail || op.HookCancelAt > 0 || op.PreCancel || h.Cfg.FilterIPs {
		return true
	}
	for _, e := range o.Log {
		if e.F != "ok" {
			return true // a faulted request, a dead address, an okcancel
		}
	}
	for _, f := range op.Faults {
		if f.K == "okcancel" || f.K == "cancel" {
			return true
		}
	}
	return false
}

func firstLine(err string, evs []fd.Ev) string {
	for _, e := range evs {
		if e.Err && err == "" {
			err = e.Msg
		}
	}
	if len(err) > 200 {
		err = err[len(err)-200:]
	}
	return err
}

var envMarks = []string{"dial tcp", "cannot assign requested address", "connection refused", "too many open files", "no route to host", "network is unreachable", "no buffer space"}

func envError(s string) bool {
	for _, m := range envMarks {
		if strings.Contains(s, m) {
			return true
		}
	}
	return false
}

func envErrorEv(evs []fd.Ev) bool {
	for _, e := range evs {
		if e.Err && envError(e.Msg) {
			return true
		}
	}
	return false
}

func dupAnswered(o fd.Obs) bool {
	seen := map[string]bool{}
	for _, e := range o.Log {
		if e.F != "ok" && e.F != "okcancel" {
			continue
		}
		k := fmt.Sprintf("%d/%v/%d", e.Addr, e.NoPath, e.Rsrc)
		if seen[k] {
			return true
		}
		seen[k] = true
	}
	return false
}
