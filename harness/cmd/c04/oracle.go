package main

// Direct oracles, computed in Go from the text of property C04, independent of the Coq
// model.  They look only at what the real Subscriber did.

import (
	"fmt"
	"reflect"
	"sort"

	fd "verif/harness/faultdrv"
)

type oracleFail struct {
	name string
	desc string
}

// opFailed: the sync did not succeed (explicit: returned an error; announce-triggered: an
// error event, or no event at all for an announcement that had to be processed).
func opFailed(op fd.Op, o fd.Obs) bool {
	if o.Result == "panic" {
		return true
	}
	if op.Mode == "explicit" {
		return o.Result != "ok"
	}
	for _, e := range o.Events {
		if !e.Err {
			return false
		}
	}
	return len(o.Events) > 0 || o.Latest != op.Head
}

type refVal struct {
	latest int
	store  []int
	ok     bool
}

// refCache: the run "in which no fault occurred" — the retry op alone on a fresh subscriber.
type refCache struct {
	wk runner
	m  map[string]refVal
}

func (r *refCache) get(h *Hist, op fd.Op) refVal {
	key := fmt.Sprintf("%s/%v/%d/%d/%v/%s/%v/%d", h.Kind, h.Alive, h.Cfg.Seg, h.Cfg.Latest0, h.Cfg.Pre, op.Mode, op.Addrs, op.Head)
	if v, ok := r.m[key]; ok {
		return v
	}
	clean := fd.Op{Mode: op.Mode, Addrs: op.Addrs, Head: op.Head, HookFail: -1}
	out := r.wk.run(&Hist{Kind: h.Kind, Alive: h.Alive, Cfg: h.Cfg, Ops: []fd.Op{clean}})
	if out.Crash != "" || len(out.Obs) == 0 {
		v := refVal{}
		r.m[key] = v
		return v
	}
	o := out.Obs[0]
	v := refVal{latest: o.Latest, store: o.Store, ok: !opFailed(clean, o)}
	r.m[key] = v
	return v
}

func subset(a, b []int) bool {
	m := map[int]bool{}
	for _, x := range b {
		m[x] = true
	}
	for _, x := range a {
		if !m[x] {
			return false
		}
	}
	return true
}

func oracle(h *Hist, out Outcome, refs *refCache) (fails []oracleFail) {
	add := func(name, format string, a ...interface{}) {
		for _, f := range fails {
			if f.name == name {
				return
			}
		}
		fails = append(fails, oracleFail{name, fmt.Sprintf(format, a...)})
	}
	// announceable[head]: by the property, may this CID still be announced (never announced,
	// or every announce-triggered sync of it failed)
	consumed := map[int]bool{}
	prevStore := append([]int(nil), h.Cfg.Pre...)
	sort.Ints(prevStore)
	for i, op := range out.Eff {
		o := out.Obs[i]
		where := fmt.Sprintf("sync %d %s", i, opText(op))
		if o.Result == "panic" {
			add("panic", "%s panicked: %s", where, o.Panic)
			continue
		}
		if o.Result == "hung" {
			add("sync-never-returns", "%s: SyncAdChain had not returned after %v (and again with longer waits); the subscriber cannot be closed either", where, fd.HungAfter)
			continue
		}
		if len(o.BadStore) > 0 {
			add("store-unsound", "%s: stored blocks that do not hash to their key: %v", where, o.BadStore)
		}
		if !subset(prevStore, o.Store) {
			add("stored-block-lost", "%s: store before %v, after %v", where, prevStore, o.Store)
		}
		prevStore = o.Store
		failed := opFailed(op, o)
		nOk, nErr := 0, 0
		for _, e := range o.Events {
			if e.Err {
				nErr++
				if e.Count != 0 {
					add("error-event-count", "%s: error event carries count %d", where, e.Count)
				}
			} else {
				nOk++
			}
			if e.Cid != op.Head {
				add("event-wrong-cid", "%s: event for position %d", where, e.Cid)
			}
		}
		if failed {
			if o.Latest != o.Latest0 {
				add("latest-changed-by-failed-sync", "%s failed but latest-sync went from %d to %d", where, o.Latest0, o.Latest)
			}
			if nOk > 0 {
				add("success-event-on-failed-sync", "%s failed but %d success event(s) were emitted", where, nOk)
			}
		} else if o.Latest != op.Head {
			add("latest-not-head-after-success", "%s succeeded, latest-sync is %d", where, o.Latest)
		}
		if !failed && h.Cfg.Seg > 0 && op.HookFail >= 0 && op.HookFail < len(o.Hooks) {
			add("hook-failure-ignored", "%s: segmented sync (segment depth %d): hook call %d called FailSync, yet the sync succeeded", where, h.Cfg.Seg, op.HookFail)
		}
		// the hook log: a sync that succeeds hands the hook exactly the blocks from the head
		// down to (not including) the latest-synced one, newest first, each once, and reports
		// that many; a sync that fails has handed it at most an initial part of them
		// (nothing at all when segmentation is off)
		want := wantedSegment(op.Head, o.Latest0)
		wantLen := len(want)
		if h.Cfg.NoHook {
			want, o.Hooks = nil, nil // without a BlockHook there is nothing to see (the count is still checked)
		}
		synced := !failed && (op.Mode == "announce" && nOk > 0 || op.Mode == "explicit" && o.Cid != o.Latest0)
		switch {
		case synced:
			if full := wantedSegment(op.Head, o.Latest0); !subset(full, o.Store) {
				add("success-with-missing-blocks", "%s reports success (latest-sync %d -> %d) but of the segment %v only %v is stored", where, o.Latest0, o.Latest, full, o.Store)
			}
			if !reflect.DeepEqual(append([]int{}, o.Hooks...), append([]int{}, want...)) {
				add("hook-log-not-the-segment", "%s succeeded (latest-sync before: %d): the hook was called for %v, the segment is %v", where, o.Latest0, o.Hooks, want)
			}
			for _, e := range o.Events {
				if !e.Err && e.Count != wantLen {
					add("event-count-not-segment-length", "%s: SyncFinished.Count = %d, the segment has %d blocks", where, e.Count, wantLen)
				}
			}
		case failed:
			if len(o.Hooks) > len(want) || !reflect.DeepEqual(append([]int{}, o.Hooks...), append([]int{}, want[:min(len(o.Hooks), len(want))]...)) {
				add("hook-log-of-failed-sync", "%s failed: the hook was called for %v, not an initial part of the segment %v", where, o.Hooks, want)
			} else if h.Cfg.Seg == 0 && len(o.Hooks) > 0 {
				add("hook-called-by-failed-unsegmented-sync", "%s failed without segmentation, yet the hook was called for %v", where, o.Hooks)
			}
		default:
			if len(o.Hooks) > 0 {
				add("hook-called-without-sync", "%s did not sync anything, yet the hook was called for %v", where, o.Hooks)
			}
		}
		switch op.Mode {
		case "explicit":
			if failed && len(o.Events) != 0 {
				add("event-on-failed-explicit-sync", "%s: events %v", where, o.Events)
			}
			if !failed {
				want := 1
				if o.Cid == o.Latest0 {
					want = 0
				}
				if o.Cid != op.Head {
					add("explicit-wrong-head", "%s returned position %d", where, o.Cid)
				}
				if nOk != want || nErr != 0 {
					add("explicit-success-events", "%s: want %d success event, got %v", where, want, o.Events)
				}
			}
		case "announce":
			mustProcess := !consumed[op.Head] && o.Latest0 != op.Head
			if mustProcess {
				switch {
				case len(o.Events) == 0:
					add("announce-no-event", "%s: the announcement had to be processed (CID never synced, earlier announce-triggered syncs of it failed) but no notification arrived and latest-sync is %d", where, o.Latest)
				case len(o.Events) > 1:
					add("announce-duplicate-event", "%s: %d notifications %v", where, len(o.Events), o.Events)
				}
				if nOk > 0 {
					consumed[op.Head] = true
				}
			} else {
				consumed[op.Head] = true
				if len(o.Events) != 0 && o.Latest0 == op.Head {
					add("announce-event-for-synced-head", "%s: events %v", where, o.Events)
				}
			}
		}
		if i == h.Retry {
			ref := refs.get(h, op)
			if !ref.ok {
				add("reference-run-fails", "%s: the fault-free run alone fails", where)
				continue
			}
			if failed {
				add("retry-fails", "%s is fault-free and follows only failed syncs of the same head, yet it fails: %s (a fresh subscriber succeeds)", where, o.Err)
			} else if o.Latest != ref.latest || !reflect.DeepEqual(o.Store, ref.store) {
				add("retry-diverges", "%s: latest %d store %v, fault-free run: latest %d store %v", where, o.Latest, o.Store, ref.latest, ref.store)
			}
		}
	}
	if len(out.Late) > 0 {
		add("unattributed-event", "events after the last sync returned: %v", out.Late)
	}
	return
}

// shrink drops ops and faults while the named oracle still fails.
func shrink(wk runner, refs *refCache, h *Hist, name string) *Hist {
	still := func(c *Hist) bool {
		out := wk.run(c)
		if out.Unstable || out.Crash != "" {
			return false
		}
		for _, f := range oracle(c, out, refs) {
			if f.name == name {
				return true
			}
		}
		return false
	}
	cur := h
	for changed := true; changed; {
		changed = false
		for i := 0; i < len(cur.Ops); i++ {
			if i == cur.Retry {
				continue
			}
			c := *cur
			c.Ops = append(append([]fd.Op(nil), cur.Ops[:i]...), cur.Ops[i+1:]...)
			if cur.Retry > i {
				c.Retry = cur.Retry - 1
			}
			if still(&c) {
				cur, changed = &c, true
				break
			}
		}
		if changed {
			continue
		}
		for i := range cur.Ops {
			for j := range cur.Ops[i].Faults {
				if cur.Ops[i].Faults[j].K == "ok" {
					continue
				}
				c := *cur
				c.Ops = append([]fd.Op(nil), cur.Ops...)
				fs := append([]fd.Fault(nil), cur.Ops[i].Faults...)
				fs[j] = fd.Fault{K: "ok"}
				c.Ops[i].Faults = fs
				if still(&c) {
					cur, changed = &c, true
					break
				}
			}
			if changed {
				break
			}
		}
	}
	return cur
}

// wantedSegment: the blocks a sync of head must hand to the hook when latest is the
// latest-synced position (0 = none): head, head-1, .. down to latest+1 (to 1 when latest is
// not below head), computed from the property text, not from the model.
func wantedSegment(head, latest int) []int {
	lo := 0
	if latest > 0 && latest < head {
		lo = latest
	}
	var l []int
	for p := head; p > lo; p-- {
		l = append(l, p)
	}
	return l
}
