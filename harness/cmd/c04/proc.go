package main

// Histories run in worker SUBPROCESSES.  The code under test starts goroutines of its own
// (announce-triggered syncs, event distribution): a panic there cannot be recovered by the
// caller and takes the process down.  When a worker dies (or hangs) the history it was
// running is reported as a crash with the panic text, the worker is replaced, and everything
// else keeps running.

import (
	"bufio"
	"encoding/json"
	"fmt"
	"io"
	"os"
	"os/exec"
	"strings"
	"sync"
	"time"

	logging "github.com/ipfs/go-log/v2"

	fd "verif/harness/faultdrv"
)

const workerEnv = "VERIF_C04_WORKER"

// runner runs one history and reports what happened (Outcome.Crash when the process died).
type runner interface {
	run(h *Hist) Outcome
}

// job: a history with the timing parameters of this attempt
type job struct {
	H         *Hist `json:"h"`
	Scale     int   `json:"scale"`                // first value of faultdrv.WaitScale
	TimeoutMs int   `json:"timeout_ms,omitempty"` // subscriber's HTTP client timeout (0 = 200)
	Tries     int   `json:"tries,omitempty"`
}

// the scheduling probe of a worker process
type probeT struct {
	mu     sync.Mutex
	max    time.Duration
	n      int
	over10 int
}

var theProbe probeT

func (p *probeT) loop() {
	const nap = 2 * time.Millisecond
	for {
		t0 := time.Now()
		time.Sleep(nap)
		over := time.Since(t0) - nap
		p.mu.Lock()
		p.n++
		if over > p.max {
			p.max = over
		}
		if over > 10*time.Millisecond {
			p.over10++
		}
		p.mu.Unlock()
	}
}

func (p *probeT) reset() {
	p.mu.Lock()
	p.max, p.n, p.over10 = 0, 0, 0
	p.mu.Unlock()
}

func (p *probeT) window() (maxMs float64, n, over10 int) {
	p.mu.Lock()
	defer p.mu.Unlock()
	return float64(p.max) / float64(time.Millisecond), p.n, p.over10
}

// workerMain is the subprocess: one JSON history per input line, one JSON outcome per output line.
func workerMain(seed string) {
	_ = logging.SetLogLevel("*", "fatal")
	wk := &worker{worlds: map[string]*fd.World{}, seed: seed}
	go theProbe.loop()
	in := bufio.NewReaderSize(os.Stdin, 1<<20)
	out := bufio.NewWriter(os.Stdout)
	for {
		line, err := in.ReadBytes('\n')
		if len(line) > 0 {
			var j job
			if e := json.Unmarshal(line, &j); e != nil || j.H == nil {
				fmt.Fprintln(os.Stderr, "worker: bad input:", e)
				os.Exit(3)
			}
			res := wk.run(&j)
			b, _ := json.Marshal(res)
			out.Write(b)
			out.WriteByte('\n')
			out.Flush()
			if res.MustExit {
				os.Exit(0) // a subscriber is stuck in this process; the coordinator starts a new one
			}
		}
		if err != nil {
			break
		}
	}
	wk.close()
}

type tail struct {
	mu  sync.Mutex
	buf []byte
}

func (t *tail) Write(p []byte) (int, error) {
	t.mu.Lock()
	t.buf = append(t.buf, p...)
	if len(t.buf) > 64<<10 {
		t.buf = t.buf[len(t.buf)-(48<<10):]
	}
	t.mu.Unlock()
	return len(p), nil
}

func (t *tail) String() string {
	t.mu.Lock()
	defer t.mu.Unlock()
	return string(t.buf)
}

type procWorker struct {
	seed    string
	gen     int
	cmd     *exec.Cmd
	in      io.WriteCloser
	out     *bufio.Reader
	errTail *tail
	done    chan struct{}
}

func newProcWorker(seed string) *procWorker {
	p := &procWorker{seed: seed}
	p.start()
	return p
}

func (p *procWorker) start() {
	exe, err := os.Executable()
	if err != nil {
		panic(err)
	}
	p.gen++
	cmd := exec.Command(exe)
	// a worker runs one history at a time; a few OS threads are enough (12 workers with 16
	// each only fight over the cores and make the timing of the 200 ms stalls noisy)
	cmd.Env = append(os.Environ(), fmt.Sprintf("%s=%s-%d", workerEnv, p.seed, p.gen), "GOMAXPROCS=3")
	in, err := cmd.StdinPipe()
	if err != nil {
		panic(err)
	}
	out, err := cmd.StdoutPipe()
	if err != nil {
		panic(err)
	}
	p.errTail = &tail{}
	cmd.Stderr = p.errTail
	if err := cmd.Start(); err != nil {
		panic(err)
	}
	p.cmd, p.in, p.out = cmd, in, bufio.NewReaderSize(out, 1<<20)
}

func (p *procWorker) stop() {
	if p.cmd == nil {
		return
	}
	_ = p.in.Close()
	done := make(chan struct{})
	go func() { _ = p.cmd.Wait(); close(done) }()
	select {
	case <-done:
	case <-time.After(5 * time.Second):
		_ = p.cmd.Process.Kill()
		<-done
	}
	p.cmd = nil
}

// HistTimeout bounds one history (with its re-runs) in a worker.
var HistTimeout = 150 * time.Second

// panicText extracts the panic / fatal error and the first goroutine from a dead worker's stderr.
func panicText(s string) string {
	i := strings.LastIndex(s, "panic: ")
	if j := strings.LastIndex(s, "fatal error: "); j > i {
		i = j
	}
	if i < 0 {
		if len(s) > 1500 {
			s = s[len(s)-1500:]
		}
		return strings.TrimSpace(s)
	}
	s = s[i:]
	if k := strings.Index(s, "\n\ngoroutine "); k >= 0 {
		// keep the first goroutine (the one that panicked)
		if k2 := strings.Index(s[k+2:], "\n\n"); k2 >= 0 {
			s = s[:k+2+k2]
		}
	}
	if len(s) > 2500 {
		s = s[:2500]
	}
	return strings.TrimSpace(s)
}

func (p *procWorker) run(h *Hist) Outcome { return p.runJob(&job{H: h, Scale: 1}) }

func (p *procWorker) runJob(j *job) Outcome {
	if p.cmd == nil {
		p.start()
	}
	b, _ := json.Marshal(j)
	type res struct {
		line []byte
		err  error
	}
	ch := make(chan res, 1)
	go func() {
		if _, err := p.in.Write(append(b, '\n')); err != nil {
			ch <- res{nil, err}
			return
		}
		line, err := p.out.ReadBytes('\n')
		ch <- res{line, err}
	}()
	var r res
	hung := false
	select {
	case r = <-ch:
	case <-time.After(HistTimeout):
		hung = true
		_ = p.cmd.Process.Kill()
		r = <-ch
	}
	if r.err == nil && !hung {
		var out Outcome
		if err := json.Unmarshal(r.line, &out); err == nil {
			if out.MustExit {
				_ = p.in.Close()
				_ = p.cmd.Wait()
				p.cmd = nil
			}
			return out
		}
	}
	// the worker is gone
	_ = p.in.Close()
	_ = p.cmd.Wait()
	text := panicText(p.errTail.String())
	if hung {
		text = fmt.Sprintf("no answer in %v (worker killed)\n%s", HistTimeout, text)
	} else if text == "" {
		text = "worker process died: " + p.cmd.ProcessState.String()
	}
	p.cmd = nil
	p.start()
	return Outcome{Crash: text, Hung: hung}
}

// freshRun runs one history in a worker of its own (used to confirm and shrink crashes).
func freshRun(h *Hist) Outcome {
	p := newProcWorker("fresh")
	defer p.stop()
	return p.run(h)
}

// shrinkCrash: does the history crash a fresh worker; if so drop syncs and faults while it
// still does.
func shrinkCrash(h *Hist) (min *Hist, reproduced bool) {
	crashes := func(c *Hist) bool { return freshRun(c).Crash != "" }
	if !crashes(h) && !crashes(h) {
		return h, false
	}
	cur := *h
	cur.Retry = -1
	for changed := true; changed; {
		changed = false
		for i := len(cur.Ops) - 1; i >= 0 && len(cur.Ops) > 1; i-- {
			c := cur
			c.Ops = append(append([]fd.Op(nil), cur.Ops[:i]...), cur.Ops[i+1:]...)
			if crashes(&c) {
				cur, changed = c, true
				break
			}
		}
		if changed {
			continue
		}
		for i := range cur.Ops {
			for j := range cur.Ops[i].Faults {
				if cur.Ops[i].Faults[j].K == "ok" {
					continue
				}
				c := cur
				c.Ops = append([]fd.Op(nil), cur.Ops...)
				fs := append([]fd.Fault(nil), cur.Ops[i].Faults...)
				fs[j] = fd.Fault{K: "ok"}
				c.Ops[i].Faults = fs
				if crashes(&c) {
					cur, changed = c, true
					break
				}
			}
			if changed {
				break
			}
		}
	}
	// trailing all-ok scripts say nothing
	for i := range cur.Ops {
		allOK := true
		for _, f := range cur.Ops[i].Faults {
			if f.K != "ok" {
				allOK = false
			}
		}
		if allOK {
			cur.Ops[i].Faults = nil
		}
	}
	return &cur, true
}
