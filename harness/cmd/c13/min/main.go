// c13min: a program whose only go-libipni import is ingest/schema and which imports no IPLD
// codec itself: whatever codecs it can use are the ones ingest/schema links in.  It
// round-trips an advertisement and an entry chunk through DAG-JSON and DAG-CBOR (store,
// load with the typed and the generic prototype, BytesTo*) and prints one line per step:
//
//	STEP <codec> <value> <step> ok|FAIL <detail>
//
// Built and run by cmd/c13 (family "min"); see runMin there for the import-graph self-test.
package main

import (
	"bytes"
	"context"
	"fmt"
	"reflect"

	"github.com/ipfs/go-cid"
	"github.com/ipld/go-ipld-prime/datamodel"
	"github.com/ipld/go-ipld-prime/linking"
	cidlink "github.com/ipld/go-ipld-prime/linking/cid"
	"github.com/ipld/go-ipld-prime/node/basicnode"
	"github.com/ipld/go-ipld-prime/storage/memstore"
	"github.com/ipni/go-libipni/ingest/schema"
	"github.com/multiformats/go-multihash"
)

func mh(s string) multihash.Multihash {
	m, err := multihash.Sum([]byte(s), multihash.SHA2_256, -1)
	if err != nil {
		panic(err)
	}
	return m
}

func step(codec, value, name string, f func() error) {
	defer func() {
		if r := recover(); r != nil {
			fmt.Printf("STEP %s %s %s FAIL panic: %v\n", codec, value, name, r)
		}
	}()
	if err := f(); err != nil {
		fmt.Printf("STEP %s %s %s FAIL %v\n", codec, value, name, err)
		return
	}
	fmt.Printf("STEP %s %s %s ok\n", codec, value, name)
}

func normAd(a schema.Advertisement) schema.Advertisement {
	if len(a.Addresses) == 0 {
		a.Addresses = nil
	}
	if len(a.Signature) == 0 {
		a.Signature = nil
	}
	if len(a.ContextID) == 0 {
		a.ContextID = nil
	}
	if len(a.Metadata) == 0 {
		a.Metadata = nil
	}
	return a
}

func main() {
	lsys := cidlink.DefaultLinkSystem()
	st := &memstore.Store{}
	lsys.SetReadStorage(st)
	lsys.SetWriteStorage(st)
	prev := cidlink.Link{Cid: cid.NewCidV1(0x0129, mh("prev"))}
	ad := schema.Advertisement{PreviousID: prev, Provider: "12D3KooWProv", Addresses: []string{"/ip4/1.2.3.4/tcp/3104", "/dns/x/tcp/443/https"},
		Signature: []byte{1, 2, 3}, Entries: cidlink.Link{Cid: cid.NewCidV1(0x0129, mh("entries"))}, ContextID: []byte("ctx"), Metadata: []byte{0x80, 0x12}, IsRm: true,
		ExtendedProvider: &schema.ExtendedProvider{Override: true, Providers: []schema.Provider{{ID: "12D3KooWExt", Addresses: []string{"/ip4/5.6.7.8/tcp/9"}, Metadata: []byte{9}, Signature: []byte{8}}}}}
	chunk := schema.EntryChunk{Entries: []multihash.Multihash{mh("a"), mh("b"), mh("c")}, Next: cidlink.Link{Cid: cid.NewCidV1(0x0129, mh("next"))}}
	protos := map[string]cidlink.LinkPrototype{
		"json": schema.Linkproto,
		"cbor": {Prefix: cid.Prefix{Version: 1, Codec: 0x71, MhType: 0x12, MhLength: -1}},
	}
	for _, codec := range []string{"json", "cbor"} {
		lp := protos[codec]
		// ---- advertisement
		var adLink datamodel.Link
		step(codec, "ad", "store", func() error {
			n, err := ad.ToNode()
			if err != nil {
				return err
			}
			adLink, err = lsys.Store(linking.LinkContext{}, lp, n)
			return err
		})
		if adLink == nil {
			for _, n := range []string{"load-typed", "load-generic", "bytes-to"} {
				fmt.Printf("STEP %s ad %s FAIL not attempted: the value could not be stored\n", codec, n)
			}
		}
		if adLink != nil {
			check := func(got *schema.Advertisement, err error) error {
				if err != nil {
					return err
				}
				if !reflect.DeepEqual(normAd(*got), normAd(ad)) {
					return fmt.Errorf("decoded value differs: %+v", *got)
				}
				return nil
			}
			step(codec, "ad", "load-typed", func() error {
				n, err := lsys.Load(linking.LinkContext{}, adLink, schema.AdvertisementPrototype)
				if err != nil {
					return err
				}
				return check(schema.UnwrapAdvertisement(n))
			})
			step(codec, "ad", "load-generic", func() error {
				n, err := lsys.Load(linking.LinkContext{}, adLink, basicnode.Prototype.Any)
				if err != nil {
					return err
				}
				return check(schema.UnwrapAdvertisement(n))
			})
			step(codec, "ad", "bytes-to", func() error {
				raw, err := st.Get(context.Background(), adLink.(cidlink.Link).Binary())
				if err != nil {
					return err
				}
				got, err := schema.BytesToAdvertisement(adLink.(cidlink.Link).Cid, raw)
				return check(&got, err)
			})
		}
		// ---- entry chunk
		var chLink datamodel.Link
		step(codec, "chunk", "store", func() error {
			n, err := chunk.ToNode()
			if err != nil {
				return err
			}
			chLink, err = lsys.Store(linking.LinkContext{}, lp, n)
			return err
		})
		if chLink == nil {
			for _, n := range []string{"load-typed", "load-generic", "bytes-to"} {
				fmt.Printf("STEP %s chunk %s FAIL not attempted: the value could not be stored\n", codec, n)
			}
		}
		if chLink != nil {
			check := func(got *schema.EntryChunk, err error) error {
				if err != nil {
					return err
				}
				if len(got.Entries) != len(chunk.Entries) || got.Next == nil || got.Next.String() != chunk.Next.String() {
					return fmt.Errorf("decoded value differs: %+v", *got)
				}
				for i := range got.Entries {
					if !bytes.Equal(got.Entries[i], chunk.Entries[i]) {
						return fmt.Errorf("entry %d differs", i)
					}
				}
				return nil
			}
			step(codec, "chunk", "load-typed", func() error {
				n, err := lsys.Load(linking.LinkContext{}, chLink, schema.EntryChunkPrototype)
				if err != nil {
					return err
				}
				return check(schema.UnwrapEntryChunk(n))
			})
			step(codec, "chunk", "load-generic", func() error {
				n, err := lsys.Load(linking.LinkContext{}, chLink, basicnode.Prototype.Any)
				if err != nil {
					return err
				}
				return check(schema.UnwrapEntryChunk(n))
			})
			step(codec, "chunk", "bytes-to", func() error {
				raw, err := st.Get(context.Background(), chLink.(cidlink.Link).Binary())
				if err != nil {
					return err
				}
				got, err := schema.BytesToEntryChunk(chLink.(cidlink.Link).Cid, raw)
				return check(&got, err)
			})
		}
	}
	// a block written elsewhere (fixed bytes): the decoder alone, even where the encoder is missing
	fixed := map[string][]byte{
		"cbor": {0xa2, 0x67, 'E', 'n', 't', 'r', 'i', 'e', 's', 0x80, 0x64, 'N', 'e', 'x', 't', 0xd8, 0x2a, 0x45, 0x00, 0x01, 0x55, 0x00, 0x00},
		"json": []byte(`{"Entries":[],"Next":{"/":"bafkqaaa"}}`),
	}
	for _, codec := range []string{"json", "cbor"} {
		step(codec, "chunk", "decode-fixed-block", func() error {
			got, err := schema.BytesToEntryChunk(cid.NewCidV1(protos[codec].Codec, mh("x")), fixed[codec])
			if err != nil {
				return err
			}
			if len(got.Entries) != 0 || got.Next == nil || got.Next.String() != "bafkqaaa" {
				return fmt.Errorf("decoded value differs: %+v", got)
			}
			return nil
		})
	}
	fmt.Println("DONE")
}
