// c13: advertisements and entry chunks round-trip through IPLD with stable CIDs.
//
// Families of Coq cases (input AND what the real code produced):
//
//	ad, chunk  a value built by the harness and the DAG-CBOR block lsys.Store wrote for it;
//	           the model must write the same bytes and read them back through both load paths
//	node       schema-free nodes (basicnode) and the bytes dagcbor.Encode wrote
//	dec        arbitrary bytes: generic decode (node or error), its re-encoding,
//	           BytesToAdvertisement and BytesToEntryChunk (value or error)
//
// DAG-JSON is exercised on every value and on a malformed stream by direct oracles only
// (text layer not modelled).  Direct oracles: see oracles.go.
package main

import (
	"encoding/hex"

	"fmt"
	"github.com/ipfs/go-cid"
	"github.com/ipni/go-libipni/ingest/schema"
	"os"
	"runtime/debug"

	"verif/harness/vlib"
)

type replay struct {
	Kind  string `json:"kind"` // ad | chunk | bytes | deep
	Ad    *adV   `json:"ad,omitempty"`
	Chunk *chV   `json:"chunk,omitempty"`
	Codec string `json:"codec,omitempty"` // cbor | json
	Hex   string `json:"hex,omitempty"`
	Depth int    `json:"depth,omitempty"`
}

func hx(b []byte) string { return hex.EncodeToString(b) }

var sampled = map[string]int{}

func sample(c *vlib.Ctx, fam string, interesting bool, in interface{}, observed string) {
	if interesting && sampled[fam] < 1 {
		sampled[fam]++
		c.Sample(map[string]interface{}{"family": fam, "input": in, "observed": observed})
	}
}

func main() {
	// child mode: decode a deeply nested block with the generic prototype; the parent
	// watches whether this process dies (a Go stack overflow cannot be recovered)
	if len(os.Args) > 1 && os.Args[1] == "-deep-child" {
		deepChild(os.Args[2:])
		return
	}
	debug.SetMemoryLimit(3 << 30)
	c := vlib.Init("C13")
	defer c.Finish()
	req := []string{"From Lib Require Import Cid.", "From Model Require Import C13_DagCbor C13_IpldSchema.", "From Coq Require Import ZArith."}
	c.Family("ad", req, "ad_case_ok", 120)
	c.Family("chunk", req, "chunk_case_ok", 40)
	c.Family("node", req, "node_case_ok", 300)
	c.Family("dec", req, "dec_case_ok", 300)
	c.Family("validate", req, "validate_case_ok", 100)
	setup()

	if c.Replay != "" {
		var r replay
		if err := c.LoadReplay(&r); err != nil {
			panic(err)
		}
		fmt.Printf("replay kind=%s\n", r.Kind)
		switch r.Kind {
		case "ad":
			if r.Hex != "" {
				b, _ := hex.DecodeString(r.Hex)
				g, err := schema.BytesToAdvertisement(cid.NewCidV1(0x71, []byte{0, 0}), b)
				if err != nil {
					panic(err)
				}
				doAd(c, fromGoAd(g), true)
			} else {
				doAd(c, *r.Ad, true)
			}
		case "chunk":
			if r.Hex != "" {
				b, _ := hex.DecodeString(r.Hex)
				g, err := schema.BytesToEntryChunk(cid.NewCidV1(0x71, []byte{0, 0}), b)
				if err != nil {
					panic(err)
				}
				doChunk(c, fromGoChunk(g), true)
			} else {
				doChunk(c, *r.Chunk, true)
			}
		case "bytes":
			b, _ := hex.DecodeString(r.Hex)
			if r.Codec == "json" {
				doJSONBytes(c, b, true)
			} else {
				doBytes(c, b, "replay", true)
			}
		case "min":
			runMin(c)
		case "history":
			runVerifyHistory(c)
			runReuseHistory(c)
		case "bigchunk", "bigad":
			fmt.Println("the large values are rebuilt by a normal run; running it")
			runValues(c)
		case "deep":
			doDeep(c, r.Codec, true)
		default:
			panic("unknown replay kind")
		}
		return
	}

	c.Res.Exhaustive = true
	c.Res.Rule = "ad: previous link {absent,present} x extended providers {absent, 0..3 providers x override} x 0..3 addresses x context ID {0,1,64 B} x metadata {0,1,1024 B} x IsRm (full product in the thorough tier; quick: full product over metadata {0,1} plus a sixth of the 1024 B ones), plus seeded values with odd strings and byte strings; chunk: 0..50 multihashes of mixed hash functions x next {absent,present}. " +
		"Every value is stored through the real link system with DAG-CBOR and DAG-JSON, twice, and loaded with the typed and the generic prototype. " +
		"node: seeded schema-free nodes. dec: every truncation and every single-bit flip of small valid blocks, structural mutations of valid blocks written with a raw CBOR writer (missing / unknown / repeated / reordered fields, wrong kinds, null, non-minimal heads, indefinite lengths, tags, floats, hostile lengths), and seeded random bytes; the same for DAG-JSON text by direct oracles. " +
		"non-trivial = value with an optional part present or a list of >= 2 elements; malformed input that is a mutation of a valid block"
	runValues(c)
	runNodes(c)
	runMalformed(c)
	runJSONMalformed(c)
	runDeep(c)
	runEntryPoints(c)
	runMin(c)
	runVerifyHistory(c)
	runReuseHistory(c)
}
