package main

import (
	"bytes"
	"context"
	"fmt"
	"reflect"
	"strings"

	"github.com/ipfs/go-cid"
	"github.com/ipld/go-ipld-prime"
	"github.com/ipld/go-ipld-prime/codec/dagcbor"
	"github.com/ipld/go-ipld-prime/datamodel"
	cidlink "github.com/ipld/go-ipld-prime/linking/cid"
	"github.com/ipld/go-ipld-prime/node/basicnode"
	"github.com/ipld/go-ipld-prime/storage/memstore"
	"github.com/ipni/go-libipni/ingest/schema"
	"github.com/multiformats/go-multihash"

	"verif/harness/vlib"
)

// canonical values: nil == empty for slices and byte strings; links as raw CID bytes
type provV struct {
	ID    string   `json:"id"`
	Addrs []string `json:"addrs"`
	Meta  []byte   `json:"meta"`
	Sig   []byte   `json:"sig"`
}
type extV struct {
	Provs    []provV `json:"provs"`
	Override bool    `json:"override"`
}
type adV struct {
	Prev     []byte   `json:"prev"` // nil = absent
	Provider string   `json:"provider"`
	Addrs    []string `json:"addrs"`
	Sig      []byte   `json:"sig"`
	Entries  []byte   `json:"entries"`
	Ctx      []byte   `json:"ctx"`
	Meta     []byte   `json:"meta"`
	IsRm     bool     `json:"isrm"`
	Ext      *extV    `json:"ext"`
}
type chV struct {
	Entries [][]byte `json:"entries"`
	Next    []byte   `json:"next"` // nil = absent
}

func nb(b []byte) []byte {
	if b == nil {
		return []byte{}
	}
	return b
}
func ns(s []string) []string {
	if s == nil {
		return []string{}
	}
	return s
}

func linkBytes(l ipld.Link) []byte {
	if l == nil {
		return nil
	}
	return l.(cidlink.Link).Cid.Bytes()
}
func mkLink(b []byte) ipld.Link {
	if b == nil {
		return nil
	}
	c, err := cid.Cast(b)
	if err != nil {
		panic(err)
	}
	return cidlink.Link{Cid: c}
}

// toGo builds the schema value; variant 0 uses nil for empty slices, variant 1 empty non-nil ones
func (a adV) toGo(variant int) schema.Advertisement {
	e := func(b []byte) []byte {
		if len(b) == 0 {
			if variant == 0 {
				return nil
			}
			return []byte{}
		}
		return b
	}
	es := func(s []string) []string {
		if len(s) == 0 {
			if variant == 0 {
				return nil
			}
			return []string{}
		}
		return s
	}
	out := schema.Advertisement{PreviousID: mkLink(a.Prev), Provider: a.Provider, Addresses: es(a.Addrs), Signature: e(a.Sig),
		Entries: mkLink(a.Entries), ContextID: e(a.Ctx), Metadata: e(a.Meta), IsRm: a.IsRm}
	if a.Ext != nil {
		x := &schema.ExtendedProvider{Override: a.Ext.Override}
		for _, p := range a.Ext.Provs {
			x.Providers = append(x.Providers, schema.Provider{ID: p.ID, Addresses: es(p.Addrs), Metadata: e(p.Meta), Signature: e(p.Sig)})
		}
		if variant == 1 && x.Providers == nil {
			x.Providers = []schema.Provider{}
		}
		out.ExtendedProvider = x
	}
	return out
}

func fromGoAd(g schema.Advertisement) adV {
	a := adV{Prev: linkBytes(g.PreviousID), Provider: g.Provider, Addrs: ns(g.Addresses), Sig: nb(g.Signature), Entries: linkBytes(g.Entries),
		Ctx: nb(g.ContextID), Meta: nb(g.Metadata), IsRm: g.IsRm}
	if g.ExtendedProvider != nil {
		x := &extV{Override: g.ExtendedProvider.Override, Provs: []provV{}}
		for _, p := range g.ExtendedProvider.Providers {
			x.Provs = append(x.Provs, provV{ID: p.ID, Addrs: ns(p.Addresses), Meta: nb(p.Metadata), Sig: nb(p.Signature)})
		}
		a.Ext = x
	}
	return a
}

func (a adV) norm() adV {
	b := a
	b.Addrs, b.Sig, b.Ctx, b.Meta = ns(a.Addrs), nb(a.Sig), nb(a.Ctx), nb(a.Meta)
	if a.Ext != nil {
		x := &extV{Override: a.Ext.Override, Provs: []provV{}}
		for _, p := range a.Ext.Provs {
			x.Provs = append(x.Provs, provV{ID: p.ID, Addrs: ns(p.Addrs), Meta: nb(p.Meta), Sig: nb(p.Sig)})
		}
		b.Ext = x
	}
	return b
}

func (c chV) toGo(variant int) schema.EntryChunk {
	out := schema.EntryChunk{Next: mkLink(c.Next)}
	for _, e := range c.Entries {
		out.Entries = append(out.Entries, multihash.Multihash(e))
	}
	if variant == 1 && out.Entries == nil {
		out.Entries = []multihash.Multihash{}
	}
	return out
}
func fromGoChunk(g schema.EntryChunk) chV {
	c := chV{Next: linkBytes(g.Next), Entries: [][]byte{}}
	for _, e := range g.Entries {
		c.Entries = append(c.Entries, nb([]byte(e)))
	}
	return c
}
func (c chV) norm() chV {
	d := chV{Next: c.Next, Entries: [][]byte{}}
	for _, e := range c.Entries {
		d.Entries = append(d.Entries, nb(e))
	}
	return d
}

func adEq(a, b adV) bool { return reflect.DeepEqual(a.norm(), b.norm()) }
func chEq(a, b chV) bool { return reflect.DeepEqual(a.norm(), b.norm()) }

// ---- Coq printers

func coqStrList(l []string) string {
	it := make([]string, len(l))
	for i, s := range l {
		it[i] = vlib.CoqBytes([]byte(s))
	}
	return vlib.CoqList(it)
}
func coqOptBytes(b []byte) string {
	if b == nil {
		return "None"
	}
	return "(Some " + vlib.CoqBytes(b) + ")"
}
func (a adV) coq() string {
	ext := "None"
	if a.Ext != nil {
		ps := make([]string, len(a.Ext.Provs))
		for i, p := range a.Ext.Provs {
			ps[i] = fmt.Sprintf("(Build_provider %s %s %s %s)", vlib.CoqBytes([]byte(p.ID)), coqStrList(p.Addrs), vlib.CoqBytes(p.Meta), vlib.CoqBytes(p.Sig))
		}
		ext = fmt.Sprintf("(Some (Build_extprov %s %s))", vlib.CoqList(ps), vlib.CoqBool(a.Ext.Override))
	}
	return fmt.Sprintf("(Build_ad %s %s %s %s %s %s %s %s %s)", coqOptBytes(a.Prev), vlib.CoqBytes([]byte(a.Provider)), coqStrList(a.Addrs), vlib.CoqBytes(a.Sig),
		vlib.CoqBytes(a.Entries), vlib.CoqBytes(a.Ctx), vlib.CoqBytes(a.Meta), vlib.CoqBool(a.IsRm), ext)
}
func (c chV) coq() string {
	it := make([]string, len(c.Entries))
	for i, e := range c.Entries {
		it[i] = vlib.CoqBytes(e)
	}
	return fmt.Sprintf("(Build_chunk %s %s)", vlib.CoqList(it), coqOptBytes(c.Next))
}

// ---- link system

var (
	lsys      ipld.LinkSystem
	store     *memstore.Store
	protoJSON = schema.Linkproto
	protoCBOR = cidlink.LinkPrototype{Prefix: cid.Prefix{Version: 1, Codec: 0x71, MhType: 0x12, MhLength: -1}}
)

func setup() {
	lsys = cidlink.DefaultLinkSystem()
	store = &memstore.Store{}
	lsys.SetWriteStorage(store)
	lsys.SetReadStorage(store)
}

func protoFor(codec string) cidlink.LinkPrototype {
	if codec == "json" {
		return protoJSON
	}
	return protoCBOR
}
func codecCode(codec string) uint64 {
	if codec == "json" {
		return 0x0129
	}
	return 0x71
}

func rawOf(l ipld.Link) []byte {
	b, err := store.Get(context.Background(), l.(cidlink.Link).Binary())
	if err != nil {
		panic(err)
	}
	return b
}

// putRaw stores arbitrary bytes under their true CID so that lsys.Load accepts them
func putRaw(codec string, b []byte) cidlink.Link {
	mh, _ := multihash.Sum(b, multihash.SHA2_256, -1)
	l := cidlink.Link{Cid: cid.NewCidV1(codecCode(codec), mh)}
	_ = store.Put(context.Background(), l.Binary(), b)
	return l
}

type guarded struct {
	panicked string
	err      error
}

func guard(f func() error) (g guarded) {
	defer func() {
		if r := recover(); r != nil {
			g.panicked = fmt.Sprint(r)
		}
	}()
	g.err = f()
	return
}

func (g guarded) String() string {
	if g.panicked != "" {
		return "PANIC: " + g.panicked
	}
	if g.err != nil {
		return "error: " + g.err.Error()
	}
	return "ok"
}
func (g guarded) ok() bool { return g.panicked == "" && g.err == nil }

// valueOracle runs one value (as a node maker + unwrap/compare functions) through the
// property for one codec.  Returns "" or the failed clause.
type valueOps struct {
	toNode  func(variant int) (datamodel.Node, error)
	typed   datamodel.NodePrototype
	unwrap  func(datamodel.Node) (interface{}, error) // canonical value
	fromRaw func(c cid.Cid, b []byte) (interface{}, error)
	same    func(got interface{}) bool
	reenc   func(got interface{}) (datamodel.Node, error)
}

func valueOracle(codec string, ops valueOps) (clause string, detail string, block []byte) {
	var n datamodel.Node
	if g := guard(func() (e error) { n, e = ops.toNode(0); return }); !g.ok() {
		return "tonode", g.String(), nil
	}
	var l1, l2 datamodel.Link
	if g := guard(func() (e error) { l1, e = lsys.Store(ipld.LinkContext{}, protoFor(codec), n); return }); !g.ok() {
		return "store", g.String(), nil
	}
	block = rawOf(l1)
	// the same value again (empty slices instead of nil ones): same CID
	if g := guard(func() (e error) {
		n2, e := ops.toNode(1)
		if e != nil {
			return e
		}
		l2, e = lsys.Store(ipld.LinkContext{}, protoFor(codec), n2)
		return e
	}); !g.ok() {
		return "store-again", g.String(), block
	}
	if l1.String() != l2.String() {
		return "cid-unstable", fmt.Sprintf("first %s, again %s", l1, l2), block
	}
	check := func(name string, f func() (interface{}, error)) (string, string) {
		var got interface{}
		if g := guard(func() (e error) { got, e = f(); return }); !g.ok() {
			return name, g.String()
		}
		if !ops.same(got) {
			return name + "-differs", fmt.Sprintf("got %+v", got)
		}
		return "", ""
	}
	if k, d := check("typed-load", func() (interface{}, error) {
		tn, err := lsys.Load(ipld.LinkContext{}, l1, ops.typed)
		if err != nil {
			return nil, err
		}
		return ops.unwrap(tn)
	}); k != "" {
		return k, d, block
	}
	var viaGeneric interface{}
	if k, d := check("generic-load", func() (interface{}, error) {
		gn, err := lsys.Load(ipld.LinkContext{}, l1, basicnode.Prototype.Any)
		if err != nil {
			return nil, err
		}
		v, err := ops.unwrap(gn)
		viaGeneric = v
		return v, err
	}); k != "" {
		return k, d, block
	}
	if k, d := check("bytes-to", func() (interface{}, error) { return ops.fromRaw(l1.(cidlink.Link).Cid, block) }); k != "" {
		return k, d, block
	}
	// the decoded value stores under the same CID
	var l3 datamodel.Link
	if g := guard(func() (e error) {
		n3, e := ops.reenc(viaGeneric)
		if e != nil {
			return e
		}
		l3, e = lsys.Store(ipld.LinkContext{}, protoFor(codec), n3)
		return e
	}); !g.ok() {
		return "restore", g.String(), block
	}
	if l3.String() != l1.String() {
		return "cid-changes-after-roundtrip", fmt.Sprintf("stored %s, decoded value stores as %s", l1, l3), block
	}
	return "", "", block
}

func adOps(a adV) valueOps {
	return valueOps{
		toNode: func(v int) (datamodel.Node, error) { return adNode(a.toGo(v)) },
		typed:  schema.AdvertisementPrototype,
		unwrap: func(n datamodel.Node) (interface{}, error) {
			g, err := schema.UnwrapAdvertisement(n)
			if err != nil {
				return nil, err
			}
			return fromGoAd(*g), nil
		},
		fromRaw: func(c cid.Cid, b []byte) (interface{}, error) {
			g, err := schema.BytesToAdvertisement(c, b)
			if err != nil {
				return nil, err
			}
			return fromGoAd(g), nil
		},
		same: func(got interface{}) bool {
			g, ok := got.(adV)
			return ok && adEq(g, a) && (g.Prev == nil) == (a.Prev == nil) && (g.Ext == nil) == (a.Ext == nil)
		},
		reenc: func(got interface{}) (datamodel.Node, error) { return adNode(got.(adV).toGo(0)) },
	}
}

func chunkOps(ch chV) valueOps {
	return valueOps{
		toNode: func(v int) (datamodel.Node, error) { return chNode(ch.toGo(v)) },
		typed:  schema.EntryChunkPrototype,
		unwrap: func(n datamodel.Node) (interface{}, error) {
			g, err := schema.UnwrapEntryChunk(n)
			if err != nil {
				return nil, err
			}
			return fromGoChunk(*g), nil
		},
		fromRaw: func(c cid.Cid, b []byte) (interface{}, error) {
			g, err := schema.BytesToEntryChunk(c, b)
			if err != nil {
				return nil, err
			}
			return fromGoChunk(g), nil
		},
		same: func(got interface{}) bool {
			g, ok := got.(chV)
			return ok && chEq(g, ch) && (g.Next == nil) == (ch.Next == nil)
		},
		reenc: func(got interface{}) (datamodel.Node, error) { return chNode(got.(chV).toGo(0)) },
	}
}

// replays carry the value as its DAG-CBOR block: JSON text cannot hold strings that are not UTF-8
func adReplay(a adV) replay {
	var buf bytes.Buffer
	n, err := adNode(a.toGo(0))
	if err == nil {
		err = dagcbor.Encode(n, &buf)
	}
	if err != nil {
		return replay{Kind: "ad", Ad: &a}
	}
	return replay{Kind: "ad", Hex: hx(buf.Bytes())}
}
func chunkReplay(ch chV) replay {
	var buf bytes.Buffer
	n, err := chNode(ch.toGo(0))
	if err == nil {
		err = dagcbor.Encode(n, &buf)
	}
	if err != nil {
		return replay{Kind: "chunk", Chunk: &ch}
	}
	return replay{Kind: "chunk", Hex: hx(buf.Bytes())}
}

func allUTF8(a adV) bool {
	ok := strings.ToValidUTF8(a.Provider, "\x00\x01") == a.Provider
	chk := func(l []string) {
		for _, s := range l {
			if strings.ToValidUTF8(s, "\x00\x01") != s {
				ok = false
			}
		}
	}
	chk(a.Addrs)
	if a.Ext != nil {
		for _, p := range a.Ext.Provs {
			chk(p.Addrs)
			chk([]string{p.ID})
		}
	}
	return ok
}

func doAd(c *vlib.Ctx, a adV, verbose bool) { doAdE(c, a, verbose, true) }

// emit = also write the Coq case (the direct oracles always run)
func doAdE(c *vlib.Ctx, a adV, verbose bool, emit bool) {
	a = a.norm()
	c.Eval()
	c.Count("ad")
	if a.Prev != nil {
		c.Count("ad:prev")
	}
	if a.Ext != nil {
		c.Count("ad:ext")
		c.Count(fmt.Sprintf("ad:ext:providers=%d", len(a.Ext.Provs)))
	}
	c.Count(fmt.Sprintf("ad:addrs=%d", len(a.Addrs)))
	if a.Prev != nil || a.Ext != nil || len(a.Addrs) >= 2 {
		c.Nontrivial("ad:" + a.coq())
	}
	rp := adReplay(a)
	checkValidateAndPrev(c, a, rp)
	for _, codec := range []string{"cbor", "json"} {
		clause, detail, block := valueOracle(codec, adOps(a))
		if verbose {
			fmt.Printf("ad %s: clause=%q %s block=%x\n", codec, clause, detail, block)
		}
		if codec == "cbor" && block != nil && emit {
			c.Case("ad", fmt.Sprintf("(%s, %s)", a.coq(), vlib.CoqBytes(block)), rp)
			sample(c, "ad", a.Prev != nil && a.Ext != nil && len(a.Ext.Provs) > 0 && len(a.Meta) < 4, a, hx(block))
		}
		if clause != "" {
			if codec == "json" && !allUTF8(a) && strings.HasSuffix(clause, "-differs") {
				// one signature for the class: DAG-JSON replaces invalid UTF-8 in strings
				min := adV{Provider: "\xff", Entries: a.Entries}
				c.Fail("value:json:string-not-utf8", "DAG-JSON round trip of an advertisement whose Provider / address strings are not valid UTF-8 changes them (each bad byte becomes U+FFFD): "+detail, adReplay(min))
				continue
			}
			min := shrinkAd(a, codec, clause)
			c.Fail(fmt.Sprintf("value:%s:ad:%s:%s", codec, clause, adShape(min)), fmt.Sprintf("advertisement %+v with %s: %s: %s", min, codec, clause, detail), adReplay(min))
		}
	}
}

// checkValidateAndPrev: Advertisement.Validate accepts exactly the values within the two
// length limits, and PreviousCid is the previous link or cid.Undef -- on the value itself and
// on what comes back from a DAG-CBOR block of it.
func checkValidateAndPrev(c *vlib.Ctx, a adV, rp replay) {
	want := len(a.Ctx) <= schema.MaxContextIDLen && len(a.Meta) <= schema.MaxMetadataLen
	check := func(where string, g schema.Advertisement) {
		var verr error
		var pc cid.Cid
		gd := guard(func() error { verr = g.Validate(); pc = g.PreviousCid(); return nil })
		c.Count("ad:validate:" + map[bool]string{true: "ok", false: "rejected"}[verr == nil])
		switch {
		case gd.panicked != "":
			c.Fail("value:ad:validate-panic:"+where+":"+adShape(a), "Validate / PreviousCid panicked: "+gd.panicked, rp)
		case (verr == nil) != want:
			c.Fail(fmt.Sprintf("value:ad:validate:%s:ctx=%d,meta=%d", where, len(a.Ctx), len(a.Meta)), fmt.Sprintf("Validate() = %v for context ID of %d and metadata of %d bytes", verr, len(a.Ctx), len(a.Meta)), rp)
		case (a.Prev == nil) != (pc == cid.Undef) || (a.Prev != nil && !bytes.Equal(pc.Bytes(), a.Prev)):
			c.Fail("value:ad:previous-cid:"+where+":"+adShape(a), fmt.Sprintf("PreviousCid() = %v, the previous link is %x", pc, a.Prev), rp)
		}
	}
	g := a.toGo(0)
	check("value", g)
	if n, err := g.ToNode(); err == nil {
		var buf bytes.Buffer
		if dagcbor.Encode(n, &buf) == nil {
			if back, err := schema.BytesToAdvertisement(cid.NewCidV1(0x71, []byte{0x12, 0}), buf.Bytes()); err == nil {
				check("decoded", back)
			}
		}
	}
}

func adShape(a adV) string {
	s := fmt.Sprintf("prev=%v,addrs=%d,sig=%d,ctx=%d,meta=%d,rm=%v", a.Prev != nil, len(a.Addrs), len(a.Sig), len(a.Ctx), len(a.Meta), a.IsRm)
	if a.Ext != nil {
		s += fmt.Sprintf(",ext=%d/%v", len(a.Ext.Provs), a.Ext.Override)
	}
	return s
}

func shrinkAd(a adV, codec, clause string) adV {
	fails := func(x adV) bool { k, _, _ := valueOracle(codec, adOps(x)); return k == clause }
	try := func(f func(x *adV)) {
		x := a.norm()
		f(&x)
		if fails(x) {
			a = x
		}
	}
	try(func(x *adV) { x.Ext = nil })
	try(func(x *adV) { x.Prev = nil })
	try(func(x *adV) { x.Addrs = nil })
	try(func(x *adV) { x.Sig = nil })
	try(func(x *adV) { x.Ctx = nil })
	try(func(x *adV) { x.Meta = nil })
	try(func(x *adV) { x.IsRm = false })
	try(func(x *adV) { x.Provider = "p" })
	if a.Ext != nil {
		try(func(x *adV) { x.Ext = &extV{Override: x.Ext.Override} })
	}
	return a
}

func doChunk(c *vlib.Ctx, ch chV, verbose bool) { doChunkE(c, ch, verbose, true) }

func doChunkE(c *vlib.Ctx, ch chV, verbose bool, emit bool) {
	ch = ch.norm()
	c.Eval()
	c.Count("chunk")
	if ch.Next != nil {
		c.Count("chunk:next")
	}
	if ch.Next != nil || len(ch.Entries) >= 2 {
		c.Nontrivial("chunk:" + ch.coq())
	}
	rp := chunkReplay(ch)
	for _, codec := range []string{"cbor", "json"} {
		clause, detail, block := valueOracle(codec, chunkOps(ch))
		if verbose {
			fmt.Printf("chunk %s: clause=%q %s block=%x\n", codec, clause, detail, block)
		}
		if codec == "cbor" && block != nil && emit {
			c.Case("chunk", fmt.Sprintf("(%s, %s)", ch.coq(), vlib.CoqBytes(block)), rp)
			sample(c, "chunk", ch.Next != nil && len(ch.Entries) == 3, ch, hx(block))
		}
		if clause != "" {
			c.Fail(fmt.Sprintf("value:%s:chunk:%s:entries=%d,next=%v", codec, clause, len(ch.Entries), ch.Next != nil), fmt.Sprintf("entry chunk with %s: %s: %s", codec, clause, detail), rp)
		}
	}
}

// ---- generators

func mkCid(seed string, codec uint64, mhType uint64) []byte {
	mh, err := multihash.Sum([]byte(seed), mhType, -1)
	if err != nil {
		panic(err)
	}
	return cid.NewCidV1(codec, mh).Bytes()
}

var sampleAddrs = []string{"/ip4/1.2.3.4/tcp/3104", "/dns/example.com/tcp/443/https/http-path/ipni", "/ip6/2001:db8::1/udp/4001/quic-v1", ""}

func fill(n int, seed byte) []byte {
	b := make([]byte, n)
	for i := range b {
		b[i] = seed + byte(i*7)
	}
	return b
}

func extOf(n int, override bool) *extV {
	x := &extV{Override: override, Provs: []provV{}}
	for i := 0; i < n; i++ {
		p := provV{ID: fmt.Sprintf("12D3KooWProvider%d", i), Addrs: sampleAddrs[:i], Meta: fill(i*3, byte(i)), Sig: fill(70*(i%2), 9)}
		x.Provs = append(x.Provs, p)
	}
	return x
}

func runValues(c *vlib.Ctx) {
	prevC := mkCid("prev", 0x0129, multihash.SHA2_256)
	entC := mkCid("entries", 0x0129, multihash.SHA2_256)
	type extChoice struct {
		present  bool
		n        int
		override bool
	}
	exts := []extChoice{{false, 0, false}}
	for n := 0; n <= 3; n++ {
		exts = append(exts, extChoice{true, n, false}, extChoice{true, n, true})
	}
	k := 0
	for _, prev := range []bool{false, true} {
		for _, e := range exts {
			for na := 0; na <= 3; na++ {
				for _, ctx := range []int{0, 1, schema.MaxContextIDLen} {
					for _, meta := range []int{0, 1, schema.MaxMetadataLen} {
						for _, rm := range []bool{false, true} {
							k++
							// every combination goes through the real code and the direct oracles;
							// the quick tier evaluates the Coq model on a third of them (each value of
							// each dimension with each (previous, extended, addresses) choice) and on a
							// few of the 1 KiB ones
							ci, mi, ri := map[int]int{0: 0, 1: 1, schema.MaxContextIDLen: 2}[ctx], map[int]int{0: 0, 1: 1, schema.MaxMetadataLen: 2}[meta], map[bool]int{false: 0, true: 1}[rm]
							emit := c.Thorough() || ((ci+mi+ri+na)%4 == 0 && (meta != schema.MaxMetadataLen || k%7 == 0))
							a := adV{Provider: "12D3KooWCryG7Mon9orvQxcS1rYZjotPgpwoJNHHKcLLfE4Hf5mV", Addrs: sampleAddrs[:na], Sig: fill(64*(k%2), 3), Entries: entC,
								Ctx: fill(ctx, 1), Meta: fill(meta, 2), IsRm: rm}
							if prev {
								a.Prev = prevC
							}
							if e.present {
								a.Ext = extOf(e.n, e.override)
							}
							doAdE(c, a, false, emit)
						}
					}
				}
			}
		}
	}
	// Validate's boundaries (family validate): one below, at, one above each limit
	for _, ctx := range []int{0, schema.MaxContextIDLen - 1, schema.MaxContextIDLen, schema.MaxContextIDLen + 1, 200} {
		for _, meta := range []int{0, 1, schema.MaxMetadataLen, schema.MaxMetadataLen + 1} {
			a := adV{Provider: "p", Entries: entC, Ctx: fill(ctx, 5), Meta: fill(meta, 6)}.norm()
			verr := a.toGo(0).Validate()
			c.Eval()
			c.Case("validate", fmt.Sprintf("(%s, %s)", a.coq(), vlib.CoqBool(verr == nil)), adReplay(a))
			doAdE(c, a, false, false) // over-limit values still store, load and keep their CID
		}
	}
	// links of other shapes: NoEntries (raw, 16-byte sha2-256), CIDv0, identity hash, dag-cbor / sha2-512
	v0mh, _ := multihash.Sum([]byte("v0"), multihash.SHA2_256, -1)
	links := [][]byte{schema.NoEntries.Cid.Bytes(), cid.NewCidV0(v0mh).Bytes(), mkCid("x", 0x55, multihash.IDENTITY), mkCid("y", 0x71, multihash.SHA2_512), mkCid("", 0x55, multihash.IDENTITY)}
	for i, l := range links {
		doAd(c, adV{Provider: "p", Entries: l, Prev: links[(i+1)%len(links)]}, false)
		doChunk(c, chV{Entries: [][]byte{{}}, Next: l}, false)
	}
	// odd strings and byte strings
	odd := []string{"", " ", "\"quoted\" \\ back/slash", "é世界\U0001F600", "\x00\x01\x1f\x7f", "  \ufeff", "a\nb\tc\r", "{\"/\":\"x\"}", "/", "<>&'"}
	for i, s := range odd {
		doAd(c, adV{Provider: s, Addrs: []string{s, odd[(i+3)%len(odd)]}, Entries: entC, Sig: []byte(s), Ctx: []byte{0xff, 0, 0x80}, Meta: []byte(s),
			Ext: &extV{Provs: []provV{{ID: s, Addrs: []string{s}, Meta: []byte{0}, Sig: nil}}}}, false)
	}
	// strings that are not UTF-8 (DAG-CBOR keeps them; DAG-JSON: see the known finding)
	for _, s := range []string{"\xff", "a\xc3(", "\xed\xa0\x80", "ok\x80"} {
		doAd(c, adV{Provider: s, Addrs: []string{s}, Entries: entC}, false)
	}
	// seeded
	rng := c.Rng.Fork("ads")
	rb := func(max int) []byte { return rng.Bytes(rng.Intn(max + 1)) }
	rs := func() string {
		n := rng.Intn(20)
		b := make([]byte, n)
		for i := range b {
			b[i] = byte(0x20 + rng.Intn(0x5f))
		}
		return string(b)
	}
	for i := 0; i < c.Pick(150, 3000); i++ {
		a := adV{Provider: rs(), Sig: rb(80), Entries: links[rng.Intn(len(links))], Ctx: rb(64), Meta: rb(200), IsRm: rng.Bool()}
		if rng.Bool() {
			a.Prev = mkCid(rs(), 0x0129, multihash.SHA2_256)
		}
		for j := rng.Intn(5); j > 0; j-- {
			a.Addrs = append(a.Addrs, rs())
		}
		if rng.Intn(3) == 0 {
			a.Ext = &extV{Override: rng.Bool()}
			for j := rng.Intn(5); j > 0; j-- {
				p := provV{ID: rs(), Meta: rb(40), Sig: rb(80)}
				for q := rng.Intn(4); q > 0; q-- {
					p.Addrs = append(p.Addrs, rs())
				}
				a.Ext.Provs = append(a.Ext.Provs, p)
			}
		}
		doAdE(c, a, false, c.Thorough() || i%3 == 0)
	}
	// chunks: 0..50 multihashes of mixed functions, with and without next
	mhTypes := []uint64{multihash.SHA2_256, multihash.SHA2_512, multihash.SHA1, multihash.IDENTITY, multihash.SHA3_256, multihash.BLAKE2B_MIN + 31, multihash.DBL_SHA2_256, multihash.MD5}
	next := mkCid("next", 0x0129, multihash.SHA2_256)
	for n := 0; n <= 50; n++ {
		for _, withNext := range []bool{false, true} {
			ch := chV{}
			for i := 0; i < n; i++ {
				mh, err := multihash.Sum([]byte(fmt.Sprintf("mh-%d-%d", n, i)), mhTypes[(i+n)%len(mhTypes)], -1)
				if err != nil {
					panic(err)
				}
				ch.Entries = append(ch.Entries, []byte(mh))
			}
			if withNext {
				ch.Next = next
			}
			doChunkE(c, ch, false, c.Thorough() || n <= 3 || n == 8 || n == 21 || n == 50)
		}
	}
	// entries that are not multihashes at all (the schema says Bytes)
	doChunk(c, chV{Entries: [][]byte{{}, {0}, {0xff, 0xff, 0xff}, bytes.Repeat([]byte{7}, 300)}}, false)
	// LARGE values, through every encode / decode path (direct oracles and CID stability only:
	// too big for a Coq literal).  16384 multihashes is the default IPNI chunk size: about 590 KB
	// in DAG-CBOR and over 1 MiB in DAG-JSON.
	for _, n := range []int{16384, 30000} {
		big := chV{Next: next}
		for i := 0; i < n; i++ {
			mh, _ := multihash.Sum([]byte(fmt.Sprint("big", i)), multihash.SHA2_256, -1)
			big.Entries = append(big.Entries, []byte(mh))
		}
		for _, codec := range []string{"cbor", "json"} {
			clause, detail, block := valueOracle(codec, chunkOps(big))
			c.Eval()
			c.Count(fmt.Sprintf("large:chunk:%d:%s:%dKB", n, codec, len(block)>>10))
			if clause != "" {
				c.Fail(fmt.Sprintf("value:%s:chunk:%s:entries=%d", codec, clause, n), fmt.Sprintf("entry chunk of %d sha2-256 multihashes (%d bytes as %s): %s: %s", n, len(block), codec, clause, detail), replay{Kind: "bigchunk", Depth: n, Codec: codec})
			}
		}
	}
	{
		// an advertisement with maximal context ID and metadata, many long addresses, many extended providers
		bigAd := adV{Prev: prevC, Provider: "12D3KooWCryG7Mon9orvQxcS1rYZjotPgpwoJNHHKcLLfE4Hf5mV", Sig: fill(256, 1), Entries: entC,
			Ctx: fill(schema.MaxContextIDLen, 2), Meta: fill(schema.MaxMetadataLen, 3), Ext: &extV{Override: true}}
		long := "/dns/" + strings.Repeat("a-very-long-label.", 12) + "example.com/tcp/443/https/http-path/" + strings.Repeat("segment%2F", 20)
		for i := 0; i < 300; i++ {
			bigAd.Addrs = append(bigAd.Addrs, fmt.Sprintf("%s%d", long, i))
		}
		for i := 0; i < 1500; i++ {
			p := provV{ID: fmt.Sprintf("12D3KooWProvider%06d", i), Meta: fill(schema.MaxMetadataLen, byte(i)), Sig: fill(128, byte(i))}
			for j := 0; j < 4; j++ {
				p.Addrs = append(p.Addrs, fmt.Sprintf("%s%d-%d", long, i, j))
			}
			bigAd.Ext.Provs = append(bigAd.Ext.Provs, p)
		}
		for _, codec := range []string{"cbor", "json"} {
			clause, detail, block := valueOracle(codec, adOps(bigAd))
			c.Eval()
			c.Count(fmt.Sprintf("large:ad:%s:%dKB", codec, len(block)>>10))
			if clause != "" {
				c.Fail(fmt.Sprintf("value:%s:ad:%s:large", codec, clause), fmt.Sprintf("advertisement with 300 long addresses and 1500 extended providers (%d bytes as %s): %s: %s", len(block), codec, clause, detail), replay{Kind: "bigad"})
			}
		}
	}
	// values outside the model: required link missing / undefined -- an error, not a panic, from every encoder
	for name, a := range map[string]schema.Advertisement{"nil-entries": {Provider: "p"}, "undef-entries": {Provider: "p", Entries: cidlink.Link{}}} {
		for _, codec := range []string{"cbor", "json"} {
			g := guard(func() error {
				n, err := a.ToNode()
				if err != nil {
					return err
				}
				_, err = lsys.Store(ipld.LinkContext{}, protoFor(codec), n)
				return err
			})
			c.Eval()
			c.Count("invalid:" + name)
			if g.panicked != "" {
				c.Fail("value:"+codec+":"+name+":panic", "storing an advertisement without Entries panics: "+g.panicked, nil)
			} else if g.err == nil {
				c.Fail("value:"+codec+":"+name+":accepted", "storing an advertisement without Entries succeeds", nil)
			}
		}
	}
}
