package main

// Family "min" (Go oracle only): the codecs a program gets from ingest/schema alone.  The
// cmd/c13 harness itself imports dagcbor and dagjson, which would mask a build of
// ingest/schema that no longer links one of them; cmd/c13/min imports neither and nothing else
// of go-libipni.  It is built here at run time against the tree under test, its import graph
// is checked (self-test), and it round-trips an advertisement and an entry chunk through both
// codecs.  Oracle: every step works with DAG-JSON and with DAG-CBOR.

import (
	"bytes"
	"encoding/json"
	"fmt"
	"io"
	"os"
	"os/exec"
	"path/filepath"
	"regexp"
	"sort"
	"strings"

	"verif/harness/vlib"
)

const (
	pkgSchema  = "github.com/ipni/go-libipni/ingest/schema"
	pkgLibipni = "github.com/ipni/go-libipni"
	pkgMin     = "verif/harness/cmd/c13/min"
	pkgDagCbor = "github.com/ipld/go-ipld-prime/codec/dagcbor"
	pkgDagJSON = "github.com/ipld/go-ipld-prime/codec/dagjson"
)

func modfileArgs() []string {
	if repo := os.Getenv("VERIF_REPO"); repo != "" && repo != "/repo" {
		wd, _ := os.Getwd()
		alt := filepath.Join(filepath.Dir(wd), ".build", "alt-"+regexp.MustCompile(`\W`).ReplaceAllString(repo, "_")+".mod")
		return []string{"-modfile=" + alt}
	}
	return nil
}

// minImportGraph: package -> its imports, over the dependencies of cmd/c13/min
func minImportGraph() map[string][]string {
	args := append([]string{"list", "-deps", "-json", "-tags", "verif"}, modfileArgs()...)
	args = append(args, "./cmd/c13/min")
	cmd := exec.Command("go", args...)
	var out, errb bytes.Buffer
	cmd.Stdout, cmd.Stderr = &out, &errb
	if err := cmd.Run(); err != nil {
		panic("harness: go " + strings.Join(args, " ") + ": " + err.Error() + "\n" + errb.String())
	}
	g := map[string][]string{}
	dec := json.NewDecoder(&out)
	for {
		var p struct {
			ImportPath string
			Imports    []string
		}
		if err := dec.Decode(&p); err == io.EOF {
			break
		} else if err != nil {
			panic("harness: go list output: " + err.Error())
		}
		g[p.ImportPath] = p.Imports
	}
	return g
}

func importersOf(g map[string][]string, target string) []string {
	var out []string
	for p, imps := range g {
		for _, i := range imps {
			if i == target {
				out = append(out, p)
			}
		}
	}
	sort.Strings(out)
	return out
}

func runMin(c *vlib.Ctx) {
	// ---- self-test of the import graph: the family means something only if ingest/schema is
	// the sole go-libipni package of the program and the sole importer of the dag codecs
	g := minImportGraph()
	if _, ok := g[pkgSchema]; !ok {
		panic("harness: cmd/c13/min does not depend on " + pkgSchema)
	}
	for p := range g {
		if strings.HasPrefix(p, pkgLibipni) && p != pkgSchema {
			panic("harness: cmd/c13/min links another go-libipni package (" + p + "): the min family has lost its meaning")
		}
	}
	for _, codec := range []string{pkgDagCbor, pkgDagJSON} {
		for _, imp := range importersOf(g, codec) {
			if imp != pkgSchema {
				panic(fmt.Sprintf("harness: %s is linked into cmd/c13/min by %s, not only by %s: the min family has lost its meaning", codec, imp, pkgSchema))
			}
		}
		c.Note(fmt.Sprintf("min: %s imported by %v in the program that only imports ingest/schema", codec, importersOf(g, codec)))
	}
	c.Count(fmt.Sprintf("min:deps=%d", len(g)))

	// ---- build and run
	bin := filepath.Join(c.Out, "c13min")
	args := append([]string{"build", "-tags", "verif"}, modfileArgs()...)
	args = append(args, "-o", bin, "./cmd/c13/min")
	cmd := exec.Command("go", args...)
	var bout bytes.Buffer
	cmd.Stdout, cmd.Stderr = &bout, &bout
	if err := cmd.Run(); err != nil {
		panic("harness: go " + strings.Join(args, " ") + ": " + err.Error() + "\n" + bout.String())
	}
	defer os.Remove(bin)
	run := exec.Command(bin)
	var rout bytes.Buffer
	run.Stdout, run.Stderr = &rout, &rout
	rerr := run.Run()
	c.Eval()
	steps, failed := 0, map[string][]string{}
	for _, line := range strings.Split(rout.String(), "\n") {
		f := strings.SplitN(line, " ", 6)
		if len(f) < 5 || f[0] != "STEP" {
			continue
		}
		steps++
		c.Count("min:" + f[1] + ":" + f[4])
		if f[4] != "ok" {
			detail := ""
			if len(f) == 6 {
				detail = f[5]
			}
			failed[f[1]] = append(failed[f[1]], f[2]+" "+f[3]+": "+detail)
		}
	}
	if rerr != nil || !strings.Contains(rout.String(), "DONE") {
		c.Fail("min:crashed", "the program that only imports ingest/schema did not finish: "+fmt.Sprint(rerr)+"\n"+tail(rout.String(), 1500), replay{Kind: "min"})
		return
	}
	if steps != 18 {
		panic(fmt.Sprintf("harness: cmd/c13/min reported %d steps, expected 18", steps))
	}
	for codec, msgs := range failed {
		c.Fail("min:"+codec+":not-usable-through-ingest-schema",
			fmt.Sprintf("a program that takes its IPNI types from ingest/schema and links no codec itself cannot round-trip advertisements / entry chunks with %s (dagcbor imported by %v, dagjson by %v): %s",
				map[string]string{"cbor": "DAG-CBOR", "json": "DAG-JSON"}[codec], importersOf(g, pkgDagCbor), importersOf(g, pkgDagJSON), strings.Join(msgs, "; ")),
			replay{Kind: "min"})
	}
	if len(failed) == 0 {
		c.Nontrivial("min:both-codecs")
	}
}

func tail(s string, n int) string {
	if len(s) > n {
		return s[len(s)-n:]
	}
	return s
}
