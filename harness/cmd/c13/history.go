package main

// Histories around the round trip:
//  1. decode -> VerifySignature -> re-store: checking a signature must not change the decoded
//     value (same CID when stored again, deep-equal to a copy taken before, verifies again),
//     for really signed advertisements with every extended-provider shape, including a main
//     provider entry that omits its addresses and/or metadata;
//  2. a chain built from ONE reused variable (ad.PreviousID = link / chunk.Next = link after
//     ToNode): every node kept from ToNode stores again under the CID it got the first time
//     and equals the block stored under that CID.

import (
	"bytes"
	"fmt"

	"github.com/ipfs/go-cid"
	"github.com/ipld/go-ipld-prime"
	"github.com/ipld/go-ipld-prime/codec/dagcbor"
	"github.com/ipld/go-ipld-prime/codec/dagjson"
	"github.com/ipld/go-ipld-prime/datamodel"
	cidlink "github.com/ipld/go-ipld-prime/linking/cid"
	"github.com/ipni/go-libipni/ingest/schema"
	ic "github.com/libp2p/go-libp2p/core/crypto"
	"github.com/libp2p/go-libp2p/core/peer"
	"github.com/multiformats/go-multihash"

	"verif/harness/vlib"
)

// ToNode through an addressable variable: compiles whether ToNode has a value or a pointer receiver
func adNode(g schema.Advertisement) (datamodel.Node, error) { return g.ToNode() }
func chNode(g schema.EntryChunk) (datamodel.Node, error)    { return g.ToNode() }

type ident struct {
	key ic.PrivKey
	id  peer.ID
}

func mkIdent(seed byte) ident {
	k, _, err := ic.GenerateEd25519Key(bytes.NewReader(bytes.Repeat([]byte{seed}, 64)))
	if err != nil {
		panic(err)
	}
	id, _ := peer.IDFromPrivateKey(k)
	return ident{k, id}
}

func encodeWith(codec string, n datamodel.Node) ([]byte, error) {
	var buf bytes.Buffer
	var err error
	if codec == "json" {
		err = dagjson.Encode(n, &buf)
	} else {
		err = dagcbor.Encode(n, &buf)
	}
	return buf.Bytes(), err
}

func runVerifyHistory(c *vlib.Ctx) {
	main := mkIdent(11)
	others := []ident{mkIdent(12), mkIdent(13)}
	keyOf := func(id string) (ic.PrivKey, error) {
		for _, o := range others {
			if o.id.String() == id {
				return o.key, nil
			}
		}
		return nil, fmt.Errorf("no key for %s", id)
	}
	entC := mkLink(mkCid("entries", 0x0129, multihash.SHA2_256))
	type shape struct {
		name      string
		ext       bool
		mainAddrs bool
		mainMeta  bool
		nOthers   int
		ctx       bool
		override  bool
	}
	var shapes []shape
	shapes = append(shapes, shape{name: "no-ext"}, shape{name: "no-ext-ctx", ctx: true})
	for _, ma := range []bool{true, false} {
		for _, mm := range []bool{true, false} {
			for n := 0; n <= 2; n++ {
				for _, ctx := range []bool{false, true} {
					shapes = append(shapes, shape{name: fmt.Sprintf("ext:main-addrs=%v,main-meta=%v,others=%d,ctx=%v", ma, mm, n, ctx), ext: true, mainAddrs: ma, mainMeta: mm, nOthers: n, ctx: ctx, override: ctx && n > 0})
				}
			}
		}
	}
	for _, sh := range shapes {
		ad := schema.Advertisement{Provider: main.id.String(), Addresses: []string{"/ip4/1.2.3.4/tcp/3104", "/dns/pub.example/tcp/443/https"}, Entries: entC, Metadata: []byte{0x80, 0x12, 0x01}}
		if sh.ctx {
			ad.ContextID = []byte("context-1")
		}
		if sh.ext {
			ep := &schema.ExtendedProvider{Override: sh.override}
			mp := schema.Provider{ID: main.id.String()}
			if sh.mainAddrs {
				mp.Addresses = []string{"/ip4/9.9.9.9/tcp/1"}
			}
			if sh.mainMeta {
				mp.Metadata = []byte{0x90, 0x01}
			}
			ep.Providers = append(ep.Providers, mp)
			for i := 0; i < sh.nOthers; i++ {
				ep.Providers = append(ep.Providers, schema.Provider{ID: others[i].id.String(), Addresses: []string{fmt.Sprintf("/ip4/5.6.7.%d/tcp/9", i)}, Metadata: []byte{byte(i), 7}})
			}
			ad.ExtendedProvider = ep
		}
		var serr error
		if sh.ext {
			serr = ad.SignWithExtendedProviders(main.key, keyOf)
		} else {
			serr = ad.Sign(main.key)
		}
		if serr != nil {
			panic("harness: signing " + sh.name + ": " + serr.Error())
		}
		for _, codec := range []string{"cbor", "json"} {
			c.Eval()
			c.Count("history:verify")
			clause, detail := func() (cl, dt string) {
				defer func() {
					if r := recover(); r != nil {
						cl, dt = "panic", fmt.Sprint(r)
					}
				}()
				n, err := adNode(ad)
				if err != nil {
					return "tonode", err.Error()
				}
				l1, err := lsys.Store(ipld.LinkContext{}, protoFor(codec), n)
				if err != nil {
					return "store", err.Error()
				}
				for _, path := range []string{"typed-load", "bytes-to"} {
					var dec *schema.Advertisement
					if path == "typed-load" {
						tn, err := lsys.Load(ipld.LinkContext{}, l1, schema.AdvertisementPrototype)
						if err != nil {
							return path, err.Error()
						}
						if dec, err = schema.UnwrapAdvertisement(tn); err != nil {
							return path, err.Error()
						}
					} else {
						g, err := schema.BytesToAdvertisement(l1.(cidlink.Link).Cid, rawOf(l1))
						if err != nil {
							return path, err.Error()
						}
						dec = &g
					}
					before := fromGoAd(*dec)
					signer, err := dec.VerifySignature()
					if err != nil {
						return path + ":verify", err.Error()
					}
					if signer != main.id {
						return path + ":signer", signer.String()
					}
					after := fromGoAd(*dec)
					if !adEq(before, after) {
						return path + ":verify-changes-value", fmt.Sprintf("before %+v after %+v", before.Ext, after.Ext)
					}
					n2, err := adNode(*dec)
					if err != nil {
						return path + ":tonode-after-verify", err.Error()
					}
					l2, err := lsys.Store(ipld.LinkContext{}, protoFor(codec), n2)
					if err != nil {
						return path + ":restore", err.Error()
					}
					if l2.String() != l1.String() {
						return path + ":verify-changes-cid", fmt.Sprintf("stored %s, after VerifySignature the value stores as %s", l1, l2)
					}
					if _, err := dec.VerifySignature(); err != nil {
						return path + ":second-verify", err.Error()
					}
				}
				return "", ""
			}()
			if clause != "" {
				c.Fail("history:verify:"+codec+":"+clause+":"+sh.name, fmt.Sprintf("signed advertisement (%s) stored as %s, decoded, VerifySignature: %s: %s", sh.name, codec, clause, detail), replay{Kind: "history"})
			} else if sh.ext && (!sh.mainAddrs || !sh.mainMeta) {
				c.Nontrivial("history:verify:" + codec + ":" + sh.name)
			}
		}
	}
}

// runReuseHistory: a publisher that builds its chain from one variable
func runReuseHistory(c *vlib.Ctx) {
	for _, codec := range []string{"cbor", "json"} {
		c.Eval()
		c.Count("history:reuse")
		clause, detail := func() (cl, dt string) {
			defer func() {
				if r := recover(); r != nil {
					cl, dt = "panic", fmt.Sprint(r)
				}
			}()
			type kept struct {
				node datamodel.Node
				link datamodel.Link
				ad   adV
				ch   chV
			}
			// ---- advertisements
			ad := schema.Advertisement{Provider: "12D3KooWReuse", Addresses: []string{"/ip4/1.2.3.4/tcp/1"}, Entries: mkLink(mkCid("e0", 0x0129, multihash.SHA2_256)), Metadata: []byte{1}}
			var ads []kept
			for i := 0; i < 5; i++ {
				ad.ContextID = []byte(fmt.Sprintf("ctx-%d", i))
				ad.IsRm = i%2 == 1
				ad.Addresses = append(ad.Addresses[:1:1], fmt.Sprintf("/dns/host%d/tcp/443/https", i))
				n, err := ad.ToNode()
				if err != nil {
					return "tonode", err.Error()
				}
				l, err := lsys.Store(ipld.LinkContext{}, protoFor(codec), n)
				if err != nil {
					return "store", err.Error()
				}
				ads = append(ads, kept{node: n, link: l, ad: fromGoAd(ad)})
				ad.PreviousID = l // the same variable goes on to become the next advertisement
			}
			for i, k := range ads {
				l2, err := lsys.Store(ipld.LinkContext{}, protoFor(codec), k.node)
				if err != nil {
					return "restore", err.Error()
				}
				if l2.String() != k.link.String() {
					return "kept-node-changes-cid", fmt.Sprintf("advertisement %d of the chain was stored as %s; the node kept from ToNode now stores as %s", i, k.link, l2)
				}
				b, err := encodeWith(codec, k.node)
				if err != nil || !bytes.Equal(b, rawOf(k.link)) {
					return "kept-node-differs-from-block", fmt.Sprintf("advertisement %d: the kept node no longer encodes to the block stored under %s (%v)", i, k.link, err)
				}
				g, err := schema.BytesToAdvertisement(k.link.(cidlink.Link).Cid, rawOf(k.link))
				if err != nil || !adEq(fromGoAd(g), k.ad) {
					return "block-differs-from-value", fmt.Sprintf("advertisement %d: block under %s does not hold the value it was built from (%v)", i, k.link, err)
				}
			}
			// ---- entry chunks
			ch := schema.EntryChunk{}
			var chs []kept
			for i := 0; i < 5; i++ {
				ch.Entries = []multihash.Multihash{mustSum(fmt.Sprint("mh", i)), mustSum(fmt.Sprint("mh", i, "b"))}
				n, err := ch.ToNode()
				if err != nil {
					return "tonode", err.Error()
				}
				l, err := lsys.Store(ipld.LinkContext{}, protoFor(codec), n)
				if err != nil {
					return "store", err.Error()
				}
				chs = append(chs, kept{node: n, link: l, ch: fromGoChunk(ch)})
				ch.Next = l
			}
			for i, k := range chs {
				l2, err := lsys.Store(ipld.LinkContext{}, protoFor(codec), k.node)
				if err != nil {
					return "restore", err.Error()
				}
				if l2.String() != k.link.String() {
					return "kept-node-changes-cid", fmt.Sprintf("entry chunk %d of the chain was stored as %s; the node kept from ToNode now stores as %s", i, k.link, l2)
				}
				g, err := schema.BytesToEntryChunk(k.link.(cidlink.Link).Cid, rawOf(k.link))
				if err != nil || !chEq(fromGoChunk(g), k.ch) {
					return "block-differs-from-value", fmt.Sprintf("entry chunk %d: block under %s does not hold the value it was built from (%v)", i, k.link, err)
				}
			}
			return "", ""
		}()
		if clause != "" {
			c.Fail("history:reuse:"+codec+":"+clause, "a chain built from one reused variable: "+clause+": "+detail, replay{Kind: "history"})
		} else {
			c.Nontrivial("history:reuse:" + codec)
		}
	}
	_ = cid.Undef
}
