package main

import (
	"bytes"
	"context"
	"encoding/binary"
	"fmt"
	"os"
	"os/exec"
	"runtime/debug"
	"strconv"
	"strings"
	"time"

	"github.com/ipfs/go-cid"
	"github.com/ipld/go-ipld-prime"
	"github.com/ipld/go-ipld-prime/codec/dagcbor"
	"github.com/ipld/go-ipld-prime/codec/dagjson"
	"github.com/ipld/go-ipld-prime/datamodel"
	"github.com/ipld/go-ipld-prime/fluent/qp"
	cidlink "github.com/ipld/go-ipld-prime/linking/cid"
	"github.com/ipld/go-ipld-prime/node/basicnode"
	"github.com/ipni/go-libipni/ingest/schema"
	"github.com/multiformats/go-multihash"

	"verif/harness/vlib"
)

// ---- printing a schema-free node as a Coq term

func coqNode(n datamodel.Node) (term string, hasFloat bool) {
	switch n.Kind() {
	case datamodel.Kind_Null:
		return "NNull", false
	case datamodel.Kind_Bool:
		b, _ := n.AsBool()
		return "(NBool " + vlib.CoqBool(b) + ")", false
	case datamodel.Kind_Int:
		if u, ok := n.(datamodel.UintNode); ok {
			v, _ := u.AsUint()
			return fmt.Sprintf("(NInt %d%%Z)", v), false
		}
		v, _ := n.AsInt()
		return "(NInt " + vlib.CoqZ(v) + ")", false
	case datamodel.Kind_Float:
		return "NFloat", true
	case datamodel.Kind_String:
		s, _ := n.AsString()
		return "(NString " + vlib.CoqBytes([]byte(s)) + ")", false
	case datamodel.Kind_Bytes:
		b, _ := n.AsBytes()
		return "(NBytes " + vlib.CoqBytes(b) + ")", false
	case datamodel.Kind_Link:
		l, _ := n.AsLink()
		return "(NLink " + vlib.CoqBytes(l.(cidlink.Link).Cid.Bytes()) + ")", false
	case datamodel.Kind_List:
		var it []string
		f := false
		for li := n.ListIterator(); !li.Done(); {
			_, v, _ := li.Next()
			t, hf := coqNode(v)
			it = append(it, t)
			f = f || hf
		}
		return "(NList " + vlib.CoqList(it) + ")", f
	case datamodel.Kind_Map:
		var it []string
		f := false
		for mi := n.MapIterator(); !mi.Done(); {
			k, v, _ := mi.Next()
			ks, _ := k.AsString()
			t, hf := coqNode(v)
			it = append(it, "("+vlib.CoqBytes([]byte(ks))+", "+t+")")
			f = f || hf
		}
		return "(NMap " + vlib.CoqList(it) + ")", f
	}
	panic("kind")
}

// ---- arbitrary DAG-CBOR bytes through the real decoders

type decObs struct {
	gen      datamodel.Node
	genG     guarded
	reenc    []byte
	reencG   guarded
	ad       adV
	adG      guarded
	ch       chV
	chG      guarded
	adViaGen guarded
	adGen    adV
	chViaGen guarded
	chGen    chV
}

func observe(b []byte) (o decObs) {
	cc := cid.NewCidV1(0x71, []byte{0x12, 0x20, 0, 0, 0, 0, 0, 0, 0, 0, 0, 0, 0, 0, 0, 0, 0, 0, 0, 0, 0, 0, 0, 0, 0, 0, 0, 0, 0, 0, 0, 0, 0, 0})
	o.genG = guard(func() error {
		nb := basicnode.Prototype.Any.NewBuilder()
		if err := dagcbor.Decode(nb, bytes.NewReader(b)); err != nil {
			return err
		}
		o.gen = nb.Build()
		return nil
	})
	if o.genG.ok() {
		o.reencG = guard(func() error {
			var buf bytes.Buffer
			err := dagcbor.Encode(o.gen, &buf)
			o.reenc = buf.Bytes()
			return err
		})
		o.adViaGen = guard(func() error {
			g, err := schema.UnwrapAdvertisement(o.gen)
			if err == nil {
				o.adGen = fromGoAd(*g)
			}
			return err
		})
		o.chViaGen = guard(func() error {
			g, err := schema.UnwrapEntryChunk(o.gen)
			if err == nil {
				o.chGen = fromGoChunk(*g)
			}
			return err
		})
	}
	o.adG = guard(func() error {
		g, err := schema.BytesToAdvertisement(cc, b)
		if err == nil {
			o.ad = fromGoAd(g)
		}
		return err
	})
	o.chG = guard(func() error {
		g, err := schema.BytesToEntryChunk(cc, b)
		if err == nil {
			o.ch = fromGoChunk(g)
		}
		return err
	})
	return
}

// reencodes: a decoded value must store again with both codecs and decode to itself
func reencodes(ops valueOps) string {
	for _, codec := range []string{"cbor", "json"} {
		if clause, detail, _ := valueOracle(codec, ops); clause != "" {
			return codec + ":" + clause + ": " + detail
		}
	}
	return ""
}

func doBytes(c *vlib.Ctx, b []byte, origin string, verbose bool) {
	o := observe(b)
	c.Eval()
	c.Count("dec:" + origin)
	rp := replay{Kind: "bytes", Codec: "cbor", Hex: hx(b)}
	fail := func(kind, msg string) {
		min := shrinkBytes(b, func(x []byte) bool { return bytesFailure(observe(x)) == kind })
		c.Fail("dec:cbor:"+kind+":"+hx(min), msg, replay{Kind: "bytes", Codec: "cbor", Hex: hx(min)})
		if verbose {
			fmt.Println("ORACLE-FAIL:", kind, msg)
		}
	}
	repeatedKeyObserved = false
	k := bytesFailure(o)
	seen := repeatedKeyObserved
	if k != "" {
		fail(k, describe(o)) // (shrinking re-runs the oracle)
	}
	repeatedKeyObserved = seen
	noteRepeatedKey(c, "cbor")
	if verbose {
		fmt.Printf("bytes %x: %s\n", b, describe(o))
	}
	// Coq case
	if o.genG.panicked != "" || o.adG.panicked != "" || o.chG.panicked != "" {
		return // a panic is reported above; the model has no such outcome
	}
	reencT := "(@None bytes)"
	if o.genG.ok() {
		if o.reencG.ok() && !bytes.Equal(o.reenc, b) {
			reencT = "(Some " + vlib.CoqBytes(o.reenc) + ")"
		}
		c.Count("dec:generic-ok")
	} else {
		c.Count("dec:generic-err")
	}
	adT, chT := "(@Err ad 0)", "(@Err chunk 0)"
	if o.adG.ok() {
		adT = "(Ok " + o.ad.coq() + ")"
		c.Count("dec:ad-ok")
	}
	if o.chG.ok() {
		chT = "(Ok " + o.ch.coq() + ")"
		c.Count("dec:chunk-ok")
	}
	if emitDec(c, origin) {
		c.Case("dec", fmt.Sprintf("(%s, %s, %s, %s, %s)", vlib.CoqBytes(b), vlib.CoqBool(o.genG.ok()), reencT, adT, chT), rp)
	}
	if origin != "random" {
		c.Nontrivial("dec:" + hx(b))
	}
	sample(c, "dec", strings.HasPrefix(origin, "mutation") && o.adG.ok(), hx(b), describe(o))
}

// emitDec: every input goes through the real decoders and the direct oracles; the quick
// tier evaluates the Coq model on a fixed fraction of the bulky streams
var decSeq = map[string]int{}

func emitDec(c *vlib.Ctx, origin string) bool {
	decSeq[origin]++
	if c.Thorough() || c.Replay != "" {
		return true
	}
	switch origin {
	case "bitflip":
		return decSeq[origin]%5 == 0
	case "mutation-light":
		return decSeq[origin]%6 == 0
	}
	return true
}

// set by bytesFailure / jsonFailure when the typed prototype accepted a block with a repeated
// field that the generic prototype rejected (bindnode's struct assembler has no repeated-key
// check: last scalar wins, repeated lists are concatenated)
var repeatedKeyObserved bool

func noteRepeatedKey(c *vlib.Ctx, codec string) {
	if repeatedKeyObserved {
		repeatedKeyObserved = false
		c.Count("observation:" + codec + ":typed-accepts-repeated-field-generic-rejects")
		if c.Res.Distribution["observation:"+codec+":typed-accepts-repeated-field-generic-rejects"] == 1 {
			c.Note("observation (" + codec + "): a block with a repeated struct field is rejected by basicnode.Prototype.Any and accepted by the typed prototype (last scalar wins, repeated lists are concatenated); the decoded value re-encodes; not a violation of the property text (theorem typed_accepts_what_generic_rejects)")
		}
	}
}

func describe(o decObs) string {
	s := fmt.Sprintf("generic=%s typed-ad=%s typed-chunk=%s", o.genG, o.adG, o.chG)
	if o.genG.ok() {
		s += fmt.Sprintf(" unwrap(generic)-ad=%s unwrap(generic)-chunk=%s", o.adViaGen, o.chViaGen)
	}
	return s
}

// bytesFailure: which clause of the property the observation violates ("" = none)
func bytesFailure(o decObs) string {
	for _, g := range []guarded{o.genG, o.reencG, o.adG, o.chG, o.adViaGen, o.chViaGen} {
		if g.panicked != "" {
			return "panic"
		}
	}
	if o.genG.ok() {
		if !o.reencG.ok() {
			return "generic-value-does-not-reencode"
		}
		// the re-encoding decodes, and encodes to itself again (also for the shapes whose
		// value the Coq model does not follow: floats of any width, uint above MaxInt64)
		nb := basicnode.Prototype.Any.NewBuilder()
		if g := guard(func() error { return dagcbor.Decode(nb, bytes.NewReader(o.reenc)) }); !g.ok() {
			return "generic-reencoding-does-not-decode"
		}
		var again bytes.Buffer
		if g := guard(func() error { return dagcbor.Encode(nb.Build(), &again) }); !g.ok() || !bytes.Equal(again.Bytes(), o.reenc) {
			return "generic-reencoding-unstable"
		}
		// generic load + unwrap == typed load
		if o.adViaGen.ok() != o.adG.ok() || (o.adG.ok() && !adEq(o.ad, o.adGen)) {
			return "generic-differs-from-typed-ad"
		}
		if o.chViaGen.ok() != o.chG.ok() || (o.chG.ok() && !chEq(o.ch, o.chGen)) {
			return "generic-differs-from-typed-chunk"
		}
	} else if o.adG.ok() || o.chG.ok() {
		if o.genG.err != nil && strings.Contains(o.genG.err.Error(), "repeat map key") {
			// Not a violation of the property: for arbitrary bytes it asks for "an error or a
			// value that can be re-encoded", which both paths deliver (generic: error, typed: a
			// value, checked below to re-encode).  Recorded as an observation by the callers.
			repeatedKeyObserved = true
		} else {
			return "typed-accepts-what-generic-rejects"
		}
	}
	if o.adG.ok() {
		g := o.ad.toGo(0)
		if gd := guard(func() error { _ = g.Validate(); _ = g.PreviousCid(); return nil }); gd.panicked != "" {
			return "validate-or-previouscid-panics-on-decoded-ad"
		}
	}
	if o.adG.ok() && allUTF8(o.ad) {
		if m := reencodes(adOps(o.ad)); m != "" {
			return "decoded-ad-does-not-reencode"
		}
	}
	if o.chG.ok() {
		if m := reencodes(chunkOps(o.ch)); m != "" {
			return "decoded-chunk-does-not-reencode"
		}
	}
	return ""
}

func shrinkBytes(s []byte, fails func([]byte) bool) []byte {
	cur := append([]byte{}, s...)
	if len(cur) > 400 {
		return cur
	}
	for changed := true; changed; {
		changed = false
		for i := 0; i < len(cur); i++ {
			cand := append(append([]byte{}, cur[:i]...), cur[i+1:]...)
			if fails(cand) {
				cur, changed = cand, true
				break
			}
		}
	}
	return cur
}

// ---- raw CBOR writer (can write what the real encoder never would)

func head(maj byte, v uint64, width int) []byte {
	// width 0 = minimal, else 1,2,4,8 argument bytes (non-minimal when larger than needed)
	if width == 0 {
		switch {
		case v < 24:
			return []byte{maj<<5 | byte(v)}
		case v < 1<<8:
			width = 1
		case v < 1<<16:
			width = 2
		case v < 1<<32:
			width = 4
		default:
			width = 8
		}
	}
	out := []byte{maj<<5 | map[int]byte{1: 24, 2: 25, 4: 26, 8: 27}[width]}
	buf := make([]byte, 8)
	binary.BigEndian.PutUint64(buf, v)
	return append(out, buf[8-width:]...)
}
func rText(s string) []byte  { return append(head(3, uint64(len(s)), 0), s...) }
func rBytes(b []byte) []byte { return append(head(2, uint64(len(b)), 0), b...) }
func rLink(c []byte) []byte {
	return append(append([]byte{0xd8, 42}, head(2, uint64(len(c)+1), 0)...), append([]byte{0}, c...)...)
}
func rList(items ...[]byte) []byte {
	out := head(4, uint64(len(items)), 0)
	for _, it := range items {
		out = append(out, it...)
	}
	return out
}

type kv struct {
	k string
	v []byte
}

func rMap(es []kv) []byte {
	out := head(5, uint64(len(es)), 0)
	for _, e := range es {
		out = append(append(out, rText(e.k)...), e.v...)
	}
	return out
}
func cat(parts ...[]byte) []byte {
	var out []byte
	for _, p := range parts {
		out = append(out, p...)
	}
	return out
}

var rFalse, rTrue, rNull = []byte{0xf4}, []byte{0xf5}, []byte{0xf6}

func baseAdEntries(withPrev, withExt bool) []kv {
	// identity-hash CIDs keep the blocks (and the Coq literals) small
	ent := mkCid("en", 0x55, multihash.IDENTITY)
	es := []kv{}
	if withPrev {
		es = append(es, kv{"PreviousID", rLink(mkCid("pr", 0x0129, multihash.IDENTITY))})
	}
	es = append(es, kv{"Provider", rText("12D3")}, kv{"Addresses", rList(rText("/ip4/1.2.3.4"), rText("/x"))},
		kv{"Signature", rBytes([]byte{1, 2, 3})}, kv{"Entries", rLink(ent)}, kv{"ContextID", rBytes([]byte("ctx"))}, kv{"Metadata", rBytes([]byte{0x80, 0x12})}, kv{"IsRm", rFalse})
	if withExt {
		prov := rMap([]kv{{"ID", rText("Ext")}, {"Addresses", rList(rText("/y"))}, {"Metadata", rBytes([]byte{9})}, {"Signature", rBytes([]byte{8, 8})}})
		es = append(es, kv{"ExtendedProvider", rMap([]kv{{"Providers", rList(prov)}, {"Override", rTrue}})})
	}
	return es
}

func baseChunkEntries(withNext bool) []kv {
	mh1, _ := multihash.Sum([]byte("a"), multihash.IDENTITY, -1)
	mh2, _ := multihash.Sum([]byte("b"), multihash.MD5, -1)
	es := []kv{{"Entries", rList(rBytes(mh1), rBytes(mh2))}}
	if withNext {
		es = append(es, kv{"Next", rLink(mkCid("nx", 0x0129, multihash.IDENTITY))})
	}
	return es
}

// wrong-kind and odd replacements for a field value
func oddValues() map[string][]byte {
	return map[string][]byte{
		"null": rNull, "undefined": {0xf7}, "true": rTrue, "int0": {0x00}, "int-1": {0x20}, "uint64max": {0x1b, 0xff, 0xff, 0xff, 0xff, 0xff, 0xff, 0xff, 0xff}, "negwrap": {0x3b, 0xff, 0xff, 0xff, 0xff, 0xff, 0xff, 0xff, 0xff},
		"negmin": {0x3b, 0x7f, 0xff, 0xff, 0xff, 0xff, 0xff, 0xff, 0xff}, "negbelow": {0x3b, 0x80, 0, 0, 0, 0, 0, 0, 0},
		"float64": {0xfb, 0x3f, 0xf0, 0, 0, 0, 0, 0, 0}, "float32": {0xfa, 0x3f, 0x80, 0, 0}, "float16": {0xf9, 0x3c, 0x00},
		"text": rText("text"), "emptytext": rText(""), "bytes": rBytes([]byte("bytes")), "emptybytes": rBytes(nil), "emptylist": rList(), "emptymap": rMap(nil),
		"list-of-int": rList([]byte{1}), "list-of-bytes": rList(rBytes([]byte{1})), "list-of-text": rList(rText("x")), "map": rMap([]kv{{"a", []byte{1}}}),
		"link": rLink(mkCid("other", 0x71, multihash.SHA2_256)), "link-v0": rLink(cid.NewCidV0(mustSum("v0")).Bytes()), "link-bad-multibase": {0xd8, 42, 0x45, 1, 1, 0x55, 0, 0},
		"link-empty": {0xd8, 42, 0x40}, "link-only-multibase": {0xd8, 42, 0x41, 0}, "link-trailing": {0xd8, 42, 0x46, 0, 1, 0x55, 0, 0, 0}, "link-text": {0xd8, 42, 0x65, 0, 1, 0x55, 0, 0},
		"tag1-bytes": {0xc1, 0x41, 0x00}, "tag42-int": {0xd8, 42, 0x05}, "tag-on-text": {0xc5, 0x61, 0x61}, "tag-on-list": {0xc5, 0x80}, "double-tag": {0xc1, 0xc1, 0x01},
		"tag42-nonminimal": {0xd9, 0, 42, 0x45, 0, 1, 0x55, 0, 0}, "tag-huge": {0xdb, 0x80, 0, 0, 0, 0, 0, 0, 0, 0x01},
		"indef-text": {0x7f, 0x61, 0x61, 0x62, 0x62, 0x63, 0xff}, "indef-text-empty": {0x7f, 0xff}, "indef-bytes": {0x5f, 0x41, 0x01, 0x42, 0x02, 0x03, 0xff}, "indef-bytes-mixed": {0x5f, 0x61, 0x61, 0xff},
		"indef-bytes-nested": {0x5f, 0x5f, 0xff, 0xff}, "indef-list": {0x9f, 0x61, 0x61, 0xff}, "indef-list-empty": {0x9f, 0xff}, "indef-map": {0xbf, 0x61, 0x61, 0x01, 0xff}, "indef-map-odd": {0xbf, 0x61, 0x61, 0xff},
		"indef-link":      {0xd8, 42, 0x5f, 0x41, 0x00, 0x44, 1, 0x55, 0, 0, 0xff},
		"text-nonminimal": {0x78, 0x01, 0x61}, "text-nonminimal8": {0x7b, 0, 0, 0, 0, 0, 0, 0, 1, 0x61}, "bytes-nonminimal": {0x59, 0, 1, 0x07}, "list-nonminimal": {0x98, 0x01, 0x61, 0x61}, "false-via-simple": {0xf8, 20},
		"reserved-28": {0x1c}, "reserved-31-uint": {0x1f}, "reserved-text-30": {0x7e}, "simple-0": {0xe0}, "break": {0xff}, "key-int": cat(head(5, 1, 0), []byte{1, 1}), "key-bytes": cat(head(5, 1, 0), rBytes([]byte("a")), []byte{1}),
		"key-tagged-text": cat(head(5, 1, 0), []byte{0xc1}, rText("a"), []byte{1}), "key-indef-text": cat(head(5, 1, 0), []byte{0x7f, 0x61, 0x61, 0xff, 1}), "dup-key-map": rMap([]kv{{"a", []byte{1}}, {"a", []byte{1}}}),
		"text-not-utf8": cat(head(3, 2, 0), []byte{0xff, 0xc3}), "oversized-text": {0x7a, 0x02, 0x00, 0x00, 0x01}, "oversized-bytes": {0x5a, 0x02, 0x00, 0x00, 0x01}, "huge-list": {0x9a, 0x00, 0x08, 0x00, 0x00}, "huge-map": {0xba, 0x00, 0x04, 0x00, 0x00},
		"list-len-maxint+1": {0x9b, 0x80, 0, 0, 0, 0, 0, 0, 0}, "list-over-gas": {0x9a, 0x00, 0xa0, 0x00, 0x01}, "text-len-2^63": {0x7b, 0x80, 0, 0, 0, 0, 0, 0, 0},
	}
}

func mustSum(s string) multihash.Multihash {
	m, err := multihash.Sum([]byte(s), multihash.SHA2_256, -1)
	if err != nil {
		panic(err)
	}
	return m
}

func mutateStruct(c *vlib.Ctx, base []kv, origin string) {
	emit := func(es []kv) { doBytes(c, rMap(es), origin, false) }
	cp := func() []kv { return append([]kv{}, base...) }
	emit(base)
	// reversed and rotated order (accepted: field order is free)
	rev := cp()
	for i, j := 0, len(rev)-1; i < j; i, j = i+1, j-1 {
		rev[i], rev[j] = rev[j], rev[i]
	}
	emit(rev)
	emit(append(cp()[1:], base[0]))
	for i := range base {
		// missing field
		emit(append(cp()[:i], base[i+1:]...))
		// repeated field (same value, other value)
		emit(append(cp(), base[i]))
		emit(append(cp(), kv{base[i].k, rNull}))
		// key variants
		for _, k := range []string{strings.ToLower(base[i].k), base[i].k + " ", base[i].k + "\x00", ""} {
			x := cp()
			x[i].k = k
			emit(x)
		}
	}
	// unknown extra fields
	emit(append(cp(), kv{"Extra", rText("x")}))
	emit(append([]kv{{"", rNull}}, base...))
	// every odd value in every field
	for name, v := range oddValues() {
		_ = name
		for i := range base {
			x := cp()
			x[i].v = v
			emit(x)
		}
	}
	// declared length off by one, indefinite-length struct map, non-minimal map head, tagged map
	body := rMap(base)[1:]
	n := uint64(len(base))
	doBytes(c, cat(head(5, n+1, 0), body), origin, false)
	doBytes(c, cat(head(5, n-1, 0), body), origin, false)
	doBytes(c, cat([]byte{0xbf}, body, []byte{0xff}), origin, false)
	doBytes(c, cat([]byte{0xbf}, body), origin, false)
	doBytes(c, cat(head(5, n, 2), body), origin, false)
	doBytes(c, cat(head(5, n, 8), body), origin, false)
	doBytes(c, cat([]byte{0xc6}, rMap(base)), origin, false)
	doBytes(c, cat(rMap(base), []byte{0}), origin, false)
	doBytes(c, cat(rMap(base), rMap(base)), origin, false)
	doBytes(c, rList(rMap(base)), origin, false)
}

// The theorems decode_output_wf / typed_load_output_reencodes are about inputs of at most
// 33554432 bytes.  What the real decoders do above that (and above their ~10 MiB allocation
// budget): an indefinite-length byte string of 11 chunks of 1 MiB as an entry of a chunk.
func runOversized(c *vlib.Ctx) {
	chunk := append([]byte{0x5a, 0x00, 0x10, 0x00, 0x00}, make([]byte, 1<<20)...)
	big := []byte{0x5f}
	for i := 0; i < 11; i++ {
		big = append(big, chunk...)
	}
	big = append(big, 0xff)
	blk := rMap([]kv{{"Entries", rList(big)}})
	o := observe(blk)
	c.Eval()
	res := "rejected"
	if o.genG.ok() || o.chG.ok() {
		res = "accepted"
		c.Note(fmt.Sprintf("an 11 MiB indefinite byte string was accepted (generic=%s typed-chunk=%s): the allocation budget did not reject it", o.genG, o.chG))
	}
	c.Count("dec:oversized-11MiB-string:" + res)
	if o.genG.panicked != "" || o.chG.panicked != "" || o.adG.panicked != "" {
		c.Fail("dec:cbor:panic:oversized-indefinite-string", "panic on an 11 MiB indefinite byte string: "+describe(o), nil)
	}
}

func runMalformed(c *vlib.Ctx) {
	runOversized(c)
	// 1. every odd item alone, and inside a list and a map
	for _, v := range oddValues() {
		doBytes(c, v, "item", false)
		doBytes(c, rList(v, rTrue), "item", false)
		doBytes(c, rMap([]kv{{"k", v}, {"l", rFalse}}), "item", false)
	}
	// 2. structural mutations of advertisements and chunks
	for _, prev := range []bool{false, true} {
		for _, ext := range []bool{false, true} {
			origin := "mutation-light"
			if prev && ext {
				origin = "mutation"
			}
			mutateStruct(c, baseAdEntries(prev, ext), origin)
		}
	}
	mutateStruct(c, baseChunkEntries(false), "mutation-light")
	mutateStruct(c, baseChunkEntries(true), "mutation")
	// nested: mutations of the ExtendedProvider and Provider maps
	base := baseAdEntries(false, false)
	provFields := []kv{{"ID", rText("id")}, {"Addresses", rList(rText("a"))}, {"Metadata", rBytes([]byte{1})}, {"Signature", rBytes(nil)}}
	withExt := func(ext []byte) []byte { return rMap(append(append([]kv{}, base...), kv{"ExtendedProvider", ext})) }
	for i := range provFields {
		missing := append(append([]kv{}, provFields[:i]...), provFields[i+1:]...)
		doBytes(c, withExt(rMap([]kv{{"Providers", rList(rMap(missing))}, {"Override", rFalse}})), "mutation", false)
		dup := append(append([]kv{}, provFields...), provFields[i])
		doBytes(c, withExt(rMap([]kv{{"Providers", rList(rMap(dup))}, {"Override", rFalse}})), "mutation", false)
		for _, v := range oddValues() {
			x := append([]kv{}, provFields...)
			x[i].v = v
			doBytes(c, withExt(rMap([]kv{{"Override", rTrue}, {"Providers", rList(rMap(provFields), rMap(x))}})), "mutation", false)
		}
	}
	doBytes(c, withExt(rMap([]kv{{"Providers", rList()}})), "mutation", false)
	doBytes(c, withExt(rMap([]kv{{"Override", rFalse}})), "mutation", false)
	doBytes(c, withExt(rMap([]kv{{"Providers", rList()}, {"Override", rFalse}, {"X", rNull}})), "mutation", false)
	// 3. every truncation and every single-bit flip of small valid blocks
	small := [][]byte{rMap(baseChunkEntries(true)), rMap(baseAdEntries(true, true))}
	for si, blk := range small {
		for i := 0; i < len(blk); i++ {
			doBytes(c, blk[:i], "truncation", false)
		}
		step := 1
		_ = si
		for bit := 0; bit < 8*len(blk); bit += step {
			x := append([]byte{}, blk...)
			x[bit/8] ^= 1 << (bit % 8)
			doBytes(c, x, "bitflip", false)
		}
	}
	// 4. seeded: random bytes, and random splices of valid blocks
	rng := c.Rng.Fork("malformed")
	for i := 0; i < c.Pick(600, 12000); i++ {
		n := 1 + rng.Intn(24)
		b := rng.Bytes(n)
		switch rng.Intn(4) {
		case 0:
			b[0] = []byte{0xa1, 0xa2, 0x81, 0x9f, 0xbf, 0xd8, 0x5f, 0x7f}[rng.Intn(8)]
		case 1:
			blk := small[rng.Intn(2)]
			p := rng.Intn(len(blk))
			b = cat(blk[:p], b, blk[p+rng.Intn(len(blk)-p):])
		}
		doBytes(c, b, "random", false)
	}
}

// ---- schema-free nodes: encoder against the model

func runNodes(c *vlib.Ctx) {
	rng := c.Rng.Fork("nodes")
	var gen func(depth int) (datamodel.Node, error)
	keys := []string{"", "a", "b", "aa", "ab", "B", "\xff", "zz", "aaa", "ba", "Z", "é"}
	gen = func(depth int) (datamodel.Node, error) {
		k := rng.Intn(9)
		if depth >= 3 && k >= 7 {
			k = rng.Intn(7)
		}
		switch k {
		case 0:
			return datamodel.Null, nil
		case 1:
			return basicnode.NewBool(rng.Bool()), nil
		case 2:
			vals := []int64{0, 1, 23, 24, 255, 256, 65535, 65536, 1<<32 - 1, 1 << 32, 1<<63 - 1, -1, -24, -25, -256, -257, -1 << 63, int64(rng.Uint64())}
			return basicnode.NewInt(vals[rng.Intn(len(vals))]), nil
		case 3:
			return basicnode.NewUint(uint64(1<<63) + rng.Uint64()>>1), nil
		case 4:
			return basicnode.NewString(string(rng.Bytes(rng.Intn(30)))), nil
		case 5:
			return basicnode.NewBytes(rng.Bytes(rng.Intn(300))), nil
		case 6:
			c, _ := cid.Cast(mkCid(fmt.Sprint(rng.Uint64()), []uint64{0x55, 0x71, 0x0129}[rng.Intn(3)], []uint64{multihash.SHA2_256, multihash.IDENTITY, multihash.SHA2_512}[rng.Intn(3)]))
			return basicnode.NewLink(cidlink.Link{Cid: c}), nil
		case 7:
			n := rng.Intn(5)
			return qp.BuildList(basicnode.Prototype.Any, int64(n), func(la datamodel.ListAssembler) {
				for i := 0; i < n; i++ {
					v, _ := gen(depth + 1)
					qp.ListEntry(la, qp.Node(v))
				}
			})
		default:
			perm := append([]string{}, keys...)
			for i := len(perm) - 1; i > 0; i-- {
				j := rng.Intn(i + 1)
				perm[i], perm[j] = perm[j], perm[i]
			}
			n := rng.Intn(6)
			return qp.BuildMap(basicnode.Prototype.Any, int64(n), func(ma datamodel.MapAssembler) {
				for i := 0; i < n; i++ {
					v, _ := gen(depth + 1)
					qp.MapEntry(ma, perm[i], qp.Node(v))
				}
			})
		}
	}
	for i := 0; i < c.Pick(400, 8000); i++ {
		n, err := gen(0)
		if err != nil {
			panic(err)
		}
		var buf bytes.Buffer
		g := guard(func() error { return dagcbor.Encode(n, &buf) })
		c.Eval()
		c.Count("node")
		t, _ := coqNode(n)
		rp := replay{Kind: "bytes", Codec: "cbor", Hex: hx(buf.Bytes())}
		if !g.ok() {
			c.Fail("node:encode:"+t, "dagcbor.Encode of a schema-free node fails: "+g.String(), rp)
			continue
		}
		c.Case("node", fmt.Sprintf("(%s, %s)", t, vlib.CoqBytes(buf.Bytes())), rp)
		// direct oracle: decodes back to a node that encodes to the same bytes, same CID
		nb := basicnode.Prototype.Any.NewBuilder()
		g = guard(func() error { return dagcbor.Decode(nb, bytes.NewReader(buf.Bytes())) })
		if !g.ok() {
			c.Fail("node:decode:"+hx(buf.Bytes()), "the encoder's own output does not decode: "+g.String(), rp)
			continue
		}
		var buf2 bytes.Buffer
		_ = dagcbor.Encode(nb.Build(), &buf2)
		if !bytes.Equal(buf.Bytes(), buf2.Bytes()) {
			c.Fail("node:unstable:"+hx(buf.Bytes()), "decode then encode gives other bytes", rp)
		}
		if n.Kind() == datamodel.Kind_Map && n.Length() >= 2 {
			c.Nontrivial("node:" + hx(buf.Bytes()))
		}
	}
}

// ---- DAG-JSON text: direct oracles only

func observeJSON(b []byte) (genG, adG, chG, adViaGen, chViaGen guarded, ad, adGen adV, ch, chGen chV) {
	cc := cid.NewCidV1(0x0129, mustSum("x"))
	var gen datamodel.Node
	genG = guard(func() error {
		nb := basicnode.Prototype.Any.NewBuilder()
		if err := dagjson.Decode(nb, bytes.NewReader(b)); err != nil {
			return err
		}
		gen = nb.Build()
		return nil
	})
	if genG.ok() {
		adViaGen = guard(func() error {
			g, err := schema.UnwrapAdvertisement(gen)
			if err == nil {
				adGen = fromGoAd(*g)
			}
			return err
		})
		chViaGen = guard(func() error {
			g, err := schema.UnwrapEntryChunk(gen)
			if err == nil {
				chGen = fromGoChunk(*g)
			}
			return err
		})
	}
	adG = guard(func() error {
		g, err := schema.BytesToAdvertisement(cc, b)
		if err == nil {
			ad = fromGoAd(g)
		}
		return err
	})
	chG = guard(func() error {
		g, err := schema.BytesToEntryChunk(cc, b)
		if err == nil {
			ch = fromGoChunk(g)
		}
		return err
	})
	return
}

func jsonFailure(b []byte) (string, string) {
	genG, adG, chG, adViaGen, chViaGen, ad, adGen, ch, chGen := observeJSON(b)
	desc := fmt.Sprintf("generic=%s typed-ad=%s typed-chunk=%s", genG, adG, chG)
	if genG.ok() {
		desc += fmt.Sprintf(" unwrap(generic)-ad=%s unwrap(generic)-chunk=%s", adViaGen, chViaGen)
	}
	for _, g := range []guarded{genG, adG, chG, adViaGen, chViaGen} {
		if g.panicked != "" {
			return "panic", desc
		}
	}
	if genG.ok() {
		if adViaGen.ok() != adG.ok() || (adG.ok() && !adEq(ad, adGen)) {
			return "generic-differs-from-typed-ad", desc
		}
		if chViaGen.ok() != chG.ok() || (chG.ok() && !chEq(ch, chGen)) {
			return "generic-differs-from-typed-chunk", desc
		}
	} else if adG.ok() || chG.ok() {
		if genG.err != nil && strings.Contains(genG.err.Error(), "repeat map key") {
			repeatedKeyObserved = true // observation, see bytesFailure
		} else {
			return "typed-accepts-what-generic-rejects", desc
		}
	}
	if adG.ok() && allUTF8(ad) {
		if m := reencodes(adOps(ad)); m != "" {
			return "decoded-ad-does-not-reencode", desc + " " + m
		}
	}
	if chG.ok() {
		if m := reencodes(chunkOps(ch)); m != "" {
			return "decoded-chunk-does-not-reencode", desc + " " + m
		}
	}
	return "", desc
}

func doJSONBytes(c *vlib.Ctx, b []byte, verbose bool) {
	c.Eval()
	c.Count("json-malformed")
	repeatedKeyObserved = false
	k, desc := jsonFailure(b)
	noteRepeatedKey(c, "json")
	if verbose {
		fmt.Printf("json %q: %s\n", b, desc)
	}
	if k != "" {
		min := shrinkBytes(b, func(x []byte) bool { kk, _ := jsonFailure(x); return kk == k })
		c.Fail("dec:json:"+k+":"+strconv.QuoteToASCII(string(min)), desc, replay{Kind: "bytes", Codec: "json", Hex: hx(min)})
	}
}

func runJSONMalformed(c *vlib.Ctx) {
	ad := adV{Prev: mkCid("prev", 0x0129, multihash.SHA2_256), Provider: "prov", Addrs: []string{"/ip4/1.2.3.4/tcp/1"}, Sig: []byte{1, 2}, Entries: mkCid("e", 0x0129, multihash.SHA2_256), Ctx: []byte("c"), Meta: []byte{0x80},
		Ext: &extV{Provs: []provV{{ID: "x", Addrs: []string{"a"}, Meta: []byte{1}, Sig: []byte{2}}}, Override: true}}
	n, _ := adNode(ad.toGo(0))
	var buf bytes.Buffer
	if err := dagjson.Encode(n, &buf); err != nil {
		panic(err)
	}
	adJSON := buf.Bytes()
	chn, _ := chNode(chV{Entries: [][]byte{mustSum("a"), {1, 2, 3}}, Next: mkCid("n", 0x0129, multihash.SHA2_256)}.toGo(0))
	buf = bytes.Buffer{}
	_ = dagjson.Encode(chn, &buf)
	chJSON := append([]byte{}, buf.Bytes()...)
	for _, blk := range [][]byte{adJSON, chJSON} {
		for i := 0; i < len(blk); i++ {
			doJSONBytes(c, blk[:i], false)
			if c.Thorough() || i%3 == 0 {
				for _, r := range []byte{'"', '{', '}', '[', ']', ':', ',', '\\', '/', '0', 'x', 0x00, 0xff} {
					x := append([]byte{}, blk...)
					x[i] = r
					doJSONBytes(c, x, false)
				}
			}
		}
	}
	for _, s := range []string{
		``, ` `, `null`, `true`, `1`, `-1`, `1.5`, `1e400`, `18446744073709551616`, `"s"`, `[]`, `{}`, `{"/":"x"}`, `{"/":null}`, `{"/":{"bytes":"!"}}`, `{"/":{"bytes":"AQ"}}`, `{"/":{"bytes":"AQ=="}}`, `{"/":{"bytes":1}}`,
		`{"/":{"bytes":"AQ"},"x":1}`, `{"/":"bafkqaaa","/":"bafkqaaa"}`, `{"/":"QmYwAPJzv5CZsnA625s3Xf2nemtYgPpHdWEz79ojWnPbdG"}`, `{"/":"bafkqaaa"} x`, `{"Entries":[],"Entries":[]}`, `{"Entries":[]}`, `{"Entries":[],"Next":null}`,
		`{"Entries":[{"/":{"bytes":""}}]}`, `{"Entries":[""]}`, `{"Entries":{}}`, `{"Entries":[],"Next":{"/":"bafkqaaa"},"X":1}`, `{"Next":{"/":"bafkqaaa"},"Entries":[]}`, `{"Entries":[],"Next":{"/":"notacid"}}`,
		`{"Entries":[] ,  "Next" : {"/" : "bafkqaaa"}}`, "{\"Entries\":[]}\n", `{"Entries":[]}{"Entries":[]}`, `{"Entries":[],}`, `{"Entries":[,]}`, `{"a":"\ud800"}`, `{"a":"é\xff"}`, `"\x"`, `[1,2`, `{"a"}`, `{1:2}`, `{"/":{"bytes":"AQ"}}}`,
	} {
		doJSONBytes(c, []byte(s), false)
	}
	rng := c.Rng.Fork("json")
	alphabet := []byte(`{}[]":,/\bytes0123456789.eE-+ tfnaul` + "\x00\xff")
	for i := 0; i < c.Pick(400, 8000); i++ {
		n := 1 + rng.Intn(30)
		b := make([]byte, n)
		for j := range b {
			b[j] = alphabet[rng.Intn(len(alphabet))]
		}
		if rng.Bool() {
			blk := [][]byte{adJSON, chJSON}[rng.Intn(2)]
			p := rng.Intn(len(blk))
			b = cat(blk[:p], b, blk[p+rng.Intn(len(blk)-p):])
		}
		doJSONBytes(c, b, false)
	}
}

// ---- deeply nested blocks with the generic prototype (in a child process)

func deepBlock(codec string, depth int) []byte {
	if codec == "json" {
		return append(bytes.Repeat([]byte{'['}, depth), bytes.Repeat([]byte{']'}, depth)...)
	}
	return append(bytes.Repeat([]byte{0x81}, depth), 0x00)
}

func deepChild(args []string) {
	codec, mode := args[0], args[1]
	depth, _ := strconv.Atoi(args[2])
	maxStack, _ := strconv.Atoi(args[3])
	if maxStack > 0 {
		debug.SetMaxStack(maxStack)
	}
	setup()
	b := deepBlock(codec, depth)
	l := putRaw(codec, b)
	var err error
	g := guard(func() error {
		if mode == "generic" {
			_, err = lsys.Load(ipld.LinkContext{}, l, basicnode.Prototype.Any)
		} else {
			_, err = schema.BytesToAdvertisement(l.Cid, b)
		}
		return nil
	})
	fmt.Printf("RETURNED panicked=%q err=%v\n", g.panicked, err != nil)
}

// runDeepChild runs the decode in a child process (a Go stack overflow cannot be recovered)
// under a deadline.  Result: "returned" (error or value), "overflow" (the child printed
// "stack overflow" and died), or "inconclusive" (anything else: deadline, killed, ...),
// which is counted and noted but never reported as a failure.
func runDeepChild(codec, mode string, depth, maxStack int) (string, string) {
	ctx, cancel := context.WithTimeout(context.Background(), 3*time.Minute)
	defer cancel()
	cmd := exec.CommandContext(ctx, os.Args[0], "-deep-child", codec, mode, strconv.Itoa(depth), strconv.Itoa(maxStack))
	cmd.WaitDelay = 5 * time.Second
	var out bytes.Buffer
	cmd.Stdout = &limitedWriter{w: &out, left: 1 << 16} // the crash dumps every frame: keep the head only
	cmd.Stderr = cmd.Stdout
	err := cmd.Run()
	s := out.String()
	if err == nil && strings.Contains(s, "RETURNED panicked=\"\"") {
		return "returned", strings.TrimSpace(s)
	}
	if strings.Contains(s, "stack overflow") {
		first := s[strings.Index(s, "stack overflow"):]
		if i := strings.Index(s, "fatal error:"); i >= 0 {
			first = s[i:]
		}
		if i := strings.IndexByte(first, '\n'); i >= 0 {
			first = first[:i]
		}
		return "overflow", first
	}
	if len(s) > 200 {
		s = s[:200]
	}
	return "inconclusive", fmt.Sprintf("%v: %s", err, s)
}

type limitedWriter struct {
	w    *bytes.Buffer
	left int
}

func (l *limitedWriter) Write(p []byte) (int, error) {
	if l.left > 0 {
		n := len(p)
		if n > l.left {
			n = l.left
		}
		l.w.Write(p[:n])
		l.left -= n
	}
	return len(p), nil
}

var fullDepth = map[string]int{"cbor": 2600000, "json": 5000000}

func doDeep(c *vlib.Ctx, codec string, verbose bool) {
	// The default maximum goroutine stack is 1 GB: fullDepth levels overflow it (thorough tier
	// and --replay; about 1.5 GB of memory for a few seconds).  The quick tier shows the same
	// unbounded recursion cheaply and with a wide margin: stack capped at 8 MB in the child
	// (debug.SetMaxStack), depth chosen so that the recursion needs at least three times that
	// (>= 100 bytes of stack per level measured for both decoders); child memory < 100 MB.
	depth, maxStack := fullDepth[codec], 0
	if !c.Thorough() && c.Replay == "" {
		maxStack = 8 << 20
		depth = map[string]int{"cbor": 120000, "json": 250000}[codec]
	}
	for _, mode := range []string{"typed", "generic"} {
		res, detail := runDeepChild(codec, mode, depth, maxStack)
		c.Eval()
		c.Count("deep:" + codec + ":" + mode + ":" + res)
		if verbose {
			fmt.Printf("deep %s %s depth=%d maxstack=%d: %s %s\n", codec, mode, depth, maxStack, res, detail)
		}
		switch res {
		case "inconclusive":
			c.Note(fmt.Sprintf("deep-nesting child (%s, %s prototype, depth %d) was inconclusive: %s", codec, mode, depth, detail))
		case "overflow":
			what := "'[' repeated (nested arrays)"
			if codec == "cbor" {
				what = "0x81 repeated (nested one-element arrays)"
			}
			stack := "default (1 GB)"
			if maxStack != 0 {
				stack = fmt.Sprintf("capped at %d MB for this quick run", maxStack>>20)
			}
			c.Fail("load:"+mode+":"+codec+":deep-nesting-kills-process",
				fmt.Sprintf("a %s block of %s to depth %d, loaded with the %s prototype through lsys.Load, does not return an error: the process dies (%s; maximum goroutine stack %s). The decoder recurses once per nesting level and its allocation budget does not bound the depth: with the default 1 GB stack %d levels (a %.1f MB block) are enough",
					codec, what, depth, mode, detail, stack, fullDepth[codec], map[string]float64{"cbor": 2.6, "json": 10}[codec]),
				replay{Kind: "deep", Codec: codec, Depth: fullDepth[codec]})
		}
	}
}

func runDeep(c *vlib.Ctx) {
	doDeep(c, "cbor", false)
	doDeep(c, "json", false)
}

// ---- remaining entry points of ingest/schema the property reaches

// a node that claims the typed prototype without being a bindnode node
type impostor struct {
	datamodel.Node
	proto datamodel.NodePrototype
}

func (i impostor) Prototype() datamodel.NodePrototype { return i.proto }

func runEntryPoints(c *vlib.Ctx) {
	runToNodeGuard(c)
	// 1. a CID whose codec has no registered decoder, or a decoder that cannot feed the schema
	//    (raw): BytesTo* return an error, never panic
	blk, _ := hexBytes("a267456e747269657380644e657874d82a450001550000")
	for _, codec := range []uint64{0x55, 0x70, 0x0200, 0x72, 0xffffff} {
		cc := cid.NewCidV1(codec, mustSum("x"))
		for name, f := range map[string]func() error{
			"ad":    func() error { _, err := schema.BytesToAdvertisement(cc, blk); return err },
			"chunk": func() error { _, err := schema.BytesToEntryChunk(cc, blk); return err },
		} {
			g := guard(f)
			c.Eval()
			c.Count("entry:codec")
			if g.panicked != "" {
				c.Fail(fmt.Sprintf("entry:codec:panic:%s:0x%x", name, codec), "BytesTo"+name+" panicked for a CID with codec "+fmt.Sprintf("0x%x", codec)+": "+g.panicked, nil)
			} else if g.err == nil {
				c.Fail(fmt.Sprintf("entry:codec:accepted:%s:0x%x", name, codec), "a DAG-CBOR block was decoded under a CID that names another codec", nil)
			}
		}
	}
	// 2. Unwrap* on a node that names the typed prototype but is not a typed node: an error
	for name, f := range map[string]func() error{
		"ad": func() error {
			_, err := schema.UnwrapAdvertisement(impostor{basicnode.NewString("x"), schema.AdvertisementPrototype})
			return err
		},
		"chunk": func() error {
			_, err := schema.UnwrapEntryChunk(impostor{basicnode.NewString("x"), schema.EntryChunkPrototype})
			return err
		},
		"ad-null":    func() error { _, err := schema.UnwrapAdvertisement(datamodel.Null); return err },
		"chunk-null": func() error { _, err := schema.UnwrapEntryChunk(datamodel.Null); return err },
		"ad-from-chunk-node": func() error {
			n, _ := chNode(schema.EntryChunk{})
			_, err := schema.UnwrapAdvertisement(n)
			return err
		},
	} {
		g := guard(f)
		c.Eval()
		c.Count("entry:unwrap-foreign")
		if g.panicked != "" {
			c.Fail("entry:unwrap:panic:"+name, "Unwrap panicked: "+g.panicked, nil)
		} else if g.err == nil {
			c.Fail("entry:unwrap:accepted:"+name, "Unwrap accepted a node that is not of the schema", nil)
		}
	}
}

//  3. ToNode's panic guard: when bindnode panics inside Wrap (here provoked by pointing the
//     exported prototype variables at the wrong type, and at nil; restored afterwards), ToNode
//     hands back an error instead of panicking (recover + toError)
func runToNodeGuard(c *vlib.Ctx) {
	adP, chP := schema.AdvertisementPrototype, schema.EntryChunkPrototype
	defer func() { schema.AdvertisementPrototype, schema.EntryChunkPrototype = adP, chP }()
	ad := schema.Advertisement{Provider: "p", Entries: schema.NoEntries}
	ch := schema.EntryChunk{}
	for _, variant := range []string{"swapped", "nil"} {
		if variant == "swapped" {
			schema.AdvertisementPrototype, schema.EntryChunkPrototype = chP, adP
		} else {
			schema.AdvertisementPrototype, schema.EntryChunkPrototype = nil, nil
		}
		for name, f := range map[string]func() error{
			"ad":    func() error { _, err := ad.ToNode(); return err },
			"chunk": func() error { _, err := ch.ToNode(); return err },
		} {
			g := guard(f)
			c.Eval()
			c.Count("entry:tonode-guard")
			if g.panicked != "" {
				c.Fail("entry:tonode:panic:"+name+":"+variant, "ToNode panicked instead of returning an error: "+g.panicked, nil)
			} else if g.err == nil {
				c.Fail("entry:tonode:accepted:"+name+":"+variant, "ToNode succeeded against a "+variant+" prototype", nil)
			}
		}
	}
}

func hexBytes(s string) ([]byte, error) {
	b := make([]byte, len(s)/2)
	_, err := fmt.Sscanf(s, "%x", &b)
	return b, err
}
