package main

// Recording of API calls in the scheduler's log and conversion of the log (yield-point
// passages with their goroutines, call starts and returns, in real-time order) into a Coq
// case for the acceptor trace_case_ok of model/C15_Shutdown.v, which replays it on stepf.

import (
	"fmt"
	"strings"
	"sync"

	"verif/harness/subdrv"
	"verif/harness/vlib"
)

type callSpec struct {
	K    string // close | sync | entries | announce | listen | cancel
	Fuel int    // blocks the sync (or the sync the announcement triggers) has to fetch
	LKey int    // cancel: key of the listen call whose cancel func this is
}

type callRec struct {
	Key    int
	Spec   callSpec
	G      uint64
	Result string
	Done   bool
}

type tracer struct {
	mu    sync.Mutex
	calls map[int]*callRec
	next  int
	off   bool // this scenario is not converted (something the acceptor does not cover happened)
}

func (e *env) callStart(spec callSpec) int {
	e.tr.mu.Lock()
	if e.tr.calls == nil {
		e.tr.calls = map[int]*callRec{}
	}
	k := e.tr.next
	e.tr.next++
	e.tr.calls[k] = &callRec{Key: k, Spec: spec, G: subdrv.Goid()}
	e.tr.mu.Unlock()
	e.sched.Record("call", k, "")
	return k
}

func (e *env) callEnd(k int, result string) {
	e.tr.mu.Lock()
	e.tr.calls[k].Result = result
	e.tr.calls[k].Done = true
	e.tr.mu.Unlock()
	e.sched.Record("ret", k, result)
}

var ypName = map[string]string{
	"close:closing-closed": "YCloseClosing", "close:exp-blocked": "YCloseExpBlocked", "close:exp-waited": "YCloseExpWaited",
	"close:receiver-closed": "YCloseRecvClosed", "close:async-waited": "YCloseAsyncWaited", "close:inevents-closed": "YCloseInClosed",
	"listen:adding": "YListenAdding", "listen:cancelling": "YListenCancelling", "sync:stop-read": "YSyncStopRead",
	"sync:handled": "YSyncHandled", "dist:forward": "YDistForward", "dist:added": "YDistAdded", "dist:removed": "YDistRemoved",
	"watch:next": "YWatchNext", "watch:swapped": "YWatchSwapped", "async:start": "YAsyncStart", "async:locked": "YAsyncLocked",
	"async:sem": "YAsyncSem", "async:taken": "YAsyncTaken", "async:latest-read": "YLatestRead", "async:handled": "YAsyncHandled",
	"event:latest-set": "YLatestSet", "event:sent": "YEventSent", "handle:locked": "YHandleLocked", "handle:unlocking": "YHandleUnlocking",
}

func optNat(ok bool, n int) string {
	if !ok {
		return "None"
	}
	return fmt.Sprintf("(Some %d%%nat)", n)
}

// buildTrace converts the log; ok=false when the run contains something the acceptor does
// not cover (then no case is written; the direct oracles still apply).
func (e *env) buildTrace(sem int, closed bool) (string, bool) {
	if e.tr.off {
		return "", false
	}
	log := e.sched.Snapshot()
	e.tr.mu.Lock()
	defer e.tr.mu.Unlock()
	byG := map[uint64]*callRec{}
	for _, c := range e.tr.calls {
		byG[c.G] = c
	}
	// goroutines started by watch: first seen at async:start
	asyncKey := map[uint64]int{}
	passes := map[uint64]map[string]bool{}
	for _, r := range log {
		if _, ok := ypName[r.Name]; !ok {
			continue
		}
		if passes[r.G] == nil {
			passes[r.G] = map[string]bool{}
		}
		passes[r.G][r.Name] = true
	}
	var out []string
	nfwd := 0
	for _, r := range log {
		switch r.Name {
		case "call":
			c := e.tr.calls[r.Key]
			switch c.Spec.K {
			case "close":
				out = append(out, fmt.Sprintf("OCall %d%%nat KClose false None", c.Key))
			case "sync", "entries":
				admitted := c.Result != "shutdown"
				fails := "None"
				if admitted && c.Spec.K == "sync" {
					if b := e.w.HooksBy(c.G); b < c.Spec.Fuel {
						fails = optNat(true, b)
					}
				}
				upd := c.Spec.K == "sync"
				out = append(out, fmt.Sprintf("OCall %d%%nat (KExp %d%%nat %s) %s %s", c.Key, c.Spec.Fuel, vlib.CoqBool(upd), vlib.CoqBool(admitted), fails))
			case "announce":
				out = append(out, fmt.Sprintf("OCall %d%%nat (KAnn %d%%nat) false None", c.Key, c.Spec.Fuel))
			case "listen":
				out = append(out, fmt.Sprintf("OListen %d%%nat", c.Key))
			case "cancel":
				out = append(out, fmt.Sprintf("OCancel %d%%nat", c.Spec.LKey))
			}
		case "ret":
			c := e.tr.calls[r.Key]
			switch c.Spec.K {
			case "close":
				out = append(out, fmt.Sprintf("ORet %d%%nat RNil", c.Key))
			case "sync", "entries":
				res := "ROk"
				if c.Result == "shutdown" {
					res = "RShutdown"
				}
				out = append(out, fmt.Sprintf("ORet %d%%nat %s", c.Key, res))
			case "announce":
				res := "RNil"
				if c.Result == "errclosed" {
					res = "RErrClosed"
				}
				out = append(out, fmt.Sprintf("ORet %d%%nat %s", c.Key, res))
			case "listen":
				out = append(out, fmt.Sprintf("OListenRet %d%%nat %s", c.Key, vlib.CoqBool(c.Result == "closedchan")))
			case "cancel":
				out = append(out, fmt.Sprintf("OCancelRet %d%%nat", c.Spec.LKey))
			}
		default:
			y, ok := ypName[r.Name]
			if !ok {
				continue // gate:*, ext:*
			}
			var actor string
			switch {
			case strings.HasPrefix(r.Name, "watch:"):
				actor = "AWatch"
			case strings.HasPrefix(r.Name, "dist:"):
				actor = "ADist"
				if r.Name == "dist:forward" {
					nfwd++
				}
			case strings.HasPrefix(r.Name, "listen:"):
				c := byG[r.G]
				if c == nil {
					return "", false
				}
				k := c.Key
				if c.Spec.K == "cancel" {
					k = c.Spec.LKey
				}
				actor = fmt.Sprintf("(AReg %d%%nat)", k)
			default:
				if c := byG[r.G]; c != nil {
					actor = fmt.Sprintf("(AThread %d%%nat)", c.Key)
				} else {
					k, seen := asyncKey[r.G]
					if !seen {
						if r.Name != "async:start" {
							return "", false
						}
						k = 1000 + len(asyncKey)
						asyncKey[r.G] = k
						aborted := !passes[r.G]["async:taken"]
						failed := passes[r.G]["handle:locked"] && !passes[r.G]["event:latest-set"]
						out = append(out, fmt.Sprintf("OGo %d%%nat %s %s", k, vlib.CoqBool(aborted), optNat(failed, e.w.HooksBy(r.G))))
					}
					actor = fmt.Sprintf("(AThread %d%%nat)", k)
				}
			}
			out = append(out, fmt.Sprintf("OAt %s %s", actor, y))
		}
	}
	return fmt.Sprintf("{| c_recv := %s; c_cap := %d%%nat; c_trace := %s; c_hooks := %d%%nat; c_forwards := %d%%nat; c_closed := %s |}",
		vlib.CoqBool(!e.noRecv), sem, vlib.CoqList(out), e.w.NHooks(), nfwd, vlib.CoqBool(closed)), true
}
