package main

import (
	"context"
	"fmt"
	"reflect"
	"runtime"
	"strings"
	"time"
	"unsafe"

	pubsub "github.com/libp2p/go-libp2p-pubsub"

	"github.com/ipni/go-libipni/dagsync"
	"github.com/libp2p/go-libp2p"

	"verif/harness/subdrv"
)

// receiverTopic returns the gossip topic of the announcement receiver owned by the subscriber:
// through the verif hook if the tree under test has it (pending/C15-hook-receiver-topic.diff),
// else by reading the unexported fields Subscriber.receiver and Receiver.topic.
func receiverTopic(sub *dagsync.Subscriber) (t *pubsub.Topic, how string) {
	if h, ok := interface{}(sub).(interface{ VerifReceiverTopic() *pubsub.Topic }); ok {
		return h.VerifReceiverTopic(), "hook"
	}
	defer func() {
		if recover() != nil {
			t, how = nil, "fields receiver/topic not found"
		}
	}()
	rf := reflect.ValueOf(sub).Elem().FieldByName("receiver")
	if !rf.IsValid() || rf.IsNil() {
		return nil, "no receiver"
	}
	tf := rf.Elem().FieldByName("topic")
	if !tf.IsValid() {
		return nil, "no topic field"
	}
	v := reflect.NewAt(tf.Type(), unsafe.Pointer(tf.UnsafeAddr())).Elem().Interface()
	tp, ok := v.(*pubsub.Topic)
	if !ok {
		return nil, "topic field has another type"
	}
	return tp, "reflect"
}

// pubsubLoops counts the running gossip pubsub instances (their processLoop goroutines).
func pubsubLoops() int {
	buf := make([]byte, 1<<22)
	buf = buf[:runtime.Stack(buf, true)]
	return strings.Count(string(buf), "go-libp2p-pubsub.(*PubSub).processLoop(")
}

// runTopicCloseFails: the receiver created by the subscriber owns its pubsub (RecvAnnounce with
// a topic name and a host, no topic given).  Leaving the topic fails when Close gets there (an
// event handler registered on the topic is outstanding).  Close must still shut down what the
// subscriber started: it returns (an error is fine), a second Close returns, later calls are
// refused, and the pubsub instance the receiver started is stopped (its processLoop goroutine
// ends; Publish is no oracle, it can succeed locally on a stopped instance).
func runTopicCloseFails(sc Scn) (res Res) {
	res.Sc = sc
	t0 := time.Now()
	h, err := libp2p.New(libp2p.ListenAddrStrings("/ip4/127.0.0.1/tcp/0"), libp2p.DisableRelay())
	if err != nil {
		res.fail("harness:host", err.Error())
		return
	}
	defer h.Close()
	loops0 := pubsubLoops()
	topicName := fmt.Sprintf("/verif/c15/tcf/%d/%d", sc.Seed, sc.Closers)
	e := newEnvWithHost(sc, &res, 1, nil, h, dagsync.RecvAnnounce(topicName))
	defer e.cleanup()
	e.tr.off = true // the receiver's internals are not in the model
	topic, how := receiverTopic(e.w.Sub)
	if topic == nil {
		res.fail("harness:receiver-topic", "cannot reach the receiver's topic: "+how)
		return
	}
	if n := pubsubLoops(); n != loops0+1 {
		res.fail("harness:pubsub-count", fmt.Sprintf("%d pubsub instances running after NewSubscriber, expected %d", n, loops0+1))
		return
	}
	p := e.pubs[0]
	e.listen(false)
	if _, err := e.w.Sub.SyncAdChain(context.Background(), p.Info()); err != nil {
		res.fail("setup:sync", err.Error())
		return
	}
	evh, err := topic.EventHandler()
	if err != nil {
		res.fail("harness:event-handler", err.Error())
		return
	}
	defer evh.Cancel()
	res.Reached = true
	T, returned := e.closeN(sc.Closers)
	if !returned {
		return
	}
	e.postClose(T, true)
	// the pubsub instance started by the receiver must be gone
	dl := subdrv.NewDeadline(watchdog / 2)
	for pubsubLoops() > loops0 && !dl.Expired() {
		time.Sleep(2 * time.Millisecond)
	}
	if n := pubsubLoops(); n > loops0 {
		res.fail("close:pubsub-left-running", fmt.Sprintf("leaving the gossip topic failed during Close (outstanding event handler); Close returned, and the pubsub instance started by the subscriber's receiver is still running %v later (%d processLoop goroutines, %d before NewSubscriber); a second Close returned without stopping it", watchdog/2, n, loops0))
	}
	res.DurMs = float64(time.Since(t0).Microseconds()) / 1000
	return
}
