// c15: Subscriber shutdown is clean, idempotent and final.
//
// Close is injected at every verif yield point of an explicit and of an announce-triggered
// sync (the sync goroutine is held at the point until doClose has started), with 1..4
// concurrent Close callers; random mixes of Close with syncs, announcements, listener
// registration and cancellation; targeted schedules (registration after Close; Close while
// the distributor is held before forwarding); sequential API histories.  Every call runs
// under a watchdog; after Close returned the harness checks that no block hook call, store
// write or notification happens, that every listener channel is closed, that no library
// goroutine is left after a grace period and that every entry point returns promptly with
// an error or an empty result.  Sequential histories are written as Coq cases for the
// acceptor seq_case_ok of model/C15_Shutdown.v.
package main

import (
	"context"
	"encoding/json"
	"errors"
	"fmt"
	"os"
	"os/exec"
	"path/filepath"
	"strings"
	"sync"
	"sync/atomic"
	"time"

	"github.com/ipfs/go-cid"
	logging "github.com/ipfs/go-log/v2"
	"github.com/ipni/go-libipni/announce"
	"github.com/ipni/go-libipni/announce/gossiptopic"
	"github.com/ipni/go-libipni/announce/message"
	"github.com/ipni/go-libipni/announce/p2psender"
	"github.com/ipni/go-libipni/dagsync"
	"github.com/libp2p/go-libp2p"
	"github.com/libp2p/go-libp2p/core/host"
	"github.com/libp2p/go-libp2p/core/peer"

	"verif/harness/subdrv"
	"verif/harness/vlib"
)

const watchdog = 2 * time.Second

type Scn struct {
	Kind    string        `json:"kind"` // inject-explicit | inject-async | async-hung | mix | after-close | dist-held | seq
	Seed    uint64        `json:"seed"`
	Point   string        `json:"point,omitempty"`
	Closers int           `json:"closers,omitempty"`
	Sem     int           `json:"sem,omitempty"`
	Ops     []string      `json:"ops,omitempty"` // mix / seq: close | sync | announce | listen | cancel
	Rules   []subdrv.Rule `json:"rules,omitempty"`
	Random  int           `json:"random,omitempty"`
	// Subscriber options read by the code Close waits for (boundary values)
	TTL    string `json:"ttl,omitempty"`    // IdleHandlerTTL: "" default | zero | neg | tiny
	NoRecv bool   `json:"norecv,omitempty"` // created without RecvAnnounce
}

func (sc Scn) variant() string {
	v := ""
	if sc.TTL != "" {
		v += "ttl-" + sc.TTL
	}
	if sc.NoRecv {
		v += pick(v == "", "", "+") + "norecv"
	}
	return v
}

type Res struct {
	Sc       Scn      `json:"scenario"`
	Outcomes []string `json:"outcomes,omitempty"` // seq: one per op
	Reached  bool     `json:"reached"`
	Trace    string   `json:"trace,omitempty"` // Coq term for trace_case_ok
	Failures []string `json:"failures"`
	Sigs     []string `json:"sigs"`
	DurMs    float64  `json:"dur_ms"`
}

func (r *Res) fail(sig, msg string) {
	for _, s := range r.Sigs {
		if s == sig {
			return
		}
	}
	r.Sigs = append(r.Sigs, sig)
	r.Failures = append(r.Failures, msg)
}

// ---- a subscriber with observers -----------------------------------------------------------

type listener struct {
	ch        <-chan dagsync.SyncFinished
	cancel    context.CancelFunc
	mu        sync.Mutex
	n         int
	last      uint64 // tick of the last notification read
	closed    bool
	done      chan struct{}
	start     chan struct{} // nil: reads at once; else waits for it (stalled)
	key       int           // key of the OnSyncFinished call in the trace
	cancelled bool
	keep      bool      // record what is read
	got       []cid.Cid // if keep
}

func (l *listener) read() {
	defer close(l.done)
	if l.start != nil {
		<-l.start
	}
	for ev := range l.ch {
		t := subdrv.Tick()
		l.mu.Lock()
		l.n++
		l.last = t
		if l.keep {
			l.got = append(l.got, ev.Cid)
		}
		l.mu.Unlock()
	}
	l.mu.Lock()
	l.closed = true
	l.mu.Unlock()
}

type env struct {
	w     *subdrv.World
	pubs  []*subdrv.Pub
	sched *subdrv.Sched
	ls    []*listener
	res   *Res
	heads []int
	// goroutines the scheduler was holding at a yield point when Close returned
	heldAtReturn atomic.Int64
	tr           tracer
	latest       []int // per publisher: index of the latest synced advertisement, -1 if none
	closedRet    atomic.Bool
	noRecv       bool
}

func newEnv(sc Scn, res *Res, npubs int, gate subdrv.GateFunc) *env {
	return newEnvWithHost(sc, res, npubs, gate, nil)
}

func newEnvWithHost(sc Scn, res *Res, npubs int, gate subdrv.GateFunc, h host.Host, extra ...dagsync.Option) *env {
	e := &env{res: res}
	for i := 0; i < npubs; i++ {
		p := subdrv.NewPub(i, sc.Seed)
		p.Extend(8)
		p.SetHead(1)
		p.SetGate(gate)
		e.pubs = append(e.pubs, p)
		e.heads = append(e.heads, 1)
		e.latest = append(e.latest, -1)
	}
	var opts []dagsync.Option
	if sc.Sem > 0 {
		opts = append(opts, dagsync.MaxAsyncConcurrency(sc.Sem))
	}
	switch sc.TTL {
	case "zero":
		opts = append(opts, dagsync.IdleHandlerTTL(0))
	case "neg":
		opts = append(opts, dagsync.IdleHandlerTTL(-time.Second))
	case "tiny":
		opts = append(opts, dagsync.IdleHandlerTTL(time.Millisecond))
	}
	opts = append(opts, extra...)
	e.noRecv = sc.NoRecv
	if sc.NoRecv {
		e.w = subdrv.NewWorldNoRecv(e.pubs, opts...)
	} else {
		e.w = subdrv.NewWorldWithHost(h, e.pubs, opts...)
	}
	e.sched = subdrv.NewSched(e.pubs, sc.Rules, vlib.NewRand(sc.Seed).Fork("sched"), sc.Random)
	e.sched.Install()
	return e
}

func (e *env) cleanup() {
	e.sched.Uninstall()
	for _, p := range e.pubs {
		p.SetGate(nil)
	}
	subdrv.Call(watchdog, func() { e.w.Sub.Close() })
	for _, p := range e.pubs {
		p.Close()
	}
}

func (e *env) listen(stalled bool) *listener {
	l := &listener{done: make(chan struct{})}
	if stalled {
		l.start = make(chan struct{})
	}
	ok, pn := subdrv.Call(watchdog, func() {
		l.key = e.callStart(callSpec{K: "listen"})
		l.ch, l.cancel = e.w.Sub.OnSyncFinished()
		e.callEnd(l.key, "openchan")
	})
	if !ok || pn != nil {
		e.res.fail("open:OnSyncFinished:blocked", fmt.Sprintf("OnSyncFinished did not return within %v on an open subscriber (panic=%v)", watchdog, pn))
		return nil
	}
	go l.read()
	e.ls = append(e.ls, l)
	return l
}

// closeN runs n concurrent Close calls; returns the tick at which the first one returned.
func (e *env) closeN(n int) (first uint64, allReturned bool) {
	type r struct {
		ok   bool
		pn   interface{}
		tick uint64
	}
	out := make(chan r, n)
	for i := 0; i < n; i++ {
		go func() {
			var t uint64
			ok, pn := subdrv.Call(watchdog, func() {
				k := e.callStart(callSpec{K: "close"})
				_ = e.w.Sub.Close()
				e.closedRet.Store(true)
				e.callEnd(k, "nil")
				h := e.sched.Held.Load()
				t = e.sched.Signal("ext:close-returned", -1)
				if h > 0 {
					e.heldAtReturn.Store(h)
				}
			})
			out <- r{ok, pn, t}
		}()
	}
	allReturned = true
	for i := 0; i < n; i++ {
		x := <-out
		if x.pn != nil {
			e.res.fail("close:panic", fmt.Sprintf("Close panicked: %v", x.pn))
		}
		if !x.ok {
			allReturned = false
			continue
		}
		if first == 0 || x.tick < first {
			first = x.tick
		}
	}
	if !allReturned {
		e.res.fail("close:blocked", fmt.Sprintf("Close did not return within %v (%d concurrent callers)", watchdog, n))
	}
	return
}

var activityPoints = map[string]bool{
	"dist:forward": true, "event:latest-set": true, "event:sent": true, "handle:locked": true, "handle:unlocking": true,
	"sync:stop-read": true, "sync:handled": true, "watch:next": true, "watch:swapped": true,
	"async:start": true, "async:locked": true, "async:sem": true, "async:taken": true, "async:latest-read": true, "async:handled": true,
}

// postClose: everything the property demands once Close has returned at tick T.
func (e *env) postClose(T uint64, checkGoroutines bool) {
	res := e.res
	sub := e.w.Sub
	p := e.pubs[0]
	// (a) every entry point returns promptly with an error or an empty result
	{
		var err error
		ok, pn := subdrv.Call(watchdog, func() {
			k := e.callStart(callSpec{K: "sync", Fuel: 1})
			_, err = sub.SyncAdChain(context.Background(), p.Info())
			e.callEnd(k, syncResult(err))
		})
		if !ok || pn != nil {
			res.fail("after-close:SyncAdChain:blocked", fmt.Sprintf("SyncAdChain after Close did not return (panic=%v)", pn))
		} else if err == nil || !strings.Contains(err.Error(), "shutdown") {
			res.fail("after-close:SyncAdChain:no-error", fmt.Sprintf("SyncAdChain after Close returned %v", err))
		}
		ok, pn = subdrv.Call(watchdog, func() {
			k := e.callStart(callSpec{K: "entries"})
			err = sub.SyncEntries(context.Background(), p.Info(), p.Chain[0])
			e.callEnd(k, syncResult(err))
		})
		if !ok || pn != nil {
			res.fail("after-close:SyncEntries:blocked", fmt.Sprintf("SyncEntries after Close did not return (panic=%v)", pn))
		} else if err == nil || !strings.Contains(err.Error(), "shutdown") {
			res.fail("after-close:SyncEntries:no-error", fmt.Sprintf("SyncEntries after Close returned %v", err))
		}
		ok, pn = subdrv.Call(watchdog, func() {
			k := e.callStart(callSpec{K: "announce", Fuel: 1})
			err = sub.Announce(context.Background(), p.Chain[len(p.Chain)-1], p.Info())
			e.callEnd(k, annResult(err))
		})
		if !ok || pn != nil {
			res.fail("after-close:Announce:blocked", fmt.Sprintf("Announce after Close did not return (panic=%v)", pn))
		} else if e.noRecv {
			// without a receiver Announce is a no-op, before and after Close
			if err != nil {
				res.fail("after-close:Announce:error-without-receiver", fmt.Sprintf("Announce after Close of a subscriber without receiver returned %v, want nil", err))
			}
		} else if !errors.Is(err, announce.ErrClosed) {
			res.fail("after-close:Announce:no-error", fmt.Sprintf("Announce after Close returned %v, want ErrClosed", err))
		}
		var ch <-chan dagsync.SyncFinished
		var cncl context.CancelFunc
		lateKey := -1
		ok, pn = subdrv.Call(watchdog, func() {
			added := e.sched.Count("dist:added", -1)
			lateKey = e.callStart(callSpec{K: "listen"})
			ch, cncl = sub.OnSyncFinished()
			e.callEnd(lateKey, e.classifyListen(ch, added))
		})
		if !ok || pn != nil {
			res.fail("after-close:OnSyncFinished:blocked", fmt.Sprintf("OnSyncFinished after Close did not return within %v (panic=%v)", watchdog, pn))
		} else {
			select {
			case _, open := <-ch:
				if open {
					res.fail("after-close:OnSyncFinished:event", "a channel obtained after Close delivered a notification")
				}
			case <-subdrv.After(watchdog):
				res.fail("after-close:OnSyncFinished:open-channel", "a channel obtained after Close is not closed")
			}
			if ok, pn := subdrv.Call(watchdog, func() { cncl() }); !ok || pn != nil {
				res.fail("after-close:cancel:blocked", fmt.Sprintf("the cancel func of a channel obtained after Close did not return (panic=%v)", pn))
			}
		}
		for _, l := range e.ls {
			l := l
			first := !l.cancelled
			l.cancelled = true
			if ok, pn := subdrv.Call(watchdog, func() {
				if first {
					k := e.callStart(callSpec{K: "cancel", LKey: l.key})
					l.cancel()
					e.callEnd(k, "nil")
				} else {
					l.cancel()
				}
			}); !ok || pn != nil {
				res.fail("after-close:cancel:blocked", fmt.Sprintf("a cancel func called after Close did not return (panic=%v)", pn))
			}
		}
		ok, pn = subdrv.Call(watchdog, func() {
			k := e.callStart(callSpec{K: "close"})
			err = sub.Close()
			e.callEnd(k, "nil")
		})
		if !ok || pn != nil {
			res.fail("after-close:Close:blocked", fmt.Sprintf("a second Close did not return (panic=%v)", pn))
		}
		ok, pn = subdrv.Call(watchdog, func() { _ = sub.GetLatestSync(p.ID); _ = sub.RemoveHandler(p.ID); _ = sub.HttpPeerStore() })
		if !ok || pn != nil {
			res.fail("after-close:accessors:blocked", fmt.Sprintf("GetLatestSync/RemoveHandler after Close did not return (panic=%v)", pn))
		}
	}
	// (b) all listener channels are closed (after what was queued)
	for i, l := range e.ls {
		if l.start != nil {
			close(l.start)
		}
		select {
		case <-l.done:
		case <-subdrv.After(watchdog):
			res.fail("listener:not-closed", fmt.Sprintf("listener %d: channel not closed within %v of Close", i, watchdog))
		}
	}
	// (c) silence after T
	time.Sleep(20 * time.Millisecond)
	if n := e.w.HooksAfter(T); n != 0 {
		res.fail("activity-after-close:hook", fmt.Sprintf("%d block hook calls after Close had returned", n))
	}
	if n := e.w.Store.WritesAfter(T); n != 0 {
		res.fail("activity-after-close:store", fmt.Sprintf("%d store writes after Close had returned", n))
	}
	for _, r := range e.sched.Snapshot() {
		if r.Tick > T && activityPoints[r.Name] {
			res.fail("activity-after-close:"+r.Name, fmt.Sprintf("the subscriber passed %s after Close had returned", r.Name))
			break
		}
	}
	// (d) no goroutine of the library is left
	for _, sg := range res.Sigs {
		if strings.HasSuffix(sg, ":blocked") {
			checkGoroutines = false // the harness's own blocked call is a library frame; it is reported already
		}
	}
	if checkGoroutines {
		if g := subdrv.WaitNoLibGoroutines(400 * time.Millisecond); len(g) != 0 {
			res.fail("goroutines:"+strings.Join(dedup(g), ","), fmt.Sprintf("library goroutines left 400 ms after Close: %v", g))
		}
	}
}

// classifyListen says whether a channel just returned by OnSyncFinished is registered with
// the distributor ("openchan") or was handed back already closed ("closedchan"), from evidence
// rather than from elapsed time: the distributor passes dist:added after taking the
// registration; a registration that gave up returns a channel that gets closed.  A notification
// arriving on it also shows that it is registered (a sync that finished just before may be
// forwarded before or after the registration: both orders are legitimate).
func (e *env) classifyListen(ch <-chan dagsync.SyncFinished, addedBefore int) string {
	deadline := subdrv.NewDeadline(watchdog)
	for {
		if e.sched.Count("dist:added", -1) > addedBefore {
			return "openchan"
		}
		select {
		case _, open := <-ch:
			if !open {
				return "closedchan"
			}
			return "openchan"
		default:
		}
		if deadline.Expired() {
			return "undecided"
		}
		time.Sleep(100 * time.Microsecond)
	}
}

func syncResult(err error) string {
	switch {
	case err == nil:
		return "ok"
	case strings.Contains(err.Error(), "shutdown"):
		return "shutdown"
	}
	return "err"
}

func annResult(err error) string {
	switch {
	case err == nil:
		return "nil"
	case errors.Is(err, announce.ErrClosed):
		return "errclosed"
	}
	return "err"
}

func dedup(l []string) []string {
	var out []string
	for i, x := range l {
		if i == 0 || l[i-1] != x {
			out = append(out, x)
		}
	}
	return out
}

// ---- scenarios -----------------------------------------------------------------------------

var explicitPoints = []string{"sync:stop-read", "handle:locked", "gate:block", "handle:unlocking", "sync:handled", "event:latest-set", "event:sent", "dist:forward", "listen:adding", "dist:added"}
var asyncPoints = []string{"watch:next", "watch:swapped", "async:start", "async:locked", "async:sem", "async:taken", "async:latest-read", "handle:locked", "gate:block", "handle:unlocking", "async:handled", "event:latest-set", "event:sent", "dist:forward"}

func peerOf(point string) int {
	if strings.HasPrefix(point, "dist:added") || strings.HasPrefix(point, "listen:") || strings.HasPrefix(point, "close:") {
		return -1
	}
	return 0
}

// runInject: a sync is held at sc.Point until doClose has started; then sc.Closers callers
// call Close concurrently.
func runInject(sc Scn) (res Res) {
	res.Sc = sc
	t0 := time.Now()
	explicit := sc.Kind == "inject-explicit"
	var e *env
	gateHeld := make(chan struct{}, 1)
	gate := func(p *subdrv.Pub, kind string, c cid.Cid) int {
		if sc.Point == "gate:block" && kind == "block" && p.Index(c) == 0 {
			e.sched.Signal("gate:block", 0)
			select {
			case gateHeld <- struct{}{}:
			default:
			}
			e.sched.WaitFor("close:closing-closed", -1, 1, 1200*time.Millisecond)
		}
		return 0
	}
	if sc.Point != "gate:block" {
		nth := 1
		if sc.Point == "listen:adding" || sc.Point == "dist:added" {
			nth = 3 // the two listeners of the setup come first
		}
		sc.Rules = []subdrv.Rule{{Point: sc.Point, Peer: peerOf(sc.Point), Nth: nth, Until: "close:closing-closed", UntilPeer: -1, UntilNth: 1, MaxMs: 1200}}
	}
	e = newEnv(sc, &res, 1, gate)
	defer e.cleanup()
	p := e.pubs[0]
	e.listen(false)
	e.listen(true)
	if len(res.Failures) > 0 {
		return
	}
	var regDone chan struct{}
	if sc.Point == "listen:adding" || sc.Point == "dist:added" {
		// a registration is in flight when Close starts (its outcome, added or given up, is
		// not observable: such runs are not replayed on the model)
		e.tr.off = true
		regDone = make(chan struct{})
		go func() {
			defer close(regDone)
			var l listener
			l.done = make(chan struct{})
			l.ch, l.cancel = e.w.Sub.OnSyncFinished()
			go l.read()
			<-l.done
		}()
	}
	syncDone := make(chan error, 1)
	p.SetHead(3)
	if explicit {
		go func() {
			k := e.callStart(callSpec{K: "sync", Fuel: 4})
			c, err := e.w.Sub.SyncAdChain(context.Background(), p.Info())
			e.callEnd(k, syncResult(err))
			if err == nil && c != p.Chain[3] {
				err = fmt.Errorf("returned %v", c)
			}
			syncDone <- err
		}()
	} else {
		go func() {
			k := e.callStart(callSpec{K: "announce", Fuel: 4})
			err := e.w.Sub.Announce(context.Background(), p.Chain[3], p.Info())
			e.callEnd(k, annResult(err))
			syncDone <- err
		}()
	}
	nthReached := 1
	if sc.Point == "listen:adding" || sc.Point == "dist:added" {
		nthReached = 3
	}
	res.Reached = e.sched.WaitFor(sc.Point, peerOf(sc.Point), nthReached, watchdog)
	T, returned := e.closeN(sc.Closers)
	select {
	case err := <-syncDone:
		if explicit && err != nil && res.Reached && !(sc.Point == "listen:adding" || sc.Point == "dist:added") {
			// an explicit sync that passed the gate before Close started must be allowed to finish
			res.fail("explicit-sync-not-finished:"+sc.Point, fmt.Sprintf("explicit sync held at %s when Close started did not complete: %v", sc.Point, err))
		}
	case <-subdrv.After(2 * watchdog):
		res.fail("sync:blocked:"+sc.Point, "the sync call did not return after Close")
	}
	if regDone != nil {
		select {
		case <-regDone:
		case <-subdrv.After(watchdog):
			res.fail("register-racing-close:blocked:"+sc.Point, "OnSyncFinished racing with Close did not return / its channel was not closed")
		}
	}
	if returned {
		if explicit && res.Reached && e.w.NHooks() < 4 && sc.Point != "listen:adding" && sc.Point != "dist:added" {
			res.fail("explicit-sync-cut-short:"+sc.Point, fmt.Sprintf("explicit sync fetched %d of 4 blocks", e.w.NHooks()))
		}
		e.postClose(T, true)
		if len(res.Failures) == 0 {
			res.Trace, _ = e.buildTrace(sc.Sem, true)
		}
	}
	res.DurMs = float64(time.Since(t0).Microseconds()) / 1000
	return
}

// runBacklogClose: listeners that do not read are Closers-hundred notifications behind (cheap
// explicit syncs of a chain growing by one); then Close, the cancel func of one of them and a
// new OnSyncFinished run concurrently.  All must return within the bound, whatever the readers
// do; afterwards the listeners read everything that was queued, in order, then see the close.
func runBacklogClose(sc Scn) (res Res) {
	res.Sc = sc
	t0 := time.Now()
	n := sc.Closers // number of notifications queued (the field is reused; one Close caller + one late one)
	e := newEnv(sc, &res, 1, nil)
	defer e.cleanup()
	e.tr.off = true // hundreds of syncs: not replayed
	p := e.pubs[0]
	p.Extend(n + 2)
	toCancel := e.listen(true)
	tillClose := e.listen(true)
	reader := e.listen(false)
	if toCancel == nil || tillClose == nil || reader == nil {
		return
	}
	for _, l := range []*listener{toCancel, tillClose, reader} {
		l.mu.Lock()
		l.keep = true
		l.mu.Unlock()
	}
	syncStuck := false
	queued := n
	for i := 1; i <= n; i++ {
		p.SetHead(i)
		var err error
		ok, _ := subdrv.Call(watchdog, func() { _, err = e.w.Sub.SyncAdChain(context.Background(), p.Info()) })
		if !ok {
			res.fail("backlog:sync-blocked", fmt.Sprintf("sync %d of %d did not return within %v with two registered listeners %d notifications behind", i, n, watchdog, i-1))
			syncStuck = true
			queued = i - 1
			break
		}
		if err != nil {
			res.fail("backlog:sync-error", err.Error())
			return
		}
	}
	res.Reached = !syncStuck
	// Close || cancel || a new registration
	type ret struct {
		what string
		ok   bool
	}
	out := make(chan ret, 3)
	var T uint64
	go func() {
		ok, _ := subdrv.Call(watchdog, func() {
			_ = e.w.Sub.Close()
			e.closedRet.Store(true)
			T = e.sched.Signal("ext:close-returned", -1)
		})
		out <- ret{"Close", ok}
	}()
	go func() {
		toCancel.cancelled = true
		ok, _ := subdrv.Call(watchdog, func() { toCancel.cancel() })
		out <- ret{"cancel", ok}
	}()
	late := &listener{done: make(chan struct{})}
	go func() {
		ok, _ := subdrv.Call(watchdog, func() { late.ch, late.cancel = e.w.Sub.OnSyncFinished() })
		out <- ret{"OnSyncFinished", ok}
	}()
	closeOK := false
	for i := 0; i < 3; i++ {
		r := <-out
		if !r.ok {
			res.fail("backlog:"+r.what+":blocked", fmt.Sprintf("%s did not return within %v while two registered listeners had %d unread notifications", r.what, watchdog, queued))
		} else if r.what == "Close" {
			closeOK = true
		} else if r.what == "OnSyncFinished" {
			go late.read()
			defer late.cancel()
		}
	}
	if closeOK && len(res.Failures) == 0 {
		e.postClose(T, true) // releases the stalled readers and waits for their channels to close
		want := n
		for i, l := range []*listener{toCancel, tillClose, reader} {
			l.mu.Lock()
			got := l.got
			l.mu.Unlock()
			bad := len(got) != want
			for j := 0; j < len(got) && !bad; j++ {
				if p.Index(got[j]) != j+1 {
					bad = true
				}
			}
			if bad {
				res.fail(fmt.Sprintf("backlog:listener-%d:lost-or-reordered", i), fmt.Sprintf("listener %d (%s) read %d of the %d notifications queued for it, or not in order", i, []string{"cancelled during Close, read afterwards", "read after Close", "reading all along"}[i], len(got), want))
			}
		}
	}
	res.DurMs = float64(time.Since(t0).Microseconds()) / 1000
	return
}

// runAsyncHung: the publisher never answers a block request of an announce-triggered sync;
// Close must cancel it and return.
func runAsyncHung(sc Scn) (res Res) {
	res.Sc = sc
	t0 := time.Now()
	var e *env
	release := make(chan struct{})
	gate := func(p *subdrv.Pub, kind string, c cid.Cid) int {
		if kind == "block" {
			e.sched.Signal("gate:block", 0)
			<-release
		}
		return 0
	}
	e = newEnv(sc, &res, 1, gate)
	defer e.cleanup()
	defer close(release)
	p := e.pubs[0]
	e.listen(false)
	p.SetHead(3)
	_ = e.w.Sub.Announce(context.Background(), p.Chain[3], p.Info())
	res.Reached = e.sched.WaitFor("gate:block", 0, 1, watchdog)
	T, returned := e.closeN(sc.Closers)
	if returned {
		e.postClose(T, true)
	} else {
		res.fail("close:blocked:async-hung", "Close did not return while an announce-triggered sync waited for a publisher that never answers")
	}
	res.DurMs = float64(time.Since(t0).Microseconds()) / 1000
	return
}

// runDistHeld: the distributor is held right after taking a notification from inEvents
// until Close has returned (or 300 ms); a notification must not reach a listener after
// Close has returned, and its channel must be closed by then.
func runDistHeld(sc Scn) (res Res) {
	res.Sc = sc
	t0 := time.Now()
	sc.Rules = []subdrv.Rule{{Point: "dist:forward", Peer: 0, Nth: 1, Until: "ext:close-returned", UntilPeer: -1, UntilNth: 1, MaxMs: 300}}
	e := newEnv(sc, &res, 1, nil)
	defer e.cleanup()
	p := e.pubs[0]
	l := e.listen(false)
	if l == nil {
		return
	}
	p.SetHead(2)
	if _, err := e.w.Sub.SyncAdChain(context.Background(), p.Info()); err != nil {
		res.fail("setup:sync", err.Error())
		return
	}
	res.Reached = e.sched.WaitFor("dist:forward", 0, 1, watchdog)
	T, returned := e.closeN(1)
	if returned {
		// the distributor was being held between taking the notification from inEvents and
		// handing it to the listener: Close must not have returned meanwhile
		if e.heldAtReturn.Load() > 0 {
			res.fail("close-returned-before-delivery", "Close returned while the distributor had taken the notification of a completed sync from inEvents but not yet handed it to the registered listener, whose channel was still open (delivery and close happened after Close returned)")
		}
		_ = l
		e.postClose(T, true)
	}
	res.DurMs = float64(time.Since(t0).Microseconds()) / 1000
	return
}

// runCleaner: the idle-handler cleaner is made slow (many handlers, so that its sweep under
// handlersMutex takes milliseconds); Close is called while a sweep is in progress (detected
// by RemoveHandler having to wait for the mutex) and the goroutines are dumped at once.
func runCleaner(sc Scn) (res Res) {
	// the sweep is hit by timing: up to three subscribers
	for i := 0; i < 3; i++ {
		res = runCleanerOnce(sc)
		if len(res.Failures) > 0 {
			return
		}
	}
	return
}

func runCleanerOnce(sc Scn) (res Res) {
	res.Sc = sc
	t0 := time.Now()
	p := subdrv.NewPub(0, sc.Seed)
	defer p.Close()
	p.Extend(2)
	ttl := 700 * time.Millisecond
	w := subdrv.NewWorld([]*subdrv.Pub{p}, dagsync.IdleHandlerTTL(ttl))
	created := time.Now()
	closed := false
	defer func() {
		if !closed {
			subdrv.Call(watchdog, func() { w.Sub.Close() })
		}
	}()
	n := 0
	for time.Since(created) < ttl-150*time.Millisecond {
		for k := 0; k < 2000; k++ {
			_ = w.Sub.SyncOneEntry(context.Background(), peer.AddrInfo{ID: peer.ID(fmt.Sprintf("fake-handler-%08d", n))}, p.Chain[0])
			n++
		}
	}
	// wait for a sweep: a RemoveHandler call stays blocked on handlersMutex while the cleaner holds it
	var inflight atomic.Int64 // start time (ns) of the probe call in progress, 0 if none
	stop := make(chan struct{})
	go func() {
		for {
			select {
			case <-stop:
				return
			default:
			}
			inflight.Store(time.Now().UnixNano())
			w.Sub.RemoveHandler("no-such-handler")
			inflight.Store(0)
		}
	}()
	deadline := created.Add(ttl + 400*time.Millisecond)
	hit := false
	for time.Now().Before(deadline) {
		if st := inflight.Load(); st != 0 && time.Now().UnixNano()-st > int64(400*time.Microsecond) && time.Since(created) > ttl-20*time.Millisecond {
			hit = true
			break
		}
	}
	defer close(stop)
	res.Reached = hit
	var dump []string
	ok, _ := subdrv.Call(watchdog, func() {
		_ = w.Sub.Close()
		dump = subdrv.LibGoroutines()
	})
	closed = true
	if !ok {
		res.fail("close:blocked", "Close did not return")
		return
	}
	for _, g := range dump {
		if strings.Contains(g, "idleHandlerCleaner") {
			res.fail("goroutine-at-return:idleHandlerCleaner", fmt.Sprintf("the idle-handler cleaner goroutine was still running when Close returned (%d handlers, sweep in progress: %v)", n, hit))
		}
	}
	res.DurMs = float64(time.Since(t0).Microseconds()) / 1000
	return
}

// runPubsubClose: a subscriber listening on a gossip topic; an announcement published over
// pubsub is being handled by the receiver's watcher (parked inside the allow-peer callback,
// i.e. after it took the message off the subscription and before announceCheck takes
// announceMutex) when Close is called; the callback is released once doClose has reached
// receiver.Close().  Close must return within the bound and every post-condition hold.
func runPubsubClose(sc Scn) (res Res) {
	res.Sc = sc
	t0 := time.Now()
	h, err := libp2p.New(libp2p.ListenAddrStrings("/ip4/127.0.0.1/tcp/0"), libp2p.DisableRelay())
	if err != nil {
		res.fail("harness:host", err.Error())
		return
	}
	defer h.Close()
	topicName := fmt.Sprintf("/verif/c15/%d/%d", sc.Seed, sc.Closers)
	topic, cancelPubsub, err := gossiptopic.MakeTopic(h, topicName)
	if err != nil {
		res.fail("harness:topic", err.Error())
		return
	}
	defer cancelPubsub()
	entered, release := make(chan struct{}), make(chan struct{})
	var once, relOnce sync.Once
	allow := func(p peer.ID) bool {
		once.Do(func() {
			close(entered)
			<-release
		})
		return true
	}
	doRelease := func() { relOnce.Do(func() { close(release) }) }
	defer doRelease()
	e := newEnvWithHost(sc, &res, 1, nil, h, dagsync.RecvAnnounce(topicName, announce.WithTopic(topic), announce.WithAllowPeer(allow)))
	defer e.cleanup()
	defer doRelease()
	e.tr.off = true // the model's watcher has no allow-peer step: this run is not replayed
	p := e.pubs[0]
	e.listen(false)
	sender, err := p2psender.New(nil, "", p2psender.WithTopic(topic))
	if err != nil {
		res.fail("harness:sender", err.Error())
		return
	}
	m := message.Message{Cid: p.Chain[1]}
	m.SetAddrs(p.Info().Addrs)
	if err := sender.Send(context.Background(), m); err != nil {
		res.fail("harness:send", err.Error())
		return
	}
	select {
	case <-entered:
		res.Reached = true
	case <-subdrv.After(2 * watchdog):
		return // the gossip message did not come back to this host: nothing observed
	}
	type cr struct {
		T  uint64
		ok bool
	}
	closed := make(chan cr, 1)
	go func() { T, ok := e.closeN(sc.Closers); closed <- cr{T, ok} }()
	// let doClose get to receiver.Close(), then let the watcher go on
	e.sched.WaitFor("close:exp-waited", -1, 1, watchdog)
	time.Sleep(5 * time.Millisecond)
	doRelease()
	r := <-closed
	if !r.ok {
		res.Sigs, res.Failures = nil, nil
		res.fail("close:blocked:pubsub-announce-in-flight", fmt.Sprintf("a gossip announcement was being handled by the receiver's watcher (in the allow-peer callback) when Close started; the callback returned, but Close (%d callers) did not return within %v", sc.Closers, watchdog))
	} else {
		e.postClose(r.T, true)
	}
	res.DurMs = float64(time.Since(t0).Microseconds()) / 1000
	return
}

// runAfterClose: nothing but Close, then the entry points.
func runAfterClose(sc Scn) (res Res) {
	res.Sc = sc
	t0 := time.Now()
	e := newEnv(sc, &res, 1, nil)
	defer e.cleanup()
	e.listen(false)
	T, returned := e.closeN(sc.Closers)
	res.Reached = true
	if returned {
		e.postClose(T, true)
		if len(res.Failures) == 0 {
			res.Trace, _ = e.buildTrace(sc.Sem, true)
		}
	}
	res.DurMs = float64(time.Since(t0).Microseconds()) / 1000
	return
}

// runMix: the ops run concurrently with small seeded offsets and perturbed yield points.
func runMix(sc Scn) (res Res) {
	res.Sc = sc
	t0 := time.Now()
	e := newEnv(sc, &res, 2, nil)
	defer e.cleanup()
	rng := vlib.NewRand(sc.Seed).Fork("mix")
	e.listen(false)
	e.listen(true)
	var wg sync.WaitGroup
	var mu sync.Mutex
	var firstClose uint64
	var cancels []context.CancelFunc
	for _, l := range e.ls {
		cancels = append(cancels, l.cancel)
	}
	head := []int{1, 1}
	for i, op := range sc.Ops {
		op := op
		d := time.Duration(rng.Intn(4000)) * time.Microsecond
		pi := rng.Intn(2)
		p := e.pubs[pi]
		if op == "sync" || op == "announce" {
			if head[pi] < 7 {
				head[pi]++
			}
			p.SetHead(head[pi])
		}
		h := head[pi]
		wg.Add(1)
		go func(i int) {
			defer wg.Done()
			time.Sleep(d)
			ok, pn := subdrv.Call(2*watchdog, func() {
				switch op {
				case "close":
					_ = e.w.Sub.Close()
					t := e.sched.Signal("ext:close-returned", -1)
					mu.Lock()
					if firstClose == 0 || t < firstClose {
						firstClose = t
					}
					mu.Unlock()
				case "sync":
					_, _ = e.w.Sub.SyncAdChain(context.Background(), p.Info())
				case "announce":
					_ = e.w.Sub.Announce(context.Background(), p.Chain[h], p.Info())
				case "listen":
					l := &listener{done: make(chan struct{})}
					l.ch, l.cancel = e.w.Sub.OnSyncFinished()
					go l.read()
					mu.Lock()
					e.ls = append(e.ls, l)
					cancels = append(cancels, l.cancel)
					mu.Unlock()
				case "cancel":
					mu.Lock()
					var c context.CancelFunc
					if len(cancels) > 0 {
						c = cancels[len(cancels)-1]
						cancels = cancels[:len(cancels)-1]
					}
					mu.Unlock()
					if c != nil {
						c()
					}
				}
			})
			if pn != nil {
				res.fail("mix:panic:"+op, fmt.Sprintf("%s panicked while racing with Close: %v", op, pn))
			} else if !ok {
				res.fail("mix:blocked:"+op, fmt.Sprintf("%s racing with Close did not return within %v", op, 2*watchdog))
			}
		}(i)
	}
	wg.Wait()
	res.Reached = true
	if firstClose == 0 {
		firstClose, _ = e.closeN(1)
	}
	if firstClose != 0 && len(res.Failures) == 0 {
		e.postClose(firstClose, true)
	}
	res.DurMs = float64(time.Since(t0).Microseconds()) / 1000
	return
}

// runSeq: the ops one after the other, each to completion; outcomes for the Coq acceptors.
func runSeq(sc Scn) (res Res) {
	res.Sc = sc
	t0 := time.Now()
	e := newEnv(sc, &res, 1, nil)
	defer e.cleanup()
	if sc.TTL != "" {
		// a removed idle handler forgets the latest sync: the number of blocks of later syncs
		// is then not the model's; the outcomes are still checked (seq family)
		e.tr.off = true
	}
	p := e.pubs[0]
	head := 1
	var open []*listener
	expClosed := false
	nAdded, nRemoved := 0, 0 // registrations / removals the distributor must be seen to have made
	for _, op := range sc.Ops {
		out := "?"
		switch op {
		case "close":
			ok, _ := subdrv.Call(watchdog, func() {
				k := e.callStart(callSpec{K: "close"})
				_ = e.w.Sub.Close()
				e.callEnd(k, "nil")
			})
			out = pick(ok, "nil", "blocked")
			expClosed = true
		case "sync":
			head++
			p.SetHead(head)
			var err error
			ok, _ := subdrv.Call(watchdog, func() {
				k := e.callStart(callSpec{K: "sync", Fuel: head - e.latest[0]})
				_, err = e.w.Sub.SyncAdChain(context.Background(), p.Info())
				e.callEnd(k, syncResult(err))
			})
			switch {
			case !ok:
				out = "blocked"
			case err == nil:
				out = "ok"
				e.latest[0] = head
			case strings.Contains(err.Error(), "shutdown"):
				out = "shutdown"
			default:
				out = "err"
			}
		case "announce":
			head++
			p.SetHead(head)
			var err error
			n0 := e.sched.Count("event:sent", 0)
			ok, _ := subdrv.Call(watchdog, func() {
				k := e.callStart(callSpec{K: "announce", Fuel: head - e.latest[0]})
				err = e.w.Sub.Announce(context.Background(), p.Chain[head], p.Info())
				e.callEnd(k, annResult(err))
			})
			switch {
			case !ok:
				out = "blocked"
			case err == nil:
				out = "nil"
				if e.noRecv {
					// no receiver: nothing was queued, nothing will be synced
				} else if e.sched.WaitFor("event:sent", 0, n0+1, watchdog) { // let the triggered sync finish
					e.latest[0] = head
				}
			case errors.Is(err, announce.ErrClosed):
				out = "errclosed"
			default:
				out = "err"
			}
		case "listen":
			l := &listener{done: make(chan struct{})}
			ok, _ := subdrv.Call(2*watchdog, func() {
				added := e.sched.Count("dist:added", -1)
				l.key = e.callStart(callSpec{K: "listen"})
				l.ch, l.cancel = e.w.Sub.OnSyncFinished()
				st := e.classifyListen(l.ch, added)
				e.callEnd(l.key, st)
				out = st
			})
			if !ok {
				out = "blocked"
				if expClosed {
					res.fail("after-close:OnSyncFinished:blocked", "OnSyncFinished after Close did not return")
				}
				break
			}
			if out == "openchan" {
				open = append(open, l)
				nAdded++
			}
		case "cancel":
			if len(open) == 0 {
				out = "nil"
				break
			}
			l := open[len(open)-1]
			open = open[:len(open)-1]
			ok, _ := subdrv.Call(watchdog, func() {
				k := e.callStart(callSpec{K: "cancel", LKey: l.key})
				l.cancel()
				e.callEnd(k, "nil")
			})
			out = pick(ok, "nil", "blocked")
			if ok && !expClosed {
				nRemoved++
			}
		}
		res.Outcomes = append(res.Outcomes, out)
		if out == "blocked" {
			break
		}
	}
	res.Reached = true
	res.Sc.Ops = sc.Ops[:len(res.Outcomes)]
	// let the distributor take what has been sent, then convert the log
	// (evidence, not elapsed time: the distributor passes its yield points after the rendez-vous)
	e.sched.WaitFor("dist:forward", -1, e.sched.Count("event:sent", -1), watchdog)
	e.sched.WaitFor("dist:added", -1, nAdded, watchdog)
	e.sched.WaitFor("dist:removed", -1, nRemoved, watchdog)
	if len(res.Failures) == 0 {
		res.Trace, _ = e.buildTrace(sc.Sem, expClosed)
	}
	res.DurMs = float64(time.Since(t0).Microseconds()) / 1000
	return
}

func seqFamily(sc Scn) string {
	if sc.NoRecv {
		return "seqnorecv"
	}
	return "seq"
}

func pick(b bool, t, f string) string {
	if b {
		return t
	}
	return f
}

func run(sc Scn) Res {
	switch sc.Kind {
	case "inject-explicit", "inject-async":
		return runInject(sc)
	case "async-hung":
		return runAsyncHung(sc)
	case "dist-held":
		return runDistHeld(sc)
	case "after-close":
		return runAfterClose(sc)
	case "cleaner":
		return runCleaner(sc)
	case "pubsub-close":
		return runPubsubClose(sc)
	case "backlog-close":
		return runBacklogClose(sc)
	case "topic-close-fails":
		return runTopicCloseFails(sc)
	case "mix":
		return runMix(sc)
	case "seq":
		return runSeq(sc)
	}
	panic("unknown scenario kind " + sc.Kind)
}

// ---- Coq case for sequential histories -------------------------------------------------------

func coqSeq(r Res) string {
	var it []string
	for i, op := range r.Sc.Ops {
		c := map[string]string{"close": "CallClose", "sync": "CallSync", "announce": "CallAnnounce", "listen": "CallListen", "cancel": "CallCancel"}[op]
		o := map[string]string{"nil": "ONil", "ok": "OOk", "shutdown": "OShutdown", "errclosed": "OErrClosed", "openchan": "OOpenChan",
			"closedchan": "OClosedChan", "blocked": "OBlocked", "err": "OOther", "event": "OOther", "?": "OOther"}[r.Outcomes[i]]
		it = append(it, "("+c+", "+o+")")
	}
	return vlib.CoqList(it)
}

// ---- generation --------------------------------------------------------------------------------

func genAll(c *vlib.Ctx) (targeted []Scn, bulk []Scn, variants []Scn) {
	// targeted, each in a process of its own
	targeted = append(targeted, Scn{Kind: "after-close", Seed: c.Seed, Closers: 1})
	targeted = append(targeted, Scn{Kind: "dist-held", Seed: c.Seed})
	targeted = append(targeted, Scn{Kind: "after-close", Seed: c.Seed + 1, Closers: 4})
	targeted = append(targeted, Scn{Kind: "cleaner", Seed: c.Seed})
	targeted = append(targeted, Scn{Kind: "pubsub-close", Seed: c.Seed, Closers: 1})
	targeted = append(targeted, Scn{Kind: "pubsub-close", Seed: c.Seed, Closers: 2})
	targeted = append(targeted, Scn{Kind: "backlog-close", Seed: c.Seed, Closers: 320})
	targeted = append(targeted, Scn{Kind: "topic-close-fails", Seed: c.Seed, Closers: 1})
	targeted = append(targeted, Scn{Kind: "topic-close-fails", Seed: c.Seed, Closers: 2})
	// Close injected at every yield point
	for _, k := range []int{1, 2, 4} {
		for _, pt := range explicitPoints {
			bulk = append(bulk, Scn{Kind: "inject-explicit", Seed: c.Seed + uint64(k), Point: pt, Closers: k})
		}
		for _, sem := range []int{0, 1} {
			for _, pt := range asyncPoints {
				bulk = append(bulk, Scn{Kind: "inject-async", Seed: c.Seed + uint64(k), Point: pt, Closers: k, Sem: sem})
			}
		}
		bulk = append(bulk, Scn{Kind: "async-hung", Seed: c.Seed + uint64(k), Closers: k})
	}
	// the same close scenarios under boundary values of the options the code Close waits for
	// reads: IdleHandlerTTL 0 / negative / tiny (the idle cleaner), no announcement receiver
	// (no watch goroutine, no semaphore; MaxAsyncConcurrency is then ignored), both
	type optv struct {
		ttl    string
		norecv bool
	}
	for vi, v := range []optv{{"zero", false}, {"neg", false}, {"tiny", false}, {"", true}, {"zero", true}} {
		seed := c.Seed + 100 + uint64(vi)
		for _, k := range []int{1, 2} {
			variants = append(variants, Scn{Kind: "after-close", Seed: seed, Closers: k, TTL: v.ttl, NoRecv: v.norecv})
		}
		for _, pt := range explicitPoints {
			bulk = append(bulk, Scn{Kind: "inject-explicit", Seed: seed, Point: pt, Closers: 1 + vi%2, TTL: v.ttl, NoRecv: v.norecv})
		}
		if !v.norecv {
			for _, sem := range []int{0, 1} {
				for _, pt := range asyncPoints {
					bulk = append(bulk, Scn{Kind: "inject-async", Seed: seed, Point: pt, Closers: 1 + vi%2, Sem: sem, TTL: v.ttl})
				}
			}
			bulk = append(bulk, Scn{Kind: "async-hung", Seed: seed, Closers: 1, TTL: v.ttl})
		}
	}
	// random mixes
	rng := c.Rng.Fork("mix")
	orng := c.Rng.Fork("mix-options")
	opsK := []string{"close", "sync", "announce", "listen", "cancel"}
	for i := 0; i < c.Pick(400, 4000); i++ {
		n := 3 + rng.Intn(6)
		sc := Scn{Kind: "mix", Seed: rng.Uint64(), Random: 2 + rng.Intn(4), Sem: rng.Intn(2)}
		for j := 0; j < n; j++ {
			sc.Ops = append(sc.Ops, opsK[rng.Intn(5)])
		}
		sc.Ops[rng.Intn(n)] = "close"
		if orng.Intn(3) == 0 {
			sc.TTL = []string{"zero", "neg", "tiny", ""}[orng.Intn(4)]
			sc.NoRecv = sc.TTL == "" || orng.Intn(4) == 0
		}
		bulk = append(bulk, sc)
	}
	// sequential histories, exhaustive to a length
	maxLen := c.Pick(4, 5)
	var gen func(prefix []string)
	gen = func(prefix []string) {
		if len(prefix) > 0 {
			bulk = append(bulk, Scn{Kind: "seq", Seed: c.Seed, Ops: append([]string{}, prefix...)})
		}
		if len(prefix) == maxLen {
			return
		}
		for _, o := range opsK {
			gen(append(prefix, o))
		}
	}
	gen(nil)
	// the histories up to length 3 again without a receiver and with IdleHandlerTTL(0)
	for _, v := range []optv{{"", true}, {"zero", false}} {
		for _, sc := range bulk {
			if sc.Kind == "seq" && sc.TTL == "" && !sc.NoRecv && len(sc.Ops) <= 3 {
				sc.TTL, sc.NoRecv = v.ttl, v.norecv
				variants = append(variants, sc)
			}
		}
	}
	return
}

func main() {
	logging.SetAllLoggers(logging.LevelFatal)
	if os.Getenv("VERIF_C15_CHILD") != "" {
		childMain()
		return
	}
	c := vlib.Init("C15")
	defer c.Finish()
	c.Family("seq", []string{"From Model Require Import C15_Shutdown."}, "seq_case_ok", 500)
	c.Family("trace", []string{"From Model Require Import C15_Shutdown."}, "trace_case_ok", 120)
	c.Family("seqnorecv", []string{"From Model Require Import C15_Shutdown."}, "seq_case_ok_norecv", 500)
	c.Res.Exhaustive = true
	c.Res.Rule = "Close injected (the sync goroutine is held there until doClose has started) at each of the verif yield points of an explicit sync and of an announce-triggered sync, plus a held publisher block request and an in-flight registration, with 1, 2 and 4 concurrent Close callers, with and without the async semaphore; a publisher that never answers; seeded random mixes of 3..8 concurrent calls (close, sync, announce, listen, cancel) with perturbed yield points; Close with the distributor held; Close ∥ cancel ∥ OnSyncFinished with listeners 320 notifications behind; Close when leaving the gossip topic owned by the receiver fails (the pubsub it started must be stopped); every call under a 2 s watchdog; after Close: entry points, silence (hooks, store writes, yield points), listener channels closed, goroutine dump; all sequential histories over the 5 calls up to length 4/5 (exhaustive) as Coq cases; non-trivial = the injection point was reached / the mix or history contains a call after a Close"

	if c.Replay != "" {
		var sc Scn
		if err := c.LoadReplay(&sc); err != nil {
			panic(err)
		}
		r := run(sc)
		js, _ := json.MarshalIndent(r, "", " ")
		fmt.Println(string(js))
		for i, f := range r.Failures {
			fmt.Println("ORACLE-FAIL:", r.Sigs[i], f)
			c.Fail("replay:"+r.Sigs[i], f, sc)
		}
		if sc.Kind == "seq" {
			c.Case(seqFamily(sc), coqSeq(r), sc)
		}
		if r.Trace != "" {
			c.Case("trace", r.Trace, sc)
		}
		c.Eval()
		return
	}

	targeted, bulk, variants := genAll(c)
	var results []Res
	for _, sc := range targeted {
		results = append(results, runChildren(c, []Scn{sc}, 1)...)
	}
	// the option variants: the after-close scenarios first (10, each the first of its process)
	results = append(results, runChildren(c, variants, 10)...)
	results = append(results, runChildren(c, bulk, 12)...)
	for _, r := range results {
		c.Eval()
		c.Count("scenario:" + r.Sc.Kind)
		if v := r.Sc.variant(); v != "" {
			c.Count("options:" + v)
			c.Count("options:" + v + ":" + r.Sc.Kind)
		}
		if r.Sc.Point != "" {
			c.Count("point:" + r.Sc.Point + pick(r.Reached, "", ":not-reached"))
		}
		nontriv := r.Reached
		if r.Sc.Kind == "seq" || r.Sc.Kind == "mix" {
			nontriv = false
			seen := false
			for _, o := range r.Sc.Ops {
				if seen {
					nontriv = true
				}
				if o == "close" {
					seen = true
				}
			}
		}
		if nontriv {
			js, _ := json.Marshal(r.Sc)
			c.Nontrivial(string(js))
		}
		// the idle-handler TTL does not appear in the model (the cleaner's exit is all Close
		// waits for): the logs of those variants would replay exactly like the default ones, so
		// the quick tier leaves them to the direct oracles
		if r.Trace != "" && (r.Sc.TTL == "" || c.Thorough()) {
			c.Case("trace", r.Trace, r.Sc)
			c.Count("traced:" + r.Sc.Kind)
		}
		if r.Sc.Kind == "seq" {
			c.Case(seqFamily(r.Sc), coqSeq(r), r.Sc)
			for _, o := range r.Outcomes {
				c.Count("outcome:" + o)
			}
		}
		if (r.Sc.Kind == "inject-async" || r.Sc.Kind == "mix") && len(c.Res.Samples) < 4 {
			c.Sample(r)
		}
		for i, f := range r.Failures {
			c.Count("oracle-fail:" + r.Sigs[i])
			sig := r.Sigs[i]
			if r.Sc.Kind == "mix" || r.Sc.Kind == "seq" {
				sig = r.Sc.Kind + ":" + sig
			}
			c.Fail(sig, f, r.Sc)
		}
	}
}

// ---- child processes ---------------------------------------------------------------------------

func runChildren(c *vlib.Ctx, scs []Scn, workers int) []Res {
	exe, err := os.Executable()
	if err != nil {
		panic(err)
	}
	if workers > len(scs) {
		workers = len(scs)
	}
	var wg sync.WaitGroup
	outs := make([][]Res, workers)
	for w := 0; w < workers; w++ {
		w := w
		var mine []Scn
		for i, sc := range scs {
			if i%workers == w {
				mine = append(mine, sc)
			}
		}
		wg.Add(1)
		go func() {
			defer wg.Done()
			remaining := mine
			for round := 0; len(remaining) > 0 && round < 8; round++ {
				in := filepath.Join(c.Out, fmt.Sprintf("child-%d-%d.in.json", os.Getpid(), w))
				out := filepath.Join(c.Out, fmt.Sprintf("child-%d-%d.out.json", os.Getpid(), w))
				js, _ := json.Marshal(remaining)
				if err := os.WriteFile(in, js, 0o644); err != nil {
					panic(err)
				}
				os.Remove(out)
				cmd := exec.Command(exe)
				cmd.Env = append(os.Environ(), "VERIF_C15_CHILD="+in+"|"+out)
				cmd.Stderr = os.Stderr
				err := cmd.Run()
				b, rerr := os.ReadFile(out)
				var rs []Res
				if rerr == nil {
					_ = json.Unmarshal(b, &rs)
				}
				if err != nil && len(rs) < len(remaining) {
					// the child died (a panic in a library goroutine kills the process) in the scenario after its last result
					bad := remaining[len(rs)]
					rs = append(rs, Res{Sc: bad, Failures: []string{fmt.Sprintf("the process running this scenario died: %v", err)}, Sigs: []string{"process-died:" + bad.Kind + ":" + bad.Point}})
				}
				outs[w] = append(outs[w], rs...)
				if len(rs) == 0 {
					break
				}
				remaining = remaining[len(rs):]
				os.Remove(in)
				os.Remove(out)
			}
		}()
	}
	wg.Wait()
	var all []Res
	for _, o := range outs {
		all = append(all, o...)
	}
	return all
}

func childMain() {
	parts := strings.SplitN(os.Getenv("VERIF_C15_CHILD"), "|", 2)
	b, err := os.ReadFile(parts[0])
	if err != nil {
		panic(err)
	}
	var scs []Scn
	if err := json.Unmarshal(b, &scs); err != nil {
		panic(err)
	}
	var rs []Res
	for _, sc := range scs {
		r := run(sc)
		rs = append(rs, r)
		// write after every scenario: if the process dies the parent knows where
		js, _ := json.Marshal(rs)
		_ = os.WriteFile(parts[1], js, 0o644)
		if len(r.Failures) > 0 {
			break // goroutines leaked by a failed scenario would pollute the following dumps: the parent starts a fresh process
		}
	}
}
