// c09: the receiver delivers an announcement iff it is allowed and not recently seen.
//
//	(a) the duplicate filter itself (verif-tagged export): every operation sequence at
//	    capacities 1..3 over cap+2 CIDs up to a length, against a plain-slice reference
//	    and (one representative per renaming of CIDs) against the Coq model;
//	(b) a real Receiver without host: long seeded histories of Direct / Next / UncacheCid
//	    at the built-in capacity 64 and at small capacities, all allow filters, address
//	    lists with filtering on and off;
//	(c) the pubsub path over loopback libp2p hosts: direct publication, republication by
//	    a relay attributed to the origin, the relay's own republication ignored.
package main

import (
	"fmt"
	"sort"
	"strings"
	"time"

	"github.com/ipni/go-libipni/announce"

	"verif/harness/recvdrv"
	"verif/harness/vlib"
)

const reqRecv = "From Model Require Import Announce_Receiver."
const reqPub = "From Model Require Import C09_Pubsub."

// ---------------------------------------------------------------------------
// reference duplicate filter, written from the property text: a plain slice, most
// recently seen first, at most cap entries

type refLRU struct {
	cap  int
	keys []int
}

func (l *refLRU) idx(c int) int {
	for i, k := range l.keys {
		if k == c {
			return i
		}
	}
	return -1
}

// update reports whether c was among the recently seen, and records it as the most recent
func (l *refLRU) update(c int) bool {
	i := l.idx(c)
	if i >= 0 {
		l.keys = append(l.keys[:i], l.keys[i+1:]...)
		l.keys = append([]int{c}, l.keys...)
		return true
	}
	l.keys = append([]int{c}, l.keys...)
	if len(l.keys) > l.cap {
		l.keys = l.keys[:l.cap]
	}
	return false
}

func (l *refLRU) remove(c int) bool {
	i := l.idx(c)
	if i < 0 {
		return false
	}
	l.keys = append(l.keys[:i], l.keys[i+1:]...)
	return true
}

type ctx struct {
	*vlib.Ctx
	fails map[string]int
}

func (c *ctx) failOnce(kind, sig, desc string, replay interface{}) {
	c.fails[kind]++
	if c.fails[kind] <= 2 {
		c.Fail(sig, desc, replay)
	}
}

type replay struct {
	Kind    string            `json:"kind"` // lru | recv | pubsub
	Cap     int               `json:"cap,omitempty"`
	LruOps  []lruOp           `json:"lru_ops,omitempty"`
	History *recvdrv.History  `json:"history,omitempty"`
	Pubsub  map[string]string `json:"pubsub,omitempty"`
	Conc    *concObs          `json:"conc,omitempty"`
	ConcG   *gObs             `json:"concg,omitempty"`
	Events  []event           `json:"events,omitempty"`
}

// ---------------------------------------------------------------------------
// (a) the filter alone

type lruOp struct {
	Remove bool `json:"remove,omitempty"`
	Cid    int  `json:"cid"`
}

func runRealLRU(cap int, ops []lruOp) ([]bool, []int) {
	l := announce.NewVerifLRU(cap)
	res := make([]bool, len(ops))
	for i, o := range ops {
		k := fmt.Sprintf("cid-%d", o.Cid)
		if o.Remove {
			res[i] = l.Remove(k)
		} else {
			res[i] = l.Update(k)
		}
	}
	keys := l.Keys()
	out := make([]int, len(keys))
	for i, k := range keys {
		fmt.Sscanf(k, "cid-%d", &out[i])
	}
	if l.Len() != len(keys) {
		out = append(out, -1)
	}
	return res, out
}

func runRefLRU(cap int, ops []lruOp) ([]bool, []int) {
	l := &refLRU{cap: cap}
	res := make([]bool, len(ops))
	for i, o := range ops {
		if o.Remove {
			res[i] = l.remove(o.Cid)
		} else {
			res[i] = l.update(o.Cid)
		}
	}
	return res, append([]int{}, l.keys...)
}

func lruSig(cap int, ops []lruOp) string {
	p := make([]string, len(ops))
	for i, o := range ops {
		if o.Remove {
			p[i] = fmt.Sprintf("r%d", o.Cid)
		} else {
			p[i] = fmt.Sprintf("u%d", o.Cid)
		}
	}
	return fmt.Sprintf("cap=%d:%s", cap, strings.Join(p, ","))
}

// canonical: CIDs numbered by first occurrence (the filter treats keys as opaque)
func canonical(ops []lruOp) bool {
	next := 0
	for _, o := range ops {
		if o.Cid > next {
			return false
		}
		if o.Cid == next {
			next++
		}
	}
	return true
}

func coqLruCase(cap int, ops []lruOp, res []bool, keys []int) string {
	it := make([]string, len(ops))
	for i, o := range ops {
		if o.Remove {
			it[i] = fmt.Sprintf("LRemove %d", o.Cid)
		} else {
			it[i] = fmt.Sprintf("LUpdate %d", o.Cid)
		}
	}
	ks := make([]string, len(keys))
	for i, k := range keys {
		if k < 0 {
			k = 999999
		}
		ks[i] = fmt.Sprint(k)
	}
	return fmt.Sprintf("(%d%%nat, %s, %s, %s)", cap, vlib.CoqList(it), vlib.CoqListBool(res), vlib.CoqList(ks))
}

func sameBools(a, b []bool) bool {
	if len(a) != len(b) {
		return false
	}
	for i := range a {
		if a[i] != b[i] {
			return false
		}
	}
	return true
}

func sameInts(a, b []int) bool {
	if len(a) != len(b) {
		return false
	}
	for i := range a {
		if a[i] != b[i] {
			return false
		}
	}
	return true
}

func (c *ctx) lruOne(cap int, ops []lruOp, toCoq bool) {
	res, keys := runRealLRU(cap, ops)
	rres, rkeys := runRefLRU(cap, ops)
	c.Eval()
	if !sameBools(res, rres) || !sameInts(keys, rkeys) {
		// shortest failing prefix
		n := len(ops)
		for k := 1; k < len(ops); k++ {
			a, b := runRealLRU(cap, ops[:k])
			x, y := runRefLRU(cap, ops[:k])
			if !sameBools(a, x) || !sameInts(b, y) {
				n = k
				break
			}
		}
		sh := append([]lruOp{}, ops[:n]...)
		if !canonical(sh) {
			return // its renaming to first-occurrence order is enumerated too and reported instead
		}
		a, b := runRealLRU(cap, sh)
		x, y := runRefLRU(cap, sh)
		c.failOnce("lru", "lru:"+lruSig(cap, sh), fmt.Sprintf("duplicate filter of capacity %d after %s: results %v keys %v, a least-recently-used set gives %v %v", cap, lruSig(cap, sh), a, b, x, y),
			replay{Kind: "lru", Cap: cap, LruOps: sh})
	}
	if toCoq {
		c.Case("lru", coqLruCase(cap, ops, res, keys), replay{Kind: "lru", Cap: cap, LruOps: ops})
		evict, hit, rem := false, false, false
		for i, o := range ops {
			if o.Remove && res[i] {
				rem = true
			}
			if !o.Remove && res[i] {
				hit = true
			}
		}
		distinct := map[int]bool{}
		for _, o := range ops {
			if !o.Remove {
				distinct[o.Cid] = true
			}
		}
		evict = len(distinct) > cap
		if evict || (hit && rem) {
			c.Nontrivial("lru:" + lruSig(cap, ops))
		}
	}
}

func (c *ctx) lruCases() {
	c.Family("lru", []string{reqRecv}, "lru_case_ok", 1500)
	maxLen := c.Pick(5, 7)
	total, canon := 0, 0
	// by increasing length, so that the first failing sequence reported is a shortest one
	for n := 1; n <= maxLen; n++ {
		for cap := 1; cap <= 3; cap++ {
			alpha := cap + 2
			nsym := 2 * alpha
			var rec func(ops []lruOp)
			rec = func(ops []lruOp) {
				if len(ops) == n {
					total++
					cn := canonical(ops)
					if cn {
						canon++
					}
					c.lruOne(cap, ops, cn)
					return
				}
				for s := 0; s < nsym; s++ {
					rec(append(ops, lruOp{Remove: s >= alpha, Cid: s % alpha}))
				}
			}
			rec(nil)
		}
	}
	c.CountN("lru:sequences-run-on-the-real-filter", total)
	c.CountN("lru:canonical-sequences-to-coq", canon)
	// a few long random sequences at larger capacities, incl. the built-in one
	r := c.Rng.Fork("lru-long")
	for i := 0; i < c.Pick(30, 300); i++ {
		cap := []int{1, 2, 3, 5, 8, 64}[r.Intn(6)]
		n := 20 + r.Intn(c.Pick(150, 400))
		ops := make([]lruOp, n)
		for j := range ops {
			ops[j] = lruOp{Remove: r.Intn(5) == 0, Cid: r.Intn(cap + 2 + r.Intn(cap+2))}
		}
		c.Count("lru:long-random")
		c.lruOne(cap, ops, true)
	}
}

// ---------------------------------------------------------------------------
// (b) the receiver without a host

// An event is what the environment does to the receiver; build turns events into a
// deterministic op stream: the reference filter predicts whether a Direct delivers; a
// predicted delivery is followed by a Next that must return it, a predicted
// non-delivery by a Next with an already-cancelled context (which must find the slot
// empty) when Poll is set.  No call blocks unless the implementation deviates.
type event struct {
	Kind  string `json:"kind"` // ann | uncache | close
	Cid   int    `json:"cid,omitempty"`
	Peer  int    `json:"peer,omitempty"`
	Addrs []int  `json:"addrs,omitempty"`
	Poll  bool   `json:"poll,omitempty"`
}

func build(cfg recvdrv.Config, evs []event) []recvdrv.Op {
	cap := cfg.Cap
	if cap == 0 {
		cap = 64
	}
	ref := &refLRU{cap: cap}
	var ops []recvdrv.Op
	closed := false
	for _, e := range evs {
		switch e.Kind {
		case "uncache":
			ops = append(ops, recvdrv.Op{Kind: "uncache", Cid: e.Cid})
			ref.remove(e.Cid)
		case "close":
			ops = append(ops, recvdrv.Op{Kind: "close"})
			closed = true
		case "ann":
			ops = append(ops, recvdrv.Op{Kind: "direct", Cid: e.Cid, Peer: e.Peer, Addrs: e.Addrs})
			delivered := false
			if cfg.Allowed(e.Peer) && !closed {
				delivered = !ref.update(e.Cid)
			}
			switch {
			case closed:
				if e.Poll {
					ops = append(ops, recvdrv.Op{Kind: "next"}) // ErrClosed
				}
			case delivered:
				ops = append(ops, recvdrv.Op{Kind: "next"})
			case e.Poll:
				ops = append(ops, recvdrv.Op{Kind: "next", Cancelled: true})
			}
		}
	}
	return ops
}

func genEvents(r *vlib.Rand, cfg recvdrv.Config, n int, nCids int) []event {
	cap := cfg.Cap
	if cap == 0 {
		cap = 64
	}
	var evs []event
	var recent []int
	nextFresh := 1
	pick := func() int {
		switch k := r.Intn(10); {
		case k < 4 && len(recent) > 0: // something seen lately: within or just beyond the filter
			d := r.Intn(min(len(recent), cap+cap/4+3))
			return recent[len(recent)-1-d]
		case k < 6:
			return 1 + r.Intn(nCids)
		default:
			if nextFresh <= nCids {
				nextFresh++
				return nextFresh - 1
			}
			return 1 + r.Intn(nCids)
		}
	}
	closed := false
	for len(evs) < n {
		switch k := r.Intn(100); {
		case k < 8 && len(recent) > 0 && !closed:
			evs = append(evs, event{Kind: "uncache", Cid: pick()})
		case k < 9 && len(evs) > n*3/4 && !closed:
			evs = append(evs, event{Kind: "close"})
			closed = true
		default:
			cid := pick()
			peer := 1 + r.Intn(12)
			var addrs []int
			for j := r.Intn(5); j > 0; j-- {
				addrs = append(addrs, r.Intn(len(recvdrv.AddrTable)))
			}
			evs = append(evs, event{Kind: "ann", Cid: cid, Peer: peer, Addrs: addrs, Poll: r.Intn(3) > 0})
			if cfg.Allowed(peer) && !closed {
				recent = append(recent, cid)
			}
		}
	}
	return evs
}

func evsSig(evs []event) string {
	p := make([]string, len(evs))
	for i, e := range evs {
		switch e.Kind {
		case "ann":
			p[i] = fmt.Sprintf("a%d/%d", e.Cid, e.Peer)
			if len(e.Addrs) > 0 {
				p[i] += fmt.Sprintf("%v", e.Addrs)
			}
		case "uncache":
			p[i] = fmt.Sprintf("u%d", e.Cid)
		default:
			p[i] = e.Kind
		}
	}
	return strings.Join(p, ",")
}

// recvOracle: the property on one observed history, computed with the reference filter.
func recvOracle(cfg recvdrv.Config, ops []recvdrv.Op, obs []recvdrv.Obs) (int, string) {
	cap := cfg.Cap
	if cap == 0 {
		cap = 64
	}
	ref := &refLRU{cap: cap}
	var slot *recvdrv.Obs // what the consumer must get next
	closed := false
	for i, o := range ops {
		if i >= len(obs) {
			return i, "history cut short: a call hung"
		}
		ob := obs[i]
		if strings.HasPrefix(ob.Outcome, "other:") || ob.Outcome == "hung" {
			return i, fmt.Sprintf("%s returned %s", o.Kind, ob.Outcome)
		}
		switch o.Kind {
		case "close":
			closed = true
		case "uncache":
			ref.remove(o.Cid)
		case "direct":
			if !cfg.Allowed(o.Peer) {
				if ob.Outcome != "nil" {
					return i, "Direct from a peer that is not allowed returned " + ob.Outcome
				}
				continue
			}
			if closed {
				if ob.Outcome != "closed" {
					return i, "Direct on a closed receiver returned " + ob.Outcome
				}
				continue
			}
			dup := ref.update(o.Cid)
			if dup {
				if ob.Outcome != "nil" {
					return i, "Direct of a recently seen CID returned " + ob.Outcome
				}
				continue
			}
			if slot != nil {
				return i, "harness: op stream handed in a second announcement before the first was taken"
			}
			if ob.Outcome != "nil" {
				return i, "Direct of a deliverable announcement returned " + ob.Outcome
			}
			want := recvdrv.Obs{Outcome: "ann", Cid: o.Cid, Peer: o.Peer}
			for _, a := range o.Addrs {
				if !cfg.FilterIPs || recvdrv.AddrTable[a].Public {
					want.Addrs = append(want.Addrs, a)
				}
			}
			slot = &want
		case "next":
			switch {
			case slot != nil && !o.Cancelled:
				if ob.Outcome != "ann" {
					return i, fmt.Sprintf("announcement of CID %d by allowed peer %d, not recently seen, was not delivered (Next: %s)", slot.Cid, slot.Peer, ob.Outcome)
				}
				if ob.Cid != slot.Cid || ob.Peer != slot.Peer || !sameInts(ob.Addrs, slot.Addrs) {
					return i, fmt.Sprintf("delivered announcement differs: got cid=%d peer=%d addrs=%v, want cid=%d peer=%d addrs=%v", ob.Cid, ob.Peer, ob.Addrs, slot.Cid, slot.Peer, slot.Addrs)
				}
				slot = nil
			case slot == nil:
				if ob.Outcome == "ann" {
					return i, fmt.Sprintf("Next delivered CID %d by peer %d although nothing deliverable was announced (not allowed, or recently seen)", ob.Cid, ob.Peer)
				}
				if closed && ob.Outcome != "closed" && !(o.Cancelled && ob.Outcome == "ctx") {
					return i, "Next on a closed receiver returned " + ob.Outcome
				}
			}
		}
	}
	return -1, ""
}

func cfgSig(cfg recvdrv.Config) string {
	return fmt.Sprintf("cap=%d,filter_ips=%v,allow_mod=%d", cfg.Cap, cfg.FilterIPs, cfg.AllowMod)
}

func evSig(ops []recvdrv.Op) string {
	p := make([]string, 0, len(ops))
	for _, o := range ops {
		switch o.Kind {
		case "direct":
			p = append(p, fmt.Sprintf("d%d/%d", o.Cid, o.Peer))
		case "uncache":
			p = append(p, fmt.Sprintf("u%d", o.Cid))
		case "next":
			if o.Cancelled {
				p = append(p, "n!")
			} else {
				p = append(p, "n")
			}
		default:
			p = append(p, o.Kind)
		}
	}
	return strings.Join(p, ",")
}

// shrinkEvents: ddmin over the events (the op stream is rebuilt each time) while some
// call still violates the property; then CIDs and peers are renamed to small numbers.
func shrinkEvents(cfg recvdrv.Config, evs []event, wd time.Duration) ([]event, string) {
	bad := func(e []event) string {
		if len(e) == 0 {
			return ""
		}
		ops := build(cfg, e)
		obs := recvdrv.Run(cfg, ops, wd)
		_, msg := recvOracle(cfg, ops[:len(obs)], obs)
		if strings.HasPrefix(msg, "harness:") {
			return ""
		}
		return msg
	}
	msg := bad(evs)
	if msg == "" {
		return evs, ""
	}
	deadline := time.Now().Add(12 * time.Second)
	// cut after the first violating call
	for n := 1; n < len(evs) && time.Now().Before(deadline); n *= 2 {
		if m := bad(evs[:n]); m != "" {
			evs, msg = evs[:n], m
			break
		}
	}
	for chunk := len(evs) / 2; chunk >= 1; chunk /= 2 {
		for i := 0; i+chunk <= len(evs) && time.Now().Before(deadline); {
			cand := append(append([]event{}, evs[:i]...), evs[i+chunk:]...)
			if m := bad(cand); m != "" {
				evs, msg = cand, m
			} else {
				i += chunk
			}
		}
	}
	// drop addresses, rename CIDs by first occurrence
	for i := range evs {
		if len(evs[i].Addrs) > 0 && time.Now().Before(deadline) {
			cand := append([]event{}, evs...)
			cand[i].Addrs = nil
			if m := bad(cand); m != "" {
				evs, msg = cand, m
			}
		}
	}
	ren := map[int]int{}
	cand := append([]event{}, evs...)
	for i := range cand {
		if cand[i].Kind == "close" {
			continue
		}
		if _, ok := ren[cand[i].Cid]; !ok {
			ren[cand[i].Cid] = len(ren) + 1
		}
		cand[i].Cid = ren[cand[i].Cid]
	}
	if m := bad(cand); m != "" {
		evs, msg = cand, m
	}
	return evs, msg
}

func (c *ctx) recvOne(cfg recvdrv.Config, evs []event, wd time.Duration, sample bool) {
	ops := build(cfg, evs)
	obs := recvdrv.RunRobust(cfg, ops, wd)
	ops = ops[:len(obs)]
	c.Eval()
	h := recvdrv.History{Cfg: cfg, Ops: ops, Obs: obs}
	c.Case("recv", recvdrv.CoqHistory(cfg, ops, obs), replay{Kind: "recv", History: &h})
	nd, ndup, nrej, nunc := 0, 0, 0, 0
	for i, o := range ops {
		c.Count("recv-op:" + o.Kind)
		c.Count("recv-outcome:" + strings.SplitN(obs[i].Outcome, ":", 2)[0])
		if obs[i].Outcome == "ann" {
			nd++
		}
		if o.Kind == "uncache" {
			nunc++
		}
		if o.Kind == "direct" && !cfg.Allowed(o.Peer) {
			nrej++
		}
	}
	for _, o := range ops {
		if o.Kind == "direct" && cfg.Allowed(o.Peer) {
			ndup++
		}
	}
	ndup -= nd
	c.CountN("recv:delivered", nd)
	c.CountN("recv:allowed-but-not-delivered(duplicate or closed)", ndup)
	c.CountN("recv:rejected-by-filter", nrej)
	if nd > 0 && (ndup > 0 || nrej > 0 || nunc > 0) {
		c.Nontrivial(cfgSig(cfg) + evSig(ops[:min(len(ops), 40)]))
	}
	if sample {
		c.Sample(map[string]interface{}{"kind": "receiver-history", "cfg": cfg, "ops": len(ops), "delivered": nd, "duplicates": ndup, "rejected": nrej, "uncached": nunc, "first_ops": evSig(ops[:min(len(ops), 12)])})
	}
	if i, msg := recvOracle(cfg, ops, obs); msg != "" {
		if strings.HasPrefix(msg, "harness:") {
			c.Note(msg)
			return
		}
		c.fails["recv"]++
		if c.fails["recv"] <= 2 {
			sevs, smsg := shrinkEvents(cfg, evs, wd)
			sops := build(cfg, sevs)
			if smsg == "" {
				sops, smsg = ops[:i+1], msg
			}
			sobs := recvdrv.Run(cfg, sops, 4*wd)
			sh := recvdrv.History{Cfg: cfg, Ops: sops[:len(sobs)], Obs: sobs}
			c.Fail("recv:"+cfgSig(cfg)+":"+evsSig(sevs), smsg, replay{Kind: "recv", History: &sh})
		}
	}
}

func (c *ctx) recvCases() {
	c.Family("recv", []string{reqRecv}, "fun c => accepts (fst c) (snd c)", 4)
	r := c.Rng.Fork("recv")
	wd := 60 * time.Millisecond
	n := c.Pick(44, 500)
	for i := 0; i < n; i++ {
		cfg := recvdrv.Config{FilterIPs: r.Bool(), AllowMod: []int{0, 0, 1, 2, 2, 3, 5}[r.Intn(7)]}
		nCids := 70 + r.Intn(131)
		length := 150 + r.Intn(251)
		if i%4 == 3 { // small capacities through the verif hook
			cfg.Cap = 1 + r.Intn(6)
			nCids = cfg.Cap + 2 + r.Intn(6)
			length = 40 + r.Intn(120)
		}
		if cfg.AllowMod == 1 {
			length = 30
		}
		c.Count(fmt.Sprintf("recv-cfg:allow_mod=%d", cfg.AllowMod))
		c.Count(fmt.Sprintf("recv-cfg:builtin-capacity=%v", cfg.Cap == 0))
		evs := genEvents(r, cfg, length, nCids)
		c.recvOne(cfg, evs, wd, i < 2)
	}
	// the built-in capacity as the running code reports it
	c.Family("cap", []string{reqPub}, "cap_case_ok", 10)
	rc, err := announce.NewReceiver(nil, "")
	if err != nil {
		panic(err)
	}
	size := rc.VerifCacheSize()
	// a receiver without pubsub has no topic name; asking for it must not panic
	func() {
		defer func() {
			if x := recover(); x != nil {
				// the property says nothing about TopicName: counted, not reported
				c.Count("obs-receiver-topicname-without-topic-panics")
			}
		}()
		_ = rc.TopicName()
	}()
	c.Eval()
	rc.Close()
	c.Case("cap", fmt.Sprint(size), "announceCacheSize")
	c.Eval()
	if size != 64 {
		c.Fail(fmt.Sprintf("cache-size:%d", size), fmt.Sprintf("the duplicate filter holds %d CIDs, the property says 64", size), nil)
	}
}

// ---------------------------------------------------------------------------

func main() {
	c := &ctx{Ctx: vlib.Init("C09"), fails: map[string]int{}}
	defer c.Finish()
	c.Res.Exhaustive = true
	c.Res.Rule = "(a) every sequence of update/remove over capacities 1..3 and cap+2 CIDs up to length 5 (quick) / 7 (thorough) is run on the real duplicate filter against a plain-slice reference; one representative per renaming of CIDs goes to the Coq model (exhaustive), plus long random sequences up to capacity 64; (b) seeded histories of 150..400 calls (Direct, Next, UncacheCid, late Close) over 70..200 CIDs on a real Receiver at the built-in capacity, and shorter ones at capacities 1..6, allow filters all/none/mod 2,3,5, address lists with filtering on/off; the op stream is made deterministic by a reference filter that predicts each delivery; (c) three loopback libp2p hosts: publisher, relay receiver with WithResend, receiver under test; (d) overlapping calls on a real Receiver (two Directs of one CID against a full / an empty slot nobody reads, Direct pending across an UncacheCid), 20 seeded repetitions each, accepted by the model iff one linearisation explains the deliveries. Non-trivial = an LRU sequence with an eviction or a hit and a successful remove; a receiver history with deliveries and at least one duplicate, rejection or un-cache."
	if c.Replay != "" {
		c.runReplay()
		return
	}
	c.lruCases()
	c.recvCases()
	c.addrTableChecks()
	c.mhCases()
	c.resendCases()
	c.concCases()
	c.concGCases()
	c.pubsubCases()
}

func (c *ctx) runReplay() {
	var rp replay
	if err := c.LoadReplay(&rp); err != nil {
		panic(err)
	}
	fmt.Printf("replay kind=%s\n", rp.Kind)
	switch rp.Kind {
	case "lru":
		c.Family("lru", []string{reqRecv}, "lru_case_ok", 10)
		res, keys := runRealLRU(rp.Cap, rp.LruOps)
		x, y := runRefLRU(rp.Cap, rp.LruOps)
		fmt.Printf("  %s\n  real filter: results %v keys %v\n  reference:   results %v keys %v\n", lruSig(rp.Cap, rp.LruOps), res, keys, x, y)
		c.lruOne(rp.Cap, rp.LruOps, true)
	case "recv":
		c.Family("recv", []string{reqRecv}, "fun c => accepts (fst c) (snd c)", 4)
		h := rp.History
		obs := recvdrv.Run(h.Cfg, h.Ops, 300*time.Millisecond)
		ops := h.Ops[:len(obs)]
		for i := range obs {
			fmt.Printf("  %3d %-8s cid=%d peer=%d -> %s cid=%d peer=%d addrs=%v\n", i, ops[i].Kind, ops[i].Cid, ops[i].Peer, obs[i].Outcome, obs[i].Cid, obs[i].Peer, obs[i].Addrs)
		}
		if i, msg := recvOracle(h.Cfg, ops, obs); msg != "" {
			fmt.Printf("ORACLE-FAIL at call %d: %s\n", i, msg)
			hh := recvdrv.History{Cfg: h.Cfg, Ops: ops, Obs: obs}
			c.Fail("recv:"+cfgSig(h.Cfg)+":"+evSig(ops), msg, replay{Kind: "recv", History: &hh})
		}
		c.Case("recv", recvdrv.CoqHistory(h.Cfg, ops, obs), rp)
		c.Eval()
	case "pubsub":
		c.pubsubCases()
	case "conc":
		c.concReplay(rp.Conc)
	case "mh":
		c.mhReplay(rp)
	case "concg":
		c.concGReplay(rp.ConcG)
	case "resend":
		c.resendReplay(rp)
	default:
		panic("unknown replay kind")
	}
}

func min(a, b int) int {
	if a < b {
		return a
	}
	return b
}

var _ = sort.Ints
