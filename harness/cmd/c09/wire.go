package main

import (
	"bytes"
	"context"
	"fmt"
	"strings"
	"time"

	"github.com/ipfs/go-cid"
	"github.com/ipni/go-libipni/announce"
	"github.com/ipni/go-libipni/announce/message"
	"github.com/multiformats/go-multiaddr"
	mh "github.com/multiformats/go-multihash"
	cbg "github.com/whyrusleeping/cbor-gen"

	"verif/harness/recvdrv"
	"verif/harness/vlib"
)

// Raw payloads on the topic (composition of C10's decoder with C09's watcher): junk,
// malformed CBOR, messages whose addresses or OrigPeer do not parse, messages at the caps.
// Each payload is followed by a valid sentinel message that must still be delivered, by
// both receivers (B: allow set, R: relay).

func coqBytesW(b []byte) string {
	// runs of one byte compactly, as in cmd/c10
	var segs []string
	lit := 0
	flush := func(end int) {
		if end > lit {
			segs = append(segs, "unhex "+vlib.Hex(b[lit:end]))
		}
	}
	for i := 0; i < len(b); {
		j := i
		for j < len(b) && b[j] == b[i] {
			j++
		}
		if j-i >= 32 {
			flush(i)
			segs = append(segs, fmt.Sprintf("nrep %d %d", j-i, b[i]))
			lit = j
		}
		i = j
	}
	flush(len(b))
	switch len(segs) {
	case 0:
		return `(unhex "")`
	case 1:
		return "(" + segs[0] + ")"
	}
	return "(bcat [" + strings.Join(segs, "; ") + "])"
}

func coqCidW(c cid.Cid) string {
	dm, err := mh.Decode(c.Hash())
	if err != nil {
		panic(err)
	}
	if c.Version() == 0 {
		return "(CidV0 " + coqBytesW(dm.Digest) + ")"
	}
	return fmt.Sprintf("(CidV1 %d %d %s)", c.Type(), dm.Code, coqBytesW(dm.Digest))
}

type wirePayload struct {
	kind    string
	data    []byte
	coqData string // when the bytes are better written structurally
	deliver bool
	cidNo   int
	peerNo  int // attributed peer when delivered
	addrs   []int
	cids    []cid.Cid // CIDs the tables must know
	peers   map[string]int
	atab    map[string]string // address bytes (hex) -> aparse term
}

func marshal(m message.Message) []byte {
	var buf bytes.Buffer
	if err := m.MarshalCBOR(&buf); err != nil {
		panic(err)
	}
	return buf.Bytes()
}

func aparseOf(b []byte) string {
	a, err := multiaddr.NewMultiaddrBytes(b)
	switch {
	case err == nil:
		id := recvdrv.AddrID(a)
		if id < 0 {
			return "ABad" // not used: payload addresses come from the table
		}
		return fmt.Sprintf("(AOk %d %s)", id, vlib.CoqBool(recvdrv.AddrTable[id].Public))
	case strings.Contains(err.Error(), "no protocol with code"):
		return "ASkip"
	}
	return "ABad"
}

func publicAddrs(r *vlib.Rand, n int) []int {
	var out []int
	for len(out) < n {
		i := r.Intn(len(recvdrv.AddrTable))
		if recvdrv.AddrTable[i].Public {
			out = append(out, i)
		}
	}
	return out
}

func (c *ctx) wireCases(e *psEnv, r *vlib.Rand, round int, ctx context.Context, fresh func() (int, cid.Cid), cids map[string]int) {
	wait := 3 * time.Second
	fail := func(kind, desc string) {
		c.failOnce("wire", "wire:"+kind, desc, replay{Kind: "pubsub", Pubsub: map[string]string{"round": fmt.Sprint(round), "failure": kind}})
	}
	mk := func(kind string) (*wirePayload, cid.Cid) {
		no, x := fresh()
		return &wirePayload{kind: kind, cidNo: no, cids: []cid.Cid{x}, peers: map[string]int{}, atab: map[string]string{}}, x
	}
	withAddrs := func(p *wirePayload, m *message.Message, ids []int) {
		for _, i := range ids {
			b := recvdrv.Addr(i).Bytes()
			m.Addrs = append(m.Addrs, b)
			p.atab[hxW(b)] = aparseOf(b)
		}
	}
	var ps []*wirePayload
	// --- junk and malformed CBOR ---
	for i := 0; i < 2; i++ {
		ps = append(ps, &wirePayload{kind: "random-bytes", data: r.Bytes(1 + r.Intn(40))})
	}
	{
		p, x := mk("truncated")
		m := message.Message{Cid: x}
		withAddrs(p, &m, publicAddrs(r, 2))
		b := marshal(m)
		p.data = b[:len(b)-1-r.Intn(len(b)/2)]
		ps = append(ps, p)
	}
	{
		p, x := mk("wrong-major")
		b := marshal(message.Message{Cid: x})
		i := bytes.LastIndexByte(b, 0x80) // the address array head
		b[i] = 0x40
		p.data = b
		ps = append(ps, p)
	}
	{
		p, x := mk("oversized-count")
		b := marshal(message.Message{Cid: x})
		i := bytes.LastIndexByte(b, 0x80)
		p.data = append(append(append([]byte{}, b[:i]...), cbg.CborEncodeMajorType(4, 1<<32)...), b[i+1:]...)
		ps = append(ps, p)
	}
	{
		p, x := mk("count-one-past-cap")
		b := marshal(message.Message{Cid: x})
		i := bytes.LastIndexByte(b, 0x80)
		d := append(append([]byte{}, b[:i]...), cbg.CborEncodeMajorType(4, cbg.MaxLength+1)...)
		for k := 0; k < cbg.MaxLength+1; k++ {
			d = append(d, 0x40)
		}
		p.data = append(d, b[i+1:]...)
		ps = append(ps, p)
	}
	// --- decodable, but the watcher must drop them ---
	{
		p, x := mk("unparsable-address")
		m := message.Message{Cid: x}
		withAddrs(p, &m, publicAddrs(r, 1))
		bad := []byte{0x04, 1, 2}
		m.Addrs = append(m.Addrs, bad)
		p.atab[hxW(bad)] = aparseOf(bad)
		p.data = marshal(m)
		ps = append(ps, p)
	}
	{
		p, x := mk("origpeer-not-a-peer-id")
		p.data = marshal(message.Message{Cid: x, OrigPeer: "not-a-peer-id"})
		ps = append(ps, p)
	}
	{
		p, x := mk("origpeer-at-cap")
		p.data = marshal(message.Message{Cid: x, OrigPeer: strings.Repeat("a", cbg.MaxLength)})
		ps = append(ps, p)
	}
	// --- decodable and deliverable ---
	{
		p, x := mk("unknown-protocol-address-skipped")
		m := message.Message{Cid: x}
		unk := []byte{0x8f, 0x4e, 1, 2}
		m.Addrs = append(m.Addrs, unk)
		p.atab[hxW(unk)] = aparseOf(unk)
		ids := publicAddrs(r, 1)
		withAddrs(p, &m, ids)
		p.data, p.deliver, p.peerNo, p.addrs = marshal(m), true, idP, ids
		ps = append(ps, p)
	}
	{
		p, x := mk("republication-by-P")
		origin := 3
		txt := recvdrv.Peer(origin).String()
		p.peers[txt] = origin
		m := message.Message{Cid: x, OrigPeer: txt}
		ids := publicAddrs(r, 2)
		withAddrs(p, &m, ids)
		p.data, p.deliver, p.peerNo, p.addrs = marshal(m), true, origin, ids
		ps = append(ps, p)
	}
	{
		p, x := mk("four-fields-empty-origin")
		b := marshal(message.Message{Cid: x})
		b[0] = 0x84
		p.data, p.deliver, p.peerNo = append(b, 0x60), true, idP
		ps = append(ps, p)
	}
	{
		p, x := mk("trailing-bytes")
		p.data, p.deliver, p.peerNo = append(marshal(message.Message{Cid: x}), r.Bytes(5)...), true, idP
		ps = append(ps, p)
	}
	{
		// two CIDs over one multihash (raw, then dag-cbor): both are deliverable
		p, x := mk("same-multihash-base")
		p.data, p.deliver, p.peerNo = marshal(message.Message{Cid: x}), true, idP
		ps = append(ps, p)
		q, _ := mk("same-multihash-other-codec")
		y := cid.NewCidV1(cid.DagCBOR, x.Hash())
		cids[y.String()] = q.cidNo
		q.cids = []cid.Cid{y}
		q.data, q.deliver, q.peerNo = marshal(message.Message{Cid: y}), true, idP
		ps = append(ps, q)
	}
	// --- at the caps ---
	for _, nAddrs := range []int{cbg.MaxLength / 4, cbg.MaxLength} {
		kind := "addresses-at-cap"
		if nAddrs != cbg.MaxLength {
			kind = fmt.Sprintf("addresses-%d", nAddrs)
		}
		p, x := mk(kind)
		m := message.Message{Cid: x}
		id := publicAddrs(r, 1)[0]
		ab := recvdrv.Addr(id).Bytes()
		p.atab[hxW(ab)] = aparseOf(ab)
		for k := 0; k < nAddrs; k++ {
			m.Addrs = append(m.Addrs, ab)
			p.addrs = append(p.addrs, id)
		}
		p.data, p.deliver, p.peerNo = marshal(m), true, idP
		// structural form: head, n x (byte string head + address), tail
		pre := marshal(message.Message{Cid: x})
		i := bytes.LastIndexByte(pre, 0x80)
		blk := append(cbg.CborEncodeMajorType(2, uint64(len(ab))), ab...)
		p.coqData = fmt.Sprintf("(bcat [unhex %s; brep %d (unhex %s); unhex %s])", vlib.Hex(append(append([]byte{}, pre[:i]...), cbg.CborEncodeMajorType(4, uint64(nAddrs))...)), nAddrs, vlib.Hex(blk), vlib.Hex(pre[i+1:]))
		ps = append(ps, p)
	}
	{
		p, x := mk("extra-data-900KiB")
		p.data, p.deliver, p.peerNo = marshal(message.Message{Cid: x, ExtraData: make([]byte, 900<<10)}), true, idP
		ps = append(ps, p)
	}

	lost := 0
	for _, p := range ps {
		if lost >= 2 {
			c.Note("wire cases abandoned: the receivers stopped delivering")
			return
		}
		c.Eval()
		c.Count("wire:" + p.kind)
		if err := e.topicP.Publish(ctx, p.data); err != nil {
			c.Note(fmt.Sprintf("wire payload %s (%d bytes) could not be published: %v", p.kind, len(p.data), err))
			continue
		}
		// a large payload takes longer through pubsub's validation pipeline than the small
		// sentinel behind it: give it a head start proportional to its size
		time.Sleep(40*time.Millisecond + time.Duration(len(p.data)/4096)*time.Millisecond)
		sno, sx := fresh()
		if err := e.sender.Send(ctx, message.Message{Cid: sx, ExtraData: []byte("sentinel")}); err != nil {
			panic(err)
		}
		for _, rc := range []struct {
			name string
			host int
			r    *announce.Receiver
			ok   bool // passes this receiver's allow filter
		}{{"B", idB, e.B, e.allowB == nil || e.allowB[p.peerNo]}, {"R", idR, e.R, true}} {
			var seen string = "None"
			expectDelivery := p.deliver && rc.ok
			a, err := nextAnn(rc.r, wait)
			if err != nil {
				fail(p.kind+":sentinel-lost", fmt.Sprintf("after payload %s receiver %s delivered nothing any more (the valid message behind it was lost): %v", p.kind, rc.name, err))
				lost++
				continue
			}
			gc, gp, ga := e.annOf(a, cids)
			if gc != sno {
				// something was delivered for the payload itself
				seen = "(Some " + coqAnnP(gc, gp, ga) + ")"
				if !expectDelivery {
					fail(p.kind+":delivered", fmt.Sprintf("receiver %s delivered cid=%d peer=%d addrs=%v for payload %s, which must be dropped", rc.name, gc, gp, ga, p.kind))
				} else if gc != p.cidNo || gp != p.peerNo || !sameInts(ga, p.addrs) {
					fail(p.kind+":wrong-fields", fmt.Sprintf("receiver %s delivered cid=%d peer=%d addrs(%d) for payload %s, want cid=%d peer=%d addrs(%d)", rc.name, gc, gp, len(ga), p.kind, p.cidNo, p.peerNo, len(p.addrs)))
				}
				// then the sentinel
				a2, err := nextAnn(rc.r, wait)
				if err != nil {
					fail(p.kind+":sentinel-lost", fmt.Sprintf("receiver %s lost the valid message behind payload %s", rc.name, p.kind))
				} else if g2, _, _ := e.annOf(a2, cids); g2 != sno {
					fail(p.kind+":extra-delivery", fmt.Sprintf("receiver %s delivered cid %d twice or out of order after payload %s", rc.name, g2, p.kind))
				}
			} else if expectDelivery {
				// pubsub validates messages concurrently: a large payload may be overtaken by
				// the sentinel; it must still arrive
				late := false
				if len(p.data) > 16<<10 {
					if a2, err := nextAnn(rc.r, wait); err == nil {
						g2, gp2, ga2 := e.annOf(a2, cids)
						if g2 == p.cidNo && gp2 == p.peerNo && sameInts(ga2, p.addrs) {
							late = true
							seen = "(Some " + coqAnnP(g2, gp2, ga2) + ")"
							c.Count("wire:large-payload-overtaken-by-the-sentinel")
						}
					}
				}
				if !late {
					fail(p.kind+":not-delivered", fmt.Sprintf("receiver %s dropped payload %s (cid %d), which is a valid announcement by an allowed peer", rc.name, p.kind, p.cidNo))
				}
			}
			if p.deliver && !rc.ok {
				continue // rejected by this receiver's allow filter: not a statement about the watcher
			}
			// quick tier: the full-cap address list goes to the oracle only, a quarter-cap one to Coq
			// (the model's `take` recomputes the remaining length, so 8192 addresses cost it ~30 s)
			if !c.Thorough() && (p.kind == "addresses-at-cap" || (p.kind == "extra-data-900KiB" && !(round == 0 && rc.name == "B"))) {
				c.Count("wire:cap-sized-payload-checked-by-the-oracle-only")
				continue
			}
			// Coq case: what the watcher made of the payload
			var ct, pt, at []string
			for _, x := range p.cids {
				ct = append(ct, fmt.Sprintf("(%s, %d)", coqCidW(x), cids[x.String()]))
			}
			for txt, no := range p.peers {
				pt = append(pt, fmt.Sprintf("(%s, %d)", coqBytesW([]byte(txt)), no))
			}
			for hxs, term := range p.atab {
				at = append(at, fmt.Sprintf("(unhex \"%s\", %s)", hxs, term))
			}
			data := p.coqData
			if data == "" {
				data = coqBytesW(p.data)
			}
			if seen == "None" {
				seen = "(@None ann)"
			}
			c.Case("wire", fmt.Sprintf("(%d, %d, %s, (%s : list (cid * N)), (%s : list (bytes * N)), (%s : list (bytes * aparse)), %s)", rc.host, idP, data, vlib.CoqList(ct), vlib.CoqList(pt), vlib.CoqList(at), seen),
				map[string]interface{}{"round": round, "payload": p.kind, "receiver": rc.name, "bytes": len(p.data)})
			c.Nontrivial(fmt.Sprintf("wire:%s:%s:%d", p.kind, rc.name, round))
		}
	}
}

func hxW(b []byte) string { return fmt.Sprintf("%x", b) }
