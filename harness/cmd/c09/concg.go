package main

import (
	"fmt"
	"strings"
	"sync"
	"time"

	"github.com/ipni/go-libipni/announce"
	"github.com/libp2p/go-libp2p/core/peer"

	"verif/harness/recvdrv"
	"verif/harness/vlib"
)

// Scenario g: a random batch of overlapping calls - announcements of two CIDs by several
// peers, UncacheCid, and Close at a random point - against a slot that is empty or already
// full; then everything is drained, and UncacheCid and Direct are called once more.  The
// theorems of Compose_C09_C16 say the calls are linearised by announceMutex: the observation
// must be explained by ONE order of the batch on the sequential model (all permutations are
// offered to the Coq acceptor [lin_case_ok]).

const cZ = 3

type gCall struct {
	Kind string `json:"kind"` // direct | uncache | close
	Cid  int    `json:"cid,omitempty"`
	Peer int    `json:"peer,omitempty"`
}

type gObs struct {
	Jitter  uint64   `json:"jitter_seed"`
	Fill    bool     `json:"slot_full_at_start"`
	Batch   []gCall  `json:"batch"`
	Rets    []string `json:"returns"`
	Deliv   [][2]int `json:"deliveries"`
	PostUn  string   `json:"uncache_afterwards"`
	PostRet string   `json:"direct_afterwards"`
	Phase2  [][2]int `json:"deliveries_afterwards"`
}

func genBatch(r *vlib.Rand) (bool, []gCall) {
	pool := []gCall{{"direct", cY, 1}, {"direct", cY, 2}, {"direct", cZ, 3}, {"uncache", cY, 0}, {"direct", cZ, 4}}
	n := 2 + r.Intn(3)
	var b []gCall
	for len(b) < n {
		c := pool[r.Intn(len(pool))]
		dup := false
		for _, x := range b {
			if x == c {
				dup = true
			}
		}
		if !dup {
			b = append(b, c)
		}
	}
	if r.Intn(5) < 3 {
		i := r.Intn(len(b) + 1)
		b = append(b[:i], append([]gCall{{Kind: "close"}}, b[i:]...)...)
	}
	return r.Intn(2) == 0, b
}

func runConcG(fill bool, batch []gCall, jitterSeed uint64, quiet time.Duration) gObs {
	jr := vlib.NewRand(jitterSeed)
	o := gObs{Jitter: jitterSeed, Fill: fill, Batch: batch}
	r, err := announce.NewReceiver(nil, "")
	if err != nil {
		panic(err)
	}
	defer closeBounded(r)
	if fill {
		if err := r.Direct(bgCtx(), recvdrv.Cid(cX), peer.AddrInfo{ID: recvdrv.Peer(5)}); err != nil {
			panic(err)
		}
	}
	chans := make([]chan string, len(batch))
	for i, c := range batch {
		d := time.Duration(jr.Intn(600)) * time.Microsecond
		switch c.Kind {
		case "direct":
			chans[i] = directAsync(r, c.Cid, c.Peer, d)
		case "uncache":
			ch := make(chan string, 1)
			chans[i] = ch
			go func(c gCall) {
				defer func() {
					if x := recover(); x != nil {
						ch <- "panic"
					}
				}()
				time.Sleep(d)
				r.UncacheCid(recvdrv.Cid(c.Cid))
				ch <- "nil"
			}(c)
		case "close":
			ch := make(chan string, 1)
			chans[i] = ch
			go func() {
				defer func() {
					if x := recover(); x != nil {
						ch <- "panic"
					}
				}()
				time.Sleep(d)
				if err := r.Close(); err != nil {
					ch <- "other"
				} else {
					ch <- "nil"
				}
			}()
		}
	}
	time.Sleep(30 * time.Millisecond)
	o.Deliv = drain(r, quiet)
	for _, ch := range chans {
		o.Rets = append(o.Rets, waitRet(ch, 2*time.Second))
	}
	o.Deliv = append(o.Deliv, drain(r, quiet/2)...)
	// afterwards: un-cache and announce once more
	{
		done := make(chan string, 1)
		go func() {
			defer func() {
				if x := recover(); x != nil {
					done <- fmt.Sprintf("panic: %v", x)
				}
			}()
			r.UncacheCid(recvdrv.Cid(cY))
			done <- "nil"
		}()
		select {
		case o.PostUn = <-done:
		case <-time.After(2 * time.Second):
			o.PostUn = "hung"
		}
	}
	o.PostRet = waitRet(directAsync(r, cY, 4, 0), 2*time.Second)
	o.Phase2 = drain(r, quiet)
	return o
}

func hasClose(b []gCall) bool {
	for _, c := range b {
		if c.Kind == "close" {
			return true
		}
	}
	return false
}

func gOracle(o gObs) string {
	for i, r := range o.Rets {
		if r == "pending" || r == "panic" || r == "other" || r == "ctx" {
			return fmt.Sprintf("call %d of the batch (%s) ended as %q", i, o.Batch[i].Kind, r)
		}
	}
	if o.PostUn != "nil" {
		return "UncacheCid after the batch: " + o.PostUn
	}
	closed := hasClose(o.Batch)
	if closed {
		if o.PostRet != "closed" {
			return fmt.Sprintf("Direct after Close returned %s, want ErrClosed", o.PostRet)
		}
		// what was already in the slot when Close came may still be taken afterwards (Next picks
		// among its ready cases at random); the announcement made after Close must not appear
		if countCid(o.Phase2, cY) != 0 && o.Phase2[len(o.Phase2)-1] == [2]int{cY, 4} {
			return fmt.Sprintf("an announcement made after Close was delivered: %v", o.Phase2)
		}
	} else {
		if o.PostRet != "nil" {
			return "Direct after the batch returned " + o.PostRet
		}
		if countCid(o.Phase2, cY) != 1 { // Y was un-cached just before
			return fmt.Sprintf("after UncacheCid the announcement was delivered %d times", countCid(o.Phase2, cY))
		}
	}
	// every delivery stems from one call, at most once per call, never from a call that got ErrClosed
	seen := map[[2]int]bool{}
	all := append(append([][2]int{}, o.Deliv...), o.Phase2...)
	for _, d := range all {
		if d == [2]int{cY, 4} && !closed {
			continue // the announcement made afterwards
		}
		if seen[d] {
			return fmt.Sprintf("announcement cid %d by peer %d delivered twice", d[0], d[1])
		}
		seen[d] = true
		ok := d == [2]int{cX, 5} && o.Fill
		for i, c := range o.Batch {
			if c.Kind == "direct" && c.Cid == d[0] && c.Peer == d[1] {
				ok = o.Rets[i] == "nil"
			}
		}
		if !ok {
			return fmt.Sprintf("delivery (cid %d, peer %d) without a successful Direct", d[0], d[1])
		}
	}
	// without an un-cache in the batch a CID is delivered at most once
	nu := 0
	for _, c := range o.Batch {
		if c.Kind == "uncache" {
			nu++
		}
	}
	if countCid(o.Deliv, cY) > 1+nu || countCid(o.Deliv, cZ) > 1 {
		return fmt.Sprintf("a CID announced several times was delivered more often than once per un-cache: %v", o.Deliv)
	}
	return ""
}

func perms(n int) [][]int {
	if n == 0 {
		return [][]int{{}}
	}
	var out [][]int
	for _, p := range perms(n - 1) {
		for i := 0; i <= len(p); i++ {
			q := append(append(append([]int{}, p[:i]...), n-1), p[i:]...)
			out = append(out, q)
		}
	}
	return out
}

func gCandidates(o gObs) [][]string {
	cfg := recvdrv.Config{}
	retObs := func(ret string) string {
		switch ret {
		case "nil":
			return "RNil"
		case "closed":
			return "RClosed"
		case "ctx":
			return "RCtx"
		}
		return "RBlocked"
	}
	dOp := func(cidNo, peerNo int, ret string) string {
		return "(" + recvdrv.CoqOp(cfg, recvdrv.Op{Kind: "direct", Cid: cidNo, Peer: peerNo}) + ", " + retObs(ret) + ")"
	}
	nAnn := func(d [2]int) string {
		return "(ONext false, " + recvdrv.CoqObs(recvdrv.Obs{Outcome: "ann", Cid: d[0], Peer: d[1]}) + ")"
	}
	closed := hasClose(o.Batch)
	quietN := "(ONext false, RBlocked)"
	if closed {
		quietN = "(ONext false, RClosed)"
	}
	// a Direct that returned ErrClosed either started after Close, or had passed the filter
	// and was pending on the full slot when Close came (the call is not atomic: its filter step
	// and its outcome are separate steps of the C16 system).  The sequential model expresses
	// the second as "blocked on the slot": both readings are offered.
	var closedDirects []int
	for k, c := range o.Batch {
		if c.Kind == "direct" && o.Rets[k] == "closed" {
			closedDirects = append(closedDirects, k)
		}
	}
	var cands [][]string
	for mask := 0; mask < 1<<len(closedDirects); mask++ {
		pendingVariant := map[int]bool{}
		for i, k := range closedDirects {
			if mask&(1<<i) != 0 {
				pendingVariant[k] = true
			}
		}
		cands = append(cands, gCandidatesFor(o, pendingVariant, dOp, nAnn, quietN)...)
	}
	return cands
}

func gCandidatesFor(o gObs, pendingVariant map[int]bool, dOp func(int, int, string) string, nAnn func([2]int) string, quietN string) [][]string {
	var cands [][]string
	for _, p := range perms(len(o.Batch)) {
		// orders the model rejects anyway are not written out: an announcement that returned
		// nil (or was pending) precedes Close, one that returned ErrClosed follows it
		closeAt, ok := -1, true
		for i, k := range p {
			if o.Batch[k].Kind == "close" {
				closeAt = i
			}
		}
		for i, k := range p {
			if o.Batch[k].Kind != "direct" || closeAt < 0 {
				continue
			}
			before := i < closeAt
			wantBefore := o.Rets[k] != "closed" || pendingVariant[k]
			if before != wantBefore {
				ok = false
			}
		}
		if !ok {
			continue
		}
		var h []string
		rest := o.Deliv
		slotFull := false
		if o.Fill {
			h = append(h, dOp(cX, 5, "nil"))
			slotFull = true
		}
		for _, k := range p {
			c := o.Batch[k]
			switch c.Kind {
			case "direct":
				if slotFull && len(rest) > 0 {
					h = append(h, nAnn(rest[0]))
					rest = rest[1:]
					slotFull = false
				}
				ret := o.Rets[k]
				if pendingVariant[k] {
					ret = "pending"
				}
				h = append(h, dOp(c.Cid, c.Peer, ret))
				if o.Rets[k] == "nil" {
					for _, d := range rest {
						if d == [2]int{c.Cid, c.Peer} {
							slotFull = true
						}
					}
				}
			case "uncache":
				h = append(h, fmt.Sprintf("(OUncache %d, RNil)", c.Cid))
			case "close":
				h = append(h, "(OClose, RNil)")
			}
		}
		for _, d := range rest {
			h = append(h, nAnn(d))
		}
		h = append(h, quietN, fmt.Sprintf("(OUncache %d, RNil)", cY), dOp(cY, 4, o.PostRet))
		for _, d := range o.Phase2 {
			h = append(h, nAnn(d))
		}
		cands = append(cands, append(h, quietN))
	}
	return cands
}

func gSig(o gObs) string {
	p := make([]string, len(o.Batch))
	for i, c := range o.Batch {
		switch c.Kind {
		case "direct":
			p[i] = fmt.Sprintf("d%d/%d", c.Cid, c.Peer)
		case "uncache":
			p[i] = fmt.Sprintf("u%d", c.Cid)
		default:
			p[i] = "close"
		}
	}
	return fmt.Sprintf("full=%v:%s", o.Fill, strings.Join(p, "||"))
}

func (c *ctx) concGCases() {
	c.Family("lin", []string{reqRecv, "From Model Require Import Compose_C09_C16."}, "lin_case_ok", 20)
	r := c.Rng.Fork("conc-g")
	reps := c.Pick(60, 600)
	quiet := 200 * time.Millisecond
	type job struct {
		fill  bool
		batch []gCall
		seed  uint64
	}
	jobs := make([]job, reps)
	for i := range jobs {
		f, b := genBatch(r)
		jobs[i] = job{f, b, r.Uint64()}
	}
	res := make([]gObs, reps)
	var wg sync.WaitGroup
	sem := make(chan struct{}, 24)
	for i, j := range jobs {
		wg.Add(1)
		sem <- struct{}{}
		go func(i int, j job) {
			defer wg.Done()
			defer func() { <-sem }()
			res[i] = runConcG(j.fill, j.batch, j.seed, quiet)
		}(i, j)
	}
	wg.Wait()
	for _, o := range res {
		c.Eval()
		c.Count("conc:scenario-g")
		if hasClose(o.Batch) {
			c.Count("conc:scenario-g-with-close")
		}
		msg := gOracle(o)
		if msg != "" && c.fails["conc-g-confirmed"] < 2 {
			o2 := runConcG(o.Fill, o.Batch, o.Jitter, 4*quiet)
			if m2 := gOracle(o2); m2 != "" {
				o, msg = o2, m2
				c.fails["conc-g-confirmed"]++
			} else {
				c.Count("conc:retried-with-longer-timeouts")
				o, msg = o2, ""
			}
		}
		var hs []string
		for _, h := range gCandidates(o) {
			hs = append(hs, vlib.CoqList(h))
		}
		c.Case("lin", "("+recvdrv.CoqCfg(recvdrv.Config{})+", "+vlib.CoqList(hs)+")", replay{Kind: "concg", ConcG: &o})
		c.Nontrivial("conc-g:" + gSig(o) + fmt.Sprint(o.Rets, o.Deliv))
		if msg != "" {
			kind := "other"
			switch {
			case strings.Contains(msg, "panic"):
				kind = "call-panics"
			case strings.Contains(msg, "UncacheCid after the batch"), strings.Contains(msg, "ended as"):
				kind = "call-does-not-return"
			case strings.Contains(msg, "after Close"):
				kind = "announcement-after-close"
			case strings.Contains(msg, "twice"), strings.Contains(msg, "more often"):
				kind = "delivered-twice"
			case strings.Contains(msg, "after UncacheCid"):
				kind = "uncache-lost"
			}
			c.failOnce("conc-g:"+kind, "conc:g:"+kind, fmt.Sprintf("overlapping calls %s: %s; returns %v, deliveries %v, afterwards %s %v", gSig(o), msg, o.Rets, o.Deliv, o.PostRet, o.Phase2), replay{Kind: "concg", ConcG: &o})
		}
	}
}

func (c *ctx) concGReplay(o *gObs) {
	c.Family("lin", []string{reqRecv, "From Model Require Import Compose_C09_C16."}, "lin_case_ok", 20)
	bad := 0
	var last gObs
	for i := 0; i < 20; i++ {
		x := runConcG(o.Fill, o.Batch, o.Jitter+uint64(i), time.Second)
		msg := gOracle(x)
		fmt.Printf("  run %2d %s: returns %v deliveries %v afterwards %s %v  %s\n", i, gSig(x), x.Rets, x.Deliv, x.PostRet, x.Phase2, msg)
		if msg != "" {
			bad++
			last = x
		}
	}
	if bad > 0 {
		c.Fail("conc:g:"+gSig(last), fmt.Sprintf("%d of 20 runs violate the property: %s", bad, gOracle(last)), replay{Kind: "concg", ConcG: &last})
		var hs []string
		for _, h := range gCandidates(last) {
			hs = append(hs, vlib.CoqList(h))
		}
		c.Case("lin", "("+recvdrv.CoqCfg(recvdrv.Config{})+", "+vlib.CoqList(hs)+")", replay{Kind: "concg", ConcG: &last})
	}
	c.Eval()
}
