package main

import (
	"context"
	"errors"
	"fmt"
	"strings"
	"time"

	"github.com/ipfs/go-cid"
	"github.com/ipni/go-libipni/announce"
	"github.com/libp2p/go-libp2p/core/peer"
	mh "github.com/multiformats/go-multihash"

	"verif/harness/recvdrv"
	"verif/harness/vlib"
)

// CIDs that share a multihash.  The property is about CIDs: CIDv0 and CIDv1 of one
// sha2-256 digest, or dag-pb / raw / dag-cbor / dag-json over the same digest, are
// DIFFERENT CIDs and each is deliverable (and un-cachable) on its own.  recvdrv numbers
// its CIDs by distinct digests, so these histories run on a local driver with their own
// numbering: CID number 8*d + v + 1 = digest d in variant v.

var mhVariants = []struct {
	name  string
	v0    bool
	codec uint64
}{{"v0", true, 0}, {"v1-dag-pb", false, cid.DagProtobuf}, {"v1-raw", false, cid.Raw}, {"v1-dag-cbor", false, cid.DagCBOR}, {"v1-dag-json", false, cid.DagJSON}}

func mhCid(n int) cid.Cid {
	d, v := (n-1)/8, (n-1)%8
	h, err := mh.Sum([]byte(fmt.Sprintf("verif-mh-digest-%d", d)), mh.SHA2_256, -1)
	if err != nil {
		panic(err)
	}
	vr := mhVariants[v%len(mhVariants)]
	if vr.v0 {
		return cid.NewCidV0(h)
	}
	return cid.NewCidV1(vr.codec, h)
}

// runLocal executes a sequential history on a fresh Receiver (no host) with the given CID
// numbering; same observation rules as recvdrv.Run.
func runLocal(cfg recvdrv.Config, ops []recvdrv.Op, wd time.Duration, cidOf func(int) cid.Cid) []recvdrv.Obs {
	return runLocalWith(cfg, ops, wd, cidOf, func(opts ...announce.Option) *announce.Receiver {
		r, err := announce.NewReceiver(nil, "", opts...)
		if err != nil {
			panic(err)
		}
		return r
	})
}

// runLocalWith: the same on a receiver built by mk (e.g. with a host, a topic and WithResend)
func runLocalWith(cfg recvdrv.Config, ops []recvdrv.Op, wd time.Duration, cidOf func(int) cid.Cid, mk func(...announce.Option) *announce.Receiver) []recvdrv.Obs {
	opts := []announce.Option{announce.WithFilterIPs(cfg.FilterIPs)}
	peers := map[peer.ID]int{}
	cids := map[string]int{}
	for _, o := range ops {
		peers[recvdrv.Peer(o.Peer)] = o.Peer
		if o.Kind == "direct" || o.Kind == "uncache" {
			cids[cidOf(o.Cid).String()] = o.Cid
		}
	}
	if cfg.AllowMod != 0 {
		opts = append(opts, announce.WithAllowPeer(func(p peer.ID) bool {
			i, ok := peers[p]
			return ok && cfg.Allowed(i)
		}))
	}
	r := mk(opts...)
	defer closeBounded(r)
	if cfg.Cap > 0 {
		r.VerifSetCacheSize(cfg.Cap)
	}
	errObs := func(err error) recvdrv.Obs {
		switch {
		case err == nil:
			return recvdrv.Obs{Outcome: "nil"}
		case errors.Is(err, announce.ErrClosed):
			return recvdrv.Obs{Outcome: "closed"}
		case errors.Is(err, context.Canceled), errors.Is(err, context.DeadlineExceeded):
			return recvdrv.Obs{Outcome: "ctx"}
		}
		return recvdrv.Obs{Outcome: "other:" + err.Error()}
	}
	var obs []recvdrv.Obs
	for _, o := range ops {
		ctx, cancel := context.WithCancel(context.Background())
		if o.Cancelled {
			cancel()
		}
		resc := make(chan recvdrv.Obs, 1)
		go func(o recvdrv.Op) {
			switch o.Kind {
			case "close":
				resc <- errObs(r.Close())
			case "uncache":
				r.UncacheCid(cidOf(o.Cid))
				resc <- recvdrv.Obs{Outcome: "nil"}
			case "direct":
				ai := peer.AddrInfo{ID: recvdrv.Peer(o.Peer)}
				for _, a := range o.Addrs {
					ai.Addrs = append(ai.Addrs, recvdrv.Addr(a))
				}
				resc <- errObs(r.Direct(ctx, cidOf(o.Cid), ai))
			case "next":
				a, err := r.Next(ctx)
				if err != nil {
					resc <- errObs(err)
					return
				}
				ob := recvdrv.Obs{Outcome: "ann", Cid: -1, Peer: -1}
				if i, ok := cids[a.Cid.String()]; ok {
					ob.Cid = i
				}
				if i, ok := peers[a.PeerID]; ok {
					ob.Peer = i
				}
				for _, ma := range a.Addrs {
					ob.Addrs = append(ob.Addrs, recvdrv.AddrID(ma))
				}
				resc <- ob
			}
		}(o)
		var ob recvdrv.Obs
		select {
		case ob = <-resc:
		case <-time.After(wd):
			cancel()
			select {
			case ob = <-resc:
				if ob.Outcome == "ctx" {
					ob = recvdrv.Obs{Outcome: "blocked"}
				}
			case <-time.After(20 * wd):
				ob = recvdrv.Obs{Outcome: "hung"}
			}
		}
		cancel()
		obs = append(obs, ob)
		if ob.Outcome == "hung" {
			break
		}
	}
	return obs
}

// genMhEvents: announcements and un-cache calls over few digests in all their variants
func genMhEvents(r *vlib.Rand, cfg recvdrv.Config, n, digests int) []event {
	var evs []event
	for len(evs) < n {
		c := 8*r.Intn(digests) + r.Intn(len(mhVariants)) + 1
		if r.Intn(8) == 0 {
			evs = append(evs, event{Kind: "uncache", Cid: c})
			continue
		}
		evs = append(evs, event{Kind: "ann", Cid: c, Peer: 1 + r.Intn(12), Poll: r.Intn(3) > 0})
	}
	return evs
}

func mhSig(evs []event) string {
	p := make([]string, len(evs))
	for i, e := range evs {
		name := fmt.Sprintf("d%d/%s", (e.Cid-1)/8, mhVariants[(e.Cid-1)%8%len(mhVariants)].name)
		switch e.Kind {
		case "ann":
			p[i] = fmt.Sprintf("a(%s)by%d", name, e.Peer)
		case "uncache":
			p[i] = fmt.Sprintf("u(%s)", name)
		default:
			p[i] = e.Kind
		}
	}
	return strings.Join(p, ",")
}

func (c *ctx) mhCases() {
	r := c.Rng.Fork("same-multihash")
	wd := 60 * time.Millisecond
	bad := func(cfg recvdrv.Config, evs []event) string {
		if len(evs) == 0 {
			return ""
		}
		ops := build(cfg, evs)
		obs := runLocal(cfg, ops, wd, mhCid)
		_, msg := recvOracle(cfg, ops[:len(obs)], obs)
		if strings.HasPrefix(msg, "harness:") {
			return ""
		}
		return msg
	}
	// the five variants of one digest really are five CIDs with one multihash
	seen := map[string]bool{}
	for v := range mhVariants {
		x := mhCid(v + 1)
		seen[x.String()] = true
		if string(x.Hash()) != string(mhCid(1).Hash()) {
			panic("harness: variants do not share the multihash")
		}
	}
	if len(seen) != len(mhVariants) {
		panic("harness: variants are not distinct CIDs")
	}
	n := c.Pick(24, 300)
	for i := 0; i < n; i++ {
		cfg := recvdrv.Config{FilterIPs: false, AllowMod: []int{0, 0, 2, 3}[r.Intn(4)]}
		if i%3 == 2 {
			cfg.Cap = 2 + r.Intn(5)
		}
		evs := genMhEvents(r, cfg, 30+r.Intn(90), 1+r.Intn(4))
		ops := build(cfg, evs)
		obs := runLocal(cfg, ops, wd, mhCid)
		ops = ops[:len(obs)]
		c.Eval()
		c.Count("recv:same-multihash-history")
		h := recvdrv.History{Cfg: cfg, Ops: ops, Obs: obs}
		c.Case("recv", recvdrv.CoqHistory(cfg, ops, obs), replay{Kind: "mh", History: &h, Events: evs})
		c.Nontrivial("mh:" + cfgSig(cfg) + mhSig(evs[:min(len(evs), 20)]))
		if _, msg := recvOracle(cfg, ops, obs); msg != "" && !strings.HasPrefix(msg, "harness:") {
			c.fails["mh"]++
			if c.fails["mh"] > 2 {
				continue
			}
			// shrink over events
			deadline := time.Now().Add(10 * time.Second)
			for chunk := len(evs) / 2; chunk >= 1; chunk /= 2 {
				for k := 0; k+chunk <= len(evs) && time.Now().Before(deadline); {
					cand := append(append([]event{}, evs[:k]...), evs[k+chunk:]...)
					if m := bad(cfg, cand); m != "" {
						evs, msg = cand, m
					} else {
						k += chunk
					}
				}
			}
			sops := build(cfg, evs)
			sobs := runLocal(cfg, sops, 4*wd, mhCid)
			sh := recvdrv.History{Cfg: cfg, Ops: sops[:len(sobs)], Obs: sobs}
			c.Fail("recv-same-multihash:"+cfgSig(cfg)+":"+mhSig(evs), msg+" (CIDs: "+mhSig(evs)+")", replay{Kind: "mh", History: &sh, Events: evs})
		}
	}
}

func (c *ctx) mhReplay(rp replay) {
	c.Family("recv", []string{reqRecv}, "fun c => accepts (fst c) (snd c)", 4)
	cfg := rp.History.Cfg
	ops := build(cfg, rp.Events)
	obs := runLocal(cfg, ops, 300*time.Millisecond, mhCid)
	ops = ops[:len(obs)]
	for i := range obs {
		fmt.Printf("  %3d %-8s %s peer=%d -> %s cid=%d peer=%d\n", i, ops[i].Kind, mhCid(max1(ops[i].Cid)).String(), ops[i].Peer, obs[i].Outcome, obs[i].Cid, obs[i].Peer)
	}
	if i, msg := recvOracle(cfg, ops, obs); msg != "" {
		fmt.Printf("ORACLE-FAIL at call %d: %s\n", i, msg)
		h := recvdrv.History{Cfg: cfg, Ops: ops, Obs: obs}
		c.Fail("recv-same-multihash:"+cfgSig(cfg)+":"+mhSig(rp.Events), msg, replay{Kind: "mh", History: &h, Events: rp.Events})
	}
	c.Case("recv", recvdrv.CoqHistory(cfg, ops, obs), rp)
	c.Eval()
}

func max1(n int) int {
	if n < 1 {
		return 1
	}
	return n
}
