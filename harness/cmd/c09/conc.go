package main

import (
	"context"
	"fmt"
	"strings"
	"sync"
	"time"

	"github.com/ipni/go-libipni/announce"
	"github.com/libp2p/go-libp2p/core/peer"

	"verif/harness/recvdrv"
	"verif/harness/vlib"
)

// Overlapping calls on a real Receiver (no host).  The property quantifies over
// announcements, not over how their handling interleaves: a CID that is announced twice
// without an un-cache in between is delivered once, also when the two announcements
// overlap because the consumer is not draining Next; and an un-cache makes the NEXT
// announcement deliverable, also when it overlaps a pending delivery.
//
//	a: slot full (X not consumed); Direct(Y,p1) || Direct(Y,p2); drain         -> X, Y once
//	b: slot empty, nobody reading; Direct(Y,p1) || Direct(Y,p2); drain         -> Y once
//	d: slot full; Direct(Y) pending; UncacheCid(Y); drain; Direct(Y); Direct(Y) -> X, Y, Y
//
// Each observation is also given to the Coq model as the set of sequential histories it
// could be a linearisation of (both orders of the overlapping calls, the consumer
// draining in between); the model must accept one of them.

const (
	cX = 1
	cY = 2
)

type concObs struct {
	Scenario string         `json:"scenario"`
	Jitter   uint64         `json:"jitter_seed"`
	Rets     []string       `json:"returns"`    // of the overlapping / later Direct calls, in call order
	Deliv    [][2]int       `json:"deliveries"` // (cid, peer) in the order Next returned them
	Phase2   [][2]int       `json:"deliveries_after_uncache,omitempty"`
	Detail   map[string]int `json:"detail,omitempty"`
}

func directAsync(r *announce.Receiver, cidNo, peerNo int, delay time.Duration) chan string {
	ch := make(chan string, 1)
	go func() {
		time.Sleep(delay)
		ctx, cancel := context.WithTimeout(context.Background(), 4*time.Second)
		defer cancel()
		err := r.Direct(ctx, recvdrv.Cid(cidNo), peer.AddrInfo{ID: recvdrv.Peer(peerNo)})
		switch {
		case err == nil:
			ch <- "nil"
		case err == announce.ErrClosed:
			ch <- "closed"
		default:
			ch <- "ctx"
		}
	}()
	return ch
}

// drain reads announcements until Next stays silent for `quiet`.
func drain(r *announce.Receiver, quiet time.Duration) [][2]int {
	var out [][2]int
	for {
		ctx, cancel := context.WithTimeout(context.Background(), quiet)
		a, err := r.Next(ctx)
		cancel()
		if err != nil {
			return out
		}
		c, p := -1, -1
		for i := 1; i <= 3; i++ {
			if a.Cid == recvdrv.Cid(i) {
				c = i
			}
		}
		for i := 0; i <= 5; i++ {
			if a.PeerID == recvdrv.Peer(i) {
				p = i
			}
		}
		out = append(out, [2]int{c, p})
	}
}

func waitRet(ch chan string, d time.Duration) string {
	select {
	case s := <-ch:
		return s
	case <-time.After(d):
		return "pending"
	}
}

func runConc(scenario string, jitterSeed uint64, quiet time.Duration) concObs {
	jr := vlib.NewRand(jitterSeed)
	jit := func() time.Duration { return time.Duration(jr.Intn(400)) * time.Microsecond }
	r, err := announce.NewReceiver(nil, "")
	if err != nil {
		panic(err)
	}
	defer closeBounded(r)
	o := concObs{Scenario: scenario, Jitter: jitterSeed}
	bg := context.Background()
	switch scenario {
	case "a", "b":
		if scenario == "a" {
			if err := r.Direct(bg, recvdrv.Cid(cX), peer.AddrInfo{ID: recvdrv.Peer(0 + 5)}); err != nil {
				panic(err)
			}
		}
		d1, d2 := jit(), jit()
		ch1 := directAsync(r, cY, 1, d1)
		ch2 := directAsync(r, cY, 2, d2)
		time.Sleep(30*time.Millisecond + d1 + d2) // both have reached their outcome or their blocking point
		o.Deliv = drain(r, quiet)
		o.Rets = []string{waitRet(ch1, time.Second), waitRet(ch2, time.Second)}
		o.Deliv = append(o.Deliv, drain(r, quiet/2)...)
	case "d":
		if err := r.Direct(bg, recvdrv.Cid(cX), peer.AddrInfo{ID: recvdrv.Peer(5)}); err != nil {
			panic(err)
		}
		ch1 := directAsync(r, cY, 1, jit())
		time.Sleep(20*time.Millisecond + jit()) // Direct(Y) is pending on the full slot
		r.UncacheCid(recvdrv.Cid(cY))
		time.Sleep(jit())
		o.Deliv = drain(r, quiet)
		o.Rets = append(o.Rets, waitRet(ch1, time.Second))
		// Y was un-cached after its announcement: the next one is deliverable, the one after is not
		ch2 := directAsync(r, cY, 2, 0)
		o.Rets = append(o.Rets, waitRet(ch2, time.Second))
		o.Phase2 = drain(r, quiet)
		ch3 := directAsync(r, cY, 3, 0)
		o.Rets = append(o.Rets, waitRet(ch3, time.Second))
		o.Phase2 = append(o.Phase2, drain(r, quiet)...)
	case "e":
		// a Direct abandoned by its context while the slot is full: the call returns the
		// context error, nothing is delivered for it, and (the code records a CID when it
		// passes the filter, not when it is delivered) a later announcement of it is a duplicate
		if err := r.Direct(bg, recvdrv.Cid(cX), peer.AddrInfo{ID: recvdrv.Peer(5)}); err != nil {
			panic(err)
		}
		ctx, cancel := context.WithTimeout(bg, 25*time.Millisecond+jit())
		err := r.Direct(ctx, recvdrv.Cid(cY), peer.AddrInfo{ID: recvdrv.Peer(1)})
		cancel()
		o.Rets = append(o.Rets, retOf(err))
		o.Deliv = drain(r, quiet)
		ch2 := directAsync(r, cY, 2, 0)
		o.Rets = append(o.Rets, waitRet(ch2, time.Second))
		o.Phase2 = drain(r, quiet)
	case "f":
		// a Direct pending on the full slot when the receiver is closed: it returns ErrClosed
		if err := r.Direct(bg, recvdrv.Cid(cX), peer.AddrInfo{ID: recvdrv.Peer(5)}); err != nil {
			panic(err)
		}
		ch1 := directAsync(r, cY, 1, jit())
		time.Sleep(20*time.Millisecond + jit())
		cerr := make(chan error, 1)
		go func() { cerr <- r.Close() }()
		select {
		case <-cerr:
			o.Rets = append(o.Rets, waitRet(ch1, time.Second))
		case <-time.After(2 * time.Second):
			o.Rets = append(o.Rets, "close-hung")
		}
		o.Deliv = drain(r, 50*time.Millisecond)
	default:
		panic("scenario " + scenario)
	}
	return o
}

func retOf(err error) string {
	switch {
	case err == nil:
		return "nil"
	case err == announce.ErrClosed:
		return "closed"
	}
	return "ctx"
}

func countCid(d [][2]int, c int) int {
	n := 0
	for _, x := range d {
		if x[0] == c {
			n++
		}
	}
	return n
}

// concOracle: the property on one observation
func concOracle(o concObs) string {
	switch o.Scenario {
	case "e":
		if len(o.Rets) != 2 || o.Rets[0] != "ctx" || o.Rets[1] != "nil" {
			return fmt.Sprintf("Direct abandoned by its context on a full slot, then announced again: returns %v, want [ctx nil]", o.Rets)
		}
		if countCid(o.Deliv, cX) != 1 || len(o.Deliv) != 1 {
			return fmt.Sprintf("an abandoned Direct must deliver nothing: deliveries %v", o.Deliv)
		}
		if countCid(o.Phase2, cY) > 1 {
			return fmt.Sprintf("deliveries %v", o.Phase2)
		}
		return ""
	case "f":
		if len(o.Rets) != 1 || o.Rets[0] != "closed" {
			return fmt.Sprintf("Direct pending on a full slot when the receiver is closed returned %v, want ErrClosed", o.Rets)
		}
		if countCid(o.Deliv, cY) != 0 {
			return "an announcement was delivered after Close"
		}
		return ""
	}
	for _, r := range o.Rets {
		if r != "nil" {
			return fmt.Sprintf("a Direct call returned %s (still pending after the consumer drained the receiver, or failed)", r)
		}
	}
	switch o.Scenario {
	case "a", "b":
		if n := countCid(o.Deliv, cY); n != 1 {
			return fmt.Sprintf("CID announced twice without an un-cache in between was delivered %d times", n)
		}
		wantX := 0
		if o.Scenario == "a" {
			wantX = 1
		}
		if countCid(o.Deliv, cX) != wantX || len(o.Deliv) != wantX+1 {
			return fmt.Sprintf("deliveries %v", o.Deliv)
		}
	case "d":
		if n := countCid(o.Deliv, cY); n != 1 || countCid(o.Deliv, cX) != 1 {
			return fmt.Sprintf("before the re-announcement: deliveries %v, want X and Y once each", o.Deliv)
		}
		if n := countCid(o.Phase2, cY); n != 1 {
			return fmt.Sprintf("after UncacheCid the CID was announced twice more and delivered %d times, want exactly once (un-cache makes the next announcement deliverable, the one after is a duplicate)", n)
		}
	}
	return ""
}

// candidates: the sequential histories the observation may be a linearisation of
func concCandidates(o concObs) [][]string {
	cfg := recvdrv.Config{}
	dOp := func(cidNo, peerNo int, ret string) string {
		ob := recvdrv.Obs{Outcome: ret}
		if ret == "pending" {
			ob.Outcome = "blocked"
		}
		return "(" + recvdrv.CoqOp(cfg, recvdrv.Op{Kind: "direct", Cid: cidNo, Peer: peerNo}) + ", " + recvdrv.CoqObs(ob) + ")"
	}
	nAnn := func(d [2]int) string {
		return "(ONext false, " + recvdrv.CoqObs(recvdrv.Obs{Outcome: "ann", Cid: d[0], Peer: d[1]}) + ")"
	}
	quietN := "(ONext false, RBlocked)"
	var cands [][]string
	switch o.Scenario {
	case "a", "b":
		for _, perm := range [][2]int{{0, 1}, {1, 0}} {
			var h []string
			rest := o.Deliv
			if o.Scenario == "a" {
				h = append(h, dOp(cX, 5, "nil"))
				if len(rest) > 0 {
					h = append(h, nAnn(rest[0]))
					rest = rest[1:]
				}
			}
			for _, k := range perm {
				h = append(h, dOp(cY, k+1, o.Rets[k]))
			}
			for _, d := range rest {
				h = append(h, nAnn(d))
			}
			cands = append(cands, append(h, quietN))
		}
	case "e":
		h := []string{dOp(cX, 5, "nil"), dOp(cY, 1, "pending")}
		for _, d := range o.Deliv {
			h = append(h, nAnn(d))
		}
		h = append(h, quietN, dOp(cY, 2, o.Rets[1]))
		for _, d := range o.Phase2 {
			h = append(h, nAnn(d))
		}
		cands = append(cands, append(h, quietN))
	case "f":
		h := []string{dOp(cX, 5, "nil"), "(OClose, RNil)", dOp(cY, 1, o.Rets[0])}
		for _, d := range o.Deliv {
			h = append(h, nAnn(d))
		}
		cands = append(cands, append(h, "(ONext false, RClosed)"))
	case "d":
		for _, uFirst := range []bool{true, false} {
			h := []string{dOp(cX, 5, "nil")}
			rest := o.Deliv
			if len(rest) > 0 {
				h = append(h, nAnn(rest[0]))
				rest = rest[1:]
			}
			h = append(h, dOp(cY, 1, o.Rets[0]))
			u := fmt.Sprintf("(OUncache %d, RNil)", cY)
			if uFirst {
				h = append(h, u)
			}
			for _, d := range rest {
				h = append(h, nAnn(d))
			}
			if !uFirst {
				h = append(h, u)
			}
			h = append(h, quietN, dOp(cY, 2, o.Rets[1]))
			p2 := o.Phase2
			// the delivery of the second announcement, if any, comes before the third call
			if len(p2) > 0 {
				h = append(h, nAnn(p2[0]))
				p2 = p2[1:]
			} else {
				h = append(h, quietN)
			}
			h = append(h, dOp(cY, 3, o.Rets[2]))
			for _, d := range p2 {
				h = append(h, nAnn(d))
			}
			cands = append(cands, append(h, quietN))
		}
	}
	return cands
}

func (c *ctx) concCases() {
	c.Family("conc", []string{reqRecv}, "fun c => existsb (accepts (fst c)) (snd c)", 60)
	r := c.Rng.Fork("conc")
	reps := c.Pick(20, 200)
	quiet := 250 * time.Millisecond
	type job struct {
		sc   string
		seed uint64
	}
	var jobs []job
	for _, sc := range []string{"a", "b", "d", "e", "f"} {
		for i := 0; i < reps; i++ {
			jobs = append(jobs, job{sc, r.Uint64()})
		}
	}
	res := make([]concObs, len(jobs))
	var wg sync.WaitGroup
	sem := make(chan struct{}, 24)
	for i, j := range jobs {
		wg.Add(1)
		sem <- struct{}{}
		go func(i int, j job) {
			defer wg.Done()
			defer func() { <-sem }()
			res[i] = runConc(j.sc, j.seed, quiet)
		}(i, j)
	}
	wg.Wait()
	for _, o := range res {
		c.Eval()
		c.Count("conc:scenario-" + o.Scenario)
		msg := concOracle(o)
		if msg != "" && c.fails["conc-confirmed:"+o.Scenario] < 2 {
			// once more with a longer quiet period: a slow machine must not look like a lost delivery
			o2 := runConc(o.Scenario, o.Jitter, 4*quiet)
			if m2 := concOracle(o2); m2 != "" {
				o, msg = o2, m2
				c.fails["conc-confirmed:"+o.Scenario]++
			} else {
				c.Count("conc:retried-with-longer-timeouts")
				o, msg = o2, ""
			}
		}
		var hs []string
		for _, h := range concCandidates(o) {
			hs = append(hs, vlib.CoqList(h))
		}
		c.Case("conc", "("+recvdrv.CoqCfg(recvdrv.Config{})+", "+vlib.CoqList(hs)+")", replay{Kind: "conc", Conc: &o})
		c.Nontrivial(fmt.Sprintf("conc:%s:%v:%v", o.Scenario, o.Rets, o.Deliv))
		if msg != "" {
			kind := "delivered-twice"
			if o.Scenario == "d" && countCid(o.Phase2, cY) == 0 {
				kind = "uncache-lost"
			} else if strings.Contains(msg, "Direct call returned") {
				kind = "direct-stuck"
			}
			c.failOnce("conc:"+o.Scenario, fmt.Sprintf("conc:%s:%s", o.Scenario, kind),
				fmt.Sprintf("scenario %s: %s; Direct returns %v, deliveries %v then %v", o.Scenario, msg, o.Rets, o.Deliv, o.Phase2), replay{Kind: "conc", Conc: &o})
		}
	}
}

func (c *ctx) concReplay(o *concObs) {
	c.Family("conc", []string{reqRecv}, "fun c => existsb (accepts (fst c)) (snd c)", 60)
	bad := 0
	var last concObs
	for i := 0; i < 20; i++ {
		x := runConc(o.Scenario, o.Jitter+uint64(i), time.Second)
		msg := concOracle(x)
		fmt.Printf("  run %2d scenario %s: returns %v deliveries %v %v  %s\n", i, x.Scenario, x.Rets, x.Deliv, x.Phase2, msg)
		if msg != "" {
			bad++
			last = x
		}
	}
	if bad > 0 {
		c.Fail(fmt.Sprintf("conc:%s:replay", o.Scenario), fmt.Sprintf("%d of 20 runs violate the property: %s", bad, concOracle(last)), replay{Kind: "conc", Conc: &last})
		var hs []string
		for _, h := range concCandidates(last) {
			hs = append(hs, vlib.CoqList(h))
		}
		c.Case("conc", "("+recvdrv.CoqCfg(recvdrv.Config{})+", "+vlib.CoqList(hs)+")", replay{Kind: "conc", Conc: &last})
	}
	c.Eval()
}

func bgCtx() context.Context { return context.Background() }

// closeBounded closes a receiver without ever blocking the harness: a receiver whose mutex
// was left locked (a panic inside a critical section) is abandoned.
func closeBounded(r *announce.Receiver) {
	done := make(chan struct{})
	go func() {
		defer func() { _ = recover() }()
		r.Close()
		close(done)
	}()
	select {
	case <-done:
	case <-time.After(2 * time.Second):
	}
}
