package main

import (
	"fmt"
	"net/netip"
	"strings"

	"github.com/ipni/go-libipni/mautil"
	"github.com/multiformats/go-multiaddr"

	"verif/harness/recvdrv"
)

// The "public" flag of recvdrv.AddrTable is an input of the Coq model (addresses are
// (id, public) pairs there).  It is by construction; this checks every row three ways:
//   - the real mautil.FilterPublic keeps the address iff the flag says public;
//   - a reference computed from the address TEXT with net/netip (private, loopback,
//     unspecified, link-local => not public; "localhost" => not public) never calls an
//     address public that the property excludes, and agrees on global unicast addresses;
//   - a zoned address (/ip6zone/<zone>/ip6/<addr>/...) gets the verdict of the same address
//     without the zone: the zone is stripped, then the IPv6 rule applies.

func textVerdict(s string) (excluded, globalUnicast bool) {
	parts := strings.Split(strings.TrimPrefix(s, "/"), "/")
	if len(parts) >= 2 && parts[0] == "ip6zone" {
		parts = parts[2:]
	}
	if len(parts) < 2 {
		return false, false
	}
	switch parts[0] {
	case "ip4", "ip6":
		a, err := netip.ParseAddr(parts[1])
		if err != nil {
			return false, false
		}
		ex := a.IsPrivate() || a.IsLoopback() || a.IsUnspecified() || a.IsLinkLocalUnicast()
		return ex, a.IsGlobalUnicast() && !a.IsPrivate()
	case "dns", "dns4", "dns6", "dnsaddr":
		return parts[1] == "localhost", false
	}
	return false, false
}

func keptByFilter(a multiaddr.Multiaddr) bool {
	return len(mautil.FilterPublic([]multiaddr.Multiaddr{a})) == 1
}

func (c *ctx) addrTableChecks() {
	for i, row := range recvdrv.AddrTable {
		a := recvdrv.Addr(i)
		c.Eval()
		c.Count("addr-table-row")
		if kept := keptByFilter(a); kept != row.Public {
			c.Fail("addr-filter:"+row.S, fmt.Sprintf("mautil.FilterPublic keeps %s: %v; it is public: %v", row.S, kept, row.Public), map[string]string{"kind": "addr", "addr": row.S})
		}
		ex, gu := textVerdict(row.S)
		if ex && row.Public {
			c.Fail("addr-table:"+row.S, fmt.Sprintf("harness: %s is private/loopback/unspecified/link-local but flagged public", row.S), nil)
		}
		if strings.HasPrefix(row.S, "/ip6zone/") {
			// the same address without its zone
			parts := strings.SplitN(strings.TrimPrefix(row.S, "/ip6zone/"), "/", 2)
			bare, err := multiaddr.NewMultiaddr("/" + parts[1])
			if err != nil {
				panic(err)
			}
			c.Count("addr-table-row:zoned")
			if keptByFilter(bare) != keptByFilter(a) {
				c.Fail("addr-filter-zone:"+row.S, fmt.Sprintf("mautil.FilterPublic treats %s differently from the same address without the zone (/%s)", row.S, parts[1]), map[string]string{"kind": "addr", "addr": row.S})
			}
			if gu != row.Public && !ex {
				c.Note(fmt.Sprintf("zoned row %s: flag %v, global unicast %v", row.S, row.Public, gu))
			}
		}
	}
}
