package main

import (
	"bytes"
	"context"
	"fmt"
	"strings"
	"time"

	"github.com/ipfs/go-cid"
	"github.com/ipni/go-libipni/announce"
	"github.com/ipni/go-libipni/announce/gossiptopic"
	"github.com/ipni/go-libipni/announce/message"
	"github.com/ipni/go-libipni/announce/p2psender"
	"github.com/libp2p/go-libp2p"
	pubsub "github.com/libp2p/go-libp2p-pubsub"
	"github.com/libp2p/go-libp2p/core/crypto"
	"github.com/libp2p/go-libp2p/core/host"
	"github.com/libp2p/go-libp2p/core/peer"
	"github.com/multiformats/go-multiaddr"

	"verif/harness/recvdrv"
	"verif/harness/vlib"
)

// Peer numbering of the pubsub cases: synthetic origin peers recvdrv.Peer(i) are i
// (1..); the three hosts are 1001 (publisher), 1002 (relay), 1003 (receiver under test).
const (
	idP = 1001
	idR = 1002
	idB = 1003
)

type psEnv struct {
	hP, hR, hB host.Host
	sender     *p2psender.Sender
	topicP     *pubsub.Topic
	R, B       *announce.Receiver
	peerNo     map[peer.ID]int
	allowB     map[int]bool // nil = all
	filterB    bool
	filterR    bool
	histB      []string // (pop, outcome) terms
	histR      []string
	log        []string
}

func newHostC09() host.Host {
	h, err := libp2p.New(libp2p.ListenAddrStrings("/ip4/127.0.0.1/tcp/0"), libp2p.DisableRelay())
	if err != nil {
		panic(err)
	}
	return h
}

func coqAddrs(as []int) string {
	if len(as) > 64 {
		same := true
		for _, a := range as {
			if a != as[0] {
				same = false
			}
		}
		if same && as[0] >= 0 {
			return fmt.Sprintf("(nrep %d (%d, %s))", len(as), as[0], vlib.CoqBool(recvdrv.AddrTable[as[0]].Public))
		}
	}
	it := make([]string, len(as))
	for i, a := range as {
		pub := a >= 0 && a < len(recvdrv.AddrTable) && recvdrv.AddrTable[a].Public
		if a < 0 {
			a = 9999
		}
		it[i] = fmt.Sprintf("(%d, %s)", a, vlib.CoqBool(pub))
	}
	return vlib.CoqList(it)
}

func coqAnnP(c, p int, as []int) string {
	return fmt.Sprintf("{| a_cid := %d; a_peer := %d; a_addrs := %s |}", c, p, coqAddrs(as))
}

func coqPMsg(from int, orig string, c int, as []int) string {
	return fmt.Sprintf("(PMsg {| pm_from := %d; pm_orig := %s; pm_cid := %d; pm_addrs := Some %s |})", from, orig, c, coqAddrs(as))
}

func (e *psEnv) annOf(a announce.Announce, cids map[string]int) (int, int, []int) {
	c, ok := cids[a.Cid.String()]
	if !ok {
		c = 999999
	}
	p, ok := e.peerNo[a.PeerID]
	if !ok {
		p = 999999
	}
	var as []int
	for _, ma := range a.Addrs {
		as = append(as, recvdrv.AddrID(ma))
	}
	return c, p, as
}

func filterPublic(as []int, on bool) []int {
	if !on {
		return as
	}
	var out []int
	for _, a := range as {
		if recvdrv.AddrTable[a].Public {
			out = append(out, a)
		}
	}
	return out
}

// next waits for the receiver's next announcement (d > 0) or polls with a cancelled
// context (d == 0).
func nextAnn(r *announce.Receiver, d time.Duration) (announce.Announce, error) {
	ctx, cancel := context.WithTimeout(context.Background(), d)
	defer cancel()
	if d == 0 {
		cancel()
	}
	return r.Next(ctx)
}

func maddrs(as []int) []multiaddr.Multiaddr {
	var out []multiaddr.Multiaddr
	for _, a := range as {
		out = append(out, recvdrv.Addr(a))
	}
	return out
}

func (c *ctx) pubsubCases() {
	defer func() {
		if x := recover(); x != nil {
			c.Fail("pubsub-harness-panic", fmt.Sprint(x), nil)
		}
	}()
	c.Family("pubsub", []string{reqPub}, "pubsub_case_ok", 4)
	c.Family("wire", []string{"From Lib Require Import Cid Cbor.", "From Model Require Import C10_AnnounceMsg C09_Pubsub Compose_C10_C09."}, "wire_case_ok", 1)
	r := c.Rng.Fork("pubsub")
	rounds := c.Pick(2, 12)
	for round := 0; round < rounds; round++ {
		c.pubsubRound(r, round)
	}
}

func (c *ctx) pubsubRound(r *vlib.Rand, round int) {
	topic := fmt.Sprintf("/verif/c09/%d", round)
	e := &psEnv{hP: newHostC09(), hR: newHostC09(), hB: newHostC09(), peerNo: map[peer.ID]int{}}
	defer e.hP.Close()
	defer e.hR.Close()
	defer e.hB.Close()
	e.peerNo[e.hP.ID()], e.peerNo[e.hR.ID()], e.peerNo[e.hB.ID()] = idP, idR, idB
	for i := 1; i <= 12; i++ {
		e.peerNo[recvdrv.Peer(i)] = i
	}
	for n := 21; n <= 24; n++ { // publishers with Ed25519, secp256k1, ECDSA and RSA identities
		e.peerNo[keyTypePeers()[n]] = n
	}
	e.filterB = round%2 == 0
	e.filterR = round%3 == 1
	// B allows the publisher host and the odd origin peers; the relay is NOT allowed as a
	// source of its own, so a republication gets through only by attribution to its origin
	e.allowB = map[int]bool{idP: true, idB: true}
	allowList := []string{fmt.Sprint(idP), fmt.Sprint(idB)}
	for i := 1; i <= 12; i += 2 {
		e.allowB[i] = true
		allowList = append(allowList, fmt.Sprint(i))
	}
	for n := 21; n <= 24; n++ {
		e.allowB[n] = true
		allowList = append(allowList, fmt.Sprint(n))
	}
	if round%4 == 3 {
		e.allowB = nil
	}
	var err error
	// P owns its topic handle so that raw payloads can be published next to p2psender's
	tP, cancelP, err := gossiptopic.MakeTopic(e.hP, topic)
	if err != nil {
		panic(err)
	}
	defer cancelP()
	e.topicP = tP
	e.sender, err = p2psender.New(nil, "", p2psender.WithTopic(tP))
	if err != nil {
		panic(err)
	}
	// R and B get topic handles the harness owns, so that plain messages can be published
	// from their hosts as well
	// ... in even rounds; in odd rounds R creates and owns its topic (NewReceiver's own path,
	// closed again by Receiver.Close)
	var tR *pubsub.Topic
	if round%2 == 0 {
		var cancelR context.CancelFunc
		tR, cancelR, err = gossiptopic.MakeTopic(e.hR, topic)
		if err != nil {
			panic(err)
		}
		defer cancelR()
	}
	tB, cancelB, err := gossiptopic.MakeTopic(e.hB, topic)
	if err != nil {
		panic(err)
	}
	defer cancelB()
	if tR != nil {
		e.R, err = announce.NewReceiver(e.hR, "", announce.WithTopic(tR), announce.WithResend(true), announce.WithFilterIPs(e.filterR))
	} else {
		e.R, err = announce.NewReceiver(e.hR, topic, announce.WithResend(true), announce.WithFilterIPs(e.filterR))
	}
	if err != nil {
		panic(err)
	}
	defer e.R.Close()
	optsB := []announce.Option{announce.WithFilterIPs(e.filterB)}
	if e.allowB != nil {
		optsB = append(optsB, announce.WithAllowPeer(func(p peer.ID) bool { return e.allowB[e.peerNo[p]] }))
	}
	optsB = append(optsB, announce.WithTopic(tB))
	e.B, err = announce.NewReceiver(e.hB, "", optsB...)
	if err != nil {
		panic(err)
	}
	defer e.B.Close()
	func() {
		defer func() {
			if x := recover(); x != nil {
				c.Count("obs-receiver-topicname-panics")
			}
		}()
		// TopicName is not part of the property: exercised, differences only counted
		if e.R.TopicName() != topic || e.B.TopicName() != topic {
			c.Count("obs-receiver-topicname-differs")
		}
	}()
	ctx, cancel := context.WithTimeout(context.Background(), 30*time.Second)
	defer cancel()
	for _, pr := range [][2]host.Host{{e.hP, e.hR}, {e.hP, e.hB}, {e.hR, e.hB}} {
		if err := pr[0].Connect(ctx, peer.AddrInfo{ID: pr[1].ID(), Addrs: pr[1].Addrs()}); err != nil {
			panic(err)
		}
	}
	// warm up: publish probes until both receivers see one
	cids := map[string]int{}
	nextCid := 1000 * (round + 1)
	fresh := func() (int, cid.Cid) {
		nextCid++
		x := recvdrv.Cid(nextCid)
		cids[x.String()] = nextCid
		return nextCid, x
	}
	warm := func() {
		seenR, seenB := false, false
		for try := 0; try < 100 && !(seenR && seenB); try++ {
			_, x := fresh()
			_ = e.sender.Send(ctx, message.Message{Cid: x})
			if !seenR {
				if _, err := nextAnn(e.R, 100*time.Millisecond); err == nil {
					seenR = true
				}
			} else {
				nextAnn(e.R, 50*time.Millisecond)
			}
			if !seenB {
				if _, err := nextAnn(e.B, 100*time.Millisecond); err == nil {
					seenB = true
				}
			} else {
				nextAnn(e.B, 50*time.Millisecond)
			}
		}
		if !(seenR && seenB) {
			panic("pubsub mesh did not form")
		}
		// drain stragglers
		time.Sleep(150 * time.Millisecond)
		for {
			if _, err := nextAnn(e.R, 0); err != nil {
				break
			}
		}
		for {
			if _, err := nextAnn(e.B, 0); err != nil {
				break
			}
		}
		time.Sleep(100 * time.Millisecond)
		for _, rc := range []*announce.Receiver{e.R, e.B} {
			for {
				if _, err := nextAnn(rc, 0); err != nil {
					break
				}
			}
		}
	}
	warm()
	// the warm-up probes are in both filters; the model histories start after it, so the
	// probes' CIDs are never used again (the filter contents do not matter for fresh CIDs
	// as long as fewer than 64 CIDs are used in a round)
	refB := &refLRU{cap: 64}
	refR := &refLRU{cap: 64}
	allowedB := func(p int) bool { return e.allowB == nil || e.allowB[p] }
	fail := func(kind, desc string) {
		c.failOnce("pubsub", fmt.Sprintf("pubsub:%s", kind), desc+" | steps: "+strings.Join(e.log, "; "), replay{Kind: "pubsub", Pubsub: map[string]string{"round": fmt.Sprint(round), "failure": kind}})
	}
	wait := 3 * time.Second

	// expectB: B must (not) deliver (cid, peer, addrs); records B's history
	expectB := func(what string, from int, orig string, cidNo, peerNo int, addrs []int) {
		e.histB = append(e.histB, fmt.Sprintf("(%s, RNil)", coqPMsg(from, orig, cidNo, addrs)))
		deliver := allowedB(peerNo) && !refB.update(cidNo)
		if !deliver && !allowedB(peerNo) {
			// rejected: the filter must stay untouched (refB.update was not called)
		}
		if deliver {
			a, err := nextAnn(e.B, wait)
			if err != nil {
				fail(what+":not-delivered", fmt.Sprintf("%s: B did not deliver cid %d attributed to peer %d (%v)", what, cidNo, peerNo, err))
				e.histB = append(e.histB, "(PNext false, RBlocked)")
				return
			}
			gc, gp, ga := e.annOf(a, cids)
			e.histB = append(e.histB, fmt.Sprintf("(PNext false, RAnn %s)", coqAnnP(gc, gp, ga)))
			want := filterPublic(addrs, e.filterB)
			if gc != cidNo || gp != peerNo || !sameInts(ga, want) {
				fail(what+":wrong-fields", fmt.Sprintf("%s: B delivered cid=%d peer=%d addrs=%v, want cid=%d peer=%d addrs=%v", what, gc, gp, ga, cidNo, peerNo, want))
			}
			return
		}
		// nothing must come: give it time, then poll
		time.Sleep(120 * time.Millisecond)
		if a, err := nextAnn(e.B, 0); err == nil {
			gc, gp, ga := e.annOf(a, cids)
			e.histB = append(e.histB, fmt.Sprintf("(PNext true, RAnn %s)", coqAnnP(gc, gp, ga)))
			fail(what+":delivered-unexpectedly", fmt.Sprintf("%s: B delivered cid=%d peer=%d although the source is not allowed or the CID was recently seen", what, gc, gp))
		} else {
			e.histB = append(e.histB, "(PNext true, RCtx)")
		}
	}
	// R sees every message of P too
	expectRfromP := func(cidNo int, addrs []int) {
		e.histR = append(e.histR, fmt.Sprintf("(%s, RNil)", coqPMsg(idP, "ONone", cidNo, addrs)))
		if !refR.update(cidNo) {
			a, err := nextAnn(e.R, wait)
			if err != nil {
				fail("relay:not-delivered", fmt.Sprintf("R did not deliver P's cid %d", cidNo))
				e.histR = append(e.histR, "(PNext false, RBlocked)")
				return
			}
			gc, gp, ga := e.annOf(a, cids)
			e.histR = append(e.histR, fmt.Sprintf("(PNext false, RAnn %s)", coqAnnP(gc, gp, ga)))
		}
	}

	steps := c.Pick(14, 30)
	var usedCids []int
	var usedMsgs []struct {
		cidNo int
		addrs []int
	}
	for s := 0; s < steps; s++ {
		var addrs []int
		for j := r.Intn(4); j > 0; j-- {
			addrs = append(addrs, r.Intn(len(recvdrv.AddrTable)))
		}
		c.Eval()
		switch k := r.Intn(10); {
		case k < 3: // direct publication by P
			cidNo, x := fresh()
			usedCids = append(usedCids, cidNo)
			e.log = append(e.log, fmt.Sprintf("P publishes %d", cidNo))
			m := message.Message{Cid: x, ExtraData: []byte(fmt.Sprintf("step-%d", s))}
			m.SetAddrs(maddrs(addrs))
			if err := e.sender.Send(ctx, m); err != nil {
				panic(err)
			}
			c.Count("pubsub:direct-publication")
			expectB("direct-publication", idP, "ONone", cidNo, idP, addrs)
			expectRfromP(cidNo, addrs)
		case k < 7: // announcement handed to the relay, republished with its origin
			cidNo, x := fresh()
			usedCids = append(usedCids, cidNo)
			origin := 1 + r.Intn(12)
			e.log = append(e.log, fmt.Sprintf("R.Direct %d by %d", cidNo, origin))
			dctx, dcancel := context.WithTimeout(ctx, wait)
			err := e.R.Direct(dctx, x, peer.AddrInfo{ID: recvdrv.Peer(origin), Addrs: maddrs(addrs)})
			dcancel()
			if err != nil {
				fail("relay:direct-error", err.Error())
				continue
			}
			refR.update(cidNo)
			e.histR = append(e.histR, fmt.Sprintf("(PDirect %s false, RNil)", coqAnnP(cidNo, origin, addrs)))
			a, err := nextAnn(e.R, wait)
			if err != nil {
				fail("relay:not-delivered", "R did not deliver its own direct announcement")
				continue
			}
			gc, gp, ga := e.annOf(a, cids)
			e.histR = append(e.histR, fmt.Sprintf("(PNext false, RAnn %s)", coqAnnP(gc, gp, ga)))
			relayed := filterPublic(addrs, e.filterR)
			// its own republication comes back to R and must be dropped
			e.histR = append(e.histR, fmt.Sprintf("(%s, RNil)", coqPMsg(idR, fmt.Sprintf("(OPeer %d)", origin), cidNo, relayed)))
			c.Count("pubsub:republication")
			if !allowedB(origin) {
				c.Count("pubsub:republication-of-a-filtered-origin")
			}
			expectB("republication", idR, fmt.Sprintf("(OPeer %d)", origin), cidNo, origin, relayed)
		case k < 9 && len(usedMsgs)+len(usedCids) > 0: // a CID again, from P: duplicate at both
			cidNo := usedCids[r.Intn(len(usedCids))]
			e.log = append(e.log, fmt.Sprintf("P publishes %d again", cidNo))
			// extra data keeps the bytes distinct: pubsub itself drops byte-identical messages
			m := message.Message{Cid: recvdrv.Cid(cidNo), ExtraData: []byte(fmt.Sprintf("step-%d", s))}
			m.SetAddrs(maddrs(addrs))
			if err := e.sender.Send(ctx, m); err != nil {
				// identical bytes are suppressed by pubsub's own message-ID cache; not an error
				continue
			}
			c.Count("pubsub:duplicate")
			expectB("duplicate", idP, "ONone", cidNo, idP, addrs)
			expectRfromP(cidNo, addrs)
		default: // un-cache at B, then the CID is deliverable again
			if len(usedCids) == 0 {
				continue
			}
			cidNo := usedCids[r.Intn(len(usedCids))]
			e.log = append(e.log, fmt.Sprintf("B.Uncache %d", cidNo))
			e.B.UncacheCid(recvdrv.Cid(cidNo))
			refB.remove(cidNo)
			e.histB = append(e.histB, fmt.Sprintf("(PUncache %d, RNil)", cidNo))
			c.Count("pubsub:uncache")
		}
	}
	_ = usedMsgs

	// republications whose original publisher has an Ed25519 / secp256k1 / ECDSA / RSA identity
	// (their peer ID strings have 52, 53, 46 and 46 characters)
	for n := 21; n <= 24; n++ {
		id := keyTypePeers()[n]
		cidNo, x := fresh()
		e.log = append(e.log, fmt.Sprintf("R.Direct %d by key-type peer %d (%d-character ID)", cidNo, n, len(id.String())))
		dctx, dcancel := context.WithTimeout(ctx, wait)
		err := e.R.Direct(dctx, x, peer.AddrInfo{ID: id})
		dcancel()
		if err != nil {
			fail("relay:direct-error", err.Error())
			break
		}
		refR.update(cidNo)
		e.histR = append(e.histR, fmt.Sprintf("(PDirect %s false, RNil)", coqAnnP(cidNo, n, nil)))
		if a, err := nextAnn(e.R, wait); err == nil {
			gc, gp, ga := e.annOf(a, cids)
			e.histR = append(e.histR, fmt.Sprintf("(PNext false, RAnn %s)", coqAnnP(gc, gp, ga)))
		}
		e.histR = append(e.histR, fmt.Sprintf("(%s, RNil)", coqPMsg(idR, fmt.Sprintf("(OPeer %d)", n), cidNo, nil)))
		c.Count(fmt.Sprintf("pubsub:republication-origin-id-length-%d", len(id.String())))
		expectB(fmt.Sprintf("republication-origin-with-%d-character-id", len(id.String())), idR, fmt.Sprintf("(OPeer %d)", n), cidNo, n, nil)
		c.Eval()
	}

	// a republished (4-field) announce followed by plain (3-field) ones from the relay's own
	// host and from the receiver's own host: each is attributed to its real sender, whatever
	// OrigPeer the message before it carried
	for _, origin := range []int{3, 5} {
		cidNo, x := fresh()
		e.log = append(e.log, fmt.Sprintf("R.Direct %d by %d", cidNo, origin))
		dctx, dcancel := context.WithTimeout(ctx, wait)
		err := e.R.Direct(dctx, x, peer.AddrInfo{ID: recvdrv.Peer(origin)})
		dcancel()
		if err != nil {
			fail("relay:direct-error", err.Error())
			break
		}
		refR.update(cidNo)
		e.histR = append(e.histR, fmt.Sprintf("(PDirect %s false, RNil)", coqAnnP(cidNo, origin, nil)))
		if a, err := nextAnn(e.R, wait); err == nil {
			gc, gp, ga := e.annOf(a, cids)
			e.histR = append(e.histR, fmt.Sprintf("(PNext false, RAnn %s)", coqAnnP(gc, gp, ga)))
		}
		e.histR = append(e.histR, fmt.Sprintf("(%s, RNil)", coqPMsg(idR, fmt.Sprintf("(OPeer %d)", origin), cidNo, nil)))
		expectB("republication", idR, fmt.Sprintf("(OPeer %d)", origin), cidNo, origin, nil)
		c.Eval()
		// now a plain message: from R's host after origin 3, from B's own host after origin 5
		from, tp := idR, tR
		if tR == nil {
			from, tp = idP, e.topicP
		}
		if origin == 5 {
			from, tp = idB, tB
		}
		plainNo, px := fresh()
		e.log = append(e.log, fmt.Sprintf("host %d publishes plain %d", from, plainNo))
		var buf bytes.Buffer
		pmg := message.Message{Cid: px, ExtraData: []byte(fmt.Sprintf("plain-%d", origin))}
		if err := pmg.MarshalCBOR(&buf); err != nil {
			panic(err)
		}
		if err := tp.Publish(ctx, buf.Bytes()); err != nil {
			panic(err)
		}
		c.Count("pubsub:plain-after-republication")
		expectB("plain-after-republication", from, "ONone", plainNo, from, nil)
		// the relay sees it too (allow all): attributed to its sender, also when that is R itself
		e.histR = append(e.histR, fmt.Sprintf("(%s, RNil)", coqPMsg(from, "ONone", plainNo, nil)))
		refR.update(plainNo)
		if a, err := nextAnn(e.R, wait); err != nil {
			fail("plain-after-republication:relay-not-delivered", fmt.Sprintf("R did not deliver the plain announcement %d published by host %d right after a republication", plainNo, from))
			e.histR = append(e.histR, "(PNext false, RBlocked)")
		} else {
			gc, gp, ga := e.annOf(a, cids)
			e.histR = append(e.histR, fmt.Sprintf("(PNext false, RAnn %s)", coqAnnP(gc, gp, ga)))
			if gc != plainNo || gp != from {
				fail("plain-after-republication:wrong-attribution", fmt.Sprintf("R attributed the plain announcement %d published by host %d to peer %d", plainNo, from, gp))
			}
		}
		c.Eval()
	}

	cfgB := fmt.Sprintf("{| cap := 64%%nat; filter_ips := %s |}", vlib.CoqBool(e.filterB))
	cfgR := fmt.Sprintf("{| cap := 64%%nat; filter_ips := %s |}", vlib.CoqBool(e.filterR))
	fB := "AllowAll"
	if e.allowB != nil {
		fB = "(AllowSet " + vlib.CoqList(allowList) + ")"
	}
	c.Case("pubsub", fmt.Sprintf("(%s, %d, %s, %s)", cfgB, idB, fB, vlib.CoqList(e.histB)), map[string]interface{}{"round": round, "receiver": "B", "steps": e.log})
	c.Case("pubsub", fmt.Sprintf("(%s, %d, AllowAll, %s)", cfgR, idR, vlib.CoqList(e.histR)), map[string]interface{}{"round": round, "receiver": "R", "steps": e.log})

	c.wireCases(e, r, round, ctx, fresh, cids)

	// a pubsub arrival overlapping a direct announcement of the same CID at B: B's slot
	// holds X (nobody reads), the watcher is pending with Y, Direct(Y) comes in: duplicate
	{
		_, x := fresh()
		yNo, y := fresh()
		_ = e.sender.Send(ctx, message.Message{Cid: x, ExtraData: []byte("ov1")})
		time.Sleep(120 * time.Millisecond)
		_ = e.sender.Send(ctx, message.Message{Cid: y, ExtraData: []byte("ov2")})
		time.Sleep(120 * time.Millisecond)
		done := make(chan error, 1)
		go func() {
			dctx, dcancel := context.WithTimeout(ctx, 4*time.Second)
			defer dcancel()
			done <- e.B.Direct(dctx, y, peer.AddrInfo{ID: recvdrv.Peer(1)})
		}()
		time.Sleep(60 * time.Millisecond)
		ny := 0
		for {
			a, err := nextAnn(e.B, 400*time.Millisecond)
			if err != nil {
				break
			}
			if gc, _, _ := e.annOf(a, cids); gc == yNo {
				ny++
			}
		}
		derr := <-done
		for {
			a, err := nextAnn(e.B, 200*time.Millisecond)
			if err != nil {
				break
			}
			if gc, _, _ := e.annOf(a, cids); gc == yNo {
				ny++
			}
		}
		c.Eval()
		c.Count("pubsub:arrival-overlapping-direct")
		if ny != 1 || derr != nil {
			fail("overlap:delivered-twice", fmt.Sprintf("CID %d arrived on the topic and through Direct while nobody was reading: delivered %d times (Direct: %v)", yNo, ny, derr))
		}
		for { // R got X and Y too
			if _, err := nextAnn(e.R, 150*time.Millisecond); err != nil {
				break
			}
		}
	}

	// own republication while the CID is NOT in the filter: stall R's watcher on a full out
	// slot, hand R a direct announcement (its republication queues up behind the stalled
	// watcher), un-cache the CID, then drain.  The republication must still be ignored.
	{
		c1, x1 := fresh()
		c2, x2 := fresh()
		c3, x3 := fresh()
		e.log = append(e.log, fmt.Sprintf("stall R with %d,%d; R.Direct %d; R.Uncache %d", c1, c2, c3, c3))
		_ = e.sender.Send(ctx, message.Message{Cid: x1})
		time.Sleep(80 * time.Millisecond)
		_ = e.sender.Send(ctx, message.Message{Cid: x2})
		time.Sleep(150 * time.Millisecond) // R: out slot = c1, watcher blocked handing over c2
		done := make(chan error, 1)
		go func() {
			dctx, dcancel := context.WithTimeout(ctx, 5*time.Second)
			defer dcancel()
			done <- e.R.Direct(dctx, x3, peer.AddrInfo{ID: recvdrv.Peer(7)})
		}()
		time.Sleep(150 * time.Millisecond) // republication published, queued behind the watcher
		e.R.UncacheCid(x3)
		got := map[int]int{}
		origin3 := 0
		collect := func(d time.Duration) {
			for {
				a, err := nextAnn(e.R, d)
				if err != nil {
					return
				}
				gc, gp, _ := e.annOf(a, cids)
				got[gc]++
				if gc == c3 {
					origin3 = gp
				}
			}
		}
		collect(700 * time.Millisecond) // c1, then c2 and c3 in either order, then nothing
		<-done
		collect(400 * time.Millisecond)
		extra := got[c3] - 1
		if got[c3] > 1 {
			fail("own-republication-delivered", fmt.Sprintf("R delivered cid %d (peer %d) %d times: its own republication was handled as a new announcement after the CID was un-cached", c3, origin3, got[c3]))
		}
		c.Eval()
		c.Count("pubsub:own-republication-with-uncached-cid")
		if got[c3] > 1 {
			// reported above
		} else if got[c1] != 1 || got[c2] != 1 || got[c3] != 1 {
			c.Note(fmt.Sprintf("own-republication scenario inconclusive in round %d: deliveries %v extra %d", round, got, extra))
		} else {
			c.Nontrivial(fmt.Sprintf("own-republication:%d", round))
		}
		// B saw c1, c2 and the republication of c3: drain it
		for {
			if _, err := nextAnn(e.B, 200*time.Millisecond); err != nil {
				break
			}
		}
	}

	// Close while B's watcher is pending on a full slot: the watcher leaves through ErrClosed
	{
		_, x1 := fresh()
		_, x2 := fresh()
		_ = e.sender.Send(ctx, message.Message{Cid: x1, ExtraData: []byte("cl1")})
		time.Sleep(100 * time.Millisecond)
		_ = e.sender.Send(ctx, message.Message{Cid: x2, ExtraData: []byte("cl2")})
		time.Sleep(150 * time.Millisecond)
		done := make(chan error, 1)
		go func() { done <- e.B.Close() }()
		c.Eval()
		c.Count("pubsub:close-with-pending-watcher")
		select {
		case <-done:
		case <-time.After(5 * time.Second):
			fail("close-with-pending-watcher:hung", "B.Close() did not return while its watcher was pending on a full out slot")
		}
	}
	if len(e.histB) > 6 {
		c.Nontrivial(fmt.Sprintf("pubsub-round:%d:%d", round, len(e.histB)))
	}
	if round == 0 {
		c.Sample(map[string]interface{}{"kind": "pubsub-round", "steps": e.log})
	}
}

var keyPeers map[int]peer.ID

// keyTypePeers: peer IDs 21..24 with Ed25519, secp256k1, ECDSA and RSA keys
func keyTypePeers() map[int]peer.ID {
	if keyPeers != nil {
		return keyPeers
	}
	keyPeers = map[int]peer.ID{}
	rd := detReader{vlib.NewRand(20260102)}
	for i, kt := range []int{crypto.Ed25519, crypto.Secp256k1, crypto.ECDSA, crypto.RSA} {
		_, pub, err := crypto.GenerateKeyPairWithReader(kt, 2048, rd)
		if err != nil {
			panic(err)
		}
		id, err := peer.IDFromPublicKey(pub)
		if err != nil {
			panic(err)
		}
		keyPeers[21+i] = id
	}
	return keyPeers
}

type detReader struct{ r *vlib.Rand }

func (d detReader) Read(b []byte) (int, error) {
	copy(b, d.r.Bytes(len(b)))
	return len(b), nil
}
