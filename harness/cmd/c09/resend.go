package main

import (
	"context"
	"fmt"
	"strings"
	"time"

	"github.com/ipfs/go-cid"
	"github.com/ipni/go-libipni/announce"
	"github.com/ipni/go-libipni/announce/gossiptopic"
	mh "github.com/multiformats/go-multihash"

	"verif/harness/recvdrv"
)

// Direct histories on receivers created WithResend(true) (one libp2p host, own topic).
// Re-publication is outside the C09 model: the property says when an announcement is
// DELIVERED, and that does not depend on whether the receiver manages to re-publish it.
// The histories mix ordinary announcements with ones whose re-publication must fail:
//   - a CID longer than the announce encoder accepts (identity multihash, > 512 bytes),
//   - more addresses than the encoder's cap (8193),
//   - a pubsub that has been shut down underneath the receiver (every publish fails).
// Oracle and Coq acceptor are those of the other Direct histories: delivered iff allowed
// and not recently seen; Direct returns nil.  (The receiver's own re-publications come
// back on the topic and are dropped by the watcher: theorem own_republication_has_no_effect.)

// CID numbering of these histories: every third number is an oversized identity CID
func resendCid(n int) cid.Cid {
	if n%3 == 0 {
		payload := []byte(fmt.Sprintf("verif-oversized-%d-", n) + strings.Repeat("x", 540))
		h, err := mh.Sum(payload, mh.IDENTITY, -1)
		if err != nil {
			panic(err)
		}
		return cid.NewCidV1(cid.Raw, h)
	}
	return recvdrv.Cid(n)
}

func (c *ctx) resendCases() {
	defer func() {
		if x := recover(); x != nil {
			c.Fail("resend-harness-panic", fmt.Sprint(x), nil)
		}
	}()
	r := c.Rng.Fork("resend")
	wd := 120 * time.Millisecond
	n := c.Pick(6, 60)
	for i := 0; i < n; i++ {
		cfg := recvdrv.Config{AllowMod: []int{0, 0, 2, 3}[r.Intn(4)]}
		if i%3 == 2 {
			cfg.Cap = 2 + r.Intn(4)
		}
		pubsubDown := i%3 == 1
		nCids := 12 + r.Intn(20)
		evs := genEvents(r, cfg, 30+r.Intn(50), nCids)
		// one announcement with more addresses than the encoder's cap
		if i%2 == 0 {
			many := make([]int, 8193)
			for k := range many {
				many[k] = 1
			}
			for k := range evs {
				if evs[k].Kind == "ann" && cfg.Allowed(evs[k].Peer) {
					evs[k].Addrs = many
					break
				}
			}
		}
		for k := range evs { // no late Close here: republish faults are the subject
			if evs[k].Kind == "close" {
				evs[k] = event{Kind: "uncache", Cid: 1}
			}
		}
		h := newHostC09()
		topic := fmt.Sprintf("/verif/c09/resend/%d", i)
		mk := func(opts ...announce.Option) *announce.Receiver {
			opts = append(opts, announce.WithResend(true))
			if pubsubDown {
				tp, cancel, err := gossiptopic.MakeTopic(h, topic)
				if err != nil {
					panic(err)
				}
				rc, err := announce.NewReceiver(h, "", append(opts, announce.WithTopic(tp))...)
				if err != nil {
					panic(err)
				}
				cancel() // pubsub shuts down underneath the receiver: every publish fails
				time.Sleep(50 * time.Millisecond)
				return rc
			}
			rc, err := announce.NewReceiver(h, topic, opts...)
			if err != nil {
				panic(err)
			}
			return rc
		}
		ops := build(cfg, evs)
		obs := runLocalWith(cfg, ops, wd, resendCid, mk)
		h.Close()
		ops = ops[:len(obs)]
		c.Eval()
		c.Count("recv:resend-history")
		if pubsubDown {
			c.Count("recv:resend-history-with-pubsub-down")
		}
		nOver := 0
		for _, o := range ops {
			if o.Kind == "direct" && o.Cid%3 == 0 {
				nOver++
			}
		}
		c.CountN("recv:resend-announcements-that-cannot-be-republished", nOver)
		hist := recvdrv.History{Cfg: cfg, Ops: ops, Obs: obs}
		c.Case("recv", recvdrv.CoqHistory(cfg, ops, obs), replay{Kind: "resend", History: &hist, Events: evs, Pubsub: map[string]string{"pubsub_down": fmt.Sprint(pubsubDown)}})
		c.Nontrivial(fmt.Sprintf("resend:%d:%v:%s", i, pubsubDown, evsSig(evs[:min(len(evs), 10)])))
		if k, msg := recvOracle(cfg, ops, obs); msg != "" && !strings.HasPrefix(msg, "harness:") {
			c.fails["resend"]++
			if c.fails["resend"] > 2 {
				continue
			}
			// shrink: keep only the failing call's announcement if that still fails
			fault := "republish fails (CID or address list beyond the announce encoder's caps)"
			if pubsubDown {
				fault = "republish fails (pubsub shut down)"
			}
			small := c.shrinkResend(cfg, evs, pubsubDown, wd)
			sops := build(cfg, small)
			sig := fmt.Sprintf("recv-resend:%s:pubsub_down=%v:%s", cfgSig(cfg), pubsubDown, resendSig(small))
			_ = k
			sh := recvdrv.History{Cfg: cfg, Ops: sops}
			c.Fail(sig, fmt.Sprintf("receiver WithResend(true), %s: %s", fault, msg), replay{Kind: "resend", History: &sh, Events: small, Pubsub: map[string]string{"pubsub_down": fmt.Sprint(pubsubDown)}})
		}
	}
}

func resendSig(evs []event) string {
	p := make([]string, len(evs))
	for i, e := range evs {
		switch e.Kind {
		case "ann":
			kind := "c"
			if e.Cid%3 == 0 {
				kind = "oversized-cid"
			}
			p[i] = fmt.Sprintf("a(%s)", kind)
			if len(e.Addrs) > 100 {
				p[i] += fmt.Sprintf("[%d addrs]", len(e.Addrs))
			}
		case "uncache":
			p[i] = "u"
		default:
			p[i] = e.Kind
		}
	}
	return strings.Join(p, ",")
}

func (c *ctx) runResendOnce(cfg recvdrv.Config, evs []event, pubsubDown bool, wd time.Duration) string {
	h := newHostC09()
	defer h.Close()
	topic := fmt.Sprintf("/verif/c09/resend/r%d", time.Now().UnixNano())
	mk := func(opts ...announce.Option) *announce.Receiver {
		opts = append(opts, announce.WithResend(true))
		if pubsubDown {
			tp, cancel, err := gossiptopic.MakeTopic(h, topic)
			if err != nil {
				panic(err)
			}
			rc, err := announce.NewReceiver(h, "", append(opts, announce.WithTopic(tp))...)
			if err != nil {
				panic(err)
			}
			cancel()
			time.Sleep(50 * time.Millisecond)
			return rc
		}
		rc, err := announce.NewReceiver(h, topic, opts...)
		if err != nil {
			panic(err)
		}
		return rc
	}
	ops := build(cfg, evs)
	obs := runLocalWith(cfg, ops, wd, resendCid, mk)
	_, msg := recvOracle(cfg, ops[:len(obs)], obs)
	if strings.HasPrefix(msg, "harness:") {
		return ""
	}
	return msg
}

func (c *ctx) shrinkResend(cfg recvdrv.Config, evs []event, pubsubDown bool, wd time.Duration) []event {
	deadline := time.Now().Add(15 * time.Second)
	for chunk := len(evs) / 2; chunk >= 1; chunk /= 2 {
		for k := 0; k+chunk <= len(evs) && time.Now().Before(deadline); {
			cand := append(append([]event{}, evs[:k]...), evs[k+chunk:]...)
			if len(cand) > 0 && c.runResendOnce(cfg, cand, pubsubDown, wd) != "" {
				evs = cand
			} else {
				k += chunk
			}
		}
	}
	return evs
}

func (c *ctx) resendReplay(rp replay) {
	c.Family("recv", []string{reqRecv}, "fun c => accepts (fst c) (snd c)", 4)
	down := rp.Pubsub["pubsub_down"] == "true"
	msg := c.runResendOnce(rp.History.Cfg, rp.Events, down, 400*time.Millisecond)
	fmt.Printf("  receiver WithResend(true), pubsub down=%v, events %s\n  -> %s\n", down, resendSig(rp.Events), msg)
	if msg != "" {
		c.Fail("recv-resend:replay", msg, rp)
	}
	c.Eval()
}

var _ = context.Background
