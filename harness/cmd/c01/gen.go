package main

import (
	"fmt"

	"verif/harness/syncdrv"
	"verif/harness/vlib"
)

// adWorld: n advertisements, rank i links rank i-1; the chain newest first is n..1.
func adWorld(n int) ([]BlockJ, []int) {
	var w []BlockJ
	var ch []int
	for i := 1; i <= n; i++ {
		w = append(w, BlockJ{T: "ad", Prev: i - 1})
		ch = append([]int{i}, ch...)
	}
	return w, ch
}

// chunkWorld: n entry chunks, rank i has Next = rank i-1; traversal order n..1.
func chunkWorld(n int) ([]BlockJ, []int) {
	var w []BlockJ
	var ch []int
	for i := 1; i <= n; i++ {
		w = append(w, BlockJ{T: "chunk", Next: i - 1})
		ch = append([]int{i}, ch...)
	}
	return w, ch
}

func subsetOf(n int, mask int) []int {
	var out []int
	for i := 0; i < n; i++ {
		if mask&(1<<i) != 0 {
			out = append(out, i+1)
		}
	}
	return out
}

func uniq(xs []int64) []int64 {
	var out []int64
	for _, x := range xs {
		dup := false
		for _, y := range out {
			dup = dup || x == y
		}
		if !dup {
			out = append(out, x)
		}
	}
	return out
}

var defaultCfg = CfgJ{SegDepth: -1, Strict: true, Hook: "nominate"}

// ---------------------------------------------------------------------------
// the decision table of SyncAdChain's option resolution, exhaustively on a 3-chain

func genDecisionTable(c *vlib.Ctx) {
	w, ch := adWorld(3)
	for _, latest := range []int{0, 1, 3} {
		for _, stop := range []int{0, 2, 3} {
			for _, resync := range []bool{false, true} {
				for _, head := range []int{0, 3} {
					for _, ads := range []int64{0, 2} {
						for _, first := range []int64{0, 1} {
							for _, scoped := range []int64{0, -1, 1} {
								cfg := defaultCfg
								cfg.AdsDepth, cfg.FirstDepth = ads, first
								runScn(c, Scn{World: w, Cfg: cfg, Latest: latest, Oracle: "adchain", Chain: ch,
									Calls: []CallJ{{T: "ad", Head: head, Stop: stop, Resync: resync, Depth: scoped, PubHead: 3}}}, false)
							}
						}
					}
				}
			}
		}
	}
	// an empty chain (no head at the publisher), queried and explicit foreign head
	w0, _ := adWorld(0)
	runScn(c, Scn{World: w0, Cfg: defaultCfg, Oracle: "adchain", Calls: []CallJ{{T: "ad"}}}, false)
	runScn(c, Scn{World: w0, Cfg: defaultCfg, Oracle: "adchain", Chain: []int{syncdrv.ForeignRank},
		Calls: []CallJ{{T: "ad", Head: syncdrv.ForeignRank}}}, false)
}

// ---------------------------------------------------------------------------
// advertisement chains: head x stop x limit x segment size

func genAdChains(c *vlib.Ctx) {
	maxN := c.Pick(6, 8)
	r := c.Rng.Fork("adchains")
	counter := 0
	for n := 1; n <= maxN; n++ {
		w, ch := adWorld(n)
		sampled := n > c.Pick(5, 7)
		for head := 0; head <= n; head++ { // 0 = queried
			effHead := head
			if head == 0 {
				effHead = n
			}
			stops := []int{0, syncdrv.ForeignRank}
			for s := 1; s <= n; s++ {
				stops = append(stops, s)
			}
			for _, stop := range stops {
				k := int64(len(takeUntil(from(ch, effHead), stop)))
				lims := uniq([]int64{0, 1, k - 1, k, k + 1})
				segs := uniq([]int64{-1, 1, 2, k - 1, k, k + 1})
				for _, lim := range lims {
					if lim < 0 {
						continue
					}
					for _, seg := range segs {
						if seg == 0 || seg < -1 {
							continue
						}
						counter++
						if sampled && r.Intn(4) != 0 {
							continue
						}
						cfg := defaultCfg
						call := CallJ{T: "ad", Head: head, PubHead: n}
						sc := Scn{World: w, Oracle: "adchain", Chain: ch}
						// how the stop is given
						if stop != 0 {
							switch counter % 5 {
							case 0:
								sc.Latest = stop
							case 1:
								call.Stop = stop
							case 2:
								call.Stop, call.Resync = stop, true
							case 3:
								sc.Latest, call.Stop = 1+(counter%n), stop // the explicit stop wins
							case 4:
								sc.Latest = stop
								if counter%10 == 4 {
									call.Resync = true // ... and resync ignores the latest sync
								}
							}
						} else if counter%7 == 0 {
							call.Resync = true
						}
						// where the depth limit is given
						if lim != 0 {
							switch (counter / 5) % 3 {
							case 0:
								cfg.AdsDepth = lim
							case 1:
								call.Depth = lim
								cfg.AdsDepth = int64(1 + counter%3) // overridden
							case 2:
								if stop == 0 || (call.Resync && call.Stop == 0) {
									cfg.FirstDepth = lim
									cfg.AdsDepth = int64(counter % 3) // overridden when no stop applies
								} else {
									cfg.AdsDepth = lim
									cfg.FirstDepth = int64(1 + counter%2) // not applied: a stop is in effect
								}
							}
						} else if counter%6 == 0 {
							call.Depth = -1 // explicit "no limit"
							cfg.AdsDepth = 1
						}
						// where the segment size is given
						switch {
						case seg == -1 && counter%4 == 0:
							cfg.SegDepth, call.Seg = 2, -1 // scoped switch-off
						case seg == -1 && counter%4 == 1:
							cfg.SegDepth = 0
						case seg == -1:
						case counter%2 == 0:
							cfg.SegDepth = seg
						default:
							call.Seg = seg
							cfg.SegDepth = int64(-1 + 2*(counter%2))
						}
						// the hook
						switch {
						case counter%29 == 0:
							cfg.Hook = "none"
						case counter%31 == 0:
							cfg.Hook = "silent"
						case counter%3 == 0:
							cfg.Hook, call.Hook = "silent", "nominate"
						case counter%17 == 0:
							cfg.Hook, call.Hook = "none", "nominate"
						}
						if counter%19 == 0 {
							cfg.Retry = 2 // retryable HTTP client (+ AddrTTL, Topic): same outcome
						}
						sc.Pre = subsetOf(n, (counter*7)%(1<<n))
						sc.Cfg, sc.Calls = cfg, []CallJ{call}
						// the group: everything that determines the requested segment
						stopEff := call.Stop
						if stopEff == 0 && !call.Resync {
							stopEff = sc.Latest
						}
						sc.Group = fmt.Sprintf("ad|n=%d|head=%d|stop=%d|lim=%d|latest=%d", n, head, stopEff, lim, sc.Latest)
						runScn(c, sc, false)
					}
				}
			}
		}
	}
}

// ---------------------------------------------------------------------------
// all pre-stored subsets on fixed requests

func genSubsets(c *vlib.Ctx) {
	for n := 1; n <= 5; n++ {
		w, ch := adWorld(n)
		type req struct {
			stop int
			lim  int64
			seg  int64
		}
		reqs := []req{{0, 0, -1}, {0, 0, 2}, {1, 0, 1}, {0, int64(n - 1), 2}, {2, 3, 2}}
		for ri, rq := range reqs {
			if rq.stop > n {
				continue
			}
			for mask := 0; mask < 1<<n; mask++ {
				cfg := defaultCfg
				cfg.SegDepth = rq.seg
				cfg.AdsDepth = rq.lim
				runScn(c, Scn{World: w, Cfg: cfg, Pre: subsetOf(n, mask), Oracle: "adchain", Chain: ch,
					Group: fmt.Sprintf("subsets|n=%d|req=%d", n, ri),
					Calls: []CallJ{{T: "ad", Stop: rq.stop, PubHead: n}}}, false)
			}
		}
	}
}

// ---------------------------------------------------------------------------
// entries chains, single entries

func genEntries(c *vlib.Ctx) {
	maxM := c.Pick(5, 8)
	counter := 0
	for m := 0; m <= maxM; m++ {
		w, ch := chunkWorld(m)
		if m == 0 {
			runScn(c, Scn{World: w, Cfg: defaultCfg, Oracle: "entchain", Calls: []CallJ{{T: "entries", Ent: 0}}}, false)
			runScn(c, Scn{World: w, Cfg: defaultCfg, Oracle: "one", Calls: []CallJ{{T: "one", Ent: 0}}}, false)
			runScn(c, Scn{World: w, Cfg: defaultCfg, Oracle: "entchain", Chain: []int{syncdrv.ForeignRank},
				Calls: []CallJ{{T: "entries", Ent: syncdrv.ForeignRank}}}, false)
			continue
		}
		for start := 1; start <= m; start++ {
			k := int64(start)
			for _, lim := range uniq([]int64{0, 1, k - 1, k, k + 1}) {
				if lim < 0 {
					continue
				}
				for _, seg := range uniq([]int64{-1, 1, 2, k, k + 1}) {
					if seg == 0 {
						continue
					}
					counter++
					cfg := defaultCfg
					cfg.SegDepth = seg
					call := CallJ{T: "entries", Ent: start}
					if lim != 0 {
						if counter%2 == 0 {
							cfg.EntriesDepth = lim
						} else {
							call.Depth, cfg.EntriesDepth = lim, int64(1+counter%3)
						}
					} else if counter%5 == 0 {
						call.Depth, cfg.EntriesDepth = -1, 1
					}
					if counter%4 == 0 {
						cfg.Hook, call.Hook = "silent", "nominate"
					}
					if counter%23 == 0 {
						cfg.Hook = "none"
					}
					cfg.AdsDepth = int64(counter % 2) // irrelevant for entries
					runScn(c, Scn{World: w, Cfg: cfg, Pre: subsetOf(m, (counter*5)%(1<<m)), Oracle: "entchain", Chain: ch,
						Group: fmt.Sprintf("ent|m=%d|start=%d|lim=%d", m, start, lim),
						Calls: []CallJ{call}}, false)
				}
			}
			for _, pre := range [][]int{nil, {start}, subsetOf(m, (1<<m)-1)} {
				cfg := defaultCfg
				cfg.SegDepth = int64(counter%3) - 1
				cfg.EntriesDepth = 3
				runScn(c, Scn{World: w, Cfg: cfg, Pre: pre, Oracle: "one", Chain: ch, Calls: []CallJ{{T: "one", Ent: start}}}, false)
				counter++
			}
		}
	}
}

// ---------------------------------------------------------------------------
// all-links syncs over trees

func genTrees(c *vlib.Ctx) {
	trees := [][]BlockJ{
		// binary tree of depth 2, direct links
		{{T: "node"}, {T: "node"}, {T: "node"}, {T: "node"}, {T: "node", Direct: []int{1, 2}}, {T: "node", Direct: []int{3, 4}}, {T: "node", Direct: []int{5, 6}}},
		// links nested in a list, mixed with direct ones
		{{T: "node"}, {T: "node"}, {T: "node"}, {T: "node", Direct: []int{1}, Nested: []int{2, 3}}, {T: "node", Nested: []int{4}}},
		// a path
		{{T: "node"}, {T: "node", Direct: []int{1}}, {T: "node", Direct: []int{2}}, {T: "node", Direct: []int{3}}},
		// an entry chunk chain under a node
		{{T: "chunk"}, {T: "chunk", Next: 1}, {T: "node", Direct: []int{2}}},
	}
	for ti, w := range trees {
		n := len(w)
		for root := 1; root <= n; root++ {
			masks := 1 << n
			for mask := 0; mask < masks; mask++ {
				if n > 5 && mask%5 != ti%5 && mask != masks-1 {
					continue
				}
				cfg := defaultCfg
				cfg.SegDepth = int64(mask%3) - 1
				call := CallJ{T: "all", Ent: root}
				if mask%4 == 0 {
					cfg.Hook, call.Hook = "none", "silent"
				}
				runScn(c, Scn{World: w, Cfg: cfg, Pre: subsetOf(n, mask), Oracle: "tree",
					Group: fmt.Sprintf("tree|%d|root=%d", ti, root), Calls: []CallJ{call}}, false)
			}
		}
	}
	// a diamond: the shared block is met on two paths (not a tree: outside the statement)
	diamond := []BlockJ{{T: "node"}, {T: "node", Direct: []int{1}}, {T: "node", Direct: []int{1}}, {T: "node", Direct: []int{2, 3}}}
	for mask := 0; mask < 16; mask++ {
		runScn(c, Scn{World: diamond, Cfg: defaultCfg, Pre: subsetOf(4, mask), Oracle: "none", Calls: []CallJ{{T: "all", Ent: 4}}}, false)
		c.Count("observation:diamond-dag")
	}
}

// ---------------------------------------------------------------------------
// the non-strict advertisement selector follows the Entries link too

func genNonStrict(c *vlib.Ctx) {
	// chunks 1,2 (chain 2->1); 3,4 (4->3); ads 5 (entries 2), 6 (prev 5, entries 4), 7 (prev 6, entries 2)
	w := []BlockJ{{T: "chunk"}, {T: "chunk", Next: 1}, {T: "chunk"}, {T: "chunk", Next: 3},
		{T: "ad", Entries: 2}, {T: "ad", Prev: 5, Entries: 4}, {T: "ad", Prev: 6, Entries: 2}}
	counter := 0
	for _, lim := range []int64{0, 1, 2, 3, 4, 5} {
		for _, stop := range []int{0, 5, 6, 2} {
			for _, seg := range []int64{-1, 2} {
				for _, strict := range []bool{false, true} {
					counter++
					cfg := defaultCfg
					cfg.Strict, cfg.AdsDepth, cfg.SegDepth = strict, lim, seg
					oracle, chain := "none", []int(nil)
					if strict {
						oracle, chain = "adchain", []int{7, 6, 5}
					}
					runScn(c, Scn{World: w, Cfg: cfg, Pre: subsetOf(7, (counter*11)%128), Oracle: oracle, Chain: chain,
						Calls: []CallJ{{T: "ad", Stop: stop, PubHead: 7}}}, false)
				}
			}
		}
	}
	// entries of an advertisement, then the advertisement's entries through SyncEntries
	for _, seg := range []int64{-1, 1} {
		cfg := defaultCfg
		cfg.SegDepth = seg
		runScn(c, Scn{World: w, Cfg: cfg, Oracle: "none", Calls: []CallJ{
			{T: "ad", PubHead: 7}, {T: "entries", Ent: 4}, {T: "entries", Ent: 2, Depth: 1}, {T: "one", Ent: 1}, {T: "all", Ent: 6}}}, false)
	}
}

// ---------------------------------------------------------------------------
// the publisher does not serve a block

func genHidden(c *vlib.Ctx) {
	w, ch := adWorld(4)
	for hid := 1; hid <= 4; hid++ {
		for _, pre := range [][]int{nil, {hid}, {1, 2, 3, 4}, {4}} {
			for _, seg := range []int64{-1, 1, 2} {
				for _, stop := range []int{0, hid} {
					cfg := defaultCfg
					cfg.SegDepth = seg
					runScn(c, Scn{World: w, Hidden: []int{hid}, Cfg: cfg, Pre: pre, Oracle: "adchain", Chain: ch,
						Calls: []CallJ{{T: "ad", Stop: stop, PubHead: 4}}}, false)
				}
			}
		}
	}
}

// ---------------------------------------------------------------------------
// two or three syncs on one subscriber while the chain grows

func genSequences(c *vlib.Ctx) {
	w, _ := adWorld(6)
	for a := 1; a <= 4; a++ {
		for b := a; b <= 6; b += 2 {
			for _, seg := range []int64{-1, 1, 2} {
				for _, first := range []int64{0, 2} {
					cfg := defaultCfg
					cfg.SegDepth, cfg.FirstDepth = seg, first
					runScn(c, Scn{World: w, Cfg: cfg, Oracle: "none", Calls: []CallJ{
						{T: "ad", PubHead: a},
						{T: "ad", PubHead: b},
						{T: "ad", PubHead: 6, Head: 6},      // explicit head: does not move the latest sync
						{T: "ad", PubHead: 6, Resync: true}, // resync from the queried head
					}}, false)
				}
			}
		}
	}
}

// ---------------------------------------------------------------------------
// the publisher's handler is removed between syncs (RemoveHandler, idle cleaner): the
// latest sync -- the stop point of the next sync -- must survive

func genRemoval(c *vlib.Ctx) {
	w, ch := adWorld(6)
	ad := func(h int) CallJ { return CallJ{T: "ad", PubHead: h} }
	rm := CallJ{T: "remove"}
	idle := CallJ{T: "idle"}
	for _, seg := range []int64{-1, 2} {
		for _, first := range []int64{0, 2} {
			for a := 1; a <= 3; a++ {
				for _, b := range []int{a + 1, a + 2, 6} {
					cfg := defaultCfg
					cfg.SegDepth, cfg.FirstDepth = seg, first
					runScn(c, Scn{World: w, Cfg: cfg, Oracle: "adseq", Chain: ch, Calls: []CallJ{ad(a), rm, ad(b), rm, rm, ad(6), ad(6)}}, false)
					runScn(c, Scn{World: w, Cfg: cfg, Oracle: "adseq", Chain: ch, Calls: []CallJ{rm, ad(a), ad(b), rm, {T: "ad", PubHead: 6, Resync: true}, rm, ad(6)}}, false)
					// the same history without the removals: the same outcomes
					runScn(c, Scn{World: w, Cfg: cfg, Oracle: "adseq", Chain: ch, Calls: []CallJ{ad(a), ad(b), ad(6), ad(6)}}, false)
				}
			}
		}
	}
	// with a preset latest sync and with WithLastKnownSync as the source of the stop point
	for _, lk := range []int{0, 2} {
		for _, latest := range []int{0, 1, 3} {
			cfg := defaultCfg
			cfg.LastKnown = lk
			runScn(c, Scn{World: w, Cfg: cfg, Latest: latest, Oracle: "adseq", Chain: ch, Calls: []CallJ{rm, ad(4), rm, ad(6)}}, false)
			runScn(c, Scn{World: w, Cfg: cfg, Latest: latest, Oracle: "adseq", Chain: ch, Calls: []CallJ{ad(4), rm, {T: "ad", PubHead: 5, Resync: true}, rm, ad(6)}}, false)
		}
	}
	// the idle cleaner (IdleHandlerTTL 60 ms; each idle step sleeps 210 ms)
	n := c.Pick(6, 30)
	for i := 0; i < n; i++ {
		cfg := defaultCfg
		cfg.IdleTTLms = 60
		cfg.SegDepth = []int64{-1, 2}[i%2]
		cfg.LastKnown = []int{0, 0, 1}[i%3]
		a := 1 + i%3
		runScn(c, Scn{World: w, Cfg: cfg, Oracle: "adseq", Chain: ch, Calls: []CallJ{ad(a + 1), idle, ad(a + 3), idle, ad(6)}}, false)
	}
}

// WithLastKnownSync in the decision table: the stop point when nothing is recorded yet
func genLastKnown(c *vlib.Ctx) {
	w, ch := adWorld(4)
	for _, lk := range []int{1, 2, 4, syncdrv.ForeignRank} {
		for _, latest := range []int{0, 3} {
			for _, stop := range []int{0, 1} {
				for _, resync := range []bool{false, true} {
					for _, first := range []int64{0, 1} {
						for _, seg := range []int64{-1, 1} {
							cfg := defaultCfg
							cfg.LastKnown, cfg.FirstDepth, cfg.SegDepth = lk, first, seg
							runScn(c, Scn{World: w, Cfg: cfg, Latest: latest, Oracle: "adchain", Chain: ch,
								Calls: []CallJ{{T: "ad", Stop: stop, Resync: resync, PubHead: 4}}}, false)
						}
					}
				}
			}
		}
	}
}

// ---------------------------------------------------------------------------
// a sync fails part way (the publisher has withdrawn a block), the block comes back, and the
// SAME subscriber (same cached Syncer) syncs again: the successful sync must report exactly
// its segment, once each, whatever the failed attempt traversed

func genRetry(c *vlib.Ctx) {
	// advertisements 1..5 (5 newest), entry chunks 6..8 (8 first)
	var w []BlockJ
	for i := 1; i <= 5; i++ {
		w = append(w, BlockJ{T: "ad", Prev: i - 1})
	}
	for i := 6; i <= 8; i++ {
		next := i - 1
		if i == 6 {
			next = 0
		}
		w = append(w, BlockJ{T: "chunk", Next: next})
	}
	ch, ch2 := []int{5, 4, 3, 2, 1}, []int{8, 7, 6}
	ad := func(h int) CallJ { return CallJ{T: "ad", PubHead: h} }
	hide := func(rs ...int) CallJ { return CallJ{T: "hide", Hide: rs} }
	ent := func(e int) CallJ { return CallJ{T: "entries", Ent: e} }
	counter := 0
	for _, seg := range []int64{-1, 1, 2} {
		for hid := 1; hid <= 4; hid++ {
			for _, hook := range []string{"nominate", "general"} {
				counter++
				cfg := defaultCfg
				cfg.SegDepth, cfg.Hook = seg, hook
				run := func(calls ...CallJ) {
					runScn(c, Scn{World: w, Cfg: cfg, Pre: subsetOf(5, (counter*3)%4), Oracle: "adseq", Chain: ch, Chain2: ch2, Calls: calls}, false)
				}
				// fail, restore, retry
				run(hide(hid), ad(5), hide(), ad(5))
				// fail twice, then a retry with another depth / stop / head
				run(hide(hid), ad(5), ad(5), hide(), CallJ{T: "ad", PubHead: 5, Depth: 2}, ad(5))
				run(hide(hid), ad(5), hide(), CallJ{T: "ad", PubHead: 5, Head: 4, Stop: 1}, ad(5))
				if hook == "nominate" {
					// the Syncer is shared by advertisement and entries syncs of the publisher
					run(hide(hid), ad(5), hide(), ent(8), ad(5))
					run(hide(7), ent(8), hide(), ad(5), ent(8))
					run(hide(hid, 6), ad(5), ent(8), hide(), ent(7), ad(5), ent(8))
				}
			}
		}
	}
}

// ---------------------------------------------------------------------------
// the library's own hook, dagsync.MakeGeneralBlockHook, drives the segmented sync

func genGeneralHook(c *vlib.Ctx) {
	counter := 0
	for n := 1; n <= c.Pick(7, 9); n++ {
		w, ch := adWorld(n)
		for seg := int64(1); seg <= int64(n)+1; seg++ { // (n-1) mod seg takes every residue, incl. 0, 1, seg-1
			for _, stop := range []int{0, 1, 2} {
				if stop >= n && stop != 0 {
					continue
				}
				for _, lim := range []int64{0, int64(n) - 1, int64(n)} {
					if lim < 0 || (lim == 0 && stop == 2) {
						continue
					}
					counter++
					cfg := defaultCfg
					call := CallJ{T: "ad", PubHead: n, Stop: stop}
					if counter%2 == 0 {
						cfg.Hook, cfg.SegDepth = "general", seg
					} else {
						cfg.Hook, call.Hook, call.Seg = "silent", "general", seg
					}
					cfg.AdsDepth = lim
					runScn(c, Scn{World: w, Cfg: cfg, Pre: subsetOf(n, (counter*5)%(1<<n)), Oracle: "adchain", Chain: ch,
						Group: fmt.Sprintf("general|n=%d|stop=%d|lim=%d", n, stop, lim),
						Calls: []CallJ{call}}, false)
				}
			}
		}
		// unsegmented, for the group comparison
		cfg := defaultCfg
		cfg.Hook = "general"
		runScn(c, Scn{World: w, Cfg: cfg, Oracle: "adchain", Chain: ch, Group: fmt.Sprintf("general|n=%d|stop=0|lim=0", n),
			Calls: []CallJ{{T: "ad", PubHead: n}}}, false)
	}
}

// ---------------------------------------------------------------------------
// Syncer.Sync called directly with selectors from dagsync's exported builders

func genSelectors(c *vlib.Ctx) {
	counter := 0
	for n := 1; n <= c.Pick(4, 7); n++ {
		type wk struct {
			w     []BlockJ
			ch    []int
			kinds []string
		}
		aw, ach := adWorld(n)
		cw, cch := chunkWorld(n)
		for _, x := range []wk{{aw, ach, []string{"withstop-prev"}}, {cw, cch, []string{"withstop-next", "dagsync", "stopnode-nil"}}} {
			for _, kind := range x.kinds {
				for root := 1; root <= n; root++ {
					k := int64(root)
					for _, stop := range append([]int{0, syncdrv.ForeignRank}, x.ch...) {
						for _, lim := range uniq([]int64{0, 1, 2, k, k + 1}) {
							counter++
							runScn(c, Scn{World: x.w, Cfg: defaultCfg, Pre: subsetOf(n, (counter*3)%(1<<n)), Oracle: "selchain", Chain: x.ch,
								Group: fmt.Sprintf("sel|%s|n=%d|root=%d|stop=%d|lim=%d", map[bool]string{true: "ad", false: "chunk"}[kind == "withstop-prev"], n, root, stop, lim),
								Calls: []CallJ{{T: "sel", Sel: kind, Ent: root, Stop: stop, Depth: lim}}}, false)
						}
					}
				}
			}
		}
	}
	// trees and the non-strict advertisement world under the "recurse all" builders
	tree := []BlockJ{{T: "node"}, {T: "node"}, {T: "node"}, {T: "node", Direct: []int{1}, Nested: []int{2, 3}}, {T: "node", Direct: []int{4}}}
	ads := []BlockJ{{T: "chunk"}, {T: "chunk", Next: 1}, {T: "ad", Entries: 2}, {T: "ad", Prev: 3, Entries: 2}}
	for _, kind := range []string{"dagsync", "stopnode-nil"} {
		for _, lim := range []int64{0, 1, 2, 3} {
			for _, stop := range []int{0, 1, 2, 3, 4} {
				counter++
				tw := tree
				if lim != 0 {
					// a depth limit counts node levels: a link nested in a list costs two, which the
					// model (one level per block) does not follow; limited walks use direct links only
					tw = []BlockJ{{T: "node"}, {T: "node"}, {T: "node"}, {T: "node", Direct: []int{1, 2, 3}}, {T: "node", Direct: []int{4}}}
				}
				runScn(c, Scn{World: tw, Cfg: defaultCfg, Pre: subsetOf(5, (counter*7)%32), Oracle: "none",
					Calls: []CallJ{{T: "sel", Sel: kind, Ent: 5, Stop: stop, Depth: lim}}}, false)
				if stop != 4 {
					runScn(c, Scn{World: ads, Cfg: defaultCfg, Pre: subsetOf(4, (counter*5)%16), Oracle: "none",
						Calls: []CallJ{{T: "sel", Sel: kind, Ent: 4, Stop: stop, Depth: lim}}}, false)
				}
			}
		}
	}
	// the retryable client re-requests a block the publisher fails to serve (observation)
	w4, ch4 := adWorld(3)
	cfg := defaultCfg
	cfg.Retry = 2
	o := execScn(Scn{World: w4, Hidden: []int{2}, Cfg: cfg, Oracle: "none", Chain: ch4, Calls: []CallJ{{T: "ad", PubHead: 3}}})
	c.Eval()
	if len(o.calls) == 1 && o.calls[0].ret == "err" {
		c.Count(fmt.Sprintf("observation:retryable-client-requests-of-a-failing-block=%d", len(o.calls[0].reqs)-1))
	} else {
		failOnce(c, "retry-missing", "retry:missing-block-no-error", "with the retryable client a sync that needs an unavailable block did not fail", nil)
	}
}

// ---------------------------------------------------------------------------
// the publisher's root changes while a head request (of some other client) is being
// served; afterwards the queried head must be the publisher's current root, and syncing to
// the queried head and to the same head given explicitly must agree

func genHeadRace(c *vlib.Ctx) {
	w, ch := adWorld(6)
	ad := func(h int) CallJ { return CallJ{T: "ad", PubHead: h} }
	race := func(during, after int) CallJ { return CallJ{T: "race", PubHead: during, Head: after} }
	for _, seg := range []int64{-1, 2} {
		for during := 1; during <= 4; during++ {
			for _, after := range []int{during + 1, 6} {
				cfg := defaultCfg
				cfg.SegDepth = seg
				run := func(calls ...CallJ) {
					runScn(c, Scn{World: w, Cfg: cfg, Oracle: "adseq", Chain: ch, Calls: calls}, false)
				}
				explicit := CallJ{T: "ad", PubHead: after, Head: after, Resync: true}
				// a fresh subscriber after the race: queried, then explicit, then queried again
				run(race(during, after), ad(after), explicit, ad(after))
				run(race(during, after), explicit, ad(after))
				// an existing subscriber: it synced an older head before the publisher moved on
				if during >= 2 {
					run(ad(during-1), race(during, after), ad(after), explicit)
					run(ad(during-1), ad(during-1), race(during, after), CallJ{T: "remove"}, ad(after), ad(6))
				}
			}
		}
	}
}
