package main

// Concurrency of the per-publisher "latest sync" record.  The property's specification is
// per publisher: what a sync reports depends on THAT publisher's latest synced
// advertisement, and a successful sync records its head as that publisher's latest.  dagsync
// documents that syncs of different publishers may run concurrently on one Subscriber.  So,
// whatever else goes on for OTHER publishers at the same time, after a successful sync of
// publisher p: GetLatestSync(p) = p's head, and a follow-up sync of p reports nothing.
//
//	mode "set":  G goroutines, released together, each call SetLatestSync for its own
//	             distinct peers; afterwards GetLatestSync of every peer is the value set.
//	mode "sync": P publishers (distinct keys, one chain) are synced concurrently on one
//	             Subscriber while a goroutine keeps calling SetLatestSync for B other
//	             peers; then, per publisher: no error, hook log = the chain, GetLatestSync =
//	             the head, and a sequential follow-up sync returns the head and reports
//	             nothing.
//
// Direct oracles only (the model is sequential per publisher: each publisher's history here
// is the two-call sequence [ad; ad] that family "sync" covers).

import (
	"context"
	"crypto/sha256"
	"fmt"
	"runtime"
	"sync"
	"sync/atomic"

	"github.com/ipfs/go-cid"
	cidlink "github.com/ipld/go-ipld-prime/linking/cid"
	ic "github.com/libp2p/go-libp2p/core/crypto"
	"github.com/libp2p/go-libp2p/core/peer"
	"github.com/multiformats/go-multihash"

	"verif/harness/syncdrv"
	"verif/harness/vlib"
)

type ConcScn struct {
	Kind       string `json:"kind"` // concurrent
	Mode       string `json:"mode"` // set | sync
	Goroutines int    `json:"goroutines,omitempty"`
	PerG       int    `json:"per_goroutine,omitempty"`
	Publishers int    `json:"publishers,omitempty"`
	ChainLen   int    `json:"chain_len,omitempty"`
	Background int    `json:"background_peers,omitempty"`
	Rounds     int    `json:"rounds"`
}

func synthPeer(tag string, i, j int) (peer.ID, cid.Cid) {
	d := sha256.Sum256([]byte(fmt.Sprintf("%s peer %d/%d", tag, i, j)))
	mh, _ := multihash.Encode(d[:], multihash.SHA2_256)
	d2 := sha256.Sum256(d[:])
	mh2, _ := multihash.Encode(d2[:], multihash.SHA2_256)
	return peer.ID(mh), cid.NewCidV1(cid.DagJSON, mh2)
}

func latestOf(sub *syncdrv.Sub, p peer.ID) cid.Cid {
	if l := sub.S.GetLatestSync(p); l != nil {
		return l.(cidlink.Link).Cid
	}
	return cid.Undef
}

func withProcs(f func()) {
	prev := runtime.GOMAXPROCS(0)
	if prev < 4 {
		runtime.GOMAXPROCS(4)
		defer runtime.GOMAXPROCS(prev)
	}
	f()
}

// one round of mode "set"; returns a description of the first discrepancy
func concSetRound(sc ConcScn, round int) string {
	sub := syncdrv.NewSub("none")
	defer sub.Close()
	start := make(chan struct{})
	var wg sync.WaitGroup
	for g := 0; g < sc.Goroutines; g++ {
		wg.Add(1)
		go func(g int) {
			defer wg.Done()
			<-start
			for j := 0; j < sc.PerG; j++ {
				p, c := synthPeer(fmt.Sprint("set", round), g, j)
				if err := sub.S.SetLatestSync(p, c); err != nil {
					panic(err)
				}
			}
		}(g)
	}
	close(start)
	wg.Wait()
	lost, first := 0, ""
	for g := 0; g < sc.Goroutines; g++ {
		for j := 0; j < sc.PerG; j++ {
			p, c := synthPeer(fmt.Sprint("set", round), g, j)
			if got := latestOf(sub, p); got != c {
				if lost == 0 {
					first = fmt.Sprintf("peer %d of goroutine %d: SetLatestSync(%s) returned nil, GetLatestSync gives %s", j, g, c, got)
				}
				lost++
			}
		}
	}
	if lost == 0 {
		return ""
	}
	return fmt.Sprintf("round %d: %d of %d latest-sync values set concurrently for DISTINCT peers are lost; %s", round, lost, sc.Goroutines*sc.PerG, first)
}

type concPubs struct {
	w    *syncdrv.World
	srvs []*syncdrv.Server
}

var concWorlds = map[string]*concPubs{}

func getConcPubs(c *vlib.Ctx, n, chain int) *concPubs {
	key := fmt.Sprintf("%d/%d", n, chain)
	if cp, ok := concWorlds[key]; ok {
		return cp
	}
	w := syncdrv.NewWorld("c01-conc")
	w.AdChain(chain, cid.Undef)
	cp := &concPubs{w: w}
	for i := 0; i < n; i++ {
		k, _, err := ic.GenerateEd25519Key(rngReader{vlib.NewRand(uint64(9000 + i))})
		if err != nil {
			panic(err)
		}
		srv := syncdrv.NewServer(w, k)
		srv.Pub.SetRoot(w.CidOf(chain))
		cp.srvs = append(cp.srvs, srv)
	}
	concWorlds[key] = cp
	return cp
}

func closeConcWorlds() {
	for _, cp := range concWorlds {
		for _, s := range cp.srvs {
			s.Close()
		}
	}
}

// one round of mode "sync"; returns (category, description) of the first discrepancy
func concSyncRound(c *vlib.Ctx, sc ConcScn, round int) (string, string) {
	cp := getConcPubs(c, sc.Publishers, sc.ChainLen)
	w := cp.w
	head := w.CidOf(sc.ChainLen)
	for _, s := range cp.srvs {
		s.Reset(nil, nil)
		s.TakeLog()
	}
	sub := syncdrv.NewSub("silent")
	defer sub.Close()
	var stop atomic.Bool
	var bg sync.WaitGroup
	bgPeers := make([]peer.ID, sc.Background)
	bgCids := make([]cid.Cid, sc.Background)
	for j := range bgPeers {
		bgPeers[j], bgCids[j] = synthPeer("bg", 0, j)
	}
	start := make(chan struct{})
	if sc.Background > 0 {
		bg.Add(1)
		go func() {
			defer bg.Done()
			<-start
			for !stop.Load() {
				for j := range bgPeers {
					_ = sub.S.SetLatestSync(bgPeers[j], bgCids[j])
					if j%64 == 0 && stop.Load() {
						return
					}
				}
			}
		}()
	}
	type res struct {
		ret cid.Cid
		err error
		pan string
	}
	out := make([]res, len(cp.srvs))
	var wg sync.WaitGroup
	for i, srv := range cp.srvs {
		wg.Add(1)
		go func(i int, srv *syncdrv.Server) {
			defer wg.Done()
			<-start
			out[i].err, out[i].pan = syncdrv.Call(func(ctx context.Context) error {
				var err error
				out[i].ret, err = sub.S.SyncAdChain(ctx, srv.AddrInfo())
				return err
			})
		}(i, srv)
	}
	close(start)
	wg.Wait()
	stop.Store(true)
	bg.Wait()
	hooks := map[peer.ID][]int{}
	for _, h := range sub.TakeHooks() {
		hooks[h.Peer] = append(hooks[h.Peer], rankOf(w, h.Cid))
	}
	var chain []int
	for r := sc.ChainLen; r >= 1; r-- {
		chain = append(chain, r)
	}
	for i, srv := range cp.srvs {
		if out[i].pan != "" || out[i].err != nil {
			return "concurrent-sync-failed", fmt.Sprintf("round %d: the concurrent sync of publisher %d failed: %v %s", round, i, out[i].err, out[i].pan)
		}
		if out[i].ret != head || !eqInts(hooks[srv.PeerID], chain) {
			return "concurrent-sync-report", fmt.Sprintf("round %d: the concurrent sync of publisher %d returned %s and reported %v; expected the head %s and %v", round, i, out[i].ret, hooks[srv.PeerID], head, chain)
		}
	}
	// the per-publisher latest sync after the successful syncs
	for i, srv := range cp.srvs {
		if got := latestOf(sub, srv.PeerID); got != head {
			return "concurrent-latest-lost", fmt.Sprintf("round %d: publisher %d (%s) was synced successfully up to its head (rank %d) concurrently with the syncs of %d other publishers and SetLatestSync calls for %d other peers, but GetLatestSync for it gives %q (rank %d): its latest-sync record is lost", round, i, srv.PeerID, sc.ChainLen, len(cp.srvs)-1, sc.Background, got.String(), rankOf(w, got))
		}
	}
	// a follow-up sync of each publisher (sequential, nothing else going on) reports nothing
	for i, srv := range cp.srvs {
		var ret cid.Cid
		err, pan := syncdrv.Call(func(ctx context.Context) error {
			var err error
			ret, err = sub.S.SyncAdChain(ctx, srv.AddrInfo())
			return err
		})
		var again []int
		for _, h := range sub.TakeHooks() {
			again = append(again, rankOf(w, h.Cid))
		}
		if err != nil || pan != "" {
			return "concurrent-followup-failed", fmt.Sprintf("round %d: the follow-up sync of publisher %d failed: %v %s", round, i, err, pan)
		}
		if len(again) != 0 {
			return "concurrent-followup-rereports", fmt.Sprintf("round %d: the follow-up sync of publisher %d (already synced up to its head) reported %v again", round, i, again)
		}
		_ = ret
	}
	for j := range bgPeers {
		// the last value set for a background peer is always the same value
		if got := latestOf(sub, bgPeers[j]); got != bgCids[j] {
			return "concurrent-background-lost", fmt.Sprintf("round %d: background peer %d: SetLatestSync(%s) was called at least once, GetLatestSync gives %q", round, j, bgCids[j], got.String())
		}
	}
	return "", ""
}

func runConc(c *vlib.Ctx, sc ConcScn, verbose bool) {
	sc.Kind = "concurrent"
	withProcs(func() {
		for round := 0; round < sc.Rounds; round++ {
			c.Eval()
			c.Count("concurrent:" + sc.Mode + ":rounds")
			var cat, desc string
			switch sc.Mode {
			case "set":
				if desc = concSetRound(sc, round); desc != "" {
					cat = "concurrent-set-lost"
				}
			case "sync":
				cat, desc = concSyncRound(c, sc, round)
			default:
				panic("concurrent mode " + sc.Mode)
			}
			if cat != "" {
				if verbose {
					fmt.Printf("ORACLE FAILURE %s: %s\n", cat, desc)
				}
				failOnce(c, cat, fmt.Sprintf("%s:mode=%s:goroutines=%d:publishers=%d:background=%d", cat, sc.Mode, sc.Goroutines, sc.Publishers, sc.Background), desc, sc)
				return
			}
		}
		if verbose {
			fmt.Printf("concurrent %s: %d rounds, all direct oracles hold (GOMAXPROCS %d)\n", sc.Mode, sc.Rounds, runtime.GOMAXPROCS(0))
		}
	})
	c.Nontrivial(fmt.Sprintf("concurrent|%+v", sc))
}

func genConcurrent(c *vlib.Ctx) {
	runConc(c, ConcScn{Mode: "set", Goroutines: 8, PerG: 250, Rounds: c.Pick(3, 20)}, false)
	runConc(c, ConcScn{Mode: "set", Goroutines: 4, PerG: 50, Rounds: c.Pick(6, 50)}, false)
	runConc(c, ConcScn{Mode: "sync", Publishers: 6, ChainLen: 3, Background: 1500, Rounds: c.Pick(5, 40)}, false)
	runConc(c, ConcScn{Mode: "sync", Publishers: 8, ChainLen: 2, Background: 0, Rounds: c.Pick(5, 40)}, false)
}
