package main

import (
	"context"
	"crypto/rand"
	"fmt"
	"time"

	"github.com/ipfs/go-cid"
	"github.com/ipni/go-libipni/dagsync"
	ic "github.com/libp2p/go-libp2p/core/crypto"

	"verif/harness/syncdrv"
)

func main() {
	key, _, _ := ic.GenerateEd25519Key(rand.Reader)
	w := syncdrv.NewWorld("t")
	chain := w.AdChain(5, cid.Undef)
	for _, b := range w.Blocks {
		fmt.Println(b.Rank, b.Cid, len(b.Raw), b.Edges)
	}
	srv := syncdrv.NewServer(w, key)
	defer srv.Close()
	run := func(name string, hook string, subOpts []dagsync.Option, callOpts []dagsync.SyncOption, pre []int, head cid.Cid) {
		srv.Pub.SetRoot(head)
		srv.Reset(nil, nil)
		sub := syncdrv.NewSub(hook, subOpts...)
		sub.Prestore(w, pre)
		t0 := time.Now()
		var ret cid.Cid
		err, pan := syncdrv.Call(func(ctx context.Context) error {
			var err error
			ret, err = sub.S.SyncAdChain(ctx, srv.AddrInfo(), callOpts...)
			return err
		})
		dt := time.Since(t0)
		var latest int
		if l := sub.S.GetLatestSync(srv.PeerID); l != nil {
			_ = l
		}
		_ = latest
		blocks, heads, other := syncdrv.BlockRequests(srv.TakeLog())
		var hk, rq []int
		for _, h := range sub.TakeHooks() {
			hk = append(hk, w.RankOf(h.Cid))
		}
		for _, c := range blocks {
			rq = append(rq, w.RankOf(c))
		}
		evs := sub.Close()
		st, unk := sub.StoredRanks(w)
		fmt.Printf("%s: ret=%d err=%v pan=%q hooks=%v reqs=%v heads=%d other=%v events=%d store=%v unk=%v dt=%v\n", name, w.RankOf(ret), err, pan, hk, rq, heads, other, len(evs), st, unk, dt)
		for _, e := range evs {
			fmt.Printf("   event cid=%d count=%d err=%v\n", w.RankOf(e.Cid), e.Count, e.Err)
		}
	}
	run("plain", "nominate", nil, nil, nil, chain[0])
	run("seg2", "nominate", []dagsync.Option{dagsync.SegmentDepthLimit(2)}, nil, []int{3}, chain[0])
	run("depth2", "nominate", []dagsync.Option{dagsync.AdsDepthLimit(2)}, nil, nil, chain[0])
	run("stop", "nominate", nil, []dagsync.SyncOption{dagsync.WithStopAdCid(chain[3])}, nil, chain[0])
	run("nohead", "nominate", nil, nil, nil, cid.Undef)
	run("foreignhead", "nominate", nil, []dagsync.SyncOption{dagsync.WithHeadAdCid(syncdrv.ForeignCid())}, nil, chain[0])
	run("nonstrict", "nominate", []dagsync.Option{dagsync.StrictAdsSelector(false)}, nil, nil, chain[0])
	t0 := time.Now()
	for i := 0; i < 200; i++ {
		srv.Pub.SetRoot(chain[0])
		sub := syncdrv.NewSub("nominate")
		syncdrv.Call(func(ctx context.Context) error { _, err := sub.S.SyncAdChain(ctx, srv.AddrInfo()); return err })
		sub.Close()
	}
	fmt.Println("200 syncs", time.Since(t0))
}
