// c01: chain sync fetches and reports exactly the requested chain segment.
//
// A real ipnisync.Publisher behind an httptest server that logs every request, a real
// dagsync.Subscriber (nil libp2p host, memory datastore link system), chains of real
// advertisement / entry-chunk blocks stored with schema.Linkproto (package syncdrv).
// Every scenario is run on the real code; the hook log, the request log, the return
// value, the latest-sync value, the SyncFinished events and the destination store keys
// are written out as one Coq case (family "sync") that the model must reproduce, and
// checked here against a Go recomputation of the property's own `segment`.
package main

import (
	"fmt"
	"runtime/debug"

	logging "github.com/ipfs/go-log/v2"
	ic "github.com/libp2p/go-libp2p/core/crypto"

	"verif/harness/syncdrv"
	"verif/harness/vlib"
)

type rngReader struct{ r *vlib.Rand }

func (r rngReader) Read(p []byte) (int, error) {
	copy(p, r.r.Bytes(len(p)))
	return len(p), nil
}

type replayKind struct {
	Kind string `json:"kind"`
}

func main() {
	debug.SetMemoryLimit(3 << 30)
	logging.SetAllLoggers(logging.LevelFatal)
	c := vlib.Init("C01")
	defer c.Finish()
	rawKey, _, err := ic.GenerateEd25519Key(rngReader{vlib.NewRand(4242)})
	if err != nil {
		panic(err)
	}
	pubKey = syncdrv.NewGatedKey(rawKey)
	c.Family("sync", []string{"From Model Require Import C01_ChainSync."}, "sync_case_ok", 400)
	defer func() {
		for _, bw := range worlds {
			bw.srv.Close()
		}
		closeConcWorlds()
	}()

	if c.Replay != "" {
		var k replayKind
		if err := c.LoadReplay(&k); err != nil {
			panic(err)
		}
		fmt.Printf("replay kind=%s\n", k.Kind)
		if k.Kind == "concurrent" {
			var cs ConcScn
			if err := c.LoadReplay(&cs); err != nil {
				panic(err)
			}
			runConc(c, cs, true)
			return
		}
		var sc Scn
		if err := c.LoadReplay(&sc); err != nil {
			panic(err)
		}
		runScn(c, sc, true)
		return
	}

	c.Res.Exhaustive = true
	c.Res.Rule = "advertisement chains of length 0..5 (quick; 6 sampled) / 0..8 (thorough): head queried or WithHeadAdCid at every position x stop {none, every position incl. the head, foreign CID} given as latest sync / WithStopAdCid / with WithAdsResync / both x depth limit {none,1,k-1,k,k+1} (k = blocks from head to stop) placed as AdsDepthLimit / FirstSyncDepth / ScopedDepthLimit x segment size {off,1,2,k-1,k,k+1} as SegmentDepthLimit / ScopedSegmentDepthLimit, hook general / scoped / silent / none and the pre-stored subset rotating through all 2^n subsets; the full decision table of option resolution on a 3-chain (432 combinations); all 2^n pre-stored subsets for n <= 5 on fixed requests; entries chains of length 0..5 from every position x depth x segment size; SyncOneEntry at every position; SyncHAMTEntries over trees (direct and nested links) with all pre-stored subsets; non-strict advertisement selector over ads with entries; publisher not serving a block (pre-stored or not); two-sync sequences on one subscriber with a growing chain; histories with RemoveHandler and idle-cleaner expiry (IdleHandlerTTL 60 ms) between syncs, with GetLatestSync observed after every step; WithLastKnownSync as a source of the stop point (128 decision-table rows); histories in which the publisher withdraws a block so that a sync fails part way, restores it, and the same subscriber syncs again (other head / stop / depth, entries syncs in between); chains of length 1..7 driven by the library's own dagsync.MakeGeneralBlockHook with every segment size 1..n+1; Syncer.Sync called directly with selectors built by DagsyncSelector / ExploreRecursiveWithStop / ExploreRecursiveWithStopNode (root at every position x every stop link x limit none/1/2/k/k+1, chains, a tree, the non-strict ad world); the retryable HTTP client on a sample; publisher-update-during-head-request schedules (a head request parked in the publisher's Sign while SetRoot moves the root, then queried-head and explicit-head syncs on fresh and existing subscribers); concurrency of the per-publisher latest-sync record (GOMAXPROCS >= 4): 8 x 250 and 4 x 50 SetLatestSync calls for distinct peers released together and read back, and 6 / 8 publishers synced concurrently on one Subscriber (with and without a goroutine calling SetLatestSync for 1500 other peers) followed by GetLatestSync = head and a follow-up sync that reports nothing, for every publisher. " +
		"non-trivial = a call that reported >= 2 blocks under a stop, a depth limit, segmentation or pre-stored blocks"
	genDecisionTable(c)
	genAdChains(c)
	genSubsets(c)
	genEntries(c)
	genTrees(c)
	genNonStrict(c)
	genHidden(c)
	genSequences(c)
	genRemoval(c)
	genLastKnown(c)
	genRetry(c)
	genGeneralHook(c)
	genSelectors(c)
	genHeadRace(c)
	genConcurrent(c)
}
