package main

import (
	"context"
	"encoding/json"
	"errors"
	"fmt"
	"sort"
	"strings"
	"time"

	"github.com/ipfs/go-cid"
	"github.com/ipld/go-ipld-prime"
	cidlink "github.com/ipld/go-ipld-prime/linking/cid"
	basicnode "github.com/ipld/go-ipld-prime/node/basic"
	"github.com/ipld/go-ipld-prime/traversal/selector"
	selectorbuilder "github.com/ipld/go-ipld-prime/traversal/selector/builder"
	"github.com/ipni/go-libipni/dagsync"
	"github.com/libp2p/go-libp2p/core/peer"

	"verif/harness/syncdrv"
	"verif/harness/vlib"
)

// ---------------------------------------------------------------------------
// Scenario description (also the replay format)

// BlockJ builds one block of the publisher world; ranks refer to earlier blocks (0 = none).
type BlockJ struct {
	T       string `json:"t"` // ad | chunk | node
	Prev    int    `json:"prev,omitempty"`
	Entries int    `json:"entries,omitempty"`
	Next    int    `json:"next,omitempty"`
	Direct  []int  `json:"direct,omitempty"`
	Nested  []int  `json:"nested,omitempty"`
}

type CfgJ struct {
	AdsDepth     int64  `json:"ads_depth"`
	FirstDepth   int64  `json:"first_depth"`
	SegDepth     int64  `json:"seg_depth"`
	EntriesDepth int64  `json:"entries_depth"`
	Strict       bool   `json:"strict"`
	Hook         string `json:"hook"`                  // none | nominate | silent | general (dagsync.MakeGeneralBlockHook)
	LastKnown    int    `json:"last_known,omitempty"`  // WithLastKnownSync answers this block for the publisher (0: option not given)
	IdleTTLms    int    `json:"idle_ttl_ms,omitempty"` // IdleHandlerTTL (0: default, one hour)
	Retry        int    `json:"retry,omitempty"`       // RetryableHTTPClient(Retry, 1ms, 2ms) plus AddrTTL and Topic(nil)
}

type CallJ struct {
	T    string `json:"t"`              // ad | entries | one | all | remove (RemoveHandler) | idle (sleep past IdleHandlerTTL) | hide (the publisher's hidden set changes)
	Hide []int  `json:"hide,omitempty"` // t = hide: the blocks the publisher does not serve from now on
	// t = race: SetRoot(PubHead); a head request parks in the publisher's Sign; SetRoot(Head) returns; the request is released
	Sel     string `json:"sel,omitempty"`      // t = sel (Syncer.Sync with a built selector, root Ent, stop Stop, limit Depth): dagsync | stopnode-nil | withstop-prev | withstop-next
	Head    int    `json:"head,omitempty"`     // WithHeadAdCid (rank; 0 = query the publisher)
	Stop    int    `json:"stop,omitempty"`     // WithStopAdCid
	Resync  bool   `json:"resync,omitempty"`   // WithAdsResync
	Depth   int64  `json:"depth,omitempty"`    // ScopedDepthLimit
	Seg     int64  `json:"seg,omitempty"`      // ScopedSegmentDepthLimit
	Hook    string `json:"hook,omitempty"`     // ScopedBlockHook ("" = not given)
	PubHead int    `json:"pub_head,omitempty"` // the publisher's root at the time of the call
	Ent     int    `json:"ent,omitempty"`      // entries CID (0 = cid.Undef)
}

type Scn struct {
	Kind   string   `json:"kind"`
	World  []BlockJ `json:"world"`
	Hidden []int    `json:"hidden,omitempty"` // blocks the publisher does not serve
	Cfg    CfgJ     `json:"cfg"`
	Latest int      `json:"latest,omitempty"` // SetLatestSync before the first call
	Pre    []int    `json:"pre,omitempty"`    // blocks already in the destination store
	Calls  []CallJ  `json:"calls"`
	// what the generator knows, for the direct oracles
	Oracle string `json:"oracle"`           // adchain | entchain | one | tree | adseq | none
	Chain  []int  `json:"chain,omitempty"`  // the chain, in traversal order (newest / first block first)
	Chain2 []int  `json:"chain2,omitempty"` // adseq: the entries chain, first chunk first
	Group  string `json:"group,omitempty"`
}

// ---------------------------------------------------------------------------
// Worlds are cached: the same description gives the same blocks

type builtWorld struct {
	w   *syncdrv.World
	srv *syncdrv.Server
}

var (
	worlds = map[string]*builtWorld{}
	pubKey *syncdrv.GatedKey
)

func getWorld(desc []BlockJ) *builtWorld {
	js, _ := json.Marshal(desc)
	if bw, ok := worlds[string(js)]; ok {
		return bw
	}
	if len(worlds) > 400 {
		for k, bw := range worlds {
			bw.srv.Close()
			delete(worlds, k)
		}
	}
	w := syncdrv.NewWorld("c01")
	c := func(r int) cid.Cid {
		if r == 0 {
			return cid.Undef
		}
		return w.CidOf(r)
	}
	cs := func(rs []int) []cid.Cid {
		var out []cid.Cid
		for _, r := range rs {
			out = append(out, c(r))
		}
		return out
	}
	for _, b := range desc {
		switch b.T {
		case "ad":
			w.AddAd(c(b.Prev), c(b.Entries))
		case "chunk":
			w.AddChunk(c(b.Next))
		case "node":
			w.AddNode(cs(b.Direct), cs(b.Nested))
		default:
			panic("block type " + b.T)
		}
	}
	bw := &builtWorld{w: w, srv: syncdrv.NewServer(w, pubKey)}
	worlds[string(js)] = bw
	return bw
}

// ---------------------------------------------------------------------------
// Running

type callObs struct {
	ret      string // ok | nil | err | panic
	retRank  int
	err      string
	hooks    []int
	hookPeer bool // every hook call named the publisher
	reqs     []int
	heads    int
	other    []string
	latest   int
}

type scnObs struct {
	calls  []callObs
	events [][2]int // (rank, count)
	evErr  bool
	store  []int
	unk    []string
	sub    *syncdrv.Sub
	// a call did not return within syncdrv.CallBound: the scenario was abandoned there
	timedOut int // index of the call + 1; 0 = none
}

func subOptions(c CfgJ, w *syncdrv.World) []dagsync.Option {
	var o []dagsync.Option
	if c.LastKnown != 0 {
		lk := w.CidOf(c.LastKnown)
		o = append(o, dagsync.WithLastKnownSync(func(peer.ID) (cid.Cid, bool) { return lk, true }))
	}
	if c.Retry != 0 {
		o = append(o, dagsync.RetryableHTTPClient(c.Retry, time.Millisecond, 2*time.Millisecond), dagsync.AddrTTL(time.Minute), dagsync.Topic(nil))
	}
	if c.IdleTTLms != 0 {
		o = append(o, dagsync.IdleHandlerTTL(time.Duration(c.IdleTTLms)*time.Millisecond))
	}
	if c.AdsDepth != 0 {
		o = append(o, dagsync.AdsDepthLimit(c.AdsDepth))
	}
	if c.FirstDepth != 0 {
		o = append(o, dagsync.FirstSyncDepth(c.FirstDepth))
	}
	if c.SegDepth != -1 {
		o = append(o, dagsync.SegmentDepthLimit(c.SegDepth))
	}
	if c.EntriesDepth != 0 {
		o = append(o, dagsync.EntriesDepthLimit(c.EntriesDepth))
	}
	if !c.Strict {
		o = append(o, dagsync.StrictAdsSelector(false))
	}
	return o
}

func execScn(sc Scn) scnObs {
	bw := getWorld(sc.World)
	w, srv := bw.w, bw.srv
	var hidden []cid.Cid
	for _, r := range sc.Hidden {
		hidden = append(hidden, w.CidOf(r))
	}
	srv.Reset(hidden, nil)
	sub := syncdrv.NewSub(sc.Cfg.Hook, subOptions(sc.Cfg, w)...)
	sub.Prestore(w, sc.Pre)
	if sc.Latest != 0 {
		if err := sub.S.SetLatestSync(srv.PeerID, w.CidOf(sc.Latest)); err != nil {
			panic(err)
		}
	}
	var out scnObs
	out.sub = sub
	for _, c := range sc.Calls {
		if c.T != "race" {
			srv.Pub.SetRoot(w.CidOf(c.PubHead))
		}
		srv.TakeLog()
		var co callObs
		var ret cid.Cid
		isAd := c.T == "ad"
		if c.T == "race" {
			srv.TakeLog()
			parked, status := srv.HeadRequestAcross(pubKey, w.CidOf(c.PubHead), w.CidOf(c.Head))
			co.err = fmt.Sprintf("parked=%v status=%d", parked, status)
			co.ret, co.hookPeer = "nil", true
			srv.TakeLog()
			if l := sub.S.GetLatestSync(srv.PeerID); l != nil {
				co.latest = rankOf(w, l.(cidlink.Link).Cid)
			}
			out.calls = append(out.calls, co)
			continue
		}
		if c.T == "hide" {
			var hid []cid.Cid
			for _, r := range c.Hide {
				hid = append(hid, w.CidOf(r))
			}
			srv.Reset(hid, nil)
			co.ret, co.hookPeer = "nil", true
			if l := sub.S.GetLatestSync(srv.PeerID); l != nil {
				co.latest = rankOf(w, l.(cidlink.Link).Cid)
			}
			out.calls = append(out.calls, co)
			continue
		}
		if c.T == "remove" || c.T == "idle" {
			if c.T == "remove" {
				co.err = fmt.Sprintf("removed=%v", sub.S.RemoveHandler(srv.PeerID))
			} else {
				// the cleaner ticks every TTL and drops handlers idle for longer than the TTL
				time.Sleep(time.Duration(sc.Cfg.IdleTTLms) * time.Millisecond * 7 / 2)
				co.err = fmt.Sprintf("still-there=%v", sub.S.RemoveHandler(srv.PeerID))
			}
			co.ret, co.hookPeer = "nil", true
			for _, h := range sub.TakeHooks() {
				co.hooks = append(co.hooks, rankOf(w, h.Cid))
			}
			blocks, heads, other := syncdrv.BlockRequests(srv.TakeLog())
			for _, b := range blocks {
				co.reqs = append(co.reqs, rankOf(w, b))
			}
			co.heads, co.other = heads, other
			if l := sub.S.GetLatestSync(srv.PeerID); l != nil {
				co.latest = rankOf(w, l.(cidlink.Link).Cid)
			}
			out.calls = append(out.calls, co)
			continue
		}
		err, pan := syncdrv.Call(func(ctx context.Context) error {
			var so []dagsync.SyncOption
			if c.Depth != 0 {
				so = append(so, dagsync.ScopedDepthLimit(c.Depth))
			}
			if c.Hook != "" {
				so = append(so, dagsync.ScopedBlockHook(sub.MakeHook(c.Hook)))
			}
			switch c.T {
			case "ad":
				if c.Head != 0 {
					so = append(so, dagsync.WithHeadAdCid(w.CidOf(c.Head)))
				}
				if c.Stop != 0 {
					so = append(so, dagsync.WithStopAdCid(w.CidOf(c.Stop)))
				}
				if c.Resync {
					so = append(so, dagsync.WithAdsResync(true))
				}
				if c.Seg != 0 {
					so = append(so, dagsync.ScopedSegmentDepthLimit(c.Seg))
				}
				var err error
				ret, err = sub.S.SyncAdChain(ctx, srv.AddrInfo(), so...)
				return err
			case "entries":
				return sub.S.SyncEntries(ctx, srv.AddrInfo(), w.CidOf(c.Ent), so...)
			case "sel":
				return sub.SyncWithSelector(ctx, srv, w.CidOf(c.Ent), buildSelector(w, c))
			case "one":
				return sub.S.SyncOneEntry(ctx, srv.AddrInfo(), w.CidOf(c.Ent))
			case "all":
				return sub.S.SyncHAMTEntries(ctx, srv.AddrInfo(), w.CidOf(c.Ent), so...)
			}
			panic("call type " + c.T)
		})
		if errors.Is(err, syncdrv.ErrCallTimeout) {
			// the subscriber may be stuck inside the call: it is neither used again nor closed
			out.timedOut = len(out.calls) + 1
			srv.Reset(nil, nil)
			return out
		}
		switch {
		case pan != "":
			co.ret, co.err = "panic", pan
		case err != nil:
			co.ret, co.err = "err", err.Error()
		case isAd:
			co.ret, co.retRank = "ok", rankOf(w, ret)
		default:
			co.ret = "nil"
		}
		co.hookPeer = true
		for _, h := range sub.TakeHooks() {
			co.hooks = append(co.hooks, rankOf(w, h.Cid))
			if h.Peer != srv.PeerID {
				co.hookPeer = false
			}
		}
		blocks, heads, other := syncdrv.BlockRequests(srv.TakeLog())
		for _, b := range blocks {
			co.reqs = append(co.reqs, rankOf(w, b))
		}
		co.heads, co.other = heads, other
		if l := sub.S.GetLatestSync(srv.PeerID); l != nil {
			co.latest = rankOf(w, l.(cidlink.Link).Cid)
		}
		out.calls = append(out.calls, co)
	}
	for _, ev := range sub.Close() {
		if ev.Err != nil {
			out.evErr = true
		}
		out.events = append(out.events, [2]int{rankOf(w, ev.Cid), ev.Count})
	}
	out.store, out.unk = sub.StoredRanks(w)
	return out
}

// buildSelector: the selector of a "sel" call, built with dagsync's exported builders
func buildSelector(w *syncdrv.World, c CallJ) ipld.Node {
	limit := selector.RecursionLimitNone()
	if c.Depth >= 1 {
		limit = selector.RecursionLimitDepth(c.Depth)
	}
	var stop ipld.Link
	if c.Stop != 0 {
		stop = cidlink.Link{Cid: w.CidOf(c.Stop)}
	}
	ssb := selectorbuilder.NewSelectorSpecBuilder(basicnode.Prototype.Any)
	field := func(name string) selectorbuilder.SelectorSpec {
		return ssb.ExploreFields(func(efsb selectorbuilder.ExploreFieldsSpecBuilder) {
			efsb.Insert(name, ssb.ExploreRecursiveEdge())
		})
	}
	switch c.Sel {
	case "dagsync":
		return dagsync.DagsyncSelector(limit, stop)
	case "stopnode-nil":
		return dagsync.ExploreRecursiveWithStopNode(limit, nil, stop)
	case "withstop-prev":
		return dagsync.ExploreRecursiveWithStop(limit, field("PreviousID"), stop)
	case "withstop-next":
		return dagsync.ExploreRecursiveWithStop(limit, field("Next"), stop)
	}
	panic("selector kind " + c.Sel)
}

func selView(kind string) string {
	switch kind {
	case "withstop-prev":
		return "VPrev"
	case "withstop-next":
		return "VNext"
	}
	return "VAll"
}

func rankOf(w *syncdrv.World, c cid.Cid) int {
	if c == cid.Undef {
		return 0
	}
	return w.RankOf(c)
}

// ---------------------------------------------------------------------------
// The specification, recomputed in Go from the property text

func from(ch []int, head int) []int {
	for i, c := range ch {
		if c == head {
			return ch[i:]
		}
	}
	return nil
}

func takeUntil(l []int, stop int) []int {
	var out []int
	for _, c := range l {
		if stop != 0 && c == stop {
			break
		}
		out = append(out, c)
	}
	return out
}

// limit < 1: none
func cut(l []int, limit int64) []int {
	if limit < 1 || int(limit) >= len(l) {
		return l
	}
	return l[:limit]
}

func has(l []int, x int) bool {
	for _, y := range l {
		if x == y {
			return true
		}
	}
	return false
}

func eqInts(a, b []int) bool {
	if len(a) != len(b) {
		return false
	}
	for i := range a {
		if a[i] != b[i] {
			return false
		}
	}
	return true
}

func minus(a, b []int) []int {
	var out []int
	for _, x := range a {
		if !has(b, x) {
			out = append(out, x)
		}
	}
	return out
}

// effective hook of a call
func effHook(sc Scn, c CallJ) string {
	if c.T == "sel" {
		return "silent" // the Sync's own recording hook
	}
	if c.T == "one" || c.Hook == "" || c.Hook == "none" {
		return sc.Cfg.Hook
	}
	return c.Hook
}

type reported map[string]bool

var once = reported{}

func failOnce(c *vlib.Ctx, category, sig, desc string, replay interface{}) {
	c.Count("oracle-fail:" + category)
	if once[category] {
		return
	}
	once[category] = true
	c.Fail(sig, desc, replay)
}

var groups = map[string]string{}

// checkScn applies the direct oracles to a single-call scenario over a chain.  Returns
// category, signature, description of the first failure.
func checkScn(sc Scn, o scnObs) (string, string, string) {
	bw := getWorld(sc.World)
	for i, co := range o.calls {
		if co.ret == "panic" {
			return "panic", fmt.Sprintf("panic:%s:%s", sc.Calls[i].T, co.err), "the sync panicked: " + co.err
		}
		if !co.hookPeer {
			return "hook-peer", "hook:wrong-peer", "a block hook call named another peer than the publisher"
		}
	}
	if len(o.unk) != 0 {
		return "store-unknown", "store:unknown-key:" + o.unk[0], "the destination store holds a key that is no block of the publisher"
	}
	if o.evErr {
		return "event-err", "event:error-event", "a SyncFinished event with an error was emitted by an explicit sync"
	}
	if sc.Oracle == "adseq" {
		return checkSeq(sc, o)
	}
	if sc.Oracle == "none" || len(sc.Calls) != 1 {
		return "", "", ""
	}
	latest0 := sc.Latest
	if latest0 == 0 {
		latest0 = sc.Cfg.LastKnown // GetLatestSync falls back on WithLastKnownSync
	}
	c, co := sc.Calls[0], o.calls[0]
	hook := effHook(sc, c)
	desc := func(what string) string {
		return fmt.Sprintf("%s (call %+v, cfg %+v, latest %d, pre-stored %v, hidden %v): hooks %v, requests %v, return %s %d %s, latest %d, events %v, store %v",
			what, c, sc.Cfg, sc.Latest, sc.Pre, sc.Hidden, co.hooks, co.reqs, co.ret, co.retRank, co.err, co.latest, o.events, o.store)
	}
	sig := func(what string) string {
		return fmt.Sprintf("%s:%s:n=%d:head=%d/%d:stop=%d:latest=%d:resync=%v:depth=%d/%d/%d:seg=%d/%d:hook=%s:pre=%v:hidden=%v",
			what, c.T, len(sc.Chain), c.Head, c.PubHead, c.Stop, sc.Latest, c.Resync, sc.Cfg.AdsDepth, sc.Cfg.FirstDepth, c.Depth,
			sc.Cfg.SegDepth, c.Seg, hook, sc.Pre, sc.Hidden)
	}
	var expected []int
	head, stop := 0, 0
	queried := false
	switch sc.Oracle {
	case "adchain":
		head = c.Head
		if head == 0 {
			head, queried = c.PubHead, true
		}
		stop = c.Stop
		if stop == 0 && !c.Resync {
			stop = latest0
		}
		limit := sc.Cfg.AdsDepth
		if c.Depth != 0 {
			limit = c.Depth
		} else if stop == 0 && sc.Cfg.FirstDepth != 0 {
			limit = sc.Cfg.FirstDepth
		}
		if head == 0 {
			return "", "", "" // no head to query: an error, checked by the model only
		}
		expected = cut(takeUntil(from(sc.Chain, head), stop), limit)
	case "entchain":
		head = c.Ent
		limit := sc.Cfg.EntriesDepth
		if c.Depth != 0 {
			limit = c.Depth
		}
		expected = cut(from(sc.Chain, head), limit)
	case "selchain":
		// the root is always loaded; a link is not followed when it is the stop link
		head = c.Ent
		rest := from(sc.Chain, head)
		if len(rest) > 0 {
			expected = cut(append([]int{head}, takeUntil(rest[1:], c.Stop)...), c.Depth)
		}
	case "one":
		head = c.Ent
		if head != 0 {
			expected = []int{head}
		}
	case "tree":
		head = c.Ent
		var pre func(r int)
		pre = func(r int) {
			expected = append(expected, r)
			for _, e := range bw.w.Blocks[r-1].Edges {
				pre(e.To)
			}
		}
		if head != 0 {
			pre(head)
		}
	}
	// a hook that nominates nothing cuts a segmented sync short: misuse of the API, outside the property
	segdl := sc.Cfg.SegDepth
	if c.T == "ad" && c.Seg != 0 {
		segdl = c.Seg
	}
	if hook == "silent" && segdl > 0 && (c.T == "ad" || c.T == "entries") {
		return "", "", ""
	}
	// needs a block nobody can give: must fail
	for _, r := range expected {
		if r == syncdrv.ForeignRank || (has(sc.Hidden, r) && !has(sc.Pre, r)) {
			if co.ret != "err" {
				return "missing-not-error", sig("missing-block-no-error"), desc("a block of the segment is available nowhere but the sync did not fail")
			}
			return "", "", ""
		}
	}
	if co.ret == "err" {
		return "unexpected-error", sig("error"), desc("the sync failed although every block of the segment is available")
	}
	// hook log: exactly the segment, in order, once each
	if hook != "none" && !eqInts(co.hooks, expected) {
		seen := map[int]bool{}
		for _, h := range co.hooks {
			if seen[h] {
				return "hook-duplicate", sig("hook-duplicate"), desc(fmt.Sprintf("block %d was handed to the hook twice; expected %v", h, expected))
			}
			seen[h] = true
		}
		return "hook-log", sig("hook-log"), desc(fmt.Sprintf("the hook log is not the requested segment %v", expected))
	}
	// requests: exactly the blocks of the segment not already stored, in order
	wantReq := minus(expected, sc.Pre)
	if !eqInts(co.reqs, wantReq) {
		for _, r := range co.reqs {
			switch {
			case has(sc.Pre, r):
				return "req-prestored", sig("requested-prestored"), desc(fmt.Sprintf("block %d was already stored locally but was requested", r))
			case r == stop:
				return "req-stop", sig("requested-stop"), desc(fmt.Sprintf("the stop block %d was requested", r))
			case !has(expected, r):
				return "req-outside", sig("requested-outside"), desc(fmt.Sprintf("block %d is outside the segment %v but was requested", r, expected))
			}
		}
		return "req-log", sig("request-log"), desc(fmt.Sprintf("the requests are not the missing blocks %v of the segment", wantReq))
	}
	// every reported block readable from the destination store
	for _, r := range expected {
		if !has(o.store, r) {
			return "not-stored", sig("not-stored"), desc(fmt.Sprintf("reported block %d is not in the destination store", r))
		}
		if _, err := o.sub.Lsys.Load(ipld.LinkContext{}, cidlink.Link{Cid: bw.w.CidOf(r)}, basicnode.Prototype.Any); err != nil {
			return "not-readable", sig("not-readable"), desc(fmt.Sprintf("reported block %d cannot be loaded from the destination store", r))
		}
	}
	// nothing else was stored
	wantStore := append(append([]int{}, sc.Pre...), expected...)
	sort.Ints(wantStore)
	wantStore = dedup(wantStore)
	if !eqInts(o.store, wantStore) {
		return "store", sig("store"), desc(fmt.Sprintf("the destination store is not pre-stored + segment = %v", wantStore))
	}
	// return value, latest sync, event
	if c.T == "ad" {
		if co.retRank != head {
			return "return", sig("return"), desc(fmt.Sprintf("SyncAdChain did not return the head %d", head))
		}
		wantLatest, wantEvents := latest0, [][2]int(nil)
		if queried && head != stop {
			wantLatest, wantEvents = head, [][2]int{{head, len(expected)}}
		}
		if co.latest != wantLatest {
			return "latest", sig("latest"), desc(fmt.Sprintf("latest sync is not %d", wantLatest))
		}
		if fmt.Sprint(o.events) != fmt.Sprint(wantEvents) {
			return "event", sig("event"), desc(fmt.Sprintf("SyncFinished events are not %v", wantEvents))
		}
		if queried && co.heads != 1 || !queried && co.heads != 0 {
			return "head-queries", sig("head-queries"), desc(fmt.Sprintf("%d head queries", co.heads))
		}
	} else if len(o.events) != 0 || co.latest != latest0 {
		return "entries-latest", sig("entries-latest"), desc("an entries sync changed the latest sync or emitted an event")
	}
	// the same outcome whatever the segment size, the hook placement and the pre-stored subset
	if sc.Group != "" {
		out := fmt.Sprintf("%v|%s|%d|%d|%v", co.hooks, co.ret, co.retRank, co.latest, o.events)
		if hook == "none" {
			out = fmt.Sprintf("-|%s|%d|%d|%v", co.ret, co.retRank, co.latest, o.events)
		}
		key := sc.Group + "|hook=" + fmt.Sprint(hook != "none")
		if prev, ok := groups[key]; ok && prev != out {
			return "group", sig("outcome-depends-on-segment-or-store"), desc("the outcome differs from another run of the same request with another segment size / pre-stored subset: " + prev)
		}
		groups[key] = out
	}
	return "", "", ""
}

// checkSeq: a history of SyncAdChain / SyncEntries calls on one subscriber, with handler
// removals and with blocks withdrawn / restored by the publisher in between, on a strict
// advertisement chain (Chain) and an entries chain (Chain2).  The latest sync, the local
// store and the publisher's hidden set are followed here in Go.  Per the property text:
//   - a successful sync hands the hook exactly the segment, in order, once each, whatever
//     happened before (failed attempts included), and requests exactly its missing blocks;
//   - a sync that needs a block nobody has fails; the hook calls it made (completed
//     segments of a segmented sync; none when unsegmented) are an initial part of the segment.
func checkSeq(sc Scn, o scnObs) (string, string, string) {
	latest := sc.Latest
	if latest == 0 {
		latest = sc.Cfg.LastKnown
	}
	stored := append([]int{}, sc.Pre...)
	hidden := append([]int{}, sc.Hidden...)
	var wantEvents [][2]int
	hist := ""
	for i, c := range sc.Calls {
		co := o.calls[i]
		hist += fmt.Sprintf("%s(%d)->%s%v;", c.T, c.PubHead+c.Ent, co.ret, co.hooks)
		sig := func(what string) string {
			return fmt.Sprintf("seq-%s:step=%d:n=%d:seg=%d:first=%d:ttl=%d:lastknown=%d:hook=%s:%s", what, i, len(sc.Chain), sc.Cfg.SegDepth, sc.Cfg.FirstDepth, sc.Cfg.IdleTTLms, sc.Cfg.LastKnown, sc.Cfg.Hook, callsSig(sc.Calls))
		}
		// one sync over `expected`; segOff: no segmentation in effect
		sync := func(expected []int, segOff bool) (string, string, string, bool) {
			miss := -1
			for k, r := range expected {
				if has(hidden, r) && !has(stored, r) {
					miss = k
					break
				}
			}
			if miss >= 0 {
				if co.ret != "err" {
					return "seq-missing-no-error", sig("missing-block-no-error"), fmt.Sprintf("call %d needs block %d which nobody has, but did not fail (history %s)", i, expected[miss], hist), false
				}
				if len(co.hooks) > miss || !eqInts(co.hooks, expected[:len(co.hooks)]) || (segOff && len(co.hooks) != 0) {
					return "seq-failed-hooks", sig("failed-sync-hook-log"), fmt.Sprintf("call %d failed at block %d; its hook log %v is not an initial part of the segment %v made of completed segments (history %s)", i, expected[miss], co.hooks, expected, hist), false
				}
				wantReq := append(minus(expected[:miss], stored), expected[miss])
				if !eqInts(co.reqs, wantReq) {
					return "seq-failed-reqs", sig("failed-sync-requests"), fmt.Sprintf("call %d: requests %v, expected %v (history %s)", i, co.reqs, wantReq, hist), false
				}
				stored = append(stored, minus(expected[:miss], stored)...)
				return "", "", "", false
			}
			if co.ret == "err" || co.ret == "panic" {
				return "seq-error", sig("error"), fmt.Sprintf("call %d failed although every block of the segment %v is available: %s (history %s)", i, expected, co.err, hist), false
			}
			if !eqInts(co.hooks, expected) {
				seen := map[int]bool{}
				for _, h := range co.hooks {
					if seen[h] {
						return "seq-hook-duplicate", sig("hook-duplicate"),
							fmt.Sprintf("call %d handed block %d to the hook twice: hook log %v, segment %v (history %s)", i, h, co.hooks, expected, hist), false
					}
					seen[h] = true
				}
				return "seq-hook-log", sig("hook-log"),
					fmt.Sprintf("call %d (latest sync %d): the hook log %v is not the segment %v (history %s)", i, latest, co.hooks, expected, hist), false
			}
			if wantReq := minus(expected, stored); !eqInts(co.reqs, wantReq) {
				return "seq-req", sig("requests"), fmt.Sprintf("call %d requested %v, the missing blocks of the segment are %v (history %s)", i, co.reqs, wantReq, hist), false
			}
			stored = append(stored, minus(expected, stored)...)
			return "", "", "", true
		}
		switch c.T {
		case "hide":
			hidden = append([]int{}, c.Hide...)
		case "race":
			if len(co.hooks) != 0 || co.latest != latest {
				return "seq-race-activity", sig("race-step-changed-subscriber"), "a head request of another client changed the subscriber"
			}
		case "remove", "idle":
			if len(co.hooks) != 0 || len(co.reqs) != 0 {
				return "seq-removal-activity", sig("removal-activity"), "removing the handler called the hook or requested blocks"
			}
			if co.latest != latest {
				return "seq-latest-lost", sig("latest-lost-with-handler"),
					fmt.Sprintf("after %s the latest sync of the publisher is %d, it was %d (history %s)", c.T, co.latest, latest, hist)
			}
			if c.T == "idle" && co.err != "still-there=false" {
				return "seq-idle", sig("idle-handler-not-removed"), "the idle cleaner did not remove the handler within 3.5 TTL: " + co.err
			}
		case "entries":
			limit := sc.Cfg.EntriesDepth
			if c.Depth != 0 {
				limit = c.Depth
			}
			segOff := sc.Cfg.SegDepth <= 0 || (limit >= 1 && limit <= sc.Cfg.SegDepth)
			if cat, sg, d, _ := sync(cut(from(sc.Chain2, c.Ent), limit), segOff); cat != "" {
				return cat, sg, d
			}
			if co.latest != latest {
				return "seq-latest", sig("latest"), fmt.Sprintf("an entries sync changed the latest sync to %d", co.latest)
			}
		case "ad":
			head, queried := c.Head, false
			if head == 0 {
				head, queried = c.PubHead, true
			}
			stop := c.Stop
			if stop == 0 && !c.Resync {
				stop = latest
			}
			limit := sc.Cfg.AdsDepth
			if c.Depth != 0 {
				limit = c.Depth
			} else if stop == 0 && sc.Cfg.FirstDepth != 0 {
				limit = sc.Cfg.FirstDepth
			}
			segdl := sc.Cfg.SegDepth
			if c.Seg != 0 {
				segdl = c.Seg
			}
			segOff := segdl <= 0 || (limit >= 1 && limit <= segdl)
			expected := cut(takeUntil(from(sc.Chain, head), stop), limit)
			cat, sg, d, ok := sync(expected, segOff)
			if cat != "" {
				return cat, sg, d
			}
			if ok {
				if co.retRank != head {
					return "seq-return", sig("return"), fmt.Sprintf("call %d did not return the head %d: %s %d %s", i, head, co.ret, co.retRank, co.err)
				}
				if queried && head != stop {
					latest = head
					wantEvents = append(wantEvents, [2]int{head, len(expected)})
				}
			}
			if co.latest != latest {
				return "seq-latest", sig("latest"), fmt.Sprintf("after call %d the latest sync is %d, not %d", i, co.latest, latest)
			}
		}
	}
	if fmt.Sprint(o.events) != fmt.Sprint(wantEvents) {
		return "seq-events", fmt.Sprintf("seq-events:%s", callsSig(sc.Calls)), fmt.Sprintf("SyncFinished events %v, expected %v", o.events, wantEvents)
	}
	return "", "", ""
}

func callsSig(cs []CallJ) string {
	var parts []string
	for _, c := range cs {
		switch c.T {
		case "ad":
			p := fmt.Sprintf("ad%d", c.PubHead)
			if c.Resync {
				p += "r"
			}
			parts = append(parts, p)
		case "entries":
			parts = append(parts, fmt.Sprintf("ent%d", c.Ent))
		case "hide":
			parts = append(parts, fmt.Sprintf("hide%v", c.Hide))
		case "race":
			parts = append(parts, fmt.Sprintf("headreq(root%d)||SetRoot(%d)", c.PubHead, c.Head))
		default:
			parts = append(parts, c.T)
		}
	}
	return strings.Join(parts, ",")
}

func dedup(a []int) []int {
	var out []int
	for i, x := range a {
		if i == 0 || x != a[i-1] {
			out = append(out, x)
		}
	}
	return out
}

// ---------------------------------------------------------------------------
// Coq terms

func coqZ(n int64) string { return vlib.CoqZ(n) }

func coqCids(rs []int) string {
	it := make([]string, len(rs))
	for i, r := range rs {
		it[i] = fmt.Sprint(r)
	}
	return vlib.CoqList(it)
}

func coqOptCid(r int) string {
	if r == 0 {
		return "None"
	}
	return fmt.Sprintf("(Some %d)", r)
}

func coqHook(h string) string {
	switch h {
	case "none":
		return "HNone"
	case "nominate":
		return "HNominate"
	case "silent":
		return "HSilent"
	case "general":
		return "HNominate" // MakeGeneralBlockHook nominates the advertisement's PreviousID
	}
	panic("hook " + h)
}

func coqOptHook(h string) string {
	if h == "" {
		return "None"
	}
	return "(Some " + coqHook(h) + ")"
}

func coqWorld(sc Scn) string {
	bw := getWorld(sc.World)
	var blocks, pub []string
	for _, b := range bw.w.Blocks {
		var es []string
		for _, e := range b.Edges {
			k := map[string]string{"prev": "EPrev", "next": "ENext", "other": "EOther"}[e.Kind]
			es = append(es, fmt.Sprintf("(%s, %d)", k, e.To))
		}
		blocks = append(blocks, fmt.Sprintf("(%d, %s)", b.Rank, vlib.CoqList(es)))
		if !has(sc.Hidden, b.Rank) {
			pub = append(pub, fmt.Sprint(b.Rank))
		}
	}
	return fmt.Sprintf("(WORLD %s %s)", vlib.CoqList(blocks), vlib.CoqList(pub))
}

func coqCase(sc Scn, o scnObs) string {
	cfg := fmt.Sprintf("(CFG %s %s %s %s %s %s %s)", coqZ(sc.Cfg.AdsDepth), coqZ(sc.Cfg.FirstDepth), coqZ(sc.Cfg.SegDepth),
		coqZ(sc.Cfg.EntriesDepth), vlib.CoqBool(sc.Cfg.Strict), coqHook(sc.Cfg.Hook), coqOptCid(sc.Cfg.LastKnown))
	st := fmt.Sprintf("(ST %s %s)", coqOptCid(sc.Latest), coqCids(sc.Pre))
	var calls []string
	curHidden := append([]int{}, sc.Hidden...)
	for i, c := range sc.Calls {
		var ct string
		if c.T == "hide" {
			curHidden = append([]int{}, c.Hide...)
		}
		switch c.T {
		case "ad":
			ct = fmt.Sprintf("(CAd (ADCALL %s %s %s %s %s %s %s))", coqOptCid(c.Head), coqOptCid(c.Stop), vlib.CoqBool(c.Resync),
				coqZ(c.Depth), coqZ(c.Seg), coqOptHook(c.Hook), coqOptCid(c.PubHead))
		case "entries":
			ct = fmt.Sprintf("(CEntries %s %s %s)", coqOptCid(c.Ent), coqZ(c.Depth), coqOptHook(c.Hook))
		case "one":
			ct = fmt.Sprintf("(COne %s)", coqOptCid(c.Ent))
		case "all":
			ct = fmt.Sprintf("(CAll %s %s)", coqOptCid(c.Ent), coqOptHook(c.Hook))
		case "remove":
			ct = "CRemove"
		case "idle":
			ct = "CIdle"
		case "sel":
			lim := "None"
			if c.Depth >= 1 {
				lim = fmt.Sprintf("(Some %d%%nat)", c.Depth)
			}
			ct = fmt.Sprintf("(CSel %s %s %s %d)", selView(c.Sel), coqOptCid(c.Stop), lim, c.Ent)
		case "hide":
			ct = "(CHide " + coqCids(c.Hide) + ")"
		case "race":
			// the publisher's root moved while a head request was in flight: nothing changes for
			// the subscriber; the publisher's head afterwards is the a_pubhead of the later calls
			ct = "(CHide " + coqCids(curHidden) + ")"
		}
		co := o.calls[i]
		ret := "RErr"
		switch co.ret {
		case "ok":
			ret = fmt.Sprintf("(ROk %d)", co.retRank)
		case "nil":
			ret = "RNil"
		case "panic":
			ret = "RPanic"
		}
		ob := fmt.Sprintf("(OBS %s %s %s %s)", ret, coqCids(co.hooks), coqCids(co.reqs), coqOptCid(co.latest))
		calls = append(calls, "("+ct+", "+ob+")")
	}
	var evs []string
	for _, e := range o.events {
		evs = append(evs, fmt.Sprintf("(%d, %d%%nat)", e[0], e[1]))
	}
	return fmt.Sprintf("((%s, %s, %s, %s, %s, %s) : sync_case)", coqWorld(sc), cfg, st, vlib.CoqList(calls), coqCids(o.store), vlib.CoqList(evs))
}

// ---------------------------------------------------------------------------

func runScn(c *vlib.Ctx, sc Scn, verbose bool) {
	sc.Kind = "sync"
	o := execScn(sc)
	c.Eval()
	if o.timedOut != 0 {
		js, _ := json.Marshal(sc.Calls)
		failOnce(c, "sync-timeout", fmt.Sprintf("sync-does-not-return:call=%d:%s", o.timedOut-1, js),
			fmt.Sprintf("call %d did not return within %v although its context expired after 20 s", o.timedOut-1, syncdrv.CallBound), sc)
		return
	}
	if verbose {
		for i, co := range o.calls {
			fmt.Printf("call %d %+v:\n  return %s %d %s\n  hook log %v\n  requests %v (head queries %d, other %v)\n  latest sync %d\n", i, sc.Calls[i], co.ret, co.retRank, co.err, co.hooks, co.reqs, co.heads, co.other, co.latest)
		}
		fmt.Printf("events %v\ndestination store %v %v\n", o.events, o.store, o.unk)
	}
	if cat, sig, desc := checkScn(sc, o); cat != "" {
		if verbose {
			fmt.Printf("ORACLE FAILURE %s: %s\n", sig, desc)
		}
		failOnce(c, cat, sig, desc, sc)
	} else if verbose {
		fmt.Println("all direct oracles hold for this input")
	}
	for i, call := range sc.Calls {
		c.Count("call:" + call.T)
		c.Count("ret:" + o.calls[i].ret)
		c.Count(fmt.Sprintf("hooks:%d", len(o.calls[i].hooks)))
	}
	c.Count("oracle:" + sc.Oracle)
	c.Count(fmt.Sprintf("prestored:%d", len(sc.Pre)))
	if len(sc.Calls) > 1 {
		c.Count("sequences")
	}
	nontrivial := false
	for i, call := range sc.Calls {
		segdl := sc.Cfg.SegDepth
		if call.Seg != 0 {
			segdl = call.Seg
		}
		if len(o.calls[i].hooks) >= 2 && (segdl > 0 || call.Stop != 0 || sc.Latest != 0 || call.Depth != 0 || sc.Cfg.AdsDepth != 0 || sc.Cfg.FirstDepth != 0 || len(sc.Pre) > 0 || sc.Cfg.EntriesDepth != 0) {
			nontrivial = true
		}
	}
	if nontrivial {
		js, _ := json.Marshal(sc)
		c.Nontrivial(string(js))
	}
	c.Case("sync", coqCase(sc, o), sc)
	if nontrivial && strings.Contains(fmt.Sprint(sc.Calls[0].Seg, sc.Cfg.SegDepth), "2") {
		c.Sample(map[string]interface{}{"input": sc, "hooks": o.calls[0].hooks, "requests": o.calls[0].reqs, "store": o.store, "events": o.events})
	}
}
