// c06: the provider cache converges to the freshest record across sources.
//
// Histories of source-content changes, refreshes (plain, with failing sources, cancelled
// at a source index, with overlapping requests), lookups (hit, miss, negative, with a
// Refresh arriving during the miss) and time-to-live expiries are run on a real
// pcache.ProviderCache fed by scripted sources (harness/pcdrv).  After every cache call
// the result, List(), Len() and the per-source call counts are recorded.  pcdrv.Oracle
// checks each history against the property text; every history is also written out for
// the Coq model (model/C06_PCache.v: accepts).
package main

import (
	"encoding/json"
	"fmt"
	"os"
	"sort"
	"sync"
	"time"

	logging "github.com/ipfs/go-log/v2"

	"verif/harness/pcdrv"
	"verif/harness/vlib"
)

const (
	P = 1
	Q = 2
)

// ---------------------------------------------------------------------------
// words over a small alphabet -> concrete histories

type builder struct {
	nsrc int
	cur  []map[int]int64 // per source: pid -> time currently reported
	ops  []pcdrv.Op
}

func newBuilder(nsrc int) *builder {
	b := &builder{nsrc: nsrc}
	for i := 0; i < nsrc; i++ {
		b.cur = append(b.cur, map[int]int64{})
	}
	return b
}

func (b *builder) maxTime(pid int) int64 {
	var m int64
	for _, c := range b.cur {
		if c[pid] > m {
			m = c[pid]
		}
	}
	return m
}

func (b *builder) set(src, pid int, t int64) {
	b.ops = append(b.ops, pcdrv.Set(src, pid, t))
	if t < 0 {
		delete(b.cur[src], pid)
	} else {
		b.cur[src][pid] = t
	}
}

// advance: the source reports pid with a time newer than any source has
func (b *builder) advance(src, pid int) { b.set(src, pid, b.maxTime(pid)+1) }

// regress: the source's record of pid goes back in time (or appears with an old time)
func (b *builder) regress(src, pid int) {
	t, ok := b.cur[src][pid]
	if !ok || t <= 1 {
		b.set(src, pid, 1)
		return
	}
	b.set(src, pid, t-1)
}

func (b *builder) drop(pid int) {
	for s := range b.cur {
		if _, ok := b.cur[s][pid]; ok {
			b.set(s, pid, -1)
		}
	}
}

var symbolNames = []string{
	"adv(s0,P)", "adv(s1,P)", "adv(s0,Q)", "drop(P)", "regress(s0,P)",
	"refresh", "refresh(fail s0)", "refresh(cancel@1)", "refresh(cancel@0)",
	"get(P)", "get(Q)", "expire",
	// thorough tier
	"drop(Q)", "get(P,fail s0)", "adv(s1,Q) without time",
}

func (b *builder) symbol(s int) {
	switch s {
	case 0:
		b.advance(0, P)
	case 1:
		b.advance(1, P)
	case 2:
		b.advance(0, Q)
	case 3:
		b.drop(P)
	case 4:
		b.regress(0, P)
	case 5:
		b.ops = append(b.ops, pcdrv.Refresh())
	case 6:
		b.ops = append(b.ops, pcdrv.RefreshFail(0))
	case 7:
		b.ops = append(b.ops, pcdrv.RefreshCancel(1))
	case 8:
		b.ops = append(b.ops, pcdrv.RefreshCancel(0))
	case 9:
		b.ops = append(b.ops, pcdrv.Get(P))
	case 10:
		b.ops = append(b.ops, pcdrv.Get(Q))
	case 11:
		b.ops = append(b.ops, pcdrv.Expire())
	case 12:
		b.drop(Q)
	case 13:
		o := pcdrv.Get(P)
		o.Fail = []int{0}
		b.ops = append(b.ops, o)
	case 14:
		b.set(1, Q, 0)
	}
}

func wordHistory(warm bool, word []int) pcdrv.History {
	b := newBuilder(2)
	if warm {
		b.set(0, P, 1)
		b.set(1, P, 1)
		b.ops = append(b.ops, pcdrv.Refresh())
	}
	for _, s := range word {
		b.symbol(s)
	}
	return pcdrv.History{NSrc: 2, Ops: b.ops}
}

func randomHistory(r *vlib.Rand) pcdrv.History {
	nsrc := 1 + r.Intn(3)
	npid := 1 + r.Intn(4)
	b := newBuilder(nsrc)
	n := 10 + r.Intn(31)
	for i := 0; i < n; i++ {
		x := r.Intn(100)
		switch {
		case x < 40:
			src, pid := r.Intn(nsrc), 1+r.Intn(npid)
			switch y := r.Intn(100); {
			case y < 55:
				b.advance(src, pid)
			case y < 70:
				b.regress(src, pid)
			case y < 90:
				if r.Bool() {
					b.drop(pid)
				} else if _, ok := b.cur[src][pid]; ok {
					b.set(src, pid, -1)
				}
			case y < 95:
				b.set(src, pid, 0) // no advertisement time
			default:
				b.set(src, pid, b.maxTime(pid)) // same time, another record
			}
		case x < 70:
			o := pcdrv.Refresh()
			switch y := r.Intn(100); {
			case y < 55:
			case y < 70:
				o.Fail = []int{r.Intn(nsrc)}
				if nsrc > 1 && r.Intn(3) == 0 {
					o.Fail = append(o.Fail, r.Intn(nsrc))
				}
			case y < 88:
				o.CancelAt = r.Intn(nsrc)
				if r.Intn(4) == 0 {
					o.Fail = []int{r.Intn(nsrc)}
				}
				if r.Intn(4) == 0 {
					o.Overlap = 1
				}
			default:
				o.Overlap = 1 + r.Intn(2)
			}
			b.ops = append(b.ops, o)
		case x < 92:
			o := pcdrv.Get(1 + r.Intn(npid+1)) // npid+1 is reported by nobody
			if r.Intn(8) == 0 {
				o.Fail = []int{r.Intn(nsrc)}
			}
			if r.Intn(10) == 0 {
				o.DuringMiss = true
			}
			b.ops = append(b.ops, o)
		default:
			b.ops = append(b.ops, pcdrv.Expire())
		}
	}
	return pcdrv.History{NSrc: nsrc, Ops: b.ops}
}

// ---------------------------------------------------------------------------

var ttl = 30 * time.Millisecond

func runOracle(h pcdrv.History) (pcdrv.RunResult, string, int, string) {
	r := pcdrv.RunStable(h, ttl, 4)
	cl, si, msg := pcdrv.Oracle(h.NSrc, r.Steps)
	return r, cl, si, msg
}

// shrink removes ops while the oracle keeps failing with the same class
func shrink(h pcdrv.History, class string) (pcdrv.History, pcdrv.RunResult, string) {
	r, _, _, msg := runOracle(h)
	for changed := true; changed; {
		changed = false
		for i := range h.Ops {
			cand := h
			cand.Ops = append(append([]pcdrv.Op{}, h.Ops[:i]...), h.Ops[i+1:]...)
			if r2, cl, _, m := runOracle(cand); cl == class && r2.TimingOK {
				h, r, msg, changed = cand, r2, m, true
				break
			}
		}
		if changed {
			continue
		}
		// simplify single ops
		for i, o := range h.Ops {
			var alts []pcdrv.Op
			if o.Kind == "refresh" && o.Overlap > 1 {
				a := o
				a.Overlap = 1
				alts = append(alts, a)
			}
			if (o.Kind == "refresh" || o.Kind == "get") && len(o.Fail) > 0 {
				a := o
				a.Fail = nil
				alts = append(alts, a)
			}
			for _, a := range alts {
				cand := h
				cand.Ops = append([]pcdrv.Op{}, h.Ops...)
				cand.Ops[i] = a
				if r2, cl, _, m := runOracle(cand); cl == class && r2.TimingOK {
					h, r, msg, changed = cand, r2, m, true
					break
				}
			}
			if changed {
				break
			}
		}
	}
	return h, r, msg
}

type item struct {
	fam  string
	h    pcdrv.History
	word []int
	res  pcdrv.RunResult
	cl   string
	si   int
	msg  string
}

func main() {
	c := vlib.Init("C06")
	defer c.Finish()
	logging.SetAllLoggers(logging.LevelFatal) // the cache logs every scripted failure
	req := []string{"From Model Require Import C06_PCache."}
	checker := "pcache_case_ok"
	if os.Getenv("VERIF_C06_MODEL") == "v0" {
		// manual validation of the model of the unrepaired code (backs the _refuted lemma)
		checker = "pcache_v0_case_ok"
	}
	c.Family("words", req, checker, 1300)
	c.Family("random", req, checker, 40)
	c.Family("targeted", req, checker, 200)
	c.Family("http", req, checker, 700)

	if c.Replay != "" {
		var h pcdrv.History
		if err := c.LoadReplay(&h); err != nil {
			panic(err)
		}
		r, cl, si, msg := runOracle(h)
		fmt.Printf("replay: nsrc=%d ops=%s\n", h.NSrc, pcdrv.OpsString(h.Ops))
		for i, st := range r.Steps {
			b, _ := json.Marshal(st)
			fmt.Printf("  step %d: %s\n", i, b)
		}
		if !r.TimingOK {
			fmt.Println("  timing margins did not hold:", r.Note)
		}
		c.Eval()
		if cl != "" {
			fmt.Printf("ORACLE-FAIL at step %d: %s\n", si, msg)
			c.Fail(cl+":nsrc="+fmt.Sprint(h.NSrc)+":"+pcdrv.OpsString(h.Ops), msg, h)
		}
		c.Case("targeted", pcdrv.CoqHistory(r.Steps), h)
		return
	}

	var items []*item
	// ---- exhaustive words, from a cold and from a warm cache
	nsym := c.Pick(12, 15)
	wlen := c.Pick(4, 4)
	var gen func(prefix []int)
	gen = func(prefix []int) {
		if len(prefix) == wlen {
			w := append([]int{}, prefix...)
			items = append(items, &item{fam: "words", h: wordHistory(false, w), word: w})
			items = append(items, &item{fam: "words", h: wordHistory(true, w), word: append([]int{-1}, w...)})
			return
		}
		for s := 0; s < nsym; s++ {
			gen(append(prefix, s))
		}
	}
	gen(nil)
	nWords := len(items)

	// ---- targeted: overlapping requests and a Refresh arriving during a miss
	base := []int{0, 2, 5, 10}
	var prefixes [][]int
	prefixes = append(prefixes, nil)
	for _, a := range base {
		prefixes = append(prefixes, []int{a})
		for _, b2 := range base {
			prefixes = append(prefixes, []int{a, b2})
		}
	}
	for _, warm := range []bool{false, true} {
		for _, pre := range prefixes {
			for k := 0; k < 8; k++ {
				h := wordHistory(warm, pre)
				b := &builder{nsrc: 2, ops: h.Ops}
				switch k {
				case 0:
					o := pcdrv.Refresh()
					o.Overlap = 1
					b.ops = append(b.ops, o)
				case 1:
					o := pcdrv.RefreshCancel(1)
					o.Overlap = 1
					b.ops = append(b.ops, o)
				case 2:
					o := pcdrv.RefreshCancel(0)
					o.Overlap = 2
					b.ops = append(b.ops, o)
				case 3:
					o := pcdrv.Get(Q)
					o.DuringMiss = true
					b.ops = append(b.ops, o)
				case 4:
					o := pcdrv.Get(3)
					o.DuringMiss = true
					b.ops = append(b.ops, o)
				case 5:
					// new data at source 0, a refresh held open in it, and a lookup of an
					// uncached provider arriving meanwhile (it queues behind the refresh)
					b.ops = append(b.ops, pcdrv.Set(0, P, 50), pcdrv.Set(0, Q, 50))
					o := pcdrv.Refresh()
					o.MissDuring = 3
					b.ops = append(b.ops, o)
				case 6:
					// a lookup of an uncached provider whose Fetch answer (an OLD record) is
					// already on its way when the source learns a newer one and a Refresh
					// request arrives: the refresh can only run after the miss has stored
					b.ops = append(b.ops, pcdrv.Set(0, 3, 1))
					o := pcdrv.Get(3)
					o.DuringMiss, o.DSet, o.DSrc, o.DTime = true, true, 0, 9
					b.ops = append(b.ops, o)
				case 7:
					// the same with "not found" on its way when the provider appears
					o := pcdrv.Get(3)
					o.DuringMiss, o.DSet, o.DSrc, o.DTime = true, true, 0, 9
					b.ops = append(b.ops, o)
				}
				b.ops = append(b.ops, pcdrv.Get(P), pcdrv.Refresh(), pcdrv.Get(Q))
				items = append(items, &item{fam: "targeted", h: pcdrv.History{NSrc: 2, Ops: b.ops}})
			}
		}
	}
	// outages: a source fails, recovers with an unchanged or a newer record, more than a
	// time-to-live passes, it fails again (the countdown of the first outage must have been
	// cancelled); a miss-fetched provider whose newest source fails at the next refresh
	for _, newer := range []bool{false, true} {
		for _, miss := range []bool{false, true} {
			ops := []pcdrv.Op{pcdrv.Set(0, P, 1)}
			if miss {
				ops = append(ops, pcdrv.Get(P))
			} else {
				ops = append(ops, pcdrv.Refresh())
			}
			ops = append(ops, pcdrv.RefreshFail(0)) // first outage: the countdown starts
			if newer {
				ops = append(ops, pcdrv.Set(0, P, 2))
			}
			ops = append(ops, pcdrv.Refresh(), pcdrv.Expire(), pcdrv.RefreshFail(0), pcdrv.Get(P), pcdrv.Refresh(), pcdrv.Expire(), pcdrv.RefreshFail(0), pcdrv.Expire(), pcdrv.RefreshFail(0), pcdrv.Get(P))
			items = append(items, &item{fam: "targeted", h: pcdrv.History{NSrc: 2, Ops: ops}})
		}
	}
	for _, order := range [][2]int{{0, 1}, {1, 0}} {
		a, b := order[0], order[1] // a holds the newest version
		ops := []pcdrv.Op{pcdrv.Set(b, P, 3), pcdrv.Set(a, P, 5), pcdrv.Get(P), pcdrv.RefreshFail(a), pcdrv.Get(P), pcdrv.Refresh(), pcdrv.RefreshFail(a), pcdrv.Get(P)}
		items = append(items, &item{fam: "targeted", h: pcdrv.History{NSrc: 2, Ops: ops}})
	}
	// option combinations: the time-to-live histories with a refresh interval configured
	// (default 2 minutes, 1 hour; options in both orders); refreshes are explicit
	for opt := 1; opt <= 4; opt++ {
		shapes := [][]pcdrv.Op{
			{pcdrv.Set(0, P, 1), pcdrv.Refresh(), pcdrv.Set(0, P, -1), pcdrv.Refresh(), pcdrv.Expire(), pcdrv.Refresh(), pcdrv.Get(P)},
			{pcdrv.Set(0, P, 1), pcdrv.Set(1, Q, 1), pcdrv.Refresh(), pcdrv.Set(0, P, -1), pcdrv.Refresh(), pcdrv.Refresh(), pcdrv.Expire(), pcdrv.Refresh(), pcdrv.Expire(), pcdrv.Refresh()},
			{pcdrv.Get(Q), pcdrv.Get(Q), pcdrv.Expire(), pcdrv.Refresh(), pcdrv.Set(0, Q, 1), pcdrv.Get(Q), pcdrv.Refresh(), pcdrv.Get(Q)},
			{pcdrv.Set(0, P, 1), pcdrv.Get(P), pcdrv.RefreshFail(0), pcdrv.Expire(), pcdrv.RefreshFail(0), pcdrv.Get(P)},
		}
		for _, ops := range shapes {
			items = append(items, &item{fam: "targeted", h: pcdrv.History{NSrc: 2, Ops: ops, Opts: opt}})
		}
		or := c.Rng.Fork(fmt.Sprint("opts", opt))
		for i := 0; i < c.Pick(12, 200); i++ {
			h := randomHistory(or)
			h.Opts = opt
			items = append(items, &item{fam: "targeted", h: h})
		}
	}
	nTargeted := len(items) - nWords

	// ---- the same sources served over HTTP and read by pcache's own HTTP source: all words
	// of length 3 (cold and warm), and seeded random histories
	nBeforeHTTP := len(items)
	var gen3 func(prefix []int)
	gen3 = func(prefix []int) {
		if len(prefix) == 3 {
			w := append([]int{}, prefix...)
			for _, warm := range []bool{false, true} {
				h := wordHistory(warm, w)
				h.HTTP = true
				items = append(items, &item{fam: "http", h: h})
			}
			return
		}
		for s := 0; s < 12; s++ {
			gen3(append(prefix, s))
		}
	}
	gen3(nil)
	hr := c.Rng.Fork("http-random")
	for i := 0; i < c.Pick(150, 2000); i++ {
		h := randomHistory(hr)
		h.HTTP = true
		items = append(items, &item{fam: "http", h: h})
	}
	nHTTP := len(items) - nBeforeHTTP

	// ---- seeded random histories of length 10..40 over 1..3 sources, 1..4 providers
	rr := c.Rng.Fork("random")
	for i := 0; i < c.Pick(400, 8000); i++ {
		items = append(items, &item{fam: "random", h: randomHistory(rr)})
	}

	// ---- run
	probe := pcdrv.StartProbe()
	jobs := make(chan *item, 256)
	var wg sync.WaitGroup
	for w := 0; w < 96; w++ {
		wg.Add(1)
		go func() {
			defer wg.Done()
			for it := range jobs {
				it.res, it.cl, it.si, it.msg = runOracle(it.h)
			}
		}()
	}
	for _, it := range items {
		jobs <- it
	}
	close(jobs)
	wg.Wait()
	firstPass := probe.Snapshot()

	// ---- histories whose real-time margins did not hold (an epoch did not fit inside the
	// time-to-live, an overlapping request arrived late) are run again, two at a time, with
	// margins 8x wider and several attempts, within a time budget
	var again []*item
	for _, it := range items {
		if !it.res.TimingOK {
			again = append(again, it)
		}
	}
	c.CountN("timing:rerun-with-wider-margins", len(again))
	if len(again) > 0 {
		deadline := time.Now().Add(time.Duration(c.Pick(45, 300)) * time.Second)
		rj := make(chan *item, len(again))
		for _, it := range again {
			rj <- it
		}
		close(rj)
		var rwg sync.WaitGroup
		for w := 0; w < 2; w++ {
			rwg.Add(1)
			go func() {
				defer rwg.Done()
				for it := range rj {
					if time.Now().After(deadline) {
						continue
					}
					r := pcdrv.RunStable(it.h, 8*ttl, 3)
					if r.TimingOK {
						it.res = r
						it.cl, it.si, it.msg = pcdrv.Oracle(it.h.NSrc, r.Steps)
					}
				}
			}()
		}
		rwg.Wait()
	}
	pstats := probe.Stop()
	c.Note("first pass: " + firstPass.String())
	c.Note("whole run: " + pstats.String())

	// ---- account, emit
	unstable := 0
	var firstUnstable *item
	mergeCross := 0
	for i, it := range items {
		c.Eval()
		c.Count("family:" + it.fam)
		if !it.res.TimingOK {
			unstable++
			if firstUnstable == nil {
				firstUnstable = it
			}
			c.Count("not-explored:timing:" + it.res.Note)
			continue
		}
		nontrivial := false
		sawRefreshErr, sawOK := false, false
		prevLen, merges := 0, 0
		for _, st := range it.res.Steps {
			c.Count("step:" + st.Kind)
			if st.Kind == "refresh" {
				if st.Err {
					sawRefreshErr = true
					c.Count("refresh:cancelled")
				} else {
					if sawRefreshErr {
						nontrivial = true // successful refresh after a cancelled one
					}
					sawOK = true
					for _, so := range st.Srcs {
						if so.Kind == "fails" {
							c.Count("refresh:with-failed-source")
							nontrivial = true
						}
					}
				}
			}
			if st.Kind == "get" {
				n := 0
				for _, x := range st.CallsFetch {
					n += x
				}
				switch {
				case n == 0 && st.Got != nil:
					c.Count("get:hit")
				case n == 0:
					c.Count("get:negative-hit")
					nontrivial = true
				case st.Got != nil:
					c.Count("get:miss-found")
				default:
					c.Count("get:miss-not-found")
				}
			}
			if st.Kind == "wait" {
				nontrivial = true
			}
			if !st.NoView {
				// a merge shows as Len dropping to the number of write entries
				if st.Len < prevLen || (prevLen > 0 && st.Len == len(st.List) && st.Len != prevLen) {
					merges++
				}
				prevLen = st.Len
			}
		}
		for _, o := range it.h.Ops {
			if o.Kind == "expire" && sawOK {
				nontrivial = true
				c.Count("op:expire")
			}
		}
		if merges > 1 {
			mergeCross++
		}
		if nontrivial {
			c.Nontrivial(fmt.Sprintf("%s/%d", it.fam, i))
		}
		c.Case(it.fam, pcdrv.CoqHistory(it.res.Steps), it.h)
		if i%4001 == 17 || (it.fam == "random" && i%97 == 0) {
			c.Sample(map[string]interface{}{"history": pcdrv.OpsString(it.h.Ops), "nsrc": it.h.NSrc, "steps": len(it.res.Steps)})
		}
	}
	c.CountN("histories-with-several-size-changes-of-the-maps", mergeCross)
	c.CountN("not-explored:timing", unstable)
	if unstable*50 > len(items) {
		// more than 2% could not be run even with wide margins: the machine, or the code?
		if pstats.Busy(ttl) || firstPass.Busy(ttl) {
			c.Note(fmt.Sprintf("%d of %d histories were NOT explored: their real-time margins did not hold even 8x wider, and the scheduler probe shows the machine was busy (%s); a loaded machine is not a violation", unstable, len(items), pstats.String()))
		} else {
			c.Fail("timing-overrun-on-quiet-machine", fmt.Sprintf("%d of %d histories overran their real-time margins (an epoch of a few cache calls took longer than the %v time-to-live, even 8x wider) although the scheduler probe shows a quiet machine (%s): the cache calls themselves got slow or blocked; first such history: %s (%s)",
				unstable, len(items), ttl, pstats.String(), pcdrv.OpsString(firstUnstable.h.Ops), firstUnstable.res.Note), firstUnstable.h)
		}
	}

	// ---- failures: first of each class in enumeration order, shrunk
	seen := map[string]bool{}
	var classes []string
	firstOf := map[string]*item{}
	for _, it := range items {
		if it.cl == "" || !it.res.TimingOK {
			continue
		}
		c.Count("oracle-failed:" + it.cl)
		if !seen[it.cl] {
			seen[it.cl] = true
			classes = append(classes, it.cl)
			firstOf[it.cl] = it
		}
	}
	sort.SliceStable(classes, func(a, b int) bool { return classRank(classes[a]) < classRank(classes[b]) })
	for _, cl := range classes {
		it := firstOf[cl]
		sh, _, msg := shrink(it.h, cl)
		c.Fail(cl+":nsrc="+fmt.Sprint(sh.NSrc)+histFlags(sh)+":"+pcdrv.OpsString(sh.Ops), msg, sh)
	}

	c.Res.Exhaustive = true
	c.Res.Rule = fmt.Sprintf("all words of length %d over %d symbols {%v} on 2 sources / 2 providers, each from an empty cache and from a warm one (%d histories, exhaustive); %d targeted histories with overlapping Refresh requests, a Refresh arriving during a miss and a miss arriving during a Refresh; %d histories (all words of length 3 + seeded random ones) with the scripted sources served over HTTP and read through pcache.NewHTTPSource; records carry distinguishable content incl. a head-advertisement CID per version and every record handed out is re-read after every later call (it must never change); seeded random histories of 10..40 ops over 1..3 sources and 1..4 providers (+1 nobody reports): content changes (advance, regress, drop, missing time, same time), refresh (plain / failing sources / cancelled at an index / overlapping), lookups (hit, miss, negative, failing source, refresh during the miss), expiries. Real time-to-live %v, one sleep per expiry, every epoch checked to fit inside it. Non-trivial = contains a successful refresh after a cancelled one, a failing source, a negative hit, a waiting request or an expiry after a successful refresh", wlen, nsym, symbolNames[:nsym], nWords, nTargeted, nHTTP, ttl)
}

func histFlags(h pcdrv.History) string {
	s := ""
	if h.HTTP {
		s += ":http"
	}
	if h.Opts != 0 {
		s += ":" + []string{"", "ttl,default-interval", "default-interval,ttl", "interval-1h,ttl", "ttl,interval-1h"}[h.Opts]
	}
	return s
}

func classRank(cl string) int {
	order := []string{"panic", "held-record-mutated", "record-not-as-reported", "refresh-missing-provider", "refresh-stale-record", "wait-missing-provider", "wait-during-miss-missing-provider", "wait-stale-record", "wait-during-miss-stale-record"}
	for i, o := range order {
		if o == cl {
			return i
		}
	}
	return len(order)
}
