// c05: advertisement signatures verify exactly what was signed, and by whom.
//
// Real Sign / SignWithExtendedProviders / VerifySignature with real keys of all four
// libp2p key types.  A scenario = advertisement shape x key assignment to the
// extended-provider entries x one mutation x codec round trip.  The Coq model is
// symbolic: it gets the scenario as presented to VerifySignature (values, parsed
// envelopes, who a signature verifies for), never signature bytes; compared: ok / error /
// panic and the signer.  Direct oracles from the property text decide VIOLATIONs.
//
// Families: verify (one presentation to VerifySignature), sign (the envelopes Sign /
// SignWithExtendedProviders produced, payload bytes exact).
package main

import (
	"encoding/json"
	"fmt"
	"runtime/debug"
	"strings"

	"github.com/ipni/go-libipni/ingest/schema"
	"github.com/libp2p/go-libp2p/core/crypto"
	recpb "github.com/libp2p/go-libp2p/core/record/pb"
	"google.golang.org/protobuf/proto"

	"verif/harness/keypool"
	"verif/harness/vlib"
)

var pool *keypool.Pool

// nSmall: the identities the general generators draw from (pool indices 0..nSmall-1);
// bigKey: index of the RSA-4096 identity, -1 when absent
var nSmall = 8
var bigKey = -1

func envelopeSignature(b []byte) []byte {
	var e recpb.Envelope
	if err := proto.Unmarshal(b, &e); err != nil {
		return nil
	}
	return e.Signature
}

type run struct {
	c        *vlib.Ctx
	failed   map[string]int
	seen     map[string]bool // Coq case terms already emitted
	wireTick int
}

// ---------------------------------------------------------------------------
// what the property demands of a scenario: "ok" (verifies, signer = who signed),
// "fail" (must be rejected), "any" (outside the claim; only the model is compared)

func properSealer(sc *scenario, e epSpec) int {
	if e.Named == sc.Provider {
		return sc.Signer
	}
	return e.Named
}

// sealerOf: the key that actually seals entry i.  SignWithExtendedProviders asks its key
// fetcher BY ID, so every entry other than the main provider's gets the key chosen for the
// FIRST entry with that ID string (a later copy cannot be given a key of its own); the main
// provider's entries are sealed per entry (ad signer, or a foreign key through a second signing).
func sealerOf(sc *scenario, i int) int {
	e := sc.Eps[i]
	if e.Named != sc.Provider {
		for _, f := range sc.Eps {
			if f.Named != sc.Provider && sc.epStr(f) == sc.epStr(e) {
				e = f
				break
			}
		}
	}
	if e.Sealer >= 0 {
		return e.Sealer
	}
	return properSealer(sc, e)
}

func keysProper(sc *scenario) bool {
	for i, e := range sc.Eps {
		if e.Named != sc.Provider && e.Spell == spellJunk {
			return false // the entry names no identity at all
		}
		if sealerOf(sc, i) != properSealer(sc, e) {
			return false
		}
	}
	return true
}

// sameSigned: two entries with the same ID, the same addresses and metadata and the same
// sealing key carry interchangeable signatures
func sameSigned(sc *scenario, i, j int) bool {
	a, b := sc.Eps[i], sc.Eps[j]
	sameValues := (a.LikeAd && b.LikeAd) || (!a.LikeAd && !b.LikeAd && a.NAddrs == 0 && b.NAddrs == 0 && a.MdLen == 0 && b.MdLen == 0)
	return sc.epStr(a) == sc.epStr(b) && sameValues && sealerOf(sc, i) == sealerOf(sc, j)
}

func mainListed(sc *scenario) bool {
	for _, e := range sc.Eps {
		if e.Named == sc.Provider {
			return true
		}
	}
	return false
}

// signable: the library refuses to sign removal ads with extended providers and
// extended providers that do not list the main provider
func signable(sc *scenario) bool {
	if len(sc.Eps) > 0 && (sc.Rm || !mainListed(sc)) {
		return false
	}
	return true
}

func expect(sc *scenario) (want string, signer int) {
	base := "ok"
	if !keysProper(sc) {
		base = "fail"
	}
	hasEps := len(sc.Eps) > 0
	m := sc.Mut
	switch m.Kind {
	case "":
		return base, sc.Signer
	case "prev", "entries", "provider", "addr", "metadata", "rm", "respell", "ep-respell":
		return "fail", 0
	case "ctx", "override":
		if hasEps {
			return "fail", 0
		}
		return base, sc.Signer // no extended provider signature covers it
	case "ep-id-earlier", "ep-dup-garbage":
		return "fail", 0
	case "ep-swap-sigs":
		// two entries exchange signatures: nothing changes when they carry the same ID and
		// values and are sealed by the same key (two copies of one entry)
		if n := len(sc.Eps); n >= 2 && sameSigned(sc, m.Ep%n, (m.Ep+1)%n) {
			return base, sc.Signer
		}
		return "fail", 0
	case "ep-id", "ep-addr", "ep-md", "ep-clear-md", "ep-clear-addrs", "ep-copy-md", "ep-copy-addrs":
		return "fail", 0
	case "ep-attach":
		// entries attached after signing: every entry is checked whatever the other fields
		// are; a removal advertisement cannot carry any
		attachMain := false
		for _, e := range sc.Attach {
			attachMain = attachMain || e.Named == sc.Provider
		}
		switch {
		case sc.Rm:
			return "fail", 0
		case m.Index%4 == 1 && attachMain && base == "ok":
			return "any", 0 // genuinely signed entries on a genuinely signed ad: accepted (the list is not covered by the ad signature)
		case m.Index%4 == 1 && attachMain:
			return "fail", 0
		}
		return "fail", 0 // unsigned, foreign-sealed, or without the main provider
	case "ep-drop":
		mains := 0
		for _, e := range sc.Eps {
			if e.Named == sc.Provider {
				mains++
			}
		}
		if sc.Eps[m.Ep].Named == sc.Provider && mains == 1 && len(sc.Eps) > 1 {
			return "fail", 0 // main provider no longer listed
		}
		return "any", 0
	case "env-key", "env-payload", "env-sig", "env-type", "env-byte",
		"sig-empty", "sig-nil", "sig-garbage", "sig-truncate", "sig-append":
		return "fail", 0
	case "resign-other":
		// the advertisement's envelope now comes from key k: every entry must be proper
		// with respect to the new signer (the main provider's entry sealed by k)
		k := m.Index % nSmall
		for i, e := range sc.Eps {
			sealer := sealerOf(sc, i)
			want := e.Named
			if e.Named == sc.Provider {
				want = k
			}
			if sealer != want {
				return "fail", 0
			}
		}
		return "ok", k
	}
	return "any", 0 // ep-dup, ext-remove, shift, ep-sig-as-ad-sig, nil-entries
}

// ---------------------------------------------------------------------------

type built struct {
	ad      *schema.Advertisement
	signErr error
	applied bool
	rtErr   error
}

// build runs the pipeline: content, sign, codec round trip, mutation.  The signed
// advertisement of a scenario does not depend on the mutation and is made once.
var signedCache = map[string]*schema.Advertisement{}

func build(sc *scenario) built {
	base := *sc
	base.Mut = mutation{}
	kb, _ := json.Marshal(base)
	key := string(kb)
	ad, ok := signedCache[key]
	if !ok {
		ad = unsignedAd(sc)
		if err := signSafe(sc, ad); err != nil {
			return built{ad: ad, signErr: err}
		}
		if sc.Codec != "" {
			rt, err := roundTrip(ad, sc.Codec)
			if err != nil {
				return built{ad: ad, rtErr: err}
			}
			ad = rt
		}
		if len(signedCache) > 20000 {
			signedCache = map[string]*schema.Advertisement{}
		}
		signedCache[key] = ad
	}
	ad = cloneAd(ad)
	applied := applyMutation(sc, ad)
	return built{ad: ad, applied: applied}
}

func signSafe(sc *scenario, ad *schema.Advertisement) (err error) {
	defer func() {
		if p := recover(); p != nil {
			err = fmt.Errorf("panic while signing: %v", p)
		}
	}()
	return signReal(sc, ad)
}

// check = one scenario: real verdict, oracles, Coq case.  Returns "" or what failed.
func (r *run) check(sc *scenario, emit bool) string {
	b := build(sc)
	if b.signErr != nil {
		if signable(sc) {
			return "signing failed: " + b.signErr.Error()
		}
		return ""
	}
	if !signable(sc) {
		return "the library signed an advertisement it documents as unsignable"
	}
	if b.rtErr != nil {
		return "codec round trip of a signed advertisement failed: " + b.rtErr.Error()
	}
	if !b.applied {
		return ""
	}
	obs := verifyReal(b.ad)
	if emit {
		r.c.Eval()
		r.c.Count("verify:" + obs.Kind)
		r.c.Count("mut:" + sc.Mut.Kind)
		switch sc.Mut.Kind {
		case "ep-sig-as-ad-sig", "shift", "ext-remove", "nil-entries", "ep-dup":
			r.c.Count("outside-the-claim:" + sc.Mut.Kind + ":" + obs.Kind)
		}
		// equal presentations with equal outcomes are one model evaluation
		if term := coqVerifyCase(b.ad, obs); !r.seen[term] {
			r.seen[term] = true
			r.c.Case("verify", term, sc)
		} else {
			r.c.Count("verify-cases-identical-to-an-earlier-one")
		}
	}
	if obs.Kind == "panic" && sc.Mut.Kind != "nil-entries" {
		return "VerifySignature panicked: " + obs.Msg
	}
	want, signer := expect(sc)
	switch want {
	case "ok":
		if obs.Kind != "ok" {
			return "a correctly signed advertisement was rejected: " + obs.String()
		}
		if obs.Signer != signer {
			return fmt.Sprintf("verification returned signer %d, the advertisement was signed by key %d", obs.Signer, signer)
		}
	case "fail":
		if obs.Kind == "ok" {
			return "verification succeeded (signer " + fmt.Sprint(obs.Signer) + "), the property demands rejection: " + whyFail(sc)
		}
	}
	// over the wire, through the composed model
	if emit && r.wireWanted(sc) {
		if msg := r.wireCheck(sc, b.ad, obs); msg != "" {
			return msg
		}
	}
	// the verdict survives both serialisations
	if sc.Mut.Kind != "nil-entries" && sc.Mut.Kind != "ep-sig-as-ad-sig" && (sc.Mut.Kind != "env-byte" || sc.Mut.Index%8 == 0) {
		for _, codec := range []string{"dag-json", "dag-cbor"} {
			rt, err := roundTrip(b.ad, codec)
			if err != nil {
				return codec + " round trip failed: " + err.Error()
			}
			if d := fieldDiff(b.ad, rt); d != "" {
				return fmt.Sprintf("after a %s round trip the advertisement differs from the one encoded: %s", codec, d)
			}
			if emit && sc.Mut.Kind == "" && (spelled(sc) || sc.Seed%4 == 1) {
				r.rtCase(b.ad, rt, sc)
			}
			o2 := verifyReal(rt)
			if emit {
				r.c.Count("oracle:round-trip-stable")
			}
			if !o2.same(obs) {
				return fmt.Sprintf("after a %s round trip verification gives %s, before %s", codec, o2, obs)
			}
		}
	}
	return ""
}

// wireWanted: which scenarios also go over the wire (all of the shape / key-assignment
// families, a sample of the rest)
func (r *run) wireWanted(sc *scenario) bool {
	switch sc.Mut.Kind {
	case "nil-entries", "ep-sig-as-ad-sig":
		return false
	case "":
		return true
	}
	if r.c.Replay != "" {
		return true // a replay always goes over the wire too
	}
	switch sc.Mut.Kind {
	case "env-byte":
		r.wireTick++
		return r.wireTick%r.c.Pick(60, 10) == 0
	}
	r.wireTick++
	return r.wireTick%r.c.Pick(14, 2) == 0
}

// fieldDiff: the first field in which two advertisements differ byte for byte ("" = none;
// a nil and an empty slice are one value on the wire)
func fieldDiff(a, b *schema.Advertisement) string {
	lb := func(l interface{}) string { return string(linkBytes(l)) }
	strs := func(x, y []string) bool {
		if len(x) != len(y) {
			return false
		}
		for i := range x {
			if x[i] != y[i] {
				return false
			}
		}
		return true
	}
	switch {
	case (a.PreviousID == nil) != (b.PreviousID == nil) || lb(a.PreviousID) != lb(b.PreviousID):
		return "PreviousID"
	case lb(a.Entries) != lb(b.Entries):
		return "Entries"
	case a.Provider != b.Provider:
		return fmt.Sprintf("Provider %q became %q", a.Provider, b.Provider)
	case !strs(a.Addresses, b.Addresses):
		return "Addresses"
	case string(a.ContextID) != string(b.ContextID):
		return "ContextID"
	case string(a.Metadata) != string(b.Metadata):
		return "Metadata"
	case a.IsRm != b.IsRm:
		return "IsRm"
	case string(a.Signature) != string(b.Signature):
		return "Signature"
	case (a.ExtendedProvider == nil) != (b.ExtendedProvider == nil):
		return "ExtendedProvider"
	}
	if a.ExtendedProvider != nil {
		x, y := a.ExtendedProvider, b.ExtendedProvider
		if x.Override != y.Override || len(x.Providers) != len(y.Providers) {
			return "ExtendedProvider"
		}
		for i := range x.Providers {
			p, q := x.Providers[i], y.Providers[i]
			switch {
			case p.ID != q.ID:
				return fmt.Sprintf("ExtendedProvider.Providers[%d].ID %q became %q", i, p.ID, q.ID)
			case !strs(p.Addresses, q.Addresses):
				return fmt.Sprintf("ExtendedProvider.Providers[%d].Addresses", i)
			case string(p.Metadata) != string(q.Metadata):
				return fmt.Sprintf("ExtendedProvider.Providers[%d].Metadata", i)
			case string(p.Signature) != string(q.Signature):
				return fmt.Sprintf("ExtendedProvider.Providers[%d].Signature", i)
			}
		}
	}
	return ""
}

// rtCase: the advertisement as encoded and as decoded, for the model to compare the signed
// payload bytes of the two
func (r *run) rtCase(before, after *schema.Advertisement, sc *scenario) {
	v1, v2 := &viewer{}, &viewer{}
	term := fmt.Sprintf("(%s, %s)", v1.coqAd(before, true), v2.coqAd(after, true))
	if r.seen[term] {
		return
	}
	r.seen[term] = true
	r.c.Eval()
	r.c.Count("rt")
	r.c.Case("rt", term, sc)
}

func whyFail(sc *scenario) string {
	switch sc.Mut.Kind {
	case "ep-clear-md", "ep-clear-addrs", "ep-copy-md", "ep-copy-addrs":
		which := "an extended provider's entry"
		if sc.Mut.Ep >= 0 && sc.Mut.Ep < len(sc.Eps) && sc.Eps[sc.Mut.Ep].Named == sc.Provider {
			which = "the main provider's entry"
		}
		what := map[string]string{"ep-clear-md": "metadata cleared", "ep-clear-addrs": "addresses cleared",
			"ep-copy-md": "metadata replaced by the advertisement's own", "ep-copy-addrs": "addresses replaced by the advertisement's own"}[sc.Mut.Kind]
		return which + " had its " + what + " after signing"
	}
	if sc.Mut.Kind == "ep-attach" {
		how := []string{"unsigned", "genuinely signed", "one sealed by a foreign key", "genuinely signed, the main provider's left out"}[sc.Mut.Index%4]
		what := "advertisement"
		if sc.Rm {
			what = "REMOVAL advertisement (which cannot carry extended providers)"
		}
		return fmt.Sprintf("%d extended-provider entries (%s) were attached to the signed %s", len(sc.Attach), how, what)
	}
	if sc.Mut.Kind != "" {
		return "mutation " + sc.Mut.Kind
	}
	for i, e := range sc.Eps {
		if k := sealerOf(sc, i); k != properSealer(sc, e) {
			if e.Named == sc.Provider {
				return fmt.Sprintf("entry %d (the main provider's) is sealed by key %d, not by the ad signer %d", i, k, sc.Signer)
			}
			return fmt.Sprintf("entry %d names identity %d but is sealed by key %d", i, e.Named, k)
		}
	}
	return ""
}

// ---------------------------------------------------------------------------
// shrinking and signatures

func (sc *scenario) clone() *scenario {
	c := *sc
	c.Eps = append([]epSpec{}, sc.Eps...)
	return &c
}

func (r *run) shrink(sc *scenario) *scenario {
	fails := func(s *scenario) bool {
		defer func() { _ = recover() }()
		return r.check(s, false) != ""
	}
	cur := sc.clone()
	try := func(f func(s *scenario)) {
		t := cur.clone()
		f(t)
		if fails(t) {
			cur = t
		}
	}
	try(func(s *scenario) { s.Mut = mutation{Ep: -1} }) // does it fail without the mutation?
	try(func(s *scenario) { s.Codec = "" })
	try(func(s *scenario) { s.OldFormat = false })
	try(func(s *scenario) { s.Prev = false })
	try(func(s *scenario) { s.NoEntries = true })
	try(func(s *scenario) { s.Rm = false })
	try(func(s *scenario) { s.Override = false })
	try(func(s *scenario) { s.NAddrs = 0 })
	try(func(s *scenario) { s.MdLen = 0 })
	try(func(s *scenario) { s.CtxLen = 0 })
	for changed := true; changed; {
		changed = false
		for i := range cur.Eps {
			t := cur.clone()
			t.Eps = append(t.Eps[:i:i], t.Eps[i+1:]...)
			if t.Mut.Ep > i {
				t.Mut.Ep--
			} else if t.Mut.Ep == i && t.Mut.Kind != "" {
				continue
			}
			if fails(t) {
				cur, changed = t, true
				break
			}
		}
	}
	for len(cur.Attach) > 1 {
		n := len(cur.Attach)
		try(func(s *scenario) { s.Attach = s.Attach[:len(s.Attach)-1] })
		try(func(s *scenario) {
			if len(s.Attach) > 1 {
				s.Attach = s.Attach[1:]
			}
		})
		if len(cur.Attach) == n {
			break
		}
	}
	try(func(s *scenario) { s.AttachOv = false })
	for i := range cur.Eps {
		try(func(s *scenario) { s.Eps[i].NAddrs = 0 })
		try(func(s *scenario) { s.Eps[i].MdLen = 0 })
		try(func(s *scenario) { s.Eps[i].Sealer = -1 })
	}
	try(func(s *scenario) { s.PSpell = 0 })
	for i := range cur.Eps {
		try(func(s *scenario) { s.Eps[i].Spell = 0 })
	}
	try(func(s *scenario) { s.Provider = s.Signer }) // provider signs for itself
	try(func(s *scenario) { s.Seed = 1 })
	// ed25519 keys where the key type does not matter
	for i := range cur.Eps {
		try(func(s *scenario) {
			if s.Eps[i].Sealer >= 0 {
				s.Eps[i].Sealer = firstOther(s.Eps[i].Named, s.Signer)
			}
		})
	}
	return cur
}

func firstOther(a, b int) int {
	for i := range pool.Ids {
		if i != a && i != b {
			return i
		}
	}
	return 0
}

func scenarioSig(sc *scenario) string {
	var eps []string
	for i, e := range sc.Eps {
		role := "other"
		if e.Named == sc.Provider {
			role = "main"
		}
		for _, f := range sc.Eps[:i] {
			if f.Named == e.Named {
				role += "(same ID as an earlier entry)"
				break
			}
		}
		if e.Named == bigKey && bigKey >= 0 {
			role += "(rsa4096)"
		}
		seal := "proper"
		if k := sealerOf(sc, i); k != properSealer(sc, e) {
			seal = "foreign"
			if k == sc.Signer {
				seal = "adsigner"
			}
		}
		if e.LikeAd {
			role += "=ad"
		} else if e.MdLen == 0 || e.NAddrs == 0 {
			role += fmt.Sprintf("(a%d,m%d)", e.NAddrs, e.MdLen)
		}
		eps = append(eps, role+":"+seal)
	}
	shape := ""
	if sc.Prev {
		shape += "+prev"
	}
	if sc.Rm {
		shape += "+rm"
	}
	if sc.Ext {
		shape += "+ext"
	}
	if sc.Override {
		shape += "+override"
	}
	if sc.OldFormat {
		shape += "+oldformat"
	}
	if sc.Signer == bigKey && bigKey >= 0 {
		shape += "+signer:rsa4096"
	}
	if sc.PSpell != 0 {
		shape += "+provider:" + spellName[sc.PSpell]
	}
	for i, e := range sc.Eps {
		if e.Named != sc.Provider && e.Spell != 0 {
			shape += fmt.Sprintf("+ep%d:%s", i, spellName[e.Spell])
		}
	}
	if sc.Codec != "" {
		shape += "+" + sc.Codec
	}
	mut := sc.Mut.Kind
	if mut == "ep-attach" {
		mut = fmt.Sprintf("ep-attach[%d entries,%s]", len(sc.Attach), []string{"unsigned", "genuine", "one-foreign", "main-left-out"}[sc.Mut.Index%4])
	}
	if mut == "" {
		mut = "none"
	} else if sc.Mut.Ep >= 0 && strings.HasPrefix(mut, "e") {
		mut += fmt.Sprintf("@ep%d", sc.Mut.Ep)
	}
	if sc.Mut.Kind == "env-byte" {
		mut += fmt.Sprintf("[%d^%02x]/%s", sc.Mut.Index, sc.Mut.Mask, pool.Ids[envKeyOf(sc)].Type)
	}
	return fmt.Sprintf("verify:shape=%s:eps=[%s]:mut=%s", shape, strings.Join(eps, ","), mut)
}

func spelled(sc *scenario) bool {
	if sc.PSpell != 0 {
		return true
	}
	for _, e := range sc.Eps {
		if e.Spell != 0 {
			return true
		}
	}
	return false
}

var spellName = []string{"base58", "cidv1-base32", "cidv1-base36", "junk"}

func envKeyOf(sc *scenario) int {
	if sc.Mut.Ep >= 0 && sc.Mut.Ep < len(sc.Eps) {
		return sealerOf(sc, sc.Mut.Ep)
	}
	return sc.Signer
}

func (r *run) scenario(sc *scenario) {
	msg := r.check(sc, true)
	if msg == "" {
		return
	}
	class := sc.Mut.Kind + "/" + fmt.Sprint(keysProper(sc))
	r.failed[class]++
	r.c.Count("oracle-failed:" + class)
	if r.failed[class] > 2 {
		return
	}
	s := r.shrink(sc)
	m2 := r.check(s, false)
	if m2 == "" {
		s, m2 = sc, msg
	}
	r.c.Fail(scenarioSig(s), m2, s)
}

// ---------------------------------------------------------------------------
// the sign family: what Sign / SignWithExtendedProviders produce, byte-exact payloads

func (r *run) signCase(sc *scenario, plain bool, dropFetch int) {
	ad := unsignedAd(sc)
	un := cloneAd(ad)
	fetchTbl := []string{}
	fetch := func(id string) (crypto.PrivKey, error) {
		for i, e := range sc.Eps {
			if sc.epStr(e) == id && i != dropFetch {
				return pool.Ids[e.Named].Priv, nil
			}
		}
		return nil, fmt.Errorf("no key for %s", id)
	}
	seen := map[int]bool{}
	for i, e := range sc.Eps {
		if i != dropFetch && !seen[e.Named] {
			seen[e.Named] = true
			fetchTbl = append(fetchTbl, fmt.Sprintf("(%s, %d)", coqBytes([]byte(sc.epStr(e))), e.Named))
		}
	}
	var err error
	func() {
		defer func() {
			if p := recover(); p != nil {
				err = fmt.Errorf("panic: %v", p)
				r.c.Fail("sign:panic:"+scenarioSig(sc), "signing panicked: "+fmt.Sprint(p), sc)
			}
		}()
		if plain {
			err = ad.Sign(pool.Ids[sc.Signer].Priv)
		} else {
			err = ad.SignWithExtendedProviders(pool.Ids[sc.Signer].Priv, fetch)
		}
	}()
	obs := "(Err 0)"
	if err == nil {
		v := &viewer{}
		var views []string
		add := func(b []byte) {
			ev := v.envelope(b)
			if ev.parses {
				views = append(views, fmt.Sprintf("(%d, %s, %s, %s)", ev.key, coqBytes(ev.ty), coqBytes(ev.pl), vlib.CoqBool(ev.valid)))
			}
		}
		add(ad.Signature)
		if ad.ExtendedProvider != nil {
			for _, p := range ad.ExtendedProvider.Providers {
				add(p.Signature)
			}
		}
		obs = "(Ok " + vlib.CoqList(views) + ")"
		if plain && sc.Ext || !plain && !signable(sc) {
			r.c.Fail("sign-accepted:"+scenarioSig(sc), "the library signed an advertisement it documents as unsignable (Sign with extended providers / removal with extended providers / main provider not listed)", sc)
		}
		// direct oracle: what was just signed verifies and names the signer
		if got := verifyReal(ad); got.Kind != "ok" || got.Signer != sc.Signer {
			r.c.Fail("sign-verify:"+scenarioSig(sc), "an advertisement signed with the library does not verify as signed by its key: "+got.String(), sc)
		}
	} else {
		// the library must refuse exactly what it documents
		should := plain && sc.Ext || (!plain && (!signable(sc) || dropFetch >= 0 && dropFetch < len(sc.Eps) && sc.Eps[dropFetch].Named != sc.Provider))
		if !should {
			r.c.Fail("sign-refused:"+scenarioSig(sc), "signing failed: "+err.Error(), sc)
		}
	}
	r.c.Eval()
	r.c.Count("sign:" + map[bool]string{true: "ok", false: "err"}[err == nil])
	v := &viewer{}
	r.c.Case("sign", fmt.Sprintf("(SC %s %s %s %d %s %s)", coqHashTable(hashTable(un)), v.coqAd(un, false),
		vlib.CoqBool(plain), sc.Signer, vlib.CoqList(fetchTbl), obs),
		map[string]interface{}{"kind": "sign", "scenario": sc, "plain": plain, "drop_fetch": dropFetch})
}

// ---------------------------------------------------------------------------

func main() {
	debug.SetMemoryLimit(2 << 30)
	c := vlib.Init("C05")
	defer c.Finish()
	c.Family("verify", caseHeader, "fun c => andb pk_selftest (verify_case_ok c)", c.Pick(250, 400))
	c.Family("sign", caseHeader, "fun c => andb pk_selftest (sign_case_ok c)", 200)
	c.Family("rt", caseHeader, "fun c => andb pk_selftest (rt_case_ok c)", 150)
	c.Family("history", caseHeader, "fun c => andb pk_selftest (history_case_ok c)", 40)
	c.Family("wire", wireHeader, "fun c => andb pk_selftest (wire_case_ok c)", c.Pick(60, 100))
	r := &run{c: c, failed: map[string]int{}, seen: map[string]bool{}}
	// the pool is a function of the seed only (replays rebuild the same keys)
	pool = keypool.New(vlib.NewRand(c.Seed).Fork("c05-pool"), 2)
	nSmall = 8
	// one RSA-4096 identity (index 8), used by its own family only: its signature envelopes
	// are larger than any documented limit of the other byte fields (1138 bytes)
	if k, err := keypool.BigRSA(vlib.NewRand(c.Seed).Fork("c05-big"), 4096, "../.build/keycache"); err == nil {
		bigKey = pool.Add("rsa4096", k).Index
	} else {
		c.Note("no RSA-4096 key: " + err.Error())
	}

	if c.Replay != "" {
		r.replay()
		return
	}
	c.Res.Rule = "signing histories (sign, change each of the 6+5 signed values, sign again with the same keys, verify; a dag-json / dag-cbor decoded advertisement as the template of the next one; re-signing with another key; plain Sign after SignWithExtendedProviders) carried step by step through the real struct and the model; scenario = advertisement shape (with/without previous link, real/NoEntries link, removal, ExtendedProvider absent / empty / 1..3 entries with or without override, main provider listed at any position or not, signer = provider or a separate publisher) x key types {ed25519, secp256k1, ecdsa, rsa-2048} for signer and entries x key assignment to entries (proper / foreign key / ad signer's key) x one mutation (each of the 6+5 signed values in several ways; each envelope field; every single byte of the ad envelope and of one entry envelope for one advertisement per key type; empty / garbage / truncated signatures; structure changes) x codec round trip before the mutation (none, dag-json, dag-cbor), and after it as an oracle. non-trivial = distinct (shape, key assignment, mutation kind, key type) class"
	c.Res.Exhaustive = false

	r.generate()
	r.generateHistories()
}

func (r *run) replay() {
	var probe struct {
		Kind string `json:"kind"`
	}
	if err := r.c.LoadReplay(&probe); err != nil {
		panic(err)
	}
	if probe.Kind == "history" {
		var h history
		if err := r.c.LoadReplay(&h); err != nil {
			panic(err)
		}
		msg := r.runHistory(&h, true)
		fmt.Println("replay", h.sig())
		if msg != "" {
			fmt.Println("ORACLE-FAIL:", msg)
			r.c.Fail("replay", msg, h)
		} else {
			fmt.Println("oracles hold")
		}
		return
	}
	if probe.Kind == "sign" {
		var s struct {
			Scenario  scenario `json:"scenario"`
			Plain     bool     `json:"plain"`
			DropFetch int      `json:"drop_fetch"`
		}
		if err := r.c.LoadReplay(&s); err != nil {
			panic(err)
		}
		r.signCase(&s.Scenario, s.Plain, s.DropFetch)
		fmt.Println("replayed sign case")
		return
	}
	var sc scenario
	if err := r.c.LoadReplay(&sc); err != nil {
		panic(err)
	}
	b := build(&sc)
	if b.signErr != nil {
		fmt.Println("signing failed:", b.signErr)
	} else if b.applied {
		fmt.Printf("replay %s\n  real VerifySignature -> %s\n", scenarioSig(&sc), verifyReal(b.ad))
	}
	msg := r.check(&sc, true)
	want, signer := expect(&sc)
	fmt.Printf("  property demands: %s (signer %d)\n", want, signer)
	if msg != "" {
		fmt.Println("ORACLE-FAIL:", msg)
		r.c.Fail("replay", msg, sc)
	} else {
		fmt.Println("oracles hold")
	}
}
