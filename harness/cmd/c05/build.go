package main

// Scenario -> real advertisement: content from a seed, signing through the real
// Sign / SignWithExtendedProviders, key assignment to entries, one mutation.

import (
	"bytes"
	"crypto/sha256"
	"encoding/binary"
	"fmt"
	"strings"

	"github.com/ipfs/go-cid"
	"github.com/ipld/go-ipld-prime/codec/dagcbor"
	"github.com/ipld/go-ipld-prime/codec/dagjson"
	cidlink "github.com/ipld/go-ipld-prime/linking/cid"
	"github.com/ipni/go-libipni/ingest/schema"
	"github.com/libp2p/go-libp2p/core/crypto"
	crypto_pb "github.com/libp2p/go-libp2p/core/crypto/pb"
	"github.com/libp2p/go-libp2p/core/peer"
	"github.com/libp2p/go-libp2p/core/record"
	recpb "github.com/libp2p/go-libp2p/core/record/pb"
	"github.com/multiformats/go-multibase"
	"github.com/multiformats/go-multihash"
	"google.golang.org/protobuf/proto"

	"verif/harness/vlib"
)

type epSpec struct {
	Named  int  `json:"named"`  // pool index of the identity the entry names
	Sealer int  `json:"sealer"` // pool index of the key that seals it; -1 = what the library does (the named identity's key, the ad signer's for the main provider's entry)
	NAddrs int  `json:"naddrs"`
	MdLen  int  `json:"mdlen"`
	LikeAd bool `json:"like_ad,omitempty"` // the entry carries the advertisement's own addresses and metadata
	Spell  int  `json:"spell,omitempty"`   // how the ID string is spelled (see idString); the main provider's entry uses the provider's
}

type mutation struct {
	Kind  string `json:"kind,omitempty"`
	Ep    int    `json:"ep"`              // entry index; -1 = the advertisement itself
	Index int    `json:"index,omitempty"` // address index / byte position / other pool key
	Mask  int    `json:"mask,omitempty"`  // xor mask for byte mutations
}

type scenario struct {
	Kind      string   `json:"kind"` // "verify"
	Seed      uint64   `json:"seed"` // content seed
	Signer    int      `json:"signer"`
	Provider  int      `json:"provider"`         // pool index named as ad.Provider
	PSpell    int      `json:"pspell,omitempty"` // spelling of the Provider string (see idString)
	Prev      bool     `json:"prev"`
	NoEntries bool     `json:"no_entries"`
	Rm        bool     `json:"rm"`
	NAddrs    int      `json:"naddrs"`
	MdLen     int      `json:"mdlen"`
	CtxLen    int      `json:"ctxlen"`
	Ext       bool     `json:"ext"` // ExtendedProvider present (possibly with zero providers)
	Override  bool     `json:"override"`
	Eps       []epSpec `json:"eps,omitempty"`
	Attach    []epSpec `json:"attach,omitempty"` // entries attached AFTER signing by mutation ep-attach (Mut.Index: how they are signed)
	AttachOv  bool     `json:"attach_override,omitempty"`
	OldFormat bool     `json:"old_format,omitempty"`
	Codec     string   `json:"codec,omitempty"` // round trip after signing, before the mutation: "", dag-json, dag-cbor
	Mut       mutation `json:"mut"`
}

// ---------------------------------------------------------------------------
// content

func mkCid(r *vlib.Rand, codec uint64) cid.Cid {
	m, err := multihash.Sum(r.Bytes(24), multihash.SHA2_256, -1)
	if err != nil {
		panic(err)
	}
	return cid.NewCidV1(codec, m)
}

func mkAddr(r *vlib.Rand) string {
	switch r.Intn(3) {
	case 0:
		return fmt.Sprintf("/ip4/%d.%d.%d.%d/tcp/%d", 1+r.Intn(200), r.Intn(256), r.Intn(256), 1+r.Intn(250), 1000+r.Intn(9000))
	case 1:
		return fmt.Sprintf("/dns4/h%d.example.org/tcp/%d/http", r.Intn(1000), 80+r.Intn(900))
	}
	return fmt.Sprintf("/ip6/2001:db8::%x/udp/%d/quic-v1", 1+r.Intn(65000), 4000+r.Intn(1000))
}

func mkAddrs(r *vlib.Rand, n int) []string {
	out := make([]string, n)
	for i := range out {
		out[i] = mkAddr(r)
	}
	return out
}

// Spellings of a peer ID in a string field.  peer.Decode accepts the first three; the
// signature covers the STRING, whichever spelling it is.
const (
	spellBase58 = 0 // "12D3Koo..." / "Qm..." / "16Uiu...": peer.ID.String()
	spellCidB32 = 1 // "bafz...": CIDv1 libp2p-key, base32
	spellCidB36 = 2 // "k51..." / "k2k4...": CIDv1 libp2p-key, base36
	spellJunk   = 3 // not a peer ID at all
	nSpell      = 4
)

func idString(i, spell int) string {
	id := pool.Ids[i].ID
	switch spell {
	case spellCidB32:
		return peer.ToCid(id).String()
	case spellCidB36:
		s, err := peer.ToCid(id).StringOfBase(multibase.Base36)
		if err != nil {
			panic(err)
		}
		return s
	case spellJunk:
		return fmt.Sprintf("not-a-peer-id/%d", i)
	}
	return id.String()
}

func (sc *scenario) provStr() string { return idString(sc.Provider, sc.PSpell) }

// epStr: the ID string of an entry; the main provider's entry repeats the Provider string
func (sc *scenario) epStr(e epSpec) string {
	if e.Named == sc.Provider {
		return sc.provStr()
	}
	return idString(e.Named, e.Spell)
}

// unsignedAd builds the advertisement of a scenario, without signatures.
func unsignedAd(sc *scenario) *schema.Advertisement {
	r := vlib.NewRand(sc.Seed)
	ad := &schema.Advertisement{
		Provider:  sc.provStr(),
		Addresses: mkAddrs(r, sc.NAddrs),
		ContextID: r.Bytes(sc.CtxLen),
		Metadata:  r.Bytes(sc.MdLen),
		IsRm:      sc.Rm,
	}
	if sc.Prev {
		ad.PreviousID = cidlink.Link{Cid: mkCid(r, cid.DagJSON)}
	}
	if sc.NoEntries {
		ad.Entries = schema.NoEntries
	} else {
		ad.Entries = cidlink.Link{Cid: mkCid(r, cid.DagCBOR)}
	}
	if sc.Ext {
		x := &schema.ExtendedProvider{Override: sc.Override, Providers: []schema.Provider{}}
		for _, e := range sc.Eps {
			p := schema.Provider{
				ID:        sc.epStr(e),
				Addresses: mkAddrs(r, e.NAddrs),
				Metadata:  r.Bytes(e.MdLen),
			}
			if e.LikeAd {
				p.Addresses = append([]string{}, ad.Addresses...)
				p.Metadata = append([]byte{}, ad.Metadata...)
			}
			x.Providers = append(x.Providers, p)
		}
		ad.ExtendedProvider = x
	}
	return ad
}

func cloneAd(a *schema.Advertisement) *schema.Advertisement {
	c := *a
	c.Addresses = append([]string{}, a.Addresses...)
	c.Signature = append([]byte{}, a.Signature...)
	c.ContextID = append([]byte{}, a.ContextID...)
	c.Metadata = append([]byte{}, a.Metadata...)
	if a.ExtendedProvider != nil {
		x := &schema.ExtendedProvider{Override: a.ExtendedProvider.Override}
		for _, p := range a.ExtendedProvider.Providers {
			x.Providers = append(x.Providers, schema.Provider{
				ID: p.ID, Addresses: append([]string{}, p.Addresses...),
				Metadata: append([]byte{}, p.Metadata...), Signature: append([]byte{}, p.Signature...),
			})
		}
		if x.Providers == nil {
			x.Providers = []schema.Provider{}
		}
		c.ExtendedProvider = x
	}
	return &c
}

// ---------------------------------------------------------------------------
// the payload recipe, from the property text (used for the sha256 tables given to the
// model and for crafting old-format signatures; never for deciding a verdict)

func linkBytes(l interface{}) []byte {
	if l == nil {
		return nil
	}
	if cl, ok := l.(cidlink.Link); ok {
		return cl.Cid.Bytes()
	}
	return nil
}

func flagByte(b bool) []byte {
	if b {
		return []byte{1}
	}
	return []byte{0}
}

func mirrorAdRaw(ad *schema.Advertisement) []byte {
	var b bytes.Buffer
	if ad.PreviousID != nil {
		b.Write(linkBytes(ad.PreviousID))
	}
	b.Write(linkBytes(ad.Entries))
	b.WriteString(ad.Provider)
	for _, a := range ad.Addresses {
		b.WriteString(a)
	}
	b.Write(ad.Metadata)
	b.Write(flagByte(ad.IsRm))
	return b.Bytes()
}

func mirrorEpRaw(ad *schema.Advertisement, p *schema.Provider) []byte {
	var b bytes.Buffer
	if ad.PreviousID != nil {
		b.Write(linkBytes(ad.PreviousID))
	}
	b.Write(linkBytes(ad.Entries))
	b.WriteString(ad.Provider)
	b.Write(ad.ContextID)
	b.WriteString(p.ID)
	for _, a := range p.Addresses {
		b.WriteString(a)
	}
	b.Write(p.Metadata)
	b.Write(flagByte(ad.ExtendedProvider.Override))
	return b.Bytes()
}

func sha(b []byte) []byte { d := sha256.Sum256(b); return d[:] }

// hashTable: sha256 of every payload the ad, as presented, has.
func hashTable(ad *schema.Advertisement) [][2][]byte {
	var t [][2][]byte
	if ad.Entries == nil {
		return t
	}
	raw := mirrorAdRaw(ad)
	t = append(t, [2][]byte{raw, sha(raw)})
	if ad.ExtendedProvider != nil {
		for i := range ad.ExtendedProvider.Providers {
			raw := mirrorEpRaw(ad, &ad.ExtendedProvider.Providers[i])
			t = append(t, [2][]byte{raw, sha(raw)})
		}
	}
	return t
}

// ---------------------------------------------------------------------------
// signing through the real API

// a record of our own, to seal payloads the library would not (old format)
type rawRecord struct {
	codec   []byte
	payload []byte
}

func (r *rawRecord) Domain() string                 { return "indexer" }
func (r *rawRecord) Codec() []byte                  { return r.codec }
func (r *rawRecord) MarshalRecord() ([]byte, error) { return r.payload, nil }
func (r *rawRecord) UnmarshalRecord(b []byte) error { r.payload = b; return nil }

func sealRaw(codec string, payload []byte, k crypto.PrivKey) []byte {
	e, err := record.Seal(&rawRecord{codec: []byte(codec), payload: payload}, k)
	if err != nil {
		panic(err)
	}
	b, err := e.Marshal()
	if err != nil {
		panic(err)
	}
	return b
}

const (
	adCodec = "/indexer/ingest/adSignature"
	epCodec = "/indexer/ingest/extendedProviderSignature"
)

// signReal signs with the library.  Entries whose Sealer is a foreign key get it through
// the key fetcher (which the caller of the library supplies anyway); a main-provider
// entry sealed by a key other than the ad signer is taken from a second signing of the
// same advertisement with that key.
func signReal(sc *scenario, ad *schema.Advertisement) error {
	fetch := func(id string) (crypto.PrivKey, error) {
		for _, e := range sc.Eps {
			if sc.epStr(e) == id {
				k := e.Named
				if e.Sealer >= 0 {
					k = e.Sealer
				}
				return pool.Ids[k].Priv, nil
			}
		}
		return nil, fmt.Errorf("no key for %s", id)
	}
	var err error
	if ad.ExtendedProvider == nil {
		err = ad.Sign(pool.Ids[sc.Signer].Priv)
	} else {
		err = ad.SignWithExtendedProviders(pool.Ids[sc.Signer].Priv, fetch)
	}
	if err != nil {
		return err
	}
	if ad.ExtendedProvider != nil {
		for i, e := range sc.Eps {
			if e.Named == sc.Provider && e.Sealer >= 0 && e.Sealer != sc.Signer {
				other := cloneAd(ad)
				if err := other.SignWithExtendedProviders(pool.Ids[e.Sealer].Priv, fetch); err != nil {
					return err
				}
				ad.ExtendedProvider.Providers[i].Signature = other.ExtendedProvider.Providers[i].Signature
			}
		}
	}
	if sc.OldFormat {
		raw := mirrorAdRaw(ad)
		pl, _ := multihash.Encode(raw, multihash.SHA2_256)
		ad.Signature = sealRaw(adCodec, pl, pool.Ids[sc.Signer].Priv)
	}
	return nil
}

// ---------------------------------------------------------------------------
// codec round trip through the schema package's own encode / decode

func roundTrip(ad *schema.Advertisement, codec string) (out *schema.Advertisement, err error) {
	defer func() {
		if p := recover(); p != nil {
			err = fmt.Errorf("panic: %v", p)
		}
	}()
	node, err := ad.ToNode()
	if err != nil {
		return nil, err
	}
	var buf bytes.Buffer
	var cc uint64
	switch codec {
	case "dag-json":
		cc = cid.DagJSON
		err = dagjson.Encode(node, &buf)
	case "dag-cbor":
		cc = cid.DagCBOR
		err = dagcbor.Encode(node, &buf)
	default:
		return nil, fmt.Errorf("unknown codec %s", codec)
	}
	if err != nil {
		return nil, err
	}
	m, _ := multihash.Sum(buf.Bytes(), multihash.SHA2_256, -1)
	got, err := schema.BytesToAdvertisement(cid.NewCidV1(cc, m), buf.Bytes())
	if err != nil {
		return nil, err
	}
	return &got, nil
}

// ---------------------------------------------------------------------------
// mutations

// every kind, what it alters, and whether the property claims the result must be rejected
var valueMuts = []string{"prev", "entries", "provider", "addr", "metadata", "rm"}
var epValueMuts = []string{"ctx", "override", "ep-id", "ep-addr", "ep-md"}
var envFieldMuts = []string{"env-key", "env-payload", "env-sig", "env-type"}

func flipString(s string, i int) string {
	b := []byte(s)
	if len(b) == 0 {
		return "x"
	}
	i %= len(b)
	// stay printable ASCII so that both codecs carry the string
	if b[i] == 'x' {
		b[i] = 'y'
	} else {
		b[i] = 'x'
	}
	return string(b)
}

func flipBytes(b []byte, i int) []byte {
	if len(b) == 0 {
		return []byte{1}
	}
	c := append([]byte{}, b...)
	c[i%len(c)] ^= 0x01
	return c
}

func sigOf(ad *schema.Advertisement, ep int) *[]byte {
	if ep < 0 {
		return &ad.Signature
	}
	return &ad.ExtendedProvider.Providers[ep].Signature
}

// rebuildEnvelope re-marshals an envelope after f edited its protobuf fields
func rebuildEnvelope(b []byte, f func(e *recpb.Envelope)) []byte {
	var e recpb.Envelope
	if err := proto.Unmarshal(b, &e); err != nil {
		panic(err)
	}
	f(&e)
	out, err := proto.Marshal(&e)
	if err != nil {
		panic(err)
	}
	return out
}

func pubProto(i int) *crypto_pb.PublicKey {
	p, err := crypto.PublicKeyToProto(pool.Ids[i].Pub)
	if err != nil {
		panic(err)
	}
	return p
}

// applyMutation alters exactly one thing.  It returns false when the mutation does not
// apply to this advertisement (nothing to alter).
func applyMutation(sc *scenario, ad *schema.Advertisement) bool {
	m := sc.Mut
	r := vlib.NewRand(sc.Seed ^ 0x5bd1e995)
	hasEps := ad.ExtendedProvider != nil && len(ad.ExtendedProvider.Providers) > 0
	epOK := hasEps && m.Ep >= 0 && m.Ep < len(ad.ExtendedProvider.Providers)
	switch m.Kind {
	case "":
		return true
	// ---- the six values of the advertisement payload
	case "prev":
		switch m.Index % 2 {
		case 0:
			ad.PreviousID = cidlink.Link{Cid: mkCid(r, cid.DagJSON)} // another (or a first) previous link
		default:
			if ad.PreviousID == nil {
				return false
			}
			ad.PreviousID = nil
		}
	case "entries":
		if m.Index%2 == 0 || ad.Entries == schema.NoEntries {
			ad.Entries = cidlink.Link{Cid: mkCid(r, cid.DagCBOR)}
		} else {
			ad.Entries = schema.NoEntries
		}
	case "provider":
		switch m.Index % 3 {
		case 0:
			ad.Provider = pool.Ids[(sc.Provider+1+(m.Index/3)%(nSmall-1))%nSmall].ID.String()
		case 1:
			ad.Provider = flipString(ad.Provider, 5+m.Index)
		default:
			ad.Provider = ad.Provider + "z"
		}
	case "addr":
		if len(ad.Addresses) == 0 {
			ad.Addresses = []string{mkAddr(r)}
			break
		}
		i := m.Index % len(ad.Addresses)
		switch (m.Index / len(ad.Addresses)) % 3 {
		case 0:
			ad.Addresses[i] = flipString(ad.Addresses[i], m.Index)
		case 1:
			ad.Addresses[i] = ad.Addresses[i] + "/p2p-circuit"
		default:
			ad.Addresses = append(ad.Addresses[:i:i], ad.Addresses[i+1:]...)
		}
	case "metadata":
		switch m.Index % 3 {
		case 0:
			ad.Metadata = flipBytes(ad.Metadata, m.Index)
		case 1:
			ad.Metadata = append(append([]byte{}, ad.Metadata...), 0)
		default:
			if len(ad.Metadata) == 0 {
				return false
			}
			ad.Metadata = ad.Metadata[:len(ad.Metadata)-1]
		}
	case "rm":
		ad.IsRm = !ad.IsRm
	case "respell": // the same peer, another spelling of its ID: a different signed string
		if sc.PSpell == spellJunk {
			return false
		}
		ad.Provider = idString(sc.Provider, (sc.PSpell+1+m.Index%2)%3)
	case "ep-respell":
		if !epOK || sc.Eps[m.Ep].Named == sc.Provider {
			return false
		}
		ad.ExtendedProvider.Providers[m.Ep].ID = idString(sc.Eps[m.Ep].Named, (sc.Eps[m.Ep].Spell+1+m.Index%2)%3)
	// ---- the five further values of an extended-provider payload
	case "ctx":
		ad.ContextID = flipBytes(ad.ContextID, m.Index)
	case "override":
		if ad.ExtendedProvider == nil {
			return false
		}
		ad.ExtendedProvider.Override = !ad.ExtendedProvider.Override
	case "ep-id":
		if !epOK {
			return false
		}
		p := &ad.ExtendedProvider.Providers[m.Ep]
		if m.Index%2 == 0 {
			// another identity of the pool that is not already this entry's
			for d := 1; d < nSmall; d++ {
				id := pool.Ids[(sc.Eps[m.Ep].Named+d)%nSmall].ID.String()
				if id != p.ID {
					p.ID = id
					break
				}
			}
		} else {
			p.ID = flipString(p.ID, 7+m.Index)
		}
	case "ep-addr":
		if !epOK {
			return false
		}
		p := &ad.ExtendedProvider.Providers[m.Ep]
		if len(p.Addresses) == 0 {
			p.Addresses = []string{mkAddr(r)}
		} else {
			i := m.Index % len(p.Addresses)
			if (m.Index/len(p.Addresses))%2 == 0 {
				p.Addresses[i] = flipString(p.Addresses[i], m.Index)
			} else {
				p.Addresses = append(p.Addresses[:i:i], p.Addresses[i+1:]...)
			}
		}
	case "ep-md":
		if !epOK {
			return false
		}
		p := &ad.ExtendedProvider.Providers[m.Ep]
		if m.Index%2 == 0 {
			p.Metadata = flipBytes(p.Metadata, m.Index)
		} else {
			p.Metadata = append(append([]byte{}, p.Metadata...), 7)
		}
	// ---- an entry's value cleared, or replaced by the advertisement's own (a "the entry may
	// omit what the advertisement says" shortcut would make these invisible)
	case "ep-clear-md", "ep-clear-addrs", "ep-copy-md", "ep-copy-addrs":
		if !epOK {
			return false
		}
		p := &ad.ExtendedProvider.Providers[m.Ep]
		join := func(l []string) string { return strings.Join(l, "") }
		switch m.Kind {
		case "ep-clear-md":
			if len(p.Metadata) == 0 {
				return false
			}
			if m.Index%2 == 0 {
				p.Metadata = nil
			} else {
				p.Metadata = []byte{}
			}
		case "ep-clear-addrs":
			if join(p.Addresses) == "" {
				return false
			}
			if m.Index%2 == 0 {
				p.Addresses = nil
			} else {
				p.Addresses = []string{}
			}
		case "ep-copy-md":
			if bytes.Equal(p.Metadata, ad.Metadata) {
				return false
			}
			p.Metadata = append([]byte{}, ad.Metadata...)
		case "ep-copy-addrs":
			if join(p.Addresses) == join(ad.Addresses) {
				return false
			}
			p.Addresses = append([]string{}, ad.Addresses...)
		}
	// ---- repeated IDs in the entry list: every entry is checked, repeats included
	case "ep-id-earlier": // an entry's ID rewritten to the ID of an earlier entry after signing
		if !epOK || m.Ep == 0 {
			return false
		}
		ps := ad.ExtendedProvider.Providers
		earlier := ps[m.Index%m.Ep].ID
		if earlier == ps[m.Ep].ID {
			return false
		}
		ps[m.Ep].ID = earlier
	case "ep-dup-garbage": // a second entry for an ID already listed: arbitrary values, a signature nobody made
		if !epOK {
			return false
		}
		src := ad.ExtendedProvider.Providers[m.Ep]
		dup := schema.Provider{ID: src.ID, Addresses: []string{mkAddr(r), mkAddr(r)}, Metadata: r.Bytes(7)}
		switch m.Index % 3 {
		case 0:
			dup.Signature = r.Bytes(90)
		case 1:
			dup.Signature = nil
		default:
			dup.Signature = append([]byte{}, src.Signature...) // the first copy's genuine signature over other values
		}
		ad.ExtendedProvider.Providers = append(ad.ExtendedProvider.Providers, dup)
	// ---- structure
	case "ep-attach":
		// An extended-provider list is attached to the SIGNED advertisement (its own
		// signature does not cover the list).  The entries come from a twin advertisement
		// with the same values that is not a removal, signed with the library:
		//   Index%4 == 0  unsigned entries
		//              1  every entry genuinely signed by the identity it names (main: the ad signer)
		//              2  one entry sealed by a foreign key
		//              3  genuinely signed entries, the main provider's left out
		if len(sc.Attach) == 0 {
			return false
		}
		twin := *sc
		twin.Rm, twin.Ext, twin.Eps, twin.Override = false, true, append([]epSpec{}, sc.Attach...), sc.AttachOv
		twin.OldFormat, twin.Codec, twin.Mut = false, "", mutation{Ep: -1}
		hasMain := false
		for _, e := range twin.Eps {
			hasMain = hasMain || e.Named == sc.Provider
		}
		if !hasMain { // the library signs no list without the main provider: add it, drop it afterwards
			twin.Eps = append(twin.Eps, epSpec{Named: sc.Provider, Sealer: -1})
		}
		variant := m.Index % 4
		if variant == 2 {
			i := (m.Index / 4) % len(twin.Eps)
			twin.Eps[i].Sealer = firstOther(twin.Eps[i].Named, properSealer(&twin, twin.Eps[i]))
		}
		tw := unsignedAd(&twin)
		// same values as the advertisement being tampered with (the content seed gives them)
		tw.PreviousID, tw.Entries, tw.Provider, tw.ContextID = ad.PreviousID, ad.Entries, ad.Provider, ad.ContextID
		if err := signReal(&twin, tw); err != nil {
			panic("twin signing failed: " + err.Error())
		}
		x := tw.ExtendedProvider
		if !hasMain {
			x.Providers = x.Providers[:len(x.Providers)-1]
		}
		switch variant {
		case 0:
			for i := range x.Providers {
				x.Providers[i].Signature = nil
			}
		case 3:
			var keep []schema.Provider
			for i, p := range x.Providers {
				if i < len(sc.Attach) && sc.Attach[i].Named == sc.Provider {
					continue
				}
				keep = append(keep, p)
			}
			if len(keep) == 0 || len(keep) == len(x.Providers) {
				return false // nothing to leave out, or nothing left
			}
			x.Providers = keep
		}
		ad.ExtendedProvider = x
	case "ep-drop":
		if !epOK {
			return false
		}
		ps := ad.ExtendedProvider.Providers
		ad.ExtendedProvider.Providers = append(ps[:m.Ep:m.Ep], ps[m.Ep+1:]...)
	case "ep-dup": // the same signed entry listed twice: nothing signed changes
		if !epOK {
			return false
		}
		ad.ExtendedProvider.Providers = append(ad.ExtendedProvider.Providers, ad.ExtendedProvider.Providers[m.Ep])
	case "ep-swap-sigs": // two entries exchange their signatures
		if !hasEps || len(ad.ExtendedProvider.Providers) < 2 {
			return false
		}
		ps := ad.ExtendedProvider.Providers
		i, j := m.Ep%len(ps), (m.Ep+1)%len(ps)
		ps[i].Signature, ps[j].Signature = ps[j].Signature, ps[i].Signature
	case "ext-remove": // the whole ExtendedProvider dropped: not covered by the ad's own signature
		if ad.ExtendedProvider == nil {
			return false
		}
		ad.ExtendedProvider = nil
	case "shift": // one byte moves from the end of the provider string to the first address
		if len(ad.Addresses) == 0 || len(ad.Provider) < 2 {
			return false
		}
		n := len(ad.Provider)
		ad.Addresses[0] = ad.Provider[n-1:] + ad.Addresses[0]
		ad.Provider = ad.Provider[:n-1]
	case "ep-sig-as-ad-sig":
		// an extended provider's authorisation presented as the signature of an
		// advertisement whose values concatenate to the same bytes
		if !epOK || ad.ExtendedProvider.Override {
			return false
		}
		p := ad.ExtendedProvider.Providers[m.Ep]
		addr := string(ad.ContextID) + p.ID
		for _, a := range p.Addresses {
			addr += a
		}
		ad.Addresses = []string{addr}
		ad.Metadata = p.Metadata
		ad.IsRm = false
		ad.Signature = p.Signature
		ad.ExtendedProvider = nil
	// ---- the envelope, field by field
	case "env-key", "env-payload", "env-sig", "env-type":
		if m.Ep >= 0 && !epOK {
			return false
		}
		s := sigOf(ad, m.Ep)
		*s = rebuildEnvelope(*s, func(e *recpb.Envelope) {
			switch m.Kind {
			case "env-key":
				// the key of another pool identity (other than the one inside)
				cur, _ := crypto.PublicKeyFromProto(e.PublicKey)
				for d := 0; d < nSmall; d++ {
					c := pool.Ids[(m.Index+d)%nSmall]
					if !c.Pub.Equals(cur) {
						e.PublicKey = pubProto(c.Index)
						return
					}
				}
			case "env-payload":
				e.Payload = flipBytes(e.Payload, m.Index)
			case "env-sig":
				e.Signature = flipBytes(e.Signature, m.Index)
			case "env-type":
				if m.Index%2 == 0 {
					if string(e.PayloadType) == adCodec {
						e.PayloadType = []byte(epCodec)
					} else {
						e.PayloadType = []byte(adCodec)
					}
				} else {
					e.PayloadType = flipBytes(e.PayloadType, m.Index)
				}
			}
		})
	case "env-byte": // one byte of the serialized envelope
		if m.Ep >= 0 && !epOK {
			return false
		}
		s := sigOf(ad, m.Ep)
		if m.Index >= len(*s) || m.Mask == 0 {
			return false
		}
		c := append([]byte{}, (*s)...)
		c[m.Index] ^= byte(m.Mask)
		*s = c
	case "sig-empty":
		if m.Ep >= 0 && !epOK {
			return false
		}
		*sigOf(ad, m.Ep) = []byte{}
	case "sig-nil":
		if m.Ep >= 0 && !epOK {
			return false
		}
		*sigOf(ad, m.Ep) = nil
	case "sig-garbage":
		if m.Ep >= 0 && !epOK {
			return false
		}
		*sigOf(ad, m.Ep) = r.Bytes(1 + m.Index%200)
	case "sig-truncate":
		if m.Ep >= 0 && !epOK {
			return false
		}
		s := sigOf(ad, m.Ep)
		if len(*s) == 0 {
			return false
		}
		*s = (*s)[:m.Index%len(*s)]
	case "sig-append":
		if m.Ep >= 0 && !epOK {
			return false
		}
		s := sigOf(ad, m.Ep)
		*s = append(append([]byte{}, (*s)...), byte(m.Index))
	case "resign-other": // the ad envelope replaced by a genuine one from another key
		k := pool.Ids[m.Index%nSmall]
		raw := mirrorAdRaw(ad)
		pl, _ := multihash.Sum(raw, multihash.SHA2_256, -1)
		ad.Signature = sealRaw(adCodec, pl, k.Priv)
	case "nil-entries":
		ad.Entries = nil
	default:
		panic("unknown mutation " + m.Kind)
	}
	return true
}

// ---------------------------------------------------------------------------

func le64(n uint64) []byte {
	var b [8]byte
	binary.LittleEndian.PutUint64(b[:], n)
	return b[:]
}
