package main

// Signing HISTORIES: one advertisement value is signed, changed, signed again, sent
// through a codec and used as the template of the next advertisement, signed by another
// key, ... — the real struct is carried through every step, and so is the model's value.
// What the property demands at every "verify" step: an advertisement just signed with the
// library verifies and names the key of the LAST signing, whatever signatures the value
// carried before.

import (
	"fmt"
	"strings"

	"github.com/ipni/go-libipni/ingest/schema"
	"github.com/libp2p/go-libp2p/core/crypto"
	"github.com/libp2p/go-libp2p/core/peer"

	"verif/harness/vlib"
)

type hstep struct {
	Op    string   `json:"op"` // sign | sign-plain | mut | drop-ext | roundtrip | verify
	Key   int      `json:"key,omitempty"`
	Mut   mutation `json:"mut,omitempty"`
	Codec string   `json:"codec,omitempty"`
	Want  string   `json:"want,omitempty"` // sign*: "ok" | "refuse"; verify: "ok:<key>" | "fail" | ""
}

type history struct {
	Kind  string   `json:"kind"` // "history"
	Base  scenario `json:"base"`
	Steps []hstep  `json:"steps"`
}

func (h *history) sig() string {
	var ops []string
	for _, s := range h.Steps {
		switch s.Op {
		case "mut":
			m := "mut=" + s.Mut.Kind
			if s.Mut.Ep >= 0 && strings.HasPrefix(s.Mut.Kind, "ep") {
				m += fmt.Sprintf("@ep%d", s.Mut.Ep)
			}
			ops = append(ops, m)
		case "roundtrip":
			ops = append(ops, s.Codec)
		case "sign", "sign-plain":
			ops = append(ops, fmt.Sprintf("%s(%s)", s.Op, pool.Ids[s.Key].Type))
		default:
			ops = append(ops, s.Op)
		}
	}
	shape := "plain"
	if h.Base.Ext {
		shape = fmt.Sprintf("ext%d", len(h.Base.Eps))
	}
	if h.Base.Provider != h.Base.Signer {
		shape += "+publisher"
	}
	return "history:" + shape + ":" + strings.Join(ops, ",")
}

// fetchByID: the key of the identity an ID string names (what a caller of
// SignWithExtendedProviders is expected to supply)
func fetchByID(id string) (crypto.PrivKey, error) {
	pid, err := peer.Decode(id)
	if err != nil {
		return nil, err
	}
	for _, it := range pool.Ids {
		if it.ID == pid {
			return it.Priv, nil
		}
	}
	return nil, fmt.Errorf("no key for %s", id)
}

func fetchTable(ad *schema.Advertisement) string {
	var it []string
	seen := map[string]bool{}
	if ad.ExtendedProvider != nil {
		for _, p := range ad.ExtendedProvider.Providers {
			if seen[p.ID] {
				continue
			}
			seen[p.ID] = true
			if pid, err := peer.Decode(p.ID); err == nil {
				for _, id := range pool.Ids {
					if id.ID == pid {
						it = append(it, fmt.Sprintf("(%s, %d)", coqBytes([]byte(p.ID)), id.Index))
					}
				}
			}
		}
	}
	return vlib.CoqList(it)
}

func envViews(ad *schema.Advertisement) string {
	v := &viewer{}
	var views []string
	add := func(b []byte) {
		ev := v.envelope(b)
		if ev.parses {
			views = append(views, fmt.Sprintf("(%d, %s, %s, %s)", ev.key, coqBytes(ev.ty), coqBytes(ev.pl), vlib.CoqBool(ev.valid)))
		}
	}
	add(ad.Signature)
	if ad.ExtendedProvider != nil {
		for _, p := range ad.ExtendedProvider.Providers {
			add(p.Signature)
		}
	}
	return vlib.CoqList(views)
}

// runHistory carries the real value through the steps, applies the oracles and emits the
// Coq case.  Returns "" or what failed.
func (r *run) runHistory(h *history, emit bool) (failed string) {
	defer func() {
		if p := recover(); p != nil {
			failed = fmt.Sprintf("panicked: %v", p)
		}
	}()
	ad := unsignedAd(&h.Base)
	v := &viewer{}
	init := v.coqAd(ad, false)
	var steps []string
	hseen := map[string]bool{}
	var htab [][2][]byte
	addH := func() {
		for _, e := range hashTable(ad) {
			if !hseen[string(e[0])] {
				hseen[string(e[0])] = true
				htab = append(htab, e)
			}
		}
	}
	idSeen := map[string]bool{}
	var ids []string
	addIDs := func() {
		all := []string{ad.Provider}
		if ad.ExtendedProvider != nil {
			for _, p := range ad.ExtendedProvider.Providers {
				all = append(all, p.ID)
			}
		}
		for _, s := range all {
			if idSeen[s] {
				continue
			}
			idSeen[s] = true
			if id, err := peer.Decode(s); err == nil {
				ids = append(ids, fmt.Sprintf("(%s, %d)", coqBytes([]byte(s)), v.idIndex(id)))
			}
		}
	}
	fail := func(msg string) {
		if failed == "" {
			failed = msg
		}
	}
	for i, s := range h.Steps {
		switch s.Op {
		case "mut":
			sc := h.Base
			sc.Mut = s.Mut
			if !applyMutation(&sc, ad) {
				return "" // does not apply to this value
			}
			steps = append(steps, "(HValues "+v.coqAd(ad, false)+")")
		case "drop-ext":
			ad.ExtendedProvider = nil
			steps = append(steps, "(HValues "+v.coqAd(ad, false)+")")
		case "roundtrip":
			rt, err := roundTrip(ad, s.Codec)
			if err != nil {
				return fmt.Sprintf("step %d: %s round trip failed: %v", i, s.Codec, err)
			}
			ad = rt
		case "sign", "sign-plain":
			addH()
			ft := fetchTable(ad)
			var err error
			if s.Op == "sign-plain" {
				err = ad.Sign(pool.Ids[s.Key].Priv)
			} else {
				err = ad.SignWithExtendedProviders(pool.Ids[s.Key].Priv, fetchByID)
			}
			obs := "(Err 0)"
			if err == nil {
				obs = "(Ok " + envViews(ad) + ")"
			}
			steps = append(steps, fmt.Sprintf("(HSign %s %d %s %s)", vlib.CoqBool(s.Op == "sign-plain"), s.Key, ft, obs))
			if s.Want == "ok" && err != nil {
				fail(fmt.Sprintf("step %d: signing failed: %v", i, err))
			}
			if s.Want == "refuse" && err == nil {
				fail(fmt.Sprintf("step %d: the library signed what it documents it refuses", i))
			}
		case "verify":
			addH()
			addIDs()
			obs := verifyReal(ad)
			steps = append(steps, "(HVerify "+coqVerdict(obs)+")")
			switch {
			case obs.Kind == "panic":
				fail(fmt.Sprintf("step %d: VerifySignature panicked: %s", i, obs.Msg))
			case strings.HasPrefix(s.Want, "ok:"):
				var k int
				fmt.Sscanf(s.Want, "ok:%d", &k)
				if obs.Kind != "ok" {
					fail(fmt.Sprintf("step %d: an advertisement just signed with the library does not verify: %s", i, obs))
				} else if obs.Signer != k {
					fail(fmt.Sprintf("step %d: verification names signer %d, the advertisement was last signed by key %d", i, obs.Signer, k))
				}
			case s.Want == "fail" && obs.Kind == "ok":
				fail(fmt.Sprintf("step %d: verification succeeded (signer %d) on a value changed after signing", i, obs.Signer))
			}
		default:
			panic("unknown history op " + s.Op)
		}
	}
	if emit {
		r.c.Eval()
		r.c.Count("history")
		r.c.Case("history", fmt.Sprintf("(HC %s %s %s %s)", coqHashTable(htab), vlib.CoqList(ids), init, vlib.CoqList(steps)), h)
	}
	return failed
}

func (r *run) history(h *history) {
	h.Kind = "history"
	msg := r.runHistory(h, true)
	r.c.Nontrivial(h.sig())
	if msg != "" {
		r.c.Count("oracle-failed:history")
		r.c.Fail(h.sig(), msg, h)
	}
}

func okKey(k int) string { return fmt.Sprintf("ok:%d", k) }

// generateHistories: the quick tier runs all of them.
func (r *run) generateHistories() {
	rng := r.c.Rng.Fork("c05-hist")
	seed := func() uint64 { return rng.Uint64() | 1 }
	for t := 0; t < 4; t++ {
		signer := typeBase(t)
		other := typeBase((t+1)%4) + 1
		for _, provider := range []int{signer, (signer + 3) % nSmall} {
			plain := func() scenario { s := baseScenario(seed(), signer, provider); s.Prev = t%2 == 0; return *s }
			ext := func(n, mainPos int, ov bool) scenario {
				return *withEps(baseScenario(seed(), signer, provider), n, mainPos, ov)
			}
			signOp := func(ext bool) string {
				if ext {
					return "sign"
				}
				return "sign-plain"
			}
			for _, withExt := range []bool{false, true} {
				base := plain
				if withExt {
					base = func() scenario { return ext(3, 1, t%2 == 1) }
				}
				sg := signOp(withExt)
				// sign, verify, sign again unchanged, verify
				r.history(&history{Base: base(), Steps: []hstep{{Op: sg, Key: signer, Want: "ok"}, {Op: "verify", Want: okKey(signer)},
					{Op: sg, Key: signer, Want: "ok"}, {Op: "verify", Want: okKey(signer)}}})
				// sign, change one signed value, (verify fails), sign again with the same keys, verify
				kinds := append([]string{}, valueMuts...)
				if withExt {
					kinds = []string{"prev", "entries", "addr", "metadata", "ctx", "override", "ep-id", "ep-addr", "ep-md"}
				} else {
					kinds = append(kinds, "ctx")
				}
				for _, k := range kinds {
					for idx := 0; idx < 2; idx++ {
						eps := []int{-1}
						if strings.HasPrefix(k, "ep-") {
							eps = []int{0, 2} // entries other than the main provider's
						}
						for _, ep := range eps {
							m := mutation{Kind: k, Ep: ep, Index: idx}
							if k == "ep-id" {
								m.Index = 2 * idx // another identity of the pool, never an undecodable string
							}
							mid := "fail"
							if k == "ctx" && !withExt {
								mid = "" // not signed without extended providers
							}
							r.history(&history{Base: base(), Steps: []hstep{
								{Op: sg, Key: signer, Want: "ok"}, {Op: "verify", Want: okKey(signer)},
								{Op: "mut", Mut: m}, {Op: "verify", Want: mid},
								{Op: sg, Key: signer, Want: "ok"}, {Op: "verify", Want: okKey(signer)}}})
						}
					}
				}
				// a decoded advertisement as the template of the next one of the chain
				for _, codec := range []string{"dag-json", "dag-cbor"} {
					for _, k := range []string{"prev", "entries", "ctx"} {
						r.history(&history{Base: base(), Steps: []hstep{
							{Op: sg, Key: signer, Want: "ok"}, {Op: "roundtrip", Codec: codec}, {Op: "verify", Want: okKey(signer)},
							{Op: "mut", Mut: mutation{Kind: k, Ep: -1}},
							{Op: sg, Key: signer, Want: "ok"}, {Op: "verify", Want: okKey(signer)},
							{Op: "roundtrip", Codec: codec}, {Op: "verify", Want: okKey(signer)}}})
					}
				}
				// re-signed by another advertisement key
				r.history(&history{Base: base(), Steps: []hstep{
					{Op: sg, Key: signer, Want: "ok"}, {Op: "verify", Want: okKey(signer)},
					{Op: sg, Key: other, Want: "ok"}, {Op: "verify", Want: okKey(other)},
					{Op: "mut", Mut: mutation{Kind: "metadata", Ep: -1}},
					{Op: sg, Key: signer, Want: "ok"}, {Op: "verify", Want: okKey(signer)}}})
			}
			// plain Sign on a struct that SignWithExtendedProviders signed before: refused, value
			// untouched; after dropping the extended providers it signs and verifies
			r.history(&history{Base: ext(2, 0, false), Steps: []hstep{
				{Op: "sign", Key: signer, Want: "ok"}, {Op: "verify", Want: okKey(signer)},
				{Op: "sign-plain", Key: other, Want: "refuse"}, {Op: "verify", Want: okKey(signer)},
				{Op: "drop-ext"}, {Op: "sign-plain", Key: other, Want: "ok"}, {Op: "verify", Want: okKey(other)}}})
			// SignWithExtendedProviders on a value without extended providers, then with
			r.history(&history{Base: plain(), Steps: []hstep{
				{Op: "sign", Key: signer, Want: "ok"}, {Op: "verify", Want: okKey(signer)},
				{Op: "mut", Mut: mutation{Kind: "entries", Ep: -1}},
				{Op: "sign", Key: other, Want: "ok"}, {Op: "verify", Want: okKey(other)}}})
		}
	}
}
