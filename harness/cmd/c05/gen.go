package main

import (
	"fmt"

	"verif/harness/vlib"
)

// pool layout (keypool.New(.., 2)): ed25519 0,1  secp256k1 2,3  ecdsa 4,5  rsa 6,7
func typeBase(t int) int { return 2 * t }

func (r *run) emit(sc *scenario) {
	sc.Kind = "verify"
	r.scenario(sc)
	role := ""
	for _, e := range sc.Eps {
		switch {
		case e.Sealer < 0 || e.Sealer == properSealer(sc, e):
			role += "p"
		case e.Sealer == sc.Signer:
			role += "s"
		default:
			role += "f"
		}
		if e.Named == sc.Provider {
			role += "m"
		}
	}
	r.c.Nontrivial(fmt.Sprintf("%v%v%v%v%v%v|%s|%s|%s|%s|%v", sc.Prev, sc.NoEntries, sc.Rm, sc.Ext, sc.Override, sc.OldFormat,
		role, sc.Mut.Kind, pool.Ids[sc.Signer].Type, sc.Codec, sc.Provider == sc.Signer))
}

func baseScenario(seed uint64, signer, provider int) *scenario {
	return &scenario{Seed: seed, Signer: signer, Provider: provider, NAddrs: 2, MdLen: 9, CtxLen: 7, Mut: mutation{Ep: -1}}
}

// withEps: n entries, the main provider at position mainPos (-1: not listed); the other
// entries name identities of rotating key types
func withEps(sc *scenario, n, mainPos int, override bool) *scenario {
	sc.Ext, sc.Override = true, override
	sc.Eps = nil
	next := sc.Provider
	for i := 0; i < n; i++ {
		if i == mainPos {
			sc.Eps = append(sc.Eps, epSpec{Named: sc.Provider, Sealer: -1, NAddrs: 1, MdLen: 4})
			continue
		}
		for {
			next = (next + 3) % nSmall
			if next != sc.Provider && next != sc.Signer && !named(sc, next) {
				break
			}
		}
		sc.Eps = append(sc.Eps, epSpec{Named: next, Sealer: -1, NAddrs: 1 + i%2, MdLen: 3 + i})
	}
	return sc
}

func named(sc *scenario, k int) bool {
	for _, e := range sc.Eps {
		if e.Named == k {
			return true
		}
	}
	return false
}

func (r *run) generate() {
	rng := r.c.Rng.Fork("c05")
	seed := func() uint64 { return rng.Uint64() | 1 }
	nTypes := 4

	// ---- A. shapes x signer key type x (provider signs itself / separate publisher)
	for t := 0; t < nTypes; t++ {
		signer := typeBase(t)
		for _, provider := range []int{signer, (signer + 3) % nSmall} {
			for shape := 0; shape < 8; shape++ {
				sc := baseScenario(seed(), signer, provider)
				sc.Prev, sc.NoEntries, sc.Rm = shape&1 != 0, shape&2 != 0, shape&4 != 0
				sc.NAddrs, sc.MdLen, sc.CtxLen = shape%4, (shape*5)%23, (shape*3)%11
				r.emit(sc)
				old := sc.clone()
				old.OldFormat = true
				r.emit(old)
			}
			// ExtendedProvider present but empty
			for _, rm := range []bool{false, true} {
				sc := baseScenario(seed(), signer, provider)
				sc.Ext, sc.Rm = true, rm
				r.emit(sc)
			}
			// 1..3 entries, main provider at every position and missing, with and without override
			for n := 1; n <= 3; n++ {
				for mainPos := -1; mainPos < n; mainPos++ {
					for _, ov := range []bool{false, true} {
						sc := withEps(baseScenario(seed(), signer, provider), n, mainPos, ov)
						sc.Prev = (n+mainPos)%2 == 0
						if signable(sc) {
							r.emit(sc)
						}
					}
				}
			}
		}
	}

	// ---- B. every assignment of sealing keys to the entries (2 entries: 4 x 4)
	for t := 0; t < nTypes; t++ {
		signer := typeBase(t)
		for _, provider := range []int{signer, (signer + 5) % nSmall} {
			for mainPos := 0; mainPos < 2; mainPos++ {
				for a := 0; a < 16; a++ {
					sc := withEps(baseScenario(seed(), signer, provider), 2, mainPos, a%3 == 0)
					for i := range sc.Eps {
						e := &sc.Eps[i]
						switch (a >> (2 * i)) & 3 {
						case 0:
							e.Sealer = -1
						case 1: // a key that is neither the named identity's nor the signer's
							e.Sealer = firstOtherOfType(e.Named, sc.Signer, sc.Provider, (t+1+i)%nTypes)
						case 2:
							e.Sealer = sc.Signer
						case 3:
							e.Sealer = e.Named // the named identity's own key (wrong for the main entry of a publisher-signed ad)
						}
					}
					r.emit(sc)
				}
			}
		}
		// three entries, one foreign at each position
		for pos := 0; pos < 3; pos++ {
			sc := withEps(baseScenario(seed(), signer, signer), 3, 1, false)
			sc.Eps[pos].Sealer = firstOtherOfType(sc.Eps[pos].Named, sc.Signer, sc.Provider, (t+2)%nTypes)
			r.emit(sc)
		}
	}

	// ---- C. one mutation of each kind on a plain and an extended advertisement per key type
	for t := 0; t < nTypes; t++ {
		signer := typeBase(t)
		bases := []*scenario{
			baseScenario(seed(), signer, signer),
			func() *scenario { s := baseScenario(seed(), signer, (signer+3)%nSmall); s.Prev = true; return s }(),
			withEps(baseScenario(seed(), signer, signer), 3, 1, false),
			func() *scenario {
				s := withEps(baseScenario(seed(), signer, (signer+3)%nSmall), 2, 0, true)
				s.Prev = true
				return s
			}(),
			func() *scenario { s := baseScenario(seed(), signer, signer); s.Ext = true; return s }(),
			func() *scenario {
				s := baseScenario(seed(), signer, signer)
				s.OldFormat = true
				s.Prev = true
				return s
			}(),
		}
		for bi, b := range bases {
			codecs := []string{""}
			if bi%2 == 0 {
				codecs = []string{"", "dag-json", "dag-cbor"}
			}
			for _, codec := range codecs {
				for _, k := range valueMuts {
					for idx := 0; idx < 6; idx++ {
						s := b.clone()
						s.Codec, s.Mut = codec, mutation{Kind: k, Ep: -1, Index: idx}
						r.emit(s)
					}
				}
				for _, k := range []string{"ctx", "override"} {
					s := b.clone()
					s.Codec, s.Mut = codec, mutation{Kind: k, Ep: -1, Index: 3}
					r.emit(s)
				}
				for ep := range b.Eps {
					for _, k := range []string{"ep-id", "ep-addr", "ep-md"} {
						for idx := 0; idx < 4; idx++ {
							s := b.clone()
							s.Codec, s.Mut = codec, mutation{Kind: k, Ep: ep, Index: idx}
							r.emit(s)
						}
					}
					for _, k := range []string{"ep-drop", "ep-dup", "ep-swap-sigs", "ep-sig-as-ad-sig"} {
						s := b.clone()
						s.Codec, s.Mut = codec, mutation{Kind: k, Ep: ep}
						r.emit(s)
					}
				}
				for ep := -1; ep < len(b.Eps); ep++ {
					for _, k := range envFieldMuts {
						for idx := 0; idx < 3; idx++ {
							s := b.clone()
							s.Codec, s.Mut = codec, mutation{Kind: k, Ep: ep, Index: idx*11 + t}
							r.emit(s)
						}
					}
					for _, k := range []string{"sig-empty", "sig-nil", "sig-garbage", "sig-truncate", "sig-append"} {
						for idx := 0; idx < 3; idx++ {
							s := b.clone()
							s.Codec, s.Mut = codec, mutation{Kind: k, Ep: ep, Index: idx*37 + 1}
							r.emit(s)
						}
					}
				}
				for _, k := range []string{"ext-remove", "shift", "nil-entries"} {
					s := b.clone()
					s.Codec, s.Mut = codec, mutation{Kind: k, Ep: -1}
					r.emit(s)
				}
				for k := 0; k < nSmall; k += 3 {
					s := b.clone()
					s.Codec, s.Mut = codec, mutation{Kind: "resign-other", Ep: -1, Index: k}
					r.emit(s)
				}
			}
		}
	}

	// ---- D. every single byte of the serialized envelopes, one advertisement per key type
	masks := []int{0x01, 0x80}
	epMasks := []int{0x01}
	if r.c.Thorough() {
		masks = []int{0x01, 0x02, 0x04, 0x08, 0x10, 0x20, 0x40, 0x80, 0xff}
		epMasks = []int{0x01, 0x10, 0x80}
	}
	for t := 0; t < nTypes; t++ {
		signer := typeBase(t)
		plain := baseScenario(seed(), signer, signer)
		n := len(build(plain).ad.Signature)
		for i := 0; i < n; i++ {
			for _, m := range masks {
				s := plain.clone()
				s.Mut = mutation{Kind: "env-byte", Ep: -1, Index: i, Mask: m}
				r.emit(s)
			}
		}
		// an entry sealed by a key of this type inside an ad signed by another type
		other := typeBase((t + 1) % nTypes)
		x := baseScenario(seed(), other, other)
		x.Ext = true
		x.Eps = []epSpec{{Named: other, Sealer: -1, NAddrs: 1, MdLen: 2}, {Named: signer + 1, Sealer: -1, NAddrs: 1, MdLen: 5}}
		n = len(build(x).ad.ExtendedProvider.Providers[1].Signature)
		for i := 0; i < n; i++ {
			for _, m := range epMasks {
				s := x.clone()
				s.Mut = mutation{Kind: "env-byte", Ep: 1, Index: i, Mask: m}
				r.emit(s)
			}
		}
	}

	// ---- K. an ID listed twice: both copies genuinely signed (accepted); the second copy
	// damaged / garbage / unsigned; an ID rewritten to an earlier one after signing; a garbage
	// duplicate appended -- the main provider's ID and another one
	for t := 0; t < nTypes; t++ {
		signer := typeBase(t)
		for _, provider := range []int{signer, (signer + 3) % nSmall} {
			for _, dupMain := range []bool{false, true} {
				mk := func() *scenario {
					sc := withEps(baseScenario(seed(), signer, provider), 3, 0, t%2 == 0)
					if dupMain {
						sc.Eps[2].Named = sc.Provider // the main provider listed twice
					} else {
						sc.Eps[2].Named = sc.Eps[1].Named // another identity listed twice
					}
					sc.Eps[2].NAddrs, sc.Eps[2].MdLen = 2, 6
					return sc
				}
				for _, codec := range []string{"", "dag-json", "dag-cbor"} {
					sc := mk()
					sc.Codec = codec
					r.emit(sc) // both copies genuine
				}
				for _, k := range []string{"sig-garbage", "sig-empty", "sig-nil", "env-sig", "env-key", "ep-addr", "ep-md", "ep-clear-md", "ep-copy-addrs"} {
					sc := mk()
					sc.Mut = mutation{Kind: k, Ep: 2, Index: t + 3}
					r.emit(sc) // the repeated entry tampered with
				}
				if dupMain { // (the key fetcher is asked by ID, so only the main provider's second entry can get a key of its own)
					sc := mk()
					sc.Eps[2].Sealer = firstOther(sc.Eps[2].Named, properSealer(sc, sc.Eps[2]))
					r.emit(sc) // the repeated entry sealed by a foreign key
				}
			}
			for ep := 1; ep < 3; ep++ {
				for idx := 0; idx < 2; idx++ {
					sc := withEps(baseScenario(seed(), signer, provider), 3, idx, false)
					sc.Mut = mutation{Kind: "ep-id-earlier", Ep: ep, Index: idx}
					sc.Codec = []string{"", "dag-cbor"}[idx]
					r.emit(sc)
				}
			}
			for ep := 0; ep < 2; ep++ {
				for idx := 0; idx < 3; idx++ {
					sc := withEps(baseScenario(seed(), signer, provider), 2, ep, idx == 1)
					sc.Mut = mutation{Kind: "ep-dup-garbage", Ep: ep, Index: idx}
					r.emit(sc)
				}
			}
		}
	}

	// ---- J. an RSA-4096 identity as signer, as publisher, as extended provider: signature
	// envelopes of 1138 bytes, through both codecs
	if bigKey >= 0 {
		for _, codec := range []string{"", "dag-json", "dag-cbor"} {
			a := baseScenario(seed(), bigKey, bigKey) // signs for itself
			a.Codec, a.Prev = codec, true
			r.emit(a)
			b := baseScenario(seed(), bigKey, 1) // publisher for a small provider
			b.Codec = codec
			r.emit(b)
			c := withEps(baseScenario(seed(), bigKey, bigKey), 2, 0, false) // signer and main entry
			c.Codec = codec
			r.emit(c)
			d := withEps(baseScenario(seed(), 0, 0), 2, 0, true) // an extended provider only
			d.Eps[1].Named = bigKey
			d.Codec = codec
			r.emit(d)
		}
		e := baseScenario(seed(), bigKey, bigKey)
		e.Mut = mutation{Kind: "metadata", Ep: -1}
		r.emit(e)
		f := withEps(baseScenario(seed(), 0, 0), 2, 0, false)
		f.Eps[1].Named = bigKey
		f.Mut = mutation{Kind: "env-sig", Ep: 1, Index: 5}
		r.emit(f)
	}

	// ---- I. an entry's addresses / metadata cleared or replaced by the advertisement's own, for
	// the main provider's entry and another one, starting from entries that are empty, that
	// carry the advertisement's own values, and that carry values of their own
	for t := 0; t < nTypes; t++ {
		signer := typeBase(t)
		for _, provider := range []int{signer, (signer + 3) % nSmall} {
			for shape := 0; shape < 3; shape++ { // 0: empty entry values, 1: the ad's own, 2: values of their own
				for mainPos := 0; mainPos < 2; mainPos++ {
					for _, k := range []string{"ep-clear-md", "ep-clear-addrs", "ep-copy-md", "ep-copy-addrs"} {
						for ep := 0; ep < 2; ep++ {
							for _, codec := range []string{"", []string{"dag-json", "dag-cbor"}[(t+ep+shape)%2]} {
								sc := withEps(baseScenario(seed(), signer, provider), 2, mainPos, (shape+ep)%2 == 0)
								for i := range sc.Eps {
									switch shape {
									case 0:
										sc.Eps[i].NAddrs, sc.Eps[i].MdLen = 0, 0
									case 1:
										sc.Eps[i].LikeAd = true
									}
								}
								sc.Codec = codec
								sc.Mut = mutation{Kind: k, Ep: ep, Index: t + ep}
								r.emit(sc)
							}
						}
					}
				}
			}
		}
	}

	// ---- H. IsRm x extended-provider shapes, as a full cross product: a signed advertisement
	// (removal or not; without ExtendedProvider, or with an empty one) gets an entry list
	// attached afterwards -- unsigned, genuinely signed, one foreign-sealed, main left out --
	// of 1..3 entries with the main provider at every position or absent, with and without
	// override, also through both codecs
	for t := 0; t < nTypes; t++ {
		signer := typeBase(t)
		for _, provider := range []int{signer, (signer + 3) % nSmall} {
			for _, rm := range []bool{true, false} {
				for _, emptyExt := range []bool{false, true} {
					for n := 1; n <= 3; n++ {
						for mainPos := -1; mainPos < n; mainPos++ {
							for variant := 0; variant < 4; variant++ {
								sc := baseScenario(seed(), signer, provider)
								sc.Rm, sc.Ext, sc.Prev = rm, emptyExt, (n+variant)%2 == 0
								tmp := withEps(baseScenario(1, signer, provider), n, mainPos, false)
								sc.Attach, sc.AttachOv = tmp.Eps, (n+mainPos+variant)%2 == 0
								sc.Codec = []string{"", "dag-json", "dag-cbor"}[(n+mainPos+variant+t)%3]
								sc.Mut = mutation{Kind: "ep-attach", Ep: -1, Index: variant + 4*(n+t)}
								r.emit(sc)
							}
						}
					}
				}
			}
		}
	}

	// ---- G. peer-ID SPELLINGS: the signature covers the string, whichever way the ID is written
	for t := 0; t < nTypes; t++ {
		signer := typeBase(t)
		for _, provider := range []int{signer, (signer + 3) % nSmall} {
			for ps := 0; ps < nSpell; ps++ {
				for _, codec := range []string{"", "dag-json", "dag-cbor"} {
					a := baseScenario(seed(), signer, provider)
					a.PSpell, a.Codec, a.Prev = ps, codec, ps%2 == 1
					r.emit(a)
					for es := 0; es < 3; es++ {
						b := withEps(baseScenario(seed(), signer, provider), 3, 1, es == 1)
						b.PSpell, b.Codec = ps, codec
						b.Eps[0].Spell, b.Eps[2].Spell = es, (es+ps)%3
						r.emit(b)
					}
				}
				// the same peer respelled after signing: rejected
				for idx := 0; idx < 2; idx++ {
					a := baseScenario(seed(), signer, provider)
					a.PSpell, a.Mut = ps, mutation{Kind: "respell", Ep: -1, Index: idx}
					r.emit(a)
					b := withEps(baseScenario(seed(), signer, provider), 2, 0, false)
					b.PSpell, b.Eps[1].Spell = ps, (ps+idx)%3
					b.Mut = mutation{Kind: "ep-respell", Ep: 1, Index: idx}
					r.emit(b)
				}
			}
			// an entry other than the main provider's that names no peer at all
			j := withEps(baseScenario(seed(), signer, provider), 2, 0, false)
			j.Eps[1].Spell = spellJunk
			r.emit(j)
		}
	}

	// ---- E. seeded random scenarios
	for i := 0; i < r.c.Pick(800, 20000); i++ {
		r.emit(r.randomScenario(rng))
	}

	// ---- F. what signing produces and refuses
	for t := 0; t < nTypes; t++ {
		signer := typeBase(t)
		for _, provider := range []int{signer, (signer + 3) % nSmall} {
			for shape := 0; shape < 8; shape++ {
				sc := baseScenario(seed(), signer, provider)
				sc.Prev, sc.NoEntries, sc.Rm = shape&1 != 0, shape&2 != 0, shape&4 != 0
				r.signCase(sc, true, -1)
				r.signCase(sc, false, -1)
			}
			for n := 0; n <= 3; n++ {
				for mainPos := -1; mainPos < n; mainPos++ {
					for _, rm := range []bool{false, true} {
						sc := withEps(baseScenario(seed(), signer, provider), n, mainPos, n%2 == 0)
						sc.Rm = rm
						r.signCase(sc, false, -1)
						if n > 0 && !rm {
							r.signCase(sc, false, n-1) // the key fetcher fails for the last entry
							r.signCase(sc, true, -1)   // Sign refuses extended providers
						}
					}
				}
			}
		}
	}
}

func firstOtherOfType(a, b, c, t int) int {
	for d := 0; d < 2; d++ {
		k := typeBase(t) + d
		if k != a && k != b && k != c {
			return k
		}
	}
	for k := range pool.Ids {
		if k != a && k != b && k != c {
			return k
		}
	}
	return 0
}

var allMuts = []string{"", "", "", "ep-id-earlier", "ep-dup-garbage", "ep-clear-md", "ep-clear-addrs", "ep-copy-md", "ep-copy-addrs", "ep-attach", "ep-attach", "respell", "ep-respell", "prev", "entries", "provider", "addr", "metadata", "rm", "ctx", "override", "ep-id", "ep-addr", "ep-md",
	"ep-drop", "ep-dup", "ep-swap-sigs", "ext-remove", "shift", "env-key", "env-payload", "env-sig", "env-type", "env-byte",
	"sig-empty", "sig-garbage", "sig-truncate", "sig-append", "resign-other", "ep-sig-as-ad-sig"}

func (r *run) randomScenario(rng *vlib.Rand) *scenario {
	for {
		signer := rng.Intn(nSmall)
		provider := signer
		if rng.Intn(2) == 0 {
			provider = rng.Intn(nSmall)
		}
		sc := baseScenario(rng.Uint64()|1, signer, provider)
		sc.Prev, sc.NoEntries = rng.Bool(), rng.Intn(4) == 0
		sc.NAddrs, sc.MdLen, sc.CtxLen = rng.Intn(4), rng.Intn(40), rng.Intn(20)
		switch rng.Intn(5) {
		case 0:
			sc.Rm = rng.Bool()
			sc.OldFormat = rng.Intn(4) == 0
		case 1:
			sc.Ext = true
			sc.Rm = rng.Intn(3) == 0
		default:
			n := 1 + rng.Intn(3)
			withEps(sc, n, rng.Intn(n), rng.Bool())
			for i := range sc.Eps {
				sc.Eps[i].NAddrs, sc.Eps[i].MdLen = rng.Intn(3), rng.Intn(12)
				sc.Eps[i].LikeAd = rng.Intn(5) == 0
				if i > 0 && rng.Intn(6) == 0 {
					sc.Eps[i].Named = sc.Eps[rng.Intn(i)].Named // an ID listed twice
				}
				if rng.Intn(6) == 0 {
					sc.Eps[i].Sealer = rng.Intn(nSmall)
				}
			}
		}
		if rng.Intn(3) == 0 {
			sc.PSpell = rng.Intn(nSpell)
			for i := range sc.Eps {
				sc.Eps[i].Spell = rng.Intn(3)
			}
		}
		sc.Codec = []string{"", "", "dag-json", "dag-cbor"}[rng.Intn(4)]
		sc.Mut = mutation{Kind: allMuts[rng.Intn(len(allMuts))], Ep: -1, Index: rng.Intn(400), Mask: 1 << rng.Intn(8)}
		if len(sc.Eps) > 0 && rng.Intn(2) == 0 {
			sc.Mut.Ep = rng.Intn(len(sc.Eps))
		}
		if sc.Mut.Kind == "ep-attach" {
			// attach to an advertisement that has no entries of its own: removal or not
			sc.Eps, sc.Ext, sc.Rm = nil, rng.Bool(), rng.Bool()
			sc.Mut.Ep = -1
			n := 1 + rng.Intn(3)
			tmp := withEps(baseScenario(1, signer, provider), n, rng.Intn(n+1)-1, false)
			sc.Attach, sc.AttachOv = tmp.Eps, rng.Bool()
		}
		switch sc.Mut.Kind {
		case "ep-id", "ep-addr", "ep-md", "ep-drop", "ep-dup", "ep-swap-sigs", "ep-sig-as-ad-sig", "ep-respell",
			"ep-clear-md", "ep-clear-addrs", "ep-copy-md", "ep-copy-addrs", "ep-id-earlier", "ep-dup-garbage":
			if len(sc.Eps) == 0 {
				continue
			}
			if sc.Mut.Ep < 0 {
				sc.Mut.Ep = rng.Intn(len(sc.Eps))
			}
		}
		if sc.Mut.Kind == "ep-sig-as-ad-sig" && sc.Codec != "" {
			sc.Codec = ""
		}
		if !signable(sc) {
			continue
		}
		return sc
	}
}
