package main

// The wire family: a real signed (possibly tampered) advertisement goes through the
// real schema encode -> link system store -> load with the typed prototype -> unwrap ->
// VerifySignature, for dag-cbor and dag-json.  The Coq case carries the DAG-CBOR BYTES
// the real encoder wrote; the composed model (model/Compose_C05_C13.v) reads them with
// C13's typed decoder, parses the signature fields through the table of what libp2p's
// UnmarshalEnvelope made of them, and runs C05's verification.

import (
	"bytes"
	"fmt"

	"github.com/ipfs/go-cid"
	"github.com/ipld/go-ipld-prime"
	cidlink "github.com/ipld/go-ipld-prime/linking/cid"
	"github.com/ipld/go-ipld-prime/storage/memstore"
	"github.com/ipni/go-libipni/ingest/schema"
	"github.com/multiformats/go-multihash"

	"verif/harness/vlib"
)

// throughLinkSystem stores the advertisement with the given codec and loads it back
// with the typed prototype; it returns the stored block and the loaded advertisement.
func throughLinkSystem(ad *schema.Advertisement, codec uint64) (block []byte, out *schema.Advertisement, err error) {
	defer func() {
		if p := recover(); p != nil {
			err = fmt.Errorf("panic: %v", p)
		}
	}()
	lsys := cidlink.DefaultLinkSystem()
	store := &memstore.Store{}
	lsys.SetReadStorage(store)
	lsys.SetWriteStorage(store)
	node, err := ad.ToNode()
	if err != nil {
		return nil, nil, err
	}
	lp := cidlink.LinkPrototype{Prefix: cid.Prefix{Version: 1, Codec: codec, MhType: multihash.SHA2_256, MhLength: -1}}
	lnk, err := lsys.Store(ipld.LinkContext{}, lp, node)
	if err != nil {
		return nil, nil, err
	}
	for _, b := range store.Bag {
		block = b
	}
	n, err := lsys.Load(ipld.LinkContext{}, lnk, schema.AdvertisementPrototype)
	if err != nil {
		return block, nil, err
	}
	got, err := schema.UnwrapAdvertisement(n)
	if err != nil {
		return block, nil, err
	}
	return block, got, nil
}

// envTable: every signature byte string of the advertisement with what libp2p made of it
func envTable(ad *schema.Advertisement) string {
	v := &viewer{}
	seen := map[string]bool{}
	var it []string
	add := func(b []byte) {
		if seen[string(b)] {
			return
		}
		seen[string(b)] = true
		ev := v.envelope(b)
		view := "None"
		if ev.parses {
			sg := fmt.Sprintf("(SdJunk %d)", v.junk)
			v.junk++
			if ev.valid {
				sg = "(SdSelf " + coqBytes([]byte(sigDomain)) + ")"
			}
			view = fmt.Sprintf("(Some (A.WEnv %d %s %s %s))", ev.key, coqBytes(ev.ty), coqBytes(ev.pl), strings_A(sg))
		}
		it = append(it, "("+coqBytes(b)+", "+view+")")
	}
	add(ad.Signature)
	if ad.ExtendedProvider != nil {
		for _, p := range ad.ExtendedProvider.Providers {
			add(p.Signature)
		}
	}
	return vlib.CoqList(it)
}

// the constructors of sigd live in module A in the wire case files
func strings_A(s string) string {
	return "(A." + s[1:]
}

// wireCheck runs the advertisement over the wire and emits the composed-model case.
// direct is the verdict of VerifySignature on the in-memory value.
func (r *run) wireCheck(sc *scenario, ad *schema.Advertisement, direct verdict) string {
	block, viaCbor, err := throughLinkSystem(ad, cid.DagCBOR)
	if err != nil {
		return "dag-cbor store/load of the advertisement failed: " + err.Error()
	}
	obs := verifyReal(viaCbor)
	_, viaJSON, err := throughLinkSystem(ad, cid.DagJSON)
	if err != nil {
		return "dag-json store/load of the advertisement failed: " + err.Error()
	}
	obsJ := verifyReal(viaJSON)
	// BytesToAdvertisement on the same block
	viaBytes, err := schema.BytesToAdvertisement(cid.NewCidV1(cid.DagCBOR, mustSum(block)), block)
	if err != nil {
		return "BytesToAdvertisement rejects the block the link system stored: " + err.Error()
	}
	obsB := verifyReal(&viaBytes)
	r.c.Eval()
	r.c.Count("wire:" + obs.Kind)
	v := &viewer{}
	term := fmt.Sprintf("(WC %s %s %s %s %s)", coqHashTable(hashTable(viaCbor)), v.idTable(viaCbor), envTable(viaCbor), coqBytes(block), coqVerdict(obs))
	if !r.seen[term] {
		r.seen[term] = true
		r.c.Case("wire", term, sc)
	}
	switch {
	case !obs.same(direct):
		return fmt.Sprintf("over the wire (dag-cbor, link system) verification gives %s, on the value itself %s", obs, direct)
	case !obsJ.same(direct):
		return fmt.Sprintf("over the wire (dag-json, link system) verification gives %s, on the value itself %s", obsJ, direct)
	case !obsB.same(direct):
		return fmt.Sprintf("BytesToAdvertisement + VerifySignature gives %s, on the value itself %s", obsB, direct)
	}
	// Tampering shows on the wire (theorem wire_tamper_detected): when the advertisement
	// as signed is ACCEPTED and the mutated one is rejected, the two cannot have the same
	// DAG-CBOR bytes.  Nothing is demanded when the reference is itself rejected (e.g. an
	// entry sealed by a foreign key) or when the mutation changed nothing that is signed
	// (re-signing with the same deterministic key reproduces the bytes, and the verdict).
	if sc.Mut.Kind != "" && direct.Kind != "ok" {
		base := *sc
		base.Mut = mutation{Ep: -1}
		if b0 := build(&base); b0.signErr == nil && b0.rtErr == nil && verifyReal(b0.ad).Kind == "ok" {
			if blk0, _, err := throughLinkSystem(b0.ad, cid.DagCBOR); err == nil && bytes.Equal(blk0, block) {
				return "an accepted advertisement and a rejected, tampered one have the same DAG-CBOR bytes"
			}
		}
	}
	return ""
}

func mustSum(b []byte) multihash.Multihash {
	m, err := multihash.Sum(b, multihash.SHA2_256, -1)
	if err != nil {
		panic(err)
	}
	return m
}
