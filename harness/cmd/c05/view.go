package main

// Real advertisement -> the symbolic term the Coq model is run on.  Signature fields
// are parsed with libp2p's own UnmarshalEnvelope; a key is named by its pool index, an
// ID string by the pool index of the peer ID it decodes to, and a signature by whether
// the real key.Verify accepts it for (domain "indexer", the envelope's own type and
// payload) under the envelope's own key — checked here with libp2p crypto directly,
// never through the schema package.

import (
	"encoding/hex"
	"fmt"
	"strings"

	"github.com/ipni/go-libipni/ingest/schema"
	"github.com/libp2p/go-libp2p/core/crypto"
	"github.com/libp2p/go-libp2p/core/peer"
	"github.com/libp2p/go-libp2p/core/record"
	"github.com/multiformats/go-varint"

	"verif/harness/vlib"
)

// caseHeader opens every generated case file: the model, and the decoder of the packed
// byte literals (7 bytes per Coq primitive 63-bit integer; a string literal costs Coq
// ~50 microseconds per hex digit to elaborate, this is 25x cheaper).  The decoder lives
// in the case files so that nothing the theorems depend on imports Uint63; pk_selftest
// is conjoined to every case check.
var caseHeader = []string{
	"From Coq Require Import Uint63.",
	"From Coq Require Import List NArith.",
	"From Lib Require Import Bytes SymCrypto.",
	"From Model Require Import C05_AdSignature.",
	"Definition bitv (c i : int) (w : N) : N := if PrimInt63.eqb (PrimInt63.land (PrimInt63.lsr c i) 1%uint63) 0%uint63 then 0%N else w.",
	"Definition byteN (c : int) : N := (bitv c 0%uint63 1 + bitv c 1%uint63 2 + bitv c 2%uint63 4 + bitv c 3%uint63 8 + bitv c 4%uint63 16 + bitv c 5%uint63 32 + bitv c 6%uint63 64 + bitv c 7%uint63 128)%N.",
	"Definition chunk_bytes (c : int) (r : bytes) : bytes := byteN (PrimInt63.lsr c 48%uint63) :: byteN (PrimInt63.lsr c 40%uint63) :: byteN (PrimInt63.lsr c 32%uint63) :: byteN (PrimInt63.lsr c 24%uint63) :: byteN (PrimInt63.lsr c 16%uint63) :: byteN (PrimInt63.lsr c 8%uint63) :: byteN c :: r.",
	"(* pk n chunks: 7 bytes per chunk, big-endian, last chunk left-aligned, n = length *)",
	"Definition pk (n : N) (chunks : list int) : bytes := firstn (N.to_nat n) (fold_right chunk_bytes nil chunks).",
	"Definition pk_selftest : bool := (bytes_eqb (pk 9 (0x01020304050607 :: 0x0809ff00000000 :: nil)%uint63) (1 :: 2 :: 3 :: 4 :: 5 :: 6 :: 7 :: 8 :: 9 :: nil)%N && bytes_eqb (pk 0 nil) nil && bytes_eqb (pk 3 (0xfffe8000000000 :: nil)%uint63) (255 :: 254 :: 128 :: nil)%N)%bool.",
}

// wireHeader: the same, over the composed model (C05 names live in module A there)
var wireHeader = func() []string {
	h := append([]string{}, caseHeader...)
	for i, l := range h {
		if l == "From Model Require Import C05_AdSignature." {
			h[i] = "From Model Require Import Compose_C05_C13."
		}
	}
	return h
}()

func coqBytes(b []byte) string {
	if len(b) == 0 {
		return "(pk 0 [])"
	}
	var sb strings.Builder
	fmt.Fprintf(&sb, "(pk %d [", len(b))
	for i := 0; i < len(b); i += 7 {
		var chunk [7]byte
		copy(chunk[:], b[i:])
		if i > 0 {
			sb.WriteString(";")
		}
		sb.WriteString("0x")
		sb.WriteString(hex.EncodeToString(chunk[:]))
	}
	sb.WriteString("]%uint63)")
	return sb.String()
}

func coqStrs(ss []string) string {
	it := make([]string, len(ss))
	for i, s := range ss {
		it[i] = coqBytes([]byte(s))
	}
	return vlib.CoqList(it)
}

// makeUnsigned as core/record builds it (domain, type and payload, each prefixed with
// its uvarint length)
func makeUnsigned(domain string, ty, pl []byte) []byte {
	var out []byte
	for _, f := range [][]byte{[]byte(domain), ty, pl} {
		out = append(out, varint.ToUvarint(uint64(len(f)))...)
		out = append(out, f...)
	}
	return out
}

const sigDomain = "indexer"

type envView struct {
	parses bool
	key    int
	ty, pl []byte
	valid  bool // the signature verifies for (sigDomain, ty, pl) under the envelope's key
}

// viewer names what is not in the key pool locally (per case), so that equal
// presentations print as equal terms and are checked once.
type viewer struct {
	junk      int
	otherKeys map[string]int
	otherIDs  map[string]int
}

func (v *viewer) keyIndex(k crypto.PubKey) int {
	for _, it := range pool.Ids {
		if it.Pub.Equals(k) {
			return it.Index
		}
	}
	raw, err := crypto.MarshalPublicKey(k)
	if err != nil {
		raw = []byte("unmarshalable")
	}
	if v.otherKeys == nil {
		v.otherKeys = map[string]int{}
	}
	if n, ok := v.otherKeys[string(raw)]; ok {
		return n
	}
	n := 500 + len(v.otherKeys)
	v.otherKeys[string(raw)] = n
	return n
}

func (v *viewer) idIndex(id peer.ID) int {
	for _, it := range pool.Ids {
		if it.ID == id {
			return it.Index
		}
	}
	if v.otherIDs == nil {
		v.otherIDs = map[string]int{}
	}
	if n, ok := v.otherIDs[string(id)]; ok {
		return n
	}
	n := 1000 + len(v.otherIDs)
	v.otherIDs[string(id)] = n
	return n
}

func (v *viewer) envelope(b []byte) envView {
	e, err := record.UnmarshalEnvelope(b)
	if err != nil {
		return envView{}
	}
	ev := envView{parses: true, key: v.keyIndex(e.PublicKey), ty: e.PayloadType, pl: e.RawPayload}
	// the signature bytes are not exported; re-read them from the protobuf
	sig := envelopeSignature(b)
	ok, err := e.PublicKey.Verify(makeUnsigned(sigDomain, e.PayloadType, e.RawPayload), sig)
	ev.valid = err == nil && ok
	return ev
}

func (v *viewer) coqEnv(b []byte) string {
	ev := v.envelope(b)
	if !ev.parses {
		return "None"
	}
	sg := fmt.Sprintf("(SdJunk %d)", v.junk)
	v.junk++
	if ev.valid {
		sg = "(SdSelf " + coqBytes([]byte(sigDomain)) + ")"
	}
	return fmt.Sprintf("(Some (WEnv %d %s %s %s))", ev.key, coqBytes(ev.ty), coqBytes(ev.pl), sg)
}

func coqOptLink(l interface{}) string {
	if l == nil {
		return "None"
	}
	return "(Some " + coqBytes(linkBytes(l)) + ")"
}

// coqAd prints the advertisement as presented to VerifySignature.
func (v *viewer) coqAd(ad *schema.Advertisement, withSigs bool) string {
	sigOf := func(b []byte) string {
		if !withSigs {
			return "None"
		}
		return v.coqEnv(b)
	}
	x := "None"
	if ad.ExtendedProvider != nil {
		ps := make([]string, len(ad.ExtendedProvider.Providers))
		for i, p := range ad.ExtendedProvider.Providers {
			ps[i] = fmt.Sprintf("(SP %s %s %s %s)", coqBytes([]byte(p.ID)), coqStrs(p.Addresses), coqBytes(p.Metadata), sigOf(p.Signature))
		}
		x = fmt.Sprintf("(Some (SX %s %s))", vlib.CoqList(ps), vlib.CoqBool(ad.ExtendedProvider.Override))
	}
	return fmt.Sprintf("(SA %s %s %s %s %s %s %s %s %s)",
		coqOptLink(ad.PreviousID), coqBytes([]byte(ad.Provider)), coqStrs(ad.Addresses), sigOf(ad.Signature),
		coqOptLink(ad.Entries), coqBytes(ad.ContextID), coqBytes(ad.Metadata), vlib.CoqBool(ad.IsRm), x)
}

// idTable: peer.Decode of every ID string of the advertisement that decodes
func (v *viewer) idTable(ad *schema.Advertisement) string {
	seen := map[string]bool{}
	var it []string
	add := func(s string) {
		if seen[s] {
			return
		}
		seen[s] = true
		id, err := peer.Decode(s)
		if err != nil {
			return
		}
		it = append(it, fmt.Sprintf("(%s, %d)", coqBytes([]byte(s)), v.idIndex(id)))
	}
	add(ad.Provider)
	if ad.ExtendedProvider != nil {
		for _, p := range ad.ExtendedProvider.Providers {
			add(p.ID)
		}
	}
	return vlib.CoqList(it)
}

func coqHashTable(t [][2][]byte) string {
	it := make([]string, len(t))
	for i, e := range t {
		it[i] = "(" + coqBytes(e[0]) + ", " + coqBytes(e[1]) + ")"
	}
	return vlib.CoqList(it)
}

type verdict struct {
	Kind   string // ok | err | panic
	Signer int
	Msg    string
}

func (v verdict) String() string {
	if v.Kind == "ok" {
		return fmt.Sprintf("ok(signer %d)", v.Signer)
	}
	return v.Kind + "(" + v.Msg + ")"
}

func (v verdict) same(o verdict) bool {
	return v.Kind == o.Kind && (v.Kind != "ok" || v.Signer == o.Signer)
}

func coqVerdict(v verdict) string {
	switch v.Kind {
	case "ok":
		return fmt.Sprintf("(Ok %d)", v.Signer)
	case "err":
		return "(Err 0)"
	}
	return "(Panic 0)"
}

func verifyReal(ad *schema.Advertisement) (out verdict) {
	defer func() {
		if p := recover(); p != nil {
			out = verdict{Kind: "panic", Msg: fmt.Sprint(p)}
		}
	}()
	id, err := ad.VerifySignature()
	if err != nil {
		return verdict{Kind: "err", Msg: err.Error()}
	}
	return verdict{Kind: "ok", Signer: pool.IDIndex(id)}
}

func coqVerifyCase(ad *schema.Advertisement, obs verdict) string {
	v := &viewer{}
	return fmt.Sprintf("(VC %s %s %s %s)", coqHashTable(hashTable(ad)), v.idTable(ad), v.coqAd(ad, true), coqVerdict(obs))
}
