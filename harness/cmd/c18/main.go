// c18: signed ingest and register requests are accepted only from the provider named.
//
// Drives the real model.MakeIngestRequest / ReadIngestRequest / MakeRegisterRequest /
// ReadRegisterRequest with real keys of all four libp2p key types.  The Coq model is
// symbolic: it is given the SCENARIO (which pool key is in the envelope, who signed
// what, what the payload decodes to), never signature bytes.
//
// Families of Coq cases (each carries what the real code did):
//
//	consts    domain / payload-type constants of the linked libraries
//	unsigned  the signed buffer layout; tied to libp2p's unexported makeUnsigned by
//	          signing the layout and having the real ConsumeTypedEnvelope accept it
//	make      constructor: inputs, observed payload, observed (key, type, payload, who signed what)
//	read      one presentation of bytes to one reader: parsed view, decode tables, outcome
//	alt       read cases of the single-byte alterations (long byte strings shared in the header)
//
// Direct oracles (Go only, from the property text) run on every presentation: see present().
package main

import (
	"encoding/hex"
	"fmt"
	"os"
	"runtime/debug"
	"strings"
	"time"

	"github.com/ipni/go-libipni/ingest/model"
	"github.com/libp2p/go-libp2p/core/crypto"
	"github.com/libp2p/go-libp2p/core/peer"
	"github.com/multiformats/go-multiaddr"

	"verif/harness/keypool"
	"verif/harness/vlib"
)

var pool *keypool.Pool
var gctx *vlib.Ctx

const (
	rdIngest   = "ingest"
	rdRegister = "register"
)

var peerType = peer.PeerRecordEnvelopePayloadType

func readerDomain(reader string) string {
	if reader == rdIngest {
		return model.IngestRequestEnvelopeDomain
	}
	return peer.PeerRecordEnvelopeDomain
}
func readerType(reader string) []byte {
	if reader == rdIngest {
		return model.IngestRequestEnvelopePayloadType
	}
	return peerType
}
func otherReader(reader string) string {
	if reader == rdIngest {
		return rdRegister
	}
	return rdIngest
}
func coqReader(reader string) string {
	if reader == rdIngest {
		return "RdIngest"
	}
	return "RdRegister"
}

type replayT struct {
	Kind   string `json:"kind"` // bytes | pair
	Reader string `json:"reader"`
	// bytes
	Data string `json:"data_hex,omitempty"`
	// pair
	SignerPriv string   `json:"signer_privkey_hex,omitempty"`
	SignerType string   `json:"signer_type,omitempty"`
	Provider   string   `json:"provider,omitempty"`
	MH         string   `json:"mh_hex,omitempty"`
	Ctx        string   `json:"ctx_hex,omitempty"`
	MD         string   `json:"md_hex,omitempty"`
	Addrs      []string `json:"addrs,omitempty"`
	Note       string   `json:"note,omitempty"`
	Expect     string   `json:"expect,omitempty"`
	Sig        string   `json:"signature,omitempty"`
	// pair: a request built inside this request's Sign call
	Inner *replayT `json:"inner,omitempty"`
	// stress
	Goroutines int `json:"goroutines,omitempty"`
	Millis     int `json:"millis,omitempty"`
}

func hx(b []byte) string { return hex.EncodeToString(b) }

var hdr = []string{"From Lib Require Import SymCrypto.", "From Model Require Import C18_Requests.", ""}

func main() {
	if len(os.Args) > 2 && os.Args[1] == "-worker" {
		runWorker(os.Args[2])
		return
	}
	debug.SetMemoryLimit(2 << 30)
	c := vlib.Init("C18")
	defer c.Finish()
	gctx = c
	req := []string{"From Lib Require Import SymCrypto.", "From Model Require Import C18_Requests."}
	c.Family("consts", req, "consts_case_ok", 10)
	c.Family("unsigned", req, "unsigned_case_ok", 400)
	c.Family("unsignedbig", req, "unsigned_case_ok", 1)
	c.Family("make", req, "make_case_ok", 150)
	c.Family("read", req, "read_case_ok", 150)
	// hdr[2] is filled with the shared byte-string definitions just before Finish
	c.Family("alt", hdr, "read_case_ok", 500)
	defer func() {
		hdr[2] = "From Lib Require Import Bytes.\nFrom Coq Require Import String.\nOpen Scope string_scope.\n" + strings.Join(sharedDefs, "\n") + "\nClose Scope string_scope."
	}()

	pool = keypool.New(c.Rng.Fork("pool"), 3)

	if c.Replay != "" {
		var r replayT
		if err := c.LoadReplay(&r); err != nil {
			panic(err)
		}
		runReplay(c, r)
		return
	}

	c.Res.Exhaustive = true
	c.Res.Rule = "keys: 3 identities x {Ed25519, Secp256k1, ECDSA-P256, RSA-2048} built from the seeded PRNG. " +
		"pairs: ALL 144 (signing key, named provider) pairs x {ingest, register}, each result also replayed into the other reader (cross-domain). " +
		"variety: own-key requests over multihash (absent, empty, sha2-256, identity, arbitrary bytes) x context ID (0..128 B) x metadata (0..1024 B) x 0..3 addresses (incl. non-ASCII and JSON-special text), providers outside the pool, register with 0 / unparsable addresses. " +
		"alt: for one request per key type and reader EVERY byte offset of the sealed bytes is altered (2 values per offset as Coq cases, more as oracle-only; thorough: all 255). " +
		"field: key / type / payload / signature replaced, key and signature swapped between two valid envelopes, re-signing by another key, sealing for other domains, domain/type boundary shift, each record type sealed under the other's domain or type. " +
		"garbage: empty, random bytes, every truncation, appended bytes / unknown fields. " +
		"interleaved constructors: a private key whose Sign builds, seals and reads back ANOTHER request (ingest / register, same identity, same key type, other key type; fields of equal, shorter, longer encoded length; nested twice) before it signs - both requests must read back with their own fields; a short concurrent stress of constructors + readers (oracle only). " +
		"hand-sealed payload shapes: envelopes sealed with a real key under the right domain and payload type over hand-written JSON (ingest) / protobuf (register): every member omitted / null / empty / of the wrong type / duplicated / in other letter case (encoding/json matches names case-insensitively, incl. the long s), unknown members, trailing garbage, non-object payloads; the decoded record is the harness' own strict reading (provider member present and a valid peer ID). " +
		"fresh process: requests made here (own, foreign-signed, altered, cross-domain; ingest and register; all key types) are read by a NEW process of this binary BEFORE it has called any constructor, and again after it has: both verdicts must be this process's (the readers' verdict depends on the request, not on process history). " +
		"read order: the same valid / foreign-signed / altered / cross-domain requests read in several orders and concurrently - every verdict equals the verdict in isolation. " +
		"non-trivial = the presented bytes parse and carry a signature that some pool key really made (the verdict depends on who signed what)"
	genConsts(c)
	genUnsigned(c)
	genPairs(c)
	genVariety(c)
	genField(c)
	genAlter(c)
	genGarbage(c)
	genNested(c)
	genReadOrder(c)
	genStress(c)
	genFreshProcess(c)
	genShapes(c)
}

// ---------------------------------------------------------------------------

type outcome struct {
	kind   string // ok | err | panic
	ingest ingestFields
	peer   peerFields
	errStr string
}

func callReader(reader string, data []byte) (o outcome) {
	defer func() {
		if r := recover(); r != nil {
			o = outcome{kind: "panic", errStr: fmt.Sprint(r)}
		}
	}()
	if reader == rdIngest {
		r, err := model.ReadIngestRequest(data)
		if err != nil {
			return outcome{kind: "err", errStr: err.Error()}
		}
		return outcome{kind: "ok", ingest: fieldsOfReq(r)}
	}
	r, err := model.ReadRegisterRequest(data)
	if err != nil {
		return outcome{kind: "err", errStr: err.Error()}
	}
	return outcome{kind: "ok", peer: fieldsOfRec(r)}
}

type presentation struct {
	reader     string
	data       []byte
	expect     string // accept | reject | "" (only the scenario-independent oracles)
	sig        string // failure signature when the expectation is not met
	desc       string
	want       interface{} // ingestFields / peerFields expected on accept (nil: not compared)
	fam        string      // Coq family ("" = oracle only)
	replay     *replayT
	kind       string // distribution key
	nontrivKey string
	shrink     func() *replayT // minimise a constructor input whose fields do not come back
	observed   *outcome        // verdict obtained elsewhere (a fresh process): see fresh.go
	strict     bool            // decode tables from the harness' own strict reading of the payload
}

func present(c *vlib.Ctx, p presentation) outcome {
	var o outcome
	if p.observed != nil {
		o = *p.observed // what another (fresh) process returned for these bytes
	} else {
		o = callReader(p.reader, p.data)
	}
	c.Eval()
	c.Count("outcome:" + o.kind)
	c.Count("kind:" + p.kind)
	v := parseView(p.data)
	rp := p.replay
	if rp == nil {
		rp = &replayT{Kind: "bytes", Reader: p.reader, Data: hx(p.data), Note: p.desc, Expect: p.expect, Sig: p.sig}
	}

	// Coq case
	if p.fam != "" {
		di, dp := "None", "None"
		if v != nil {
			decI, decP := decIngest, decPeer
			if p.strict {
				decI, decP = strictIngest, strictPeer // the harness' own reading of the payload (shapes.go)
			}
			if f, ok := decI(v.pl); ok {
				di = "(Some " + f.term() + ")"
			}
			if f, ok := decP(v.pl); ok {
				dp = "(Some " + f.term() + ")"
			}
		}
		oi, op := "OErr", "OErr"
		switch o.kind {
		case "ok":
			if p.reader == rdIngest {
				oi = "(OOk " + o.ingest.term() + ")"
			} else {
				op = "(OOk " + o.peer.term() + ")"
			}
		case "panic":
			oi, op = "OPanic", "OPanic"
		}
		term := fmt.Sprintf("(ReadCase %s %s %s %s %s %s)", coqReader(p.reader), wireTerm(v, p.fam == "alt", readerDomain(p.reader)), di, dp, oi, op)
		c.Case(p.fam, term, map[string]interface{}{"scenario": p.desc, "kind": p.kind, "replay": rp, "observed": o.kind})
	}
	if v != nil {
		if _, known := sigTable[string(v.sig)]; known || o.kind == "ok" {
			c.Nontrivial(p.nontrivKey)
		}
	}
	if o.kind == "ok" {
		sample(c, p, o)
	}

	// ---- direct oracles ----
	if o.kind == "panic" {
		c.Fail(p.reader+":panic:"+p.kind, "reader panicked: "+o.errStr+" ("+p.desc+")", rp)
		return o
	}
	if o.kind == "ok" {
		// scenario-independent: whatever is accepted must carry a signature that verifies,
		// under the key in the bytes, over (reader's domain, reader's type, payload), and
		// that key's peer ID must be the provider / peer the returned record names
		switch {
		case v == nil:
			c.Fail(p.reader+":accepted-unparsable", "accepted bytes that do not parse as an envelope ("+p.desc+")", rp)
		case string(v.ty) != string(readerType(p.reader)):
			c.Fail(p.reader+":accepted-wrong-type", fmt.Sprintf("accepted payload type %x (%s)", v.ty, p.desc), rp)
		default:
			if ok, err := v.key.Verify(layout(readerDomain(p.reader), v.ty, v.pl), v.sig); err != nil || !ok {
				c.Fail(p.reader+":accepted-unverified", "accepted an envelope whose signature does not verify for the reader's domain and type ("+p.desc+")", rp)
			}
			signer, _ := peer.IDFromPublicKey(v.key)
			named := o.peer.Peer
			if p.reader == rdIngest {
				named = o.ingest.Provider
			}
			if signer != named {
				c.Fail(p.reader+":foreign-signer", fmt.Sprintf("accepted a request naming %s that was signed by %s (%s)", named, signer, p.desc), rp)
			}
			if p.reader == rdIngest {
				decI := decIngest
				if p.strict {
					decI = strictIngest
				}
				if f, ok := decI(v.pl); !ok || !f.equal(o.ingest) {
					c.Fail(p.reader+":fields-not-payload", "returned fields are not what the sealed payload decodes to ("+p.desc+")", rp)
				}
			} else if f, ok := map[bool]func([]byte) (peerFields, bool){false: decPeer, true: strictPeer}[p.strict](v.pl); !ok || !f.equal(o.peer) {
				c.Fail(p.reader+":fields-not-payload", "returned fields are not what the sealed payload decodes to ("+p.desc+")", rp)
			}
		}
	}
	switch p.expect {
	case "accept":
		if o.kind != "ok" {
			c.Fail(p.sig, "rejected: "+o.errStr+" ("+p.desc+")", rp)
		} else if p.want != nil {
			switch w := p.want.(type) {
			case ingestFields:
				w.Seq = o.ingest.Seq // the constructor stamps the sequence number
				if !w.equal(o.ingest) {
					if p.shrink != nil {
						rp = p.shrink()
					}
					c.Fail(p.reader+":fields-changed:"+diffIngest(w, o.ingest), fmt.Sprintf("field %s read back differs from the value given (%s)", diffIngest(w, o.ingest), p.desc), rp)
				}
			case peerFields:
				w.Seq = o.peer.Seq
				if !w.equal(o.peer) {
					c.Fail(p.reader+":fields-changed", fmt.Sprintf("peer record read back differs from the values given (%s)", p.desc), rp)
				}
			}
		}
	case "reject":
		if o.kind == "ok" {
			c.Fail(p.sig, "accepted ("+p.desc+")", rp)
		}
	}
	return o
}

var sampled = map[string]bool{}

func sample(c *vlib.Ctx, p presentation, o outcome) {
	if sampled[p.kind] {
		return
	}
	sampled[p.kind] = true
	c.Sample(map[string]interface{}{"reader": p.reader, "scenario": p.desc, "bytes": len(p.data), "observed": o.kind})
}

// ---------------------------------------------------------------------------
// constructors

type makeIn struct {
	reader      string
	signer      *keypool.Identity
	provider    peer.ID
	mh, ctx, md []byte
	addrs       []string
	// inner: another request that is built, sealed and read back INSIDE this request's
	// Sign call (see nest.go), i.e. between this request's marshalling and its envelope's
	// marshalling
	inner *makeIn
}

func (m makeIn) replay() *replayT {
	r := &replayT{Kind: "pair", Reader: m.reader, SignerPriv: hx(keypool.MarshalPriv(m.signer.Priv)), SignerType: m.signer.Type,
		Provider: m.provider.String(), MH: hx(m.mh), Ctx: hx(m.ctx), MD: hx(m.md), Addrs: m.addrs}
	if m.inner != nil {
		r.Inner = m.inner.replay()
	}
	return r
}

func callMake(m makeIn) (data []byte, err error) {
	defer func() {
		if r := recover(); r != nil {
			data, err = nil, fmt.Errorf("panic: %v", r)
		}
	}()
	var key crypto.PrivKey = m.signer.Priv
	if m.inner != nil {
		key = &nestKey{PrivKey: m.signer.Priv, during: func() { makeAndRead(gctx, *m.inner, "nested-inner") }}
	}
	if m.reader == rdIngest {
		return model.MakeIngestRequest(m.provider, key, m.mh, m.ctx, m.md, m.addrs)
	}
	return model.MakeRegisterRequest(m.provider, key, m.addrs)
}

// doMake runs the real constructor, records the make case, notes the signature it made
// (after verifying it with the real key over the harness' layout) and returns the bytes.
func doMake(c *vlib.Ctx, m makeIn, wantErr bool) []byte {
	data, err := callMake(m)
	// DER signatures vary in length; keep the most common total so that the set of
	// altered offsets is the same on every run
	if err == nil && m.inner == nil && (m.signer.Type == "ecdsa" || m.signer.Type == "secp256k1") {
		for try := 0; try < 200; try++ {
			if v := parseView(data); v == nil || len(v.sig) == 71 {
				break
			}
			data, err = callMake(m)
		}
	}
	c.Eval()
	c.Count("kind:make-" + m.reader)
	rp := m.replay()
	if err != nil && strings.HasPrefix(err.Error(), "panic") {
		c.Fail(m.reader+":make-panic", err.Error(), rp)
	}
	if (err != nil) != wantErr {
		c.Fail(m.reader+":constructor-result", fmt.Sprintf("constructor error=%v, expected error=%v", err, wantErr), rp)
	}
	var v *view
	payload := []byte{}
	seq := uint64(0)
	if err == nil {
		v = parseView(data)
		if v == nil {
			c.Fail(m.reader+":constructor-unparsable", "constructor output does not parse as an envelope", rp)
		} else {
			payload = v.pl
			if !recordSig(c, m.signer.Index, readerDomain(m.reader), v.ty, v.pl, v.sig) {
				c.Fail(m.reader+":constructor-signature", "constructor output is not signed by the given key over (domain, type, payload)", rp)
			}
			if m.reader == rdIngest {
				if f, ok := decIngest(v.pl); ok {
					seq = f.Seq
				}
			} else if f, ok := decPeer(v.pl); ok {
				seq = f.Seq
			}
		}
	}
	as := make([]string, len(m.addrs))
	for i, a := range m.addrs {
		bin := "None"
		if m.reader == rdRegister {
			if ma, e := multiaddr.NewMultiaddr(a); e == nil {
				bin = "(Some " + vlib.CoqBytes(ma.Bytes()) + ")"
			}
		}
		as[i] = fmt.Sprintf("(%s, %s)", vlib.CoqBytes([]byte(a)), bin)
	}
	term := fmt.Sprintf("(MakeCase %s %d %d %s %s %s %s %d %s %s)", coqReader(m.reader), pool.IDIndex(m.provider), m.signer.Index,
		vlib.CoqBytes(m.mh), vlib.CoqBytes(m.ctx), vlib.CoqBytes(m.md), vlib.CoqList(as), seq, vlib.CoqBytes(payload), wireTerm(v, false, readerDomain(m.reader)))
	c.Case("make", term, map[string]interface{}{"replay": rp, "error": err != nil})
	return data
}

// makeAndRead: constructor, then the bytes into the matching reader (accepted iff the
// signer is the provider named, with the fields given) and into the other reader
// (cross-domain: always rejected).
func makeAndRead(c *vlib.Ctx, m makeIn, kind string) []byte {
	data := doMake(c, m, false)
	if data == nil {
		return nil
	}
	own := m.signer.ID == m.provider
	p := presentation{reader: m.reader, data: data, fam: "read", replay: m.replay(), kind: kind,
		desc:       fmt.Sprintf("%s request made with key %d (%s) naming provider %d", m.reader, m.signer.Index, m.signer.Type, pool.IDIndex(m.provider)),
		nontrivKey: fmt.Sprintf("%s/%s/%d/%d", kind, m.reader, m.signer.Index, pool.IDIndex(m.provider))}
	if own {
		p.expect, p.sig = "accept", m.reader+":own-request-rejected:"+m.signer.Type
		if m.inner != nil {
			p.sig = fmt.Sprintf("%s:interleaved-constructor:own-request-rejected:%s/%s:%s", m.reader, m.signer.Type, m.inner.reader, m.inner.signer.Type)
			p.desc += fmt.Sprintf("; while it was being signed a %s request was built with key %d (%s)", m.inner.reader, m.inner.signer.Index, m.inner.signer.Type)
		}
		if m.reader == rdIngest {
			p.want = ingestFields{MH: m.mh, Provider: m.provider, Ctx: m.ctx, MD: m.md, Addrs: m.addrs}
			p.shrink = func() *replayT { return shrinkIngest(m).replay() }
		} else {
			w := peerFields{Peer: m.provider}
			for _, a := range m.addrs {
				ma, _ := multiaddr.NewMultiaddr(a)
				w.Addrs = append(w.Addrs, ma.Bytes())
			}
			p.want = w
		}
	} else {
		p.expect, p.sig = "reject", m.reader+":foreign-signer"
	}
	present(c, p)
	// cross-domain replay
	xfam := "read"
	if kind == "variety" && !c.Thorough() {
		xfam = "" // quick: cross-domain replays of the variety stream are oracle-only
	}
	q := presentation{reader: otherReader(m.reader), data: data, fam: xfam, kind: "cross-domain", expect: "reject",
		sig:        otherReader(m.reader) + ":cross-domain",
		desc:       fmt.Sprintf("%s request (key %d, provider %d) replayed into the %s reader", m.reader, m.signer.Index, pool.IDIndex(m.provider), otherReader(m.reader)),
		nontrivKey: fmt.Sprintf("cross/%s/%d/%d", m.reader, m.signer.Index, pool.IDIndex(m.provider))}
	present(c, q)
	return data
}

// ---------------------------------------------------------------------------

func runReplay(c *vlib.Ctx, r replayT) {
	fmt.Printf("replay kind=%s reader=%s %s\n", r.Kind, r.Reader, r.Note)
	switch r.Kind {
	case "bytes":
		data, _ := hex.DecodeString(r.Data)
		o := present(c, presentation{reader: r.Reader, data: data, fam: "read", kind: "replay", desc: "replayed bytes: " + r.Note, expect: r.Expect, sig: r.Sig})
		fmt.Printf("  %s reader returned %s %s\n", r.Reader, o.kind, o.errStr)
	case "pair":
		kb, _ := hex.DecodeString(r.SignerPriv)
		k, err := crypto.UnmarshalPrivateKey(kb)
		if err != nil {
			panic(err)
		}
		var signer *keypool.Identity
		for _, it := range pool.Ids {
			if it.Pub.Equals(k.GetPublic()) {
				signer = it
			}
		}
		if signer == nil {
			signer = pool.Add(r.SignerType, k)
		}
		prov, err := peer.Decode(r.Provider)
		if err != nil && r.Provider != "" {
			panic(err)
		}
		mh, _ := hex.DecodeString(r.MH)
		ctx, _ := hex.DecodeString(r.Ctx)
		md, _ := hex.DecodeString(r.MD)
		m := makeIn{reader: r.Reader, signer: signer, provider: prov, mh: mh, ctx: ctx, md: md, addrs: r.Addrs}
		if r.Inner != nil {
			in := makeInOfReplay(*r.Inner)
			m.inner = &in
		}
		data := makeAndRead(c, m, "replay")
		o := callReader(r.Reader, data)
		fmt.Printf("  signer %s, provider named %s: %s reader returned %s %s\n", signer.ID, prov, r.Reader, o.kind, o.errStr)
	case "stress":
		runStress(c, r.Goroutines, time.Duration(r.Millis)*time.Millisecond)
	case "fresh":
		data, _ := hex.DecodeString(r.Data)
		doFresh(c, []freshItem{{name: r.Note, typ: "replay", reader: r.Reader, data: data, expect: r.Expect}})
	default:
		panic("unknown replay kind " + r.Kind)
	}
	for _, f := range c.Res.OracleFailures {
		fmt.Printf("  ORACLE FAILURE %s: %s\n", f.Signature, f.Desc)
	}
	if len(c.Res.OracleFailures) == 0 {
		fmt.Println("  no oracle failure")
	}
}

func diffIngest(a, b ingestFields) string {
	switch {
	case string(a.MH) != string(b.MH):
		return "Multihash"
	case a.Provider != b.Provider:
		return "ProviderID"
	case string(a.Ctx) != string(b.Ctx):
		return "ContextID"
	case string(a.MD) != string(b.MD):
		return "Metadata"
	}
	return "Addrs"
}

// roundTripsIngest: constructor then reader give back the fields (no cases, no oracles)
func roundTripsIngest(m makeIn) bool {
	data, err := callMake(m)
	if err != nil {
		return false
	}
	o := callReader(rdIngest, data)
	if o.kind != "ok" {
		return false
	}
	w := ingestFields{MH: m.mh, Provider: m.provider, Ctx: m.ctx, MD: m.md, Addrs: m.addrs, Seq: o.ingest.Seq}
	return w.equal(o.ingest)
}

// shrinkIngest minimises a constructor input that does not round-trip: drop whole
// fields, then shorten the remaining ones, as long as the failure persists.
func shrinkIngest(m makeIn) makeIn {
	for changed := true; changed; {
		changed = false
		try := func(n makeIn) {
			if !changed && !roundTripsIngest(n) {
				m, changed = n, true
			}
		}
		if len(m.mh) > 0 {
			n := m
			n.mh = nil
			try(n)
		}
		if len(m.ctx) > 1 {
			n := m
			n.ctx = m.ctx[:len(m.ctx)/2]
			try(n)
		} else if len(m.ctx) == 1 {
			n := m
			n.ctx = nil
			try(n)
		}
		if len(m.md) > 1 {
			n := m
			n.md = m.md[:len(m.md)/2]
			try(n)
		} else if len(m.md) == 1 {
			n := m
			n.md = nil
			try(n)
		}
		if len(m.addrs) > 0 {
			n := m
			n.addrs = m.addrs[:len(m.addrs)-1]
			try(n)
		}
	}
	return m
}
