package main

// History independence across processes: ReadIngestRequest / ReadRegisterRequest must give
// the same verdict for the same bytes whether or not the process has ever called a
// constructor.  The parent makes the requests; a fresh process of this very binary
// (`<binary> -worker read-first`) reads them BEFORE calling any constructor, then calls a
// constructor and reads them again, and reports verdicts and fields on stdout.

import (
	"bytes"
	"crypto/rand"
	"encoding/hex"
	"encoding/json"
	"fmt"
	"os"
	"os/exec"
	"time"

	"github.com/ipni/go-libipni/ingest/model"
	"github.com/libp2p/go-libp2p/core/crypto"
	"github.com/libp2p/go-libp2p/core/peer"

	"verif/harness/keypool"
	"verif/harness/vlib"
)

type workerIn struct {
	Reader string `json:"reader"`
	Data   string `json:"data_hex"`
}

type workerOut struct {
	Kind     string   `json:"kind"`
	Err      string   `json:"err,omitempty"`
	MH       string   `json:"mh,omitempty"`
	Provider string   `json:"provider,omitempty"` // raw peer ID bytes, hex
	Ctx      string   `json:"ctx,omitempty"`
	MD       string   `json:"md,omitempty"`
	Addrs    []string `json:"addrs,omitempty"` // ingest: text; register: hex of the binary multiaddr
	Seq      uint64   `json:"seq,omitempty"`
}

type workerReport struct {
	First  []workerOut `json:"first"`  // before any constructor was called in the process
	Second []workerOut `json:"second"` // after a constructor was called
	Made   string      `json:"made,omitempty"`
}

func toWorkerOut(reader string, o outcome) workerOut {
	w := workerOut{Kind: o.kind, Err: o.errStr}
	if o.kind != "ok" {
		return w
	}
	if reader == rdIngest {
		w.MH, w.Provider, w.Ctx, w.MD, w.Addrs, w.Seq = hx(o.ingest.MH), hx([]byte(o.ingest.Provider)), hx(o.ingest.Ctx), hx(o.ingest.MD), o.ingest.Addrs, o.ingest.Seq
	} else {
		w.Provider, w.Seq = hx([]byte(o.peer.Peer)), o.peer.Seq
		for _, a := range o.peer.Addrs {
			w.Addrs = append(w.Addrs, hx(a))
		}
	}
	return w
}

func fromWorkerOut(reader string, w workerOut) outcome {
	o := outcome{kind: w.Kind, errStr: w.Err}
	if w.Kind != "ok" {
		return o
	}
	unhex := func(s string) []byte { b, _ := hex.DecodeString(s); return b }
	if reader == rdIngest {
		o.ingest = ingestFields{MH: unhex(w.MH), Provider: peer.ID(unhex(w.Provider)), Ctx: unhex(w.Ctx), MD: unhex(w.MD), Addrs: w.Addrs, Seq: w.Seq}
	} else {
		o.peer = peerFields{Peer: peer.ID(unhex(w.Provider)), Seq: w.Seq}
		for _, a := range w.Addrs {
			o.peer.Addrs = append(o.peer.Addrs, unhex(a))
		}
	}
	return o
}

// runWorker is the fresh process.  It must not touch a constructor before the first pass.
func runWorker(mode string) {
	if mode != "read-first" {
		fmt.Fprintln(os.Stderr, "unknown worker mode", mode)
		os.Exit(2)
	}
	var in []workerIn
	if err := json.NewDecoder(os.Stdin).Decode(&in); err != nil {
		fmt.Fprintln(os.Stderr, "worker: bad input:", err)
		os.Exit(2)
	}
	pass := func() []workerOut {
		out := make([]workerOut, len(in))
		for i, it := range in {
			data, _ := hex.DecodeString(it.Data)
			out[i] = toWorkerOut(it.Reader, callReader(it.Reader, data))
		}
		return out
	}
	var rep workerReport
	rep.First = pass()
	// now the process calls the constructors once ...
	k, _, err := crypto.GenerateEd25519Key(rand.Reader)
	if err == nil {
		id, _ := peer.IDFromPrivateKey(k)
		if _, err = model.MakeIngestRequest(id, k, nil, []byte("w"), nil, nil); err == nil {
			_, err = model.MakeRegisterRequest(id, k, []string{"/ip4/127.0.0.1/tcp/1"})
		}
	}
	if err != nil {
		rep.Made = err.Error()
	}
	// ... and reads the same bytes again
	rep.Second = pass()
	_ = json.NewEncoder(os.Stdout).Encode(rep)
}

func spawnWorker(items []workerIn) (workerReport, error) {
	var rep workerReport
	in, _ := json.Marshal(items)
	cmd := exec.Command(os.Args[0], "-worker", "read-first")
	cmd.Stdin = bytes.NewReader(in)
	var stdout, stderr bytes.Buffer
	cmd.Stdout, cmd.Stderr = &stdout, &stderr
	done := make(chan error, 1)
	if err := cmd.Start(); err != nil {
		return rep, err
	}
	go func() { done <- cmd.Wait() }()
	select {
	case err := <-done:
		if err != nil {
			return rep, fmt.Errorf("worker: %v: %s", err, stderr.String())
		}
	case <-time.After(60 * time.Second):
		_ = cmd.Process.Kill()
		return rep, fmt.Errorf("worker timed out")
	}
	if err := json.Unmarshal(stdout.Bytes(), &rep); err != nil {
		return rep, fmt.Errorf("worker output: %v: %.200s", err, stdout.String())
	}
	if len(rep.First) != len(items) || len(rep.Second) != len(items) {
		return rep, fmt.Errorf("worker answered %d/%d of %d items", len(rep.First), len(rep.Second), len(items))
	}
	return rep, nil
}

type freshItem struct {
	name   string
	typ    string
	reader string
	data   []byte
	expect string // accept | reject | ""
}

func sameOutcome(x, y outcome) bool {
	return x.kind == y.kind && x.ingest.equal(y.ingest) && x.peer.equal(y.peer)
}

func doFresh(c *vlib.Ctx, items []freshItem) {
	in := make([]workerIn, len(items))
	for i, it := range items {
		in[i] = workerIn{it.reader, hx(it.data)}
	}
	rep, err := spawnWorker(in)
	if err != nil {
		c.Fail("fresh-process:worker-failed", err.Error(), nil)
		return
	}
	if rep.Made != "" {
		c.Fail("fresh-process:worker-constructor-failed", rep.Made, nil)
	}
	for i, it := range items {
		here := callReader(it.reader, it.data)
		first := fromWorkerOut(it.reader, rep.First[i])
		second := fromWorkerOut(it.reader, rep.Second[i])
		rp := &replayT{Kind: "fresh", Reader: it.reader, Data: hx(it.data), Note: it.name, Expect: it.expect}
		// the fresh process' first verdict as an ordinary read case (the model has no registry state)
		p := presentation{reader: it.reader, data: it.data, fam: "read", kind: "fresh-process", observed: &first, replay: rp, expect: it.expect,
			sig:        fmt.Sprintf("%s:fresh-process:%s:%s", it.reader, it.name, it.typ),
			desc:       fmt.Sprintf("%s (%s) read by a fresh process before it called any constructor", it.name, it.typ),
			nontrivKey: fmt.Sprintf("fresh/%s/%s/%s", it.reader, it.typ, it.name)}
		present(c, p)
		if !sameOutcome(first, here) {
			c.Fail(fmt.Sprintf("%s:read-depends-on-process-history:%s:%s", it.reader, it.name, it.typ),
				fmt.Sprintf("%s: a process that has not yet called a constructor returns %s %s, this process returns %s %s; after calling a constructor the fresh process returns %s",
					it.name, first.kind, first.errStr, here.kind, here.errStr, second.kind), rp)
		} else if !sameOutcome(second, here) {
			c.Fail(fmt.Sprintf("%s:read-changes-after-constructor:%s:%s", it.reader, it.name, it.typ),
				fmt.Sprintf("%s: the fresh process returns %s %s after calling a constructor, this process returns %s", it.name, second.kind, second.errStr, here.kind), rp)
		}
		if it.typ == "replay" {
			fmt.Printf("  fresh process before any constructor: %s %s; after: %s %s; this process: %s %s\n", first.kind, first.errStr, second.kind, second.errStr, here.kind, here.errStr)
		}
	}
}

func genFreshProcess(c *vlib.Ctx) {
	var items []freshItem
	for _, typ := range keypool.KeyTypes {
		ids := pool.OfType(typ)
		a, b := ids[0], ids[1]
		mk := func(m makeIn) []byte {
			d, err := callMake(m)
			if err != nil {
				panic(err)
			}
			return d
		}
		own := mk(makeIn{reader: rdIngest, signer: a, provider: a.ID, mh: mhOf("fresh" + typ), ctx: []byte("fresh"), md: []byte{1, 2}, addrs: []string{"/ip4/127.0.0.1/tcp/9"}})
		ownMin := mk(makeIn{reader: rdIngest, signer: a, provider: a.ID})
		foreign := mk(makeIn{reader: rdIngest, signer: b, provider: a.ID, ctx: []byte("f")})
		reg := mk(makeIn{reader: rdRegister, signer: a, provider: a.ID, addrs: []string{"/ip4/127.0.0.1/tcp/9", "/dns4/example.com/tcp/443/https"}})
		regForeign := mk(makeIn{reader: rdRegister, signer: b, provider: a.ID, addrs: []string{"/ip4/127.0.0.1/tcp/9"}})
		altered := append([]byte{}, own...)
		altered[len(altered)-3] ^= 0x10
		items = append(items,
			freshItem{"own-ingest", typ, rdIngest, own, "accept"},
			freshItem{"own-ingest-minimal", typ, rdIngest, ownMin, "accept"},
			freshItem{"foreign-signed-ingest", typ, rdIngest, foreign, "reject"},
			freshItem{"altered-ingest", typ, rdIngest, altered, "reject"},
			freshItem{"register-into-ingest", typ, rdIngest, reg, "reject"},
			freshItem{"own-register", typ, rdRegister, reg, "accept"},
			freshItem{"foreign-signed-register", typ, rdRegister, regForeign, "reject"},
			freshItem{"ingest-into-register", typ, rdRegister, own, "reject"},
		)
	}
	items = append(items, freshItem{"empty", "none", rdIngest, nil, "reject"}, freshItem{"empty", "none", rdRegister, nil, "reject"})
	doFresh(c, items)
}
