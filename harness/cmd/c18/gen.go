package main

import (
	"bytes"
	"crypto/elliptic"
	"crypto/sha256"
	"encoding/asn1"
	"fmt"
	"math/big"
	"strings"

	"github.com/ipni/go-libipni/ingest/model"
	"github.com/libp2p/go-libp2p/core/peer"
	"github.com/libp2p/go-libp2p/core/record"
	"github.com/multiformats/go-multihash"

	"verif/harness/keypool"
	"verif/harness/vlib"
)

// anyRecord is a record type of the harness: any domain, any payload type, payload
// bytes as they are.  Used to have the REAL record.Seal / ConsumeTypedEnvelope work
// under domains and types other than the two the library uses.
type anyRecord struct {
	dom string
	ty  []byte
	pl  []byte
}

func (r *anyRecord) Domain() string                 { return r.dom }
func (r *anyRecord) Codec() []byte                  { return r.ty }
func (r *anyRecord) MarshalRecord() ([]byte, error) { return r.pl, nil }
func (r *anyRecord) UnmarshalRecord(b []byte) error { r.pl = b; return nil }

func genConsts(c *vlib.Ctx) {
	c.Eval()
	c.Case("consts", fmt.Sprintf("(ConstsCase %s %s %s %s)", vlib.CoqBytes([]byte(model.IngestRequestEnvelopeDomain)),
		vlib.CoqBytes(model.IngestRequestEnvelopePayloadType), vlib.CoqBytes([]byte(peer.PeerRecordEnvelopeDomain)),
		vlib.CoqBytes(peer.PeerRecordEnvelopePayloadType)), "constants of the linked libraries")
	if (&model.IngestRequest{}).Domain() != model.IngestRequestEnvelopeDomain || !bytes.Equal((&model.IngestRequest{}).Codec(), model.IngestRequestEnvelopePayloadType) {
		c.Fail("consts:ingest-record-methods", "IngestRequest.Domain/Codec do not return the package constants", nil)
	}
}

func rep(b byte, n int) []byte { return bytes.Repeat([]byte{b}, n) }

func genUnsigned(c *vlib.Ctx) {
	signer := pool.Ids[0]
	rng := c.Rng.Fork("unsigned")
	doms := []string{"a", model.IngestRequestEnvelopeDomain, peer.PeerRecordEnvelopeDomain, string(rep('x', 127)), string(rep('y', 128))}
	tys := [][]byte{{3, 1}, model.IngestRequestEnvelopePayloadType, {0}, rep(7, 128)}
	pls := []int{0, 1, 2, 127, 128, 129, 300}
	for di, d := range doms {
		for ti, t := range tys {
			sizes := pls
			if c.Thorough() && di == 1 && ti == 1 {
				// longer payloads, each case in a file of its own (coqc's string literals overflow its
				// stack well before the 3-byte varint boundary at 16384, which is therefore covered
				// by the theorem and the varint library's own cases only)
				sizes = append(append([]int{}, pls...), 2000, 4000)
			}
			for _, n := range sizes {
				pl := rng.Bytes(n)
				u := layout(d, t, pl)
				c.Eval()
				c.Count("kind:unsigned")
				fam := "unsigned"
				if n > 1000 {
					fam = "unsignedbig"
				}
				c.Case(fam, fmt.Sprintf("(UnsignedCase %s %s %s %s)", vlib.CoqBytes([]byte(d)), vlib.CoqBytes(t), vlib.CoqBytes(pl), vlib.CoqBytes(u)),
					map[string]interface{}{"dom": d, "ty": hx(t), "pl_len": n})
				sig, err := signer.Priv.Sign(u)
				if err != nil {
					panic(err)
				}
				data := buildEnvelope(signer.Pub, t, pl, sig)
				if _, err := record.ConsumeTypedEnvelope(data, &anyRecord{dom: d}); err != nil {
					c.Fail("unsigned:layout", fmt.Sprintf("a signature over len|dom|len|type|len|payload is not accepted by libp2p for dom=%q type=%x payload of %d bytes: %v", d, t, n, err),
						&replayT{Kind: "bytes", Reader: rdIngest, Data: hx(data), Note: "layout"})
				}
				// and the real Seal signs exactly that layout
				env, err := record.Seal(&anyRecord{dom: d, ty: t, pl: pl}, signer.Priv)
				if err != nil {
					c.Fail("unsigned:seal", "record.Seal failed: "+err.Error(), nil)
					continue
				}
				sealed, _ := env.Marshal()
				v := parseView(sealed)
				if v == nil {
					c.Fail("unsigned:seal", "sealed envelope does not parse", nil)
					continue
				}
				if ok, err := signer.Pub.Verify(u, v.sig); err != nil || !ok {
					c.Fail("unsigned:seal-layout", fmt.Sprintf("record.Seal's signature does not verify over the layout for dom=%q", d), nil)
				}
			}
		}
	}
}

var ingestAddrPool = []string{
	"/ip4/127.0.0.1/tcp/7777", "/ip4/203.0.113.9/tcp/3003", "/dns4/example.com/tcp/443/https", "/ip6/2001:db8::1/udp/4001/quic-v1",
	"", "not a multiaddr", "/dns4/例え.jp/tcp/80", "a<b>&c\"d\\e", "/ip4/1.2.3.4/tcp/1/http-path/a%20b",
}
var registerAddrPool = []string{
	"/ip4/127.0.0.1/tcp/7777", "/ip4/203.0.113.9/tcp/3003", "/dns4/example.com/tcp/443/https", "/ip6/2001:db8::1/udp/4001/quic-v1",
	"/dns/provider.example.org/tcp/80/http", "/ip4/10.0.0.1/udp/1234",
}

func randMH(r *vlib.Rand) []byte {
	switch r.Intn(6) {
	case 0:
		return nil
	case 1:
		return []byte{}
	case 2:
		h := sha256.Sum256(r.Bytes(8))
		m, _ := multihash.Encode(h[:], multihash.SHA2_256)
		return m
	case 3:
		m, _ := multihash.Encode(r.Bytes(r.Intn(20)), multihash.IDENTITY)
		return m
	case 4:
		return r.Bytes(1 + r.Intn(70))
	}
	m, _ := multihash.Sum(r.Bytes(16), multihash.SHA2_512, -1)
	return m
}

func randLen(r *vlib.Rand, special []int, max int) int {
	if r.Intn(2) == 0 {
		return special[r.Intn(len(special))]
	}
	return r.Intn(max + 1)
}

func pickAddrs(r *vlib.Rand, from []string, min, max int) []string {
	n := min + r.Intn(max-min+1)
	if n == 0 {
		if r.Bool() {
			return nil
		}
		return []string{}
	}
	out := make([]string, n)
	for i := range out {
		out[i] = from[r.Intn(len(from))]
	}
	return out
}

// every (signing key, named provider) pair, smallest request first
func genPairs(c *vlib.Ctx) {
	for _, reader := range []string{rdIngest, rdRegister} {
		for _, s := range pool.Ids {
			for _, p := range pool.Ids {
				m := makeIn{reader: reader, signer: s, provider: p.ID}
				if reader == rdRegister {
					m.addrs = []string{"/ip4/127.0.0.1/tcp/1"}
				}
				c.Count("pair:" + s.Type + "-signs-for-" + p.Type)
				makeAndRead(c, m, "pair")
			}
		}
	}
}

func genVariety(c *vlib.Ctx) {
	rng := c.Rng.Fork("variety")
	outsider, err := keypool.Gen(rng, "ed25519")
	if err != nil {
		panic(err)
	}
	outsiderID, _ := peer.IDFromPrivateKey(outsider)
	n := c.Pick(40, 500)
	for _, typ := range keypool.KeyTypes {
		ids := pool.OfType(typ)
		for i := 0; i < n; i++ {
			s := ids[rng.Intn(len(ids))]
			// ingest, own key
			m := makeIn{reader: rdIngest, signer: s, provider: s.ID, mh: randMH(rng),
				ctx: rng.Bytes(randLen(rng, []int{0, 1, 64, 65}, 128)), md: rng.Bytes(randLen(rng, []int{0, 1, 1024}, 96)),
				addrs: pickAddrs(rng, ingestAddrPool, 0, 3)}
			c.Count(fmt.Sprintf("ingest-addrs:%d", len(m.addrs)))
			makeAndRead(c, m, "variety")
			// register, own key
			r := makeIn{reader: rdRegister, signer: s, provider: s.ID, addrs: pickAddrs(rng, registerAddrPool, 1, 3)}
			c.Count(fmt.Sprintf("register-addrs:%d", len(r.addrs)))
			makeAndRead(c, r, "variety")
		}
		// named provider outside the pool, empty provider
		for _, reader := range []string{rdIngest, rdRegister} {
			for _, prov := range []peer.ID{outsiderID, ""} {
				m := makeIn{reader: reader, signer: ids[0], provider: prov, mh: randMH(rng), ctx: rng.Bytes(4), md: rng.Bytes(5)}
				if reader == rdRegister {
					m.addrs = registerAddrPool[:1]
				} else {
					m.addrs = ingestAddrPool[:2]
				}
				makeAndRead(c, m, "outsider")
			}
		}
		// register constructor argument checks
		doMake(c, makeIn{reader: rdRegister, signer: ids[0], provider: ids[0].ID}, true)
		doMake(c, makeIn{reader: rdRegister, signer: ids[0], provider: ids[0].ID, addrs: []string{}}, true)
		doMake(c, makeIn{reader: rdRegister, signer: ids[0], provider: ids[0].ID, addrs: []string{"/ip4/127.0.0.1/tcp/1", "not a multiaddr"}}, true)
		doMake(c, makeIn{reader: rdRegister, signer: ids[0], provider: ids[0].ID, addrs: []string{""}}, true)
	}
}

// sealFor signs layout(dom, ty, pl) with id's key and returns the marshalled envelope
// carrying key `key`, type `ety`, payload `epl` (which may differ from what was signed).
func signOver(c *vlib.Ctx, id *keypool.Identity, dom string, ty, pl []byte) []byte {
	sig, err := id.Priv.Sign(layout(dom, ty, pl))
	if err != nil {
		panic(err)
	}
	if !recordSig(c, id.Index, dom, ty, pl, sig) {
		panic("own signature does not verify")
	}
	return sig
}

func genField(c *vlib.Ctx) {
	rng := c.Rng.Fork("field")
	for _, typ := range keypool.KeyTypes {
		ids := pool.OfType(typ)
		a, b := ids[0], ids[1]
		other := pool.Ids[(a.Index+4)%len(pool.Ids)] // an identity of another key type
		for _, reader := range []string{rdIngest, rdRegister} {
			mk := func(id *keypool.Identity) *view {
				m := makeIn{reader: reader, signer: id, provider: id.ID, mh: randMH(rng), ctx: rng.Bytes(3), md: rng.Bytes(4), addrs: []string{"/ip4/127.0.0.1/tcp/9"}}
				return parseView(doMake(c, m, false))
			}
			va, vb, vo := mk(a), mk(b), mk(other)
			dom, ty := readerDomain(reader), readerType(reader)
			odom, oty := readerDomain(otherReader(reader)), readerType(otherReader(reader))
			type scen struct {
				name string
				data []byte
				acc  bool
			}
			var sc []scen
			add := func(name string, data []byte) { sc = append(sc, scen{name, data, false}) }
			// re-marshalling the four fields unchanged is accepted (control)
			sc = append(sc, scen{"control:rebuilt-unchanged", buildEnvelope(va.key, va.ty, va.pl, va.sig), true})
			// one field replaced
			add("key:=other-identity-same-type", buildEnvelope(vb.key, va.ty, va.pl, va.sig))
			add("key:=other-identity-other-type", buildEnvelope(vo.key, va.ty, va.pl, va.sig))
			add("type:=other-record-type", buildEnvelope(va.key, oty, va.pl, va.sig))
			add("type:=empty", buildEnvelope(va.key, nil, va.pl, va.sig))
			add("type:=prefix", buildEnvelope(va.key, ty[:len(ty)-1], va.pl, va.sig))
			add("type:=extended", buildEnvelope(va.key, append(append([]byte{}, ty...), 0), va.pl, va.sig))
			add("payload:=other-valid-payload", buildEnvelope(va.key, va.ty, vb.pl, va.sig))
			add("payload:=empty", buildEnvelope(va.key, va.ty, nil, va.sig))
			add("payload:=truncated", buildEnvelope(va.key, va.ty, va.pl[:len(va.pl)-1], va.sig))
			add("payload:=extended", buildEnvelope(va.key, va.ty, append(append([]byte{}, va.pl...), ' '), va.sig))
			add("sig:=other-envelope's", buildEnvelope(va.key, va.ty, va.pl, vb.sig))
			add("sig:=empty", buildEnvelope(va.key, va.ty, va.pl, nil))
			add("sig:=truncated", buildEnvelope(va.key, va.ty, va.pl, va.sig[:len(va.sig)-1]))
			// other byte strings that the scheme may take for the same signature
			add("sig-malleable:trailing-byte", buildEnvelope(va.key, va.ty, va.pl, append(append([]byte{}, va.sig...), 0)))
			if ns := negateS(typ, va.sig); ns != nil {
				add("sig-malleable:negated-s", buildEnvelope(va.key, va.ty, va.pl, ns))
			}
			// key and signature swapped between two valid envelopes
			add("swap-key-sig:b's key and signature on a's request", buildEnvelope(vb.key, va.ty, va.pl, vb.sig))
			add("swap-key-sig:other-type key and signature on a's request", buildEnvelope(vo.key, va.ty, va.pl, vo.sig))
			// re-signing a's request by another key (a valid envelope of b naming a)
			add("resign:by-b", buildEnvelope(b.Pub, va.ty, va.pl, signOver(c, b, dom, va.ty, va.pl)))
			add("resign:by-other-type", buildEnvelope(other.Pub, va.ty, va.pl, signOver(c, other, dom, va.ty, va.pl)))
			// a's own signature, but made for another domain
			for _, d := range []string{odom, "", dom[:len(dom)-1], dom + "x", "indexer"} {
				add(fmt.Sprintf("domain:signed-for-%q", d), buildEnvelope(a.Pub, va.ty, va.pl, signOver(c, a, d, va.ty, va.pl)))
			}
			// boundary shift between domain and type: the last domain byte moved into the type
			shTy := append([]byte{dom[len(dom)-1]}, ty...)
			add("boundary:domain-byte-moved-into-type", buildEnvelope(a.Pub, shTy, va.pl, signOver(c, a, dom[:len(dom)-1], shTy, va.pl)))
			add("boundary:signed-shifted-presented-plain", buildEnvelope(a.Pub, va.ty, va.pl, signOver(c, a, dom[:len(dom)-1], shTy, va.pl)))
			// boundary shift between type and payload
			shPl := append([]byte{ty[len(ty)-1]}, va.pl...)
			add("boundary:type-byte-moved-into-payload", buildEnvelope(a.Pub, va.ty, va.pl, signOver(c, a, dom, ty[:len(ty)-1], shPl)))
			// the other record type correctly sealed by a under THIS reader's domain
			mo := makeIn{reader: otherReader(reader), signer: a, provider: a.ID, addrs: []string{"/ip4/127.0.0.1/tcp/9"}}
			vx := parseView(doMake(c, mo, false))
			add("wrong-record:other type and payload sealed for this domain", buildEnvelope(a.Pub, oty, vx.pl, signOver(c, a, dom, oty, vx.pl)))
			add("wrong-record:this type over the other record's payload", buildEnvelope(a.Pub, ty, vx.pl, signOver(c, a, dom, ty, vx.pl)))
			add("wrong-record:unregistered type", buildEnvelope(a.Pub, []byte{9, 9}, va.pl, signOver(c, a, dom, []byte{9, 9}, va.pl)))
			// through the real Seal with a harness record type
			if env, err := record.Seal(&anyRecord{dom: odom, ty: ty, pl: va.pl}, a.Priv); err == nil {
				d, _ := env.Marshal()
				if v := parseView(d); v != nil {
					recordSig(c, a.Index, odom, v.ty, v.pl, v.sig)
				}
				add("domain:real Seal for the other domain, this type and payload", d)
			}
			for _, s := range sc {
				p := presentation{reader: reader, data: s.data, fam: "read", kind: "field", expect: "reject",
					sig:        fmt.Sprintf("%s:field:%s:%s", reader, s.name, typ),
					desc:       fmt.Sprintf("%s (%s, keys %d/%d/%d)", s.name, typ, a.Index, b.Index, other.Index),
					nontrivKey: fmt.Sprintf("field/%s/%s/%s", reader, typ, s.name)}
				if s.acc {
					p.expect = "accept"
				}
				malleable := strings.HasPrefix(s.name, "sig-malleable:")
				if malleable {
					// Not an altered signature in the symbolic sense: the verifier may take
					// these bytes for the SAME signature (same key, same message).  No verdict is
					// demanded; what the scheme does is recorded in the evidence.
					p.expect = ""
				}
				c.Count("field:" + s.name)
				o := present(c, p)
				if malleable && o.kind == "ok" {
					key := "malleable-encoding-accepted:" + typ + ":" + strings.TrimPrefix(s.name, "sig-malleable:")
					if c.Res.Distribution[key] == 0 {
						c.Note("signature scheme " + typ + " accepts a second encoding of a signature (" + strings.TrimPrefix(s.name, "sig-malleable:") + "): same signer, same message; named as the same symbolic signature")
					}
					c.Count(key)
				}
			}
		}
	}
}

// every byte offset of the sealed bytes altered
func genAlter(c *vlib.Ctx) {
	rng := c.Rng.Fork("alter")
	for _, typ := range keypool.KeyTypes {
		id := pool.OfType(typ)[0]
		for _, reader := range []string{rdIngest, rdRegister} {
			m := makeIn{reader: reader, signer: id, provider: id.ID, ctx: []byte("ctx"), md: []byte{1, 2, 3, 4}, addrs: []string{"/ip4/127.0.0.1/tcp/9"}}
			if reader == rdIngest {
				h := sha256.Sum256([]byte(typ))
				m.mh, _ = multihash.Encode(h[:], multihash.SHA2_256)
			}
			data := doMake(c, m, false)
			base := parseView(data)
			share(base.pl)
			share(base.ty)
			share([]byte(readerDomain(reader)))
			// control: the unaltered bytes are accepted
			present(c, presentation{reader: reader, data: data, fam: "alt", kind: "alter-control", expect: "accept",
				sig: reader + ":own-request-rejected:" + typ, desc: "unaltered base of the alteration sweep (" + typ + ")", nontrivKey: "alter-control/" + reader + "/" + typ})
			nCase, nOracle := 1, 5
			if c.Thorough() {
				nCase, nOracle = 4, 255
			}
			for i := range data {
				field := fieldAt(data, i)
				seen := map[byte]bool{0: true}
				for n := 0; n < nCase+nOracle; n++ {
					var x byte
					switch {
					case n == 0:
						x = 1 << uint(rng.Intn(8))
					case nOracle == 255 && n >= nCase:
						x = byte(n - nCase + 1)
					default:
						x = byte(1 + rng.Intn(255))
					}
					if seen[x] {
						continue
					}
					seen[x] = true
					alt := append([]byte{}, data...)
					alt[i] ^= x
					p := presentation{reader: reader, data: alt, kind: "alter-" + field, expect: "reject",
						sig:        fmt.Sprintf("%s:altered-byte:%s:%s", reader, field, typ),
						desc:       fmt.Sprintf("byte %d (%s) of a %s %s request xor 0x%02x", i, field, typ, reader, x),
						nontrivKey: fmt.Sprintf("alter/%s/%s/%d", reader, typ, i)}
					if n < nCase {
						p.fam = "alt"
					}
					present(c, p)
				}
			}
		}
	}
}

func genGarbage(c *vlib.Ctx) {
	rng := c.Rng.Fork("garbage")
	id := pool.Ids[0]
	for _, reader := range []string{rdIngest, rdRegister} {
		m := makeIn{reader: reader, signer: id, provider: id.ID, ctx: []byte("c"), addrs: []string{"/ip4/127.0.0.1/tcp/9"}}
		data := doMake(c, m, false)
		g := func(name string, d []byte, expect string) {
			fam := "read"
			if name == "truncated" && len(d)%4 != 0 && !c.Thorough() {
				fam = "" // quick: every 4th truncation is also a Coq case, all go through the oracles
			}
			present(c, presentation{reader: reader, data: d, fam: fam, kind: "garbage-" + name, expect: expect,
				sig: reader + ":garbage:" + name, desc: name, nontrivKey: "garbage/" + reader + "/" + name})
		}
		g("nil", nil, "reject")
		g("empty", []byte{}, "reject")
		for n := 0; n < c.Pick(60, 2000); n++ {
			g("random", rng.Bytes(1+rng.Intn(200)), "reject")
		}
		for n := 0; n < len(data); n++ {
			g("truncated", data[:n], "reject")
		}
		// appended bytes: an unknown field leaves the four fields as they were (protobuf
		// ignores it), so no rejection is demanded -- only the scenario-independent oracles
		g("appended-unknown-field", append(append([]byte{}, data...), 0x30, 0x00), "")
		g("appended-zero", append(append([]byte{}, data...), 0x00), "")
		for n := 0; n < c.Pick(20, 400); n++ {
			g("appended-random", append(append([]byte{}, data...), rng.Bytes(1+rng.Intn(6))...), "")
		}
		// two envelopes concatenated (protobuf merges: last value of each field wins)
		m2 := makeIn{reader: reader, signer: pool.Ids[1], provider: id.ID, ctx: []byte("d"), addrs: []string{"/ip4/127.0.0.1/tcp/9"}}
		data2 := doMake(c, m2, false)
		g("concatenated-own+foreign", append(append([]byte{}, data...), data2...), "reject")
		g("concatenated-foreign+own", append(append([]byte{}, data2...), data...), "")
	}
}

var secp256k1N, _ = new(big.Int).SetString("FFFFFFFFFFFFFFFFFFFFFFFFFFFFFFFEBAAEDCE6AF48A03BBFD25E8CD0364141", 16)

// negateS re-encodes a DER (r, s) signature as (r, n-s): for ECDSA the other valid
// signature of the same message by the same key.  nil for schemes without that form.
func negateS(typ string, sig []byte) []byte {
	var n *big.Int
	switch typ {
	case "ecdsa":
		n = elliptic.P256().Params().N
	case "secp256k1":
		n = secp256k1N
	default:
		return nil
	}
	var rs struct{ R, S *big.Int }
	if _, err := asn1.Unmarshal(sig, &rs); err != nil {
		return nil
	}
	rs.S = new(big.Int).Sub(n, rs.S)
	out, err := asn1.Marshal(rs)
	if err != nil {
		return nil
	}
	return out
}
