package main

// Interleaved and concurrent use of the constructors and readers.
//
// "Requests produced by the library's own constructors are always accepted and return the
// fields they were built from" must hold whatever else the process does with the package
// in the meantime.  A crypto.PrivKey wrapper whose Sign builds, seals and reads back ANOTHER
// request before it signs puts that other request exactly between this request's
// MarshalRecord and its envelope's Marshal -- deterministically, on one goroutine.

import (
	"bytes"
	"crypto/sha256"
	"encoding/hex"
	"fmt"
	"sync"
	"time"

	"github.com/ipni/go-libipni/ingest/model"
	"github.com/libp2p/go-libp2p/core/crypto"
	"github.com/libp2p/go-libp2p/core/peer"
	"github.com/multiformats/go-multihash"

	"verif/harness/keypool"
	"verif/harness/vlib"
)

type nestKey struct {
	crypto.PrivKey
	during func()
	done   bool
}

func (k *nestKey) Sign(data []byte) ([]byte, error) {
	if !k.done {
		k.done = true
		k.during()
	}
	return k.PrivKey.Sign(data)
}

func makeInOfReplay(r replayT) makeIn {
	kb, _ := hex.DecodeString(r.SignerPriv)
	k, err := crypto.UnmarshalPrivateKey(kb)
	if err != nil {
		panic(err)
	}
	var signer *keypool.Identity
	for _, it := range pool.Ids {
		if it.Pub.Equals(k.GetPublic()) {
			signer = it
		}
	}
	if signer == nil {
		signer = pool.Add(r.SignerType, k)
	}
	prov, _ := peer.Decode(r.Provider)
	mh, _ := hex.DecodeString(r.MH)
	ctx, _ := hex.DecodeString(r.Ctx)
	md, _ := hex.DecodeString(r.MD)
	m := makeIn{reader: r.Reader, signer: signer, provider: prov, mh: mh, ctx: ctx, md: md, addrs: r.Addrs}
	if r.Inner != nil {
		in := makeInOfReplay(*r.Inner)
		m.inner = &in
	}
	return m
}

func mhOf(s string) []byte {
	h := sha256.Sum256([]byte(s))
	m, _ := multihash.Encode(h[:], multihash.SHA2_256)
	return m
}

func genNested(c *vlib.Ctx) {
	addr := []string{"/ip4/127.0.0.1/tcp/9"}
	for ti, typ := range keypool.KeyTypes {
		ids := pool.OfType(typ)
		a := ids[0]
		other := pool.Ids[(a.Index+3)%len(pool.Ids)]
		for _, in := range []*keypool.Identity{a, ids[1], other} {
			outerI := makeIn{reader: rdIngest, signer: a, provider: a.ID, mh: mhOf("outer" + typ), ctx: []byte("ctx-OUTER"), md: []byte("md-OUTER"), addrs: addr}
			outerR := makeIn{reader: rdRegister, signer: a, provider: a.ID, addrs: []string{"/ip4/127.0.0.1/tcp/9", "/ip4/203.0.113.9/tcp/3003"}}
			inners := []makeIn{
				// same encoded length as the outer ingest request when the identity is the same
				{reader: rdIngest, signer: in, provider: in.ID, mh: mhOf("inner" + typ), ctx: []byte("ctx-inner"), md: []byte("md-inner"), addrs: addr},
				{reader: rdIngest, signer: in, provider: in.ID, mh: nil, ctx: []byte("c"), md: nil},
				{reader: rdIngest, signer: in, provider: in.ID, mh: mhOf("x"), ctx: bytes.Repeat([]byte("C"), 64), md: bytes.Repeat([]byte("M"), 300), addrs: ingestAddrPool[:3]},
				{reader: rdRegister, signer: in, provider: in.ID, addrs: []string{"/dns4/example.com/tcp/443/https"}},
			}
			for ii := range inners {
				for _, outer := range []makeIn{outerI, outerR} {
					if outer.reader == rdRegister && ii > 0 && ii < 3 && !c.Thorough() {
						continue
					}
					o := outer
					inner := inners[ii]
					o.inner = &inner
					c.Count("interleaved:" + o.reader + "-during-sign-" + inner.reader)
					makeAndRead(c, o, "nested-outer")
				}
			}
		}
		// nested twice, and the inner request signed by a foreign key (rejected, as always)
		in2 := makeIn{reader: rdIngest, signer: ids[1], provider: ids[1].ID, mh: mhOf("deep"), ctx: []byte("ctx-deep!"), md: []byte("md-deep!"), addrs: addr}
		in1 := makeIn{reader: rdIngest, signer: a, provider: a.ID, mh: mhOf("mid" + typ), ctx: []byte("ctx-midd!"), md: []byte("md-midd!"), addrs: addr, inner: &in2}
		makeAndRead(c, makeIn{reader: rdIngest, signer: a, provider: a.ID, mh: mhOf("top"), ctx: []byte("ctx-topp!"), md: []byte("md-topp!"), addrs: addr, inner: &in1}, "nested-outer")
		foreign := makeIn{reader: rdIngest, signer: ids[1], provider: a.ID, mh: mhOf("forg"), ctx: []byte("ctx-forge"), md: []byte("md-forge"), addrs: addr}
		makeAndRead(c, makeIn{reader: rdIngest, signer: a, provider: a.ID, mh: mhOf("own" + fmt.Sprint(ti)), ctx: []byte("ctx-ownn!"), md: []byte("md-ownn!"), addrs: addr, inner: &foreign}, "nested-outer")
	}
}

// ---- reads in several orders and concurrently ----

func genReadOrder(c *vlib.Ctx) {
	rng := c.Rng.Fork("read-order")
	for _, typ := range keypool.KeyTypes {
		ids := pool.OfType(typ)
		a, b := ids[0], ids[1]
		type item struct {
			name   string
			reader string
			data   []byte
			iso    outcome
		}
		var items []item
		add := func(name, reader string, data []byte) {
			items = append(items, item{name, reader, data, callReader(reader, data)})
		}
		own, _ := callMake(makeIn{reader: rdIngest, signer: a, provider: a.ID, mh: mhOf("ro" + typ), ctx: []byte("one"), md: []byte("1"), addrs: []string{"/ip4/127.0.0.1/tcp/9"}})
		own2, _ := callMake(makeIn{reader: rdIngest, signer: a, provider: a.ID, mh: mhOf("ro2" + typ), ctx: []byte("two"), md: []byte("2")})
		forged, _ := callMake(makeIn{reader: rdIngest, signer: b, provider: a.ID, mh: mhOf("ro" + typ), ctx: []byte("one"), md: []byte("1")})
		reg, _ := callMake(makeIn{reader: rdRegister, signer: a, provider: a.ID, addrs: []string{"/ip4/127.0.0.1/tcp/9"}})
		regForged, _ := callMake(makeIn{reader: rdRegister, signer: b, provider: a.ID, addrs: []string{"/ip4/127.0.0.1/tcp/9"}})
		altered := append([]byte{}, own...)
		altered[len(altered)/2] ^= 0x04
		add("own", rdIngest, own)
		add("foreign-signed", rdIngest, forged)
		add("own-2", rdIngest, own2)
		add("altered", rdIngest, altered)
		add("register-into-ingest", rdIngest, reg)
		add("own-register", rdRegister, reg)
		add("foreign-signed-register", rdRegister, regForged)
		add("ingest-into-register", rdRegister, own)
		same := func(x, y outcome) bool {
			return x.kind == y.kind && x.ingest.equal(y.ingest) && x.peer.equal(y.peer)
		}
		for round := 0; round < c.Pick(3, 20); round++ {
			perm := make([]int, len(items))
			for i := range perm {
				perm[i] = i
			}
			for i := len(perm) - 1; i > 0; i-- {
				j := rng.Intn(i + 1)
				perm[i], perm[j] = perm[j], perm[i]
			}
			order := ""
			for _, i := range perm {
				order += items[i].name + ","
			}
			for _, i := range perm {
				it := items[i]
				o := present(c, presentation{reader: it.reader, data: it.data, fam: "read", kind: "read-order",
					desc: "read in the order " + order + " (" + typ + "): " + it.name, nontrivKey: fmt.Sprintf("read-order/%s/%d/%s", typ, round, it.name)})
				if !same(o, it.iso) {
					c.Fail(fmt.Sprintf("%s:read-depends-on-order:%s:%s", it.reader, it.name, typ),
						fmt.Sprintf("reading %q after %s gives %s, in isolation %s", it.name, order, o.kind, it.iso.kind),
						&replayT{Kind: "bytes", Reader: it.reader, Data: hx(it.data), Note: "read-order " + order})
				}
			}
		}
		// the same reads concurrently (oracle only)
		var wg sync.WaitGroup
		var mu sync.Mutex
		bad := ""
		for g := 0; g < 4; g++ {
			wg.Add(1)
			go func(g int) {
				defer wg.Done()
				for n := 0; n < 25; n++ {
					it := items[(g+n)%len(items)]
					if o := callReader(it.reader, it.data); !same(o, it.iso) {
						mu.Lock()
						bad = it.name
						mu.Unlock()
					}
				}
			}(g)
		}
		wg.Wait()
		c.Eval()
		c.Count("kind:concurrent-reads")
		if bad != "" {
			c.Fail("read:concurrent-reads-differ:"+typ, "a request read concurrently with others got another verdict than in isolation: "+bad, nil)
		}
	}
}

// ---- concurrent constructors + readers (oracle only) ----

func runStress(c *vlib.Ctx, goroutines int, d time.Duration) {
	type failure struct{ kind, desc string }
	var mu sync.Mutex
	var first *failure
	total := 0
	deadline := time.Now().Add(d)
	var wg sync.WaitGroup
	for g := 0; g < goroutines; g++ {
		wg.Add(1)
		go func(g int) {
			defer wg.Done()
			id := pool.Ids[(g*3)%len(pool.Ids)]
			if id.Type == "rsa" {
				id = pool.Ids[g%3] // keep the loop fast: RSA signing is slow
			}
			n := 0
			for i := 0; time.Now().Before(deadline); i++ {
				n++
				// every request has its own fields, all of the same encoded length
				tag := fmt.Sprintf("%02d-%06d", g, i)
				mh, ctx, md := mhOf(tag), []byte("ctx-"+tag), []byte("md-"+tag)
				data, err := model.MakeIngestRequest(id.ID, id.Priv, mh, ctx, md, []string{"/ip4/127.0.0.1/tcp/9"})
				var f *failure
				if err != nil {
					f = &failure{"constructor-error", err.Error()}
				} else if r, err := model.ReadIngestRequest(data); err != nil {
					f = &failure{"own-request-rejected", "request " + tag + " rejected: " + err.Error()}
				} else if !bytes.Equal(r.Multihash, mh) || !bytes.Equal(r.ContextID, ctx) || !bytes.Equal(r.Metadata, md) || r.ProviderID != id.ID {
					f = &failure{"fields-changed", fmt.Sprintf("request %s read back with context ID %q", tag, r.ContextID)}
				}
				if f == nil && i%4 == 0 {
					data, err := model.MakeRegisterRequest(id.ID, id.Priv, []string{"/ip4/127.0.0.1/tcp/" + fmt.Sprint(1000+g)})
					if err != nil {
						f = &failure{"constructor-error", err.Error()}
					} else if r, err := model.ReadRegisterRequest(data); err != nil || r.PeerID != id.ID || len(r.Addrs) != 1 {
						f = &failure{"own-register-request-rejected", fmt.Sprint(err)}
					}
				}
				if f != nil {
					mu.Lock()
					if first == nil {
						first = f
					}
					mu.Unlock()
				}
			}
			mu.Lock()
			total += n
			mu.Unlock()
		}(g)
	}
	wg.Wait()
	c.Eval()
	c.Count("kind:concurrent-constructors-run")
	c.Note(fmt.Sprintf("concurrent stress: %d goroutines for %v constructed and read back %d ingest requests", goroutines, d, total))
	if first != nil {
		c.Fail("ingest:concurrent-constructors:"+first.kind, fmt.Sprintf("%d goroutines constructing and reading back their own requests: %s", goroutines, first.desc),
			&replayT{Kind: "stress", Reader: rdIngest, Goroutines: goroutines, Millis: int(d / time.Millisecond)})
	}
}

func genStress(c *vlib.Ctx) {
	runStress(c, 8, time.Duration(c.Pick(500, 5000))*time.Millisecond)
}
