package main

// Parsed view of presented bytes, Coq term printers, and the table that names real
// signatures by who signed what.

import (
	"bytes"
	"fmt"

	"github.com/ipni/go-libipni/ingest/model"
	"github.com/libp2p/go-libp2p/core/crypto"
	"github.com/libp2p/go-libp2p/core/peer"
	recpb "github.com/libp2p/go-libp2p/core/record/pb"
	"github.com/multiformats/go-varint"
	"google.golang.org/protobuf/encoding/protowire"
	"google.golang.org/protobuf/proto"

	"verif/harness/vlib"
)

// layout is the harness' own statement of what a libp2p envelope signature covers:
// each of domain, payload type, payload prefixed with its length as an unsigned varint.
// (Tied to the real, unexported makeUnsigned by the "unsigned" family: a signature the
// harness makes over layout(...) must be accepted by the real ConsumeTypedEnvelope.)
func layout(dom string, ty, pl []byte) []byte {
	var b []byte
	for _, f := range [][]byte{[]byte(dom), ty, pl} {
		b = append(b, varint.ToUvarint(uint64(len(f)))...)
		b = append(b, f...)
	}
	return b
}

type view struct {
	key    crypto.PubKey
	keyIdx int
	ty     []byte
	pl     []byte
	sig    []byte
}

// parseView decodes presented bytes the way record.UnmarshalEnvelope does (protobuf,
// then crypto.PublicKeyFromProto) but keeps the signature field, which libp2p's
// Envelope does not export.  nil = does not parse.
func parseView(data []byte) (v *view) {
	defer func() {
		if r := recover(); r != nil {
			v = nil
		}
	}()
	var e recpb.Envelope
	if err := proto.Unmarshal(data, &e); err != nil {
		return nil
	}
	key, err := crypto.PublicKeyFromProto(e.PublicKey)
	if err != nil {
		return nil
	}
	return &view{key: key, keyIdx: pool.KeyIndex(key), ty: e.PayloadType, pl: e.Payload, sig: e.Signature}
}

// buildEnvelope marshals an envelope from explicit fields (field-level scenarios).
func buildEnvelope(key crypto.PubKey, ty, pl, sig []byte) []byte {
	kp, err := crypto.PublicKeyToProto(key)
	if err != nil {
		panic(err)
	}
	b, err := proto.Marshal(&recpb.Envelope{PublicKey: kp, PayloadType: ty, Payload: pl, Signature: sig})
	if err != nil {
		panic(err)
	}
	return b
}

type sigInfo struct {
	k   int
	dom string
	ty  []byte
	pl  []byte
}

var sigTable = map[string]sigInfo{}

// recordSig notes that sig is key k's signature over layout(dom, ty, pl) -- after
// checking exactly that with the real verifier, so that a descriptor handed to the
// model is a fact about the real bytes and not the harness' belief.
func recordSig(c *vlib.Ctx, k int, dom string, ty, pl, sig []byte) bool {
	ok, err := pool.Ids[k].Pub.Verify(layout(dom, ty, pl), sig)
	if err != nil || !ok {
		return false
	}
	sigTable[string(sig)] = sigInfo{k, dom, append([]byte{}, ty...), append([]byte{}, pl...)}
	return true
}

// sigTerm names the signature bytes of a view for the symbolic model.  Bytes the
// harness saw being produced by a signing are named by that signing.  Other bytes are
// Junk -- unless the real verifier says they ARE a signature by the (pool) key in the
// view over what the reader is about to check (ECDSA has several encodings of one
// signature); then they are named as that signature, and equivalentSig is set so that
// the caller can count / flag it.
func sigTerm(v *view, sh bool, readerDom string) (term string, equivalent bool) {
	shareBytes := func(b []byte) string { return shareBytesIf(sh, b) }
	if si, ok := sigTable[string(v.sig)]; ok {
		if bytes.Equal(si.ty, v.ty) && bytes.Equal(si.pl, v.pl) {
			return fmt.Sprintf("(SdSelf %d %s)", si.k, shareBytes([]byte(si.dom))), false
		}
		return fmt.Sprintf("(SdOver %d %s %s %s)", si.k, shareBytes([]byte(si.dom)), shareBytes(si.ty), shareBytes(si.pl)), false
	}
	{
		if ok, err := v.key.Verify(layout(readerDom, v.ty, v.pl), v.sig); err == nil && ok {
			return fmt.Sprintf("(SdSelf %d %s)", v.keyIdx, shareBytes([]byte(readerDom))), true
		}
	}
	return fmt.Sprintf("(SdJunk %d)", pool.JunkIndex(v.sig)), false
}

func wireTerm(v *view, sh bool, readerDom string) string {
	if v == nil {
		return "None"
	}
	st, _ := sigTerm(v, sh, readerDom)
	return fmt.Sprintf("(Some (WEnv %d %s %s %s))", v.keyIdx, shareBytesIf(sh, v.ty), shareBytesIf(sh, v.pl), st)
}

// ---- sharing of long byte strings between the cases of one file ----
// Byte strings registered with share() are emitted once in the header of the case file
// (Definition sN := unhex "..") and referred to by name; everything else is inline.
var (
	shared     = map[string]string{}
	sharedDefs []string
)

func share(b []byte) {
	if _, ok := shared[string(b)]; ok || len(b) < 24 {
		return
	}
	name := fmt.Sprintf("s%d", len(shared))
	shared[string(b)] = name
	sharedDefs = append(sharedDefs, fmt.Sprintf("Definition %s := %s.", name, vlib.CoqBytes(b)))
}

func shareBytesIf(sh bool, b []byte) string {
	if n, ok := shared[string(b)]; ok && sh {
		return n
	}
	return vlib.CoqBytes(b)
}

// ---- records ----

type ingestFields struct {
	MH       []byte
	Provider peer.ID
	Ctx, MD  []byte
	Addrs    []string
	Seq      uint64
}

func fieldsOfReq(r *model.IngestRequest) ingestFields {
	return ingestFields{MH: []byte(r.Multihash), Provider: r.ProviderID, Ctx: r.ContextID, MD: r.Metadata, Addrs: r.Addrs, Seq: r.Seq}
}

func (f ingestFields) term() string {
	as := make([]string, len(f.Addrs))
	for i, a := range f.Addrs {
		as[i] = vlib.CoqBytes([]byte(a))
	}
	return fmt.Sprintf("(IngestReq %s %d %s %s %s %d)", vlib.CoqBytes(f.MH), pool.IDIndex(f.Provider),
		vlib.CoqBytes(f.Ctx), vlib.CoqBytes(f.MD), vlib.CoqList(as), f.Seq)
}

func (f ingestFields) equal(g ingestFields) bool {
	if !bytes.Equal(f.MH, g.MH) || f.Provider != g.Provider || !bytes.Equal(f.Ctx, g.Ctx) || !bytes.Equal(f.MD, g.MD) ||
		len(f.Addrs) != len(g.Addrs) || f.Seq != g.Seq {
		return false
	}
	for i := range f.Addrs {
		if f.Addrs[i] != g.Addrs[i] {
			return false
		}
	}
	return true
}

type peerFields struct {
	Peer  peer.ID
	Addrs [][]byte // binary multiaddrs
	Seq   uint64
}

func fieldsOfRec(r *peer.PeerRecord) peerFields {
	f := peerFields{Peer: r.PeerID, Seq: r.Seq}
	for _, a := range r.Addrs {
		f.Addrs = append(f.Addrs, a.Bytes())
	}
	return f
}

func (f peerFields) term() string {
	as := make([]string, len(f.Addrs))
	for i, a := range f.Addrs {
		as[i] = vlib.CoqBytes(a)
	}
	return fmt.Sprintf("(PeerRec %d %s %d)", pool.IDIndex(f.Peer), vlib.CoqList(as), f.Seq)
}

func (f peerFields) equal(g peerFields) bool {
	if f.Peer != g.Peer || f.Seq != g.Seq || len(f.Addrs) != len(g.Addrs) {
		return false
	}
	for i := range f.Addrs {
		if !bytes.Equal(f.Addrs[i], g.Addrs[i]) {
			return false
		}
	}
	return true
}

// the record types' own decoders, applied by the harness to the payload of a view
func decIngest(pl []byte) (f ingestFields, ok bool) {
	defer func() {
		if recover() != nil {
			ok = false
		}
	}()
	r := &model.IngestRequest{}
	if err := r.UnmarshalRecord(pl); err != nil {
		return f, false
	}
	return fieldsOfReq(r), true
}

func decPeer(pl []byte) (f peerFields, ok bool) {
	defer func() {
		if recover() != nil {
			ok = false
		}
	}()
	r := &peer.PeerRecord{}
	if err := r.UnmarshalRecord(pl); err != nil {
		return f, false
	}
	return fieldsOfRec(r), true
}

// fieldAt classifies byte offset i of a marshalled envelope: "key", "type", "payload",
// "sig" (inside the value of field 1, 2, 3, 5) or "frame" (a tag or length byte).
func fieldAt(data []byte, i int) string {
	off := 0
	for off < len(data) {
		num, typ, n := protowire.ConsumeTag(data[off:])
		if n < 0 {
			return "frame"
		}
		start := off + n
		if typ != protowire.BytesType {
			return "frame"
		}
		l, m := protowire.ConsumeVarint(data[start:])
		if m < 0 {
			return "frame"
		}
		vs := start + m
		ve := vs + int(l)
		if i < vs {
			return "frame"
		}
		if i < ve {
			switch num {
			case 1:
				return "key"
			case 2:
				return "type"
			case 3:
				return "payload"
			case 5:
				return "sig"
			}
			return "frame"
		}
		off = ve
	}
	return "frame"
}
