package main

// Hand-sealed payload shapes.  A request is what was SIGNED: the envelope is sealed with a
// real key under the reader's domain and payload type, but the payload is written by hand
// (JSON for the ingest request, protobuf for the peer record) in every shape a hostile or
// sloppy client could send.  Oracle from the property text: the request is accepted only if
// the signed payload names a provider and the envelope key is that provider's key, and the
// fields returned are exactly the signed content's.  "What the payload says" is read by the
// harness itself (strictIngest / strictPeer below), not by the record types' UnmarshalRecord.

import (
	"bytes"
	"encoding/base64"
	"encoding/json"
	"fmt"
	"strings"

	"github.com/libp2p/go-libp2p/core/peer"
	"github.com/libp2p/go-libp2p/core/record"
	"github.com/multiformats/go-multiaddr"
	"google.golang.org/protobuf/encoding/protowire"

	"verif/harness/keypool"
	"verif/harness/vlib"
)

// strictIngest: the signed JSON is one object; member names match as encoding/json matches
// them (exactly, else case-insensitively), the last occurrence of a member counts; byte
// strings are base64 text, an array of numbers 0..255, or null, Addrs an array of strings or null, Seq an unsigned
// integer or null; the ProviderID member must be PRESENT and a valid peer ID in text form.
func strictIngest(pl []byte) (f ingestFields, ok bool) {
	defer func() {
		if recover() != nil {
			ok = false
		}
	}()
	if !json.Valid(pl) {
		return f, false
	}
	dec := json.NewDecoder(bytes.NewReader(pl))
	dec.UseNumber()
	tok, err := dec.Token()
	if err != nil {
		return f, false
	}
	if d, isDelim := tok.(json.Delim); !isDelim || d != '{' {
		return f, false // null, arrays, strings, numbers name no provider
	}
	named := false
	for dec.More() {
		kt, err := dec.Token()
		if err != nil {
			return f, false
		}
		key := kt.(string)
		var raw json.RawMessage
		if err := dec.Decode(&raw); err != nil {
			return f, false
		}
		isNull := string(raw) == "null"
		b64 := func() ([]byte, bool) {
			if isNull {
				return nil, true
			}
			if len(raw) > 0 && raw[0] == '[' {
				// encoding/json also takes a byte string as an array of numbers 0..255
				var nums []json.Number
				if json.Unmarshal(raw, &nums) != nil {
					return nil, false
				}
				out := make([]byte, len(nums))
				for i, n := range nums {
					var u uint64
					if _, err := fmt.Sscanf(n.String(), "%d", &u); err != nil || fmt.Sprint(u) != n.String() || u > 255 {
						return nil, false
					}
					out[i] = byte(u)
				}
				return out, true
			}
			var s string
			if json.Unmarshal(raw, &s) != nil || len(raw) == 0 || raw[0] != '"' {
				return nil, false
			}
			b, err := base64.StdEncoding.DecodeString(s)
			return b, err == nil
		}
		switch {
		case strings.EqualFold(key, "Multihash"):
			if f.MH, ok = b64(); !ok {
				return f, false
			}
		case strings.EqualFold(key, "ContextID"):
			if f.Ctx, ok = b64(); !ok {
				return f, false
			}
		case strings.EqualFold(key, "Metadata"):
			if f.MD, ok = b64(); !ok {
				return f, false
			}
		case strings.EqualFold(key, "Addrs"):
			if isNull {
				f.Addrs = nil
				continue
			}
			if len(raw) == 0 || raw[0] != '[' {
				return f, false
			}
			var items []json.RawMessage
			if json.Unmarshal(raw, &items) != nil {
				return f, false
			}
			f.Addrs = make([]string, len(items))
			for i, it := range items {
				if string(it) == "null" {
					continue
				}
				if len(it) == 0 || it[0] != '"' || json.Unmarshal(it, &f.Addrs[i]) != nil {
					return f, false
				}
			}
		case strings.EqualFold(key, "Seq"):
			if isNull {
				continue
			}
			var n json.Number
			if json.Unmarshal(raw, &n) != nil || len(raw) == 0 || raw[0] == '"' {
				return f, false
			}
			var u uint64
			if _, err := fmt.Sscanf(n.String(), "%d", &u); err != nil || fmt.Sprint(u) != n.String() {
				return f, false
			}
			f.Seq = u
		case strings.EqualFold(key, "ProviderID"):
			var s string
			if isNull || len(raw) == 0 || raw[0] != '"' || json.Unmarshal(raw, &s) != nil {
				return f, false
			}
			id, err := peer.Decode(s)
			if err != nil {
				return f, false
			}
			f.Provider, named = id, true
		}
	}
	return f, named
}

// strictPeer: the signed protobuf is a PeerRecord: field 1 peer ID bytes (last one counts;
// must be present and a valid multihash), field 2 seq, field 3 address entries whose field 1
// is a binary multiaddr (entries that are not multiaddrs are dropped, as the record type
// does); unknown fields are skipped; malformed wire data names nobody.
func strictPeer(pl []byte) (f peerFields, ok bool) {
	defer func() {
		if recover() != nil {
			ok = false
		}
	}()
	named := false
	b := pl
	for len(b) > 0 {
		num, typ, n := protowire.ConsumeTag(b)
		if n < 0 {
			return f, false
		}
		b = b[n:]
		switch {
		case num == 1 && typ == protowire.BytesType:
			v, n := protowire.ConsumeBytes(b)
			if n < 0 {
				return f, false
			}
			b = b[n:]
			id, err := peer.IDFromBytes(v)
			if err != nil {
				named = false
				f.Peer = ""
				continue
			}
			f.Peer, named = id, true
		case num == 2 && typ == protowire.VarintType:
			v, n := protowire.ConsumeVarint(b)
			if n < 0 {
				return f, false
			}
			b = b[n:]
			f.Seq = v
		case num == 3 && typ == protowire.BytesType:
			v, n := protowire.ConsumeBytes(b)
			if n < 0 {
				return f, false
			}
			b = b[n:]
			var addr []byte
			for e := v; len(e) > 0; {
				en, et, m := protowire.ConsumeTag(e)
				if m < 0 {
					return f, false
				}
				e = e[m:]
				if en == 1 && et == protowire.BytesType {
					av, m := protowire.ConsumeBytes(e)
					if m < 0 {
						return f, false
					}
					e = e[m:]
					addr = av
					continue
				}
				m = protowire.ConsumeFieldValue(en, et, e)
				if m < 0 {
					return f, false
				}
				e = e[m:]
			}
			if ma, err := multiaddr.NewMultiaddrBytes(addr); err == nil {
				f.Addrs = append(f.Addrs, ma.Bytes())
			}
		default:
			// unknown fields, and known field numbers with another wire type, are skipped (protobuf-go)
			n := protowire.ConsumeFieldValue(num, typ, b)
			if n < 0 {
				return f, false
			}
			b = b[n:]
		}
	}
	return f, named
}

// handSeal: the REAL record.Seal over the hand-written payload
func handSeal(c *vlib.Ctx, id *keypool.Identity, reader string, payload []byte) []byte {
	env, err := record.Seal(&anyRecord{dom: readerDomain(reader), ty: readerType(reader), pl: payload}, id.Priv)
	if err != nil {
		panic(err)
	}
	data, err := env.Marshal()
	if err != nil {
		panic(err)
	}
	if v := parseView(data); v != nil {
		recordSig(c, id.Index, readerDomain(reader), v.ty, v.pl, v.sig)
	}
	return data
}

type shape struct {
	name    string
	payload []byte
}

func ingestShapes(prov, other peer.ID) []shape {
	mh := `"Multihash":"EiCpS2DBJbVcqQXKBMn8e3zWKwIYxeZUXDDEUuADJDdvcw=="`
	pid := `"ProviderID":"` + prov.String() + `"`
	ctx := `"ContextID":"Y3R4"`
	md := `"Metadata":"AQI="`
	addrs := `"Addrs":["/ip4/127.0.0.1/tcp/9"]`
	seq := `"Seq":1790000000000000001`
	all := []string{mh, pid, ctx, md, addrs, seq}
	obj := func(ms ...string) []byte { return []byte("{" + strings.Join(ms, ",") + "}") }
	without := func(i int) []string {
		var out []string
		for j, m := range all {
			if j != i {
				out = append(out, m)
			}
		}
		return out
	}
	with := func(i int, m string) []string {
		out := append([]string{}, all...)
		out[i] = m
		return out
	}
	names := []string{"Multihash", "ProviderID", "ContextID", "Metadata", "Addrs", "Seq"}
	sh := []shape{{"canonical", obj(all...)}, {"canonical-other-member-order", obj(seq, addrs, md, ctx, pid, mh)}}
	for i, n := range names {
		sh = append(sh, shape{n + ":omitted", obj(without(i)...)})
		sh = append(sh, shape{n + ":null", obj(with(i, `"`+n+`":null`)...)})
		sh = append(sh, shape{n + ":empty-string", obj(with(i, `"`+n+`":""`)...)})
		sh = append(sh, shape{n + ":number", obj(with(i, `"`+n+`":7`)...)})
		sh = append(sh, shape{n + ":object", obj(with(i, `"`+n+`":{}`)...)})
		sh = append(sh, shape{n + ":array", obj(with(i, `"`+n+`":[]`)...)})
		sh = append(sh, shape{n + ":bool", obj(with(i, `"`+n+`":true`)...)})
		sh = append(sh, shape{n + ":lower-case-name", obj(with(i, strings.Replace(all[i], `"`+n+`"`, `"`+strings.ToLower(n)+`"`, 1))...)})
		sh = append(sh, shape{n + ":upper-case-name", obj(with(i, strings.Replace(all[i], `"`+n+`"`, `"`+strings.ToUpper(n)+`"`, 1))...)})
		sh = append(sh, shape{n + ":duplicated-same", obj(append(append([]string{}, all...), all[i])...)})
	}
	otherPid := `"ProviderID":"` + other.String() + `"`
	sh = append(sh,
		shape{"ProviderID:duplicated-other-last", obj(mh, pid, ctx, md, addrs, seq, otherPid)},
		shape{"ProviderID:duplicated-other-first", obj(mh, otherPid, ctx, md, addrs, seq, pid)},
		shape{"ProviderID:duplicated-lower-case-other-last", obj(mh, pid, ctx, md, addrs, seq, strings.Replace(otherPid, "ProviderID", "providerid", 1))},
		shape{"ProviderID:duplicated-null-last", obj(mh, pid, ctx, md, addrs, seq, `"ProviderID":null`)},
		shape{"ProviderID:other-identity", obj(with(1, otherPid)...)},
		shape{"ProviderID:garbage-text", obj(with(1, `"ProviderID":"not-a-peer-id"`)...)},
		shape{"ProviderID:with-spaces", obj(with(1, `"ProviderID":" `+prov.String()+` "`)...)},
		shape{"ProviderID:name-with-trailing-space", obj(with(1, `"ProviderID ":"`+prov.String()+`"`)...)},
		shape{"ProviderID:member-named-Provider", obj(with(1, `"Provider":"`+prov.String()+`"`)...)},
		shape{"Multihash:long-s-in-name", obj(with(0, strings.Replace(mh, "Multihash", "Multihaſh", 1))...)},
		shape{"Seq:kelvin-sign-free-fold", obj(with(5, strings.Replace(seq, "Seq", "ſeq", 1))...)},
		shape{"Seq:negative", obj(with(5, `"Seq":-1`)...)},
		shape{"Seq:fraction", obj(with(5, `"Seq":1.5`)...)},
		shape{"Seq:exponent", obj(with(5, `"Seq":1e3`)...)},
		shape{"Seq:too-large", obj(with(5, `"Seq":18446744073709551616`)...)},
		shape{"Seq:string", obj(with(5, `"Seq":"5"`)...)},
		shape{"Multihash:not-base64", obj(with(0, `"Multihash":"***"`)...)},
		shape{"Multihash:array-of-numbers", obj(with(0, `"Multihash":[18,2,255,0]`)...)},
		shape{"Multihash:array-with-256", obj(with(0, `"Multihash":[256]`)...)},
		shape{"Multihash:array-with-string", obj(with(0, `"Multihash":["a"]`)...)},
		shape{"Addrs:element-number", obj(with(4, `"Addrs":[1]`)...)},
		shape{"Addrs:element-null", obj(with(4, `"Addrs":[null,"x"]`)...)},
		shape{"unknown-members", obj(append(append([]string{`"x":1`}, all...), `"Provider":"`+other.String()+`"`, `"y":{"ProviderID":"`+other.String()+`"}`)...)},
		shape{"only-provider", obj(pid)},
		shape{"empty-object", []byte("{}")},
		shape{"payload:null", []byte("null")},
		shape{"payload:array", []byte("[]")},
		shape{"payload:string", []byte(`"` + prov.String() + `"`)},
		shape{"payload:number", []byte("7")},
		shape{"payload:empty", nil},
		shape{"payload:whitespace-around", append(append([]byte(" \n\t"), obj(all...)...), ' ', '\n')},
		shape{"payload:trailing-garbage", append(obj(all...), 'x')},
		shape{"payload:two-objects", append(obj(all...), obj(all...)...)},
		shape{"payload:trailing-comma", []byte("{" + strings.Join(all, ",") + ",}")},
		shape{"payload:truncated", obj(all...)[:40]},
		shape{"payload:nested-in-array", append(append([]byte("["), obj(all...)...), ']')},
	)
	return sh
}

func pbBytes(num protowire.Number, v []byte) []byte {
	return protowire.AppendBytes(protowire.AppendTag(nil, num, protowire.BytesType), v)
}
func pbVarint(num protowire.Number, v uint64) []byte {
	return protowire.AppendVarint(protowire.AppendTag(nil, num, protowire.VarintType), v)
}

func registerShapes(prov, other peer.ID) []shape {
	ma, _ := multiaddr.NewMultiaddr("/ip4/127.0.0.1/tcp/9")
	pid := pbBytes(1, []byte(prov))
	opid := pbBytes(1, []byte(other))
	seq := pbVarint(2, 1790000000000000001)
	addr := pbBytes(3, pbBytes(1, ma.Bytes()))
	cat := func(parts ...[]byte) []byte { return bytes.Join(parts, nil) }
	return []shape{
		{"canonical", cat(pid, seq, addr)},
		{"canonical-other-field-order", cat(addr, seq, pid)},
		{"peer_id:omitted", cat(seq, addr)},
		{"peer_id:empty", cat(pbBytes(1, nil), seq, addr)},
		{"peer_id:garbage", cat(pbBytes(1, []byte{1, 2, 3}), seq, addr)},
		{"peer_id:other-identity", cat(opid, seq, addr)},
		{"peer_id:duplicated-other-last", cat(pid, seq, addr, opid)},
		{"peer_id:duplicated-other-first", cat(opid, seq, addr, pid)},
		{"peer_id:duplicated-empty-last", cat(pid, seq, addr, pbBytes(1, nil))},
		{"peer_id:as-varint", cat(pbVarint(1, 5), seq, addr)},
		{"seq:omitted", cat(pid, addr)},
		{"seq:as-bytes", cat(pid, pbBytes(2, []byte{1}), addr)},
		{"seq:duplicated", cat(pid, seq, pbVarint(2, 7), addr)},
		{"addresses:omitted", cat(pid, seq)},
		{"addresses:not-a-multiaddr", cat(pid, seq, pbBytes(3, pbBytes(1, []byte{0xff, 0xff})), addr)},
		{"addresses:empty-entry", cat(pid, seq, pbBytes(3, nil), addr)},
		{"addresses:entry-with-unknown-field", cat(pid, seq, pbBytes(3, cat(pbVarint(9, 1), pbBytes(1, ma.Bytes()))))},
		{"unknown-fields", cat(pbVarint(15, 3), pid, pbBytes(14, opid), seq, addr)},
		{"payload:empty", nil},
		{"payload:trailing-garbage", cat(pid, seq, addr, []byte{0xff})},
		{"payload:truncated", cat(pid, seq, addr)[:10]},
		{"payload:json", []byte(`{"PeerID":"` + prov.String() + `"}`)},
	}
}

func genShapes(c *vlib.Ctx) {
	for _, typ := range keypool.KeyTypes {
		ids := pool.OfType(typ)
		a, b := ids[0], ids[1]
		for _, reader := range []string{rdIngest, rdRegister} {
			shapes := ingestShapes(a.ID, b.ID)
			if reader == rdRegister {
				shapes = registerShapes(a.ID, b.ID)
			}
			for _, sh := range shapes {
				for si, signer := range []*keypool.Identity{a, b} {
					if si == 1 && typ != "ed25519" && !c.Thorough() && !strings.Contains(sh.name, "omitted") && !strings.HasPrefix(sh.name, "payload:") && sh.name != "empty-object" {
						continue // quick: the foreign sealer over every shape for one key type, over the provider-less shapes for all
					}
					data := handSeal(c, signer, reader, sh.payload)
					// the oracle, from the harness' own reading of what was signed
					want := false
					var wi ingestFields
					var wp peerFields
					if reader == rdIngest {
						var ok bool
						wi, ok = strictIngest(sh.payload)
						want = ok && wi.Provider == signer.ID
					} else {
						var ok bool
						wp, ok = strictPeer(sh.payload)
						want = ok && wp.Peer == signer.ID
					}
					p := presentation{reader: reader, data: data, fam: "read", kind: "shape", strict: true,
						sig:        fmt.Sprintf("%s:hand-sealed:%s:sealed-by-%s:%s", reader, sh.name, map[int]string{0: "named-provider", 1: "other-key"}[si], typ),
						desc:       fmt.Sprintf("hand-sealed %s payload, shape %q, sealed by key %d (%s); the payload's provider member is for key %d", reader, sh.name, signer.Index, typ, a.Index),
						nontrivKey: fmt.Sprintf("shape/%s/%s/%s/%d", reader, typ, sh.name, si)}
					if want {
						p.expect = "accept"
						if reader == rdIngest {
							p.want = wi
						} else {
							p.want = wp
						}
					} else {
						p.expect = "reject"
					}
					c.Count("shape:" + reader + ":" + sh.name)
					o := present(c, p)
					if want && o.kind == "ok" {
						// exactly the signed content (incl. the sequence number, which present() does not compare)
						if reader == rdIngest && !wi.equal(o.ingest) || reader == rdRegister && !wp.equal(o.peer) {
							c.Fail(p.sig+":fields", "the fields returned are not the signed content's ("+p.desc+")",
								&replayT{Kind: "bytes", Reader: reader, Data: hx(data), Note: p.desc, Expect: p.expect, Sig: p.sig})
						}
					}
				}
			}
		}
	}
}
