package main

import (
	"context"
	"fmt"
	"time"

	"github.com/ipni/go-libipni/announce"
	"github.com/libp2p/go-libp2p"
	pubsub "github.com/libp2p/go-libp2p-pubsub"
	"github.com/libp2p/go-libp2p/core/peer"

	"verif/harness/recvdrv"
	"verif/harness/vlib"
)

// Receivers with a pubsub topic and WithResend(true): Direct re-publishes between its
// closed check and the select that Close releases.  C16's text: no call hangs, whatever the
// shutdown order; a call in flight when Close happens returns promptly (nil or ErrClosed),
// Close returns, later calls get ErrClosed.  Directed scenarios:
//
//	own-topic:     the receiver owns its topic; Direct(context.Background()) calls race Close
//	               (which closes the topic, after which Publish fails for ever);
//	validator-rejects: the receiver was given a topic whose validator refuses every message:
//	               every Publish fails; Direct must still return (the failure is only logged),
//	               Close must release whatever is pending.
//
// Every call runs under a watchdog; a call that is still running after the bound is a hang.

const resendBound = 3 * time.Second

func bounded(f func() error) (error, bool) {
	ch := make(chan error, 1)
	go func() {
		defer func() {
			if x := recover(); x != nil {
				ch <- fmt.Errorf("panic: %v", x)
			}
		}()
		ch <- f()
	}()
	select {
	case err := <-ch:
		return err, true
	case <-time.After(resendBound):
		return nil, false
	}
}

func resendRound(mode string, seed uint64) string {
	jr := vlib.NewRand(seed)
	jit := func(max int) time.Duration { return time.Duration(jr.Intn(max)) * time.Microsecond }
	h, err := libp2p.New(libp2p.ListenAddrStrings("/ip4/127.0.0.1/tcp/0"), libp2p.DisableRelay())
	if err != nil {
		return "harness: " + err.Error()
	}
	defer h.Close()
	topic := fmt.Sprintf("/verif/c16/resend/%d", seed)
	var r *announce.Receiver
	switch mode {
	case "own-topic":
		r, err = announce.NewReceiver(h, topic, announce.WithResend(true))
	case "validator-rejects":
		// the receiver is given a topic whose validator refuses every message: Publish fails
		// (synchronously, for a local message) for as long as the receiver lives
		pctx, pcancel := context.WithCancel(context.Background())
		defer pcancel()
		ps, e := pubsub.NewGossipSub(pctx, h)
		if e != nil {
			return "harness: " + e.Error()
		}
		if e := ps.RegisterTopicValidator(topic, func(context.Context, peer.ID, *pubsub.Message) bool { return false }); e != nil {
			return "harness: " + e.Error()
		}
		tp, e := ps.Join(topic)
		if e != nil {
			return "harness: " + e.Error()
		}
		r, err = announce.NewReceiver(h, "", announce.WithTopic(tp), announce.WithResend(true))
	}
	if err != nil {
		return "harness: " + err.Error()
	}
	// a consumer so that deliveries do not pile up on the slot
	stop := make(chan struct{})
	go func() {
		for {
			ctx, cancel := context.WithTimeout(context.Background(), 50*time.Millisecond)
			_, err := r.Next(ctx)
			cancel()
			if err == announce.ErrClosed {
				return
			}
			select {
			case <-stop:
				return
			default:
			}
		}
	}()
	defer close(stop)
	nDirect := 2 + jr.Intn(3)
	type res struct {
		err error
		ok  bool
	}
	results := make(chan res, nDirect+1)
	for i := 0; i < nDirect; i++ {
		d := jit(1500)
		cidNo := 1 + i
		go func() {
			time.Sleep(d)
			// context.Background(): only the receiver itself can release this call
			err, ok := bounded(func() error {
				return r.Direct(context.Background(), recvdrv.Cid(cidNo), peer.AddrInfo{ID: recvdrv.Peer(1 + cidNo)})
			})
			results <- res{err, ok}
		}()
	}
	time.Sleep(jit(1200))
	cerr, cok := bounded(r.Close)
	if !cok {
		return mode + ": Close did not return"
	}
	if cerr != nil && mode == "own-topic" {
		return mode + ": Close returned " + cerr.Error()
	}
	for i := 0; i < nDirect; i++ {
		x := <-results
		if !x.ok {
			return mode + ": a Direct(context.Background()) in flight when the receiver was closed never returned"
		}
		if x.err != nil && x.err != announce.ErrClosed {
			return mode + ": Direct returned " + x.err.Error()
		}
	}
	// afterwards: closed error, promptly
	err, ok := bounded(func() error {
		return r.Direct(context.Background(), recvdrv.Cid(99), peer.AddrInfo{ID: recvdrv.Peer(3)})
	})
	if !ok {
		return mode + ": Direct after Close never returned"
	}
	if err != announce.ErrClosed {
		return fmt.Sprintf("%s: Direct after Close returned %v, want ErrClosed", mode, err)
	}
	if _, ok := bounded(r.Close); !ok {
		return mode + ": second Close did not return"
	}
	return ""
}

// resendEntry is the one call from main: it replays a "resend" replay file (returns true:
// main is done), otherwise runs the scenarios and lets main go on.
func resendEntry(c *vlib.Ctx) bool {
	if c.Replay != "" {
		var rp struct {
			Kind      string `json:"kind"`
			Mode      string `json:"mode"`
			RoundSeed uint64 `json:"round_seed"`
		}
		if err := c.LoadReplay(&rp); err != nil || rp.Kind != "resend" {
			return false
		}
		msg := ""
		for i := 0; i < 10 && msg == ""; i++ {
			msg = resendRound(rp.Mode, rp.RoundSeed+uint64(i))
		}
		fmt.Printf("replay: resend scenario %s -> %q\n", rp.Mode, msg)
		if msg != "" {
			fmt.Println("ORACLE-FAIL:", msg)
			c.Fail("resend:"+msg, msg, rp)
		}
		c.Eval()
		return true
	}
	resendScenarios(c)
	return false
}

func resendScenarios(c *vlib.Ctx) {
	rng := c.Rng.Fork("resend")
	n := c.Pick(8, 80)
	fails := 0
	for i := 0; i < n && fails < 2; i++ {
		mode := []string{"own-topic", "validator-rejects"}[i%2]
		seed := rng.Uint64()
		msg := resendRound(mode, seed)
		c.Eval()
		c.Count("resend_rounds:" + mode)
		if msg == "" {
			c.Nontrivial(fmt.Sprintf("resend:%s:%d", mode, i))
			continue
		}
		if len(msg) > 8 && msg[:8] == "harness:" {
			c.Note(msg)
			continue
		}
		fails++
		c.Fail("resend:"+msg, "receiver with topic and WithResend(true): "+msg, map[string]interface{}{"kind": "resend", "mode": mode, "round_seed": seed})
	}
}
