// c16: announce.Receiver shutdown never hangs.
//
// Sequential histories over {Close, Direct, Next, UncacheCid} are enumerated
// exhaustively up to a length, run on the real receiver under a watchdog, checked by
// direct oracles taken from the property text, and written out as Coq cases for the
// acceptor of model/Announce_Receiver.v.  Concurrent rounds exercise racing calls.
package main

import (
	"context"
	"fmt"
	"runtime"
	"sync"
	"time"

	"github.com/ipni/go-libipni/announce"
	"github.com/libp2p/go-libp2p/core/peer"

	"verif/harness/recvdrv"
	"verif/harness/vlib"
)

const nSym = 8

var cfg = recvdrv.Config{Cap: 0, FilterIPs: false, AllowMod: 2}

// build turns a word over the alphabet into a concrete history
func build(word []int) []recvdrv.Op {
	var ops []recvdrv.Op
	next := 1
	last := 0
	for _, s := range word {
		switch s {
		case 0:
			ops = append(ops, recvdrv.Op{Kind: "close"})
		case 1:
			ops = append(ops, recvdrv.Op{Kind: "direct", Peer: 1, Cid: next, Addrs: []int{0}})
			last = next
			next++
		case 2:
			c := last
			if c == 0 {
				c = next
				next++
				last = c
			}
			ops = append(ops, recvdrv.Op{Kind: "direct", Peer: 3, Cid: c, Addrs: []int{1}})
		case 3:
			ops = append(ops, recvdrv.Op{Kind: "direct", Peer: 2, Cid: next, Addrs: []int{0}})
			next++
		case 4:
			ops = append(ops, recvdrv.Op{Kind: "direct", Peer: 1, Cid: next, Addrs: []int{0}, Cancelled: true})
			last = next
			next++
		case 5:
			ops = append(ops, recvdrv.Op{Kind: "next"})
		case 6:
			ops = append(ops, recvdrv.Op{Kind: "next", Cancelled: true})
		case 7:
			ops = append(ops, recvdrv.Op{Kind: "uncache", Cid: last})
		}
	}
	return ops
}

// oracle returns "" when the observed history satisfies what the property demands
// directly (independent of the Coq model).
func oracle(ops []recvdrv.Op, obs []recvdrv.Obs) string {
	closed := false
	for i, o := range ops {
		ob := obs[i]
		if ob.Outcome == "hung" {
			return fmt.Sprintf("call %d (%s) never returned, even after its context was cancelled", i, o.Kind)
		}
		if len(ob.Outcome) > 6 && ob.Outcome[:6] == "other:" {
			return fmt.Sprintf("call %d (%s) returned unexpected error %s", i, o.Kind, ob.Outcome)
		}
		if closed {
			switch o.Kind {
			case "next":
				if ob.Outcome == "blocked" {
					return fmt.Sprintf("call %d: Next after Close blocked instead of returning ErrClosed", i)
				}
			case "direct":
				if cfg.Allowed(o.Peer) && ob.Outcome != "closed" {
					return fmt.Sprintf("call %d: Direct after Close returned %s, want ErrClosed", i, ob.Outcome)
				}
			case "close", "uncache":
				if ob.Outcome != "nil" {
					return fmt.Sprintf("call %d: %s after Close returned %s", i, o.Kind, ob.Outcome)
				}
			}
		}
		if o.Kind == "close" {
			closed = true
		}
	}
	return ""
}

func shrink(ops []recvdrv.Op, wd time.Duration) ([]recvdrv.Op, []recvdrv.Obs, string) {
	obs := recvdrv.Run(cfg, ops, wd)
	ops = ops[:len(obs)]
	msg := oracle(ops, obs)
	for changed := true; changed; {
		changed = false
		for i := 0; i < len(ops); i++ {
			cand := append(append([]recvdrv.Op{}, ops[:i]...), ops[i+1:]...)
			if len(cand) == 0 {
				continue
			}
			o2 := recvdrv.Run(cfg, cand, wd)
			cand = cand[:len(o2)]
			if m := oracle(cand, o2); m != "" {
				ops, obs, msg = cand, o2, m
				changed = true
				break
			}
		}
	}
	return ops, obs, msg
}

func main() {
	c := vlib.Init("C16")
	defer c.Finish()
	c.Family("seq", []string{"From Model Require Import Announce_Receiver."},
		"fun c => accepts (fst c) (snd c)", 600)
	wd := 40 * time.Millisecond

	if resendEntry(c) { // receivers with topic and WithResend(true): resend.go
		return
	}
	if c.Replay != "" {
		var gen struct {
			Kind      string `json:"kind"`
			Scenario  int    `json:"scenario"`
			Round     int    `json:"round"`
			RoundSeed uint64 `json:"round_seed"`
		}
		if err := c.LoadReplay(&gen); err == nil && gen.Kind == "watcher" {
			msg := watcherScenario(gen.Scenario, gen.Round)
			fmt.Printf("replay: watcher scenario %d round %d -> %q\n", gen.Scenario, gen.Round, msg)
			if msg != "" {
				fmt.Println("ORACLE-FAIL:", msg)
				c.Fail("replay", msg, gen)
			}
			c.Eval()
			return
		}
		if gen.Kind == "parallel-close" {
			msg := ""
			for i := 0; i < 60000 && msg == ""; i++ {
				msg = parallelClose(4)
			}
			fmt.Printf("replay: parallel close x60000 -> %q\n", msg)
			if msg != "" {
				fmt.Println("ORACLE-FAIL:", msg)
				c.Fail("replay", msg, gen)
			}
			c.Eval()
			return
		}
		if gen.Kind == "concurrent" {
			msg := concurrentRound(gen.RoundSeed)
			fmt.Printf("replay: concurrent round %d -> %q\n", gen.RoundSeed, msg)
			if msg != "" {
				fmt.Println("ORACLE-FAIL:", msg)
				c.Fail("replay", msg, gen)
			}
			c.Eval()
			return
		}
		var h recvdrv.History
		if err := c.LoadReplay(&h); err != nil {
			panic(err)
		}
		cfg = h.Cfg
		obs := recvdrv.Run(cfg, h.Ops, 5*wd)
		h.Ops = h.Ops[:len(obs)]
		msg := oracle(h.Ops, obs)
		fmt.Printf("replay: ops=%s\n", recvdrv.OpsSig(h.Ops))
		for i := range obs {
			fmt.Printf("  %d %s -> %s\n", i, h.Ops[i].Kind, obs[i].Outcome)
		}
		if msg != "" {
			fmt.Println("ORACLE-FAIL:", msg)
			c.Fail("replay", msg, h)
		}
		c.Case("seq", recvdrv.CoqHistory(cfg, h.Ops, obs), h)
		c.Eval()
		return
	}

	maxLen := c.Pick(4, 5)
	var words [][]int
	var gen func(prefix []int)
	gen = func(prefix []int) {
		if len(prefix) > 0 {
			words = append(words, append([]int{}, prefix...))
		}
		if len(prefix) == maxLen {
			return
		}
		for s := 0; s < nSym; s++ {
			gen(append(prefix, s))
		}
	}
	gen(nil)
	// a few seeded longer histories
	rng := c.Rng.Fork("long")
	for i := 0; i < c.Pick(150, 1500); i++ {
		n := 6 + rng.Intn(10)
		w := make([]int, n)
		for j := range w {
			w[j] = rng.Intn(nSym)
		}
		words = append(words, w)
	}
	c.Res.Exhaustive = true
	c.Res.Rule = fmt.Sprintf("all words of length 1..%d over the 8-call alphabet {Close, Direct allowed+fresh, Direct allowed+duplicate, Direct denied, Direct with cancelled ctx, Next, Next with cancelled ctx, UncacheCid} (exhaustive) plus seeded words of length 6..15, each run on a fresh real Receiver under a watchdog; non-trivial = contains a Close followed by at least one other call, or a call that blocks", maxLen)

	type job struct {
		i   int
		ops []recvdrv.Op
	}
	results := make([][]recvdrv.Obs, len(words))
	opsAll := make([][]recvdrv.Op, len(words))
	jobs := make(chan job)
	var wg sync.WaitGroup
	for w := 0; w < 2*runtime.NumCPU(); w++ {
		wg.Add(1)
		go func() {
			defer wg.Done()
			for j := range jobs {
				results[j.i] = recvdrv.RunRobust(cfg, j.ops, wd)
			}
		}()
	}
	for i, w := range words {
		opsAll[i] = build(w)
		jobs <- job{i, opsAll[i]}
	}
	close(jobs)
	wg.Wait()

	failed := 0
	for i := range words {
		ops, obs := opsAll[i], results[i]
		ops = ops[:len(obs)]
		c.Eval()
		sawClose, afterClose, blocked := false, false, false
		for k, o := range ops {
			if sawClose {
				afterClose = true
			}
			if o.Kind == "close" {
				sawClose = true
			}
			c.Count("op:" + o.Kind)
			c.Count("outcome:" + outcomeClass(obs[k].Outcome))
			if obs[k].Outcome == "blocked" {
				blocked = true
			}
		}
		if afterClose || blocked {
			c.Nontrivial(recvdrv.OpsSig(ops) + fmt.Sprint(words[i]))
		}
		h := recvdrv.History{Cfg: cfg, Ops: ops, Obs: obs}
		if i%997 == 5 {
			c.Sample(h)
		}
		c.Case("seq", recvdrv.CoqHistory(cfg, ops, obs), h)
		if msg := oracle(ops, obs); msg != "" {
			failed++
			if failed <= 3 {
				sops, sobs, smsg := shrink(ops, 5*wd)
				c.Fail("seq:"+recvdrv.OpsSig(sops)+":"+lastOutcomes(sobs), smsg, recvdrv.History{Cfg: cfg, Ops: sops, Obs: sobs})
			}
		}
	}
	c.CountN("oracle_failed_histories", failed)

	// pubsub watcher scenarios (real topic on a loopback host)
	psFails := 0
	for round := 0; round < c.Pick(3, 20) && psFails < 2; round++ {
		for kind := 0; kind < 4; kind++ {
			c.Eval()
			c.Count(fmt.Sprintf("watcher_scenario:%d", kind))
			c.Nontrivial(fmt.Sprintf("watcher-scenario-%d", kind))
			if msg := watcherScenario(kind, round); msg != "" {
				psFails++
				c.Fail(fmt.Sprintf("watcher:%d:%s", kind, msg), fmt.Sprintf("pubsub watcher scenario %d: %s", kind, msg),
					map[string]interface{}{"kind": "watcher", "scenario": kind, "round": round})
			}
		}
	}

	// simultaneous Close calls released by a barrier (close of a closed channel would panic)
	{
		iters := c.Pick(6000, 60000)
		deadline := time.Now().Add(time.Duration(c.Pick(6, 40)) * time.Second)
		done := 0
		for i := 0; i < iters && time.Now().Before(deadline); i++ {
			done++
			if msg := parallelClose(4); msg != "" {
				c.Fail("parallel-close:"+msg, "4 simultaneous Close calls + a Next waiter: "+msg, map[string]interface{}{"kind": "parallel-close", "callers": 4})
				break
			}
		}
		c.CountN("parallel_close_rounds", done)
		c.Res.Evaluations += done
		c.Nontrivial("parallel-close")
	}

	// concurrent rounds
	rounds := c.Pick(150, 1500)
	crng := c.Rng.Fork("conc")
	concFails := 0
	for r := 0; r < rounds && concFails < 3; r++ {
		seed := crng.Uint64()
		if msg := concurrentRound(seed); msg != "" {
			concFails++
			c.Fail("conc:"+msg, "concurrent round: "+msg, map[string]interface{}{"kind": "concurrent", "round_seed": seed})
		}
		c.Eval()
		c.Count("concurrent_rounds")
	}
}

func outcomeClass(s string) string {
	if len(s) > 6 && s[:6] == "other:" {
		return "other"
	}
	return s
}

func lastOutcomes(obs []recvdrv.Obs) string {
	s := ""
	for _, o := range obs {
		s += outcomeClass(o.Outcome)[:1]
	}
	return s
}

// concurrentRound races Close (once or twice) with Direct, Next and UncacheCid calls
// from several goroutines; every call must return within the bound once contexts
// expire, and calls started after Close returned must see the closed error.
func concurrentRound(seed uint64) string {
	rng := vlib.NewRand(seed)
	r, err := announce.NewReceiver(nil, "")
	if err != nil {
		return "new: " + err.Error()
	}
	var wg sync.WaitGroup
	nWorkers := 3 + rng.Intn(5)
	errs := make(chan string, 64)
	for w := 0; w < nWorkers; w++ {
		wr := rng.Fork(fmt.Sprint("w", w))
		nOps := 2 + wr.Intn(5)
		wg.Add(1)
		go func(w int) {
			defer wg.Done()
			for k := 0; k < nOps; k++ {
				ctx, cancel := context.WithTimeout(context.Background(), time.Duration(1+wr.Intn(20))*time.Millisecond)
				switch wr.Intn(6) {
				case 0:
					_ = r.Close()
				case 1, 2:
					_ = r.Direct(ctx, recvdrv.Cid(w*100+k), peer.AddrInfo{ID: recvdrv.Peer(1)})
				case 3, 4:
					_, _ = r.Next(ctx)
				case 5:
					r.UncacheCid(recvdrv.Cid(w*100 + k - 1))
				}
				cancel()
				if wr.Intn(3) == 0 {
					time.Sleep(time.Duration(wr.Intn(300)) * time.Microsecond)
				}
			}
		}(w)
	}
	done := make(chan struct{})
	go func() { wg.Wait(); close(done) }()
	select {
	case <-done:
	case <-time.After(3 * time.Second):
		return "calls racing with Close did not all return within 3s"
	}
	// final close, twice, then late calls
	fin := make(chan string, 1)
	go func() {
		_ = r.Close()
		_ = r.Close()
		r.UncacheCid(recvdrv.Cid(1))
		if err := r.Direct(context.Background(), recvdrv.Cid(777777), peer.AddrInfo{ID: recvdrv.Peer(1)}); err != announce.ErrClosed {
			fin <- fmt.Sprintf("Direct after Close returned %v", err)
			return
		}
		if _, err := r.Next(context.Background()); err != announce.ErrClosed {
			// an item may be pending in the out channel: drain once more
			if _, err2 := r.Next(context.Background()); err == nil && err2 != announce.ErrClosed {
				fin <- fmt.Sprintf("Next after Close returned %v", err2)
				return
			}
		}
		fin <- ""
	}()
	select {
	case m := <-fin:
		select {
		case e := <-errs:
			return e
		default:
		}
		return m
	case <-time.After(3 * time.Second):
		return "Close;Close;UncacheCid;Direct;Next after a concurrent round did not return within 3s"
	}
}

// parallelClose releases n Close calls at the same instant on a fresh receiver with a
// Next waiter; all must return without panicking and the waiter must get ErrClosed.
func parallelClose(n int) string {
	r, err := announce.NewReceiver(nil, "")
	if err != nil {
		return "new: " + err.Error()
	}
	start := make(chan struct{})
	res := make(chan string, n+1)
	go func() {
		_, err := r.Next(context.Background())
		if err != announce.ErrClosed {
			res <- fmt.Sprintf("Next returned %v, want ErrClosed", err)
			return
		}
		res <- ""
	}()
	for i := 0; i < n; i++ {
		go func() {
			defer func() {
				if x := recover(); x != nil {
					res <- fmt.Sprint("Close panicked: ", x)
				}
			}()
			<-start
			if err := r.Close(); err != nil {
				res <- "Close returned " + err.Error()
				return
			}
			res <- ""
		}()
	}
	close(start)
	for i := 0; i < n+1; i++ {
		select {
		case m := <-res:
			if m != "" {
				return m
			}
		case <-time.After(3 * time.Second):
			return "a Close or the Next waiter did not return within 3s"
		}
	}
	return ""
}
