package main

// Scenarios with a real pubsub topic: the watcher goroutine is parked at a chosen point
// (inside the allow-peer callback, i.e. after it took a message off the subscription and
// before it takes announceMutex; or blocked sending to a full out channel) while Close,
// Next, Direct and UncacheCid are called.  Everything must return within the watchdog
// and the watcher must exit (Close waits for it).

import (
	"context"
	"errors"
	"fmt"
	"sync"
	"time"

	"github.com/ipni/go-libipni/announce"
	"github.com/ipni/go-libipni/announce/gossiptopic"
	"github.com/ipni/go-libipni/announce/message"
	"github.com/ipni/go-libipni/announce/p2psender"
	"github.com/libp2p/go-libp2p"
	"github.com/libp2p/go-libp2p/core/peer"

	"verif/harness/recvdrv"
)

const psWait = 3 * time.Second

func within(d time.Duration, f func() error) (error, bool) {
	ch := make(chan error, 1)
	go func() { ch <- f() }()
	select {
	case err := <-ch:
		return err, true
	case <-time.After(d):
		return nil, false
	}
}

// watcherScenario returns "" when every call returned in time with the result the
// property demands.  kind: 0 watcher parked before the lock; 1 watcher blocked on a
// full out channel; 2 idle watcher; 3 parked watcher + two concurrent Close + Direct.
func watcherScenario(kind int, round int) (msg string) {
	defer func() {
		if x := recover(); x != nil {
			msg = fmt.Sprint("panic: ", x)
		}
	}()
	h, err := libp2p.New(libp2p.ListenAddrStrings("/ip4/127.0.0.1/tcp/0"), libp2p.DisableRelay())
	if err != nil {
		return "harness: cannot create host: " + err.Error()
	}
	defer h.Close()
	topicName := fmt.Sprintf("/verif/c16/%d/%d", kind, round)
	topic, cancelPubsub, err := gossiptopic.MakeTopic(h, topicName)
	if err != nil {
		return "harness: cannot make topic: " + err.Error()
	}
	defer cancelPubsub()

	entered := make(chan struct{})
	release := make(chan struct{})
	var once sync.Once
	park := kind == 0 || kind == 3
	gate := func(p peer.ID) bool {
		if park && p == h.ID() {
			once.Do(func() {
				close(entered)
				<-release
			})
		}
		return true
	}
	rcvr, err := announce.NewReceiver(h, topicName, announce.WithTopic(topic), announce.WithAllowPeer(gate))
	if err != nil {
		return "harness: cannot create receiver: " + err.Error()
	}
	sender, err := p2psender.New(nil, "", p2psender.WithTopic(topic))
	if err != nil {
		return "harness: cannot create sender: " + err.Error()
	}
	send := func(i int) error {
		m := message.Message{Cid: recvdrv.Cid(900000 + 100*round + i)}
		return sender.Send(context.Background(), m)
	}
	released := false
	doRelease := func() {
		if !released {
			released = true
			close(release)
		}
	}
	defer doRelease()

	switch kind {
	case 0, 3:
		if err := send(1); err != nil {
			return "harness: send: " + err.Error()
		}
		select {
		case <-entered:
		case <-time.After(psWait):
			return "harness: pubsub message did not reach the watcher"
		}
	case 1:
		// two messages: the first fills the out channel, the second blocks the watcher
		if err := send(1); err != nil {
			return "harness: send: " + err.Error()
		}
		if err := send(2); err != nil {
			return "harness: send: " + err.Error()
		}
		time.Sleep(150 * time.Millisecond)
	case 2:
	}

	closeDone := make(chan error, 2)
	go func() { closeDone <- rcvr.Close() }()
	if kind == 3 {
		go func() { closeDone <- rcvr.Close() }()
	}

	// Next must report closed (or hand out a pending item first) promptly, even while
	// the watcher is parked
	for i := 0; i < 3; i++ {
		var nerr error
		_, ok := within(psWait, func() error { _, nerr = rcvr.Next(context.Background()); return nil })
		if !ok {
			return "Next did not return within the watchdog while Close was in progress"
		}
		if nerr != nil {
			if !errors.Is(nerr, announce.ErrClosed) {
				return "Next returned " + nerr.Error() + ", want ErrClosed"
			}
			break
		}
		if i == 2 {
			return "Next kept returning announcements after Close"
		}
	}
	if kind == 3 {
		derr, ok := within(psWait, func() error {
			return rcvr.Direct(context.Background(), recvdrv.Cid(777), peer.AddrInfo{ID: recvdrv.Peer(1)})
		})
		if !ok {
			return "Direct did not return within the watchdog while Close waits for the parked watcher"
		}
		if !errors.Is(derr, announce.ErrClosed) {
			return fmt.Sprintf("Direct after Close set closed returned %v, want ErrClosed", derr)
		}
		if _, ok := within(psWait, func() error { rcvr.UncacheCid(recvdrv.Cid(777)); return nil }); !ok {
			return "UncacheCid did not return within the watchdog while Close waits for the parked watcher"
		}
	}
	doRelease()
	n := 1
	if kind == 3 {
		n = 2
	}
	for i := 0; i < n; i++ {
		select {
		case <-closeDone:
		case <-time.After(psWait):
			return "Close did not return: the watcher goroutine never exited"
		}
	}
	// later calls stay prompt
	lerr, ok := within(psWait, func() error {
		rcvr.UncacheCid(recvdrv.Cid(1))
		if err := rcvr.Close(); err != nil {
			return err
		}
		err := rcvr.Direct(context.Background(), recvdrv.Cid(778), peer.AddrInfo{ID: recvdrv.Peer(1)})
		if !errors.Is(err, announce.ErrClosed) {
			return fmt.Errorf("Direct after Close returned %v, want ErrClosed", err)
		}
		return nil
	})
	if !ok {
		return "UncacheCid/Close/Direct after Close did not return within the watchdog"
	}
	if lerr != nil {
		return lerr.Error()
	}
	_ = sender
	return ""
}
